(* Proofs about Model/Linked.v (property C20). *)
From GV Require Import Prelude.Base Model.Linked.
Unset Implicit Arguments.
Arguments hset : simpl never.
Arguments hget : simpl never.

(* ------------------------------------------------------------------ finite maps *)
Lemma dget_dset_same {V} k (v : V) d : dget k (dset k v d) = Some v.
Proof.
  induction d as [|[k' v'] r IH]; simpl; [rewrite Nat.eqb_refl; reflexivity|].
  destruct (Nat.eqb k k') eqn:E; simpl; [rewrite Nat.eqb_refl; reflexivity|].
  destruct (Nat.ltb k k'); simpl; [rewrite Nat.eqb_refl; reflexivity|]. rewrite E. exact IH.
Qed.

Lemma dget_dset_other {V} j k (v : V) d : j <> k -> dget j (dset k v d) = dget j d.
Proof.
  intros Hjk. assert (Ejk : Nat.eqb j k = false) by (apply Nat.eqb_neq; exact Hjk).
  induction d as [|[k' v'] r IH]; simpl; [rewrite Ejk; reflexivity|].
  destruct (Nat.eqb k k') eqn:E; simpl.
  - apply Nat.eqb_eq in E. subst k'. rewrite Ejk. reflexivity.
  - destruct (Nat.ltb k k'); simpl; [rewrite Ejk; reflexivity|]. destruct (Nat.eqb j k'); [reflexivity | exact IH].
Qed.

Lemma dset_in {V} k (v : V) d k0 v0 : In (k0, v0) (dset k v d) -> (k0 = k /\ v0 = v) \/ In (k0, v0) d.
Proof.
  induction d as [|[k' v'] r IH]; simpl; intros H.
  - destruct H as [H|[]]. inversion H. left. split; reflexivity.
  - destruct (Nat.eqb k k'); [|destruct (Nat.ltb k k')]; simpl in H.
    + destruct H as [H|H]; [inversion H; left; split; reflexivity | right; right; exact H].
    + destruct H as [H|H]; [inversion H; left; split; reflexivity | right; exact H].
    + destruct H as [H|H]; [right; left; exact H|]. destruct (IH H) as [H1|H1]; [left; exact H1 | right; right; exact H1].
Qed.

Lemma hget_hset_same {V} l (d : list V) h : hget l (hset l d h) = d.
Proof. unfold hset, hget. rewrite N.eqb_refl. reflexivity. Qed.

Lemma hget_hset_other {V} l l' (d : list V) h : l' <> l -> hget l' (hset l d h) = hget l' h.
Proof. intros H. unfold hset. unfold hget at 1. fold (@hget V). destruct (N.eqb l' l) eqn:E; [apply N.eqb_eq in E; contradiction | reflexivity]. Qed.

Lemma same_ent_spec w u e : same_ent w u e = true <-> (wsp e = w /\ uid e = u).
Proof.
  unfold same_ent. rewrite andb_true_iff, N.eqb_eq. split.
  - intros [H1 H2]. apply eqb_prop in H1. split; [symmetry; exact H1 | symmetry; exact H2].
  - intros [H1 H2]. subst. split; [apply eqb_reflx | reflexivity].
Qed.

Lemma get_ent_some w u l e : get_ent w u l = Some e -> wsp e = w /\ uid e = u.
Proof.
  induction l as [|x r IH]; simpl; [discriminate|]. destruct (same_ent w u x) eqn:E; [|exact IH].
  intros H. inversion H; subst. apply same_ent_spec. exact E.
Qed.

Lemma get_put_same e l : get_ent (wsp e) (uid e) (put_ent e l) = Some e.
Proof.
  assert (Hs : same_ent (wsp e) (uid e) e = true) by (apply same_ent_spec; split; reflexivity).
  induction l as [|x r IH]; simpl; [rewrite Hs; reflexivity|].
  destruct (same_ent (wsp e) (uid e) x) eqn:E; simpl; [rewrite Hs; reflexivity | rewrite E; exact IH].
Qed.

Lemma get_put_other e l w u : (wsp e <> w \/ uid e <> u) -> get_ent w u (put_ent e l) = get_ent w u l.
Proof.
  intros Hne. assert (Hs : same_ent w u e = false).
  { destruct (same_ent w u e) eqn:E; [|reflexivity]. apply same_ent_spec in E. destruct E, Hne; contradiction. }
  induction l as [|x r IH]; simpl; [rewrite Hs; reflexivity|].
  destruct (same_ent (wsp e) (uid e) x) eqn:E; simpl.
  - rewrite Hs. apply same_ent_spec in E. destruct E as [E1 E2].
    destruct (same_ent w u x) eqn:E3; [|reflexivity]. apply same_ent_spec in E3. destruct E3 as [E4 E5].
    exfalso. destruct Hne as [H|H]; apply H; congruence.
  - destruct (same_ent w u x); [reflexivity | exact IH].
Qed.

Lemma fget_fput_same w u d f : fget w u (fput w u d f) = Some d.
Proof.
  induction f as [|[[w' u'] d'] r IH]; simpl.
  - rewrite eqb_reflx, N.eqb_refl. reflexivity.
  - destruct (Bool.eqb w w' && N.eqb u u') eqn:E; simpl; [rewrite eqb_reflx, N.eqb_refl; reflexivity | rewrite E; exact IH].
Qed.

Lemma fget_fput_other w u d f w2 u2 : (w2 <> w \/ u2 <> u) -> fget w2 u2 (fput w u d f) = fget w2 u2 f.
Proof.
  intros Hne. assert (Hs : Bool.eqb w2 w && N.eqb u2 u = false).
  { destruct (Bool.eqb w2 w && N.eqb u2 u) eqn:E; [|reflexivity]. apply andb_true_iff in E. destruct E as [E1 E2].
    apply eqb_prop in E1. apply N.eqb_eq in E2. destruct Hne; contradiction. }
  induction f as [|[[w' u'] d'] r IH]; simpl; [rewrite Hs; reflexivity|].
  destruct (Bool.eqb w w' && N.eqb u u') eqn:E; simpl.
  - rewrite Hs. apply andb_true_iff in E. destruct E as [E1 E2]. apply eqb_prop in E1. apply N.eqb_eq in E2. subst w' u'. rewrite Hs. reflexivity.
  - destruct (Bool.eqb w2 w' && N.eqb u2 u'); [reflexivity | exact IH].
Qed.

Lemma expand_dget h k d : dget k (expand h d) = option_map (expand_val h) (dget k d).
Proof.
  induction d as [|[k' v] r IH]; simpl; [reflexivity|]. destruct (Nat.eqb k k'); [reflexivity | exact IH].
Qed.

(* ------------------------------------------------------------------ references stay below the allocation counter *)
Definition refs_below (n : N) (d : dict) : Prop := forall k wl, In (k, VRef wl) d -> (wl < n)%N.

Lemma expand_ext h h' d : (forall k wl, In (k, VRef wl) d -> hget wl h' = hget wl h) -> expand h' d = expand h d.
Proof.
  intros H. unfold expand. apply map_ext_in. intros [k v] Hin. simpl. f_equal.
  destruct v; try reflexivity. simpl. f_equal. apply (H k l). exact Hin.
Qed.

(* loading the stored JSON: the loaded dict reads back as the JSON, older cells are untouched *)
Lemma load_spec : forall fd s d s1,
  load fd s = (d, s1) ->
  ents s1 = ents s /\ heap s1 = heap s /\ file s1 = file s /\ (next s <= next s1)%N
  /\ expand (wheap s1) d = fd
  /\ (forall wl, (wl < next s)%N -> hget wl (wheap s1) = hget wl (wheap s))
  /\ refs_below (next s1) d.
Proof.
  induction fd as [|[k v] r IH]; intros s d s1 E; simpl in E.
  - inversion E; subst. repeat split; try reflexivity; try lia. intros k wl [].
  - destruct (load r s) as [d0 s0] eqn:E0. destruct (IH _ _ _ E0) as [H1 [H2 [H3 [H4 [H5 [H6 H7]]]]]].
    destruct v as [u|z|dd|].
    + inversion E; subst d s1; clear E. repeat split; try assumption. simpl. f_equal. exact H5.
      intros k0 wl [Hx|Hx]; [inversion Hx | apply (H7 k0 wl Hx)].
    + inversion E; subst d s1; clear E. repeat split; try assumption. simpl. f_equal. exact H5.
      intros k0 wl [Hx|Hx]; [inversion Hx | apply (H7 k0 wl Hx)].
    + inversion E; subst d s1; clear E.
      set (l := next s0).
      change (ents s0 = ents s /\ heap s0 = heap s /\ file s0 = file s /\ (next s <= N.succ (next s0))%N
              /\ expand (hset l dd (wheap s0)) ((k, VRef l) :: d0) = (k, FD dd) :: r
              /\ (forall wl, (wl < next s)%N -> hget wl (hset l dd (wheap s0)) = hget wl (wheap s))
              /\ refs_below (N.succ (next s0)) ((k, VRef l) :: d0)).
      repeat split; try assumption; try lia.
      * unfold expand. simpl map. f_equal.
        -- simpl. rewrite hget_hset_same. reflexivity.
        -- fold (expand (hset l dd (wheap s0)) d0). rewrite <- H5. apply expand_ext. intros k0 wl Hin.
           apply hget_hset_other. apply H7 in Hin. unfold l. lia.
      * intros wl Hwl. rewrite hget_hset_other by (unfold l; lia). apply H6. exact Hwl.
      * intros k0 wl [Hx|Hx]; [inversion Hx; subst; unfold l; lia | apply H7 in Hx; lia].
    + inversion E; subst d s1; clear E. repeat split; try assumption. simpl. f_equal. exact H5.
      intros k0 wl [Hx|Hx]; [inversion Hx | apply (H7 k0 wl Hx)].
Qed.

(* ------------------------------------------------------------------ the invariant of a linked pair *)
Definition ptr_ok (s : st) (l : N) : Prop := (l < next s)%N /\ refs_below (next s) (hget l (heap s)).

Definition live_ok (s : st) (e : ent) (fd : fdict) : Prop :=
  match md e with None => True | Some l => read s l = fd /\ ptr_ok s l end.

(* what the metadata getter of e returns: the cached dict, else the stored JSON *)
Definition sees (s : st) (e : ent) : option fdict :=
  match md e with Some l => Some (read s l) | None => fget (wsp e) (uid e) (file s) end.

(* entities u1 (some role r) and u2 (the other role) of workspace w are linked, consistent and stored *)
Definition inv (s : st) (w : bool) (u1 u2 : N) : Prop :=
  exists e1 e2 fd,
    get_ent w u1 (ents s) = Some e1 /\ get_ent w u2 (ents s) = Some e2 /\ u1 <> u2 /\
    rol e2 = other (rol e1) /\ is_dc (fam e1) = false /\ is_dc (fam e2) = false /\
    fget w u1 (file s) = Some fd /\ fget w u2 (file s) = Some fd /\
    dget (key_of (rol e1)) fd = Some (FU u1) /\ dget (key_of (rol e2)) fd = Some (FU u2) /\
    live_ok s e1 fd /\ live_ok s e2 fd /\
    (cache e1 = None \/ cache e1 = Some u2) /\ (cache e2 = None \/ cache e2 = Some u1).

Lemma other_other r : other (other r) = r.
Proof. destruct r; reflexivity. Qed.

Lemma key_other r : key_of (other r) <> key_of r.
Proof. destruct r; discriminate. Qed.

Lemma inv_sym s w u1 u2 : inv s w u1 u2 -> inv s w u2 u1.
Proof.
  intros (e1 & e2 & fd & H1 & H2 & H3 & H4 & H5 & H6 & H7 & H8 & H9 & H10 & H11 & H12 & H13 & H14).
  exists e2, e1, fd. repeat split; try assumption.
  - intros E. apply H3. symmetry. exact E.
  - rewrite H4, other_other. reflexivity.
Qed.

Lemma expand_val_FU h v u : expand_val h v = FU u -> v = VU u.
Proof. destruct v; simpl; intros E; inversion E; reflexivity. Qed.

Lemma read_names s l k u : dget k (read s l) = Some (FU u) -> dget k (hget l (heap s)) = Some (VU u).
Proof.
  unfold read. rewrite expand_dget. destruct (dget k (hget l (heap s))) as [v|]; simpl; [|discriminate].
  intros E. inversion E as [E1]. apply expand_val_FU in E1. subst. reflexivity.
Qed.

(* ------------------------------------------------------------------ the metadata getter *)
(* the getter of an entity that already has a cached or a stored dict: it ends with a cached dict that reads the same;
   nothing else moves *)
Lemma em_md_spec s e fd0 :
  get_ent (wsp e) (uid e) (ents s) = Some e ->
  sees s e = Some fd0 -> (forall l, md e = Some l -> ptr_ok s l) ->
  forall l s1, em_md s e = (l, s1) ->
  let e' := with_md e (Some l) in
  get_ent (wsp e) (uid e) (ents s1) = Some e' /\ read s1 l = fd0 /\ ptr_ok s1 l
  /\ (forall w u, (wsp e <> w \/ uid e <> u) -> get_ent w u (ents s1) = get_ent w u (ents s))
  /\ file s1 = file s /\ (next s <= next s1)%N
  /\ (forall l0, ptr_ok s l0 -> read s1 l0 = read s l0 /\ ptr_ok s1 l0)
  /\ (forall l0, ptr_ok s l0 -> hget l0 (heap s1) = hget l0 (heap s))
  /\ (md e = Some l \/ (next s <= l)%N).
Proof.
  intros Hget Hsees Hptr l s1 E. unfold em_md in E. unfold sees in Hsees.
  destruct (md e) as [l0|] eqn:Emd.
  - inversion E; subst. inversion Hsees; subst. cbv zeta.
    assert (Ee : with_md e (Some l) = e) by (destruct e; simpl in *; subst; reflexivity).
    rewrite Ee. split; [exact Hget|]. split; [reflexivity|]. split; [apply (Hptr l eq_refl)|].
    split; [intros; reflexivity|]. split; [reflexivity|]. split; [lia|]. split; [intros l0 H; split; [reflexivity | exact H]|]. split; [intros; reflexivity | left; reflexivity].
  - rewrite Hsees in E. destruct (load fd0 s) as [d s0] eqn:El.
    destruct (load_spec _ _ _ _ El) as [H1 [H2 [H3 [H4 [H5 [H6 H7]]]]]].
    inversion E; subst l s1; clear E. cbv zeta.
    set (l := next s0).
    change (get_ent (wsp e) (uid e) (put_ent (with_md e (Some l)) (ents s0)) = Some (with_md e (Some l))
            /\ expand (wheap s0) (hget l (hset l d (heap s0))) = fd0
            /\ ((l < N.succ (next s0))%N /\ refs_below (N.succ (next s0)) (hget l (hset l d (heap s0))))
            /\ (forall w u, wsp e <> w \/ uid e <> u -> get_ent w u (put_ent (with_md e (Some l)) (ents s0)) = get_ent w u (ents s))
            /\ file s0 = file s /\ (next s <= N.succ (next s0))%N
            /\ (forall l0, ptr_ok s l0 ->
                  expand (wheap s0) (hget l0 (hset l d (heap s0))) = read s l0
                  /\ ((l0 < N.succ (next s0))%N /\ refs_below (N.succ (next s0)) (hget l0 (hset l d (heap s0)))))
            /\ (forall l0, ptr_ok s l0 -> hget l0 (hset l d (heap s0)) = hget l0 (heap s))
            /\ (None = Some l \/ (next s <= l)%N)).
    rewrite hget_hset_same. repeat split; try assumption; try (unfold l; lia).
    + apply (get_put_same (with_md e (Some l))).
    + intros k wl Hin. apply H7 in Hin. lia.
    + intros w u Hne. rewrite H1. apply (get_put_other (with_md e (Some l))). exact Hne.
    + destruct H as [Hl0 Hr0]. rewrite hget_hset_other by (unfold l; lia). rewrite H2. unfold read.
      apply expand_ext. intros k wl Hin. apply H6. apply (Hr0 k wl Hin).
    + destruct H as [Hl0 _]. lia.
    + destruct H as [Hl0 Hr0]. rewrite hget_hset_other by (unfold l; lia). rewrite H2.
      intros k wl Hin. apply Hr0 in Hin. lia.
    + intros l0 H. destruct H as [Hl0 Hr0]. rewrite hget_hset_other by (unfold l; lia). rewrite H2. reflexivity.
Qed.

(* ------------------------------------------------------------------ the metadata setter *)
Lemma read_set_ents s l ents' : read (set_ents s ents') l = read s l.
Proof. reflexivity. Qed.
Lemma read_set_file s l f : read (set_file s f) l = read s l.
Proof. reflexivity. Qed.

Lemma with_md_fields e m : uid (with_md e m) = uid e /\ wsp (with_md e m) = wsp e /\ rol (with_md e m) = rol e
                           /\ fam (with_md e m) = fam e /\ cache (with_md e m) = cache e /\ md (with_md e m) = m.
Proof. repeat split. Qed.

(* the setter called on e1 with the dict object l, when the partner e2 is resolvable: both entities end up holding l,
   both stored copies equal what l reads, and the pair invariant holds provided l names both *)
Lemma em_assign_inv s w u1 u2 e1 e2 l :
  get_ent w u1 (ents s) = Some e1 -> get_ent w u2 (ents s) = Some e2 -> u1 <> u2 ->
  rol e2 = other (rol e1) -> is_dc (fam e1) = false -> is_dc (fam e2) = false ->
  ptr_ok s l ->
  dget (key_of (rol e1)) (read s l) = Some (FU u1) -> dget (key_of (rol e2)) (read s l) = Some (FU u2) ->
  (cache e1 = None \/ cache e1 = Some u2) -> (cache e2 = None \/ cache e2 = Some u1) ->
  let s' := em_assign s e1 l in
  inv s' w u1 u2 /\ heap s' = heap s /\ wheap s' = wheap s /\ next s' = next s
  /\ fget w u1 (file s') = Some (read s l)
  /\ (forall w0 u0, (w0 <> w \/ (u0 <> u1 /\ u0 <> u2)) -> get_ent w0 u0 (ents s') = get_ent w0 u0 (ents s)
                                                        /\ fget w0 u0 (file s') = fget w0 u0 (file s))
  /\ (forall x, (get_ent w u1 (ents s') = Some x \/ get_ent w u2 (ents s') = Some x) -> md x = Some l).
Proof.
  intros G1 G2 Hne Hrol Hf1 Hf2 Hptr Hk1 Hk2 Hc1 Hc2.
  destruct (get_ent_some _ _ _ _ G1) as [W1 U1]. destruct (get_ent_some _ _ _ _ G2) as [W2 U2].
  unfold em_assign. cbv zeta.
  set (e1a := with_md e1 (Some l)).
  set (s1 := store (set_ents s (put_ent e1a (ents s))) e1a l).
  assert (G2' : get_ent w u2 (ents s1) = Some e2).
  { unfold s1, store. simpl. rewrite <- G2. apply (get_put_other e1a). right. simpl. rewrite U1. exact Hne. }
  assert (Hres : resolve s1 e1a l (key_of (other (rol e1))) = Some e2).
  { unfold resolve. simpl rol. destruct (Nat.eqb (key_of (other (rol e1))) (key_of (rol e1))) eqn:Ek.
    - apply Nat.eqb_eq in Ek. exfalso. apply (key_other (rol e1)). exact Ek.
    - simpl cache. simpl wsp. rewrite W1. destruct Hc1 as [Hc|Hc]; rewrite Hc.
      + rewrite <- Hrol. unfold s1, store. simpl heap. rewrite (read_names s l _ _ Hk2). exact G2'.
      + exact G2'. }
  rewrite Hres.
  assert (Hns : same_ent (wsp e1) (uid e1) e2 = false).
  { destruct (same_ent (wsp e1) (uid e1) e2) eqn:E; [|reflexivity]. apply same_ent_spec in E. destruct E as [_ E]. exfalso. apply Hne. congruence. }
  rewrite Hns.
  set (e1b := if cache e1a then e1a else with_cache e1a (Some (uid e2))).
  set (e2a := with_md e2 (Some l)).
  assert (Hf1b : uid e1b = u1 /\ wsp e1b = w /\ rol e1b = rol e1 /\ fam e1b = fam e1 /\ md e1b = Some l /\ cache e1b = Some u2).
  { unfold e1b. simpl. destruct Hc1 as [Hc|Hc]; rewrite Hc; simpl; repeat split; try assumption; try congruence. }
  destruct Hf1b as (A1 & A2 & A3 & A4 & A5 & A6).
  match goal with |- inv ?X _ _ _ /\ _ => set (s' := X) end.
  assert (Hents : ents s' = put_ent e2a (put_ent e1b (ents s1))) by reflexivity.
  assert (Hheap : heap s' = heap s) by reflexivity.
  assert (Hwheap : wheap s' = wheap s) by reflexivity.
  assert (Hnext : next s' = next s) by reflexivity.
  assert (Hread : read s' l = read s l) by reflexivity.
  assert (Hfile : file s' = fput w u2 (read s l) (fput w u1 (read s l) (file s))).
  { unfold s', store. simpl. unfold e2a, e1a. simpl. rewrite W1, U1, W2, U2. reflexivity. }
  assert (G1' : get_ent w u1 (ents s') = Some e1b).
  { rewrite Hents. rewrite (get_put_other e2a) by (right; simpl; rewrite U2; intros E; apply Hne; symmetry; exact E).
    rewrite <- A1, <- A2. apply get_put_same. }
  assert (G2'' : get_ent w u2 (ents s') = Some e2a).
  { rewrite Hents. replace w with (wsp e2a) by exact W2. replace u2 with (uid e2a) by exact U2. apply get_put_same. }
  split; [|split; [exact Hheap | split; [exact Hwheap | split; [exact Hnext | split; [|split]]]]].
  4: { intros x [Hx|Hx]; [rewrite G1' in Hx | rewrite G2'' in Hx]; inversion Hx; subst x; [exact A5 | reflexivity]. }
  - exists e1b, e2a, (read s l).
    split; [exact G1'|]. split; [exact G2''|]. split; [exact Hne|].
    split; [simpl; rewrite A3; exact Hrol|]. split; [rewrite A4; exact Hf1|]. split; [exact Hf2|].
    split; [rewrite Hfile; rewrite fget_fput_other by (right; exact Hne); apply fget_fput_same|].
    split; [rewrite Hfile; apply fget_fput_same|].
    split; [rewrite A3; exact Hk1|]. split; [exact Hk2|].
    split; [unfold live_ok; rewrite A5; split; [exact Hread | exact Hptr]|].
    split; [unfold live_ok; simpl; split; [exact Hread | exact Hptr]|].
    split; [right; exact A6 | exact Hc2].
  - rewrite Hfile. rewrite fget_fput_other by (right; exact Hne). apply fget_fput_same.
  - intros w0 u0 Hother. split.
    + rewrite Hents. rewrite (get_put_other e2a) by (simpl; rewrite W2, U2; destruct Hother as [H|[_ H]]; [left; intros E; apply H; symmetry; exact E | right; intros E; apply H; symmetry; exact E]).
      rewrite (get_put_other e1b) by (rewrite A1, A2; destruct Hother as [H|[H _]]; [left; intros E; apply H; symmetry; exact E | right; intros E; apply H; symmetry; exact E]).
      unfold s1, store. simpl. apply (get_put_other e1a). simpl. rewrite W1, U1.
      destruct Hother as [H|[H _]]; [left; intros E; apply H; symmetry; exact E | right; intros E; apply H; symmetry; exact E].
    + rewrite Hfile. rewrite fget_fput_other by (destruct Hother as [H|[_ H]]; [left; exact H | right; exact H]).
      apply fget_fput_other. destruct Hother as [H|[H _]]; [left; exact H | right; exact H].
Qed.

(* ------------------------------------------------------------------ edit_em_metadata *)
Definition val_ok (s : st) (v : val) : Prop := match v with VRef wl => (wl < next s)%N | _ => True end.

Definition cache_ok (e : ent) (u : N) : Prop := cache e = None \/ cache e = Some u.

Lemma refresh_get s e e' : get_ent (wsp e) (uid e) (ents s) = Some e' -> refresh s e = e'.
Proof. intros H. unfold refresh. rewrite H. reflexivity. Qed.

(* an edit through e1 of a key other than its own link key, when e1 can resolve e2 (cached, or named by the dict after
   the edit): both entities end up with the same dict, stored for both, naming both *)
Lemma em_edit_inv s w u1 u2 e1 e2 fd0 k v :
  get_ent w u1 (ents s) = Some e1 -> get_ent w u2 (ents s) = Some e2 -> u1 <> u2 ->
  rol e2 = other (rol e1) -> is_dc (fam e1) = false -> is_dc (fam e2) = false ->
  sees s e1 = Some fd0 -> (forall l, md e1 = Some l -> ptr_ok s l) ->
  dget (key_of (rol e1)) fd0 = Some (FU u1) ->
  k <> key_of (rol e1) ->
  ((k = key_of (rol e2) /\ v = VU u2) \/ (k <> key_of (rol e2) /\ dget (key_of (rol e2)) fd0 = Some (FU u2))) ->
  val_ok s v -> cache_ok e1 u2 -> cache_ok e2 u1 ->
  let s' := em_edit s e1 k v in
  inv s' w u1 u2
  /\ (exists fd', fget w u1 (file s') = Some fd' /\ dget k fd' = Some (expand_val (wheap s') v)
                  /\ forall j, j <> k -> dget j fd' = dget j fd0)
  /\ (next s <= next s')%N
  /\ (forall w0 u0, (w0 <> w \/ (u0 <> u1 /\ u0 <> u2)) -> get_ent w0 u0 (ents s') = get_ent w0 u0 (ents s)
                                                        /\ fget w0 u0 (file s') = fget w0 u0 (file s))
  /\ (forall l0, ptr_ok s l0 -> (forall l, md e1 = Some l -> l0 <> l) -> read s' l0 = read s l0 /\ ptr_ok s' l0)
  /\ (forall l0, md e1 = Some l0 ->
        forall x, (get_ent w u1 (ents s') = Some x \/ get_ent w u2 (ents s') = Some x) -> md x = Some l0).
Proof.
  intros G1 G2 Hne Hrol Hf1 Hf2 Hsees Hptr Hown Hk Hother Hv Hc1 Hc2.
  destruct (get_ent_some _ _ _ _ G1) as [W1 U1]. destruct (get_ent_some _ _ _ _ G2) as [W2 U2].
  unfold em_edit. cbv zeta. destruct (em_md s e1) as [l s1] eqn:Em.
  assert (G1s : get_ent (wsp e1) (uid e1) (ents s) = Some e1) by (rewrite W1, U1; exact G1).
  destruct (em_md_spec s e1 fd0 G1s Hsees Hptr l s1 Em) as (A1 & A2 & A3 & A4 & A5 & A6 & A7 & A8 & A9).
  set (e1' := with_md e1 (Some l)) in *.
  set (d := hget l (heap s1)).
  set (s2 := set_heap s1 (hset l (dset k v d) (heap s1))).
  assert (Hr : refresh s2 e1 = e1') by (apply refresh_get; exact A1).
  rewrite Hr.
  assert (G1' : get_ent w u1 (ents s2) = Some e1') by (rewrite <- W1, <- U1; exact A1).
  assert (G2' : get_ent w u2 (ents s2) = Some e2).
  { change (get_ent w u2 (ents s1) = Some e2). rewrite A4; [exact G2|]. right. rewrite U1. exact Hne. }
  assert (Hread2 : read s2 l = expand (wheap s1) (dset k v d)).
  { unfold read, s2. simpl. rewrite hget_hset_same. reflexivity. }
  assert (Hptr2 : ptr_ok s2 l).
  { destruct A3 as [Hl Hrefs]. split; [exact Hl|]. unfold s2. simpl. rewrite hget_hset_same.
    intros k0 wl Hin. apply dset_in in Hin. destruct Hin as [[_ Ev]|Hin].
    - subst v. simpl in Hv. simpl. lia.
    - apply (Hrefs k0 wl Hin). }
  assert (Hn1 : dget (key_of (rol e1')) (read s2 l) = Some (FU u1)).
  { rewrite Hread2, expand_dget, dget_dset_other by (intros E; apply Hk; symmetry; exact E).
    rewrite <- expand_dget. fold d. change (dget (key_of (rol e1)) (read s1 l) = Some (FU u1)). rewrite A2. exact Hown. }
  assert (Hn2 : dget (key_of (rol e2)) (read s2 l) = Some (FU u2)).
  { rewrite Hread2, expand_dget. destruct Hother as [[Ek Ev]|[Ek Hd]].
    - subst k v. rewrite dget_dset_same. reflexivity.
    - rewrite dget_dset_other by (intros E; apply Ek; symmetry; exact E). rewrite <- expand_dget.
      change (dget (key_of (rol e2)) (read s1 l) = Some (FU u2)). rewrite A2. exact Hd. }
  destruct (em_assign_inv s2 w u1 u2 e1' e2 l G1' G2' Hne Hrol Hf1 Hf2 Hptr2 Hn1 Hn2 Hc1 Hc2) as (B1 & B2 & B3 & B4 & B5 & B6 & B7).
  split; [exact B1|]. split; [|split; [|split; [|split]]].
  5: { intros l0 El0 x Hx. assert (l = l0) by (unfold em_md in Em; rewrite El0 in Em; inversion Em; reflexivity). subst l0. apply (B7 x Hx). }
  - exists (read s2 l). split; [exact B5|]. split.
    + rewrite Hread2, expand_dget, dget_dset_same. rewrite B3. reflexivity.
    + intros j Hj. rewrite Hread2, expand_dget, dget_dset_other by exact Hj. rewrite <- expand_dget.
      change (dget j (read s1 l) = dget j fd0). rewrite A2. reflexivity.
  - rewrite B4. exact A6.
  - intros w0 u0 Hoth. destruct (B6 w0 u0 Hoth) as [C1 C2]. split.
    + rewrite C1. change (get_ent w0 u0 (ents s1) = get_ent w0 u0 (ents s)). apply A4.
      rewrite W1, U1. destruct Hoth as [H|[H _]]; [left; intros E; apply H; symmetry; exact E | right; intros E; apply H; symmetry; exact E].
    + rewrite C2. change (fget w0 u0 (file s1) = fget w0 u0 (file s)). rewrite A5. reflexivity.
  - intros l0 Hl0 Hdiff. destruct (A7 l0 Hl0) as [R1 R2].
    assert (Hl0l : l0 <> l).
    { unfold em_md in Em. destruct (md e1) as [lm|] eqn:Emd.
      - inversion Em; subst. apply (Hdiff l eq_refl).
      - unfold sees in Hsees. rewrite Emd in Hsees. rewrite Hsees in Em. destruct (load fd0 s) as [dd s0] eqn:El.
        inversion Em; subst. destruct (load_spec _ _ _ _ El) as (_ & _ & _ & Hle & _). destruct Hl0 as [Hl0 _]. lia. }
    split.
    + unfold read. rewrite B2, B3. unfold s2. simpl. rewrite hget_hset_other by exact Hl0l. exact R1.
    + destruct R2 as [R2a R2b]. split; [rewrite B4; exact R2a|]. rewrite B2, B4. unfold s2. simpl.
      rewrite hget_hset_other by exact Hl0l. exact R2b.
Qed.

(* ------------------------------------------------------------------ linking from either side *)
(* an initialised, unlinked survey entity: it reads (cached or stored) a dict carrying its own uid under its own key *)
Definition solo (s : st) (e : ent) : Prop :=
  get_ent (wsp e) (uid e) (ents s) = Some e /\ is_dc (fam e) = false /\ cache e = None
  /\ exists fd, sees s e = Some fd /\ (forall l, md e = Some l -> ptr_ok s l) /\ dget (key_of (rol e)) fd = Some (FU (uid e)).

Lemma em_link_inv s w u1 u2 e1 e2 fd0 :
  get_ent w u1 (ents s) = Some e1 -> get_ent w u2 (ents s) = Some e2 -> u1 <> u2 ->
  rol e2 = other (rol e1) -> is_dc (fam e1) = false -> is_dc (fam e2) = false ->
  sees s e1 = Some fd0 -> (forall l, md e1 = Some l -> ptr_ok s l) ->
  dget (key_of (rol e1)) fd0 = Some (FU u1) -> cache_ok e2 u1 ->
  let s' := em_link s e1 e2 in
  inv s' w u1 u2 /\ (next s <= next s')%N
  /\ (forall w0 u0, (w0 <> w \/ (u0 <> u1 /\ u0 <> u2)) -> get_ent w0 u0 (ents s') = get_ent w0 u0 (ents s)
                                                        /\ fget w0 u0 (file s') = fget w0 u0 (file s))
  /\ (forall l0, ptr_ok s l0 -> (forall l, md e1 = Some l -> l0 <> l) -> read s' l0 = read s l0 /\ ptr_ok s' l0)
  /\ (forall l0, md e1 = Some l0 ->
        forall x, (get_ent w u1 (ents s') = Some x \/ get_ent w u2 (ents s') = Some x) -> md x = Some l0).
Proof.
  intros G1 G2 Hne Hrol Hf1 Hf2 Hsees Hptr Hown Hc2.
  destruct (get_ent_some _ _ _ _ G1) as [W1 U1]. destruct (get_ent_some _ _ _ _ G2) as [W2 U2].
  unfold em_link. cbv zeta. set (e1c := with_cache e1 (Some (uid e2))). set (s1 := set_ents s (put_ent e1c (ents s))).
  assert (G1' : get_ent w u1 (ents s1) = Some e1c).
  { unfold s1. simpl. rewrite <- W1, <- U1. apply (get_put_same e1c). }
  assert (G2' : get_ent w u2 (ents s1) = Some e2).
  { unfold s1. simpl. rewrite <- G2. apply (get_put_other e1c). right. simpl. rewrite U1. exact Hne. }
  destruct (em_edit_inv s1 w u1 u2 e1c e2 fd0 (key_of (rol e2)) (VU (uid e2)) G1' G2' Hne Hrol Hf1 Hf2) as (B1 & B2 & B3 & B4 & B5 & B6); try assumption.
  - intros E. simpl in E. rewrite Hrol in E. apply (key_other (rol e1)). exact E.
  - left. split; [reflexivity | rewrite U2; reflexivity].
  - exact I.
  - right. simpl. rewrite U2. reflexivity.
  - split; [exact B1|]. split; [exact B3|]. split.
    + intros w0 u0 Hoth. destruct (B4 w0 u0 Hoth) as [C1 C2]. split; [|exact C2]. rewrite C1. unfold s1. simpl.
      apply (get_put_other e1c). simpl. rewrite W1, U1.
      destruct Hoth as [H|[H _]]; [left; intros E; apply H; symmetry; exact E | right; intros E; apply H; symmetry; exact E].
    + split; [intros l0 Hl0 Hd; apply (B5 l0 Hl0 Hd) | exact B6].
Qed.

Theorem link_symmetric s ea eb :
  solo s ea -> solo s eb -> wsp eb = wsp ea -> uid ea <> uid eb -> rol eb = other (rol ea) ->
  inv (em_link s ea eb) (wsp ea) (uid ea) (uid eb) /\ inv (em_link s eb ea) (wsp ea) (uid ea) (uid eb).
Proof.
  intros (Ga & Fa & Ca & fda & Sa & Pa & Ka) (Gb & Fb & Cb & fdb & Sb & Pb & Kb) Hw Hne Hrol. split.
  - refine (proj1 (em_link_inv s (wsp ea) (uid ea) (uid eb) ea eb fda _ _ _ _ _ _ _ _ _ _)); try assumption.
    + rewrite <- Hw. exact Gb.
    + left. exact Cb.
  - apply inv_sym. rewrite <- Hw.
    refine (proj1 (em_link_inv s (wsp eb) (uid eb) (uid ea) eb ea fdb _ _ _ _ _ _ _ _ _ _)); try assumption.
    + rewrite Hw. exact Ga.
    + intros E. apply Hne. symmetry. exact E.
    + rewrite Hrol, other_other. reflexivity.
    + left. exact Ca.
Qed.

(* ------------------------------------------------------------------ edits, waveform, re-open preserve the invariant *)
Lemma inv_sees s w u1 u2 : inv s w u1 u2 ->
  exists e1 e2 fd, get_ent w u1 (ents s) = Some e1 /\ get_ent w u2 (ents s) = Some e2 /\ u1 <> u2
    /\ rol e2 = other (rol e1) /\ is_dc (fam e1) = false /\ is_dc (fam e2) = false
    /\ sees s e1 = Some fd /\ (forall l, md e1 = Some l -> ptr_ok s l)
    /\ dget (key_of (rol e1)) fd = Some (FU u1) /\ dget (key_of (rol e2)) fd = Some (FU u2)
    /\ cache_ok e1 u2 /\ cache_ok e2 u1.
Proof.
  intros (e1 & e2 & fd & H1 & H2 & H3 & H4 & H5 & H6 & H7 & H8 & H9 & H10 & H11 & H12 & H13 & H14).
  destruct (get_ent_some _ _ _ _ H1) as [W1 U1].
  exists e1, e2, fd.
  split; [exact H1|]. split; [exact H2|]. split; [exact H3|]. split; [exact H4|]. split; [exact H5|]. split; [exact H6|].
  split; [unfold sees; unfold live_ok in H11; destruct (md e1) as [l0|]; [destruct H11 as [R _]; rewrite R; reflexivity | rewrite W1, U1; exact H7]|].
  split; [intros l0 El; unfold live_ok in H11; rewrite El in H11; apply H11|].
  split; [exact H9|]. split; [exact H10|]. split; [exact H13 | exact H14].
Qed.

Lemma edit_first_inv s w u1 u2 e1 k z :
  inv s w u1 u2 -> get_ent w u1 (ents s) = Some e1 -> k <> KA -> k <> KB ->
  inv (em_edit s e1 k (VZ z)) w u1 u2.
Proof.
  intros Hinv G1 Hka Hkb. destruct (inv_sees _ _ _ _ Hinv) as (e1' & e2 & fd & H1 & H2 & H3 & H4 & H5 & H6 & H7 & H8 & H9 & H10 & H11 & H12).
  assert (e1' = e1) by congruence. subst e1'.
  assert (Hk : forall r, k <> key_of r) by (intros [|]; assumption).
  apply (em_edit_inv s w u1 u2 e1 e2 fd k (VZ z) H1 H2 H3 H4 H5 H6 H7 H8 H9 (Hk _)); try assumption.
  - right. split; [apply Hk | exact H10].
  - exact I.
Qed.

Lemma link_first_inv s w u1 u2 e1 e2 :
  inv s w u1 u2 -> get_ent w u1 (ents s) = Some e1 -> get_ent w u2 (ents s) = Some e2 -> inv (em_link s e1 e2) w u1 u2.
Proof.
  intros Hinv G1 G2. destruct (inv_sees _ _ _ _ Hinv) as (e1' & e2' & fd & H1 & H2 & H3 & H4 & H5 & H6 & H7 & H8 & H9 & H10 & H11 & H12).
  assert (e1' = e1) by congruence. assert (e2' = e2) by congruence. subst e1' e2'.
  apply (em_link_inv s w u1 u2 e1 e2 fd); assumption.
Qed.

Lemma dget_in {V} k (v : V) d : dget k d = Some v -> In (k, v) d.
Proof.
  induction d as [|[k' v'] r IH]; simpl; [discriminate|]. destruct (Nat.eqb k k') eqn:E.
  - intros H. inversion H; subst. apply Nat.eqb_eq in E. subst. left. reflexivity.
  - intros H. right. apply IH. exact H.
Qed.

Lemma names_wheap_indep s s' l k u : heap s' = heap s -> dget k (read s l) = Some (FU u) -> dget k (read s' l) = Some (FU u).
Proof.
  intros Hh H. apply read_names in H. unfold read. rewrite Hh, expand_dget, H. reflexivity.
Qed.

Lemma wave_first_inv s w u1 u2 e1 z :
  inv s w u1 u2 -> get_ent w u1 (ents s) = Some e1 -> inv (em_wave s e1 z) w u1 u2.
Proof.
  intros Hinv G1. destruct (inv_sees _ _ _ _ Hinv) as (e1' & e2 & fd & H1 & H2 & H3 & H4 & H5 & H6 & H7 & H8 & H9 & H10 & H11 & H12).
  assert (e1' = e1) by congruence. subst e1'.
  destruct (get_ent_some _ _ _ _ H1) as [W1 U1].
  unfold em_wave. destruct (em_md s e1) as [l s1] eqn:Em.
  assert (G1s : get_ent (wsp e1) (uid e1) (ents s) = Some e1) by (rewrite W1, U1; exact H1).
  destruct (em_md_spec s e1 fd G1s H7 H8 l s1 Em) as (A1 & A2 & A3 & A4 & A5 & A6 & A7 & A8 & A9).
  set (e1' := with_md e1 (Some l)) in *.
  assert (G2' : get_ent w u2 (ents s1) = Some e2) by (rewrite A4; [exact H2 | right; rewrite U1; exact H3]).
  assert (N1 : dget (key_of (rol e1)) (read s1 l) = Some (FU u1)) by (rewrite A2; exact H9).
  assert (N2 : dget (key_of (rol e2)) (read s1 l) = Some (FU u2)) by (rewrite A2; exact H10).
  assert (Hkw : forall r, KW <> key_of r) by (intros [|]; discriminate).
  cbv zeta.
  assert (Hfresh : inv (em_edit (bump (set_wheap s1 (hset (next s1) [(0, 0%Z); (1, z)] (wheap s1))))
                          (refresh (bump (set_wheap s1 (hset (next s1) [(0, 0%Z); (1, z)] (wheap s1)))) e1) KW (VRef (next s1))) w u1 u2).
  { set (wl := next s1);
    set (s2 := bump (set_wheap s1 (hset wl [(0, 0%Z); (1, z)] (wheap s1))));
    assert (Hr : refresh s2 e1 = e1') by (apply refresh_get; exact A1); rewrite Hr;
    apply (em_edit_inv s2 w u1 u2 e1' e2 (read s2 l) KW (VRef wl));
    [ rewrite <- W1, <- U1; exact A1 | exact G2' | exact H3 | exact H4 | exact H5 | exact H6 | reflexivity
    | intros l' El; inversion El; subst l'; destruct A3 as [Ha Hb]; split; [simpl; lia | intros k0 w0 Hin; apply Hb in Hin; simpl; lia]
    | apply (names_wheap_indep s1 s2 l _ _ eq_refl N1) | apply Hkw
    | right; split; [apply Hkw | apply (names_wheap_indep s1 s2 l _ _ eq_refl N2)]
    | simpl; unfold wl; lia | exact H11 | exact H12 ]. }
  destruct (dget KW (hget l (heap s1))) as [[u|zz|wl|]|] eqn:Ew; try exact Hfresh.
  destruct (dget 0 (hget wl (wheap s1))); [|exact Hfresh].
  set (s2 := set_wheap s1 (hset wl (dset 1 z (hget wl (wheap s1))) (wheap s1))).
  assert (Hr : refresh s2 e1 = e1') by (apply refresh_get; exact A1). rewrite Hr.
  apply (em_edit_inv s2 w u1 u2 e1' e2 (read s2 l) KW (VRef wl)).
  - rewrite <- W1, <- U1. exact A1.
  - exact G2'.
  - exact H3.
  - exact H4.
  - exact H5.
  - exact H6.
  - reflexivity.
  - intros l' El. inversion El; subst l'. exact A3.
  - apply (names_wheap_indep s1 s2 l _ _ eq_refl N1).
  - apply Hkw.
  - right. split; [apply Hkw | apply (names_wheap_indep s1 s2 l _ _ eq_refl N2)].
  - simpl. destruct A3 as [_ Hb]. apply (Hb KW wl). apply dget_in. exact Ew.
  - exact H11.
  - exact H12.
Qed.

Definition reopen (s : st) : st := set_ents s (map (fun e => with_cache (with_md e None) None) (ents s)).

Lemma get_ent_map (f : ent -> ent) w u l :
  (forall e, wsp (f e) = wsp e /\ uid (f e) = uid e) -> get_ent w u (map f l) = option_map f (get_ent w u l).
Proof.
  intros Hf. induction l as [|x r IH]; simpl; [reflexivity|].
  assert (E : same_ent w u (f x) = same_ent w u x) by (unfold same_ent; destruct (Hf x) as [A B]; rewrite A, B; reflexivity).
  rewrite E. destruct (same_ent w u x); [reflexivity | exact IH].
Qed.

Lemma reopen_inv s w u1 u2 : inv s w u1 u2 -> inv (reopen s) w u1 u2.
Proof.
  intros (e1 & e2 & fd & H1 & H2 & H3 & H4 & H5 & H6 & H7 & H8 & H9 & H10 & H11 & H12 & H13 & H14).
  set (f := fun e => with_cache (with_md e None) None).
  exists (f e1), (f e2), fd. unfold reopen. simpl ents.
  rewrite !(get_ent_map f) by (intros e; split; reflexivity). rewrite H1, H2.
  repeat split; try assumption; try reflexivity; try (left; reflexivity).
Qed.

(* ------------------------------------------------------------------ all sequences of operations from either side *)
(* ------------------------------------------------------------------ two-entry edits with removals (airborne parameters) *)
Lemma dget_ddel_other {V} j k (d : list (nat * V)) : j <> k -> dget j (ddel k d) = dget j d.
Proof.
  intros Hjk. induction d as [|[k' v'] r IH]; simpl; [reflexivity|].
  destruct (Nat.eqb k k') eqn:E.
  - apply Nat.eqb_eq in E. subst k'. assert (Ejk : Nat.eqb j k = false) by (apply Nat.eqb_neq; exact Hjk). rewrite Ejk. reflexivity.
  - simpl. destruct (Nat.eqb j k'); [reflexivity | exact IH].
Qed.

Lemma ddel_in {V} k (d : list (nat * V)) k0 v0 : In (k0, v0) (ddel k d) -> In (k0, v0) d.
Proof.
  induction d as [|[k' v'] r IH]; simpl; [intros []|]. destruct (Nat.eqb k k').
  - intros H. right. exact H.
  - intros [H|H]; [left; exact H | right; apply IH; exact H].
Qed.

Lemma dget_dput_other {V} j k (ov : option V) d : j <> k -> dget j (dput k ov d) = dget j d.
Proof. intros H. destruct ov; simpl; [apply dget_dset_other | apply dget_ddel_other]; exact H. Qed.

Lemma dput_in {V} k (ov : option V) d k0 v0 : In (k0, v0) (dput k ov d) -> ov = Some v0 \/ In (k0, v0) d.
Proof.
  destruct ov as [v|]; simpl; intros H.
  - apply dset_in in H. destruct H as [[_ E]|H]; [left; subst; reflexivity | right; exact H].
  - right. apply (ddel_in _ _ _ _ H).
Qed.

Lemma em_edit2_first_inv s w u1 u2 e1 k1 v1 k2 v2 :
  inv s w u1 u2 -> get_ent w u1 (ents s) = Some e1 ->
  k1 <> KA -> k1 <> KB -> k2 <> KA -> k2 <> KB ->
  (forall wl, v1 <> Some (VRef wl)) -> (forall wl, v2 <> Some (VRef wl)) ->
  inv (em_edit2 s e1 k1 v1 k2 v2) w u1 u2.
Proof.
  intros Hinv G1 Ha1 Hb1 Ha2 Hb2 Hv1 Hv2.
  destruct (inv_sees _ _ _ _ Hinv) as (e1' & e2 & fd0 & H1 & G2 & Hne & Hrol & Hf1 & Hf2 & Hsees & Hptr & Hown & Hoth & Hc1 & Hc2).
  assert (e1' = e1) by congruence. subst e1'.
  assert (Hk1 : forall r, key_of r <> k1) by (intros [|] E; [apply Ha1 | apply Hb1]; symmetry; exact E).
  assert (Hk2 : forall r, key_of r <> k2) by (intros [|] E; [apply Ha2 | apply Hb2]; symmetry; exact E).
  destruct (get_ent_some _ _ _ _ G1) as [W1 U1].
  unfold em_edit2. destruct (em_md s e1) as [l s1] eqn:Em.
  assert (G1s : get_ent (wsp e1) (uid e1) (ents s) = Some e1) by (rewrite W1, U1; exact G1).
  destruct (em_md_spec s e1 fd0 G1s Hsees Hptr l s1 Em) as (A1 & A2 & A3 & A4 & A5 & A6 & A7 & A8 & A9).
  set (e1' := with_md e1 (Some l)) in *.
  set (d := hget l (heap s1)).
  set (d' := dput k2 v2 (dput k1 v1 d)).
  set (s2 := set_heap s1 (hset l d' (heap s1))).
  assert (Hr : refresh s2 e1 = e1') by (apply refresh_get; exact A1).
  rewrite Hr.
  assert (G1' : get_ent w u1 (ents s2) = Some e1') by (rewrite <- W1, <- U1; exact A1).
  assert (G2' : get_ent w u2 (ents s2) = Some e2).
  { change (get_ent w u2 (ents s1) = Some e2). rewrite A4; [exact G2|]. right. rewrite U1. exact Hne. }
  assert (Hread2 : read s2 l = expand (wheap s1) d').
  { unfold read, s2. simpl. rewrite hget_hset_same. reflexivity. }
  assert (Hptr2 : ptr_ok s2 l).
  { destruct A3 as [Hl Hrefs]. split; [exact Hl|]. unfold s2. simpl. rewrite hget_hset_same.
    intros k0 wl Hin. unfold d' in Hin. apply dput_in in Hin. destruct Hin as [E|Hin]; [exfalso; apply (Hv2 wl E)|].
    apply dput_in in Hin. destruct Hin as [E|Hin]; [exfalso; apply (Hv1 wl E)|]. apply (Hrefs k0 wl Hin). }
  assert (Hkeep : forall r, dget (key_of r) (read s2 l) = dget (key_of r) (read s1 l)).
  { intros r. rewrite Hread2, expand_dget. unfold d'. rewrite !dget_dput_other by (first [apply Hk2 | apply Hk1]).
    rewrite <- expand_dget. reflexivity. }
  assert (Hn1 : dget (key_of (rol e1')) (read s2 l) = Some (FU u1)).
  { change (rol e1') with (rol e1). rewrite Hkeep, A2. exact Hown. }
  assert (Hn2 : dget (key_of (rol e2)) (read s2 l) = Some (FU u2)).
  { rewrite Hkeep, A2. exact Hoth. }
  destruct (em_assign_inv s2 w u1 u2 e1' e2 l G1' G2' Hne Hrol Hf1 Hf2 Hptr2 Hn1 Hn2 Hc1 Hc2) as (B1 & _).
  exact B1.
Qed.

Lemma param_first_inv s w u1 u2 e1 kv kp v :
  inv s w u1 u2 -> get_ent w u1 (ents s) = Some e1 -> kv <> KA -> kv <> KB -> kp <> KA -> kp <> KB ->
  inv (em_param s e1 kv kp v) w u1 u2.
Proof.
  intros Hinv G1 A1 B1 A2 B2. destruct v; simpl; apply em_edit2_first_inv; try assumption; intros wl E; discriminate.
Qed.

Inductive pop := PLink (first : bool) | PEdit (first : bool) (k : nat) (z : Z) | PWave (first : bool) (z : Z) | PReopen
               | PParam (first : bool) (kv kp : nat) (v : pval).

(* scalar edits address survey parameters, not the two link keys *)
Definition pop_ok (o : pop) : Prop :=
  match o with
  | PEdit _ k _ => k <> KA /\ k <> KB
  | PParam _ kv kp _ => kv <> KA /\ kv <> KB /\ kp <> KA /\ kp <> KB
  | _ => True
  end.

(* the operation on the pair (u1, u2) of workspace w, through the same functions the history interpreter [step] calls *)
Definition pstep (w : bool) (u1 u2 : N) (s : st) (o : pop) : st :=
  match get_ent w u1 (ents s), get_ent w u2 (ents s) with
  | Some e1, Some e2 =>
      match o with
      | PLink true => em_link s e1 e2
      | PLink false => em_link s e2 e1
      | PEdit true k z => em_edit s e1 k (VZ z)
      | PEdit false k z => em_edit s e2 k (VZ z)
      | PWave true z => em_wave s e1 z
      | PWave false z => em_wave s e2 z
      | PReopen => reopen s
      | PParam true kv kp v => em_param s e1 kv kp v
      | PParam false kv kp v => em_param s e2 kv kp v
      end
  | _, _ => s
  end.

Lemma pstep_inv w u1 u2 s o : inv s w u1 u2 -> pop_ok o -> inv (pstep w u1 u2 s o) w u1 u2.
Proof.
  intros Hinv Hok. unfold pstep.
  destruct (get_ent w u1 (ents s)) as [e1|] eqn:G1; [|exact Hinv].
  destruct (get_ent w u2 (ents s)) as [e2|] eqn:G2; [|exact Hinv].
  destruct o as [[|]|[|] k z|[|] z| |[|] kv kp v].
  - apply link_first_inv; assumption.
  - apply inv_sym. apply link_first_inv; [apply inv_sym; exact Hinv | assumption | assumption].
  - destruct Hok as [Ha Hb]. apply edit_first_inv; assumption.
  - destruct Hok as [Ha Hb]. apply inv_sym. apply edit_first_inv; [apply inv_sym; exact Hinv | assumption | assumption | assumption].
  - apply wave_first_inv; assumption.
  - apply inv_sym. apply wave_first_inv; [apply inv_sym; exact Hinv | assumption].
  - apply reopen_inv. exact Hinv.
  - destruct Hok as (A1 & B1 & A2 & B2). apply param_first_inv; assumption.
  - destruct Hok as (A1 & B1 & A2 & B2). apply inv_sym. apply param_first_inv; [apply inv_sym; exact Hinv | assumption..].
Qed.

Theorem edit_shared w u1 u2 : forall l s,
  inv s w u1 u2 -> Forall pop_ok l -> inv (fold_left (pstep w u1 u2) l s) w u1 u2.
Proof.
  induction l as [|o r IH]; intros s Hinv Hok; simpl; [exact Hinv|].
  inversion Hok; subst. apply IH; [apply pstep_inv; assumption | assumption].
Qed.

(* what the invariant says in terms of the getters: both sides read the same metadata, it is what the file holds, and it
   names both entities *)
Theorem inv_reads s w u1 u2 :
  inv s w u1 u2 ->
  exists e1 e2 fd,
    get_ent w u1 (ents s) = Some e1 /\ get_ent w u2 (ents s) = Some e2
    /\ sees s e1 = Some fd /\ sees s e2 = Some fd
    /\ fget w u1 (file s) = Some fd /\ fget w u2 (file s) = Some fd
    /\ dget (key_of (rol e1)) fd = Some (FU u1) /\ dget (key_of (rol e2)) fd = Some (FU u2) /\ rol e2 = other (rol e1).
Proof.
  intros (e1 & e2 & fd & H1 & H2 & H3 & H4 & H5 & H6 & H7 & H8 & H9 & H10 & H11 & H12 & H13 & H14).
  destruct (get_ent_some _ _ _ _ H1) as [W1 U1]. destruct (get_ent_some _ _ _ _ H2) as [W2 U2].
  exists e1, e2, fd. repeat split; try assumption.
  - unfold sees. unfold live_ok in H11. destruct (md e1) as [l0|]; [destruct H11 as [R _]; rewrite R; reflexivity | rewrite W1, U1; exact H7].
  - unfold sees. unfold live_ok in H12. destruct (md e2) as [l0|]; [destruct H12 as [R _]; rewrite R; reflexivity | rewrite W2, U2; exact H8].
Qed.

(* ------------------------------------------------------------------ partner getters *)
Lemma partner_inv s w u1 u2 e1 :
  inv s w u1 u2 -> get_ent w u1 (ents s) = Some e1 ->
  exists p s1, partner s e1 = (Some p, s1) /\ uid p = u2 /\ wsp p = w /\ inv s1 w u1 u2
    /\ get_ent w u2 (ents s) = Some p /\ file s1 = file s /\ (next s <= next s1)%N
    /\ (forall w0 u0, (w0 <> w \/ u0 <> u1) -> get_ent w0 u0 (ents s1) = get_ent w0 u0 (ents s))
    /\ (forall l0, ptr_ok s l0 -> read s1 l0 = read s l0 /\ ptr_ok s1 l0)
    /\ (forall l0, ptr_ok s l0 -> hget l0 (heap s1) = hget l0 (heap s))
    /\ (forall l0, md e1 = Some l0 -> exists x, get_ent w u1 (ents s1) = Some x /\ md x = Some l0).
Proof.
  intros Hinv G1. destruct (inv_sees _ _ _ _ Hinv) as (e1' & e2 & fd & H1 & H2 & H3 & H4 & H5 & H6 & H7 & H8 & H9 & H10 & H11 & H12).
  assert (e1' = e1) by congruence. subst e1'.
  destruct (get_ent_some _ _ _ _ H1) as [W1 U1]. destruct (get_ent_some _ _ _ _ H2) as [W2 U2].
  unfold partner. rewrite H5. destruct (em_md s e1) as [l s1] eqn:Em.
  assert (G1s : get_ent (wsp e1) (uid e1) (ents s) = Some e1) by (rewrite W1, U1; exact H1).
  destruct (em_md_spec s e1 fd G1s H7 H8 l s1 Em) as (A1 & A2 & A3 & A4 & A5 & A6 & A7 & A8 & A9).
  set (e1' := with_md e1 (Some l)) in *.
  assert (Hr : refresh s1 e1 = e1') by (apply refresh_get; exact A1). rewrite Hr.
  assert (G2' : get_ent w u2 (ents s1) = Some e2) by (rewrite A4; [exact H2 | right; rewrite U1; exact H3]).
  assert (Hres : resolve s1 e1' l (key_of (other (rol e1))) = Some e2).
  { unfold resolve. simpl rol. destruct (Nat.eqb (key_of (other (rol e1))) (key_of (rol e1))) eqn:Ek.
    - apply Nat.eqb_eq in Ek. exfalso. apply (key_other (rol e1)). exact Ek.
    - simpl cache. simpl wsp. rewrite W1. destruct H11 as [Hc|Hc]; rewrite Hc.
      + rewrite <- H4. assert (Hn : dget (key_of (rol e2)) (read s1 l) = Some (FU u2)) by (rewrite A2; exact H10).
        rewrite (read_names s1 l _ _ Hn). exact G2'.
      + exact G2'. }
  rewrite Hres.
  (* the invariant in the state after the getter *)
  assert (Hinv1 : forall ents', get_ent w u1 ents' = Some (if cache e1' then e1' else with_cache e1' (Some (uid e2))) ->
                   get_ent w u2 ents' = Some e2 -> inv (set_ents s1 ents') w u1 u2).
  { intros ents' Ga Gb. destruct Hinv as (x1 & x2 & fd' & I1 & I2 & I3 & I4 & I5 & I6 & I7 & I8 & I9 & I10 & I11 & I12 & I13 & I14).
    assert (x1 = e1) by congruence. assert (x2 = e2) by congruence. subst x1 x2.
    assert (fd' = fd).
    { unfold sees in H7. unfold live_ok in I11. destruct (md e1) as [l0|]; [destruct I11 as [R _]; congruence | rewrite W1, U1 in H7; congruence]. }
    subst fd'.
    exists (if cache e1' then e1' else with_cache e1' (Some (uid e2))), e2, fd.
    split; [exact Ga|]. split; [exact Gb|]. split; [exact I3|].
    split; [destruct (cache e1'); exact I4|]. split; [destruct (cache e1'); exact I5|]. split; [exact I6|].
    split; [simpl; rewrite A5; exact I7|]. split; [simpl; rewrite A5; exact I8|].
    split; [destruct (cache e1'); exact I9|]. split; [exact I10|].
    split; [unfold live_ok; destruct (cache e1'); simpl; (split; [exact A2 | exact A3])|].
    split; [unfold live_ok in *; destruct (md e2) as [l2|]; [|exact I]; destruct I12 as [R P]; destruct (A7 l2 P) as [R' P']; split; [change (read s1 l2 = fd); rewrite R'; exact R | exact P']|].
    split; [|exact I14]. assert (Ece : cache e1' = cache e1) by reflexivity. rewrite Ece.
    destruct I13 as [K|K]; rewrite K; right; [simpl; rewrite U2; reflexivity | exact K]. }
  assert (Hfr : forall w0 u0, (w0 <> w \/ u0 <> u1) -> get_ent w0 u0 (ents s1) = get_ent w0 u0 (ents s)).
  { intros w0 u0 Hne0. apply A4. rewrite W1, U1. destruct Hne0 as [H|H]; [left; intros E; apply H; symmetry; exact E | right; intros E; apply H; symmetry; exact E]. }
  exists e2. destruct (cache e1') eqn:Ec.
  - exists s1. split; [reflexivity|]. split; [exact U2|]. split; [exact W2|]. split.
    { assert (Es : s1 = set_ents s1 (ents s1)) by (destruct s1; reflexivity). rewrite Es. apply Hinv1; [rewrite <- W1, <- U1; exact A1 | exact G2']. }
    split; [exact H2|]. split; [exact A5|]. split; [exact A6|]. split; [exact Hfr|]. split; [exact A7|]. split; [exact A8|].
    intros l0 El0. exists e1'. split; [rewrite <- W1, <- U1; exact A1|]. unfold em_md in Em. rewrite El0 in Em. inversion Em; subst. reflexivity.
  - eexists. split; [reflexivity|]. split; [exact U2|]. split; [exact W2|]. split.
    { apply Hinv1.
      + rewrite <- W1, <- U1. apply (get_put_same (with_cache e1' (Some (uid e2)))).
      + rewrite (get_put_other (with_cache e1' (Some (uid e2)))); [exact G2'|]. right. simpl. rewrite U1. exact H3. }
    split; [exact H2|]. split; [exact A5|]. split; [exact A6|]. split; [|split; [exact A7 | split; [exact A8|]]].
    2: { intros l0 El0. exists (with_cache e1' (Some (uid e2))). split; [simpl; rewrite <- W1, <- U1; apply (get_put_same (with_cache e1' (Some (uid e2))))|].
         unfold em_md in Em. rewrite El0 in Em. inversion Em; subst. reflexivity. }
    intros w0 u0 Hne0. simpl. rewrite (get_put_other (with_cache e1' (Some (uid e2)))).
    + apply Hfr. exact Hne0.
    + simpl. rewrite W1, U1. destruct Hne0 as [H|H]; [left; intros E; apply H; symmetry; exact E | right; intros E; apply H; symmetry; exact E].
Qed.

Theorem reopen_resolves s w u1 u2 e1 e2 :
  inv s w u1 u2 -> get_ent w u1 (ents (reopen s)) = Some e1 -> get_ent w u2 (ents (reopen s)) = Some e2 ->
  (exists p s1, partner (reopen s) e1 = (Some p, s1) /\ uid p = u2 /\ wsp p = w)
  /\ (exists p s1, partner (reopen s) e2 = (Some p, s1) /\ uid p = u1 /\ wsp p = w).
Proof.
  intros Hinv G1 G2. pose proof (reopen_inv _ _ _ _ Hinv) as Hr. split.
  - destruct (partner_inv _ _ _ _ _ Hr G1) as (p & s1 & Hp & Hu & Hw & _). exists p, s1. split; [exact Hp | split; assumption].
  - destruct (partner_inv _ _ _ _ _ (inv_sym _ _ _ _ Hr) G2) as (p & s1 & Hp & Hu & Hw & _). exists p, s1. split; [exact Hp | split; assumption].
Qed.

(* ------------------------------------------------------------------ frames *)
Lemma inv_frame s s' w u1 u2 :
  inv s w u1 u2 ->
  get_ent w u1 (ents s') = get_ent w u1 (ents s) -> get_ent w u2 (ents s') = get_ent w u2 (ents s) ->
  fget w u1 (file s') = fget w u1 (file s) -> fget w u2 (file s') = fget w u2 (file s) ->
  (forall l0, ptr_ok s l0 -> (forall e, (get_ent w u1 (ents s) = Some e \/ get_ent w u2 (ents s) = Some e) -> md e = Some l0 -> True) ->
     (exists e, (get_ent w u1 (ents s) = Some e \/ get_ent w u2 (ents s) = Some e) /\ md e = Some l0) ->
     read s' l0 = read s l0 /\ ptr_ok s' l0) ->
  inv s' w u1 u2.
Proof.
  intros (e1 & e2 & fd & H1 & H2 & H3 & H4 & H5 & H6 & H7 & H8 & H9 & H10 & H11 & H12 & H13 & H14) G1 G2 F1 F2 Hfr.
  exists e1, e2, fd. rewrite G1, G2, F1, F2.
  split; [exact H1|]. split; [exact H2|]. split; [exact H3|]. split; [exact H4|]. split; [exact H5|]. split; [exact H6|].
  split; [exact H7|]. split; [exact H8|]. split; [exact H9|]. split; [exact H10|].
  assert (Hl : forall e, (get_ent w u1 (ents s) = Some e \/ get_ent w u2 (ents s) = Some e) -> live_ok s e fd -> live_ok s' e fd).
  { intros e He Hlive. unfold live_ok in *. destruct (md e) as [l0|] eqn:Em; [|exact I]. destruct Hlive as [R P].
    destruct (Hfr l0 P (fun _ _ _ => I) (ex_intro _ e (conj He Em))) as [R' P']. split; [rewrite R'; exact R | exact P']. }
  split; [apply Hl; [left; exact H1 | exact H11]|]. split; [apply Hl; [right; exact H2 | exact H12]|].
  split; assumption.
Qed.

(* well-formed states: uids are below the allocation counter, stored metadata belongs to existing entities *)
Definition wf (s : st) : Prop :=
  (forall w u e, get_ent w u (ents s) = Some e -> (u < next s)%N)
  /\ (forall w u, get_ent w u (ents s) = None -> fget w u (file s) = None).

(* ------------------------------------------------------------------ an entity without resolvable partner *)
(* c holds the dict lc, which names c under its own key and nobody under the other key; no cached partner *)
Definition alone (s : st) (c : ent) (lc : N) : Prop :=
  get_ent (wsp c) (uid c) (ents s) = Some c /\ md c = Some lc /\ cache c = None /\ is_dc (fam c) = false
  /\ ptr_ok s lc
  /\ dget (key_of (rol c)) (hget lc (heap s)) = Some (VU (uid c))
  /\ dget (key_of (other (rol c))) (hget lc (heap s)) = None.

Lemma em_assign_alone s c lc :
  alone s c lc -> em_assign s c lc = store s c lc.
Proof.
  intros (G & M & C & F & P & K1 & K2). unfold em_assign. cbv zeta.
  assert (Ec : with_md c (Some lc) = c) by (destruct c; simpl in *; subst; reflexivity).
  rewrite Ec.
  assert (Hput : put_ent c (ents s) = ents s).
  { clear -G. revert G. generalize (ents s). induction l as [|x r IH]; simpl; [discriminate|].
    destruct (same_ent (wsp c) (uid c) x) eqn:E; [intros H; inversion H; reflexivity | intros H; f_equal; apply IH; exact H]. }
  rewrite Hput. assert (Es : set_ents s (ents s) = s) by (destruct s; reflexivity). rewrite Es.
  unfold resolve. destruct (Nat.eqb (key_of (other (rol c))) (key_of (rol c))) eqn:Ek.
  - apply Nat.eqb_eq in Ek. exfalso. apply (key_other (rol c)). exact Ek.
  - rewrite C. simpl heap. rewrite K2. reflexivity.
Qed.

Lemma dget_expand_none h k d : dget k d = None -> dget k (expand h d) = None.
Proof. intros H. rewrite expand_dget, H. reflexivity. Qed.

(* an edit of a non-link key on such an entity: it stays alone; only its own dict, record and stored copy move *)
Lemma em_edit_alone s c lc k v :
  alone s c lc -> k <> KA -> k <> KB -> val_ok s v ->
  let s' := em_edit s c k v in
  alone s' c lc /\ next s' = next s /\ wheap s' = wheap s /\ ents s' = ents s
  /\ heap s' = hset lc (dset k v (hget lc (heap s))) (heap s)
  /\ file s' = fput (wsp c) (uid c) (read s' lc) (file s).
Proof.
  intros Ha Hka Hkb Hv. pose proof Ha as (G & M & C & F & P & K1 & K2).
  assert (Hk : forall r, k <> key_of r) by (intros [|]; assumption).
  unfold em_edit. cbv zeta. unfold em_md. rewrite M.
  set (s2 := set_heap s (hset lc (dset k v (hget lc (heap s))) (heap s))).
  assert (Hr : refresh s2 c = c) by (apply refresh_get; exact G). rewrite Hr.
  assert (Ha2 : alone s2 c lc).
  { split; [exact G|]. split; [exact M|]. split; [exact C|]. split; [exact F|].
    split; [|split].
    - destruct P as [Pl Pr]. split; [exact Pl|]. unfold s2. simpl. rewrite hget_hset_same. intros k0 wl Hin.
      apply dset_in in Hin. destruct Hin as [[_ Ev]|Hin]; [subst v; exact Hv | apply (Pr k0 wl Hin)].
    - unfold s2. simpl. rewrite hget_hset_same, dget_dset_other by (intros E; apply (Hk (rol c)); symmetry; exact E). exact K1.
    - unfold s2. simpl. rewrite hget_hset_same, dget_dset_other by (intros E; apply (Hk (other (rol c))); symmetry; exact E). exact K2. }
  rewrite (em_assign_alone s2 c lc Ha2). unfold store.
  split; [|repeat split].
  destruct Ha2 as (G2 & M2 & C2 & F2 & P2 & K12 & K22).
  split; [exact G2|]. split; [exact M2|]. split; [exact C2|]. split; [exact F2|]. split; [exact P2|]. split; [exact K12 | exact K22].
Qed.

Lemma em_assign_noresolve s c l :
  cache c = None -> dget (key_of (other (rol c))) (hget l (heap s)) = None ->
  em_assign s c l = store (set_ents s (put_ent (with_md c (Some l)) (ents s))) (with_md c (Some l)) l.
Proof.
  intros C K. unfold em_assign. cbv zeta. unfold resolve. simpl rol.
  destruct (Nat.eqb (key_of (other (rol c))) (key_of (rol c))) eqn:Ek.
  - apply Nat.eqb_eq in Ek. exfalso. apply (key_other (rol c)). exact Ek.
  - simpl cache. rewrite C. unfold store at 1. simpl heap. rewrite K. reflexivity.
Qed.

Lemma get_app_none w u l e : get_ent w u l = None -> get_ent w u (l ++ [e]) = if same_ent w u e then Some e else None.
Proof.
  induction l as [|x r IH]; simpl; [reflexivity|]. destruct (same_ent w u x); [discriminate | exact IH].
Qed.

Lemma get_app_some w u l e x : get_ent w u l = Some x -> get_ent w u (l ++ [e]) = Some x.
Proof.
  induction l as [|y r IH]; simpl; [discriminate|]. destruct (same_ent w u y); [intros H; exact H | exact IH].
Qed.

Lemma get_app_other w u l e : (wsp e <> w \/ uid e <> u) -> get_ent w u (l ++ [e]) = get_ent w u l.
Proof.
  intros Hne. destruct (get_ent w u l) as [x|] eqn:G; [apply (get_app_some _ _ _ _ _ G)|].
  rewrite (get_app_none _ _ _ _ G). destruct (same_ent w u e) eqn:E; [|reflexivity].
  apply same_ent_spec in E. destruct E, Hne; contradiction.
Qed.

Lemma default_md_spec e s d s1 :
  default_md e s = (d, s1) ->
  ents s1 = ents s /\ heap s1 = heap s /\ file s1 = file s /\ (next s <= next s1)%N
  /\ dget (key_of (rol e)) d = Some (VU (uid e)) /\ dget (key_of (other (rol e))) d = None
  /\ refs_below (next s1) d
  /\ (forall wl, (wl < next s)%N -> hget wl (wheap s1) = hget wl (wheap s)).
Proof.
  unfold default_md. destruct (is_tem (fam e)); intros E.
  - destruct (rol e) eqn:Er; simpl in E; injection E as Ed Es; subst d s1; simpl.
    + repeat split; try reflexivity; try lia.
      * intros k wl [Hin|[Hin|[]]]; inversion Hin; subst; lia.
      * intros wl Hwl. apply hget_hset_other. lia.
    + repeat split; try reflexivity; try lia.
      * intros k wl [Hin|[Hin|[]]]; inversion Hin; subst; lia.
      * intros wl Hwl. apply hget_hset_other. lia.
  - injection E as Ed Es; subst d s1.
    split; [reflexivity|]. split; [reflexivity|]. split; [reflexivity|]. split; [lia|].
    split; [simpl; rewrite Nat.eqb_refl; reflexivity|]. split; [simpl; destruct (rol e); reflexivity|].
    split; [intros k wl [Hin|[]]; inversion Hin | intros; reflexivity].
Qed.

Lemma spawn_spec s e tw n c s2 :
  wf s -> is_dc (fam e) = false -> (uid e < next s)%N -> spawn s e tw n = (c, s2) ->
  exists lc, alone s2 c lc /\ wsp c = tw /\ rol c = rol e /\ fam c = fam e
    /\ get_ent tw (uid c) (ents s) = None
    /\ (next s <= next s2)%N /\ (next s <= lc)%N
    /\ (forall w0 u0, (w0 <> tw \/ u0 <> uid c) -> get_ent w0 u0 (ents s2) = get_ent w0 u0 (ents s)
                                                  /\ fget w0 u0 (file s2) = fget w0 u0 (file s))
    /\ (forall l0, ptr_ok s l0 -> read s2 l0 = read s l0 /\ ptr_ok s2 l0)
    /\ (uid c < next s2)%N
    /\ (forall l0, ptr_ok s l0 -> hget l0 (heap s2) = hget l0 (heap s)).
Proof.
  intros [Wf1 Wf2] Hdc Hue E. unfold spawn in E.
  destruct (new_ent s e tw n) as [c0 s1] eqn:En.
  assert (Hc0 : wsp c0 = tw /\ rol c0 = rol e /\ fam c0 = fam e /\ md c0 = None /\ cache c0 = None
                /\ get_ent tw (uid c0) (ents s) = None /\ ents s1 = ents s /\ heap s1 = heap s /\ wheap s1 = wheap s
                /\ file s1 = file s /\ (next s <= next s1)%N /\ (uid c0 < next s1)%N).
  { unfold new_ent in En. destruct (get_ent tw (uid e) (ents s)) as [x|] eqn:G; inversion En; subst; simpl.
    - repeat split; try reflexivity; try lia.
      destruct (get_ent tw (next s) (ents s)) as [y|] eqn:Gy; [|reflexivity]. apply Wf1 in Gy. lia.
    - repeat split; try reflexivity; try lia; try assumption. }
  destruct Hc0 as (C1 & C2 & C3 & C4 & C5 & C6 & C7 & C8 & C9 & C10 & C11 & C12).
  set (s1a := add_ent s1 c0) in *.
  assert (Gc0 : get_ent tw (uid c0) (ents s1a) = Some c0).
  { unfold s1a, add_ent. simpl. rewrite get_app_none by (rewrite C7; exact C6).
    assert (Hs : same_ent tw (uid c0) c0 = true) by (apply same_ent_spec; split; [exact C1 | reflexivity]). rewrite Hs. reflexivity. }
  unfold em_md in E. rewrite C4 in E.
  assert (Hnf : fget (wsp c0) (uid c0) (file s1a) = None).
  { unfold s1a, add_ent. simpl. rewrite C10, C1. apply Wf2. exact C6. }
  rewrite Hnf in E. destruct (default_md c0 s1a) as [d s3] eqn:Ed.
  destruct (default_md_spec _ _ _ _ Ed) as (D1 & D2 & D3 & D4 & D5 & D6 & D7 & D8).
  set (l := next s3) in *.
  set (s4 := bump (set_heap s3 (hset l d (heap s3)))) in *.
  assert (Hk2 : dget (key_of (other (rol c0))) (hget l (heap s4)) = None).
  { unfold s4. simpl. rewrite hget_hset_same. exact D6. }
  rewrite (em_assign_noresolve s4 c0 l C5 Hk2) in E. inversion E; subst c s2; clear E.
  set (c := with_md c0 (Some l)).
  exists l.
  assert (Hents : ents s4 = ents s1 ++ [c0]) by (unfold s4; simpl; rewrite D1; reflexivity).
  assert (Gc : get_ent tw (uid c0) (put_ent c (ents s4)) = Some c).
  { rewrite <- C1. apply (get_put_same c). }
  split; [|split; [exact C1 | split; [exact C2 | split; [exact C3 | split; [exact C6 | split; [|split; [|split; [|split; [|split]]]]]]]]].
  - split; [simpl; rewrite C1; exact Gc|]. split; [reflexivity|]. split; [exact C5|]. split; [change (is_dc (fam c0) = false); rewrite C3; exact Hdc|].
    split; [|split].
    + split; [simpl; unfold l; lia|]. simpl. rewrite hget_hset_same. intros k wl Hin. apply D7 in Hin. lia.
    + simpl. rewrite hget_hset_same. exact D5.
    + simpl. rewrite hget_hset_same. exact D6.
  - simpl. unfold s1a, add_ent in D4. simpl in D4. lia.
  - unfold l. unfold s1a, add_ent in D4. simpl in D4. lia.
  - intros w0 u0 Hne. split.
    + change (get_ent w0 u0 (put_ent c (ents s4)) = get_ent w0 u0 (ents s)).
      rewrite (get_put_other c) by (simpl; rewrite C1; destruct Hne as [H|H]; [left; intros E; apply H; symmetry; exact E | right; intros E; apply H; symmetry; exact E]).
      rewrite Hents, C7. apply get_app_other. rewrite C1. destruct Hne as [H|H]; [left; intros E; apply H; symmetry; exact E | right; intros E; apply H; symmetry; exact E].
    + simpl. rewrite C1. rewrite fget_fput_other by exact Hne. rewrite D3. unfold s1a, add_ent. simpl. rewrite C10. reflexivity.
  - intros l0 [Hl0 Hr0]. assert (Hl0l : l0 <> l) by (unfold l; unfold s1a, add_ent in D4; simpl in D4; lia).
    split.
    + unfold read. simpl. rewrite hget_hset_other by exact Hl0l. rewrite D2. unfold s1a, add_ent. simpl. rewrite C8.
      apply expand_ext. intros k wl Hin. rewrite D8; [unfold s1a, add_ent; simpl; rewrite C9; reflexivity|].
      unfold s1a, add_ent. simpl. apply Hr0 in Hin. lia.
    + split; [simpl; unfold s1a, add_ent in D4; simpl in D4; lia|]. simpl. rewrite hget_hset_other by exact Hl0l.
      rewrite D2. unfold s1a, add_ent. simpl. rewrite C8. intros k wl Hin. apply Hr0 in Hin. unfold s1a, add_ent in D4; simpl in D4. lia.
  - simpl. unfold s1a, add_ent in D4. simpl in D4. lia.
  - intros l0 [Hl0 Hr0]. assert (Hl0l : l0 <> l) by (unfold l; unfold s1a, add_ent in D4; simpl in D4; lia).
    simpl. rewrite hget_hset_other by exact Hl0l. rewrite D2. unfold s1a, add_ent. simpl. rewrite C8. reflexivity.
Qed.

Definition scalar (v : val) : Prop := match v with VZ _ | VRef _ => True | _ => False end.

Lemma replay_alone : forall d s c lc,
  alone s c lc ->
  (forall k v, In (k, v) d -> scalar v -> k <> KA /\ k <> KB /\ val_ok s v) ->
  let s' := replay s (wsp c) (uid c) d in
  alone s' c lc /\ next s' = next s /\ wheap s' = wheap s /\ ents s' = ents s
  /\ (forall l0, l0 <> lc -> hget l0 (heap s') = hget l0 (heap s))
  /\ (forall w0 u0, (w0 <> wsp c \/ u0 <> uid c) -> fget w0 u0 (file s') = fget w0 u0 (file s)).
Proof.
  induction d as [|[k v] r IH]; intros s c lc Ha Hd; simpl.
  - split; [exact Ha|]. repeat split; intros; reflexivity.
  - pose proof Ha as (G & _). rewrite G.
    assert (Hstep : forall s1, (s1 = s \/ (scalar v /\ s1 = em_edit s c k v)) ->
              alone s1 c lc /\ next s1 = next s /\ wheap s1 = wheap s /\ ents s1 = ents s
              /\ (forall l0, l0 <> lc -> hget l0 (heap s1) = hget l0 (heap s))
              /\ (forall w0 u0, (w0 <> wsp c \/ u0 <> uid c) -> fget w0 u0 (file s1) = fget w0 u0 (file s))).
    { intros s1 [E|[Hs E]]; subst s1.
      - split; [exact Ha|]. repeat split; intros; reflexivity.
      - destruct (Hd k v (or_introl eq_refl) Hs) as (Ka & Kb & Kv).
        destruct (em_edit_alone s c lc k v Ha Ka Kb Kv) as (B1 & B2 & B3 & B4 & B5 & B6).
        split; [exact B1|]. split; [exact B2|]. split; [exact B3|]. split; [exact B4|]. split.
        + intros l0 Hl0. rewrite B5. apply hget_hset_other. exact Hl0.
        + intros w0 u0 Hne. rewrite B6. apply fget_fput_other. exact Hne. }
    assert (Hs1 : exists s1, (s1 = s \/ (scalar v /\ s1 = em_edit s c k v))
                    /\ match v with VZ _ | VRef _ => em_edit s c k v | _ => s end = s1).
    { destruct v; eexists; (split; [|reflexivity]); try (left; reflexivity); right; split; try exact I; reflexivity. }
    destruct Hs1 as (s1 & Hs1 & Es1).
    replace (match v with VU _ => s | VZ _ => em_edit s c k v | VRef _ => em_edit s c k v | VOwn => s end) with s1
      by (rewrite <- Es1; destruct v; reflexivity).
    destruct (Hstep s1 Hs1) as (C1 & C2 & C3 & C4 & C5 & C6).
    destruct (IH s1 c lc C1) as (D1 & D2 & D3 & D4 & D5 & D6).
    { intros k0 v0 Hin Hsc. destruct (Hd k0 v0 (or_intror Hin) Hsc) as (X1 & X2 & X3). repeat split; try assumption.
      destruct v0; simpl in *; try exact I. rewrite C2. exact X3. }
    split; [exact D1|]. split; [congruence|]. split; [congruence|]. split; [congruence|]. split.
    + intros l0 Hl0. rewrite D5 by exact Hl0. apply C5. exact Hl0.
    + intros w0 u0 Hne. rewrite D6 by exact Hne. apply C6. exact Hne.
Qed.

(* ------------------------------------------------------------------ well-formedness across steps *)
Lemma key_dec (a b : bool * N) : {a = b} + {a <> b}.
Proof. decide equality; [apply N.eq_dec | apply Bool.bool_dec]. Qed.

Lemma wf_preserve s s' (K : list (bool * N)) :
  wf s -> (next s <= next s')%N ->
  (forall w u, ~ In (w, u) K -> get_ent w u (ents s') = get_ent w u (ents s) /\ fget w u (file s') = fget w u (file s)) ->
  (forall w u, In (w, u) K -> (exists e, get_ent w u (ents s') = Some e) /\ (u < next s')%N) ->
  wf s'.
Proof.
  intros [W1 W2] Hn Hout Hin. split.
  - intros w u e G. destruct (in_dec key_dec (w, u) K) as [Hk|Hk].
    + apply (Hin w u Hk).
    + destruct (Hout w u Hk) as [Ge _]. rewrite Ge in G. apply W1 in G. lia.
  - intros w u G. destruct (in_dec key_dec (w, u) K) as [Hk|Hk].
    + destruct (Hin w u Hk) as [[e Ge] _]. congruence.
    + destruct (Hout w u Hk) as [Ge Fe]. rewrite Fe. apply W2. rewrite <- Ge. exact G.
Qed.

(* the getter of one member of a pair preserves the invariant *)
Lemma em_md_inv s w u1 u2 e1 l s1 :
  inv s w u1 u2 -> get_ent w u1 (ents s) = Some e1 -> em_md s e1 = (l, s1) ->
  inv s1 w u1 u2 /\ get_ent w u1 (ents s1) = Some (with_md e1 (Some l))
  /\ (forall w0 u0, (w0 <> w \/ u0 <> u1) -> get_ent w0 u0 (ents s1) = get_ent w0 u0 (ents s))
  /\ file s1 = file s /\ (next s <= next s1)%N
  /\ (forall l0, ptr_ok s l0 -> read s1 l0 = read s l0 /\ ptr_ok s1 l0)
  /\ (forall l0, ptr_ok s l0 -> hget l0 (heap s1) = hget l0 (heap s))
  /\ ptr_ok s1 l /\ (exists fd, read s1 l = fd /\ sees s e1 = Some fd)
  /\ (md e1 = Some l \/ (next s <= l)%N).
Proof.
  intros Hinv G1 Em. destruct (inv_sees _ _ _ _ Hinv) as (e1' & e2 & fd & H1 & H2 & H3 & H4 & H5 & H6 & H7 & H8 & H9 & H10 & H11 & H12).
  assert (e1' = e1) by congruence. subst e1'.
  destruct (get_ent_some _ _ _ _ H1) as [W1 U1]. destruct (get_ent_some _ _ _ _ H2) as [W2 U2].
  assert (G1s : get_ent (wsp e1) (uid e1) (ents s) = Some e1) by (rewrite W1, U1; exact H1).
  destruct (em_md_spec s e1 fd G1s H7 H8 l s1 Em) as (A1 & A2 & A3 & A4 & A5 & A6 & A7 & A8 & A9).
  set (e1' := with_md e1 (Some l)) in *.
  assert (Hfr : forall w0 u0, (w0 <> w \/ u0 <> u1) -> get_ent w0 u0 (ents s1) = get_ent w0 u0 (ents s)).
  { intros w0 u0 Hne0. apply A4. rewrite W1, U1. destruct Hne0 as [H|H]; [left; intros E; apply H; symmetry; exact E | right; intros E; apply H; symmetry; exact E]. }
  assert (G2' : get_ent w u2 (ents s1) = Some e2) by (rewrite Hfr; [exact H2 | right; intros E; apply H3; symmetry; exact E]).
  split; [|split; [rewrite <- W1, <- U1; exact A1 | split; [exact Hfr | split; [exact A5 | split; [exact A6 | split; [exact A7 | split; [exact A8 | split; [exact A3 | split; [exists fd; split; [exact A2 | exact H7] | exact A9]]]]]]]]].
  destruct Hinv as (x1 & x2 & fd' & I1 & I2 & I3 & I4 & I5 & I6 & I7 & I8 & I9 & I10 & I11 & I12 & I13 & I14).
  assert (x1 = e1) by congruence. assert (x2 = e2) by congruence. subst x1 x2.
  assert (fd' = fd).
  { unfold sees in H7. unfold live_ok in I11. destruct (md e1) as [l0|]; [destruct I11 as [R _]; congruence | rewrite W1, U1 in H7; congruence]. }
  subst fd'.
  exists e1', e2, fd.
  split; [rewrite <- W1, <- U1; exact A1|]. split; [exact G2'|]. split; [exact I3|].
  split; [exact I4|]. split; [exact I5|]. split; [exact I6|].
  split; [rewrite A5; exact I7|]. split; [rewrite A5; exact I8|].
  split; [exact I9|]. split; [exact I10|].
  split; [unfold live_ok; simpl; split; [exact A2 | exact A3]|].
  split; [unfold live_ok in *; destruct (md e2) as [l2|]; [|exact I]; destruct I12 as [R P]; destruct (A7 l2 P) as [R' P']; split; [rewrite R'; exact R | exact P']|].
  split; [exact I13 | exact I14].
Qed.

(* an entity that is alone stays so when only other entities, other dict cells and other stored entries move *)
Lemma alone_frame s s' c lc :
  alone s c lc ->
  get_ent (wsp c) (uid c) (ents s') = get_ent (wsp c) (uid c) (ents s) ->
  hget lc (heap s') = hget lc (heap s) -> (next s <= next s')%N ->
  alone s' c lc.
Proof.
  intros (G & M & C & F & [Pl Pr] & K1 & K2) Ge Hh Hn.
  split; [rewrite Ge; exact G|]. split; [exact M|]. split; [exact C|]. split; [exact F|].
  split; [split; [lia | rewrite Hh; intros k wl Hin; apply Pr in Hin; lia]|]. rewrite Hh. split; assumption.
Qed.

Lemma alone_sees s c lc : alone s c lc ->
  sees s c = Some (read s lc) /\ (forall l, md c = Some l -> ptr_ok s l)
  /\ dget (key_of (rol c)) (read s lc) = Some (FU (uid c)).
Proof.
  intros (G & M & C & F & P & K1 & K2). split; [unfold sees; rewrite M; reflexivity|].
  split; [intros l E; rewrite M in E; inversion E; subst; exact P|].
  unfold read. rewrite expand_dget, K1. reflexivity.
Qed.

Definition link_keys_hold_uids (fd : fdict) : Prop :=
  forall k fv, In (k, fv) fd -> (k = KA \/ k = KB) -> exists u, fv = FU u.

Lemma in_expand h k v d : In (k, v) d -> In (k, expand_val h v) (expand h d).
Proof. intros H. unfold expand. apply (in_map (fun kv => (fst kv, expand_val h (snd kv))) d (k, v) H). Qed.

(* ------------------------------------------------------------------ copying one side of a linked pair *)
Lemma key_differs s w u tw uc e : get_ent w u (ents s) = Some e -> get_ent tw uc (ents s) = None -> w <> tw \/ u <> uc.
Proof.
  intros G N0. destruct (Bool.bool_dec w tw) as [Ew|Ew]; [|left; exact Ew].
  destruct (N.eq_dec u uc) as [Eu|Eu]; [|right; exact Eu]. subst. congruence.
Qed.

Lemma sym_key {A B} (a a' : A) (b b' : B) : (a <> a' \/ b <> b') -> (a' <> a \/ b' <> b).
Proof. intros [H|H]; [left | right]; intros E; apply H; symmetry; exact E. Qed.

Definition cells_apart (s : st) (w : bool) (ua ub : N) (tw : bool) (uc uc2 : N) : Prop :=
  forall x y l, (get_ent w ua (ents s) = Some x \/ get_ent w ub (ents s) = Some x) ->
                (get_ent tw uc (ents s) = Some y \/ get_ent tw uc2 (ents s) = Some y) ->
                md x = Some l -> md y = Some l -> False.

Definition keys_apart (w : bool) (ua ub : N) (tw : bool) (uc uc2 : N) : Prop :=
  w <> tw \/ (ua <> uc /\ ua <> uc2 /\ ub <> uc /\ ub <> uc2).

Definition ready (s : st) (w : bool) (ua ub : N) (tw : bool) (c c2 : ent) (lc lc2 : N) : Prop :=
  wf s /\ inv s w ua ub /\ alone s c lc /\ alone s c2 lc2 /\ wsp c = tw /\ wsp c2 = tw /\ uid c <> uid c2 /\ lc <> lc2
  /\ rol c2 = other (rol c)
  /\ (w <> tw \/ (ua <> uid c /\ ua <> uid c2)) /\ (w <> tw \/ (ub <> uid c /\ ub <> uid c2))
  /\ (forall x l0, (get_ent w ua (ents s) = Some x \/ get_ent w ub (ents s) = Some x) -> md x = Some l0 -> l0 <> lc /\ l0 <> lc2).

(* what a copy of one side of a pair establishes: both pairs satisfy the invariant, and the two copies hold one dict cell that
   no member of the source pair holds *)
Definition linked_copy (s : st) (w : bool) (ua ub : N) (tw : bool) (uc uc2 : N) : Prop :=
  inv s tw uc uc2 /\ inv s w ua ub /\ wf s /\ keys_apart w ua ub tw uc uc2
  /\ exists lc, (forall y, (get_ent tw uc (ents s) = Some y \/ get_ent tw uc2 (ents s) = Some y) -> md y = Some lc)
             /\ (forall x, (get_ent w ua (ents s) = Some x \/ get_ent w ub (ents s) = Some x) -> md x <> Some lc).

Lemma linked_copy_cells s w ua ub tw uc uc2 : linked_copy s w ua ub tw uc uc2 -> cells_apart s w ua ub tw uc uc2.
Proof.
  intros (_ & _ & _ & _ & lc & Hy & Hx) x y l Gx Gy Mx My.
  rewrite (Hy y Gy) in My. inversion My; subst l. exact (Hx x Gx Mx).
Qed.

Lemma linked_copy_sym s w ua ub tw uc uc2 : linked_copy s w ua ub tw uc uc2 -> linked_copy s w ua ub tw uc2 uc.
Proof.
  intros (I1 & I2 & Hwf & K & lc & Hy & Hx).
  split; [apply inv_sym; exact I1|]. split; [exact I2|]. split; [exact Hwf|]. split.
  - destruct K as [E|(A & B & C & D)]; [left; exact E | right; repeat split; assumption].
  - exists lc. split; [|exact Hx]. intros y [G|G]; apply Hy; [right | left]; exact G.
Qed.

(* linking two fresh, unlinked entities of the target workspace *)
Lemma ready_link s w ua ub tw c c2 lc lc2 :
  ready s w ua ub tw c c2 lc lc2 ->
  linked_copy (em_link s c c2) w ua ub tw (uid c) (uid c2).
Proof.
  intros (Hwf & Hinv & Ac & Ac2 & Wc & Wc2 & Hcc2 & Hll & Hrol & Ka & Kb & Hsrc).
  destruct (alone_sees s c lc Ac) as (Q1 & Q2 & Q3).
  destruct Ac2 as (G2c & M2c & C2c & F2c & P2c & K12c & K22c).
  destruct Ac as (Gc & Mc & Cc & Fc & Pc & K1c & K2c).
  rewrite Wc in Gc. rewrite Wc2 in G2c.
  destruct (em_link_inv s tw (uid c) (uid c2) c c2 (read s lc) Gc G2c Hcc2 Hrol Fc F2c Q1 Q2 Q3 (or_introl C2c)) as (L1 & L2 & L3 & L4 & L5).
  split; [exact L1|]. split; [|split; [|split]].
  - apply (inv_frame s _ w ua ub Hinv); try (apply L3; assumption).
    intros l0 Hl0 _ (e & He & Emd). apply (L4 l0 Hl0). intros l1 El1. rewrite Mc in El1. inversion El1; subst l1.
    apply (Hsrc e l0 He Emd).
  - apply (wf_preserve s _ [(tw, uid c); (tw, uid c2)] Hwf L2).
    + intros w0 u0 Hn. apply L3. destruct (Bool.bool_dec w0 tw) as [E1|E1]; [|left; exact E1]. right. subst w0. split.
      * intros E. subst u0. apply Hn. left. reflexivity.
      * intros E. subst u0. apply Hn. right. left. reflexivity.
    + intros w0 u0 Hk. destruct L1 as (x1 & x2 & _ & X1 & X2 & _).
      destruct Hk as [E|[E|[]]]; injection E as Ew0 Eu0; subst w0 u0.
      * split; [exists x1; exact X1|]. apply N.lt_le_trans with (next s); [|exact L2]. apply (proj1 Hwf _ _ _ Gc).
      * split; [exists x2; exact X2|]. apply N.lt_le_trans with (next s); [|exact L2]. apply (proj1 Hwf _ _ _ G2c).
  - unfold keys_apart. destruct Ka as [E|[A1 A2]]; [left; exact E|]. destruct Kb as [E|[B1 B2]]; [left; exact E|]. right. repeat split; assumption.
  - exists lc. split.
    + intros y Hy. apply (L5 lc Mc y Hy).
    + intros x Hx Mx.
      assert (Hx' : get_ent w ua (ents s) = Some x \/ get_ent w ub (ents s) = Some x).
      { destruct Hx as [Hx|Hx]; [left; rewrite <- (proj1 (L3 w ua Ka)) | right; rewrite <- (proj1 (L3 w ub Kb))]; exact Hx. }
      apply (proj1 (Hsrc x lc Hx' Mx)). reflexivity.
Qed.

(* an own-key edit ("Tx ID property") of the first fresh entity before the link *)
Lemma ready_edit s w ua ub tw c c2 lc lc2 :
  ready s w ua ub tw c c2 lc lc2 ->
  ready (em_edit s c KT VOwn) w ua ub tw c c2 lc lc2.
Proof.
  intros (Hwf & Hinv & Ac & Ac2 & Wc & Wc2 & Hcc2 & Hll & Hrol & Ka & Kb & Hsrc).
  destruct (em_edit_alone s c lc KT VOwn Ac ltac:(discriminate) ltac:(discriminate) I) as (B1 & B2 & B3 & B4 & B5 & B6).
  set (s' := em_edit s c KT VOwn) in *.
  assert (Hfile : forall w0 u0, (w0 <> tw \/ u0 <> uid c) -> fget w0 u0 (file s') = fget w0 u0 (file s)).
  { intros w0 u0 Hne. rewrite B6. apply fget_fput_other. rewrite Wc. exact Hne. }
  assert (Hcell : forall l0, l0 <> lc -> ptr_ok s l0 -> read s' l0 = read s l0 /\ ptr_ok s' l0).
  { intros l0 Hne [Pl Pr]. assert (Hh : hget l0 (heap s') = hget l0 (heap s)) by (rewrite B5; apply hget_hset_other; exact Hne).
    split; [unfold read; rewrite B3, Hh; reflexivity|]. split; [rewrite B2; exact Pl | rewrite B2, Hh; exact Pr]. }
  split; [|split; [|split; [exact B1|split; [|split; [exact Wc|split; [exact Wc2|split; [exact Hcc2|split; [exact Hll|split; [exact Hrol|split; [exact Ka|split; [exact Kb|]]]]]]]]]]].
  - apply (wf_preserve s s' [(tw, uid c)] Hwf ltac:(rewrite B2; lia)).
    + intros w0 u0 Hn. split; [rewrite B4; reflexivity|]. apply Hfile.
      destruct (Bool.bool_dec w0 tw) as [E1|E1]; [|left; exact E1]. destruct (N.eq_dec u0 (uid c)) as [E2|E2]; [|right; exact E2].
      subst. exfalso. apply Hn. left. reflexivity.
    + intros w0 u0 [E|[]]. injection E as Ew0 Eu0; subst w0 u0. destruct B1 as (G & _). rewrite Wc in G. split; [exists c; exact G|].
      rewrite B2. destruct Ac as (G0 & _). rewrite Wc in G0. apply (proj1 Hwf _ _ _ G0).
  - apply (inv_frame s s' w ua ub Hinv); try (rewrite B4; reflexivity).
    + apply Hfile. destruct Ka as [E|[E _]]; [left; exact E | right; exact E].
    + apply Hfile. destruct Kb as [E|[E _]]; [left; exact E | right; exact E].
    + intros l0 Hl0 _ (e & He & Emd). apply Hcell; [|exact Hl0]. apply (Hsrc e l0 He Emd).
  - apply (alone_frame s s' c2 lc2 Ac2); [rewrite B4; reflexivity | rewrite B5; apply hget_hset_other; intros E; apply Hll; symmetry; exact E | rewrite B2; lia].
  - intros x l0 Hx Mx. rewrite B4 in Hx. apply (Hsrc x l0 Hx Mx).
Qed.

(* a non-link edit through the first copy keeps everything a copy established *)
Lemma linked_copy_edit1 s w ua ub tw uc uc2 ec k v :
  linked_copy s w ua ub tw uc uc2 -> get_ent tw uc (ents s) = Some ec -> k <> KA -> k <> KB -> val_ok s v ->
  linked_copy (em_edit s ec k v) w ua ub tw uc uc2.
Proof.
  intros (Hcp & Hsrc & Hwf & Hkeys & lc & Hy & Hx) Gc Hka Hkb Hv.
  destruct (inv_sees _ _ _ _ Hcp) as (e1 & e2 & fd & H1 & H2 & H3 & H4 & H5 & H6 & H7 & H8 & H9 & H10 & H11 & H12).
  assert (e1 = ec) by congruence. subst e1.
  assert (Hk : forall r, k <> key_of r) by (intros [|]; assumption).
  assert (Mc : md ec = Some lc) by (apply Hy; left; exact Gc).
  destruct (em_edit_inv s tw uc uc2 ec e2 fd k v H1 H2 H3 H4 H5 H6 H7 H8 H9 (Hk _)) as (B1 & B2 & B3 & B4 & B5 & B6); try assumption.
  - right. split; [apply Hk | exact H10].
  - assert (Ka' : w <> tw \/ (ua <> uc /\ ua <> uc2)) by (destruct Hkeys as [E|(A & B & _)]; [left; exact E | right; split; assumption]).
    assert (Kb' : w <> tw \/ (ub <> uc /\ ub <> uc2)) by (destruct Hkeys as [E|(_ & _ & A & B)]; [left; exact E | right; split; assumption]).
    split; [exact B1|]. split; [|split; [|split; [exact Hkeys|]]].
    + apply (inv_frame s _ w ua ub Hsrc); try (apply B4; assumption).
      intros l0 Hl0 _ (x & Gx & Emd). apply (B5 l0 Hl0). intros l1 El1 E. subst l1. rewrite Mc in El1. inversion El1; subst l0.
      exact (Hx x Gx Emd).
    + apply (wf_preserve s _ [(tw, uc); (tw, uc2)] Hwf B3).
      * intros w0 u0 Hn. apply B4. destruct (Bool.bool_dec w0 tw) as [E1|E1]; [|left; exact E1]. right. subst w0. split.
        -- intros E. subst u0. apply Hn. left. reflexivity.
        -- intros E. subst u0. apply Hn. right. left. reflexivity.
      * intros w0 u0 Hk0. destruct B1 as (x1 & x2 & _ & X1 & X2 & _).
        destruct Hk0 as [E|[E|[]]]; injection E as Ew0 Eu0; subst w0 u0.
        -- split; [exists x1; exact X1|]. apply N.lt_le_trans with (next s); [|exact B3]. apply (proj1 Hwf _ _ _ H1).
        -- split; [exists x2; exact X2|]. apply N.lt_le_trans with (next s); [|exact B3]. apply (proj1 Hwf _ _ _ H2).
    + exists lc. split.
      * intros y Gy. apply (B6 lc Mc y Gy).
      * intros x Gx. apply Hx. destruct Gx as [G|G]; [left; rewrite <- (proj1 (B4 w ua Ka')) | right; rewrite <- (proj1 (B4 w ub Kb'))]; exact G.
Qed.

(* the copy of one side of a linked pair, for every family: ordinary surveys copy the partner under the same mask; large-loop
   surveys copy it whole, and only when both sides carry a "Tx ID" property, with the receivers' own-property entry written
   before (copy is the receivers) or after (copy is the transmitters) the link *)
Theorem copy_links_copies_gen s w ua ub ea tw mask s' uc :
  wf s -> inv s w ua ub -> get_ent w ua (ents s) = Some ea ->
  (is_large (fam ea) = true -> ids ea = true /\ forall eb, get_ent w ub (ents s) = Some eb -> ids eb = true) ->
  (forall fd, sees s ea = Some fd -> link_keys_hold_uids fd) ->
  em_copy s ea tw mask = Ok (s', uc) ->
  exists uc2,
    linked_copy s' w ua ub tw uc uc2
    /\ get_ent tw uc (ents s) = None /\ get_ent tw uc2 (ents s) = None /\ uc <> uc2.
Proof.
  intros Hwf Hinv Ga Hlg Hkeys Hcopy.
  destruct (inv_sees _ _ _ _ Hinv) as (e1 & eb & fd & H1 & H2 & H3 & H4 & H5 & H6 & H7 & H8 & H9 & H10 & H11 & H12).
  assert (e1 = ea) by congruence. subst e1.
  destruct (get_ent_some _ _ _ _ H1) as [W1 U1]. destruct (get_ent_some _ _ _ _ H2) as [W2 U2].
  pose proof Hwf as [Wf1 Wf2].
  assert (Hpa : forall l0, md ea = Some l0 -> ptr_ok s l0) by exact H8.
  assert (Hpb : forall l0, md eb = Some l0 -> ptr_ok s l0).
  { destruct Hinv as (x1 & x2 & fd' & I1 & I2 & I3 & I4 & I5 & I6 & I7 & I8 & I9 & I10 & I11 & I12 & I13 & I14).
    assert (x2 = eb) by congruence. subst x2. intros l0 E. unfold live_ok in I12. rewrite E in I12. apply I12. }
  unfold em_copy in Hcopy. destruct (masked_nv ea mask) as [n|]; [|discriminate].
  destruct (spawn s ea tw n) as [c s2] eqn:Esp.
  destruct (spawn_spec s ea tw n c s2 Hwf H5 ltac:(rewrite U1; apply (Wf1 _ _ _ H1)) Esp)
    as (lc & S1 & S2 & S3 & S4 & S5 & S6 & S7 & S8 & S9 & S10 & S11).
  pose proof (key_differs _ _ _ _ _ _ H1 S5) as Ka. pose proof (key_differs _ _ _ _ _ _ H2 S5) as Kb.
  (* the source pair after the spawn *)
  assert (Hinv2 : inv s2 w ua ub).
  { apply (inv_frame s s2 w ua ub Hinv); try (apply S8; assumption). intros l0 Hl0 _ _. apply S9. exact Hl0. }
  assert (Hwf2 : wf s2).
  { apply (wf_preserve s s2 [(tw, uid c)] Hwf S6).
    - intros w0 u0 Hn. apply S8. destruct (Bool.bool_dec w0 tw) as [E1|E1]; [|left; exact E1].
      destruct (N.eq_dec u0 (uid c)) as [E2|E2]; [|right; exact E2]. subst. exfalso. apply Hn. left. reflexivity.
    - intros w0 u0 [E|[]]. injection E as Ew0 Eu0; subst w0 u0. destruct S1 as (G & _). rewrite S2 in G. split; [exists c; exact G | exact S10]. }
  assert (Ga2 : get_ent w ua (ents s2) = Some ea) by (rewrite (proj1 (S8 w ua Ka)); exact H1).
  assert (Hr2 : refresh s2 ea = ea) by (apply refresh_get; rewrite W1, U1; exact Ga2). rewrite Hr2 in Hcopy.
  destruct (em_md s2 ea) as [l s3] eqn:Em.
  destruct (em_md_inv s2 w ua ub ea l s3 Hinv2 Ga2 Em) as (M1 & M2 & M3 & M4 & M5 & M6 & M7 & M8 & (fd3 & M9 & M9') & M10).
  assert (Hlc2 : ptr_ok s2 lc) by (destruct S1 as (_ & _ & _ & _ & P & _); exact P).
  assert (Gc3 : get_ent (wsp c) (uid c) (ents s3) = get_ent (wsp c) (uid c) (ents s2)).
  { apply M3. rewrite S2. apply sym_key. exact Ka. }
  assert (A3 : alone s3 c lc) by (apply (alone_frame s2 s3 c lc S1 Gc3 (M7 lc Hlc2) M5)).
  assert (Hwf3 : wf s3).
  { apply (wf_preserve s2 s3 [(w, ua)] Hwf2 M5).
    - intros w0 u0 Hn. split; [apply M3 | rewrite M4; reflexivity].
      destruct (Bool.bool_dec w0 w) as [E1|E1]; [|left; exact E1]. destruct (N.eq_dec u0 ua) as [E2|E2]; [|right; exact E2].
      subst. exfalso. apply Hn. left. reflexivity.
    - intros w0 u0 [E|[]]. injection E as Ew0 Eu0; subst w0 u0. split; [eexists; exact M2|].
      apply N.lt_le_trans with (next s2); [apply (proj1 Hwf2 _ _ _ Ga2) | exact M5]. }
  (* l is not the dict of the copy *)
  assert (Hllc : l <> lc).
  { destruct M10 as [E|E].
    - apply Hpa in E. destruct E as [E _]. lia.
    - destruct Hlc2 as [Hx _]. lia. }
  (* replay *)
  assert (Hsees2 : sees s2 ea = sees s ea).
  { unfold sees. destruct (md ea) as [l0|] eqn:Emd.
    - f_equal. apply S9. apply Hpa. reflexivity.
    - rewrite W1, U1. apply S8. exact Ka. }
  assert (Hd : forall k v, In (k, v) (hget l (heap s3)) -> scalar v -> k <> KA /\ k <> KB /\ val_ok s3 v).
  { intros k v Hin Hsc. assert (Hk := Hkeys fd3 ltac:(rewrite <- Hsees2; exact M9')).
    assert (Hin' : In (k, expand_val (wheap s3) v) fd3) by (rewrite <- M9; apply in_expand; exact Hin).
    split; [|split].
    - intros E. destruct (Hk _ _ Hin' (or_introl E)) as [u Eu]. apply expand_val_FU in Eu. subst v. exact Hsc.
    - intros E. destruct (Hk _ _ Hin' (or_intror E)) as [u Eu]. apply expand_val_FU in Eu. subst v. exact Hsc.
    - destruct v; try exact I. simpl. destruct M8 as [_ Hr]. apply (Hr k l0 Hin). }
  rewrite <- S2 in Hcopy.
  destruct (replay_alone (hget l (heap s3)) s3 c lc A3 Hd) as (R1 & R2 & R3 & R4 & R5 & R6).
  set (s4 := replay s3 (wsp c) (uid c) (hget l (heap s3))) in *.
  rewrite S2 in Hcopy.
  assert (Hloc4 : forall l0, l0 <> lc -> ptr_ok s3 l0 -> read s4 l0 = read s3 l0 /\ ptr_ok s4 l0).
  { intros l0 Hne [Pl Pr]. split; [unfold read; rewrite R3, (R5 l0 Hne); reflexivity|].
    split; [rewrite R2; exact Pl | rewrite R2, (R5 l0 Hne); exact Pr]. }
  assert (Hinv4 : inv s4 w ua ub).
  { apply (inv_frame s3 s4 w ua ub M1); try (rewrite R4; reflexivity); try (apply R6; rewrite S2; assumption).
    intros l0 Hl0 _ (e & [He|He] & Emd).
    - rewrite M2 in He. inversion He; subst e. simpl in Emd. inversion Emd; subst l0. apply (Hloc4 l Hllc Hl0).
    - assert (He' : get_ent w ub (ents s3) = Some eb).
      { rewrite M3 by (right; intros E; apply H3; symmetry; exact E). rewrite (proj1 (S8 w ub Kb)). exact H2. }
      rewrite He' in He. inversion He; subst e. apply Hloc4; [|exact Hl0].
      apply Hpb in Emd. destruct Emd as [E _]. lia. }
  assert (Hwf4 : wf s4).
  { apply (wf_preserve s3 s4 [(wsp c, uid c)] Hwf3 ltac:(rewrite R2; lia)).
    - intros w0 u0 Hn. split; [rewrite R4; reflexivity|]. apply R6.
      destruct (Bool.bool_dec w0 (wsp c)) as [E1|E1]; [|left; exact E1]. destruct (N.eq_dec u0 (uid c)) as [E2|E2]; [|right; exact E2].
      subst. exfalso. apply Hn. left. reflexivity.
    - intros w0 u0 [E|[]]. injection E as Ew0 Eu0; subst w0 u0. destruct R1 as (G & _). split; [exists c; exact G|].
      rewrite R2. apply N.lt_le_trans with (next s2); [exact S10 | exact M5]. }
  (* the partner of the source *)
  assert (Ga4 : get_ent w ua (ents s4) = Some (with_md ea (Some l))) by (rewrite R4; exact M2).
  assert (Hr4 : refresh s4 ea = with_md ea (Some l)) by (apply refresh_get; rewrite W1, U1; exact Ga4). rewrite Hr4 in Hcopy.
  destruct (partner_inv s4 w ua ub (with_md ea (Some l)) Hinv4 Ga4) as (p & s5 & P1 & P2 & P3 & P4 & P5 & P6 & P7 & P8 & P9 & P10 & P11).
  rewrite P1 in Hcopy. change (fam (with_md ea (Some l))) with (fam ea) in Hcopy.
  change (ids (with_md ea (Some l))) with (ids ea) in Hcopy.
  assert (Hlc4 : ptr_ok s4 lc) by (destruct R1 as (_ & _ & _ & _ & P & _); exact P).
  assert (Gc5 : get_ent (wsp c) (uid c) (ents s5) = get_ent (wsp c) (uid c) (ents s4)).
  { apply P8. rewrite S2. apply sym_key. exact Ka. }
  assert (A5 : alone s5 c lc) by (apply (alone_frame s4 s5 c lc R1 Gc5 (P10 lc Hlc4) P7)).
  assert (Hwf5 : wf s5).
  { apply (wf_preserve s4 s5 [(w, ua)] Hwf4 P7).
    - intros w0 u0 Hn. split; [apply P8 | rewrite P6; reflexivity].
      destruct (Bool.bool_dec w0 w) as [E1|E1]; [|left; exact E1]. destruct (N.eq_dec u0 ua) as [E2|E2]; [|right; exact E2].
      subst. exfalso. apply Hn. left. reflexivity.
    - intros w0 u0 [E|[]]. injection E as Ew0 Eu0; subst w0 u0.
      destruct P4 as (x1 & _ & _ & X1 & _). split; [exists x1; exact X1|].
      apply N.lt_le_trans with (next s4); [apply (proj1 Hwf4 _ _ _ Ga4) | exact P7]. }
  (* the second spawn *)
  assert (Gp4 : get_ent w ub (ents s4) = Some eb).
  { rewrite R4. rewrite M3 by (right; intros E; apply H3; symmetry; exact E). rewrite (proj1 (S8 w ub Kb)). exact H2. }
  assert (p = eb) by congruence. subst p.
  assert (Hub5 : (uid eb < next s5)%N).
  { rewrite U2. apply N.lt_le_trans with (next s); [apply (Wf1 _ _ _ H2)|]. rewrite R2 in P7. lia. }
  assert (Gc5' : get_ent tw (uid c) (ents s5) = Some c).
  { destruct A5 as (G & _). rewrite S2 in G. exact G. }
  assert (Ga5 : exists ea5, get_ent w ua (ents s5) = Some ea5) by (destruct P4 as (x1 & _ & _ & X1 & _); exists x1; exact X1).
  destruct Ga5 as [ea5 Ga5].
  assert (Gb5 : get_ent w ub (ents s5) = Some eb) by (rewrite P8; [exact Gp4 | right; intros E; apply H3; symmetry; exact E]).
  assert (Hsp : forall n2 c2 s7, spawn s5 eb tw n2 = (c2, s7) ->
            exists lc2, ready s7 w ua ub tw c c2 lc lc2 /\ get_ent tw (uid c2) (ents s) = None /\ uid c <> uid c2).
  { intros n2 c2 s7 Esp2.
    destruct (spawn_spec s5 eb tw n2 c2 s7 Hwf5 H6 Hub5 Esp2)
      as (lc2 & T1 & T2 & T3 & T4 & T5 & T6 & T7 & T8 & T9 & T10 & T11).
    assert (Hcc2 : uid c <> uid c2) by (intros E; rewrite E in Gc5'; congruence).
    assert (Kc2 : forall w0 u0 e0, get_ent w0 u0 (ents s5) = Some e0 -> w0 <> tw \/ u0 <> uid c2).
    { intros w0 u0 e0 G. apply (key_differs s5 w0 u0 tw (uid c2) e0 G T5). }
    assert (Gc7 : get_ent (wsp c) (uid c) (ents s7) = get_ent (wsp c) (uid c) (ents s5)).
    { apply T8. rewrite S2. right. exact Hcc2. }
    assert (Hlc5 : ptr_ok s5 lc) by (destruct A5 as (_ & _ & _ & _ & P & _); exact P).
    assert (A7 : alone s7 c lc) by (apply (alone_frame s5 s7 c lc A5 Gc7 (T11 lc Hlc5) T6)).
    assert (Hinv7 : inv s7 w ua ub).
    { apply (inv_frame s5 s7 w ua ub P4); try (apply T8; apply (Kc2 _ _ _ Ga5)); try (apply T8; apply (Kc2 _ _ _ Gb5)).
      intros l0 Hl0 _ _. apply T9. exact Hl0. }
assert (Ga7 : get_ent w ua (ents s7) = Some ea5) by (rewrite (proj1 (T8 w ua (Kc2 _ _ _ Ga5))); exact Ga5).
assert (Gb7 : get_ent w ub (ents s7) = Some eb) by (rewrite (proj1 (T8 w ub (Kc2 _ _ _ Gb5))); exact Gb5).
assert (Ka7 : w <> tw \/ (ua <> uid c /\ ua <> uid c2)).
{ destruct (Bool.bool_dec w tw) as [Ew|Ew]; [|left; exact Ew]. right. split.
  - intros E. rewrite Ew, E in H1. rewrite S5 in H1. discriminate.
  - intros E. rewrite Ew, E in Ga5. rewrite T5 in Ga5. discriminate. }
assert (Kb7 : w <> tw \/ (ub <> uid c /\ ub <> uid c2)).
{ destruct (Bool.bool_dec w tw) as [Ew|Ew]; [|left; exact Ew]. right. split.
  - intros E. rewrite Ew, E in H2. rewrite S5 in H2. discriminate.
  - intros E. rewrite Ew, E in Gb5. rewrite T5 in Gb5. discriminate. }
    exists lc2. split; [|split; [|exact Hcc2]].
    - split.
      { apply (wf_preserve s5 s7 [(tw, uid c2)] Hwf5 T6).
        - intros w0 u0 Hn. apply T8. destruct (Bool.bool_dec w0 tw) as [E1|E1]; [|left; exact E1].
          destruct (N.eq_dec u0 (uid c2)) as [E2|E2]; [|right; exact E2]. subst. exfalso. apply Hn. left. reflexivity.
        - intros w0 u0 [E|[]]. injection E as Ew0 Eu0; subst w0 u0. destruct T1 as (G2c & _). split; [exists c2; rewrite <- T2; exact G2c | exact T10]. }
      split; [exact Hinv7|]. split; [exact A7|]. split; [exact T1|]. split; [exact S2|]. split; [exact T2|]. split; [exact Hcc2|].
      assert (Hn5 : (next s <= next s5)%N) by (rewrite R2 in P7; lia).
      split; [destruct Hlc5 as [X _]; lia|]. split; [rewrite T3, S3; exact H4|]. split; [exact Ka7|]. split; [exact Kb7|].
      intros x l0 [Hx|Hx] Emd.
      + rewrite Ga7 in Hx. inversion Hx; subst x.
        destruct (P11 l eq_refl) as (y & Gy & My). rewrite Ga5 in Gy. inversion Gy; subst y. rewrite My in Emd. inversion Emd; subst l0.
        split; [exact Hllc|]. destruct M8 as [X _]. rewrite R2 in P7. lia.
      + rewrite Gb7 in Hx. inversion Hx; subst x. apply Hpb in Emd. destruct Emd as [E _]. split; lia.
    - (* the complement copy is new in the target workspace *)
destruct (get_ent tw (uid c2) (ents s)) as [x|] eqn:Gx; [|reflexivity]. exfalso.
assert (Hx5 : exists y, get_ent tw (uid c2) (ents s5) = Some y).
{ assert (Kx : forall w0, w0 <> tw \/ uid c2 <> uid c) by (intros w0; right; intros E; apply Hcc2; symmetry; exact E).
  destruct (Bool.bool_dec tw w) as [Ew|Ew].
  - rewrite Ew. rewrite Ew in Gx. destruct (N.eq_dec (uid c2) ua) as [Eu|Eu]; [rewrite Eu; exists ea5; exact Ga5|].
    exists x. rewrite P8 by (right; exact Eu). rewrite R4. rewrite M3 by (right; exact Eu). rewrite (proj1 (S8 _ _ (Kx w))). exact Gx.
  - exists x. rewrite P8 by (left; exact Ew). rewrite R4. rewrite M3 by (left; exact Ew). rewrite (proj1 (S8 _ _ (Kx tw))). exact Gx. }
destruct Hx5 as [y Hy]. congruence.
  }
  assert (Rf : forall st0 c2 lc2, ready st0 w ua ub tw c c2 lc lc2 -> refresh st0 c = c /\ refresh st0 c2 = c2).
  { intros st0 c2 lc2 (_ & _ & (G1 & _) & (G2 & _) & _). split; apply refresh_get; assumption. }
  destruct (is_large (fam ea)) eqn:Hlarge.
  - destruct (Hlg eq_refl) as [Hia Hib].
    assert (Hids : ids ea && ids eb = true) by (rewrite Hia, (Hib eb H2); reflexivity). rewrite Hids in Hcopy.
    destruct (spawn s5 eb tw (nv eb)) as [c2 s7] eqn:Esp2.
    destruct (Hsp _ _ _ Esp2) as (lc2 & Rd & Nc2 & Hcc2).
    assert (Hrc2 : rol c2 = other (rol c)) by (destruct Rd as (_&_&_&_&_&_&_&_&X&_); exact X).
    assert (Wc2 : wsp c2 = tw) by (destruct Rd as (_&_&_&_&_&X&_); exact X).
    exists (uid c2).
    destruct (rol c) eqn:Erc; simpl in Hrc2; rewrite Hrc2 in Hcopy; cbv beta iota zeta in Hcopy.
    + (* the copy is the receivers: its own-property entry is written before the link *)
      destruct (Rf _ _ _ Rd) as [E1 _]. rewrite E1 in Hcopy.
      pose proof (ready_edit _ _ _ _ _ _ _ _ _ Rd) as Rd8.
      destruct (Rf _ _ _ Rd8) as [E2 E3]. rewrite E2, E3 in Hcopy.
      injection Hcopy as Es Eu. subst s' uc.
      split; [apply (ready_link _ _ _ _ _ _ _ _ _ Rd8)|]. split; [exact S5|]. split; [exact Nc2 | exact Hcc2].
    + (* the copy is the transmitters: the complement's own-property entry is written after the link *)
      destruct (Rf _ _ _ Rd) as [E1 E1']. rewrite E1, E1' in Hcopy.
      pose proof (ready_link _ _ _ _ _ _ _ _ _ Rd) as L9.
      injection Hcopy as Es Eu. subst s' uc.
      split; [|split; [exact S5|split; [exact Nc2 | exact Hcc2]]].
      assert (X2 : exists x2, get_ent tw (uid c2) (ents (em_link s7 c c2)) = Some x2).
      { destruct L9 as ((x1 & x2 & _ & _ & X & _) & _). exists x2. exact X. }
      destruct X2 as [x2 X2].
      assert (Er : refresh (em_link s7 c c2) c2 = x2) by (apply refresh_get; rewrite Wc2; exact X2). rewrite Er.
      apply linked_copy_sym. apply linked_copy_edit1; [apply linked_copy_sym; exact L9 | exact X2 | discriminate | discriminate | exact I].
  - destruct (masked_nv eb mask) as [n2|]; [|discriminate].
    destruct (spawn s5 eb tw n2) as [c2 s7] eqn:Esp2.
    destruct (Hsp _ _ _ Esp2) as (lc2 & Rd & Nc2 & Hcc2).
    destruct (Rf _ _ _ Rd) as [E1 _]. rewrite E1 in Hcopy.
    injection Hcopy as Es Eu; subst s' uc.
    exists (uid c2). split; [apply (ready_link _ _ _ _ _ _ _ _ _ Rd)|]. split; [exact S5|]. split; [exact Nc2 | exact Hcc2].
Qed.

Theorem copy_links_copies s w ua ub ea tw mask s' uc :
  wf s -> inv s w ua ub -> get_ent w ua (ents s) = Some ea -> is_large (fam ea) = false ->
  (forall fd, sees s ea = Some fd -> link_keys_hold_uids fd) ->
  em_copy s ea tw mask = Ok (s', uc) ->
  exists uc2,
    inv s' tw uc uc2 /\ inv s' w ua ub /\ wf s'
    /\ get_ent tw uc (ents s) = None /\ get_ent tw uc2 (ents s) = None /\ uc <> uc2
    /\ keys_apart w ua ub tw uc uc2 /\ cells_apart s' w ua ub tw uc uc2.
Proof.
  intros Hwf Hinv Ga Hl Hk Hc.
  destruct (copy_links_copies_gen s w ua ub ea tw mask s' uc Hwf Hinv Ga ltac:(intros E; rewrite Hl in E; discriminate) Hk Hc)
    as (uc2 & L & N1 & N2 & D).
  exists uc2. pose proof (linked_copy_cells _ _ _ _ _ _ _ L) as Cl. destruct L as (I1 & I2 & W & K & _).
  split; [exact I1|]. split; [exact I2|]. split; [exact W|]. split; [exact N1|]. split; [exact N2|]. split; [exact D|].
  split; [exact K | exact Cl].
Qed.

(* large-loop surveys whose two sides carry the "Tx ID" property: the same conclusion; the partner is copied whole *)
Theorem copy_links_copies_large s w ua ub ea eb tw mask s' uc :
  wf s -> inv s w ua ub -> get_ent w ua (ents s) = Some ea -> get_ent w ub (ents s) = Some eb ->
  is_large (fam ea) = true -> ids ea = true -> ids eb = true ->
  (forall fd, sees s ea = Some fd -> link_keys_hold_uids fd) ->
  em_copy s ea tw mask = Ok (s', uc) ->
  exists uc2,
    inv s' tw uc uc2 /\ inv s' w ua ub /\ wf s'
    /\ get_ent tw uc (ents s) = None /\ get_ent tw uc2 (ents s) = None /\ uc <> uc2
    /\ keys_apart w ua ub tw uc uc2 /\ cells_apart s' w ua ub tw uc uc2.
Proof.
  intros Hwf Hinv Ga Gb Hl Hia Hib Hk Hc.
  destruct (copy_links_copies_gen s w ua ub ea tw mask s' uc Hwf Hinv Ga
              ltac:(intros _; split; [exact Hia | intros x Gx; rewrite Gb in Gx; inversion Gx; subst x; exact Hib]) Hk Hc)
    as (uc2 & L & N1 & N2 & D).
  exists uc2. pose proof (linked_copy_cells _ _ _ _ _ _ _ L) as Cl. destruct L as (I1 & I2 & W & K & _).
  split; [exact I1|]. split; [exact I2|]. split; [exact W|]. split; [exact N1|]. split; [exact N2|]. split; [exact D|].
  split; [exact K | exact Cl].
Qed.

(* ------------------------------------------------------------------ copies of copies *)
Theorem copy_of_copy s w ua ub ea tw mask s1 uc c1 tw2 mask2 s2 ucc :
  wf s -> inv s w ua ub -> get_ent w ua (ents s) = Some ea -> is_large (fam ea) = false ->
  (forall fd, sees s ea = Some fd -> link_keys_hold_uids fd) ->
  em_copy s ea tw mask = Ok (s1, uc) ->
  get_ent tw uc (ents s1) = Some c1 -> is_large (fam c1) = false ->
  (forall fd, sees s1 c1 = Some fd -> link_keys_hold_uids fd) ->
  em_copy s1 c1 tw2 mask2 = Ok (s2, ucc) ->
  exists uc2 ucc2,
    inv s2 tw2 ucc ucc2 /\ inv s2 tw uc uc2
    /\ get_ent tw2 ucc (ents s1) = None /\ get_ent tw2 ucc2 (ents s1) = None /\ ucc <> ucc2
    /\ (exists x y, get_ent tw uc (ents s1) = Some x /\ get_ent tw uc2 (ents s1) = Some y)
    /\ (exists x y, get_ent w ua (ents s1) = Some x /\ get_ent w ub (ents s1) = Some y).
Proof.
  intros Hwf Hinv Ga Hl Hk Hc1 Gc1 Hl1 Hk1 Hc2.
  destruct (copy_links_copies s w ua ub ea tw mask s1 uc Hwf Hinv Ga Hl Hk Hc1) as (uc2 & I1 & I2 & W1 & N1 & N2 & D1 & _ & _).
  destruct (copy_links_copies s1 tw uc uc2 c1 tw2 mask2 s2 ucc W1 I1 Gc1 Hl1 Hk1 Hc2) as (ucc2 & J1 & J2 & W2 & M1 & M2 & D2 & _ & _).
  exists uc2, ucc2. split; [exact J1|]. split; [exact J2|]. split; [exact M1|]. split; [exact M2|]. split; [exact D2|].
  split.
  - destruct I1 as (x & y & _ & X & Y & _). exists x, y. split; assumption.
  - destruct I2 as (x & y & _ & X & Y & _). exists x, y. split; assumption.
Qed.

(* ------------------------------------------------------------------ edits of one pair and the other pairs *)
(* scalar edits, links and re-opens applied to one pair leave another pair consistent when the two pairs hold distinct dict cells *)
Lemma edit_other_pair s w ua ub tw uc uc2 ec k z :
  inv s w ua ub -> inv s tw uc uc2 -> keys_apart w ua ub tw uc uc2 -> cells_apart s w ua ub tw uc uc2 ->
  get_ent tw uc (ents s) = Some ec -> k <> KA -> k <> KB ->
  inv (em_edit s ec k (VZ z)) w ua ub.
Proof.
  intros Hsrc Hcp Hkeys Hcells Gc Hka Hkb.
  destruct (inv_sees _ _ _ _ Hcp) as (e1 & e2 & fd & H1 & H2 & H3 & H4 & H5 & H6 & H7 & H8 & H9 & H10 & H11 & H12).
  assert (e1 = ec) by congruence. subst e1.
  assert (Hk : forall r, k <> key_of r) by (intros [|]; assumption).
  destruct (em_edit_inv s tw uc uc2 ec e2 fd k (VZ z) H1 H2 H3 H4 H5 H6 H7 H8 H9 (Hk _)) as (B1 & B2 & B3 & B4 & B5 & B6x); try assumption.
  - right. split; [apply Hk | exact H10].
  - exact I.
  - assert (Ka : tw <> w \/ (ua <> uc /\ ua <> uc2)) by (destruct Hkeys as [E|(A & B & _)]; [left; intros X; apply E; symmetry; exact X | right; split; assumption]).
    assert (Kb : tw <> w \/ (ub <> uc /\ ub <> uc2)) by (destruct Hkeys as [E|(_ & _ & A & B)]; [left; intros X; apply E; symmetry; exact X | right; split; assumption]).
    assert (Ka' : w <> tw \/ (ua <> uc /\ ua <> uc2)) by (destruct Ka as [E|E]; [left; intros X; apply E; symmetry; exact X | right; exact E]).
    assert (Kb' : w <> tw \/ (ub <> uc /\ ub <> uc2)) by (destruct Kb as [E|E]; [left; intros X; apply E; symmetry; exact X | right; exact E]).
    apply (inv_frame s _ w ua ub Hsrc); try (apply B4; assumption).
    intros l0 Hl0 _ (x & Hx & Emd). apply (B5 l0 Hl0). intros l1 El1 E. subst l1.
    apply (Hcells x ec l0 Hx (or_introl Gc) Emd El1).
Qed.

(* the side conditions of [edit_other_pair] are what a copy establishes *)
Theorem copy_then_edit_isolated s w ua ub ea tw mask s' uc ec k z :
  wf s -> inv s w ua ub -> get_ent w ua (ents s) = Some ea -> is_large (fam ea) = false ->
  (forall fd, sees s ea = Some fd -> link_keys_hold_uids fd) ->
  em_copy s ea tw mask = Ok (s', uc) ->
  get_ent tw uc (ents s') = Some ec -> k <> KA -> k <> KB ->
  inv (em_edit s' ec k (VZ z)) w ua ub.
Proof.
  intros Hwf Hinv Ga Hl Hk Hc Gc Hka Hkb.
  destruct (copy_links_copies s w ua ub ea tw mask s' uc Hwf Hinv Ga Hl Hk Hc) as (uc2 & I1 & I2 & _ & _ & _ & _ & K & Cl).
  apply (edit_other_pair s' w ua ub tw uc uc2 ec k z I2 I1 K Cl Gc Hka Hkb).
Qed.

(* ------------------------------------------------------------------ isolation of a copy from its source: refuted *)
Definition op_on (o : op) : option nat :=
  match o with OEdit a _ _ | OWave a _ | OUnit a _ => Some a | _ => None end.

(* an edit applied to an entity created by a copy never changes what a pre-existing entity reads *)
Definition copy_isolated_full : Prop :=
  forall (h : list op) (s : st) (i : nat) (tw : bool) (mask : option (list bool)) (s1 : st) (o : op) (k : nat) (s2 : st)
         (j : nat) (e e' : ent),
    run s0 h = Ok s -> step s (OCopy i tw mask) = Ok s1 ->
    op_on o = Some k -> length (ents s) <= k -> step s1 o = Ok s2 ->
    j < length (ents s) -> at_pos s1 j = Some e -> at_pos s2 j = Some e' ->
    sees s2 e' = sees s1 e.

Definition h_tem : list op :=
  [OCreate false FTEM RA false 4 []; OCreate false FTEM RB false 4 []; OLink 0 1].

Theorem copy_isolated_refuted : ~ copy_isolated_full.
Proof.
  intros H.
  assert (Hc : exists s s1 s2 e e',
            run s0 h_tem = Ok s /\ step s (OCopy 0 false None) = Ok s1 /\ step s1 (OWave 2 7) = Ok s2
            /\ length (ents s) = 2 /\ at_pos s1 0 = Some e /\ at_pos s2 0 = Some e' /\ sees s2 e' <> sees s1 e).
  { eexists _, _, _, _, _. split; [vm_compute; reflexivity|]. split; [vm_compute; reflexivity|]. split; [vm_compute; reflexivity|].
    split; [reflexivity|]. split; [vm_compute; reflexivity|]. split; [vm_compute; reflexivity|]. vm_compute. discriminate. }
  destruct Hc as (s & s1 & s2 & e & e' & H1 & H2 & H3 & H4 & H5 & H6 & H7). apply H7.
  apply (H h_tem s 0 false None s1 (OWave 2 7) 2 s2 0 e e' H1 H2 eq_refl); try assumption; rewrite H4; lia.
Qed.

(* what happens on the witness: the source receivers read the waveform written through the copy, their stored metadata keeps the old one *)
Example tem_alias_witness :
  exists s s1 s2 e',
    run s0 h_tem = Ok s /\ step s (OCopy 0 false None) = Ok s1 /\ step s1 (OWave 2 7) = Ok s2
    /\ at_pos s2 0 = Some e'
    /\ option_map (dget KW) (sees s2 e') = Some (Some (FD [(0, 0%Z); (1, 7%Z)]))
    /\ option_map (dget KW) (fget false (uid e') (file s2)) = Some (Some (FD [(0, 0%Z)])).
Proof.
  eexists _, _, _, _. split; [vm_compute; reflexivity|]. split; [vm_compute; reflexivity|]. split; [vm_compute; reflexivity|].
  split; [vm_compute; reflexivity|]. split; vm_compute; reflexivity.
Qed.

(* a computable check of well-formedness *)
Definition wfb (s : st) : bool :=
  forallb (fun e => N.ltb (uid e) (next s)) (ents s)
  && forallb (fun wud => match get_ent (fst (fst wud)) (snd (fst wud)) (ents s) with Some _ => true | None => false end) (file s).

Lemma get_ent_in w u l e : get_ent w u l = Some e -> In e l.
Proof.
  induction l as [|x r IH]; simpl; [discriminate|]. destruct (same_ent w u x); [intros H; inversion H; left; reflexivity | intros H; right; apply IH; exact H].
Qed.

Lemma fget_in w u f d : fget w u f = Some d -> In (w, u, d) f.
Proof.
  induction f as [|[[w' u'] d'] r IH]; simpl; [discriminate|]. destruct (Bool.eqb w w' && N.eqb u u') eqn:E.
  - intros H. inversion H; subst. apply andb_true_iff in E. destruct E as [E1 E2]. apply eqb_prop in E1. apply N.eqb_eq in E2. subst. left. reflexivity.
  - intros H. right. apply IH. exact H.
Qed.

Lemma wfb_sound s : wfb s = true -> wf s.
Proof.
  unfold wfb. rewrite andb_true_iff, !forallb_forall. intros [H1 H2]. split.
  - intros w u e G. destruct (get_ent_some _ _ _ _ G) as [_ U]. apply get_ent_in in G. apply H1 in G. apply N.ltb_lt in G. rewrite <- U. exact G.
  - intros w u G. destruct (fget w u (file s)) as [d|] eqn:F; [|reflexivity]. apply fget_in in F. apply H2 in F. simpl in F. rewrite G in F. discriminate.
Qed.

(* non-vacuity of the invariant: linking two freshly created receivers/transmitters establishes it *)
Example inv_nonvacuous :
  exists s, run s0 h_tem = Ok s /\ inv s false 1%N 4%N /\ wf s.
Proof.
  eexists. split; [vm_compute; reflexivity|]. split.
  - eexists _, _, _. split; [vm_compute; reflexivity|]. split; [vm_compute; reflexivity|]. split; [discriminate|].
    split; [reflexivity|]. split; [reflexivity|]. split; [reflexivity|].
    split; [vm_compute; reflexivity|]. split; [vm_compute; reflexivity|].
    split; [vm_compute; reflexivity|]. split; [vm_compute; reflexivity|].
    split; [|split; [|split; [right; reflexivity | left; reflexivity]]].
    + unfold live_ok. simpl md. split; [vm_compute; reflexivity|]. split; [reflexivity|].
      intros k wl Hin. vm_compute in Hin. repeat (destruct Hin as [Hin|Hin]; [inversion Hin; subst; reflexivity|]). contradiction.
    + unfold live_ok. simpl md. split; [vm_compute; reflexivity|]. split; [reflexivity|].
      intros k wl Hin. vm_compute in Hin. repeat (destruct Hin as [Hin|Hin]; [inversion Hin; subst; reflexivity|]). contradiction.
  - apply wfb_sound. vm_compute. reflexivity.
Qed.

(* non-vacuity of the copy theorem: its hypotheses hold on the linked TEM pair and the copy succeeds, creating the pair (7, 10) *)
Example copy_nonvacuous :
  exists s ea s1,
    run s0 h_tem = Ok s /\ wf s /\ inv s false 1%N 4%N /\ get_ent false 1%N (ents s) = Some ea /\ is_large (fam ea) = false
    /\ (forall fd, sees s ea = Some fd -> link_keys_hold_uids fd)
    /\ em_copy s ea false None = Ok (s1, 7%N) /\ map uid (ents s1) = [1; 4; 7; 10]%N.
Proof.
  destruct inv_nonvacuous as (s & Hr & Hi & Hw).
  assert (Hs : run s0 h_tem = Ok s) by exact Hr. vm_compute in Hr. injection Hr as Es. subst s.
  eexists _, _, _. split; [vm_compute; reflexivity|]. split; [exact Hw|]. split; [exact Hi|].
  split; [vm_compute; reflexivity|]. split; [reflexivity|]. split.
  - intros fd Hfd. vm_compute in Hfd. injection Hfd as Efd. subst fd. intros k fv Hin Hk.
    simpl in Hin. repeat (destruct Hin as [Hin|Hin]; [injection Hin as Ek Ev; subst k fv; try (eexists; reflexivity); destruct Hk; discriminate|]).
    contradiction.
  - split; vm_compute; reflexivity.
Qed.

(* non-vacuity of the large-loop copy theorem: receivers and transmitters that both carry the "Tx ID" property; the copy from the
   receivers creates the pair (5, 7), the copy from the transmitters into the other workspace the pair (3, 1) *)
Definition h_large : list op := [OCreate false FLarge RA true 4 []; OCreate false FLarge RB true 4 []; OLink 0 1].

Example copy_large_nonvacuous :
  exists s ea eb s1 s2,
    run s0 h_large = Ok s /\ wf s /\ inv s false 1%N 3%N
    /\ get_ent false 1%N (ents s) = Some ea /\ get_ent false 3%N (ents s) = Some eb
    /\ is_large (fam ea) = true /\ ids ea = true /\ ids eb = true
    /\ (forall fd, sees s ea = Some fd -> link_keys_hold_uids fd)
    /\ (forall fd, sees s eb = Some fd -> link_keys_hold_uids fd)
    /\ em_copy s ea false None = Ok (s1, 5%N) /\ map uid (ents s1) = [1; 3; 5; 7]%N
    /\ em_copy s eb true None = Ok (s2, 3%N) /\ map uid (ents s2) = [1; 3; 3; 1]%N.
Proof.
  assert (H : exists s, run s0 h_large = Ok s /\ inv s false 1%N 3%N /\ wf s).
  { eexists. split; [vm_compute; reflexivity|]. split.
    - eexists _, _, _. split; [vm_compute; reflexivity|]. split; [vm_compute; reflexivity|]. split; [discriminate|].
      split; [reflexivity|]. split; [reflexivity|]. split; [reflexivity|].
      split; [vm_compute; reflexivity|]. split; [vm_compute; reflexivity|].
      split; [vm_compute; reflexivity|]. split; [vm_compute; reflexivity|].
      split; [|split; [|split; [right; reflexivity | left; reflexivity]]].
      + unfold live_ok. simpl md. split; [vm_compute; reflexivity|]. split; [reflexivity|].
        intros k wl Hin. vm_compute in Hin. repeat (destruct Hin as [Hin|Hin]; [inversion Hin; subst; reflexivity|]). contradiction.
      + unfold live_ok. simpl md. split; [vm_compute; reflexivity|]. split; [reflexivity|].
        intros k wl Hin. vm_compute in Hin. repeat (destruct Hin as [Hin|Hin]; [inversion Hin; subst; reflexivity|]). contradiction.
    - apply wfb_sound. vm_compute. reflexivity. }
  destruct H as (s & Hr & Hi & Hw).
  assert (Hs : run s0 h_large = Ok s) by exact Hr. vm_compute in Hr. injection Hr as Es. subst s.
  eexists _, _, _, _, _. split; [vm_compute; reflexivity|]. split; [exact Hw|]. split; [exact Hi|].
  split; [vm_compute; reflexivity|]. split; [vm_compute; reflexivity|].
  split; [reflexivity|]. split; [reflexivity|]. split; [reflexivity|]. split; [|split].
  - intros fd Hfd. vm_compute in Hfd. injection Hfd as Efd. subst fd. intros k fv Hin Hk.
    simpl in Hin. repeat (destruct Hin as [Hin|Hin]; [injection Hin as Ek Ev; subst k fv; try (eexists; reflexivity); destruct Hk; discriminate|]).
    contradiction.
  - intros fd Hfd. vm_compute in Hfd. injection Hfd as Efd. subst fd. intros k fv Hin Hk.
    simpl in Hin. repeat (destruct Hin as [Hin|Hin]; [injection Hin as Ek Ev; subst k fv; try (eexists; reflexivity); destruct Hk; discriminate|]).
    contradiction.
  - split; [vm_compute; reflexivity|]. split; [vm_compute; reflexivity|]. split; vm_compute; reflexivity.
Qed.

(* ================================================================== direct-current electrode pairs *)
(* What survives for electrodes is weaker than [inv]: the two entities need not read the same metadata (a free metadata edit is
   stored for the edited side only — finding dc-shared-dict-partner-not-stored), but the LINK does: whatever either electrode
   reads, and whatever is stored for either, names both. *)
Definition dgood (ua ub : N) (d : dict) : Prop := dget KA d = Some (VU ua) /\ dget KB d = Some (VU ub).
Definition fgood (ua ub : N) (fd : fdict) : Prop := dget KA fd = Some (FU ua) /\ dget KB fd = Some (FU ub).

Lemma good_expand h ua ub d : dgood ua ub d -> fgood ua ub (expand h d).
Proof. intros [A B]. split; rewrite expand_dget; [rewrite A | rewrite B]; reflexivity. Qed.

Lemma expand_good h ua ub d : fgood ua ub (expand h d) -> dgood ua ub d.
Proof.
  intros [A B]. rewrite expand_dget in A, B. split.
  - destruct (dget KA d) as [v|]; simpl in A; [|discriminate]. inversion A as [E]. apply expand_val_FU in E. subst. reflexivity.
  - destruct (dget KB d) as [v|]; simpl in B; [|discriminate]. inversion B as [E]. apply expand_val_FU in E. subst. reflexivity.
Qed.

Definition dnames (s : st) (ua ub : N) (e : ent) : Prop :=
  (exists fd, fget (wsp e) (uid e) (file s) = Some fd /\ fgood ua ub fd)
  /\ (forall l, md e = Some l -> (l < next s)%N /\ dgood ua ub (hget l (heap s))).

Definition dinv (s : st) (w : bool) (ua ub : N) : Prop :=
  exists ea eb,
    get_ent w ua (ents s) = Some ea /\ get_ent w ub (ents s) = Some eb /\ ua <> ub
    /\ fam ea = FDC /\ fam eb = FDC /\ rol ea = RA /\ rol eb = RB
    /\ dnames s ua ub ea /\ dnames s ua ub eb.

Definition upd (new old : dict) : dict := fold_left (fun acc kv => dset (fst kv) (snd kv) acc) new old.

Lemma upd_other k new : forall old, ~ In k (map fst new) -> dget k (upd new old) = dget k old.
Proof.
  induction new as [|[k' v] r IH]; intros old Hn; simpl; [reflexivity|].
  unfold upd in *. simpl. rewrite IH by (intros H; apply Hn; right; exact H).
  apply dget_dset_other. intros E. apply Hn. left. simpl. symmetry. exact E.
Qed.

Lemma upd_same k x new : forall old, In k (map fst new) -> (forall v, In (k, v) new -> v = x) -> dget k (upd new old) = Some x.
Proof.
  induction new as [|[k' v] r IH]; intros old Hin Hall; simpl in *; [contradiction|].
  unfold upd in *. simpl.
  destruct (in_dec Nat.eq_dec k (map fst r)) as [Hr|Hr].
  - apply IH; [exact Hr | intros v0 Hv0; apply Hall; right; exact Hv0].
  - fold (upd r (dset k' v old)). rewrite upd_other by exact Hr.
    destruct Hin as [E|E]; [|contradiction]. subst k'. rewrite dget_dset_same. f_equal. apply Hall. left. reflexivity.
Qed.

(* the electrode metadata setter applied to entity e with the dict object l *)
Lemma dc_assign_spec s e l :
  get_ent (wsp e) (uid e) (ents s) = Some e ->
  let l' := match md e with Some l0 => l0 | None => l end in
  let dn := match md e with Some l0 => upd (hget l (heap s)) (hget l0 (heap s)) | None => hget l (heap s) end in
  let s' := dc_assign s e l in
  get_ent (wsp e) (uid e) (ents s') = Some (with_md e (Some l'))
  /\ hget l' (heap s') = dn
  /\ (forall l1, l1 <> l' -> hget l1 (heap s') = hget l1 (heap s))
  /\ wheap s' = wheap s /\ next s' = next s
  /\ fget (wsp e) (uid e) (file s') = Some (expand (wheap s) dn)
  /\ (forall w u, (wsp e <> w \/ uid e <> u) -> get_ent w u (ents s') = get_ent w u (ents s) /\ fget w u (file s') = fget w u (file s)).
Proof.
  intros G. unfold dc_assign. destruct (md e) as [l0|] eqn:Em; cbv zeta.
  - assert (Ee : with_md e (Some l0) = e) by (destruct e; simpl in *; subst; reflexivity). rewrite Ee.
    split; [exact G|]. split; [simpl; apply hget_hset_same|]. split; [intros l1 Hl1; simpl; apply hget_hset_other; exact Hl1|].
    split; [reflexivity|]. split; [reflexivity|]. split.
    + unfold store, read. simpl. rewrite hget_hset_same. apply fget_fput_same.
    + intros w u Hne. split; [reflexivity|]. unfold store. simpl. apply fget_fput_other. apply sym_key. exact Hne.
  - split; [simpl; apply (get_put_same (with_md e (Some l)))|]. split; [reflexivity|]. split; [intros; reflexivity|].
    split; [reflexivity|]. split; [reflexivity|]. split.
    + unfold store, read. simpl. apply fget_fput_same.
    + intros w u Hne. split; [simpl; apply (get_put_other (with_md e (Some l))); exact Hne|].
      unfold store. simpl. apply fget_fput_other. apply sym_key. exact Hne.
Qed.

(* the electrode metadata getter *)
Lemma dc_md_spec s e m s1 :
  get_ent (wsp e) (uid e) (ents s) = Some e -> (forall l, md e = Some l -> (l < next s)%N) ->
  dc_md s e = (m, s1) ->
  (next s <= next s1)%N /\ file s1 = file s
  /\ (forall l0, (l0 < next s)%N -> hget l0 (heap s1) = hget l0 (heap s))
  /\ (forall w u, (wsp e <> w \/ uid e <> u) -> get_ent w u (ents s1) = get_ent w u (ents s))
  /\ match m with
     | Some l => get_ent (wsp e) (uid e) (ents s1) = Some (with_md e (Some l)) /\ (l < next s1)%N
                 /\ (md e = Some l \/ (md e = None /\ exists fd, fget (wsp e) (uid e) (file s) = Some fd /\ expand (wheap s1) (hget l (heap s1)) = fd))
     | None => s1 = s /\ md e = None /\ fget (wsp e) (uid e) (file s) = None
     end.
Proof.
  intros G Hfresh E. unfold dc_md in E. destruct (md e) as [l|] eqn:Em.
  - inversion E; subst. assert (Ee : with_md e (Some l) = e) by (destruct e; simpl in *; subst; reflexivity). rewrite Ee.
    split; [lia|]. split; [reflexivity|]. split; [intros; reflexivity|]. split; [intros; reflexivity|].
    split; [exact G|]. split; [apply Hfresh; reflexivity | left; reflexivity].
  - destruct (fget (wsp e) (uid e) (file s)) as [fd|] eqn:Ef.
    + destruct (load fd s) as [d s0] eqn:El. destruct (load_spec _ _ _ _ El) as (H1 & H2 & H3 & H4 & H5 & H6 & H7).
      inversion E; subst m s1; clear E. set (l := next s0).
      split; [simpl; lia|]. split; [exact H3|]. split.
      { intros l0 Hl0. simpl. rewrite hget_hset_other by (unfold l; lia). rewrite H2. reflexivity. }
      split.
      { intros w u Hne. simpl. rewrite (get_put_other (with_md e (Some l))) by exact Hne. rewrite H1. reflexivity. }
      split; [simpl; apply (get_put_same (with_md e (Some l)))|]. split; [simpl; unfold l; lia|].
      right. split; [reflexivity|]. exists fd. split; [reflexivity|]. simpl. rewrite hget_hset_same. exact H5.
    + inversion E; subst. split; [lia|]. split; [reflexivity|]. split; [intros; reflexivity|]. split; [intros; reflexivity|].
      split; [reflexivity | split; reflexivity].
Qed.

Definition dlive (s : st) (ua ub : N) (x : ent) : Prop :=
  forall l, md x = Some l -> (l < next s)%N /\ dgood ua ub (hget l (heap s)).
Definition dfile (s : st) (ua ub : N) (x : ent) : Prop :=
  exists fd, fget (wsp x) (uid x) (file s) = Some fd /\ fgood ua ub fd.
Definition dfresh (s : st) (x : ent) : Prop := forall l, md x = Some l -> (l < next s)%N.

(* entries for the two link keys, if any, carry the right identifiers *)
Definition dcompat (ua ub : N) (d : dict) : Prop :=
  forall k v, In (k, v) d -> (k = KA -> v = VU ua) /\ (k = KB -> v = VU ub).

Lemma in_keys {V} k (d : list (nat * V)) : In k (map fst d) -> exists v, In (k, v) d.
Proof. intros H. apply in_map_iff in H. destruct H as [[k' v] [E H]]. simpl in E. subst. exists v. exact H. Qed.

Lemma upd_good ua ub new old : dcompat ua ub new -> (dgood ua ub old \/ dgood ua ub new) -> dgood ua ub (upd new old).
Proof.
  intros Hc Hg.
  assert (Hk : forall k x, (k = KA /\ x = VU ua) \/ (k = KB /\ x = VU ub) ->
               (dget k old = Some x \/ dget k new = Some x) -> dget k (upd new old) = Some x).
  { intros k x Hkx Hor. destruct (in_dec Nat.eq_dec k (map fst new)) as [Hin|Hin].
    - apply upd_same; [exact Hin|]. intros v Hv. destruct (Hc k v Hv) as [Ha Hb].
      destruct Hkx as [[Ek Ex]|[Ek Ex]]; subst x; [apply Ha | apply Hb]; exact Ek.
    - rewrite upd_other by exact Hin. destruct Hor as [Ho|Hn]; [exact Ho|].
      exfalso. apply Hin. apply dget_in in Hn. apply (in_map fst) in Hn. exact Hn. }
  split.
  - apply Hk; [left; split; reflexivity|]. destruct Hg as [[A _]|[A _]]; [left | right]; exact A.
  - apply Hk; [right; split; reflexivity|]. destruct Hg as [[_ B]|[_ B]]; [left | right]; exact B.
Qed.

(* Lemma A: the getter of e keeps (or establishes, from a good stored dict) the liveness facts of every entity *)
Lemma dc_md_keeps s e m s1 ua ub x :
  get_ent (wsp e) (uid e) (ents s) = Some e -> dfresh s e -> dc_md s e = (m, s1) ->
  get_ent (wsp x) (uid x) (ents s) = Some x ->
  (forall fd, fget (wsp e) (uid e) (file s) = Some fd -> md e = None -> fgood ua ub fd) ->
  exists x1, get_ent (wsp x) (uid x) (ents s1) = Some x1
    /\ wsp x1 = wsp x /\ uid x1 = uid x /\ fam x1 = fam x /\ rol x1 = rol x
    /\ (dfresh s x -> dfresh s1 x1) /\ (dlive s ua ub x -> dlive s1 ua ub x1) /\ (dfile s ua ub x -> dfile s1 ua ub x1)
    /\ (next s <= next s1)%N
    /\ ((wsp e <> wsp x \/ uid e <> uid x) -> x1 = x /\ fget (wsp x) (uid x) (file s1) = fget (wsp x) (uid x) (file s)).
Proof.
  intros G Hfr E Gx Hfile.
  destruct (dc_md_spec s e m s1 G Hfr E) as (N1 & F1 & H1 & O1 & Hm).
  destruct (Bool.bool_dec (wsp e) (wsp x)) as [Ew|Ew]; [destruct (N.eq_dec (uid e) (uid x)) as [Eu|Eu]|].
  - (* x is e itself *)
    assert (x = e) by (rewrite <- Ew, <- Eu in Gx; congruence). subst x.
    destruct m as [l|].
    + destruct Hm as (G1 & L1 & Hor). exists (with_md e (Some l)). split; [exact G1|].
      split; [reflexivity|]. split; [reflexivity|]. split; [reflexivity|]. split; [reflexivity|].
      split; [intros _ l1 E1; simpl in E1; inversion E1; subst; exact L1|].
      split; [|split; [|split; [exact N1 | intros [Hc|Hc]; exfalso; apply Hc; reflexivity]]].
      * intros Hlv l1 E1. simpl in E1. inversion E1; subst l1. split; [exact L1|].
        destruct Hor as [Em|[Em (fd & Ef & Ex)]].
        -- destruct (Hlv l Em) as [Hlt Hg]. rewrite H1 by exact Hlt. exact Hg.
        -- apply (expand_good (wheap s1)). rewrite Ex. apply (Hfile fd Ef Em).
      * intros (fd & Ef & Hg). exists fd. simpl. rewrite F1. split; assumption.
    + destruct Hm as (Es & Em & Ef). subst s1. exists e. split; [exact G|].
      split; [reflexivity|]. split; [reflexivity|]. split; [reflexivity|]. split; [reflexivity|]. split; [auto|]. split; [auto|]. split; [auto|]. split; [lia | intros [Hc|Hc]; exfalso; apply Hc; reflexivity].
  - exists x. rewrite (O1 _ _ (or_intror Eu)). split; [exact Gx|].
    split; [reflexivity|]. split; [reflexivity|]. split; [reflexivity|]. split; [reflexivity|].
    split; [intros Hx l1 El; apply Hx in El; lia|].
    split; [intros Hx l1 El; destruct (Hx l1 El) as [Hlt Hg]; split; [lia|]; rewrite H1 by exact Hlt; exact Hg|].
    split; [intros (fd & Ef & Hg); exists fd; rewrite F1; split; assumption|]. split; [exact N1 | intros _; split; [reflexivity | rewrite F1; reflexivity]].
  - exists x. rewrite (O1 _ _ (or_introl Ew)). split; [exact Gx|].
    split; [reflexivity|]. split; [reflexivity|]. split; [reflexivity|]. split; [reflexivity|].
    split; [intros Hx l1 El; apply Hx in El; lia|].
    split; [intros Hx l1 El; destruct (Hx l1 El) as [Hlt Hg]; split; [lia|]; rewrite H1 by exact Hlt; exact Hg|].
    split; [intros (fd & Ef & Hg); exists fd; rewrite F1; split; assumption|]. split; [exact N1 | intros _; split; [reflexivity | rewrite F1; reflexivity]].
Qed.

(* Lemma B: the setter of e with a compatible dict l; the result is good when the old dict was, or when l itself names both *)
Lemma dc_assign_keeps s e l ua ub x :
  get_ent (wsp e) (uid e) (ents s) = Some e -> dfresh s e -> (l < next s)%N ->
  dcompat ua ub (hget l (heap s)) ->
  (dlive s ua ub e /\ (md e = None -> dgood ua ub (hget l (heap s))) \/ dgood ua ub (hget l (heap s))) ->
  get_ent (wsp x) (uid x) (ents s) = Some x ->
  let s' := dc_assign s e l in
  exists x1, get_ent (wsp x) (uid x) (ents s') = Some x1
    /\ wsp x1 = wsp x /\ uid x1 = uid x /\ fam x1 = fam x /\ rol x1 = rol x
    /\ (dfresh s x -> dfresh s' x1)
    /\ ((wsp e = wsp x /\ uid e = uid x) -> dlive s' ua ub x1 /\ dfile s' ua ub x1)
    /\ (dlive s ua ub x -> dlive s' ua ub x1) /\ (dfile s ua ub x -> dfile s' ua ub x1)
    /\ next s' = next s
    /\ ((wsp e <> wsp x \/ uid e <> uid x) -> x1 = x /\ fget (wsp x) (uid x) (file s') = fget (wsp x) (uid x) (file s)).
Proof.
  intros G Hfr Hl Hc Hgood Gx. cbv zeta.
  destruct (dc_assign_spec s e l G) as (G1 & D1 & O1 & W1 & N1 & F1 & R1).
  set (l' := match md e with Some l0 => l0 | None => l end) in *.
  set (dn := match md e with Some l0 => upd (hget l (heap s)) (hget l0 (heap s)) | None => hget l (heap s) end) in *.
  assert (Hdn : dgood ua ub dn).
  { unfold dn. destruct (md e) as [l0|] eqn:Em.
    - apply upd_good; [exact Hc|]. destruct Hgood as [[Hlive _]|Hg]; [left; first [apply (proj2 (Hlive l0 Em)) | apply (proj2 (Hlive l0 eq_refl))] | right; exact Hg].
    - destruct Hgood as [[_ Hn]|Hg]; [apply Hn; reflexivity | exact Hg]. }
  assert (Hl' : (l' < next s)%N) by (unfold l'; destruct (md e) as [l0|] eqn:Em; [apply Hfr; first [exact Em | reflexivity] | exact Hl]).
  assert (Hlive_any : forall y, md y = Some l' \/ dlive s ua ub y -> forall l1, md y = Some l1 ->
                        (l1 < next s)%N -> (l1 < next (dc_assign s e l))%N /\ dgood ua ub (hget l1 (heap (dc_assign s e l)))).
  { intros y Hy l1 E1 Hlt. split; [rewrite N1; exact Hlt|].
    destruct (N.eq_dec l1 l') as [El|El]; [subst l1; rewrite D1; exact Hdn|].
    rewrite O1 by exact El. destruct Hy as [Hy|Hy]; [congruence | apply (Hy l1 E1)]. }
  destruct (Bool.bool_dec (wsp e) (wsp x)) as [Ew|Ew]; [destruct (N.eq_dec (uid e) (uid x)) as [Eu|Eu]|].
  - assert (x = e) by (rewrite <- Ew, <- Eu in Gx; congruence). subst x.
    exists (with_md e (Some l')). split; [exact G1|]. split; [reflexivity|]. split; [reflexivity|]. split; [reflexivity|]. split; [reflexivity|].
    assert (Hboth : dlive (dc_assign s e l) ua ub (with_md e (Some l')) /\ dfile (dc_assign s e l) ua ub (with_md e (Some l'))).
    { split.
      - intros l1 E1. simpl in E1. inversion E1; subst l1. apply (Hlive_any (with_md e (Some l')) (or_introl eq_refl) l' eq_refl Hl').
      - exists (expand (wheap s) dn). split; [exact F1 | apply good_expand; exact Hdn]. }
    split; [intros _ l1 E1; simpl in E1; inversion E1; subst; rewrite N1; exact Hl'|].
    split; [intros _; exact Hboth|]. split; [intros _; apply Hboth | split; [intros _; apply Hboth | split; [exact N1 | intros [Hx|Hx]; exfalso; apply Hx; reflexivity]]].
  - destruct (R1 (wsp x) (uid x) (or_intror Eu)) as [Rg Rf].
    exists x. rewrite Rg. split; [exact Gx|]. split; [reflexivity|]. split; [reflexivity|]. split; [reflexivity|]. split; [reflexivity|].
    split; [intros Hx l1 E1; rewrite N1; apply Hx; exact E1|].
    split; [intros [_ E]; contradiction|].
    split; [intros Hx l1 E1; apply (Hlive_any x (or_intror Hx) l1 E1); apply (Hx l1 E1)|].
    split; [intros (fd & Ef & Hg); exists fd; rewrite Rf; split; assumption|]. split; [exact N1 | intros _; split; [reflexivity | exact Rf]].
  - destruct (R1 (wsp x) (uid x) (or_introl Ew)) as [Rg Rf].
    exists x. rewrite Rg. split; [exact Gx|]. split; [reflexivity|]. split; [reflexivity|]. split; [reflexivity|]. split; [reflexivity|].
    split; [intros Hx l1 E1; rewrite N1; apply Hx; exact E1|].
    split; [intros [E _]; contradiction|].
    split; [intros Hx l1 E1; apply (Hlive_any x (or_intror Hx) l1 E1); apply (Hx l1 E1)|].
    split; [intros (fd & Ef & Hg); exists fd; rewrite Rf; split; assumption|]. split; [exact N1 | intros _; split; [reflexivity | exact Rf]].
Qed.

(* getter + setter of electrode e with the dict object l, seen from e and from another entity o *)
Definition dc_put (s : st) (e : ent) (l : N) : st := let '(_, s1) := dc_md s e in dc_assign s1 (refresh s1 e) l.

Lemma dc_put_spec s e o l ua ub :
  get_ent (wsp e) (uid e) (ents s) = Some e -> get_ent (wsp o) (uid o) (ents s) = Some o ->
  (wsp e <> wsp o \/ uid e <> uid o) ->
  dfresh s e -> dfresh s o -> (l < next s)%N -> dcompat ua ub (hget l (heap s)) ->
  (forall fd, fget (wsp e) (uid e) (file s) = Some fd -> md e = None -> fgood ua ub fd) ->
  (dlive s ua ub e /\ (md e = None -> fget (wsp e) (uid e) (file s) = None -> dgood ua ub (hget l (heap s)))
   \/ dgood ua ub (hget l (heap s))) ->
  let s' := dc_put s e l in
  exists e' o',
    get_ent (wsp e) (uid e) (ents s') = Some e' /\ get_ent (wsp o) (uid o) (ents s') = Some o'
    /\ wsp e' = wsp e /\ uid e' = uid e /\ fam e' = fam e /\ rol e' = rol e
    /\ wsp o' = wsp o /\ uid o' = uid o /\ fam o' = fam o /\ rol o' = rol o
    /\ dfresh s' e' /\ dfresh s' o' /\ dlive s' ua ub e' /\ dfile s' ua ub e'
    /\ (dlive s ua ub o -> dlive s' ua ub o') /\ (dfile s ua ub o -> dfile s' ua ub o')
    /\ (next s <= next s')%N
    /\ ((forall l0, md e = Some l0 -> l0 <> l) -> hget l (heap s') = hget l (heap s))
    /\ o' = o /\ fget (wsp o) (uid o) (file s') = fget (wsp o) (uid o) (file s).
Proof.
  intros Ge Go Hne Fe Fo Hl Hc Hfile Hgood. unfold dc_put. cbv zeta.
  destruct (dc_md s e) as [m s1] eqn:Em.
  destruct (dc_md_spec s e m s1 Ge Fe Em) as (N1 & F1 & H1 & O1 & Hm).
  destruct (dc_md_keeps s e m s1 ua ub e Ge Fe Em Ge Hfile) as (e1 & Ge1 & We1 & Ue1 & Fa1 & Ro1 & Fr1 & Lv1 & Fl1 & _ & _).
  destruct (dc_md_keeps s e m s1 ua ub o Ge Fe Em Go Hfile) as (o1 & Go1 & Wo1 & Uo1 & Fao1 & Roo1 & Fro1 & Lvo1 & Flo1 & _ & Same1).
  assert (Hr : refresh s1 e = e1) by (apply refresh_get; exact Ge1). rewrite Hr.
  assert (Ge1' : get_ent (wsp e1) (uid e1) (ents s1) = Some e1) by (rewrite We1, Ue1; exact Ge1).
  assert (Go1' : get_ent (wsp o1) (uid o1) (ents s1) = Some o1) by (rewrite Wo1, Uo1; exact Go1).
  assert (Hl1 : (l < next s1)%N) by lia.
  assert (Hhl : hget l (heap s1) = hget l (heap s)) by (apply H1; exact Hl).
  assert (Hc1 : dcompat ua ub (hget l (heap s1))) by (rewrite Hhl; exact Hc).
  assert (Hmd1 : md e1 = m).
  { destruct m as [lm|].
    - destruct Hm as (G1 & _). rewrite Ge1 in G1. inversion G1. reflexivity.
    - destruct Hm as (Es & Emd & _). rewrite Es in Ge1. rewrite Ge in Ge1. inversion Ge1 as [E1]. rewrite <- E1. exact Emd. }
  assert (Hgood1 : dlive s1 ua ub e1 /\ (md e1 = None -> dgood ua ub (hget l (heap s1))) \/ dgood ua ub (hget l (heap s1))).
  { rewrite Hhl. destruct Hgood as [[Hlv Hn]|Hg]; [|right; exact Hg].
    destruct m as [lm|].
    - destruct Hm as (_ & Llm & Hor). left. split; [|rewrite Hmd1; discriminate].
      destruct Hor as [Emd|[Emd (fd & Ef & Ex)]].
      + apply Lv1. exact Hlv.
      + intros l1 E1. rewrite Hmd1 in E1. inversion E1; subst l1. split; [exact Llm|].
        apply (expand_good (wheap s1)). rewrite Ex. apply (Hfile fd Ef Emd).
    - destruct Hm as (Es & Emd & Ef). left. split; [apply Lv1; exact Hlv|]. intros _. apply Hn; assumption. }
  destruct (dc_assign_keeps s1 e1 l ua ub e1 Ge1' (Fr1 Fe) Hl1 Hc1 Hgood1 Ge1')
    as (e2 & Ge2 & We2 & Ue2 & Fa2 & Ro2 & Fr2 & Own2 & _ & _ & N2 & _).
  destruct (dc_assign_keeps s1 e1 l ua ub o1 Ge1' (Fr1 Fe) Hl1 Hc1 Hgood1 Go1')
    as (o2 & Go2 & Wo2 & Uo2 & Fao2 & Roo2 & Fro2 & _ & Lvo2 & Flo2 & _ & Same2).
  destruct (Own2 (conj eq_refl eq_refl)) as [Lv2 Fl2].
  exists e2, o2.
  split; [rewrite <- We1, <- Ue1; exact Ge2|]. split; [rewrite <- Wo1, <- Uo1; exact Go2|].
  split; [congruence|]. split; [congruence|]. split; [congruence|]. split; [congruence|].
  split; [congruence|]. split; [congruence|]. split; [congruence|]. split; [congruence|].
  split; [apply Fr2; apply Fr1; exact Fe|]. split; [apply Fro2; apply Fro1; exact Fo|].
  split; [exact Lv2|]. split; [exact Fl2|].
  split; [intros H; apply Lvo2; apply Lvo1; exact H|]. split; [intros H; apply Flo2; apply Flo1; exact H|].
  split; [rewrite N2; exact N1|].
  assert (Hsame : o2 = o /\ fget (wsp o) (uid o) (file (dc_assign s1 e1 l)) = fget (wsp o) (uid o) (file s)).
  { destruct (Same1 Hne) as [E1 F1']. destruct (Same2 ltac:(rewrite We1, Ue1, Wo1, Uo1; exact Hne)) as [E2 F2'].
    split; [congruence|]. rewrite Wo1, Uo1 in F2'. rewrite F2'. exact F1'. }
  split; [|exact Hsame].
  intros Hnl. destruct (dc_assign_spec s1 e1 l Ge1') as (_ & Dn & Oth & _). rewrite Hmd1 in Dn, Oth.
  destruct m as [lm|].
  - rewrite Oth; [exact Hhl|]. destruct Hm as (_ & Llm & Hor). destruct Hor as [Emd|[Emd (fd & Ef & Ex)]].
    + intros E. apply (Hnl lm Emd). symmetry. exact E.
    + (* loaded: the new cell is younger than l *)
      intros E. subst lm. unfold dc_md in Em. rewrite Emd, Ef in Em. destruct (load fd s) as [d s0] eqn:El.
      destruct (load_spec _ _ _ _ El) as (_ & _ & _ & Hle & _). inversion Em; subst. simpl in Hl1. lia.
  - (* adopted: the entity now holds l itself, whose cell is untouched *)
    rewrite Dn. exact Hhl.
Qed.

Lemma refresh_key s b : wsp (refresh s b) = wsp b /\ uid (refresh s b) = uid b.
Proof.
  unfold refresh. destruct (get_ent (wsp b) (uid b) (ents s)) as [x|] eqn:G; [apply (get_ent_some _ _ _ _ G) | split; reflexivity].
Qed.

Lemma dc_link_unfold s a b :
  dc_link s a b =
  let pa := if match rol a with RA => true | RB => false end then a else b in
  let pb := if match rol a with RA => true | RB => false end then b else a in
  let l := next s in
  let s0 := bump (set_heap s (hset l [(KA, VU (uid pa)); (KB, VU (uid pb))] (heap s))) in
  let s2 := dc_put s0 a l in
  dc_put s2 (refresh s2 b) l.
Proof.
  unfold dc_link, dc_put. cbv zeta. destruct (dc_md _ a) as [m1 s1]. destruct (dc_md _ (refresh _ b)) as [m3 s3]. reflexivity.
Qed.

Definition dstored_ok (s : st) (ua ub : N) (e : ent) : Prop :=
  forall fd, fget (wsp e) (uid e) (file s) = Some fd -> md e = None -> fgood ua ub fd.

(* x.<partner> = y for electrodes x, y of opposite roles: whatever they held before, both end up naming both, live and stored *)
Lemma dc_link_any s w x y ua ub :
  get_ent w (uid x) (ents s) = Some x -> get_ent w (uid y) (ents s) = Some y -> uid x <> uid y ->
  fam x = FDC -> fam y = FDC ->
  ((rol x = RA /\ rol y = RB /\ uid x = ua /\ uid y = ub) \/ (rol x = RB /\ rol y = RA /\ uid x = ub /\ uid y = ua)) ->
  dfresh s x -> dfresh s y -> dstored_ok s ua ub x -> dstored_ok s ua ub y ->
  dinv (dc_link s x y) w ua ub.
Proof.
  intros Gx Gy Hne Fx Fy Hor Frx Fry Sx Sy.
  destruct (get_ent_some _ _ _ _ Gx) as [Wx _]. destruct (get_ent_some _ _ _ _ Gy) as [Wy _].
  rewrite dc_link_unfold. cbv zeta.
  set (l := next s).
  assert (Hd : [(KA, VU (uid (if match rol x with RA => true | RB => false end then x else y)));
                (KB, VU (uid (if match rol x with RA => true | RB => false end then y else x)))] = [(KA, VU ua); (KB, VU ub)]).
  { destruct Hor as [(R1 & R2 & U1 & U2)|(R1 & R2 & U1 & U2)]; rewrite R1; simpl; rewrite U1, U2; reflexivity. }
  rewrite Hd. set (dnew := [(KA, VU ua); (KB, VU ub)]).
  set (s0 := bump (set_heap s (hset l dnew (heap s)))).
  assert (Hg : dgood ua ub dnew) by (split; reflexivity).
  assert (Hc : dcompat ua ub dnew).
  { intros k v [E|[E|[]]]; inversion E; subst; split; intros E'; try discriminate; reflexivity. }
  assert (Hl0 : hget l (heap s0) = dnew) by (unfold s0; simpl; apply hget_hset_same).
  assert (Hlt : (l < next s0)%N) by (unfold s0, l; simpl; lia).
  assert (Fr0 : forall z, dfresh s z -> dfresh s0 z) by (intros z H l0 E; apply H in E; unfold s0; simpl; lia).
  assert (Gx0 : get_ent (wsp x) (uid x) (ents s0) = Some x) by (rewrite Wx; exact Gx).
  assert (Gy0 : get_ent (wsp y) (uid y) (ents s0) = Some y) by (rewrite Wy; exact Gy).
  destruct (dc_put_spec s0 x y l ua ub Gx0 Gy0 (or_intror Hne) (Fr0 x Frx) (Fr0 y Fry) Hlt
              ltac:(rewrite Hl0; exact Hc) Sx ltac:(right; rewrite Hl0; exact Hg))
    as (x' & y' & Gx' & Gy' & Wx' & Ux' & Fax' & Rox' & Wy' & Uy' & Fay' & Roy' & Frx' & Fry' & Lvx' & Flx' & _ & _ & Nx & Hkeep & Ey & Fy').
  set (s2 := dc_put s0 x l) in *.
  assert (Hl2 : hget l (heap s2) = dnew).
  { rewrite Hkeep; [exact Hl0|]. intros l0 E. apply Frx in E. unfold l. lia. }
  subst y'.
  assert (Hr : refresh s2 y = y) by (apply refresh_get; exact Gy'). rewrite Hr.
  assert (Gx2 : get_ent (wsp x') (uid x') (ents s2) = Some x') by (rewrite Wx', Ux'; exact Gx').
  assert (Sy2 : dstored_ok s2 ua ub y) by (intros fd Ef Em; apply (Sy fd); [rewrite Fy' in Ef; exact Ef | exact Em]).
  destruct (dc_put_spec s2 y x' l ua ub Gy' Gx2 ltac:(right; rewrite Ux'; intros E; apply Hne; symmetry; exact E) Fry' Frx' ltac:(lia)
              ltac:(rewrite Hl2; exact Hc) Sy2 ltac:(right; rewrite Hl2; exact Hg))
    as (y'' & x'' & Gy'' & Gx'' & Wy'' & Uy'' & Fay'' & Roy'' & Wx'' & Ux'' & Fax'' & Rox'' & Fry'' & Frx'' & Lvy'' & Fly'' & Lvx'' & Flx'' & _).
  rewrite Wx', Ux' in Gx''. rewrite Wx in Gx''. rewrite Wy in Gy''.
  assert (Nx'' : dnames (dc_put s2 y l) ua ub x'') by (split; [apply Flx''; exact Flx' | apply Lvx''; exact Lvx']).
  assert (Ny'' : dnames (dc_put s2 y l) ua ub y'') by (split; [exact Fly'' | exact Lvy'']).
  destruct Hor as [(R1 & R2 & U1 & U2)|(R1 & R2 & U1 & U2)].
  - exists x'', y''. rewrite <- U1, <- U2.
    split; [exact Gx''|]. split; [exact Gy''|]. split; [exact Hne|].
    split; [congruence|]. split; [congruence|]. split; [congruence|]. split; [congruence|].
    rewrite U1, U2. split; assumption.
  - exists y'', x''. rewrite <- U1, <- U2.
    split; [exact Gy''|]. split; [exact Gx''|]. split; [intros E; apply Hne; symmetry; exact E|].
    split; [congruence|]. split; [congruence|]. split; [congruence|]. split; [congruence|].
    rewrite U1, U2. split; assumption.
Qed.

Theorem dc_link_symmetric s w ea eb :
  get_ent w (uid ea) (ents s) = Some ea -> get_ent w (uid eb) (ents s) = Some eb -> uid ea <> uid eb ->
  fam ea = FDC -> fam eb = FDC -> rol ea = RA -> rol eb = RB ->
  dfresh s ea -> dfresh s eb -> dstored_ok s (uid ea) (uid eb) ea -> dstored_ok s (uid ea) (uid eb) eb ->
  dinv (dc_link s ea eb) w (uid ea) (uid eb) /\ dinv (dc_link s eb ea) w (uid ea) (uid eb).
Proof.
  intros Ga Gb Hne Fa Fb Ra Rb Fra Frb Sa Sb. split.
  - apply (dc_link_any s w ea eb (uid ea) (uid eb)); try assumption. left. repeat split; assumption.
  - apply (dc_link_any s w eb ea (uid ea) (uid eb)); try assumption.
    + intros E. apply Hne. symmetry. exact E.
    + right. repeat split; assumption.
Qed.

(* a setter of electrode e = getter, allocation of the argument dict (any allocation that leaves older cells alone), assignment *)
Definition alloc_ok (ua ub : N) (alloc : st -> st * N) : Prop :=
  forall s1, let '(s2, l) := alloc s1 in
    ents s2 = ents s1 /\ file s2 = file s1 /\ (next s1 <= next s2)%N
    /\ (forall l0, (l0 < next s1)%N -> hget l0 (heap s2) = hget l0 (heap s1))
    /\ (l < next s2)%N /\ dcompat ua ub (hget l (heap s2)).

Lemma dnames_frame s1 s2 ua ub x :
  file s2 = file s1 -> (next s1 <= next s2)%N -> (forall l0, (l0 < next s1)%N -> hget l0 (heap s2) = hget l0 (heap s1)) ->
  dnames s1 ua ub x -> dnames s2 ua ub x.
Proof.
  intros F N H [(fd & Ef & Hg) Hl]. split; [exists fd; rewrite F; split; assumption|].
  intros l E. destruct (Hl l E) as [Hlt Hd]. split; [lia|]. rewrite H by exact Hlt. exact Hd.
Qed.

Lemma dc_setter_keeps s e o ua ub (alloc : N -> st -> st * N) :
  get_ent (wsp e) (uid e) (ents s) = Some e -> get_ent (wsp o) (uid o) (ents s) = Some o ->
  (wsp e <> wsp o \/ uid e <> uid o) ->
  dnames s ua ub e -> dnames s ua ub o -> (forall lm, alloc_ok ua ub (alloc lm)) ->
  exists lm s1, dc_md s e = (Some lm, s1) /\
    let '(s2, l) := alloc lm s1 in
    let s' := dc_assign s2 (refresh s2 e) l in
    exists e' o',
      get_ent (wsp e) (uid e) (ents s') = Some e' /\ get_ent (wsp o) (uid o) (ents s') = Some o'
      /\ fam e' = fam e /\ rol e' = rol e /\ fam o' = fam o /\ rol o' = rol o
      /\ dnames s' ua ub e' /\ dnames s' ua ub o'.
Proof.
  intros Ge Go Hne [Fe Le] [Fo Lo] Hal.
  assert (Fre : dfresh s e) by (intros l E; apply (Le l E)).
  assert (Fro : dfresh s o) by (intros l E; apply (Lo l E)).
  assert (Hfile : forall fd, fget (wsp e) (uid e) (file s) = Some fd -> md e = None -> fgood ua ub fd).
  { intros fd Ef _. destruct Fe as (fd' & Ef' & Hg). congruence. }
  destruct (dc_md s e) as [m s1] eqn:Em.
  destruct (dc_md_spec s e m s1 Ge Fre Em) as (N1 & F1 & H1 & O1 & Hm).
  destruct (dc_md_keeps s e m s1 ua ub e Ge Fre Em Ge Hfile) as (e1 & Ge1 & We1 & Ue1 & Fa1 & Ro1 & Fr1 & Lv1 & Fl1 & _ & _).
  destruct (dc_md_keeps s e m s1 ua ub o Ge Fre Em Go Hfile) as (o1 & Go1 & Wo1 & Uo1 & Fao1 & Roo1 & Fro1 & Lvo1 & Flo1 & _ & Same1).
  destruct m as [lm|]; [|destruct Hm as (_ & _ & Ef); destruct Fe as (fd & Ef' & _); congruence].
  exists lm, s1. split; [reflexivity|].
  specialize (Hal lm s1). destruct (alloc lm s1) as [s2 l]. destruct Hal as (A1 & A2 & A3 & A4 & A5 & A6). cbv zeta.
  assert (Hr : refresh s2 e = e1) by (apply refresh_get; rewrite A1; exact Ge1). rewrite Hr.
  assert (Ne1 : dnames s2 ua ub e1) by (apply (dnames_frame s1 s2 ua ub e1 A2 A3 A4); split; [apply Fl1; exact Fe | apply Lv1; exact Le]).
  assert (No1 : dnames s2 ua ub o1) by (apply (dnames_frame s1 s2 ua ub o1 A2 A3 A4); split; [apply Flo1; exact Fo | apply Lvo1; exact Lo]).
  assert (Ge2 : get_ent (wsp e1) (uid e1) (ents s2) = Some e1) by (rewrite A1, We1, Ue1; exact Ge1).
  assert (Go2 : get_ent (wsp o1) (uid o1) (ents s2) = Some o1) by (rewrite A1, Wo1, Uo1; exact Go1).
  assert (Hmd1 : md e1 = Some lm) by (destruct Hm as (G1 & _); rewrite Ge1 in G1; inversion G1; reflexivity).
  assert (Hgood : dlive s2 ua ub e1 /\ (md e1 = None -> dgood ua ub (hget l (heap s2))) \/ dgood ua ub (hget l (heap s2))).
  { left. split; [exact (proj2 Ne1) | rewrite Hmd1; discriminate]. }
  assert (Fre2 : dfresh s2 e1) by (intros l0 E; apply (proj2 Ne1 l0 E)).
  destruct (dc_assign_keeps s2 e1 l ua ub e1 Ge2 Fre2 A5 A6 Hgood Ge2) as (e3 & Ge3 & We3 & Ue3 & Fa3 & Ro3 & _ & Own3 & _ & _ & _ & _).
  destruct (dc_assign_keeps s2 e1 l ua ub o1 Ge2 Fre2 A5 A6 Hgood Go2) as (o3 & Go3 & Wo3 & Uo3 & Fao3 & Roo3 & _ & _ & Lvo3 & Flo3 & _ & _).
  destruct (Own3 (conj eq_refl eq_refl)) as [Lv3 Fl3].
  exists e3, o3.
  split; [rewrite <- We1, <- Ue1; exact Ge3|]. split; [rewrite <- Wo1, <- Uo1; exact Go3|].
  split; [congruence|]. split; [congruence|]. split; [congruence|]. split; [congruence|].
  split; [split; assumption|]. split; [apply Flo3; exact (proj1 No1) | apply Lvo3; exact (proj2 No1)].
Qed.

Lemma dinv_sym_members s w ua ub : dinv s w ua ub ->
  exists ea eb, get_ent w ua (ents s) = Some ea /\ get_ent w ub (ents s) = Some eb /\ ua <> ub
    /\ wsp ea = w /\ uid ea = ua /\ wsp eb = w /\ uid eb = ub
    /\ fam ea = FDC /\ fam eb = FDC /\ rol ea = RA /\ rol eb = RB /\ dnames s ua ub ea /\ dnames s ua ub eb.
Proof.
  intros (ea & eb & G1 & G2 & H). destruct (get_ent_some _ _ _ _ G1) as [W1 U1]. destruct (get_ent_some _ _ _ _ G2) as [W2 U2].
  exists ea, eb. destruct H as (H3 & H4 & H5 & H6 & H7 & H8 & H9).
  split; [exact G1|]. split; [exact G2|]. split; [exact H3|]. split; [exact W1|]. split; [exact U1|]. split; [exact W2|]. split; [exact U2|].
  split; [exact H4|]. split; [exact H5|]. split; [exact H6|]. split; [exact H7|]. split; [exact H8 | exact H9].
Qed.

(* assemble the invariant from the two records after a setter of either member *)
Lemma dinv_build s' w ua ub x y :
  get_ent w ua (ents s') = Some x -> get_ent w ub (ents s') = Some y -> ua <> ub ->
  fam x = FDC -> fam y = FDC -> rol x = RA -> rol y = RB -> dnames s' ua ub x -> dnames s' ua ub y -> dinv s' w ua ub.
Proof.
  intros A1 A2 A3 A4 A5 A6 A7 A8 A9. exists x, y.
  split; [exact A1|]. split; [exact A2|]. split; [exact A3|]. split; [exact A4|]. split; [exact A5|]. split; [exact A6|]. split; [exact A7|]. split; [exact A8 | exact A9].
Qed.

Definition edit_alloc (k : nat) (z : Z) (_ : N) (s1 : st) : st * N :=
  (bump (set_heap s1 (hset (next s1) [(k, VZ z)] (heap s1))), next s1).

Lemma edit_alloc_ok ua ub k z lm : k <> KA -> k <> KB -> alloc_ok ua ub (edit_alloc k z lm).
Proof.
  intros Ha Hb s1. unfold edit_alloc. simpl.
  split; [reflexivity|]. split; [reflexivity|]. split; [lia|].
  split; [intros l0 Hl0; apply hget_hset_other; lia|]. split; [lia|].
  rewrite hget_hset_same. intros k0 v [E|[]]. inversion E; subst. split; intros E'; contradiction.
Qed.

Lemma dc_edit_unfold s e k z lm s1 :
  dc_md s e = (Some lm, s1) ->
  dc_edit s e k z = Ok (let '(s2, l) := edit_alloc k z lm s1 in dc_assign s2 (refresh s2 e) l).
Proof. intros E. unfold dc_edit. rewrite E. reflexivity. Qed.

Definition crs_alloc (zn zd : Z) (l0 : N) (s1 : st) : st * N :=
  let prev := match dget KC (hget l0 (heap s1)) with
              | Some (VRef cl) => match dget 0 (hget cl (wheap s1)) with Some z => z | None => zd end
              | _ => zd
              end in
  let cl := next s1 in
  let s2 := bump (set_wheap s1 (hset cl [(0, zn); (1, prev)] (wheap s1))) in
  let l := next s2 in
  (bump (set_heap s2 (hset l [(KC, VRef cl)] (heap s2))), l).

Lemma crs_alloc_ok ua ub zn zd lm : alloc_ok ua ub (crs_alloc zn zd lm).
Proof.
  intros s1. unfold crs_alloc. cbv zeta. simpl.
  split; [reflexivity|]. split; [reflexivity|]. split; [lia|].
  split; [intros l0 Hl0; apply hget_hset_other; lia|]. split; [lia|].
  rewrite hget_hset_same. intros k0 v [E|[]]. inversion E; subst. split; intros E'; discriminate.
Qed.

Lemma dc_crs_unfold s e zn zd lm s1 :
  dc_md s e = (Some lm, s1) ->
  dc_crs s e zn zd = Ok (let '(s2, l) := crs_alloc zn zd lm s1 in dc_assign s2 (refresh s2 e) l).
Proof. intros E. unfold dc_crs. rewrite E. reflexivity. Qed.

(* operations on an electrode pair, from either side *)
Inductive dpop := DLink (first : bool) | DEdit (first : bool) (k : nat) (z : Z) | DCrs (first : bool) (zn zd : Z) | DReopen.
Definition dpop_ok (o : dpop) : Prop := match o with DEdit _ k _ => k <> KA /\ k <> KB | _ => True end.

Definition unres (r : res st) (s : st) : st := match r with Ok x => x | Err _ => s end.

Definition dstep (w : bool) (ua ub : N) (s : st) (o : dpop) : st :=
  match get_ent w ua (ents s), get_ent w ub (ents s) with
  | Some ea, Some eb =>
      match o with
      | DLink true => dc_link s ea eb
      | DLink false => dc_link s eb ea
      | DEdit true k z => unres (dc_edit s ea k z) s
      | DEdit false k z => unres (dc_edit s eb k z) s
      | DCrs true zn zd => unres (dc_crs s ea zn zd) s
      | DCrs false zn zd => unres (dc_crs s eb zn zd) s
      | DReopen => reopen s
      end
  | _, _ => s
  end.

Lemma dc_setter_dinv s w ua ub (b1 : bool) (alloc : N -> st -> st * N) :
  dinv s w ua ub -> (forall lm, alloc_ok ua ub (alloc lm)) ->
  forall ea eb, get_ent w ua (ents s) = Some ea -> get_ent w ub (ents s) = Some eb ->
  let e := if b1 then ea else eb in
  exists lm s1, dc_md s e = (Some lm, s1) /\ dinv (let '(s2, l) := alloc lm s1 in dc_assign s2 (refresh s2 e) l) w ua ub.
Proof.
  intros Hinv Hal ea eb Ga Gb. destruct (dinv_sym_members _ _ _ _ Hinv) as (xa & xb & G1 & G2 & Hne & Wa & Ua & Wb & Ub & Fa & Fb & Ra & Rb & Na & Nb).
  assert (xa = ea) by congruence. assert (xb = eb) by congruence. subst xa xb. cbv zeta.
  destruct b1.
  - destruct (dc_setter_keeps s ea eb ua ub alloc) as (lm & s1 & Em & H); try assumption.
    + rewrite Wa, Ua; exact Ga.
    + rewrite Wb, Ub; exact Gb.
    + right. rewrite Ua, Ub. exact Hne.
    + exists lm, s1. split; [exact Em|]. destruct (alloc lm s1) as [s2 l]. destruct H as (e' & o' & Ge' & Go' & F1 & R1 & F2 & R2 & N1 & N2).
      rewrite Wa, Ua in Ge'. rewrite Wb, Ub in Go'. apply (dinv_build _ w ua ub e' o'); try assumption; congruence.
  - destruct (dc_setter_keeps s eb ea ua ub alloc) as (lm & s1 & Em & H); try assumption.
    + rewrite Wb, Ub; exact Gb.
    + rewrite Wa, Ua; exact Ga.
    + right. rewrite Ua, Ub. intros E. apply Hne. symmetry. exact E.
    + exists lm, s1. split; [exact Em|]. destruct (alloc lm s1) as [s2 l]. destruct H as (e' & o' & Ge' & Go' & F1 & R1 & F2 & R2 & N1 & N2).
      rewrite Wb, Ub in Ge'. rewrite Wa, Ua in Go'. apply (dinv_build _ w ua ub o' e'); try assumption; congruence.
Qed.

Lemma dreopen_dinv s w ua ub : dinv s w ua ub -> dinv (reopen s) w ua ub.
Proof.
  intros (ea & eb & G1 & G2 & H3 & H4 & H5 & H6 & H7 & [Fa _] & [Fb _]).
  set (f := fun e => with_cache (with_md e None) None).
  exists (f ea), (f eb). unfold reopen. simpl ents.
  rewrite !(get_ent_map f) by (intros e; split; reflexivity). rewrite G1, G2.
  split; [reflexivity|]. split; [reflexivity|]. split; [exact H3|]. split; [exact H4|]. split; [exact H5|]. split; [exact H6|]. split; [exact H7|].
  split; (split; [assumption | intros l E; discriminate]).
Qed.

Lemma dstep_dinv w ua ub s o : dinv s w ua ub -> dpop_ok o -> dinv (dstep w ua ub s o) w ua ub.
Proof.
  intros Hinv Hok. unfold dstep.
  destruct (get_ent w ua (ents s)) as [ea|] eqn:Ga; [|exact Hinv].
  destruct (get_ent w ub (ents s)) as [eb|] eqn:Gb; [|exact Hinv].
  destruct (dinv_sym_members _ _ _ _ Hinv) as (xa & xb & G1 & G2 & Hne & Wa & Ua & Wb & Ub & Fa & Fb & Ra & Rb & Na & Nb).
  assert (xa = ea) by congruence. assert (xb = eb) by congruence. subst xa xb.
  assert (Sa : dstored_ok s ua ub ea) by (intros fd Ef _; destruct Na as [(fd' & Ef' & Hg) _]; congruence).
  assert (Sb : dstored_ok s ua ub eb) by (intros fd Ef _; destruct Nb as [(fd' & Ef' & Hg) _]; congruence).
  assert (Fra : dfresh s ea) by (intros l E; apply (proj2 Na l E)).
  assert (Frb : dfresh s eb) by (intros l E; apply (proj2 Nb l E)).
  destruct o as [[|]|[|] k z|[|] zn zd|].
  - apply (dc_link_any s w ea eb ua ub); try assumption; try (rewrite Ua; exact Ga); try (rewrite Ub; exact Gb).
    + rewrite Ua, Ub; exact Hne.
    + left. repeat split; assumption.
  - apply (dc_link_any s w eb ea ua ub); try assumption; try (rewrite Ua; exact Ga); try (rewrite Ub; exact Gb).
    + rewrite Ua, Ub. intros E. apply Hne. symmetry. exact E.
    + right. repeat split; assumption.
  - destruct Hok as [Hka Hkb].
    destruct (dc_setter_dinv s w ua ub true (edit_alloc k z) Hinv (fun lm => edit_alloc_ok ua ub k z lm Hka Hkb) ea eb Ga Gb) as (lm & s1 & Em & Hd).
    rewrite (dc_edit_unfold _ _ _ _ _ _ Em). exact Hd.
  - destruct Hok as [Hka Hkb].
    destruct (dc_setter_dinv s w ua ub false (edit_alloc k z) Hinv (fun lm => edit_alloc_ok ua ub k z lm Hka Hkb) ea eb Ga Gb) as (lm & s1 & Em & Hd).
    rewrite (dc_edit_unfold _ _ _ _ _ _ Em). exact Hd.
  - destruct (dc_setter_dinv s w ua ub true (crs_alloc zn zd) Hinv (crs_alloc_ok ua ub zn zd) ea eb Ga Gb) as (lm & s1 & Em & Hd).
    rewrite (dc_crs_unfold _ _ _ _ _ _ Em). exact Hd.
  - destruct (dc_setter_dinv s w ua ub false (crs_alloc zn zd) Hinv (crs_alloc_ok ua ub zn zd) ea eb Ga Gb) as (lm & s1 & Em & Hd).
    rewrite (dc_crs_unfold _ _ _ _ _ _ Em). exact Hd.
  - apply dreopen_dinv. exact Hinv.
Qed.

Theorem dc_link_persists w ua ub : forall l s,
  dinv s w ua ub -> Forall dpop_ok l -> dinv (fold_left (dstep w ua ub) l s) w ua ub.
Proof.
  induction l as [|o r IH]; intros s Hinv Hok; simpl; [exact Hinv|].
  inversion Hok; subst. apply IH; [apply dstep_dinv; assumption | assumption].
Qed.

(* after re-open each electrode resolves its partner again *)
Theorem dc_reopen_resolves s w ua ub e1 :
  dinv s w ua ub -> (get_ent w ua (ents (reopen s)) = Some e1 \/ get_ent w ub (ents (reopen s)) = Some e1) ->
  exists p s1, partner (reopen s) e1 = (Some p, s1) /\ wsp p = w
    /\ ((uid e1 = ua /\ uid p = ub) \/ (uid e1 = ub /\ uid p = ua)).
Proof.
  intros Hinv He. pose proof (dreopen_dinv _ _ _ _ Hinv) as Hr.
  destruct (dinv_sym_members _ _ _ _ Hr) as (ea & eb & G1 & G2 & Hne & Wa & Ua & Wb & Ub & Fa & Fb & Ra & Rb & Na & Nb).
  assert (Hc : forall x, (get_ent w ua (ents (reopen s)) = Some x \/ get_ent w ub (ents (reopen s)) = Some x) -> cache x = None /\ md x = None).
  { intros x Hx. unfold reopen in Hx. simpl ents in Hx.
    rewrite !(get_ent_map (fun e => with_cache (with_md e None) None)) in Hx by (intros e; split; reflexivity).
    destruct Hx as [Hx|Hx]; [destruct (get_ent w ua (ents s)) | destruct (get_ent w ub (ents s))]; simpl in Hx; try discriminate;
      inversion Hx; subst; split; reflexivity. }
  set (s' := reopen s) in *.
  assert (Hgen : forall e o uo, get_ent w (uid e) (ents s') = Some e -> get_ent w uo (ents s') = Some o -> uid e <> uo ->
            fam e = FDC -> cache e = None -> md e = None -> dnames s' ua ub e ->
            dget (key_of (other (rol e))) [(KA, VU ua); (KB, VU ub)] = Some (VU uo) ->
            exists p s1, partner s' e = (Some p, s1) /\ wsp p = w /\ uid p = uo).
  { intros e o uo Ge Go Hneo Fe Ce Me [(fd & Ef & Hg) _] Hk.
    destruct (get_ent_some _ _ _ _ Ge) as [We _]. destruct (get_ent_some _ _ _ _ Go) as [Wo Uo].
    unfold partner. rewrite Fe. simpl is_dc. cbv iota. rewrite Ce.
    destruct (dc_md s' e) as [m s1] eqn:Em.
    assert (Gs : get_ent (wsp e) (uid e) (ents s') = Some e) by (rewrite We; exact Ge).
    destruct (dc_md_spec s' e m s1 Gs ltac:(intros l E; congruence) Em) as (N1 & F1 & H1 & O1 & Hm).
    destruct m as [lm|]; [|destruct Hm as (_ & _ & Ef0); congruence].
    destruct Hm as (G1' & L1 & Hor). destruct Hor as [Emd|Hld]; [congruence|]. destruct Hld as (_ & fd0 & Ef0 & Ex).
    assert (Efd : fd0 = fd) by congruence.
    assert (Hd : dgood ua ub (hget lm (heap s1))) by (apply (expand_good (wheap s1)); rewrite Ex, Efd; exact Hg).
    assert (Hkey : dget (key_of (other (rol e))) (hget lm (heap s1)) = Some (VU uo)).
    { destruct Hd as [A B]. destruct (rol e); simpl in *; [rewrite B | rewrite A]; inversion Hk; reflexivity. }
    rewrite Hkey. rewrite We.
    assert (Go1 : get_ent w uo (ents s1) = Some o) by (rewrite O1; [exact Go | right; exact Hneo]).
    rewrite Go1. eexists _, _. split; [reflexivity|]. split; assumption. }
  destruct He as [He|He].
  - assert (e1 = ea) by congruence. subst e1. destruct (Hc ea (or_introl G1)) as [C M].
    destruct (Hgen ea eb ub ltac:(rewrite Ua; exact G1) G2 ltac:(rewrite Ua; exact Hne) Fa C M Na ltac:(rewrite Ra; reflexivity)) as (p & s1 & P & Wp & Up).
    exists p, s1. split; [exact P|]. split; [exact Wp|]. left. split; assumption.
  - assert (e1 = eb) by congruence. subst e1. destruct (Hc eb (or_intror G2)) as [C M].
    destruct (Hgen eb ea ua ltac:(rewrite Ub; exact G2) G1 ltac:(rewrite Ub; intros E; apply Hne; symmetry; exact E) Fb C M Nb ltac:(rewrite Rb; reflexivity)) as (p & s1 & P & Wp & Up).
    exists p, s1. split; [exact P|]. split; [exact Wp|]. right. split; assumption.
Qed.

(* non-vacuity for electrodes: create potential + current electrodes, link: the invariant holds; an edit and a CRS keep it *)
Definition h_dc : list op := [OCreate false FDC RA true 5 []; OCreate false FDC RB true 5 []; OLink 0 1].

Example dinv_nonvacuous :
  exists s, run s0 h_dc = Ok s /\ dinv s false 1%N 2%N
    /\ dinv (fold_left (dstep false 1%N 2%N) [DEdit true 24 3%Z; DCrs false 7%Z 8%Z; DReopen; DLink false] s) false 1%N 2%N.
Proof.
  assert (H : exists s, run s0 h_dc = Ok s /\ dinv s false 1%N 2%N).
  { eexists. split; [vm_compute; reflexivity|].
    eexists _, _. split; [vm_compute; reflexivity|]. split; [vm_compute; reflexivity|]. split; [discriminate|].
    split; [reflexivity|]. split; [reflexivity|]. split; [reflexivity|]. split; [reflexivity|].
    split; (split; [eexists; split; [vm_compute; reflexivity | split; vm_compute; reflexivity]
                   | intros l E; vm_compute in E; inversion E; subst; split; [reflexivity | split; vm_compute; reflexivity]]). }
  destruct H as (s & Hr & Hi). exists s. split; [exact Hr|]. split; [exact Hi|].
  apply dc_link_persists; [exact Hi|]. repeat constructor; discriminate.
Qed.
