(* Lemmas about Model/PyVal.v (shared by C14 and C15). *)
From Coq Require Import String Ascii.
From GV Require Import Prelude.Base Model.PyVal.
Local Open Scope string_scope.
Local Open Scope list_scope.

(* ---------------------------------------------------------------- the monad *)
Lemma bind_ok {A B} (a : A) (k : A -> res B) : bind (Ok a) k = k a.
Proof. reflexivity. Qed.
Lemma bind_raise {A B} (e : exn) (k : A -> res B) : bind (Raise e) k = Raise e.
Proof. reflexivity. Qed.
Lemma bind_ret {A} (m : res A) : bind m (fun x => Ok x) = m.
Proof. destruct m; reflexivity. Qed.
Lemma bind_assoc {A B C} (m : res A) (f : A -> res B) (g : B -> res C) :
  bind (bind m f) g = bind m (fun x => bind (f x) g).
Proof. destruct m; reflexivity. Qed.

Lemma fold_res_app {S A} (f : S -> A -> res S) l1 l2 s :
  fold_res f (l1 ++ l2) s = bind (fold_res f l1 s) (fold_res f l2).
Proof.
  revert s; induction l1 as [|x r IH]; intros s; simpl; [reflexivity|].
  destruct (f s x); simpl; [apply IH | reflexivity].
Qed.

Lemma map_res_ok {A B} (f : A -> res B) (g : A -> B) l :
  (forall x, In x l -> f x = Ok (g x)) -> map_res f l = Ok (map g l).
Proof.
  induction l as [|x r IH]; intros H; simpl; [reflexivity|].
  rewrite (H x) by (left; reflexivity). simpl. rewrite IH by (intros; apply H; right; assumption). reflexivity.
Qed.

Lemma all_res_pure {A} (p : A -> bool) l : all_res (fun x => Ok (p x)) l = Ok (forallb p l).
Proof. induction l as [|x r IH]; simpl; [reflexivity|]. destruct (p x); simpl; [apply IH | reflexivity]. Qed.
Lemma any_res_pure {A} (p : A -> bool) l : any_res (fun x => Ok (p x)) l = Ok (existsb p l).
Proof. induction l as [|x r IH]; simpl; [reflexivity|]. destruct (p x); simpl; [reflexivity | apply IH]. Qed.

(* ---------------------------------------------------------------- strings as keys *)
Lemma py_eq_str s t : py_eq (PStr s) (PStr t) = String.eqb s t.
Proof. reflexivity. Qed.
Lemma py_eq_str_refl s : py_eq (PStr s) (PStr s) = true.
Proof. simpl. apply String.eqb_refl. Qed.
Lemma hashable_str s : hashable (PStr s) = true.
Proof. reflexivity. Qed.

Lemma getitem_dict_str d s : getitem (PDict d) (PStr s) = match dict_find (PStr s) d with Some v => Ok v | None => Raise KeyError end.
Proof. reflexivity. Qed.
Lemma contains_dict_str d s : contains (PStr s) (PDict d) = Ok (dict_has (PStr s) d).
Proof. reflexivity. Qed.
Lemma in_keys_dict_str d s : in_keys (PStr s) (PDict d) = Ok (dict_has (PStr s) d).
Proof. reflexivity. Qed.
Lemma dict_get_dict_str d s dflt : dict_get (PDict d) (PStr s) dflt = Ok (match dict_find (PStr s) d with Some v => v | None => dflt end).
Proof. reflexivity. Qed.

Lemma dict_has_find k d : dict_has k d = match dict_find k d with Some _ => true | None => false end.
Proof. reflexivity. Qed.

(* ---------------------------------------------------------------- dict_set on a fresh key appends *)
Lemma dict_set_fresh d k v :
  existsb (fun k2 => py_eq k k2 || py_eq k2 k) (map fst d) = false -> dict_set d k v = d ++ [(k, v)].
Proof.
  induction d as [|[k2 w] r IH]; simpl; intros H; [reflexivity|].
  apply orb_false_iff in H as [H1 H2]. apply orb_false_iff in H1 as [H1 _].
  rewrite H1. rewrite IH by assumption. reflexivity.
Qed.

Lemma keys_distinct_app_cons ks k r :
  keys_distinct (ks ++ k :: r) = true ->
  existsb (fun k2 => py_eq k k2 || py_eq k2 k) ks = false /\ keys_distinct ((ks ++ [k]) ++ r) = true /\ keys_distinct (ks ++ r) = true.
Proof.
  induction ks as [|a ks IH]; simpl; intros H.
  - apply andb_true_iff in H as [H1 H2]. repeat split; try assumption. simpl. rewrite H1, H2. reflexivity.
  - apply andb_true_iff in H as [H1 H2]. apply negb_true_iff in H1.
    rewrite existsb_app in H1. apply orb_false_iff in H1 as [H1a H1b]. simpl in H1b. apply orb_false_iff in H1b as [H1b H1c].
    destruct (IH H2) as (E1 & E2 & E3). split; [|split].
    + apply orb_false_iff. split; [|assumption]. apply orb_false_iff in H1b as [X Y]. rewrite X, Y. reflexivity.
    + rewrite E2. rewrite <- app_assoc. simpl. rewrite !existsb_app. simpl. rewrite H1a, H1b, H1c. reflexivity.
    + rewrite E3. rewrite existsb_app, H1a, H1c. reflexivity.
Qed.
