(* Lemmas for property C19 about Model/H5Read.v. *)
From GV Require Import Prelude.Base Model.H5Read.
From Coq Require Import String.
From GVgen Require Import Tables_Reader.
Local Open Scope list_scope.

(* ------------------------------------------------------------------ equality tests *)
Lemma ekind_eqb_eq a b : ekind_eqb a b = true <-> a = b.
Proof. destruct a, b; simpl; split; intros H; try reflexivity; try discriminate. Qed.
Lemma ekind_eqb_refl a : ekind_eqb a a = true.
Proof. destruct a; reflexivity. Qed.

Lemma key_eqb_eq a b : key_eqb a b = true <-> a = b.
Proof.
  destruct a, b; simpl; split; intros H; try reflexivity; try discriminate; try congruence.
  - apply ekind_eqb_eq in H. congruence.
  - inversion H. apply ekind_eqb_refl.
  - apply N.eqb_eq in H. congruence.
  - inversion H. apply N.eqb_refl.
  - apply String.eqb_eq in H. congruence.
  - inversion H. apply String.eqb_refl.
Qed.
Lemma key_eqb_refl a : key_eqb a a = true.
Proof. apply key_eqb_eq. reflexivity. Qed.
Lemma key_eqb_neq a b : key_eqb a b = false <-> a <> b.
Proof.
  split; intros H.
  - intros E. subst. rewrite key_eqb_refl in H. discriminate.
  - destruct (key_eqb a b) eqn:E; [apply key_eqb_eq in E; contradiction | reflexivity].
Qed.
Lemma key_eqb_sym a b : key_eqb a b = key_eqb b a.
Proof.
  destruct (key_eqb a b) eqn:E.
  - apply key_eqb_eq in E. subst. symmetry. apply key_eqb_refl.
  - symmetry. apply key_eqb_neq. apply key_eqb_neq in E. congruence.
Qed.

Lemma addr_eqb_eq a b : addr_eqb a b = true <-> a = b.
Proof. apply list_eqb_spec. apply key_eqb_eq. Qed.
Lemma addr_eqb_refl a : addr_eqb a a = true.
Proof. apply addr_eqb_eq. reflexivity. Qed.
Lemma addr_eqb_neq a b : addr_eqb a b = false <-> a <> b.
Proof.
  split; intros H.
  - intros E. subst. rewrite addr_eqb_refl in H. discriminate.
  - destruct (addr_eqb a b) eqn:E; [apply addr_eqb_eq in E; contradiction | reflexivity].
Qed.

Lemma uid_eqb_eq a b : uid_eqb a b = true <-> a = b.
Proof.
  destruct a, b; simpl; split; intros H; try discriminate; try congruence.
  - apply N.eqb_eq in H. congruence.
  - inversion H. apply N.eqb_refl.
  - apply addr_eqb_eq in H. congruence.
  - inversion H. apply addr_eqb_refl.
Qed.
Lemma uid_eqb_refl a : uid_eqb a a = true.
Proof. apply uid_eqb_eq. reflexivity. Qed.

(* ------------------------------------------------------------------ association lists *)
Lemma lookup_remove_same {V} k (l : list (key * V)) : lookup k (remove_key k l) = None.
Proof.
  induction l as [|[k' v] r IH]; simpl; [reflexivity|].
  destruct (key_eqb k k') eqn:E; [exact IH|]. simpl. rewrite E. exact IH.
Qed.
Lemma lookup_remove_other {V} k k' (l : list (key * V)) : k <> k' -> lookup k' (remove_key k l) = lookup k' l.
Proof.
  intros N. induction l as [|[k2 v] r IH]; simpl; [reflexivity|].
  destruct (key_eqb k k2) eqn:E.
  - apply key_eqb_eq in E. subst k2. rewrite IH.
    destruct (key_eqb k' k) eqn:E2; [apply key_eqb_eq in E2; congruence | reflexivity].
  - simpl. rewrite IH. reflexivity.
Qed.
Lemma remove_absent {V} k (l : list (key * V)) : lookup k l = None -> remove_key k l = l.
Proof.
  induction l as [|[k' v] r IH]; simpl; [reflexivity|].
  destruct (key_eqb k k') eqn:E; [discriminate|]. intros H. rewrite IH by exact H. reflexivity.
Qed.

(* ------------------------------------------------------------------ find_rec *)
Lemma find_rec_app u l1 l2 :
  find_rec u (l1 ++ l2) = match find_rec u l1 with Some r => Some r | None => find_rec u l2 end.
Proof.
  induction l1 as [|r l IH]; simpl; [reflexivity|]. destruct (uid_eqb (r_uid r) u); [reflexivity | exact IH].
Qed.
Lemma find_rec_none u l : (forall r, In r l -> r_uid r <> u) -> find_rec u l = None.
Proof.
  induction l as [|r l IH]; simpl; intros H; [reflexivity|].
  destruct (uid_eqb (r_uid r) u) eqn:E.
  - apply uid_eqb_eq in E. exfalso. apply (H r); [left; reflexivity | exact E].
  - apply IH. intros r' Hr'. apply H. right. exact Hr'.
Qed.

(* ------------------------------------------------------------------ trees *)
Lemma subtrees_self t : In t (subtrees t).
Proof. destruct t. simpl. left. reflexivity. Qed.
Lemma subtrees_kids t c : In c (et_kids t) -> forall x, In x (subtrees c) -> In x (subtrees t).
Proof.
  destruct t as [u k a ty d p cs kids]. simpl. intros Hc x Hx. right. apply in_flat_map. exists c. split; assumption.
Qed.
(* induction on depth instead of a nested induction principle *)
Lemma depth_kid t c : In c (et_kids t) -> depth c < depth t.
Proof.
  destruct t as [u k a ty d p cs kids]. simpl. intros H.
  assert (depth c <= fold_right Nat.max 0 (map depth kids)).
  { induction kids as [|x r IH]; simpl in *; [contradiction|]. destruct H as [H|H]; [subst; lia | specialize (IH H); lia]. }
  lia.
Qed.

Lemma subtrees_trans t : forall n, depth t <= n -> forall c x, In c (subtrees t) -> In x (subtrees c) -> In x (subtrees t).
Proof.
  intros n. revert t. induction n as [|n IH]; intros t Hd c x Hc Hx.
  - destruct t; simpl in Hd; lia.
  - destruct t as [u k a ty d p cs kids] eqn:Et. simpl in Hc. destruct Hc as [Hc|Hc].
    + subst c. exact Hx.
    + apply in_flat_map in Hc. destruct Hc as [k0 [Hk0 Hc]]. simpl. right. apply in_flat_map. exists k0. split; [exact Hk0|].
      apply (IH k0) with (c := c); [| exact Hc | exact Hx].
      assert (depth k0 < depth t) by (apply depth_kid; subst t; exact Hk0). subst t. lia.
Qed.
Lemma subtrees_trans' t c x : In c (subtrees t) -> In x (subtrees c) -> In x (subtrees t).
Proof. apply (subtrees_trans t (depth t)). lia. Qed.

Lemma uids_unfold t : uids t = et_uid t :: flat_map uids (et_kids t).
Proof.
  destruct t as [u k a ty d p cs kids]. unfold uids. simpl. f_equal.
  induction kids as [|c r IH]; simpl; [reflexivity|]. rewrite map_app. rewrite IH. reflexivity.
Qed.

Lemma in_uids_kid t c v : In c (et_kids t) -> In v (uids c) -> In v (uids t).
Proof.
  intros Hc Hv. rewrite uids_unfold. right. apply in_flat_map. exists c. split; assumption.
Qed.

Lemma NoDup_app_l {A} (l1 l2 : list A) : NoDup (l1 ++ l2) -> NoDup l1.
Proof. induction l1 as [|x r IH]; simpl; intros H; [constructor|]. inversion H; subst. constructor; [intros Hx; apply H2; apply in_or_app; left; exact Hx | apply IH; exact H3]. Qed.
Lemma NoDup_app_r {A} (l1 l2 : list A) : NoDup (l1 ++ l2) -> NoDup l2.
Proof. induction l1 as [|x r IH]; simpl; intros H; [exact H|]. inversion H; subst. apply IH. exact H3. Qed.
Lemma NoDup_app_disj {A} (l1 l2 : list A) x : NoDup (l1 ++ l2) -> In x l1 -> In x l2 -> False.
Proof.
  induction l1 as [|y r IH]; simpl; intros H H1 H2; [contradiction|]. inversion H; subst.
  destruct H1 as [H1|H1]; [subst; apply H4; apply in_or_app; right; exact H2 | apply IH; assumption].
Qed.

(* ------------------------------------------------------------------ seq_load *)
Lemma seq_load_nil {X} (step : list uid -> X -> res (list erec * list uid)) reg : seq_load step [] reg = Ok ([], reg).
Proof. reflexivity. Qed.

(* ------------------------------------------------------------------ the core induction: a file [f'] whose per-entity views and listings
   relate to the intact specification as stated reads back as the intact content outside [A] (or raises) *)
Section Core.
  Variable s : fspec.
  Variable f' : h5.
  Variable A : list N.

  Definition view (t : etree) (p : option uid) : res (option erec) :=
    load_entity G0 f' (U (et_uid t)) (Some (et_kind t)) p.

  Definition local_ok (t : etree) : Prop :=
    forall p,
      view t p = Ok (Some (rec_of s false t p))
      \/ (exists e, view t p = Err e /\ e <> OutOfFuel)
      \/ (view t p = Ok None /\ incl (uids t) A)
      \/ (exists r, view t p = Ok (Some r) /\ r_uid r = U (et_uid t) /\ In (et_uid t) A)
      \/ (exists r a, view t p = Ok (Some r) /\ r_uid r = Fresh a /\ incl (uids t) A).

  Definition list_ok (t : etree) : Prop :=
    exists keep, fetch_children G0 f' (U (et_uid t)) (et_kind t) = Ok (filter keep (map key_of (et_kids t)))
                 /\ forall c, In c (et_kids t) -> keep (key_of c) = false -> incl (uids c) A.

  Hypothesis H_fresh : forall a k, fetch_children G0 f' (Fresh a) k = Ok [].

  (* the conclusion for one subtree *)
  Definition sub_ok (t : etree) (p : option uid) (reg : list uid) (out : res (list erec * list uid)) : Prop :=
    match out with
    | Err e => e <> OutOfFuel
    | Ok (recs, reg') =>
        (forall u, ~ In u A -> find_rec (U u) recs = find_rec (U u) (flat_recs s t p))
        /\ (forall v, In (U v) reg' -> In (U v) reg \/ In v (uids t))
    end.

  Lemma flat_recs_unfold t p :
    flat_recs s t p = rec_of s false t p :: flat_map (fun c => flat_recs s c (Some (U (et_uid t)))) (et_kids t).
  Proof. destruct t. reflexivity. Qed.

  Lemma flat_recs_uids t : forall n, depth t <= n -> forall p r, In r (flat_recs s t p) -> exists v, r_uid r = U v /\ In v (uids t).
  Proof.
    intros n. revert t. induction n as [|n IH]; intros t Hd p r Hr.
    - destruct t; simpl in Hd; lia.
    - rewrite flat_recs_unfold in Hr. destruct Hr as [Hr|Hr].
      + subst r. exists (et_uid t). split; [reflexivity|]. rewrite uids_unfold. left. reflexivity.
      + apply in_flat_map in Hr. destruct Hr as [c [Hc Hr]].
        assert (depth c < depth t) by (apply depth_kid; exact Hc).
        destruct (IH c ltac:(lia) _ _ Hr) as [v [E Hv]]. exists v. split; [exact E|]. eapply in_uids_kid; eassumption.
  Qed.

  Lemma find_flat_recs_none t p u : ~ In u (uids t) -> find_rec (U u) (flat_recs s t p) = None.
  Proof.
    intros H. apply find_rec_none. intros r Hr E.
    destruct (flat_recs_uids t (depth t) (le_n _) p r Hr) as [v [Ev Hv]]. rewrite Ev in E. inversion E. subst. contradiction.
  Qed.

  Lemma mem_uid_false u reg : ~ In u reg -> mem_uid u reg = false.
  Proof.
    intros H. unfold mem_uid. destruct (existsb (uid_eqb u) reg) eqn:E; [|reflexivity].
    apply existsb_exists in E. destruct E as [x [Hx E]]. apply uid_eqb_eq in E. subst. contradiction.
  Qed.

  (* children of one entity, given the statement for every kid *)
  Lemma kids_ok (n : nat) (t : etree) (keep : N * ekind -> bool) (pu : uid) :
    (forall c, In c (et_kids t) -> keep (key_of c) = false -> incl (uids c) A) ->
    (forall c p reg, In c (et_kids t) -> (forall v, In v (uids c) -> ~ In (U v) reg) ->
                     sub_ok c p reg (load_ent n G0 f' reg (key_of c) p)) ->
    forall cs, incl cs (et_kids t) -> NoDup (flat_map uids cs) ->
    forall reg, (forall v, In v (flat_map uids cs) -> ~ In (U v) reg) ->
    match seq_load (fun reg' c' => load_ent n G0 f' reg' c' (Some pu)) (filter keep (map key_of cs)) reg with
    | Err e => e <> OutOfFuel
    | Ok (recs, reg') =>
        (forall u, ~ In u A -> find_rec (U u) recs = find_rec (U u) (flat_map (fun c => flat_recs s c (Some pu)) cs))
        /\ (forall v, In (U v) reg' -> In (U v) reg \/ In v (flat_map uids cs))
    end.
  Proof.
    intros Hdrop Hkid cs. induction cs as [|c r IH]; intros Hin Hnd reg Hreg.
    - simpl. split; [reflexivity | intros v Hv; left; exact Hv].
    - simpl in Hnd. simpl.
      assert (Hc : In c (et_kids t)) by (apply Hin; left; reflexivity).
      assert (Hr : incl r (et_kids t)) by (intros x Hx; apply Hin; right; exact Hx).
      destruct (keep (key_of c)) eqn:Ek.
      + simpl.
        assert (Hregc : forall v, In v (uids c) -> ~ In (U v) reg).
        { intros v Hv. apply Hreg. simpl. apply in_or_app. left. exact Hv. }
        specialize (Hkid c (Some pu) reg Hc Hregc).
        destruct (load_ent n G0 f' reg (key_of c) (Some pu)) as [[r1 reg1]|e]; [|exact Hkid].
        destruct Hkid as [Hf1 Hreg1].
        assert (Hreg1' : forall v, In v (flat_map uids r) -> ~ In (U v) reg1).
        { intros v Hv Hin1. destruct (Hreg1 v Hin1) as [H|H].
          - apply (Hreg v); [simpl; apply in_or_app; right; exact Hv | exact H].
          - eapply NoDup_app_disj; eassumption. }
        specialize (IH Hr (NoDup_app_r _ _ Hnd) reg1 Hreg1').
        destruct (seq_load _ (filter keep (map key_of r)) reg1) as [[r2 reg2]|e]; [|exact IH].
        destruct IH as [Hf2 Hreg2]. split.
        * intros u Hu. rewrite !find_rec_app. rewrite (Hf1 u Hu). rewrite (Hf2 u Hu). reflexivity.
        * intros v Hv. destruct (Hreg2 v Hv) as [H|H].
          -- destruct (Hreg1 v H) as [H'|H']; [left; exact H' | right; simpl; apply in_or_app; left; exact H'].
          -- right. simpl. apply in_or_app. right. exact H.
      + assert (Hreg' : forall v, In v (flat_map uids r) -> ~ In (U v) reg).
        { intros v Hv. apply Hreg. simpl. apply in_or_app. right. exact Hv. }
        specialize (IH Hr (NoDup_app_r _ _ Hnd) reg Hreg').
        destruct (seq_load _ (filter keep (map key_of r)) reg) as [[r2 reg2]|e]; [|exact IH].
        destruct IH as [Hf2 Hreg2]. split.
        * intros u Hu. rewrite find_rec_app.
          rewrite (find_flat_recs_none c (Some pu) u).
          -- apply Hf2. exact Hu.
          -- intros Hin'. apply Hu. apply (Hdrop c Hc Ek). exact Hin'.
        * intros v Hv. destruct (Hreg2 v Hv) as [H|H]; [left; exact H | right; simpl; apply in_or_app; right; exact H].
  Qed.

  Variable scope : list etree.       (* the subtrees the hypotheses are known for; closed under kids *)
  Hypothesis scope_kids : forall t c, In t scope -> In c (et_kids t) -> In c scope.
  Hypothesis H_local : forall t, In t scope -> local_ok t.
  Hypothesis H_list : forall t, In t scope -> list_ok t.
  Hypothesis H_data : forall t, In t scope -> et_kind t = KData -> et_kids t = [].

  Lemma core : forall n t, depth t <= n -> In t scope -> NoDup (uids t) ->
    forall p reg, (forall v, In v (uids t) -> ~ In (U v) reg) ->
    sub_ok t p reg (load_ent n G0 f' reg (key_of t) p).
  Proof.
    induction n as [|n IH]; intros t Hd Hs Hnd p reg Hreg.
    - destruct t; simpl in Hd; lia.
    - simpl.
      rewrite mem_uid_false by (apply Hreg; rewrite uids_unfold; left; reflexivity).
      change (load_entity G0 f' (U (et_uid t)) (Some (et_kind t)) p) with (view t p).
      assert (Hu0 : In (et_uid t) (uids t)) by (rewrite uids_unfold; left; reflexivity).
      rewrite uids_unfold in Hnd. inversion Hnd as [|x l Hnotin Hndk]; subst.
      (* the statement for the kids, used in three of the cases *)
      assert (Hkids : forall c p0 reg0, In c (et_kids t) -> (forall v, In v (uids c) -> ~ In (U v) reg0) ->
                                        sub_ok c p0 reg0 (load_ent n G0 f' reg0 (key_of c) p0)).
      { intros c p0 reg0 Hc Hr0. apply IH.
        - assert (depth c < depth t) by (apply depth_kid; exact Hc). lia.
        - eapply scope_kids; eassumption.
        - clear - Hndk Hc. induction (et_kids t) as [|y r IHr]; simpl in *; [contradiction|].
          destruct Hc as [Hc|Hc]; [subst; eapply NoDup_app_l; exact Hndk | apply IHr; [eapply NoDup_app_r; exact Hndk | exact Hc]].
        - exact Hr0. }
      destruct (H_list t Hs) as [keep [Hl Hdrop]].
      (* what the children contribute when the entity keeps its identifier *)
      assert (Hsame : forall r, r_uid r = U (et_uid t) ->
                 match (do kids <- fetch_children G0 f' (r_uid r) (et_kind t);
                        match seq_load (fun reg' c' => load_ent n G0 f' reg' c' (Some (r_uid r))) kids (r_uid r :: reg) with
                        | Err e => Err e
                        | Ok (sub, reg') => Ok (r :: sub, reg')
                        end) with
                 | Err e => e <> OutOfFuel
                 | Ok (recs, reg') =>
                     (forall u, ~ In u A -> u <> et_uid t ->
                                find_rec (U u) recs = find_rec (U u) (flat_map (fun c => flat_recs s c (Some (U (et_uid t)))) (et_kids t)))
                     /\ (forall v, In (U v) reg' -> In (U v) reg \/ In v (uids t))
                     /\ exists sub, recs = r :: sub
                 end).
      { intros r Er. rewrite Er. rewrite Hl. simpl.
        pose proof (kids_ok n t keep (U (et_uid t)) Hdrop Hkids (et_kids t) (incl_refl _) Hndk (U (et_uid t) :: reg)) as K.
        assert (Hr' : forall v, In v (flat_map uids (et_kids t)) -> ~ In (U v) (U (et_uid t) :: reg)).
        { intros v Hv [E|Hin].
          - inversion E. subst. contradiction.
          - apply (Hreg v); [rewrite uids_unfold; right; exact Hv | exact Hin]. }
        specialize (K Hr').
        destruct (seq_load _ (filter keep (map key_of (et_kids t))) (U (et_uid t) :: reg)) as [[sub reg']|e]; [|exact K].
        destruct K as [Kf Kr]. split; [|split].
        - intros u Hu Hne. simpl. rewrite Er. simpl.
          destruct (N.eqb (et_uid t) u) eqn:E; [apply N.eqb_eq in E; congruence|]. apply Kf. exact Hu.
        - intros v Hv. destruct (Kr v Hv) as [[E|H]|H].
          + inversion E. right. exact Hu0.
          + left. exact H.
          + right. rewrite uids_unfold. right. exact H.
        - exists sub. reflexivity. }
      destruct (H_local t Hs p) as [Hv|[[e [Hv He]]|[[Hv HA]|[[r [Hv [Er HinA]]]|[r [a [Hv [Er HA]]]]]]]]; rewrite Hv; simpl.
      + (* view unchanged *)
        destruct (is_container (et_kind t)) eqn:Ec.
        * specialize (Hsame (rec_of s false t p) eq_refl). simpl in Hsame.
          match goal with |- sub_ok _ _ _ ?X => destruct X as [[recs reg']|e] end; [|exact Hsame].
          destruct Hsame as [Hf [Hr [sub Esub]]]. split; [|exact Hr].
          intros u Hu. rewrite flat_recs_unfold. subst recs. simpl.
          destruct (N.eqb (et_uid t) u) eqn:E; [reflexivity|].
          specialize (Hf u Hu). simpl in Hf. rewrite E in Hf. apply Hf. intros E'. subst. rewrite N.eqb_refl in E. discriminate.
        * simpl. split.
          -- intros u Hu. rewrite flat_recs_unfold.
             assert (et_kids t = []) as ->.
             { apply H_data; [exact Hs|]. destruct (et_kind t); simpl in Ec; try discriminate; reflexivity. }
             reflexivity.
          -- intros v [E|H]; [inversion E; right; exact Hu0 | left; exact H].
      + exact He.
      + (* left out *)
        split.
        * intros u Hu. simpl. symmetry. apply find_flat_recs_none. intros H. apply Hu. apply HA. exact H.
        * intros v H. left. exact H.
      + (* altered, same identifier *)
        destruct (is_container (et_kind t)) eqn:Ec.
        * specialize (Hsame r Er).
          match goal with |- sub_ok _ _ _ ?X => destruct X as [[recs reg']|e] end; [|exact Hsame].
          destruct Hsame as [Hf [Hr [sub Esub]]]. split; [|exact Hr].
          intros u Hu. rewrite flat_recs_unfold.
          assert (Hne : u <> et_uid t) by (intros E; subst; contradiction).
          rewrite (Hf u Hu Hne). simpl.
          destruct (N.eqb (et_uid t) u) eqn:E; [apply N.eqb_eq in E; congruence | reflexivity].
        * simpl. split.
          -- intros u Hu. rewrite flat_recs_unfold. simpl. rewrite Er. simpl.
             assert (Hne : u <> et_uid t) by (intros E; subst; contradiction).
             destruct (N.eqb (et_uid t) u) eqn:E; [apply N.eqb_eq in E; congruence|].
             assert (et_kids t = []) as ->.
             { apply H_data; [exact Hs|]. destruct (et_kind t); simpl in Ec; try discriminate; reflexivity. }
             reflexivity.
          -- intros v [E|H]; [rewrite Er in E; inversion E; right; exact Hu0 | left; exact H].
      + (* a new identifier: its children are not found *)
        assert (Hnone : forall u, ~ In u A -> find_rec (U u) (flat_recs s t p) = None).
        { intros u Hu. apply find_flat_recs_none. intros H. apply Hu. apply HA. exact H. }
        destruct (is_container (et_kind t)) eqn:Ec.
        * rewrite Er. rewrite H_fresh. simpl. split.
          -- intros u Hu. rewrite Hnone by exact Hu. simpl. rewrite Er. reflexivity.
          -- intros v [E|H]; [discriminate | left; exact H].
        * simpl. split.
          -- intros u Hu. rewrite Hnone by exact Hu. simpl. rewrite Er. reflexivity.
          -- intros v [E|H]; [rewrite Er in E; discriminate | left; exact H].
  Qed.
End Core.

(* ------------------------------------------------------------------ booleans to propositions *)
Lemma memN_In x l : memN x l = true <-> In x l.
Proof.
  unfold memN. rewrite existsb_exists. split.
  - intros [y [Hy E]]. apply N.eqb_eq in E. subst. exact Hy.
  - intros H. exists x. split; [exact H | apply N.eqb_refl].
Qed.
Lemma nodupN_NoDup l : nodupN l = true -> NoDup l.
Proof.
  induction l as [|x r IH]; simpl; intros H; [constructor|].
  apply andb_true_iff in H. destruct H as [H1 H2]. constructor; [|apply IH; exact H2].
  intros Hin. apply memN_In in Hin. rewrite Hin in H1. discriminate.
Qed.
Lemma NoDup_map_inj {X Y} (g : X -> Y) l x y : NoDup (map g l) -> In x l -> In y l -> g x = g y -> x = y.
Proof.
  induction l as [|z r IH]; simpl; intros Hnd Hx Hy E; [contradiction|]. inversion Hnd; subst.
  destruct Hx as [Hx|Hx], Hy as [Hy|Hy]; subst.
  - reflexivity.
  - exfalso. apply H1. rewrite E. apply in_map. exact Hy.
  - exfalso. apply H1. rewrite <- E. apply in_map. exact Hx.
  - apply IH; assumption.
Qed.

Lemma insertN_In x n l : In x (insertN n l) <-> x = n \/ In x l.
Proof.
  induction l as [|m r IH]; simpl; [intuition congruence|]. destruct (N.leb n m); simpl; [intuition congruence|]. rewrite IH. intuition congruence.
Qed.
Lemma sortN_In x l : In x (sortN l) <-> In x l.
Proof.
  unfold sortN. induction l as [|m r IH]; simpl; [tauto|]. rewrite insertN_In, IH. split; intros [H|H]; auto.
Qed.

(* ------------------------------------------------------------------ facts from wf *)
Section Layout.
  Variable s : fspec.
  Hypothesis Hwf : wf s.
  Let root := fs_root s.

  Lemma wf_nodup : NoDup (uids root).
  Proof.
    unfold wf, wfb in Hwf. apply andb_true_iff in Hwf. destruct Hwf as [H _]. apply andb_true_iff in H. destruct H as [H _].
    apply nodupN_NoDup. exact H.
  Qed.
  Lemma wf_root_kind : et_kind root = KGroup.
  Proof.
    unfold wf, wfb in Hwf. apply andb_true_iff in Hwf. destruct Hwf as [H _]. apply andb_true_iff in H. destruct H as [_ H].
    apply ekind_eqb_eq. exact H.
  Qed.
  Lemma wf_ent t : In t (subtrees root) -> ent_ok s t = true.
  Proof.
    unfold wf, wfb in Hwf. apply andb_true_iff in Hwf. destruct Hwf as [_ H]. rewrite forallb_forall in H. apply H.
  Qed.

  Lemma find_ent_in t : In t (subtrees root) -> find_ent s (et_kind t) (et_uid t) = Some t.
  Proof.
    intros Hin. unfold find_ent. fold root.
    destruct (find _ (subtrees root)) as [t'|] eqn:E.
    - apply find_some in E. destruct E as [Hin' E]. apply andb_true_iff in E. destruct E as [_ E]. apply N.eqb_eq in E.
      f_equal. apply (NoDup_map_inj et_uid (subtrees root)); [exact wf_nodup | exact Hin' | exact Hin | exact E].
    - exfalso. pose proof (find_none _ _ E t Hin) as Hn. simpl in Hn. rewrite ekind_eqb_refl, N.eqb_refl in Hn. discriminate.
  Qed.
  Lemma find_ent_some k u t : find_ent s k u = Some t -> In t (subtrees root) /\ et_kind t = k /\ et_uid t = u.
  Proof.
    unfold find_ent. fold root. intros E. apply find_some in E. destruct E as [Hin E]. apply andb_true_iff in E. destruct E as [E1 E2].
    apply ekind_eqb_eq in E1. apply N.eqb_eq in E2. auto.
  Qed.

  Lemma in_ents_of_kind t : In t (subtrees root) -> In (et_uid t) (ents_of_kind s (et_kind t)).
  Proof.
    intros H. unfold ents_of_kind. apply sortN_In. apply in_map_iff. exists t. split; [reflexivity|].
    apply filter_In. split; [exact H | apply ekind_eqb_refl].
  Qed.

  Lemma lookup_uid_map {V} (g : N -> V) u l :
    lookup (KU u) (map (fun v => (KU v, g v)) l) = if memN u l then Some (g u) else None.
  Proof.
    induction l as [|v r IH]; simpl; [reflexivity|]. unfold memN in *. simpl.
    destruct (N.eqb u v) eqn:E; simpl.
    - apply N.eqb_eq in E. subst. reflexivity.
    - exact IH.
  Qed.
End Layout.

(* ------------------------------------------------------------------ nodes of a laid-out file *)
Section LayoutNodes.
  Variable s : fspec.

  Lemma L_flat k : layout_at s [flat_key k] = Some (group_node (map (fun u => (KU u, ent_addr k u)) (ents_of_kind s k))).
  Proof. destruct k; reflexivity. Qed.
  Lemma L_ent k u : layout_at s (ent_addr k u) = option_map ent_node (find_ent s k u).
  Proof. destruct k; reflexivity. Qed.
  Lemma L_type k ty : layout_at s (type_addr k ty) = option_map (type_node k ty) (lookupN ty (fs_types s k)).
  Proof. reflexivity. Qed.
  Lemma L_under k u k2 :
    layout_at s (ent_addr k u ++ [k2]) = match find_ent s k u with Some t => under_entity t k2 | None => None end.
  Proof. destruct k; destruct k2; reflexivity. Qed.
  Lemma L_pg k u pk :
    layout_at s (ent_addr k u ++ [KPGs; pk]) =
    match find_ent s k u with
    | Some t => match et_pgs t with
                | Some pgs => option_map (fun pa : amap => {| n_attrs := pa; n_data := None; n_links := [] |}) (lookup pk pgs)
                | None => None
                end
    | None => None
    end.
  Proof. destruct k; reflexivity. Qed.
End LayoutNodes.

(* ------------------------------------------------------------------ a file that is the layout of [s] with item [x] deleted *)
Definition link_hits (x : item) (k : key) : bool := match x with ILink _ k' => key_eqb k' k | IAttr _ _ => false end.
Definition attr_hits (x : item) (k : key) : bool := match x with IAttr _ k' => key_eqb k' k | ILink _ _ => false end.

Lemma del_links x n : n_links (del_in_node x n) = match x with ILink _ k => remove_key k (n_links n) | IAttr _ _ => n_links n end.
Proof. destruct x; reflexivity. Qed.
Lemma del_attrs x n : n_attrs (del_in_node x n) = match x with IAttr _ k => remove_key k (n_attrs n) | ILink _ _ => n_attrs n end.
Proof. destruct x; reflexivity. Qed.
Lemma del_data x n : n_data (del_in_node x n) = n_data n.
Proof. destruct x; reflexivity. Qed.

Section Del.
  Variable s : fspec.
  Variable x : item.
  Variable f' : h5.
  Hypothesis Htop : top f' = [].
  Hypothesis Hnode : forall b, node_at f' b =
     if addr_eqb (item_addr x) b then option_map (del_in_node x) (layout_at s b) else layout_at s b.

  Let a := item_addr x.


  Lemma D_data b : option_map n_data (node_at f' b) = option_map n_data (layout_at s b).
  Proof. rewrite Hnode. destruct (addr_eqb (item_addr x) b); [|reflexivity]. destruct (layout_at s b); simpl; [rewrite del_data|]; reflexivity. Qed.

  Lemma D_getlink b k :
    get_link f' b k = match layout_at s b with
                      | None => None
                      | Some n => if addr_eqb a b && link_hits x k then None else lookup k (n_links n)
                      end.
  Proof.
    unfold get_link. rewrite Hnode. fold a. destruct (addr_eqb a b) eqn:E; simpl; [|destruct (layout_at s b); reflexivity].
    destruct (layout_at s b) as [n|]; simpl; [|reflexivity]. rewrite del_links. unfold link_hits. destruct x as [a0 k0|a0 k0]; [reflexivity|].
    destruct (key_eqb k0 k) eqn:Ek.
    - apply key_eqb_eq in Ek. subst. apply lookup_remove_same.
    - apply lookup_remove_other. apply key_eqb_neq. exact Ek.
  Qed.

  Lemma D_node_other b : addr_eqb a b = false -> node_at f' b = layout_at s b.
  Proof. intros E. rewrite Hnode. fold a. rewrite E. reflexivity. Qed.
  Lemma D_node_same b : addr_eqb a b = true -> node_at f' b = option_map (del_in_node x) (layout_at s b).
  Proof. intros E. rewrite Hnode. fold a. rewrite E. reflexivity. Qed.
End Del.

(* ------------------------------------------------------------------ generic facts about the reader (any file) *)
Lemma glookup_err {X} g (o : option X) e : glookup g o = Err e -> e = KeyError.
Proof. unfold glookup. destruct o; [discriminate|]. destruct (absorbs g); [discriminate|]. intros H. inversion H. reflexivity. Qed.
Lemma glookup_ok_absorb {X} g (o : option X) : absorbs g = true -> glookup g o = Ok o.
Proof. intros H. unfold glookup. destruct o; [reflexivity|]. rewrite H. reflexivity. Qed.

Lemma fetch_type_attributes_G0 f ta tn :
  fetch_type_attributes G0 f ta tn =
  Ok {| tv_attrs := n_attrs tn;
        tv_cmap := option_map (fun p : addr * node => (n_attrs (snd p), n_data (snd p))) (sub f ta KCmap);
        tv_vmap := option_map (fun p : addr * node => n_data (snd p)) (sub f ta KVmap) |}.
Proof.
  unfold fetch_type_attributes. simpl. rewrite !glookup_ok_absorb by reflexivity. simpl.
  destruct (sub f ta KVmap) as [[va vn]|]; simpl; [|reflexivity]. reflexivity.
Qed.

Lemma fetch_property_groups_G0 f u :
  fetch_property_groups G0 f u =
  Ok (match (match sub f (top f) KObjects with
             | Some (oa, _) => match sub_uid f oa u with Some (ea, _) => sub f ea KPGs | None => None end
             | None => None
             end) with
      | Some (pa, pn) => pg_list f pa pn
      | None => []
      end).
Proof. unfold fetch_property_groups. simpl. rewrite glookup_ok_absorb by reflexivity. reflexivity. Qed.

Lemma create_entity_uid f g rk ea attrs tv pgs p r :
  create_entity f g rk ea attrs tv pgs p = Ok (Some r) -> r_uid r = uid_of_attrs ea attrs.
Proof.
  unfold create_entity. destruct rk.
  - intros H. inversion H. reflexivity.
  - destruct (type_id tv); intros H; inversion H. reflexivity.
  - destruct (type_id tv) as [[n|c|n]|]; try discriminate.
    destruct (class_name_first c object_classes) as [b|]; try discriminate.
    destruct (b || has_key KName attrs); intros H; inversion H. reflexivity.
  - destruct tv as [v|]; try discriminate. destruct (has_key KPrim (tv_attrs v)); intros H; inversion H. reflexivity.
Qed.
Lemma create_entity_err f g rk ea attrs tv pgs p e :
  create_entity f g rk ea attrs tv pgs p = Err e -> e <> OutOfFuel.
Proof.
  unfold create_entity. destruct rk.
  - discriminate.
  - destruct (type_id tv); intros H; inversion H. discriminate.
  - destruct (type_id tv) as [[n|c|n]|]; try discriminate.
    + destruct (class_name_first c object_classes) as [b|]; try discriminate.
      destruct (b || has_key KName attrs); intros H; inversion H. discriminate.
    + intros H; inversion H. discriminate.
  - destruct tv as [v|]; try discriminate. destruct (has_key KPrim (tv_attrs v)); discriminate.
Qed.

(* fetch_attributes under the guards G0, in closed form *)
Definition fa_tail (f : h5) (u : uid) (ea : addr) (en : node) : option (addr * amap * option tview * list (key * amap)) :=
  Some (ea, n_attrs en,
        match sub f ea KType with
        | Some (ta, tn) => Some {| tv_attrs := n_attrs tn;
                                   tv_cmap := option_map (fun p : addr * node => (n_attrs (snd p), n_data (snd p))) (sub f ta KCmap);
                                   tv_vmap := option_map (fun p : addr * node => n_data (snd p)) (sub f ta KVmap) |}
        | None => None
        end,
        match get_link f ea KPGs with
        | Some _ => match (match sub f (top f) KObjects with
                           | Some (oa, _) => match sub_uid f oa u with Some (ea', _) => sub f ea' KPGs | None => None end
                           | None => None
                           end) with
                    | Some (pa, pn) => pg_list f pa pn
                    | None => []
                    end
        | None => []
        end).

Lemma fetch_attributes_G0 f u k :
  fetch_attributes G0 f u (Some k) =
  match sub f (top f) (flat_key k) with
  | None => Err KeyError
  | Some (ca, _) => match sub_uid f ca u with
                    | None => Ok None
                    | Some (ea, en) => Ok (fa_tail f u ea en)
                    end
  end.
Proof.
  unfold fetch_attributes, fa_tail. simpl.
  destruct (sub f (top f) (flat_key k)) as [[ca cn]|]; simpl; [|reflexivity].
  rewrite glookup_ok_absorb by reflexivity. simpl.
  destruct (sub_uid f ca u) as [[ea en]|]; simpl; [|reflexivity].
  rewrite !glookup_ok_absorb by reflexivity. simpl.
  destruct (sub f ea KType) as [[ta tn]|]; simpl.
  - rewrite fetch_type_attributes_G0. simpl.
    destruct (get_link f ea KPGs); simpl; [rewrite fetch_property_groups_G0|]; reflexivity.
  - destruct (get_link f ea KPGs); simpl; [rewrite fetch_property_groups_G0|]; reflexivity.
Qed.

Lemma load_entity_G0 f u k p :
  load_entity G0 f u (Some k) p =
  match sub f (top f) (flat_key k) with
  | None => Err KeyError
  | Some (ca, _) => match sub_uid f ca u with
                    | None => Ok None
                    | Some (ea, en) =>
                        match fa_tail f u ea en with
                        | Some (ea', attrs, tv, pgs) => create_entity f G0 (rkind_of k) ea' attrs tv pgs p
                        | None => Ok None
                        end
                    end
  end.
Proof.
  unfold load_entity. rewrite fetch_attributes_G0.
  destruct (sub f (top f) (flat_key k)) as [[ca cn]|]; simpl; [|reflexivity].
  destruct (sub_uid f ca u) as [[ea en]|]; simpl; reflexivity.
Qed.

Lemma load_entity_err f u k p e : load_entity G0 f u (Some k) p = Err e -> e <> OutOfFuel.
Proof.
  rewrite load_entity_G0. destruct (sub f (top f) (flat_key k)) as [[ca cn]|]; [|intros H; inversion H; discriminate].
  destruct (sub_uid f ca u) as [[ea en]|]; [|discriminate]. unfold fa_tail. apply create_entity_err.
Qed.

Lemma fetch_children_G0 f u k :
  fetch_children G0 f u k =
  Ok (match sub f (top f) (flat_key k) with
      | None => []
      | Some (ca, _) => match sub_uid f ca u with
                        | None => []
                        | Some (_, en) => flat_map (kids_of_container f) (n_links en)
                        end
      end).
Proof.
  unfold fetch_children. simpl. rewrite glookup_ok_absorb by reflexivity. simpl.
  destruct (sub f (top f) (flat_key k)) as [[ca cn]|]; [|reflexivity].
  rewrite glookup_ok_absorb by reflexivity. simpl. destruct (sub_uid f ca u) as [[ea en]|]; reflexivity.
Qed.
Lemma fetch_children_fresh f a k : fetch_children G0 f (Fresh a) k = Ok [].
Proof. rewrite fetch_children_G0. destruct (sub f (top f) (flat_key k)) as [[ca cn]|]; reflexivity. Qed.

(* ------------------------------------------------------------------ one entity of the layout, read from the file with [x] deleted *)
Section DelEnt.
  Variable s : fspec.
  Hypothesis Hwf : wf s.
  Variable x : item.
  Variable f' : h5.
  Hypothesis Htop : top f' = [].
  Hypothesis Hnode : forall b, node_at f' b =
     if addr_eqb (item_addr x) b then option_map (del_in_node x) (layout_at s b) else layout_at s b.
  Variable t : etree.
  Hypothesis Hin : In t (subtrees (fs_root s)).

  Let a := item_addr x.
  Let k := et_kind t.
  Let u := et_uid t.
  Let ea := ent_addr k u.
  Let en' := if addr_eqb a ea then del_in_node x (ent_node t) else ent_node t.
  Let hit_top := addr_eqb a [] && link_hits x (flat_key k).
  Let hit_flat := addr_eqb a [flat_key k] && link_hits x (KU u).

  Lemma P_top : sub f' [] (flat_key k) = if hit_top then None else option_map (pair [flat_key k]) (node_at f' [flat_key k]).
  Proof.
    unfold sub. rewrite (D_getlink s x f' Hnode). simpl layout_at. cbv iota. fold a. fold hit_top.
    destruct hit_top; [reflexivity|].
    assert (lookup (flat_key k) (n_links (top_node s)) = Some [flat_key k]) as -> by (destruct k; reflexivity).
    destruct (node_at f' [flat_key k]); reflexivity.
  Qed.
  Lemma P_flat_node : exists n1, node_at f' [flat_key k] = Some n1.
  Proof. rewrite Hnode, L_flat. destruct (addr_eqb (item_addr x) [flat_key k]); simpl; eexists; reflexivity. Qed.

  Lemma P_ent : sub_uid f' [flat_key k] (U u) = if hit_flat then None else Some (ea, en').
  Proof.
    unfold sub_uid, sub. rewrite (D_getlink s x f' Hnode). rewrite L_flat. fold a. fold hit_flat.
    destruct hit_flat; [reflexivity|]. simpl n_links. rewrite lookup_uid_map.
    assert (memN u (ents_of_kind s k) = true) as -> by (apply memN_In; apply (in_ents_of_kind s t Hin)).
    rewrite Hnode. rewrite (L_ent s k u). unfold k, u. rewrite (find_ent_in s Hwf t Hin). simpl. unfold en', ea, a, k, u.
    destruct (addr_eqb (item_addr x) (ent_addr (et_kind t) (et_uid t))); reflexivity.
  Qed.

  Lemma P_view p :
    load_entity G0 f' (U u) (Some k) p =
    if hit_top then Err KeyError
    else if hit_flat then Ok None
    else match fa_tail f' (U u) ea en' with
         | Some (ea', attrs, tv, pgs) => create_entity f' G0 (rkind_of k) ea' attrs tv pgs p
         | None => Ok None
         end.
  Proof.
    rewrite load_entity_G0, Htop, P_top. destruct hit_top; [reflexivity|].
    destruct P_flat_node as [n1 E]. rewrite E. unfold option_map. rewrite P_ent. destruct hit_flat; reflexivity.
  Qed.

  Lemma P_list :
    fetch_children G0 f' (U u) k = Ok (if hit_top || hit_flat then [] else flat_map (kids_of_container f') (n_links en')).
  Proof.
    rewrite fetch_children_G0, Htop, P_top. destruct hit_top; [reflexivity|].
    destruct P_flat_node as [n1 E]. rewrite E. unfold option_map. rewrite P_ent. destruct hit_flat; reflexivity.
  Qed.
End DelEnt.

(* ------------------------------------------------------------------ list algebra used below *)
Lemma flat_map_remove_key {V X} (g : key * V -> list X) k0 (l : list (key * V)) :
  flat_map g (remove_key k0 l) = flat_map (fun e => if key_eqb k0 (fst e) then [] else g e) l.
Proof.
  induction l as [|[k1 v] r IH]; simpl; [reflexivity|]. destruct (key_eqb k0 k1); simpl; rewrite IH; reflexivity.
Qed.
Lemma flat_map_ext_in {X Y} (g h : X -> list Y) l : (forall e, In e l -> g e = h e) -> flat_map g l = flat_map h l.
Proof.
  induction l as [|e r IH]; simpl; intros H; [reflexivity|]. rewrite (H e) by (left; reflexivity). rewrite IH; [reflexivity|].
  intros e' He'. apply H. right. exact He'.
Qed.
Lemma flat_map_nil {X Y} (g : X -> list Y) l : (forall e, In e l -> g e = []) -> flat_map g l = [].
Proof. induction l as [|e r IH]; simpl; intros H; [reflexivity|]. rewrite (H e) by (left; reflexivity). rewrite IH; [reflexivity|]. intros; apply H; right; assumption. Qed.
Lemma flat_map_single {X} (g : X -> list X) l : (forall e, In e l -> g e = [e]) -> flat_map g l = l.
Proof. induction l as [|e r IH]; simpl; intros H; [reflexivity|]. rewrite (H e) by (left; reflexivity). simpl. rewrite IH; [reflexivity|]. intros; apply H; right; assumption. Qed.
Lemma filter_flat_map {X Y} (p : Y -> bool) (g : X -> list Y) l : filter p (flat_map g l) = flat_map (fun e => filter p (g e)) l.
Proof. induction l as [|e r IH]; simpl; [reflexivity|]. rewrite filter_app, IH. reflexivity. Qed.
Lemma filter_map_comm {X Y} (p : Y -> bool) (g : X -> Y) l : filter p (map g l) = map g (filter (fun e => p (g e)) l).
Proof. induction l as [|e r IH]; simpl; [reflexivity|]. destruct (p (g e)); simpl; rewrite IH; reflexivity. Qed.
Lemma filter_false {X} (p : X -> bool) l : (forall e, In e l -> p e = false) -> filter p l = [].
Proof. induction l as [|e r IH]; simpl; intros H; [reflexivity|]. rewrite (H e) by (left; reflexivity). apply IH. intros; apply H; right; assumption. Qed.

Lemma nodup_keys_lookup {V} (l : list (key * V)) kk v : nodup_keys l = true -> In (kk, v) l -> lookup kk l = Some v.
Proof.
  induction l as [|[k1 v1] r IH]; simpl; intros Hn Hi; [contradiction|].
  apply andb_true_iff in Hn. destruct Hn as [Hn1 Hn2]. destruct Hi as [Hi|Hi].
  - inversion Hi; subst. rewrite key_eqb_refl. reflexivity.
  - destruct (key_eqb kk k1) eqn:E.
    + apply key_eqb_eq in E. subst k1. unfold has_key in Hn1. rewrite (IH Hn2 Hi) in Hn1. discriminate.
    + apply IH; assumption.
Qed.

Lemma nk_list_eq l1 l2 : list_eqb nk_eqb l1 l2 = true -> l1 = l2.
Proof.
  apply list_eqb_spec. intros [a1 b1] [a2 b2]. unfold nk_eqb. simpl. rewrite andb_true_iff, N.eqb_eq, ekind_eqb_eq.
  split; [intros [-> ->]; reflexivity | intros H; inversion H; auto].
Qed.

(* ------------------------------------------------------------------ what wf says about one entity *)
Section EntFacts.
  Variable s : fspec.
  Hypothesis Hwf : wf s.
  Variable t : etree.
  Hypothesis Hin : In t (subtrees (fs_root s)).

  Lemma ent_ok_parts :
    lookup KID (et_attrs t) = Some (VUid (et_uid t))
    /\ child_keys t = map key_of (et_kids t)
    /\ (et_kind t = KData -> et_kids t = [] /\ et_conts t = [])
    /\ (et_kind t <> KObject -> et_pgs t = None)
    /\ (forall d, In d (et_dsets t) -> dset_key_ok (et_kind t) (fst d) = true)
    /\ nodup_keys (et_dsets t) = true
    /\ (forall p, et_pgs t = Some p -> nodup_keys p = true)
    /\ type_ok s t = true.
  Proof.
    pose proof (wf_ent s Hwf t Hin) as H. unfold ent_ok in H.
    repeat (apply andb_true_iff in H; destruct H as [H ?]).
    repeat split.
    - destruct (lookup KID (et_attrs t)) as [v|]; simpl in H; [|discriminate]. destruct v; simpl in H; try discriminate.
      apply N.eqb_eq in H. subst. reflexivity.
    - apply nk_list_eq. assumption.
    - destruct (et_kind t); try discriminate. destruct (et_kids t); [reflexivity | discriminate].
    - destruct (et_kind t); try discriminate. destruct (et_kids t); [|discriminate]. destruct (et_conts t); [reflexivity | discriminate].
    - intros Hk. destruct (et_kind t); try congruence; destruct (et_pgs t); try reflexivity; discriminate.
    - intros d Hd. match goal with H0 : forallb _ (et_dsets t) = true |- _ => rewrite forallb_forall in H0; apply H0; exact Hd end.
    - assumption.
    - intros p Ep. match goal with H0 : match et_pgs t with Some _ => _ | None => _ end = true |- _ => rewrite Ep in H0; exact H0 end.
    - assumption.
  Qed.

  Lemma dsets_no_flat ck : et_kind t <> KData -> lookup (flat_key ck) (et_dsets t) = None.
  Proof.
    intros Hk. destruct ent_ok_parts as [_ [_ [_ [_ [Hd _]]]]].
    induction (et_dsets t) as [|[kk v] r IH]; simpl; [reflexivity|].
    assert (Hkk : dset_key_ok (et_kind t) kk = true) by (apply (Hd (kk, v)); left; reflexivity).
    destruct (key_eqb (flat_key ck) kk) eqn:E.
    - apply key_eqb_eq in E. subst kk. destruct ck, (et_kind t); simpl in Hkk; try discriminate; congruence.
    - apply IH. intros d Hd'. apply Hd. right. exact Hd'.
  Qed.
  Lemma dsets_no_special kk : (kk = KType \/ kk = KPGs \/ kk = KCmap \/ kk = KVmap) -> lookup kk (et_dsets t) = None.
  Proof.
    intros Hs0. destruct ent_ok_parts as [_ [_ [_ [_ [Hd _]]]]].
    induction (et_dsets t) as [|[k1 v] r IH]; simpl; [reflexivity|].
    assert (Hkk : dset_key_ok (et_kind t) k1 = true) by (apply (Hd (k1, v)); left; reflexivity).
    destruct (key_eqb kk k1) eqn:E.
    - apply key_eqb_eq in E. subst k1. destruct Hs0 as [E1 | [E1 | [E1 | E1]]]; subst; simpl in Hkk; discriminate.
    - apply IH. intros d Hd'. apply Hd. right. exact Hd'.
  Qed.
End EntFacts.

Lemma ku_entries_all (ck : ekind) (g : etree -> addr) (l : list etree) :
  flat_map (fun e : key * addr => match fst e with KU m => [(m, ck)] | _ => @nil (N * ekind) end) (map (fun c => (KU (et_uid c), g c)) l)
  = map (fun c => (et_uid c, ck)) l.
Proof. induction l as [|c r IH]; simpl; [reflexivity|]. rewrite IH. reflexivity. Qed.
Lemma ku_entries_del (ck : ekind) k0 (g : etree -> addr) (l : list etree) :
  flat_map (fun e : key * addr => if key_eqb k0 (fst e) then @nil (N * ekind) else match fst e with KU m => [(m, ck)] | _ => [] end)
           (map (fun c => (KU (et_uid c), g c)) l)
  = map (fun c => (et_uid c, ck)) (filter (fun c => negb (key_eqb k0 (KU (et_uid c)))) l).
Proof.
  induction l as [|c r IH]; simpl; [reflexivity|]. destruct (key_eqb k0 (KU (et_uid c))); simpl; rewrite IH; reflexivity.
Qed.
Lemma filter_true {X} (l : list X) : filter (fun _ => true) l = l.
Proof. induction l as [|e r IH]; simpl; [reflexivity|]. rewrite IH. reflexivity. Qed.

(* ------------------------------------------------------------------ the children listed for one entity after the deletion *)
Section DelList.
  Variable s : fspec.
  Hypothesis Hwf : wf s.
  Variable x : item.
  Variable f' : h5.
  Hypothesis Htop : top f' = [].
  Hypothesis Hnode : forall b, node_at f' b =
     if addr_eqb (item_addr x) b then option_map (del_in_node x) (layout_at s b) else layout_at s b.
  Variable t : etree.
  Hypothesis Hin : In t (subtrees (fs_root s)).

  Let a := item_addr x.
  Let k := et_kind t.
  Let u := et_uid t.
  Let ea := ent_addr k u.

  Definition cont_removed (ck : ekind) : bool := addr_eqb a ea && link_hits x (flat_key ck).
  Definition entry_removed (ck : ekind) (v : N) : bool := addr_eqb a (ea ++ [flat_key ck]) && link_hits x (KU v).
  Definition keep_of (c : N * ekind) : bool :=
    negb (addr_eqb a [] && link_hits x (flat_key k)) && negb (addr_eqb a [flat_key k] && link_hits x (KU u))
    && negb (cont_removed (snd c)) && negb (entry_removed (snd c) (fst c)).

  (* the node of a child container in the damaged file *)
  Lemma cont_node ck : In ck (et_conts t) ->
    kids_of_container f' (flat_key ck, ea ++ [flat_key ck]) =
    map (fun c => (et_uid c, ck)) (filter (fun c => negb (entry_removed ck (et_uid c))) (kids_of_kind t ck)).
  Proof.
    intros Hck. unfold kids_of_container. cbn [fst snd].
    assert (Hct : ctype_of (flat_key ck) = Some ck) by (destruct ck; reflexivity). rewrite Hct.
    assert (Hk : k <> KData).
    { intros E. destruct (ent_ok_parts s Hwf t Hin) as [_ [_ [Hd _]]]. destruct (Hd E) as [_ Hc]. rewrite Hc in Hck. contradiction. }
    assert (Hlay : layout_at s (ea ++ [flat_key ck]) =
                   Some (group_node (map (fun c => (KU (et_uid c), ent_addr ck (et_uid c))) (kids_of_kind t ck)))).
    { unfold ea. rewrite L_under. unfold k, u. rewrite (find_ent_in s Hwf t Hin). unfold under_entity.
      rewrite (dsets_no_flat s Hwf t Hin ck Hk).
      assert (Hex : existsb (ekind_eqb ck) (et_conts t) = true).
      { apply existsb_exists. exists ck. split; [exact Hck | apply ekind_eqb_refl]. }
      destruct ck; simpl; rewrite Hex; reflexivity. }
    rewrite Hnode. fold a. rewrite Hlay. unfold entry_removed.
    destruct (addr_eqb a (ea ++ [flat_key ck])) eqn:Ea; simpl.
    - rewrite del_data. simpl n_data. cbv iota. rewrite del_links. destruct x as [a0 k0|a0 k0]; cbn [link_hits n_links group_node andb negb].
      + rewrite ku_entries_all, filter_true. reflexivity.
      + rewrite flat_map_remove_key. apply ku_entries_del.
    - cbn [andb negb n_data n_links group_node]. rewrite ku_entries_all, filter_true. reflexivity.
  Qed.

  Lemma dset_link_no_kids d : In d (et_dsets t) -> kids_of_container f' (fst d, ea ++ [fst d]) = [].
  Proof.
    intros Hd. unfold kids_of_container. cbn [fst snd].
    destruct (ent_ok_parts s Hwf t Hin) as [_ [_ [_ [_ [Hdk [Hnd _]]]]]].
    pose proof (Hdk d Hd) as Hok. destruct d as [kk tok]. simpl in *.
    destruct kk; simpl in Hok; try discriminate; simpl; try reflexivity.
    (* "Data" under a data node: a dataset *)
    pose proof (D_data s x f' Hnode (ea ++ [KDatas])) as Hdat.
    assert (Hlay : layout_at s (ea ++ [KDatas]) = Some (dset_node [] tok)).
    { unfold ea. rewrite L_under. unfold k, u. rewrite (find_ent_in s Hwf t Hin). unfold under_entity.
      rewrite (nodup_keys_lookup _ _ _ Hnd Hd). reflexivity. }
    rewrite Hlay in Hdat. simpl in Hdat.
    destruct (node_at f' [flat_key k; KU u; KDatas]) as [n|]; [|reflexivity]. simpl in Hdat. inversion Hdat as [E]. rewrite E. reflexivity.
  Qed.

  Lemma P_list2 :
    fetch_children G0 f' (U u) k = Ok (filter keep_of (map key_of (et_kids t))).
  Proof.
    unfold u, k. rewrite (P_list s Hwf x f' Htop Hnode t Hin). fold k. fold u. fold ea. fold a.
    destruct (ent_ok_parts s Hwf t Hin) as [_ [Hkids _]]. rewrite <- Hkids.
    destruct (addr_eqb a [] && link_hits x (flat_key k)) eqn:E1.
    { simpl. f_equal. symmetry. apply filter_false. intros e _. unfold keep_of. fold a k u. rewrite E1. reflexivity. }
    destruct (addr_eqb a [flat_key k] && link_hits x (KU u)) eqn:E2.
    { simpl. f_equal. symmetry. apply filter_false. intros e _. unfold keep_of. fold a k u. rewrite E1, E2. reflexivity. }
    simpl. f_equal.
    (* the links of the entity node, with the deleted one mapped to [] *)
    assert (Hl : flat_map (kids_of_container f') (n_links (if addr_eqb a ea then del_in_node x (ent_node t) else ent_node t)) =
                 flat_map (fun e => if addr_eqb a ea && link_hits x (fst e) then [] else kids_of_container f' e) (n_links (ent_node t))).
    { destruct (addr_eqb a ea).
      - rewrite del_links. destruct x as [a0 k0|a0 k0]; [reflexivity|]. rewrite flat_map_remove_key. reflexivity.
      - reflexivity. }
    rewrite Hl. unfold ent_node. simpl n_links. fold k u ea. simpl flat_map.
    assert (Hty : (if addr_eqb a ea && link_hits x KType then [] else kids_of_container f' (KType, type_addr k (et_ty t))) = []).
    { destruct (addr_eqb a ea && link_hits x KType); reflexivity. }
    rewrite Hty. simpl. rewrite !flat_map_app.
    assert (Hpg : flat_map (fun e : key * addr => if addr_eqb a ea && link_hits x (fst e) then [] else kids_of_container f' e)
                    (match et_pgs t with Some _ => [(KPGs, [flat_key k; KU u; KPGs])] | None => [] end) = []).
    { destruct (et_pgs t); simpl; [|reflexivity]. destruct (addr_eqb a ea && link_hits x KPGs); reflexivity. }
    assert (Hds : flat_map (fun e : key * addr => if addr_eqb a ea && link_hits x (fst e) then [] else kids_of_container f' e)
                    (map (fun d : key * N => (fst d, [flat_key k; KU u; fst d])) (et_dsets t)) = []).
    { rewrite flat_map_concat_map, map_map, <- flat_map_concat_map. apply flat_map_nil. intros d Hd. simpl.
      destruct (addr_eqb a ea && link_hits x (fst d)); [reflexivity|]. apply (dset_link_no_kids d Hd). }
    match goal with |- ?P ++ ?C ++ ?D = _ => transitivity ([] ++ C ++ []); [f_equal; [exact Hpg | f_equal; exact Hds]|] end.
    rewrite app_nil_r. cbn [app].
    unfold child_keys. rewrite filter_flat_map. rewrite flat_map_concat_map, map_map, <- flat_map_concat_map.
    apply flat_map_ext_in. intros ck Hck. simpl fst.
    rewrite filter_map_comm.
    destruct (addr_eqb a ea && link_hits x (flat_key ck)) eqn:Ec.
    - symmetry. rewrite filter_false; [reflexivity|]. intros c _. unfold keep_of, cont_removed. simpl. fold a k u ea. rewrite Ec.
      rewrite !andb_false_r. reflexivity.
    - pose proof (cont_node ck Hck) as Hc. unfold ea in Hc. cbn [app ent_addr] in Hc. rewrite Hc. f_equal. apply filter_ext. intros c. unfold keep_of, cont_removed. simpl. fold a k u ea.
      rewrite E1, E2, Ec. reflexivity.
  Qed.
End DelList.

Lemma opt_pair_data (o : option node) (A0 : addr) :
  option_map (fun p : addr * node => n_data (snd p)) (match o with Some n => Some (A0, n) | None => None end) = option_map n_data o.
Proof. destruct o; reflexivity. Qed.

(* ------------------------------------------------------------------ the view of one entity when the deletion does not touch it *)
Section DelView.
  Variable s : fspec.
  Hypothesis Hwf : wf s.
  Variable x : item.
  Variable f' : h5.
  Hypothesis Htop : top f' = [].
  Hypothesis Hnode : forall b, node_at f' b =
     if addr_eqb (item_addr x) b then option_map (del_in_node x) (layout_at s b) else layout_at s b.
  Variable t : etree.
  Hypothesis Hin : In t (subtrees (fs_root s)).

  Let a := item_addr x.
  Let k := et_kind t.
  Let u := et_uid t.
  Let ty := et_ty t.
  Let ea := ent_addr k u.
  Let ta := type_addr k ty.
  Let en' := if addr_eqb a ea then del_in_node x (ent_node t) else ent_node t.

  (* the entity node is untouched, or only loses a child container *)
  Definition ea_clean : Prop :=
    addr_eqb a ea = false \/ (exists a0 ck, x = ILink a0 (flat_key ck) /\ lookup (flat_key ck) (et_dsets t) = None).

  Lemma type_spec : exists ts, lookupN ty (fs_types s k) = Some ts.
  Proof.
    destruct (ent_ok_parts s Hwf t Hin) as [_ [_ [_ [_ [_ [_ [_ Hty]]]]]]]. unfold type_ok in Hty. fold ty k in Hty.
    destruct (lookupN ty (fs_types s k)) as [ts|]; [exists ts; reflexivity | discriminate].
  Qed.

  Lemma en_attrs : ea_clean -> n_attrs en' = et_attrs t.
  Proof.
    intros [E|[a0 [ck [E _]]]]; unfold en'.
    - rewrite E. reflexivity.
    - destruct (addr_eqb a ea); [|reflexivity]. rewrite del_attrs, E. reflexivity.
  Qed.

  Lemma ea_clean_link kk : ea_clean -> (forall ck, kk <> flat_key ck) -> addr_eqb a ea && link_hits x kk = false.
  Proof.
    intros [E|[a0 [ck [E _]]]] Hkk.
    - rewrite E. reflexivity.
    - rewrite E. simpl. destruct (key_eqb (flat_key ck) kk) eqn:Ek; [|apply andb_false_r].
      apply key_eqb_eq in Ek. exfalso. apply (Hkk ck). symmetry. exact Ek.
  Qed.

  Lemma ent_layout : layout_at s ea = Some (ent_node t).
  Proof. unfold ea. rewrite L_ent. unfold k, u. rewrite (find_ent_in s Hwf t Hin). reflexivity. Qed.

  Lemma sub_type ts : lookupN ty (fs_types s k) = Some ts -> addr_eqb a ea && link_hits x KType = false -> addr_eqb a ta = false ->
    sub f' ea KType = Some (ta, type_node k ty ts).
  Proof.
    intros Ets E1 E2. unfold sub. rewrite (D_getlink s x f' Hnode), ent_layout. fold a. rewrite E1.
    unfold ent_node. cbn [n_links lookup key_eqb]. fold k ty ta.
    rewrite (D_node_other s x f' Hnode ta E2). unfold ta. rewrite L_type, Ets. reflexivity.
  Qed.

  Lemma type_layout ts : lookupN ty (fs_types s k) = Some ts -> layout_at s ta = Some (type_node k ty ts).
  Proof. intros E. unfold ta. rewrite L_type, E. reflexivity. Qed.

  Lemma sub_cmap ts : lookupN ty (fs_types s k) = Some ts -> addr_eqb a ta = false -> addr_eqb a (ta ++ [KCmap]) = false ->
    option_map (fun p : addr * node => (n_attrs (snd p), n_data (snd p))) (sub f' ta KCmap)
    = option_map (fun c : amap * N => (fst c, Some (snd c))) (ts_cmap ts).
  Proof.
    intros Ets E1 E2. unfold sub. rewrite (D_getlink s x f' Hnode), (type_layout ts Ets). fold a. rewrite E1. cbn [andb].
    unfold type_node. cbn [n_links]. fold ta.
    destruct (ts_cmap ts) as [[ca tok]|] eqn:Ec; cbn [app lookup key_eqb].
    - rewrite (D_node_other s x f' Hnode _ E2). unfold ta, type_addr. cbn [app layout_at]. rewrite Ets, Ec. reflexivity.
    - destruct (ts_vmap ts); reflexivity.
  Qed.

  Lemma sub_vmap ts : lookupN ty (fs_types s k) = Some ts -> addr_eqb a ta = false ->
    option_map (fun p : addr * node => n_data (snd p)) (sub f' ta KVmap) = option_map (fun v : N => Some v) (ts_vmap ts).
  Proof.
    intros Ets E1. unfold sub. rewrite (D_getlink s x f' Hnode), (type_layout ts Ets). fold a. rewrite E1. cbn [andb].
    unfold type_node. cbn [n_links]. fold ta.
    destruct (ts_vmap ts) as [tok|] eqn:Ev.
    - pose proof (D_data s x f' Hnode [KTypes; KTF k; KU ty; KVmap]) as Hd.
      assert (Hlay : layout_at s [KTypes; KTF k; KU ty; KVmap] = Some (dset_node [] tok)).
      { cbn [layout_at]. rewrite Ets, Ev. reflexivity. }
      rewrite Hlay in Hd.
      destruct (ts_cmap ts); unfold type_addr; cbn [app lookup key_eqb ekind_eqb]; rewrite opt_pair_data; exact Hd.
    - destruct (ts_cmap ts); reflexivity.
  Qed.
End DelView.

Lemma lookup_app {V} kk (l1 l2 : list (key * V)) :
  lookup kk (l1 ++ l2) = match lookup kk l1 with Some v => Some v | None => lookup kk l2 end.
Proof. induction l1 as [|[k1 v1] r IH]; simpl; [reflexivity|]. destruct (key_eqb kk k1); [reflexivity | exact IH]. Qed.
Lemma lookup_conts_none kk (g : ekind -> addr) (l : list ekind) : (forall ck, kk <> flat_key ck) -> lookup kk (map (fun ck => (flat_key ck, g ck)) l) = None.
Proof.
  intros H. induction l as [|c r IH]; simpl; [reflexivity|]. destruct (key_eqb kk (flat_key c)) eqn:E; [|exact IH].
  apply key_eqb_eq in E. exfalso. apply (H c). exact E.
Qed.
Lemma lookup_dsets_map kk (b : addr) (l : list (key * N)) :
  lookup kk (map (fun d : key * N => (fst d, b ++ [fst d])) l) = option_map (fun _ => b ++ [kk]) (lookup kk l).
Proof.
  induction l as [|[k1 v1] r IH]; simpl; [reflexivity|]. destruct (key_eqb kk k1) eqn:E; [|exact IH].
  apply key_eqb_eq in E. subst. reflexivity.
Qed.
Lemma dsets_of_alt f n :
  dsets_of f n = flat_map (fun l : key * addr => match option_map n_data (node_at f (snd l)) with Some (Some t) => [(fst l, t)] | _ => [] end) (n_links n).
Proof. unfold dsets_of. apply flat_map_ext_in. intros e _. destruct (node_at f (snd e)) as [m|]; simpl; [destruct (n_data m)|]; reflexivity. Qed.

Section DelView2.
  Variable s : fspec.
  Hypothesis Hwf : wf s.
  Variable x : item.
  Variable f' : h5.
  Hypothesis Htop : top f' = [].
  Hypothesis Hnode : forall b, node_at f' b =
     if addr_eqb (item_addr x) b then option_map (del_in_node x) (layout_at s b) else layout_at s b.
  Variable t : etree.
  Hypothesis Hin : In t (subtrees (fs_root s)).

  Let a := item_addr x.
  Let k := et_kind t.
  Let u := et_uid t.
  Let ty := et_ty t.
  Let ea := ent_addr k u.
  Let ta := type_addr k ty.
  Let en' := if addr_eqb a ea then del_in_node x (ent_node t) else ent_node t.
  Let clean := ea_clean x t.

  Hypothesis Htopk : addr_eqb a [] && link_hits x (flat_key k) = false.
  Hypothesis Hflat : addr_eqb a [flat_key k] && link_hits x (KU u) = false.

  Lemma walk_to_ent : match sub f' (top f') (flat_key k) with
                      | Some (ca, _) => sub_uid f' ca (U u)
                      | None => None
                      end = Some (ea, en').
  Proof.
    rewrite Htop. unfold k. rewrite (P_top s x f' Hnode t). fold k a. rewrite Htopk.
    destruct (P_flat_node s x f' Hnode t) as [n1 E]. fold k in E. rewrite E. cbn [option_map].
    unfold k, u. rewrite (P_ent s Hwf x f' Hnode t Hin). fold k u a. rewrite Hflat. reflexivity.
  Qed.

  Lemma links_en' {X} (g : key * addr -> list X) :
    flat_map g (n_links en') = flat_map (fun e => if addr_eqb a ea && link_hits x (fst e) then [] else g e) (n_links (ent_node t)).
  Proof.
    unfold en'. destruct (addr_eqb a ea).
    - rewrite del_links. destruct x as [a0 k0|a0 k0]; [reflexivity|]. rewrite flat_map_remove_key. reflexivity.
    - reflexivity.
  Qed.

  Lemma dsets_same : clean -> fetch_dsets G0 f' k (U u) = Some (et_dsets t).
  Proof.
    intros Hc. unfold fetch_dsets.
    assert (Hg : absorbs (lazy_guard G0 k) = true) by (destruct k; reflexivity).
    rewrite (glookup_ok_absorb _ _ Hg). rewrite walk_to_ent. f_equal.
    rewrite dsets_of_alt, links_en'.
    unfold ent_node. cbn [n_links]. fold k u ea. cbn [flat_map fst snd].
    set (g := fun e : key * addr =>
                if addr_eqb a ea && link_hits x (fst e) then []
                else match option_map n_data (node_at f' (snd e)) with Some (Some t0) => [(fst e, t0)] | _ => [] end).
    destruct (type_spec s Hwf t Hin) as [ts Ets].
    assert (Hty : (if addr_eqb a ea && link_hits x KType then []
                   else match option_map n_data (node_at f' (type_addr k (et_ty t))) with Some (Some t0) => [(KType, t0)] | _ => [] end) = []).
    { destruct (addr_eqb a ea && link_hits x KType); [reflexivity|].
      rewrite (D_data s x f' Hnode). rewrite (L_type s k (et_ty t)). unfold k. rewrite Ets. reflexivity. }
    rewrite Hty. cbn [app]. rewrite !flat_map_app.
    assert (Hpg : flat_map g (match et_pgs t with Some _ => [(KPGs, ea ++ [KPGs])] | None => [] end) = []).
    { destruct (et_pgs t) as [pgs|] eqn:Ep; [|reflexivity]. cbn [flat_map]. unfold g. cbn [fst snd].
      destruct (addr_eqb a ea && link_hits x KPGs); [reflexivity|].
      rewrite (D_data s x f' Hnode). unfold ea. rewrite L_under. unfold k, u. rewrite (find_ent_in s Hwf t Hin).
      unfold under_entity. rewrite (dsets_no_special s Hwf t Hin KPGs) by auto. rewrite Ep. reflexivity. }
    assert (Hct : flat_map g (map (fun ck => (flat_key ck, ea ++ [flat_key ck])) (et_conts t)) = []).
    { rewrite flat_map_concat_map, map_map, <- flat_map_concat_map. apply flat_map_nil. intros ck Hck. unfold g. cbn [fst snd].
      destruct (addr_eqb a ea && link_hits x (flat_key ck)); [reflexivity|].
      assert (Hk : k <> KData).
      { intros E. destruct (ent_ok_parts s Hwf t Hin) as [_ [_ [Hd _]]]. destruct (Hd E) as [_ Hc0]. rewrite Hc0 in Hck. contradiction. }
      rewrite (D_data s x f' Hnode). unfold ea. rewrite L_under. unfold k, u. rewrite (find_ent_in s Hwf t Hin).
      unfold under_entity. rewrite (dsets_no_flat s Hwf t Hin ck Hk).
      assert (Hex : existsb (ekind_eqb ck) (et_conts t) = true).
      { apply existsb_exists. exists ck. split; [exact Hck | apply ekind_eqb_refl]. }
      destruct ck; cbn; rewrite Hex; reflexivity. }
    assert (Hds : flat_map g (map (fun d : key * N => (fst d, ea ++ [fst d])) (et_dsets t)) = et_dsets t).
    { rewrite flat_map_concat_map, map_map, <- flat_map_concat_map. apply flat_map_single. intros d Hd. unfold g. cbn [fst snd].
      destruct (ent_ok_parts s Hwf t Hin) as [_ [_ [_ [_ [Hdk [Hnd _]]]]]].
      assert (Hnh : addr_eqb a ea && link_hits x (fst d) = false).
      { destruct Hc as [E|[a0 [ck [E Hno]]]]; [fold a k u ea in E; rewrite E; reflexivity|].
        rewrite E. cbn [link_hits]. destruct (key_eqb (flat_key ck) (fst d)) eqn:Ek; [|apply andb_false_r].
        apply key_eqb_eq in Ek. destruct d as [kk tok]. cbn [fst] in Ek. subst kk.
        rewrite (nodup_keys_lookup _ _ _ Hnd Hd) in Hno. discriminate. }
      rewrite Hnh. rewrite (D_data s x f' Hnode). unfold ea. rewrite L_under. unfold k, u. rewrite (find_ent_in s Hwf t Hin).
      unfold under_entity. destruct d as [kk tok]. cbn [fst]. rewrite (nodup_keys_lookup _ _ _ Hnd Hd). reflexivity. }
    match goal with |- ?P ++ ?C ++ ?D = _ => transitivity ([] ++ [] ++ et_dsets t); [f_equal; [exact Hpg | f_equal; [exact Hct | exact Hds]]|] end.
    reflexivity.
  Qed.
End DelView2.

Section DelView3.
  Variable s : fspec.
  Hypothesis Hwf : wf s.
  Variable x : item.
  Variable f' : h5.
  Hypothesis Htop : top f' = [].
  Hypothesis Hnode : forall b, node_at f' b =
     if addr_eqb (item_addr x) b then option_map (del_in_node x) (layout_at s b) else layout_at s b.
  Variable t : etree.
  Hypothesis Hin : In t (subtrees (fs_root s)).

  Local Notation a := (item_addr x).
  Local Notation k := (et_kind t).
  Local Notation u := (et_uid t).
  Local Notation ty := (et_ty t).
  Local Notation ea := (ent_addr (et_kind t) (et_uid t)).
  Local Notation ta := (type_addr (et_kind t) (et_ty t)).
  Local Notation en' := (if addr_eqb (item_addr x) (ent_addr (et_kind t) (et_uid t)) then del_in_node x (ent_node t) else ent_node t).

  Hypothesis Htopk : addr_eqb a [] && link_hits x (flat_key k) = false.
  Hypothesis Hflat : addr_eqb a [flat_key k] && link_hits x (KU u) = false.
  Hypothesis Hclean : ea_clean x t.
  Hypothesis Hta : addr_eqb a ta = false.
  Hypothesis Hcm : addr_eqb a (ta ++ [KCmap]) = false.
  Hypothesis Hpgc : addr_eqb a (ea ++ [KPGs]) = false.
  Hypothesis Hpgn : forall pk, addr_eqb a (ea ++ [KPGs; pk]) = false.

  Lemma getlink_pgs :
    get_link f' ea KPGs = match et_pgs t with Some _ => Some (ea ++ [KPGs]) | None => None end.
  Proof.
    rewrite (D_getlink s x f' Hnode). rewrite (ent_layout s Hwf t Hin).
    assert (E : addr_eqb a ea && link_hits x KPGs = false).
    { apply (ea_clean_link x t KPGs Hclean). intros ck. destruct ck; discriminate. }
    rewrite E. unfold ent_node. cbn [n_links lookup key_eqb]. rewrite lookup_app.
    destruct (et_pgs t); cbn [lookup key_eqb]; [reflexivity|].
    rewrite lookup_app, lookup_conts_none by (intros ck; destruct ck; discriminate).
    rewrite lookup_dsets_map, (dsets_no_special s Hwf t Hin KPGs) by auto. reflexivity.
  Qed.

  Lemma pgs_same :
    match get_link f' ea KPGs with
    | Some _ => match (match sub f' (top f') KObjects with
                       | Some (oa, _) => match sub_uid f' oa (U u) with Some (ea', _) => sub f' ea' KPGs | None => None end
                       | None => None
                       end) with
                | Some (pa, pn) => pg_list f' pa pn
                | None => []
                end
    | None => []
    end = match k, et_pgs t with KObject, Some p => p | _, _ => [] end.
  Proof.
    rewrite getlink_pgs. destruct (et_pgs t) as [pgs|] eqn:Ep; [|destruct k; reflexivity].
    assert (Ek : k = KObject).
    { destruct (ent_ok_parts s Hwf t Hin) as [_ [_ [_ [Hp _]]]]. destruct k; try reflexivity;
        (rewrite Hp in Ep by discriminate; discriminate). }
    pose proof (walk_to_ent s Hwf x f' Htop Hnode t Hin Htopk Hflat) as Hw. rewrite Ek in Hw. cbn [flat_key] in Hw.
    destruct (sub f' (top f') KObjects) as [[oa on]|]; [|discriminate]. rewrite Ek. rewrite Hw. rewrite <- Ek.
    unfold sub. rewrite getlink_pgs, Ep. rewrite (D_node_other s x f' Hnode _ Hpgc).
    rewrite L_under. rewrite (find_ent_in s Hwf t Hin). unfold under_entity.
    rewrite (dsets_no_special s Hwf t Hin KPGs) by auto. rewrite Ep.
    unfold pg_list, group_node. cbn [n_links]. rewrite flat_map_concat_map, map_map, <- flat_map_concat_map.
    apply flat_map_single. intros [pk pa] Hp. cbn [fst snd].
    rewrite (D_node_other s x f' Hnode _ (Hpgn pk)). rewrite L_pg. rewrite (find_ent_in s Hwf t Hin), Ep.
    destruct (ent_ok_parts s Hwf t Hin) as [_ [_ [_ [_ [_ [_ [Hnd _]]]]]]].
    rewrite (nodup_keys_lookup _ _ _ (Hnd pgs Ep) Hp). reflexivity.
  Qed.

  Lemma view_same p : load_entity G0 f' (U u) (Some k) p = Ok (Some (rec_of s false t p)).
  Proof.
    rewrite (P_view s Hwf x f' Htop Hnode t Hin). rewrite Htopk, Hflat.
    unfold fa_tail. rewrite pgs_same.
    destruct (type_spec s Hwf t Hin) as [ts Ets].
    assert (E1 : addr_eqb a ea && link_hits x KType = false).
    { apply (ea_clean_link x t KType Hclean). intros ck. destruct ck; discriminate. }
    rewrite (sub_type s Hwf x f' Hnode t Hin ts Ets E1 Hta). cbn [type_node n_attrs].
    rewrite (sub_cmap s x f' Hnode t ts Ets Hta Hcm), (sub_vmap s x f' Hnode t ts Ets Hta).
    rewrite (en_attrs x t Hclean).
    destruct (ent_ok_parts s Hwf t Hin) as [Hid [_ [_ [_ [_ [_ [_ Hty]]]]]]].
    unfold create_entity. unfold uid_of_attrs. rewrite Hid.
    unfold rec_of. rewrite Ets. cbn [option_map]. unfold tview_of.
    unfold type_ok in Hty. rewrite Ets in Hty.
    unfold type_id. cbn [tv_attrs].
    pose proof (dsets_same s Hwf x f' Htop Hnode t Hin Htopk Hflat Hclean) as Hds.
    destruct k eqn:Ek; cbn [rkind_of ekind_of] in *.
    - unfold has_key in Hty. destruct (lookup KID (ts_attrs ts)); [|discriminate]. rewrite Hds. reflexivity.
    - destruct (lookup KID (ts_attrs ts)) as [[n|c|n]|]; try discriminate.
      destruct (class_name_first c object_classes) as [b|]; [|discriminate]. rewrite Hty. rewrite Hds. reflexivity.
    - rewrite Hty. rewrite Hds. reflexivity.
  Qed.
End DelView3.

(* ------------------------------------------------------------------ what an item describes, seen from one entity *)
Section Described.
  Variable s : fspec.
  Hypothesis Hwf : wf s.
  Variable t : etree.
  Hypothesis Hin : In t (subtrees (fs_root s)).

  Local Notation k := (et_kind t).
  Local Notation u := (et_uid t).
  Local Notation ea := (ent_addr (et_kind t) (et_uid t)).
  Local Notation ta := (type_addr (et_kind t) (et_ty t)).

  Lemma self_uid : In u (uids t).
  Proof. rewrite uids_unfold. left. reflexivity. Qed.
  Lemma uid_in_root : In u (uids (fs_root s)).
  Proof. unfold uids. apply in_map. exact Hin. Qed.
  Lemma uids_in_root : incl (uids t) (uids (fs_root s)).
  Proof. intros v Hv. unfold uids in *. apply in_map_iff in Hv. destruct Hv as [c [E Hc]]. subst. apply in_map. eapply subtrees_trans'; eassumption. Qed.

  Lemma db_top : In u (described_by s (ILink [] (flat_key k))).
  Proof.
    unfold described_by. cbn [item_addr].
    assert (Hs : In u (of_kind_subtrees s k)).
    { unfold of_kind_subtrees. apply in_flat_map. exists t. split; [|exact self_uid]. apply filter_In. split; [exact Hin | apply ekind_eqb_refl]. }
    destruct k; cbn [flat_key kind_of_flat]; [exact uid_in_root | exact Hs | exact Hs].
  Qed.
  Lemma db_flat : described_by s (ILink [flat_key k] (KU u)) = uids t.
  Proof.
    pose proof (find_ent_in s Hwf t Hin) as Hf. unfold described_by. cbn [item_addr].
    destruct k eqn:Ek; cbn [flat_key kind_of_flat]; rewrite Hf; reflexivity.
  Qed.
  Lemma ent_at_self : ent_at s (flat_key k) u = Some t.
  Proof. pose proof (find_ent_in s Hwf t Hin) as Hf. unfold ent_at. destruct k eqn:Ek; cbn [flat_key kind_of_flat]; exact Hf. Qed.

  Lemma db_ea_shape x : item_addr x = ea ->
    described_by s x =
    match x with
    | IAttr _ KID => uids t
    | IAttr _ _ => [u]
    | ILink _ KType => uids t
    | ILink _ lk => match kind_of_flat lk, lookup lk (et_dsets t) with
                    | Some ck, None => flat_map uids (kids_of_kind t ck)
                    | _, _ => [u]
                    end
    end.
  Proof.
    intros E. unfold described_by. rewrite E. pose proof ent_at_self as He.
    unfold ent_addr. destruct k eqn:Ek; cbn [flat_key] in *; rewrite He; reflexivity.
  Qed.
  Lemma db_ea_attr a0 k0 : a0 = ea -> In u (described_by s (IAttr a0 k0)).
  Proof. intros E. rewrite (db_ea_shape (IAttr a0 k0) E). destruct k0; try (left; reflexivity). exact self_uid. Qed.
  Lemma db_ea_id a0 : a0 = ea -> described_by s (IAttr a0 KID) = uids t.
  Proof. intros E. rewrite (db_ea_shape (IAttr a0 KID) E). reflexivity. Qed.

  Lemma db_type x : item_addr x = ta -> In u (described_by s x).
  Proof.
    intros E. unfold described_by. rewrite E. unfold type_addr. cbn.
    unfold users. apply in_map_iff. exists t. split; [reflexivity|]. apply filter_In. split; [exact Hin|].
    rewrite ekind_eqb_refl, N.eqb_refl. reflexivity.
  Qed.
  Lemma db_cmap x : item_addr x = ta ++ [KCmap] -> In u (described_by s x).
  Proof.
    intros E. unfold described_by. rewrite E. unfold type_addr. cbn.
    unfold users. apply in_map_iff. exists t. split; [reflexivity|]. apply filter_In. split; [exact Hin|].
    rewrite ekind_eqb_refl, N.eqb_refl. reflexivity.
  Qed.
  Lemma db_pgs x : item_addr x = ea ++ [KPGs] -> In u (described_by s x).
  Proof.
    intros E. unfold described_by. rewrite E. pose proof ent_at_self as He.
    unfold ent_addr. destruct k eqn:Ek; cbn [flat_key app] in *; rewrite He; destruct x as [a0 k0|a0 [| | | | | | | | | | | | | |n|n0]]; cbn; left; reflexivity.
  Qed.
  Lemma db_pg x pk : item_addr x = ea ++ [KPGs; pk] -> In u (described_by s x).
  Proof.
    intros E. unfold described_by. rewrite E. pose proof ent_at_self as He.
    unfold ent_addr. destruct k eqn:Ek; cbn [flat_key app] in *; rewrite He; left; reflexivity.
  Qed.
End Described.

Lemma link_hits_true x kk : link_hits x kk = true -> exists a0, x = ILink a0 kk.
Proof. destruct x as [a0 k0|a0 k0]; simpl; [discriminate|]. intros E. apply key_eqb_eq in E. subst. exists a0. reflexivity. Qed.
Lemma kind_of_flat_some kk ck : kind_of_flat kk = Some ck -> kk = flat_key ck.
Proof. destruct kk; simpl; intros E; inversion E; reflexivity. Qed.
Lemma kind_of_flat_flat ck : kind_of_flat (flat_key ck) = Some ck.
Proof. destruct ck; reflexivity. Qed.

Section DescribedCont.
  Variable s : fspec.
  Hypothesis Hwf : wf s.
  Variable t : etree.
  Hypothesis Hin : In t (subtrees (fs_root s)).
  Local Notation k := (et_kind t).
  Local Notation u := (et_uid t).
  Local Notation ea := (ent_addr (et_kind t) (et_uid t)).

  Lemma db_cont_entry a0 ck v : a0 = ea ++ [flat_key ck] ->
    described_by s (ILink a0 (KU v)) = flat_map uids (filter (fun c => N.eqb (et_uid c) v) (kids_of_kind t ck)).
  Proof.
    intros E. unfold described_by. cbn [item_addr]. rewrite E. pose proof (ent_at_self s Hwf t Hin) as He.
    unfold ent_addr. destruct k eqn:Ek; cbn [flat_key app] in *; destruct ck; cbn [flat_key]; rewrite He; reflexivity.
  Qed.

  Lemma kid_in_kind c : In c (et_kids t) -> In c (kids_of_kind t (et_kind c)).
  Proof. intros H. unfold kids_of_kind. apply filter_In. split; [exact H | apply ekind_eqb_refl]. Qed.
  Lemma kid_subtree c : In c (et_kids t) -> In c (subtrees (fs_root s)).
  Proof. intros H. apply (subtrees_trans' _ t c); [exact Hin|]. eapply subtrees_kids; [exact H | apply subtrees_self]. Qed.
  Lemma kid_uids_incl c : In c (et_kids t) -> incl (uids c) (uids t).
  Proof. intros H v Hv. eapply in_uids_kid; eassumption. Qed.
  Lemma has_kid_not_data c : In c (et_kids t) -> k <> KData.
  Proof. intros H E. destruct (ent_ok_parts s Hwf t Hin) as [_ [_ [Hd _]]]. destruct (Hd E) as [Hk _]. rewrite Hk in H. contradiction. Qed.
End DescribedCont.

(* ------------------------------------------------------------------ the hypotheses of the core induction, for one deletion *)
Section DelLocal.
  Variable s : fspec.
  Hypothesis Hwf : wf s.
  Variable x : item.
  Variable f' : h5.
  Hypothesis Htop : top f' = [].
  Hypothesis Hnode : forall b, node_at f' b =
     if addr_eqb (item_addr x) b then option_map (del_in_node x) (layout_at s b) else layout_at s b.
  Variable t : etree.
  Hypothesis Hin : In t (subtrees (fs_root s)).

  Local Notation a := (item_addr x).
  Local Notation k := (et_kind t).
  Local Notation u := (et_uid t).
  Local Notation ea := (ent_addr (et_kind t) (et_uid t)).
  Local Notation ta := (type_addr (et_kind t) (et_ty t)).
  Local Notation en' := (if addr_eqb (item_addr x) (ent_addr (et_kind t) (et_uid t)) then del_in_node x (ent_node t) else ent_node t).
  Local Notation A := (described_by s x).

  Lemma frame_top : ~ In u A -> addr_eqb a [] && link_hits x (flat_key k) = false.
  Proof.
    intros Hu. destruct (addr_eqb a [] && link_hits x (flat_key k)) eqn:E; [|reflexivity]. exfalso. apply Hu.
    apply andb_true_iff in E. destruct E as [E1 E2]. apply addr_eqb_eq in E1. destruct (link_hits_true _ _ E2) as [a0 Ex].
    subst x. cbn [item_addr] in E1. subst a0. apply (db_top s t Hin).
  Qed.
  Lemma frame_flat : ~ In u A -> addr_eqb a [flat_key k] && link_hits x (KU u) = false.
  Proof.
    intros Hu. destruct (addr_eqb a [flat_key k] && link_hits x (KU u)) eqn:E; [|reflexivity]. exfalso. apply Hu.
    apply andb_true_iff in E. destruct E as [E1 E2]. apply addr_eqb_eq in E1. destruct (link_hits_true _ _ E2) as [a0 Ex].
    subst x. cbn [item_addr] in E1. subst a0. rewrite (db_flat s Hwf t Hin). apply self_uid.
  Qed.
  Lemma frame_ea : ~ In u A -> ea_clean x t.
  Proof.
    intros Hu. unfold ea_clean. destruct (addr_eqb a ea) eqn:E; [|left; reflexivity]. right.
    apply addr_eqb_eq in E. rewrite (db_ea_shape s Hwf t Hin x E) in Hu.
    destruct x as [a0 k0|a0 k0].
    - exfalso. apply Hu. destruct k0; try (left; reflexivity). apply self_uid.
    - destruct (kind_of_flat k0) as [ck|] eqn:Ek.
      + pose proof (kind_of_flat_some _ _ Ek) as E0. subst k0.
        destruct (lookup (flat_key ck) (et_dsets t)) eqn:El.
        * exfalso. apply Hu. destruct ck; cbn [flat_key kind_of_flat]; left; reflexivity.
        * exists a0, ck. split; [reflexivity | exact El].
      + exfalso. apply Hu. destruct k0; try discriminate; try (left; reflexivity). apply self_uid.
  Qed.
  Lemma frame_addr b : (forall y, item_addr y = b -> In u (described_by s y)) -> ~ In u A -> addr_eqb a b = false.
  Proof.
    intros H Hu. destruct (addr_eqb a b) eqn:E; [|reflexivity]. exfalso. apply Hu. apply H. apply addr_eqb_eq. exact E.
  Qed.

  Lemma local_unchanged p : ~ In u A -> load_entity G0 f' (U u) (Some k) p = Ok (Some (rec_of s false t p)).
  Proof.
    intros Hu. apply (view_same s Hwf x f' Htop Hnode t Hin).
    - apply frame_top. exact Hu.
    - apply frame_flat. exact Hu.
    - apply frame_ea. exact Hu.
    - apply frame_addr; [apply (db_type s t Hin) | exact Hu].
    - apply frame_addr; [apply (db_cmap s t Hin) | exact Hu].
    - apply frame_addr; [apply (db_pgs s Hwf t Hin) | exact Hu].
    - intros pk. apply frame_addr; [intros y; apply (db_pg s Hwf t Hin) | exact Hu].
  Qed.
End DelLocal.

Lemma create_container_not_none f g rk ea attrs tv pgs p :
  (rk = RGroup \/ (rk = RObject /\ (type_id tv = None \/ exists c b, type_id tv = Some (VStr c) /\ class_name_first c object_classes = Some b))) ->
  create_entity f g rk ea attrs tv pgs p <> Ok None.
Proof.
  intros [E|[E H]]; subst rk; unfold create_entity.
  - destruct (type_id tv); discriminate.
  - destruct H as [H|[c [b [H1 H2]]]].
    + rewrite H. discriminate.
    + rewrite H1, H2. destruct (b || has_key KName attrs); discriminate.
Qed.

Section DelLocal2.
  Variable s : fspec.
  Hypothesis Hwf : wf s.
  Variable x : item.
  Variable f' : h5.
  Hypothesis Htop : top f' = [].
  Hypothesis Hnode : forall b, node_at f' b =
     if addr_eqb (item_addr x) b then option_map (del_in_node x) (layout_at s b) else layout_at s b.
  Variable t : etree.
  Hypothesis Hin : In t (subtrees (fs_root s)).

  Local Notation a := (item_addr x).
  Local Notation k := (et_kind t).
  Local Notation u := (et_uid t).
  Local Notation ea := (ent_addr (et_kind t) (et_uid t)).
  Local Notation ta := (type_addr (et_kind t) (et_ty t)).
  Local Notation en' := (if addr_eqb (item_addr x) (ent_addr (et_kind t) (et_uid t)) then del_in_node x (ent_node t) else ent_node t).
  Local Notation A := (described_by s x).
  Local Notation hit_top := (addr_eqb (item_addr x) [] && link_hits x (flat_key (et_kind t))).
  Local Notation hit_flat := (addr_eqb (item_addr x) [flat_key (et_kind t)] && link_hits x (KU (et_uid t))).

  Lemma uid_en' : uid_of_attrs ea (n_attrs en') = U u \/ (uid_of_attrs ea (n_attrs en') = Fresh ea /\ x = IAttr ea KID).
  Proof.
    destruct (ent_ok_parts s Hwf t Hin) as [Hid _]. unfold uid_of_attrs.
    assert (Hn : n_attrs (ent_node t) = et_attrs t) by reflexivity.
    destruct (addr_eqb a ea) eqn:E; [|rewrite Hn, Hid; left; reflexivity].
    rewrite del_attrs, Hn. destruct x as [a0 k0|a0 k0]; [|rewrite Hid; left; reflexivity].
    destruct (key_eqb k0 KID) eqn:Ek.
    - apply key_eqb_eq in Ek. subst k0. rewrite lookup_remove_same. right. split; [reflexivity|].
      apply addr_eqb_eq in E. cbn [item_addr] in E. subst a0. reflexivity.
    - rewrite lookup_remove_other by (apply key_eqb_neq; exact Ek). rewrite Hid. left. reflexivity.
  Qed.

  Lemma view_some_uid p r : load_entity G0 f' (U u) (Some k) p = Ok (Some r) -> r_uid r = uid_of_attrs ea (n_attrs en').
  Proof.
    rewrite (P_view s Hwf x f' Htop Hnode t Hin). destruct hit_top; [discriminate|]. destruct hit_flat; [discriminate|].
    unfold fa_tail. apply create_entity_uid.
  Qed.

  (* the Type link of the entity, whatever was deleted *)
  Lemma type_id_cases ts : lookupN (et_ty t) (fs_types s k) = Some ts ->
    match sub f' ea KType with
    | None => True
    | Some (_, tn') => lookup KID (n_attrs tn') = lookup KID (ts_attrs ts) \/ lookup KID (n_attrs tn') = None
    end.
  Proof.
    intros Ets. unfold sub. rewrite (D_getlink s x f' Hnode), (ent_layout s Hwf t Hin).
    destruct (addr_eqb a ea && link_hits x KType); [exact I|].
    unfold ent_node. cbn [n_links lookup key_eqb]. rewrite Hnode, (type_layout s t ts Ets).
    destruct (addr_eqb a ta); cbn [option_map].
    - rewrite del_attrs. destruct x as [a0 k0|a0 k0]; [|left; reflexivity]. cbn [type_node n_attrs].
      destruct (key_eqb k0 KID) eqn:Ek.
      + apply key_eqb_eq in Ek. subst. right. apply lookup_remove_same.
      + left. apply lookup_remove_other. apply key_eqb_neq. exact Ek.
    - left. reflexivity.
  Qed.

  Lemma container_not_none p : k <> KData -> hit_top = false -> hit_flat = false -> load_entity G0 f' (U u) (Some k) p <> Ok None.
  Proof.
    intros Hk H1 H2. rewrite (P_view s Hwf x f' Htop Hnode t Hin), H1, H2. unfold fa_tail.
    destruct (type_spec s Hwf t Hin) as [ts Ets]. pose proof (type_id_cases ts Ets) as Hc.
    destruct (ent_ok_parts s Hwf t Hin) as [_ [_ [_ [_ [_ [_ [_ Hty]]]]]]]. unfold type_ok in Hty. rewrite Ets in Hty.
    apply create_container_not_none.
    destruct k eqn:Ek; [left; reflexivity | right; split; [reflexivity|] | congruence].
    unfold type_id. destruct (sub f' (ent_addr KObject u) KType) as [[ta' tn']|]; [|left; reflexivity]. cbn [tv_attrs].
    destruct Hc as [Hc|Hc]; rewrite Hc; [|left; reflexivity].
    destruct (lookup KID (ts_attrs ts)) as [[n|c|n]|]; try discriminate.
    destruct (class_name_first c object_classes) as [b|] eqn:Ec; [|discriminate].
    right. exists c, b. split; [reflexivity | exact Ec].
  Qed.

  Lemma local_ok_del : local_ok s f' A t.
  Proof.
    intros p. unfold view.
    destruct (in_dec N.eq_dec u A) as [HinA|Hout]; [|left; apply (local_unchanged s Hwf x f' Htop Hnode t Hin p Hout)].
    right. destruct (load_entity G0 f' (U u) (Some k) p) as [[r|]|e] eqn:Ev.
    - (* made *)
      right. right. pose proof (view_some_uid p r Ev) as Hr.
      destruct uid_en' as [Hu|[Hu Hx]]; rewrite Hu in Hr.
      + left. exists r. split; [reflexivity|]. split; assumption.
      + right. exists r, ea. split; [reflexivity|]. split; [exact Hr|].
        rewrite Hx. rewrite (db_ea_id s Hwf t Hin ea eq_refl). apply incl_refl.
    - (* left out *)
      right. left. split; [reflexivity|].
      destruct hit_top eqn:H1; [rewrite (P_view s Hwf x f' Htop Hnode t Hin), H1 in Ev; discriminate|].
      destruct hit_flat eqn:H2.
      + apply andb_true_iff in H2. destruct H2 as [E1 E2]. apply addr_eqb_eq in E1. destruct (link_hits_true _ _ E2) as [a0 Ex].
        rewrite Ex in E1 |- *. cbn [item_addr] in E1. subst a0. rewrite (db_flat s Hwf t Hin). apply incl_refl.
      + destruct (ent_ok_parts s Hwf t Hin) as [_ [_ [Hd _]]].
        assert (Hdec : k = KData \/ k <> KData) by (destruct k; [right; discriminate | right; discriminate | left; reflexivity]).
        destruct Hdec as [Ek|Ek].
        * destruct (Hd Ek) as [Hk _]. rewrite uids_unfold, Hk. simpl. intros v [E|[]]. subst. exact HinA.
        * exfalso. revert Ev. apply container_not_none; assumption.
    - left. exists e. split; [reflexivity|]. eapply load_entity_err. exact Ev.
  Qed.
End DelLocal2.

Section DelLocal3.
  Variable s : fspec.
  Hypothesis Hwf : wf s.
  Variable x : item.
  Variable f' : h5.
  Hypothesis Htop : top f' = [].
  Hypothesis Hnode : forall b, node_at f' b =
     if addr_eqb (item_addr x) b then option_map (del_in_node x) (layout_at s b) else layout_at s b.
  Variable t : etree.
  Hypothesis Hin : In t (subtrees (fs_root s)).

  Local Notation a := (item_addr x).
  Local Notation k := (et_kind t).
  Local Notation u := (et_uid t).
  Local Notation ea := (ent_addr (et_kind t) (et_uid t)).
  Local Notation A := (described_by s x).

  Lemma dropped_kid c : In c (et_kids t) -> keep_of x t (key_of c) = false -> incl (uids c) A.
  Proof.
    intros Hc Hk. unfold keep_of, key_of in Hk. cbn [fst snd] in Hk.
    pose proof (kid_uids_incl t c Hc) as Hsub.
    destruct (addr_eqb a [] && link_hits x (flat_key k)) eqn:E1.
    { (* the flat container of this kind *)
      apply andb_true_iff in E1. destruct E1 as [E1 E2]. apply addr_eqb_eq in E1. destruct (link_hits_true _ _ E2) as [a0 Ex].
      rewrite Ex in E1 |- *. cbn [item_addr] in E1. subst a0. unfold described_by. cbn [item_addr]. rewrite kind_of_flat_flat.
      assert (Hs : incl (uids c) (of_kind_subtrees s k)).
      { intros v Hv. unfold of_kind_subtrees. apply in_flat_map. exists t. split; [|apply Hsub; exact Hv].
        apply filter_In. split; [exact Hin | apply ekind_eqb_refl]. }
      destruct k; [|exact Hs|exact Hs].
      intros v Hv. apply (uids_in_root s t Hin). apply Hsub. exact Hv. }
    destruct (addr_eqb a [flat_key k] && link_hits x (KU u)) eqn:E2.
    { apply andb_true_iff in E2. destruct E2 as [E2 E3]. apply addr_eqb_eq in E2. destruct (link_hits_true _ _ E3) as [a0 Ex].
      rewrite Ex in E2 |- *. cbn [item_addr] in E2. subst a0. rewrite (db_flat s Hwf t Hin). exact Hsub. }
    cbn [negb andb] in Hk.
    destruct (cont_removed x t (et_kind c)) eqn:E3.
    { (* the child container *)
      unfold cont_removed in E3. apply andb_true_iff in E3. destruct E3 as [E3 E4]. apply addr_eqb_eq in E3.
      destruct (link_hits_true _ _ E4) as [a0 Ex]. rewrite (db_ea_shape s Hwf t Hin x E3). rewrite Ex.
      rewrite kind_of_flat_flat, (dsets_no_flat s Hwf t Hin (et_kind c) (has_kid_not_data s Hwf t Hin c Hc)).
      assert (Hs : incl (uids c) (flat_map uids (kids_of_kind t (et_kind c)))).
      { intros v Hv. apply in_flat_map. exists c. split; [apply kid_in_kind; exact Hc | exact Hv]. }
      destruct (et_kind c); exact Hs. }
    cbn [negb andb] in Hk.
    destruct (entry_removed x t (et_kind c) (et_uid c)) eqn:E4; [|discriminate].
    unfold entry_removed in E4. apply andb_true_iff in E4. destruct E4 as [E4 E5]. apply addr_eqb_eq in E4.
    destruct (link_hits_true _ _ E5) as [a0 Ex]. rewrite Ex in E4 |- *. cbn [item_addr] in E4.
    rewrite (db_cont_entry s Hwf t Hin a0 (et_kind c) (et_uid c) E4).
    intros v Hv. apply in_flat_map. exists c. split; [|exact Hv]. apply filter_In. split; [apply kid_in_kind; exact Hc | apply N.eqb_refl].
  Qed.

  Lemma list_ok_del : list_ok f' A t.
  Proof.
    exists (keep_of x t). split; [apply (P_list2 s Hwf x f' Htop Hnode t Hin) | exact dropped_kid].
  Qed.
End DelLocal3.

(* ------------------------------------------------------------------ the root, read through the Root link *)
Lemma fetch_attributes_root f uu :
  fetch_attributes G0 f uu None =
  match sub f (top f) KRoot with None => Ok None | Some (ea, en) => Ok (fa_tail f uu ea en) end.
Proof.
  unfold fetch_attributes, fa_tail. simpl. rewrite glookup_ok_absorb by reflexivity. simpl.
  destruct (sub f (top f) KRoot) as [[ea en]|]; simpl; [|reflexivity].
  rewrite !glookup_ok_absorb by reflexivity. simpl.
  destruct (sub f ea KType) as [[ta tn]|]; simpl.
  - rewrite fetch_type_attributes_G0. simpl.
    destruct (get_link f ea KPGs); simpl; [rewrite fetch_property_groups_G0|]; reflexivity.
  - destruct (get_link f ea KPGs); simpl; [rewrite fetch_property_groups_G0|]; reflexivity.
Qed.
Lemma load_root_G0 f uu :
  load_entity G0 f uu None None =
  match sub f (top f) KRoot with
  | None => Ok None
  | Some (ea, en) => match fa_tail f uu ea en with
                     | Some (ea', attrs, tv, pgs) => create_entity f G0 RRoot ea' attrs tv pgs None
                     | None => Ok None
                     end
  end.
Proof. unfold load_entity. rewrite fetch_attributes_root. destruct (sub f (top f) KRoot) as [[ea en]|]; reflexivity. Qed.

Section DelRoot.
  Variable s : fspec.
  Hypothesis Hwf : wf s.
  Variable x : item.
  Variable f' : h5.
  Hypothesis Htop : top f' = [].
  Hypothesis Hnode : forall b, node_at f' b =
     if addr_eqb (item_addr x) b then option_map (del_in_node x) (layout_at s b) else layout_at s b.
  Hypothesis Hnotroot : is_root_link x = false.

  Local Notation root := (fs_root s).
  Local Notation a := (item_addr x).
  Local Notation ru := (et_uid (fs_root s)).
  Local Notation ra := (ent_addr (et_kind (fs_root s)) (et_uid (fs_root s))).
  Local Notation rn' := (if addr_eqb (item_addr x) (ent_addr (et_kind (fs_root s)) (et_uid (fs_root s)))
                         then del_in_node x (ent_node (fs_root s)) else ent_node (fs_root s)).
  Local Notation A := (described_by s x).

  Lemma root_in : In root (subtrees root).
  Proof. apply subtrees_self. Qed.

  Lemma sub_root : sub f' [] KRoot = Some (ra, rn').
  Proof.
    unfold sub. rewrite (D_getlink s x f' Hnode). cbn [layout_at].
    assert (E : addr_eqb a [] && link_hits x KRoot = false).
    { destruct x as [a0 k0|a0 k0]; cbn [link_hits]; [apply andb_false_r|].
      destruct (addr_eqb (item_addr (ILink a0 k0)) []) eqn:Ea; [|reflexivity]. apply addr_eqb_eq in Ea. cbn [item_addr] in Ea. subst a0.
      cbn [andb]. destruct k0; try reflexivity. discriminate Hnotroot. }
    rewrite E. cbn [top_node n_links lookup key_eqb].
    rewrite (wf_root_kind s Hwf). rewrite Hnode.
    pose proof (ent_layout s Hwf root root_in) as Hl. rewrite (wf_root_kind s Hwf) in Hl. rewrite Hl.
    destruct (addr_eqb a (ent_addr KGroup ru)); reflexivity.
  Qed.

  Lemma root_view :
    exists r, load_entity G0 f' (Fresh [KRoot; KRoot]) None None = Ok (Some r)
              /\ (r_uid r = U ru \/ (exists b, r_uid r = Fresh b) /\ incl (uids root) A)
              /\ (~ In ru A -> r = rec_of s true root None).
  Proof.
    rewrite load_root_G0, Htop, sub_root. unfold fa_tail. unfold create_entity.
    eexists. split; [reflexivity|]. cbn [r_uid]. split.
    - destruct (uid_en' s Hwf x f' Hnode root root_in) as [Hu|[Hu Hx]]; rewrite Hu.
      + left. reflexivity.
      + right. split; [eexists; reflexivity|]. rewrite Hx. rewrite (db_ea_id s Hwf root root_in _ eq_refl). apply incl_refl.
    - intros Hu.
      pose proof (frame_top s x f' Hnode root root_in Hu) as H1. pose proof (frame_flat s Hwf x f' Hnode root root_in Hu) as H2.
      pose proof (frame_ea s Hwf x f' Hnode root root_in Hu) as H3.
      assert (H4 : addr_eqb a (type_addr (et_kind root) (et_ty root)) = false)
        by (apply (frame_addr s x root); [apply (db_type s root root_in) | exact Hu]).
      assert (H5 : addr_eqb a (type_addr (et_kind root) (et_ty root) ++ [KCmap]) = false)
        by (apply (frame_addr s x root); [apply (db_cmap s root root_in) | exact Hu]).
      destruct (type_spec s Hwf root root_in) as [ts Ets].
      assert (E1 : addr_eqb a ra && link_hits x KType = false).
      { apply (ea_clean_link x root KType H3). intros ck. destruct ck; discriminate. }
      rewrite (sub_type s Hwf x f' Hnode root root_in ts Ets E1 H4). cbn [type_node n_attrs].
      rewrite (sub_cmap s x f' Hnode root ts Ets H4 H5), (sub_vmap s x f' Hnode root ts Ets H4).
      rewrite (en_attrs x root H3).
      destruct (ent_ok_parts s Hwf root root_in) as [Hid [_ [_ [Hpg _]]]].
      unfold uid_of_attrs. rewrite Hid.
      pose proof (dsets_same s Hwf x f' Htop Hnode root root_in H1 H2 H3) as Hds.
      rewrite (wf_root_kind s Hwf) in Hds. cbn [ekind_of]. rewrite Hds.
      unfold rec_of. rewrite Ets. cbn [option_map]. unfold tview_of.
      rewrite (wf_root_kind s Hwf). reflexivity.
  Qed.
End DelRoot.

Lemma NoDup_flat_map_in {X Y} (g : X -> list Y) l c : NoDup (flat_map g l) -> In c l -> NoDup (g c).
Proof.
  induction l as [|y r IH]; simpl; intros Hnd Hc; [contradiction|].
  destruct Hc as [Hc|Hc]; [subst; eapply NoDup_app_l; exact Hnd | apply IH; [eapply NoDup_app_r; exact Hnd | exact Hc]].
Qed.

Lemma find_flat_map_none s kids pu v :
  ~ In v (flat_map uids kids) -> find_rec (U v) (flat_map (fun c => flat_recs s c pu) kids) = None.
Proof.
  induction kids as [|c r IH]; simpl; intros H; [reflexivity|]. rewrite find_rec_app.
  rewrite (find_flat_recs_none s c pu v) by (intros Hc; apply H; apply in_or_app; left; exact Hc).
  apply IH. intros Hc. apply H. apply in_or_app. right. exact Hc.
Qed.

(* ------------------------------------------------------------------ the whole file after one deletion *)
Section Main.
  Variable s : fspec.
  Variable nested : bool.
  Hypothesis Hwf : wf s.
  Variable x : item.
  Hypothesis Hnotroot : is_root_link x = false.
  Variable fuel : nat.
  Hypothesis Hfuel : depth (fs_root s) <= fuel.

  Local Notation root := (fs_root s).
  Local Notation ru := (et_uid (fs_root s)).
  Local Notation f' := (delete_item (layout s) x).
  Local Notation A := (described_by s x).

  Lemma Hnode_del : forall b, node_at f' b =
     if addr_eqb (item_addr x) b then option_map (del_in_node x) (layout_at s b) else layout_at s b.
  Proof. reflexivity. Qed.

  Lemma scope_closed t c : In t (subtrees root) -> In c (et_kids t) -> In c (subtrees root).
  Proof. intros Ht Hc. apply (kid_subtree s t Ht c Hc). Qed.

  Lemma kid_loads c p reg : In c (et_kids root) -> (forall v, In v (uids c) -> ~ In (U v) reg) ->
    sub_ok s A c p reg (load_ent fuel G0 f' reg (key_of c) p).
  Proof.
    intros Hc Hreg.
    apply (core s f' A (fetch_children_fresh f') (subtrees root) scope_closed).
    - intros t Ht. apply (local_ok_del s Hwf x f' eq_refl Hnode_del t Ht).
    - intros t Ht. apply (list_ok_del s Hwf x f' eq_refl Hnode_del t Ht).
    - intros t Ht Ek. destruct (ent_ok_parts s Hwf t Ht) as [_ [_ [Hd _]]]. apply (Hd Ek).
    - assert (depth c < depth root) by (apply depth_kid; exact Hc). lia.
    - apply (kid_subtree s root (subtrees_self root) c Hc).
    - pose proof (wf_nodup s Hwf) as Hnd. rewrite uids_unfold in Hnd. inversion Hnd; subst.
      eapply NoDup_flat_map_in; eassumption.
    - exact Hreg.
  Qed.

  Theorem deletion_outcome :
    (exists e, load fuel G0 nested f' = Err e /\ e <> OutOfFuel)
    \/ (exists t, load fuel G0 nested f' = Ok t /\ agree_outside (negb (is_proj_attr x)) A t (abs s)).
  Proof.
    unfold load. cbn [top delete_item layout].
    assert (Htn : exists tn, node_at f' [] = Some tn /\ (is_proj_attr x = false -> n_attrs tn = fs_proj s)).
    { rewrite Hnode_del. cbn [layout_at]. destruct (addr_eqb (item_addr x) []) eqn:Ea; cbn [option_map].
      - eexists. split; [reflexivity|]. intros Hp. rewrite del_attrs. destruct x as [a0 k0|a0 k0]; [|reflexivity].
        apply addr_eqb_eq in Ea. cbn [item_addr] in Ea. subst a0. discriminate Hp.
      - eexists. split; [reflexivity|]. reflexivity. }
    destruct Htn as [tn [Etn Hproj]]. cbn [node_at delete_item layout] in Etn |- *. rewrite Etn.
    destruct (root_view s Hwf x f' eq_refl Hnode_del Hnotroot) as [r [Ev [Huid Hsame]]].
    cbn [node_at delete_item layout top] in Ev. rewrite Ev. cbn [bind].
    pose proof (wf_nodup s Hwf) as Hnd. rewrite uids_unfold in Hnd. inversion Hnd as [|x0 l0 Hnotin Hndk]; subst.
    destruct Huid as [Huid|[[b Huid] HA]].
    - (* the root keeps its identifier *)
      rewrite Huid.
      destruct (list_ok_del s Hwf x f' eq_refl Hnode_del root (subtrees_self root)) as [keep [Hl Hdrop]].
      rewrite (wf_root_kind s Hwf) in Hl. cbn [node_at delete_item layout top] in Hl. rewrite Hl. cbn [bind].
      pose proof (kids_ok s f' A fuel root keep (U ru) Hdrop (fun c p reg Hc Hr => kid_loads c p reg Hc Hr)
                          (et_kids root) (incl_refl _) Hndk [U ru]) as K.
      assert (Hreg : forall v, In v (flat_map uids (et_kids root)) -> ~ In (U v) [U ru]).
      { intros v Hv [E|[]]. inversion E. subst. contradiction. }
      specialize (K Hreg). cbn [node_at delete_item layout top] in K.
      destruct (seq_load _ (filter keep (map key_of (et_kids root))) [U ru]) as [[sub reg']|e].
      + right. eexists. split; [reflexivity|]. destruct K as [Kf _]. split.
        * cbn [t_proj abs]. intros Hp. apply Hproj. destruct (is_proj_attr x); [discriminate | reflexivity].
        * intros v Hv. cbn [t_ents abs find_rec]. rewrite Huid. cbn [r_uid rec_of uid_eqb].
          destruct (N.eqb ru v) eqn:E.
          -- apply N.eqb_eq in E. subst v. rewrite (Hsame Hv). reflexivity.
          -- apply Kf. exact Hv.
      + left. exists e. split; [reflexivity | exact K].
    - (* the root got a new identifier: its children are not found *)
      rewrite Huid. rewrite fetch_children_fresh. cbn [bind seq_load].
      right. eexists. split; [reflexivity|]. split.
      + cbn [t_proj abs]. intros Hp. apply Hproj. destruct (is_proj_attr x); [discriminate | reflexivity].
      + intros v Hv. cbn [t_ents abs find_rec]. rewrite Huid. cbn [uid_eqb r_uid rec_of].
        assert (Hv' : ~ In v (uids root)) by (intros H; apply Hv; apply HA; exact H).
        rewrite uids_unfold in Hv'. destruct (N.eqb ru v) eqn:E.
        * apply N.eqb_eq in E. exfalso. apply Hv'. left. exact E.
        * symmetry. apply find_flat_map_none. intros H. apply Hv'. right. exact H.
  Qed.
End Main.

(* ------------------------------------------------------------------ no view raises => the load does not raise *)
Section CoreNoErr.
  Variable s : fspec.
  Variable f' : h5.
  Variable A : list N.
  Variable scope : list etree.
  Hypothesis scope_kids : forall t c, In t scope -> In c (et_kids t) -> In c scope.
  Hypothesis H_local : forall t, In t scope -> local_ok s f' A t.
  Hypothesis H_list : forall t, In t scope -> list_ok f' A t.
  Hypothesis H_noerr : forall t p e, In t scope -> view f' t p <> Err e.

  Lemma kids_noerr n t (keep : N * ekind -> bool) pu :
    (forall c p reg, In c (et_kids t) -> exists out, load_ent n G0 f' reg (key_of c) p = Ok out) ->
    forall cs, incl cs (et_kids t) -> forall reg,
    exists out, seq_load (fun reg' c' => load_ent n G0 f' reg' c' (Some pu)) (filter keep (map key_of cs)) reg = Ok out.
  Proof.
    intros Hk cs. induction cs as [|c r IH]; intros Hin reg.
    - simpl. eexists. reflexivity.
    - simpl. assert (Hr : incl r (et_kids t)) by (intros y Hy; apply Hin; right; exact Hy).
      destruct (keep (key_of c)); [|apply IH; exact Hr]. simpl.
      destruct (Hk c (Some pu) reg (Hin c (or_introl eq_refl))) as [[r1 reg1] E]. rewrite E.
      destruct (IH Hr reg1) as [[r2 reg2] E2]. rewrite E2. eexists. reflexivity.
  Qed.

  Lemma core_noerr : forall n t, depth t <= n -> In t scope -> forall p reg,
    exists out, load_ent n G0 f' reg (key_of t) p = Ok out.
  Proof.
    induction n as [|n IH]; intros t Hd Hs p reg.
    - destruct t; simpl in Hd; lia.
    - simpl. destruct (mem_uid (U (et_uid t)) reg); [eexists; reflexivity|].
      change (load_entity G0 f' (U (et_uid t)) (Some (et_kind t)) p) with (view f' t p).
      assert (Hkids : forall c p0 reg0, In c (et_kids t) -> exists out, load_ent n G0 f' reg0 (key_of c) p0 = Ok out).
      { intros c p0 reg0 Hc. apply IH; [|eapply scope_kids; eassumption].
        assert (depth c < depth t) by (apply depth_kid; exact Hc). lia. }
      destruct (H_list t Hs) as [keep [Hl _]].
      assert (Hsame : forall r, r_uid r = U (et_uid t) \/ (exists b, r_uid r = Fresh b) ->
                exists out, (if is_container (et_kind t)
                             then do kids <- fetch_children G0 f' (r_uid r) (et_kind t);
                                  match seq_load (fun reg' c' => load_ent n G0 f' reg' c' (Some (r_uid r))) kids (r_uid r :: reg) with
                                  | Err e => Err e
                                  | Ok (sub, reg') => Ok (r :: sub, reg')
                                  end
                             else Ok ([r], r_uid r :: reg)) = Ok out).
      { intros r Hr. destruct (is_container (et_kind t)); [|eexists; reflexivity].
        destruct Hr as [Hr|[b Hr]]; rewrite Hr.
        - rewrite Hl. simpl.
          destruct (kids_noerr n t keep (U (et_uid t)) Hkids (et_kids t) (incl_refl _) (U (et_uid t) :: reg)) as [[sub reg'] E].
          rewrite E. eexists. reflexivity.
        - rewrite fetch_children_fresh. simpl. eexists. reflexivity. }
      destruct (H_local t Hs p) as [Hv|[[e [Hv He]]|[[Hv HA]|[[r [Hv [Er HinA]]]|[r [b [Hv [Er HA]]]]]]]]; rewrite Hv; simpl.
      + apply (Hsame (rec_of s false t p)). left. reflexivity.
      + exfalso. exact (H_noerr t p e Hs Hv).
      + eexists. reflexivity.
      + apply (Hsame r). left. exact Er.
      + apply (Hsame r). right. exists b. exact Er.
  Qed.
End CoreNoErr.

(* ------------------------------------------------------------------ optional items: no view raises *)
Lemma create_entity_err_cases f g rk ea attrs tv pgs p e :
  create_entity f g rk ea attrs tv pgs p = Err e ->
  (rk = RGroup /\ type_id tv = None)
  \/ (rk = RObject /\ (type_id tv = None
                       \/ exists c, type_id tv = Some (VStr c) /\ class_name_first c object_classes = Some false /\ has_key KName attrs = false)).
Proof.
  unfold create_entity. destruct rk; try discriminate.
  - destruct (type_id tv); [discriminate|]. intros _. left. split; reflexivity.
  - intros H. right. split; [reflexivity|]. destruct (type_id tv) as [[n|c|n]|]; try discriminate; [|left; reflexivity].
    destruct (class_name_first c object_classes) as [b|] eqn:Ec; [|discriminate].
    destruct b; simpl in H; [discriminate|]. destruct (has_key KName attrs) eqn:En; [discriminate|].
    right. exists c. split; [reflexivity|]. split; [exact Ec | reflexivity].
  - destruct tv as [v|]; [|discriminate]. destruct (has_key KPrim (tv_attrs v)); discriminate.
Qed.

Lemma rkind_of_group k0 : rkind_of k0 = RGroup -> k0 = KGroup.
Proof. destruct k0; simpl; intros H; try discriminate; reflexivity. Qed.
Lemma rkind_of_object k0 : rkind_of k0 = RObject -> k0 = KObject.
Proof. destruct k0; simpl; intros H; try discriminate; reflexivity. Qed.

Section OptionalShapes.
  Variable s : fspec.
  Hypothesis Hwf : wf s.
  Variable t : etree.
  Hypothesis Hin : In t (subtrees (fs_root s)).
  Local Notation k := (et_kind t).
  Local Notation u := (et_uid t).
  Local Notation ea := (ent_addr (et_kind t) (et_uid t)).
  Local Notation ta := (type_addr (et_kind t) (et_ty t)).

  Lemma opt_top_flat a0 : a0 = [] -> optional s (ILink a0 (flat_key k)) = false.
  Proof. intros ->. unfold optional. cbn [item_addr]. destruct k; reflexivity. Qed.
  Lemma opt_ea_type a0 : a0 = ea -> optional s (ILink a0 KType) = false.
  Proof.
    intros ->. unfold optional. cbn [item_addr]. pose proof (ent_at_self s Hwf t Hin) as He.
    unfold ent_addr. destruct k eqn:Ek; cbn [flat_key] in *; rewrite He; reflexivity.
  Qed.
  Lemma opt_ea_name a0 : a0 = ea -> optional s (IAttr a0 KName) = false.
  Proof.
    intros ->. unfold optional. cbn [item_addr]. pose proof (ent_at_self s Hwf t Hin) as He.
    unfold ent_addr. destruct k eqn:Ek; cbn [flat_key] in *; rewrite He; reflexivity.
  Qed.
  Lemma opt_ta_id a0 : a0 = ta -> optional s (IAttr a0 KID) = false.
  Proof. intros ->. unfold optional. cbn [item_addr]. unfold type_addr. reflexivity. Qed.
End OptionalShapes.

Section DelNoErr.
  Variable s : fspec.
  Hypothesis Hwf : wf s.
  Variable x : item.
  Variable f' : h5.
  Hypothesis Htop : top f' = [].
  Hypothesis Hnode : forall b, node_at f' b =
     if addr_eqb (item_addr x) b then option_map (del_in_node x) (layout_at s b) else layout_at s b.
  Hypothesis Hopt : optional s x = true.
  Variable t : etree.
  Hypothesis Hin : In t (subtrees (fs_root s)).

  Local Notation a := (item_addr x).
  Local Notation k := (et_kind t).
  Local Notation u := (et_uid t).
  Local Notation ea := (ent_addr (et_kind t) (et_uid t)).
  Local Notation ta := (type_addr (et_kind t) (et_ty t)).
  Local Notation en' := (if addr_eqb (item_addr x) (ent_addr (et_kind t) (et_uid t)) then del_in_node x (ent_node t) else ent_node t).
  Local Notation tv' := (match sub f' (ent_addr (et_kind t) (et_uid t)) KType with
                         | Some (ta0, tn) => Some {| tv_attrs := n_attrs tn;
                                                     tv_cmap := option_map (fun p : addr * node => (n_attrs (snd p), n_data (snd p))) (sub f' ta0 KCmap);
                                                     tv_vmap := option_map (fun p : addr * node => n_data (snd p)) (sub f' ta0 KVmap) |}
                         | None => None
                         end).

  Lemma type_id_tv' ts : lookupN (et_ty t) (fs_types s k) = Some ts ->
    type_id tv' = lookup KID (ts_attrs ts) \/ type_id tv' = None.
  Proof.
    intros Ets. pose proof (type_id_cases s Hwf x f' Hnode t Hin ts Ets) as Hc. unfold type_id.
    destruct (sub f' ea KType) as [[ta0 tn]|]; [|right; reflexivity]. cbn [tv_attrs]. exact Hc.
  Qed.

  Lemma type_id_none_src ts v0 : lookupN (et_ty t) (fs_types s k) = Some ts -> lookup KID (ts_attrs ts) = Some v0 ->
    type_id tv' = None -> optional s x = false.
  Proof.
    intros Ets Hid. unfold type_id, sub. rewrite (D_getlink s x f' Hnode), (ent_layout s Hwf t Hin).
    destruct (addr_eqb a ea && link_hits x KType) eqn:E1.
    - intros _. apply andb_true_iff in E1. destruct E1 as [E1 E2]. apply addr_eqb_eq in E1. destruct (link_hits_true _ _ E2) as [a0 Ex].
      rewrite Ex in E1 |- *. cbn [item_addr] in E1. apply (opt_ea_type s Hwf t Hin a0 E1).
    - unfold ent_node. cbn [n_links lookup key_eqb]. rewrite Hnode, (type_layout s t ts Ets).
      destruct (addr_eqb a ta) eqn:E2; cbn [option_map tv_attrs type_node n_attrs].
      + rewrite del_attrs. destruct x as [a0 k0|a0 k0]; cbn [type_node n_attrs]; [|rewrite Hid; discriminate].
        destruct (key_eqb k0 KID) eqn:Ek.
        * intros _. apply key_eqb_eq in Ek. subst k0. apply addr_eqb_eq in E2. cbn [item_addr] in E2. apply (opt_ta_id s t a0 E2).
        * rewrite lookup_remove_other by (apply key_eqb_neq; exact Ek). rewrite Hid. discriminate.
      + rewrite Hid. discriminate.
  Qed.

  Lemma view_noerr p e : view f' t p <> Err e.
  Proof.
    unfold view. intros Ev. rewrite (P_view s Hwf x f' Htop Hnode t Hin) in Ev.
    destruct (addr_eqb a [] && link_hits x (flat_key k)) eqn:H1.
    { apply andb_true_iff in H1. destruct H1 as [E1 E2]. apply addr_eqb_eq in E1. destruct (link_hits_true _ _ E2) as [a0 Ex].
      rewrite Ex in E1, Hopt. cbn [item_addr] in E1. rewrite (opt_top_flat s t a0 E1) in Hopt. discriminate. }
    destruct (addr_eqb a [flat_key k] && link_hits x (KU u)); [discriminate|].
    unfold fa_tail in Ev. apply create_entity_err_cases in Ev.
    destruct (type_spec s Hwf t Hin) as [ts Ets].
    destruct (ent_ok_parts s Hwf t Hin) as [_ [_ [_ [_ [_ [_ [_ Hty]]]]]]]. unfold type_ok in Hty. rewrite Ets in Hty.
    destruct Ev as [[Erk Hn]|[Erk Hcase]].
    - apply rkind_of_group in Erk. rewrite Erk in Hty. unfold has_key in Hty.
      destruct (lookup KID (ts_attrs ts)) as [v0|] eqn:Hid; [|discriminate].
      rewrite (type_id_none_src ts v0 Ets Hid Hn) in Hopt. discriminate.
    - apply rkind_of_object in Erk. rewrite Erk in Hty.
      destruct (lookup KID (ts_attrs ts)) as [[n|c0|n]|] eqn:Hid; try discriminate.
      destruct Hcase as [Hn|[c [Hc [Hcls Hname]]]].
      + rewrite (type_id_none_src ts (VStr c0) Ets Hid Hn) in Hopt. discriminate.
      + destruct (type_id_tv' ts Ets) as [Hsame|Hnone]; [|rewrite Hnone in Hc; discriminate].
        rewrite Hsame, Hid in Hc. inversion Hc; subst c0. rewrite Hcls in Hty. cbn [orb] in Hty.
        (* the Name attribute was there and is gone *)
        destruct (addr_eqb a ea) eqn:E3.
        * rewrite del_attrs in Hname. destruct x as [a0 k0|a0 k0].
          -- destruct (key_eqb k0 KName) eqn:Ekn.
             ++ apply key_eqb_eq in Ekn. subst k0. apply addr_eqb_eq in E3. cbn [item_addr] in E3.
                rewrite (opt_ea_name s Hwf t Hin a0 E3) in Hopt. discriminate.
             ++ unfold has_key in Hname, Hty. cbn [ent_node n_attrs] in Hname.
                rewrite lookup_remove_other in Hname by (apply key_eqb_neq; exact Ekn).
                destruct (lookup KName (et_attrs t)); discriminate.
          -- cbn [ent_node n_attrs] in Hname. rewrite Hname in Hty. discriminate.
        * cbn [ent_node n_attrs] in Hname. rewrite Hname in Hty. discriminate.
  Qed.
End DelNoErr.

Section MainOptional.
  Variable s : fspec.
  Variable nested : bool.
  Hypothesis Hwf : wf s.
  Variable x : item.
  Hypothesis Hnotroot : is_root_link x = false.
  Hypothesis Hopt : optional s x = true.
  Variable fuel : nat.
  Hypothesis Hfuel : depth (fs_root s) <= fuel.

  Local Notation root := (fs_root s).
  Local Notation ru := (et_uid (fs_root s)).
  Local Notation f' := (delete_item (layout s) x).
  Local Notation A := (described_by s x).

  Lemma load_ok_optional : exists t, load fuel G0 nested f' = Ok t.
  Proof.
    unfold load. cbn [top delete_item layout].
    assert (Htn : exists tn, node_at f' [] = Some tn).
    { rewrite (Hnode_del s x). cbn [layout_at]. destruct (addr_eqb (item_addr x) []); eexists; reflexivity. }
    destruct Htn as [tn Etn]. cbn [node_at delete_item layout] in Etn |- *. rewrite Etn.
    destruct (root_view s Hwf x f' eq_refl (Hnode_del s x) Hnotroot) as [r [Ev [Huid _]]].
    cbn [node_at delete_item layout top] in Ev. rewrite Ev. cbn [bind].
    assert (Hkids : forall c p reg, In c (et_kids root) -> exists out, load_ent fuel G0 f' reg (key_of c) p = Ok out).
    { intros c p reg Hc.
      apply (core_noerr s f' A (subtrees root) (scope_closed s)).
      - intros t Ht. apply (local_ok_del s Hwf x f' eq_refl (Hnode_del s x) t Ht).
      - intros t Ht. apply (list_ok_del s Hwf x f' eq_refl (Hnode_del s x) t Ht).
      - intros t p0 e Ht. apply (view_noerr s Hwf x f' eq_refl (Hnode_del s x) Hopt t Ht).
      - assert (depth c < depth root) by (apply depth_kid; exact Hc). lia.
      - apply (kid_subtree s root (subtrees_self root) c Hc). }
    destruct Huid as [Huid|[[b Huid] _]]; rewrite Huid.
    - destruct (list_ok_del s Hwf x f' eq_refl (Hnode_del s x) root (subtrees_self root)) as [keep [Hl _]].
      rewrite (wf_root_kind s Hwf) in Hl. cbn [node_at delete_item layout top] in Hl. rewrite Hl. cbn [bind].
      destruct (kids_noerr f' fuel root keep (U ru) Hkids (et_kids root) (incl_refl _) [U ru]) as [[sub reg'] E].
      cbn [node_at delete_item layout top] in E. rewrite E. eexists. reflexivity.
    - rewrite fetch_children_fresh. cbn [bind seq_load]. eexists. reflexivity.
  Qed.

  Theorem optional_outcome :
    exists t, load fuel G0 nested f' = Ok t /\ agree_outside (negb (is_proj_attr x)) A t (abs s).
  Proof.
    destruct load_ok_optional as [t0 E0].
    destruct (deletion_outcome s nested Hwf x Hnotroot fuel Hfuel) as [[e [E _]]|[t [E H]]].
    - rewrite E in E0. discriminate.
    - exists t. split; assumption.
  Qed.
End MainOptional.

(* ------------------------------------------------------------------ from the extracted guards to the ones the proofs use *)
Lemma gkind_eqb_eq a b : gkind_eqb a b = true -> a = b.
Proof. destruct a, b; simpl; intros H; try discriminate; reflexivity. Qed.
Lemma guards_ok_eq g : guards_okb g = true -> g = G0.
Proof.
  destruct g. unfold guards_okb, G0. simpl. intros H.
  repeat (apply andb_true_iff in H; destruct H as [H ?]).
  repeat match goal with H0 : gkind_eqb _ _ = true |- _ => apply gkind_eqb_eq in H0 end.
  subst. reflexivity.
Qed.

(* ------------------------------------------------------------------ the intact file (the same induction, nothing deleted) *)
Section Intact.
  Variable s : fspec.
  Variable nested : bool.
  Hypothesis Hwf : wf s.
  Variable fuel : nat.
  Hypothesis Hfuel : depth (fs_root s) <= fuel.

  Local Notation root := (fs_root s).
  Local Notation ru := (et_uid (fs_root s)).
  Local Notation x0 := (IAttr [KConcat] KConcat).
  Local Notation f' := (layout s).

  Lemma Hnode_intact : forall b, node_at f' b =
     if addr_eqb (item_addr x0) b then option_map (del_in_node x0) (layout_at s b) else layout_at s b.
  Proof.
    intros b. cbn [node_at layout item_addr]. destruct (addr_eqb [KConcat] b) eqn:E; [|reflexivity].
    apply addr_eqb_eq in E. subst b. reflexivity.
  Qed.
  Lemma described_x0 : described_by s x0 = [].
  Proof. reflexivity. Qed.

  Lemma kid_loads_intact c p reg : In c (et_kids root) -> (forall v, In v (uids c) -> ~ In (U v) reg) ->
    sub_ok s [] c p reg (load_ent fuel G0 f' reg (key_of c) p).
  Proof.
    intros Hc Hreg.
    apply (core s f' [] (fetch_children_fresh f') (subtrees root) (scope_closed s)).
    - intros t Ht. apply (local_ok_del s Hwf x0 f' eq_refl Hnode_intact t Ht).
    - intros t Ht. apply (list_ok_del s Hwf x0 f' eq_refl Hnode_intact t Ht).
    - intros t Ht Ek. destruct (ent_ok_parts s Hwf t Ht) as [_ [_ [Hd _]]]. apply (Hd Ek).
    - assert (depth c < depth root) by (apply depth_kid; exact Hc). lia.
    - apply (kid_subtree s root (subtrees_self root) c Hc).
    - pose proof (wf_nodup s Hwf) as Hnd. rewrite uids_unfold in Hnd. inversion Hnd; subst.
      eapply NoDup_flat_map_in; eassumption.
    - exact Hreg.
  Qed.

  Theorem intact_reads_back :
    exists t, load fuel G0 nested f' = Ok t /\ t_proj t = fs_proj s /\ t_root t = U ru
              /\ forall v, find_rec (U v) (t_ents t) = find_rec (U v) (t_ents (abs s)).
  Proof.
    unfold load. cbn [top layout node_at layout_at].
    destruct (root_view s Hwf x0 f' eq_refl Hnode_intact eq_refl) as [r [Ev [_ Hsame]]].
    assert (Er : r = rec_of s true root None) by (apply Hsame; intros []).
    cbn [node_at layout top] in Ev. rewrite Ev. cbn [bind]. subst r. cbn [r_uid rec_of].
    pose proof (wf_nodup s Hwf) as Hnd. rewrite uids_unfold in Hnd. inversion Hnd as [|y0 l0 Hnotin Hndk]; subst.
    destruct (list_ok_del s Hwf x0 f' eq_refl Hnode_intact root (subtrees_self root)) as [keep [Hl Hdrop]].
    rewrite (wf_root_kind s Hwf) in Hl. rewrite Hl. cbn [bind].
    pose proof (kids_ok s f' [] fuel root keep (U ru) Hdrop (fun c p reg Hc Hr => kid_loads_intact c p reg Hc Hr)
                        (et_kids root) (incl_refl _) Hndk [U ru]) as K.
    assert (Hreg : forall v, In v (flat_map uids (et_kids root)) -> ~ In (U v) [U ru]).
    { intros v Hv [E|[]]. inversion E. subst. contradiction. }
    specialize (K Hreg).
    destruct (seq_load _ (filter keep (map key_of (et_kids root))) [U ru]) as [[sub reg']|e] eqn:Eseq.
    - eexists. split; [reflexivity|]. split; [reflexivity|]. split; [reflexivity|].
      destruct K as [Kf _]. intros v. cbn [t_ents abs find_rec r_uid rec_of uid_eqb].
      destruct (N.eqb ru v); [reflexivity|]. apply Kf. intros [].
    - exfalso. (* no view raises in the intact file *)
      assert (Hno : exists out, seq_load (fun reg0 c => load_ent fuel G0 f' reg0 c (Some (U ru))) (filter keep (map key_of (et_kids root))) [U ru] = Ok out).
      { apply (kids_noerr f' fuel root keep (U ru)); [|apply incl_refl].
        intros c p reg Hc.
        apply (core_noerr s f' [] (subtrees root) (scope_closed s)).
        - intros t Ht. apply (local_ok_del s Hwf x0 f' eq_refl Hnode_intact t Ht).
        - intros t Ht. apply (list_ok_del s Hwf x0 f' eq_refl Hnode_intact t Ht).
        - intros t p0 e0 Ht Hv. unfold view in Hv.
          rewrite (local_unchanged s Hwf x0 f' eq_refl Hnode_intact t Ht p0) in Hv by (intros []). discriminate.
        - assert (depth c < depth root) by (apply depth_kid; exact Hc). lia.
        - apply (kid_subtree s root (subtrees_self root) c Hc). }
      destruct Hno as [out E]. rewrite Eseq in E. discriminate.
  Qed.
End Intact.

(* ------------------------------------------------------------------ the Root link deleted, with the rebuild that first scans the child
   containers ([nested = true], the repaired fetch_or_create_root): only the old root is attached to the new root *)
Lemma NoDup_insertN n l : NoDup l -> ~ In n l -> NoDup (insertN n l).
Proof.
  induction l as [|m r IH]; simpl; intros Hnd Hn; [constructor; [intros []|constructor]|].
  destruct (N.leb n m); [constructor; assumption|]. inversion Hnd as [|y l' Hnot Hnd']; subst. constructor.
  - rewrite insertN_In. intros [E|H]; [subst; apply Hn; left; reflexivity | exact (Hnot H)].
  - apply IH; [exact Hnd' | intros H; apply Hn; right; exact H].
Qed.
Lemma NoDup_sortN l : NoDup l -> NoDup (sortN l).
Proof.
  induction l as [|m r IH]; intros H; [constructor|]. inversion H as [|y l' Hnot Hnd']; subst.
  change (sortN (m :: r)) with (insertN m (sortN r)).
  apply NoDup_insertN; [apply IH; exact Hnd'|]. intros Hin. apply (proj1 (sortN_In m r)) in Hin. exact (Hnot Hin).
Qed.
Lemma NoDup_map_filter {X Y} (g : X -> Y) (p : X -> bool) l : NoDup (map g l) -> NoDup (map g (filter p l)).
Proof.
  induction l as [|e r IH]; simpl; intros H; [constructor|]. inversion H; subst. destruct (p e); simpl; [|apply IH; assumption].
  constructor; [|apply IH; assumption]. intros Hin. apply H2. apply in_map_iff in Hin. destruct Hin as [y [E Hy]].
  apply filter_In in Hy. destruct Hy as [Hy _]. rewrite <- E. apply in_map. exact Hy.
Qed.
Lemma NoDup_map_pair {X} (k : X) (l : list N) : NoDup l -> NoDup (map (fun u => (u, k)) l).
Proof.
  induction l as [|e r IH]; simpl; intros H; [constructor|]. inversion H; subst. constructor; [|apply IH; assumption].
  intros Hin. apply in_map_iff in Hin. destruct Hin as [y [E Hy]]. inversion E; subst. contradiction.
Qed.
Lemma NoDup_app_intro {X} (l1 l2 : list X) : NoDup l1 -> NoDup l2 -> (forall y, In y l1 -> ~ In y l2) -> NoDup (l1 ++ l2).
Proof.
  induction l1 as [|e r IH]; simpl; intros H1 H2 Hd; [exact H2|]. inversion H1; subst. constructor.
  - intros Hin. apply in_app_or in Hin. destruct Hin as [Hin|Hin]; [contradiction | apply (Hd e); [left; reflexivity | exact Hin]].
  - apply IH; [assumption | assumption | intros y Hy; apply Hd; right; exact Hy].
Qed.
Lemma filter_unique {X} (p : X -> bool) (l : list X) (a : X) :
  NoDup l -> In a l -> (forall b, In b l -> (p b = true <-> b = a)) -> filter p l = [a].
Proof.
  induction l as [|e r IH]; simpl; intros Hnd Ha Hp; [contradiction|]. inversion Hnd; subst.
  destruct Ha as [Ha|Ha].
  - subst e. assert (Hpa : p a = true) by (apply Hp; [left; reflexivity | reflexivity]). rewrite Hpa. f_equal.
    apply filter_false. intros b Hb. destruct (p b) eqn:E; [|reflexivity].
    assert (b = a) by (apply Hp; [right; exact Hb | exact E]). subst. contradiction.
  - assert (Hpe : p e = false).
    { destruct (p e) eqn:E; [|reflexivity]. assert (e = a) by (apply Hp; [left; reflexivity | exact E]). subst. contradiction. }
    rewrite Hpe. apply IH; [assumption | assumption | intros b Hb; apply Hp; right; exact Hb].
Qed.

Lemma depth_subtree r : forall n, depth r <= n -> forall t, In t (subtrees r) -> depth t <= depth r.
Proof.
  intros n. revert r. induction n as [|n IH]; intros r Hd t Ht.
  - destruct r; simpl in Hd; lia.
  - destruct r as [u k a ty d p cs kids] eqn:Er. simpl in Ht. destruct Ht as [Ht|Ht]; [subst; lia|].
    apply in_flat_map in Ht. destruct Ht as [c [Hc Ht]].
    assert (depth c < depth r) by (apply depth_kid; subst r; exact Hc).
    assert (depth t <= depth c) by (apply IH; [subst r; lia | exact Ht]). subst r. lia.
Qed.
Lemma parent_or_self r : forall n, depth r <= n -> forall t, In t (subtrees r) -> t = r \/ exists p, In p (subtrees r) /\ In t (et_kids p).
Proof.
  intros n. revert r. induction n as [|n IH]; intros r Hd t Ht.
  - destruct r; simpl in Hd; lia.
  - destruct r as [u k a ty d p cs kids] eqn:Er. simpl in Ht. destruct Ht as [Ht|Ht]; [left; symmetry; exact Ht|]. right.
    apply in_flat_map in Ht. destruct Ht as [c [Hc Ht]].
    assert (depth c < depth r) by (apply depth_kid; subst r; exact Hc).
    destruct (IH c ltac:(subst r; lia) t Ht) as [E|[p0 [Hp0 Hk]]].
    + subst t. exists r. subst r. split; [apply subtrees_self | exact Hc].
    + exists p0. split; [|exact Hk]. simpl. right. apply in_flat_map. exists c. split; assumption.
Qed.

Section RootGone.
  Variable s : fspec.
  Hypothesis Hwf : wf s.
  Variable fuel : nat.
  Hypothesis Hfuel : depth (fs_root s) <= fuel.

  Local Notation root := (fs_root s).
  Local Notation ru := (et_uid (fs_root s)).
  Local Notation x := (ILink [] KRoot).
  Local Notation f' := (delete_item (layout s) (ILink [] KRoot)).
  Local Notation newp := (Some (Fresh [KRoot])).

  Lemma rg_described : described_by s x = [].
  Proof. reflexivity. Qed.

  Lemma rg_view t p : In t (subtrees root) -> view f' t p = Ok (Some (rec_of s false t p)).
  Proof. intros Ht. unfold view. apply (local_unchanged s Hwf x f' eq_refl (Hnode_del s x) t Ht p). intros []. Qed.

  Lemma rg_keep t c : keep_of x t c = true.
  Proof. unfold keep_of, cont_removed, entry_removed. cbn. destruct (et_kind t); reflexivity. Qed.

  Lemma rg_list t : In t (subtrees root) -> fetch_children G0 f' (U (et_uid t)) (et_kind t) = Ok (map key_of (et_kids t)).
  Proof.
    intros Ht. rewrite (P_list2 s Hwf x f' eq_refl (Hnode_del s x) t Ht). f_equal.
    induction (map key_of (et_kids t)) as [|c r IH]; simpl; [reflexivity|]. rewrite rg_keep, IH. reflexivity.
  Qed.

  Lemma rg_uuids k : fetch_uuids G0 f' k = Ok (map (fun u => (u, k)) (ents_of_kind s k)).
  Proof.
    unfold fetch_uuids. simpl g_fu. rewrite glookup_ok_absorb by reflexivity. cbn [bind]. f_equal.
    unfold sub. rewrite (D_getlink s x f' (Hnode_del s x)). cbn [top delete_item layout layout_at item_addr].
    assert (E : addr_eqb [] [] && link_hits x (flat_key k) = false) by (destruct k; reflexivity). rewrite E.
    assert (El : lookup (flat_key k) (n_links (top_node s)) = Some [flat_key k]) by (destruct k; reflexivity). rewrite El.
    rewrite (Hnode_del s x). cbn [item_addr].
    assert (Ea : addr_eqb [] [flat_key k] = false) by reflexivity. rewrite Ea. rewrite L_flat.
    unfold group_node. cbn [n_links]. induction (ents_of_kind s k) as [|u r IH]; simpl; [reflexivity|]. rewrite IH. reflexivity.
  Qed.

  Lemma in_ents_iff k u : In u (ents_of_kind s k) <-> exists t, In t (subtrees root) /\ et_kind t = k /\ et_uid t = u.
  Proof.
    unfold ents_of_kind. rewrite sortN_In, in_map_iff. split.
    - intros [t [E Ht]]. apply filter_In in Ht. destruct Ht as [Ht Ek]. apply ekind_eqb_eq in Ek. exists t. auto.
    - intros [t [Ht [Ek Eu]]]. exists t. split; [exact Eu|]. apply filter_In. split; [exact Ht | apply ekind_eqb_eq; exact Ek].
  Qed.

  Lemma key_inj t1 t2 : In t1 (subtrees root) -> In t2 (subtrees root) -> et_uid t1 = et_uid t2 -> t1 = t2.
  Proof. intros H1 H2 E. apply (NoDup_map_inj et_uid (subtrees root)); [exact (wf_nodup s Hwf) | exact H1 | exact H2 | exact E]. Qed.

  Lemma rg_nested l :
    (forall c, In c l -> exists t, In t (subtrees root) /\ key_of t = c) ->
    exists nest, nested_of G0 f' l = Ok nest
                 /\ forall d, In d nest <-> exists t, In (key_of t) l /\ In t (subtrees root) /\ In d (map key_of (et_kids t)).
  Proof.
    induction l as [|c r IH]; intros Hl.
    - exists []. split; [reflexivity|]. intros d. split; [intros [] | intros [t [[] _]]].
    - destruct (Hl c (or_introl eq_refl)) as [t [Ht Ek]].
      destruct (IH (fun c0 H0 => Hl c0 (or_intror H0))) as [nb [Enb Hnb]].
      exists (map key_of (et_kids t) ++ nb). split.
      + simpl. rewrite <- Ek. unfold key_of at 1 2. cbn [fst snd]. rewrite (rg_list t Ht). cbn [bind]. rewrite Enb. reflexivity.
      + intros d. rewrite in_app_iff, Hnb. split.
        * intros [Hd|[t0 [H1 [H2 H3]]]].
          -- exists t. split; [left; symmetry; exact Ek|]. split; assumption.
          -- exists t0. split; [right; exact H1|]. split; assumption.
        * intros [t0 [[E|H1] [H2 H3]]].
          -- left. assert (t0 = t).
             { apply key_inj; [exact H2 | exact Ht|]. rewrite <- Ek in E. unfold key_of in E. inversion E. reflexivity. }
             subst t0. exact H3.
          -- right. exists t0. split; [exact H1|]. split; assumption.
  Qed.

  Lemma root_not_kid p : In p (subtrees root) -> ~ In root (et_kids p).
  Proof.
    intros Hp Hk. assert (depth root < depth p) by (apply depth_kid; exact Hk).
    assert (depth p <= depth root) by (apply (depth_subtree root (depth root)); [lia | exact Hp]). lia.
  Qed.

  Lemma rg_tops gs os nest :
    gs = map (fun u => (u, KGroup)) (ents_of_kind s KGroup) -> os = map (fun u => (u, KObject)) (ents_of_kind s KObject) ->
    (forall d, In d nest <-> exists t, In (key_of t) (gs ++ os) /\ In t (subtrees root) /\ In d (map key_of (et_kids t))) ->
    filter (fun c : N * ekind => negb (existsb (fun d : N * ekind => N.eqb (fst d) (fst c)) nest)) (gs ++ os) = [(ru, KGroup)].
  Proof.
    intros Eg Eo Hn.
    assert (Hin_go : forall t, In t (subtrees root) -> et_kind t <> KData -> In (key_of t) (gs ++ os)).
    { intros t Ht Hk. apply in_or_app. unfold key_of. destruct (et_kind t) eqn:Ek; [left|right|congruence]; subst;
        apply in_map_iff; exists (et_uid t); (split; [reflexivity|]); apply in_ents_iff; exists t; auto. }
    assert (Hgo_in : forall c, In c (gs ++ os) -> exists t, In t (subtrees root) /\ key_of t = c).
    { intros c Hc. apply in_app_or in Hc. destruct Hc as [Hc|Hc]; subst; apply in_map_iff in Hc; destruct Hc as [u [E Hu]];
        apply in_ents_iff in Hu; destruct Hu as [t [Ht [Ek Eu]]]; exists t; (split; [exact Ht|]); unfold key_of; rewrite Ek, Eu; exact E. }
    apply filter_unique.
    - subst. apply NoDup_app_intro.
      + apply NoDup_map_pair. unfold ents_of_kind. apply NoDup_sortN. apply NoDup_map_filter. exact (wf_nodup s Hwf).
      + apply NoDup_map_pair. unfold ents_of_kind. apply NoDup_sortN. apply NoDup_map_filter. exact (wf_nodup s Hwf).
      + intros y H1 H2. apply in_map_iff in H1. apply in_map_iff in H2. destruct H1 as [u1 [E1 _]], H2 as [u2 [E2 _]]. subst y. discriminate.
    - pose proof (Hin_go root (subtrees_self root)) as H. unfold key_of in H. rewrite (wf_root_kind s Hwf) in H. apply H. discriminate.
    - intros b Hb. destruct (Hgo_in b Hb) as [t [Ht Ek]]. subst b. rewrite negb_true_iff. split.
      + intros Hex. destruct (parent_or_self root (depth root) (le_n _) t Ht) as [E|[p [Hp Hk]]].
        * subst t. unfold key_of. rewrite (wf_root_kind s Hwf). reflexivity.
        * exfalso. assert (Hd : In (key_of t) nest).
          { apply Hn. exists p. split; [|split; [exact Hp | apply in_map; exact Hk]].
            apply Hin_go; [exact Hp|]. intros Ekd. destruct (ent_ok_parts s Hwf p Hp) as [_ [_ [Hdd _]]]. destruct (Hdd Ekd) as [Hnil _].
            rewrite Hnil in Hk. contradiction. }
          assert (Hex' : existsb (fun d : N * ekind => N.eqb (fst d) (fst (key_of t))) nest = true).
          { apply existsb_exists. exists (key_of t). split; [exact Hd | apply N.eqb_refl]. }
          rewrite Hex' in Hex. discriminate.
      + intros E. destruct (existsb (fun d : N * ekind => N.eqb (fst d) (fst (key_of t))) nest) eqn:Hex; [|reflexivity]. exfalso.
        apply existsb_exists in Hex. destruct Hex as [d [Hd Ed]]. apply N.eqb_eq in Ed.
        apply Hn in Hd. destruct Hd as [p [_ [Hp Hd]]]. apply in_map_iff in Hd. destruct Hd as [c [Ec Hc]]. subst d.
        unfold key_of in Ed, E. cbn [fst] in Ed. inversion E as [[Eu Ekk]].
        assert (c = root).
        { apply key_inj; [apply (kid_subtree s p Hp c Hc) | apply subtrees_self | congruence]. }
        subst c. exact (root_not_kid p Hp Hc).
  Qed.

  Theorem root_link_outcome :
    exists t, load fuel G0 true f' = Ok t /\ agree_outside true [ru] t (abs s).
  Proof.
    unfold load. cbn [top delete_item layout].
    assert (Etn : node_at f' [] = Some (del_in_node x (top_node s))) by reflexivity.
    cbn [node_at delete_item layout] in Etn |- *. rewrite Etn.
    assert (Ev : load_entity G0 f' (Fresh [KRoot; KRoot]) None None = Ok None).
    { rewrite load_root_G0. unfold sub. rewrite (D_getlink s x f' (Hnode_del s x)). reflexivity. }
    cbn [node_at delete_item layout top] in Ev. rewrite Ev. cbn [bind]. simpl absorbs. cbv iota.
    pose proof (rg_uuids KGroup) as Eg. pose proof (rg_uuids KObject) as Eo.
    cbn [node_at delete_item layout top] in Eg, Eo. rewrite Eg, Eo. cbn [bind].
    set (gs := map (fun u => (u, KGroup)) (ents_of_kind s KGroup)). set (os := map (fun u => (u, KObject)) (ents_of_kind s KObject)).
    assert (Hgo : forall c, In c (gs ++ os) -> exists t, In t (subtrees root) /\ key_of t = c).
    { intros c Hc. apply in_app_or in Hc. destruct Hc as [Hc|Hc]; apply in_map_iff in Hc; destruct Hc as [u [E Hu]];
        apply in_ents_iff in Hu; destruct Hu as [t [Ht [Ek Eu]]]; exists t; (split; [exact Ht|]); unfold key_of; rewrite Ek, Eu; exact E. }
    destruct (rg_nested (gs ++ os) Hgo) as [nest [En Hn]]. cbn [node_at delete_item layout top] in En. rewrite En. cbn [bind].
    rewrite (rg_tops gs os nest eq_refl eq_refl Hn).
    (* the old root, loaded as a group under the new root *)
    assert (Hk : key_of root = (ru, KGroup)) by (unfold key_of; rewrite (wf_root_kind s Hwf); reflexivity).
    pose proof (core s f' [] (fetch_children_fresh f') (subtrees root) (scope_closed s)
                     (fun t Ht => local_ok_del s Hwf x f' eq_refl (Hnode_del s x) t Ht)
                     (fun t Ht => list_ok_del s Hwf x f' eq_refl (Hnode_del s x) t Ht)
                     (fun t Ht Ek => proj1 (proj1 (proj2 (proj2 (ent_ok_parts s Hwf t Ht))) Ek))
                     fuel root Hfuel (subtrees_self root) (wf_nodup s Hwf) newp [Fresh [KRoot]]) as K.
    assert (Hreg : forall v, In v (uids root) -> ~ In (U v) [Fresh [KRoot]]) by (intros v _ [E|[]]; discriminate).
    specialize (K Hreg). rewrite Hk in K.
    destruct (core_noerr s f' [] (subtrees root) (scope_closed s)
                (fun t Ht => local_ok_del s Hwf x f' eq_refl (Hnode_del s x) t Ht)
                (fun t Ht => list_ok_del s Hwf x f' eq_refl (Hnode_del s x) t Ht)
                (fun t p e Ht Hv => ltac:(rewrite (rg_view t p Ht) in Hv; discriminate))
                fuel root Hfuel (subtrees_self root) newp [Fresh [KRoot]]) as [[recs reg'] El].
    rewrite Hk in El. cbn [node_at delete_item layout top] in El, K. cbn [seq_load]. cbn [new_root r_uid]. rewrite El in K |- *.
    destruct K as [Kf _].
    eexists. split; [reflexivity|]. split.
    - intros _. reflexivity.
    - intros v Hv. cbn [t_ents abs find_rec new_root r_uid uid_eqb]. rewrite app_nil_r.
      rewrite (Kf v (fun H => H)). rewrite flat_recs_unfold. cbn [find_rec rec_of r_uid uid_eqb].
      destruct (N.eqb ru v) eqn:E; [|reflexivity]. apply N.eqb_eq in E. exfalso. apply Hv. left. exact E.
  Qed.
End RootGone.

(* ------------------------------------------------------------------ property groups one by one: an item of one property group (an
   attribute of its node, or its entry in the PropertyGroups block) leaves the object's other property groups, and the
   rest of the object, as they were *)
Lemma addr_eqb_app_ne (l : addr) e r : addr_eqb (l ++ e :: r) l = false.
Proof.
  apply addr_eqb_neq. intros E. assert (H : List.length (l ++ e :: r) = List.length l) by (rewrite E; reflexivity).
  rewrite app_length in H. simpl in H. lia.
Qed.
Lemma addr_eqb_app_ne' (l : addr) e r : addr_eqb l (l ++ e :: r) = false.
Proof.
  apply addr_eqb_neq. intros E. assert (H : List.length (l ++ e :: r) = List.length l) by (rewrite <- E; reflexivity).
  rewrite app_length in H. simpl in H. lia.
Qed.
Lemma addr_eqb_last (l : addr) b c : addr_eqb (l ++ [b]) (l ++ [c]) = key_eqb b c.
Proof.
  unfold addr_eqb. induction l as [|e r IH]; cbn [app list_eqb]; [apply andb_true_r|]. rewrite key_eqb_refl. exact IH.
Qed.
Lemma remove_key_as_flat_map {V} pk (l : list (key * V)) :
  flat_map (fun e : key * V => if key_eqb pk (fst e) then [] else [e]) l = remove_key pk l.
Proof. induction l as [|[k1 v] r IH]; simpl; [reflexivity|]. destruct (key_eqb pk k1); simpl; rewrite IH; reflexivity. Qed.

Lemma flat_map_map_single {X Y} (g : X -> list Y) (F : X -> Y) l : (forall e, In e l -> g e = [F e]) -> flat_map g l = map F l.
Proof. induction l as [|e r IH]; simpl; intros H; [reflexivity|]. rewrite (H e) by (left; reflexivity). simpl. rewrite IH; [reflexivity|]. intros; apply H; right; assumption. Qed.

Section DelViewPG.
  Variable s : fspec.
  Hypothesis Hwf : wf s.
  Variable x : item.
  Variable f' : h5.
  Hypothesis Htop : top f' = [].
  Hypothesis Hnode : forall b, node_at f' b =
     if addr_eqb (item_addr x) b then option_map (del_in_node x) (layout_at s b) else layout_at s b.
  Variable t : etree.
  Hypothesis Hin : In t (subtrees (fs_root s)).
  Variable pgs : list (key * amap).
  Hypothesis Hpgs : et_pgs t = Some pgs.

  Local Notation a := (item_addr x).
  Local Notation k := (et_kind t).
  Local Notation u := (et_uid t).
  Local Notation ea := (ent_addr (et_kind t) (et_uid t)).
  Local Notation ta := (type_addr (et_kind t) (et_ty t)).
  Local Notation en' := (if addr_eqb (item_addr x) (ent_addr (et_kind t) (et_uid t)) then del_in_node x (ent_node t) else ent_node t).

  Lemma pg_kind : k = KObject.
  Proof.
    destruct (ent_ok_parts s Hwf t Hin) as [_ [_ [_ [Hp _]]]]. destruct k; try reflexivity; (rewrite Hp in Hpgs by discriminate; discriminate).
  Qed.

  (* the item sits in the PropertyGroups block of [t]: below [ea ++ [KPGs]] *)
  Variable tail : list key.
  Hypothesis Ha : a = ea ++ KPGs :: tail.

  Lemma pg_topk : addr_eqb a [] && link_hits x (flat_key k) = false.
  Proof. rewrite Ha. destruct k; reflexivity. Qed.
  Lemma pg_flat : addr_eqb a [flat_key k] && link_hits x (KU u) = false.
  Proof. rewrite Ha. destruct k; cbn; rewrite ?andb_false_r; reflexivity. Qed.
  Lemma pg_clean : ea_clean x t.
  Proof. left. rewrite Ha. apply addr_eqb_app_ne. Qed.
  Lemma pg_ta : addr_eqb a ta = false.
  Proof. rewrite Ha. destruct k; reflexivity. Qed.
  Lemma pg_cm : addr_eqb a (ta ++ [KCmap]) = false.
  Proof. rewrite Ha. destruct k; reflexivity. Qed.

  Definition pg_expr : list (key * amap) :=
    match get_link f' ea KPGs with
    | Some _ => match (match sub f' (top f') KObjects with
                       | Some (oa, _) => match sub_uid f' oa (U u) with Some (ea', _) => sub f' ea' KPGs | None => None end
                       | None => None
                       end) with
                | Some (pa, pn) => pg_list f' pa pn
                | None => []
                end
    | None => []
    end.

  Lemma view_pgs p : load_entity G0 f' (U u) (Some k) p = Ok (Some (rec_with_pgs s t pg_expr p)).
  Proof.
    rewrite (P_view s Hwf x f' Htop Hnode t Hin). rewrite pg_topk, pg_flat.
    unfold fa_tail. fold pg_expr.
    destruct (type_spec s Hwf t Hin) as [ts Ets].
    assert (E1 : addr_eqb a ea && link_hits x KType = false).
    { apply (ea_clean_link x t KType pg_clean). intros ck. destruct ck; discriminate. }
    rewrite (sub_type s Hwf x f' Hnode t Hin ts Ets E1 pg_ta). cbn [type_node n_attrs].
    rewrite (sub_cmap s x f' Hnode t ts Ets pg_ta pg_cm), (sub_vmap s x f' Hnode t ts Ets pg_ta).
    rewrite (en_attrs x t pg_clean).
    destruct (ent_ok_parts s Hwf t Hin) as [Hid [_ [_ [_ [_ [_ [_ Hty]]]]]]].
    unfold create_entity. unfold uid_of_attrs. rewrite Hid.
    unfold rec_with_pgs. rewrite Ets. cbn [option_map]. unfold tview_of.
    unfold type_ok in Hty. rewrite Ets in Hty.
    unfold type_id. cbn [tv_attrs].
    pose proof (dsets_same s Hwf x f' Htop Hnode t Hin pg_topk pg_flat pg_clean) as Hds.
    rewrite pg_kind in *. cbn [rkind_of ekind_of] in *.
    destruct (lookup KID (ts_attrs ts)) as [[n|c|n]|]; try discriminate.
    destruct (class_name_first c object_classes) as [b|]; [|discriminate]. rewrite Hty. rewrite Hds. reflexivity.
  Qed.

  (* the PropertyGroups container is found *)
  Lemma pg_walk : pg_expr = match sub f' ea KPGs with Some (pa, pn) => pg_list f' pa pn | None => [] end.
  Proof.
    unfold pg_expr. rewrite (getlink_pgs s Hwf x f' Hnode t Hin pg_clean), Hpgs.
    pose proof (walk_to_ent s Hwf x f' Htop Hnode t Hin pg_topk pg_flat) as Hw. rewrite pg_kind in Hw. cbn [flat_key] in Hw.
    destruct (sub f' (top f') KObjects) as [[oa on]|]; [|discriminate]. rewrite pg_kind. rewrite Hw. reflexivity.
  Qed.

  Lemma pgs_cont_layout : layout_at s (ea ++ [KPGs]) = Some (group_node (map (fun p : key * amap => (fst p, ea ++ [KPGs; fst p])) pgs)).
  Proof.
    rewrite L_under. rewrite (find_ent_in s Hwf t Hin). unfold under_entity.
    rewrite (dsets_no_special s Hwf t Hin KPGs) by auto. rewrite Hpgs. reflexivity.
  Qed.
  Lemma pg_node_layout pk pa : In (pk, pa) pgs -> layout_at s (ea ++ [KPGs; pk]) = Some {| n_attrs := pa; n_data := None; n_links := [] |}.
  Proof.
    intros Hp. rewrite L_pg. rewrite (find_ent_in s Hwf t Hin), Hpgs.
    destruct (ent_ok_parts s Hwf t Hin) as [_ [_ [_ [_ [_ [_ [Hnd _]]]]]]].
    rewrite (nodup_keys_lookup _ _ _ (Hnd pgs Hpgs) Hp). reflexivity.
  Qed.
End DelViewPG.

Section PGItems.
  Variable s : fspec.
  Hypothesis Hwf : wf s.
  Variable t : etree.
  Hypothesis Hin : In t (subtrees (fs_root s)).
  Variable pgs : list (key * amap).
  Hypothesis Hpgs : et_pgs t = Some pgs.
  Local Notation u := (et_uid t).
  Local Notation ea := (ent_addr (et_kind t) (et_uid t)).

  (* an attribute of the node of property group [pk] *)
  Lemma pg_attr_deleted pk k0 p :
    let x := IAttr (ea ++ [KPGs; pk]) k0 in
    load_entity G0 (delete_item (layout s) x) (U u) (Some (et_kind t)) p
    = Ok (Some (rec_with_pgs s t (map (fun e : key * amap => if key_eqb pk (fst e) then (fst e, remove_key k0 (snd e)) else e) pgs) p)).
  Proof.
    intros x. set (f' := delete_item (layout s) x).
    assert (Ha : item_addr x = ea ++ KPGs :: [pk]) by reflexivity.
    rewrite (view_pgs s Hwf x f' eq_refl (Hnode_del s x) t Hin pgs Hpgs [pk] Ha p). f_equal. f_equal. f_equal.
    rewrite (pg_walk s Hwf x f' eq_refl (Hnode_del s x) t Hin pgs Hpgs [pk] Ha).
    unfold sub. rewrite (getlink_pgs s Hwf x f' (Hnode_del s x) t Hin (pg_clean x t [pk] Ha)), Hpgs.
    assert (E : addr_eqb (item_addr x) (ea ++ [KPGs]) = false).
    { cbn [item_addr x]. replace (ea ++ [KPGs; pk]) with ((ea ++ [KPGs]) ++ pk :: []) by (rewrite <- app_assoc; reflexivity). apply addr_eqb_app_ne. }
    rewrite (D_node_other s x f' (Hnode_del s x) _ E). rewrite (pgs_cont_layout s Hwf t Hin pgs Hpgs).
    unfold pg_list, group_node. cbn [n_links]. rewrite flat_map_concat_map, map_map, <- flat_map_concat_map.
    apply flat_map_map_single. intros [pk' pa] Hp. cbn [fst snd].
    rewrite (Hnode_del s x). cbn [item_addr x].
    replace (ea ++ [KPGs; pk]) with ((ea ++ [KPGs]) ++ [pk]) by (rewrite <- app_assoc; reflexivity).
    replace (ea ++ [KPGs; pk']) with ((ea ++ [KPGs]) ++ [pk']) by (rewrite <- app_assoc; reflexivity).
    rewrite addr_eqb_last.
    replace ((ea ++ [KPGs]) ++ [pk']) with (ea ++ [KPGs; pk']) by (rewrite <- app_assoc; reflexivity).
    rewrite (pg_node_layout s Hwf t Hin pgs Hpgs pk' pa Hp).
    destruct (key_eqb pk pk'); reflexivity.
  Qed.

  (* the entry of property group [pk] in the PropertyGroups block *)
  Lemma pg_entry_deleted pk p :
    let x := ILink (ea ++ [KPGs]) pk in
    load_entity G0 (delete_item (layout s) x) (U u) (Some (et_kind t)) p
    = Ok (Some (rec_with_pgs s t (remove_key pk pgs) p)).
  Proof.
    intros x. set (f' := delete_item (layout s) x).
    assert (Ha : item_addr x = ea ++ KPGs :: []) by reflexivity.
    rewrite (view_pgs s Hwf x f' eq_refl (Hnode_del s x) t Hin pgs Hpgs [] Ha p). f_equal. f_equal. f_equal.
    rewrite (pg_walk s Hwf x f' eq_refl (Hnode_del s x) t Hin pgs Hpgs [] Ha).
    unfold sub. rewrite (getlink_pgs s Hwf x f' (Hnode_del s x) t Hin (pg_clean x t [] Ha)), Hpgs.
    rewrite (Hnode_del s x). cbn [item_addr x]. rewrite addr_eqb_refl. rewrite (pgs_cont_layout s Hwf t Hin pgs Hpgs).
    cbn [option_map]. unfold pg_list. rewrite del_links. cbn [x group_node n_links].
    rewrite flat_map_remove_key. rewrite flat_map_concat_map, map_map, <- flat_map_concat_map.
    rewrite <- remove_key_as_flat_map. apply flat_map_ext_in. intros [pk' pa] Hp. cbn [fst snd].
    destruct (key_eqb pk pk'); [reflexivity|].
    assert (E : addr_eqb (item_addr x) (ea ++ [KPGs; pk']) = false).
    { cbn [item_addr x]. replace (ea ++ [KPGs; pk']) with ((ea ++ [KPGs]) ++ pk' :: []) by (rewrite <- app_assoc; reflexivity). apply addr_eqb_app_ne'. }
    rewrite (D_node_other s x f' (Hnode_del s x) _ E). rewrite (pg_node_layout s Hwf t Hin pgs Hpgs pk' pa Hp). reflexivity.
  Qed.
End PGItems.

Lemma lookup_map_other {V} pk pk' (h : V -> V) (l : list (key * V)) : pk' <> pk ->
  lookup pk' (map (fun e : key * V => if key_eqb pk (fst e) then (fst e, h (snd e)) else e) l) = lookup pk' l.
Proof.
  intros Hne. induction l as [|[k1 v] r IH]; simpl; [reflexivity|].
  destruct (key_eqb pk k1) eqn:E; simpl.
  - apply key_eqb_eq in E. subst k1. destruct (key_eqb pk' pk) eqn:E2; [apply key_eqb_eq in E2; contradiction | exact IH].
  - destruct (key_eqb pk' k1); [reflexivity | exact IH].
Qed.
