(* Lemmas for property C19 about Model/H5Read.v. *)
From GV Require Import Prelude.Base Model.H5Read.
From Coq Require Import String.
Local Open Scope list_scope.

(* ------------------------------------------------------------------ equality tests *)
Lemma ekind_eqb_eq a b : ekind_eqb a b = true <-> a = b.
Proof. destruct a, b; simpl; split; intros H; try reflexivity; try discriminate. Qed.
Lemma ekind_eqb_refl a : ekind_eqb a a = true.
Proof. destruct a; reflexivity. Qed.

Lemma key_eqb_eq a b : key_eqb a b = true <-> a = b.
Proof.
  destruct a, b; simpl; split; intros H; try reflexivity; try discriminate; try congruence.
  - apply ekind_eqb_eq in H. congruence.
  - inversion H. apply ekind_eqb_refl.
  - apply N.eqb_eq in H. congruence.
  - inversion H. apply N.eqb_refl.
  - apply String.eqb_eq in H. congruence.
  - inversion H. apply String.eqb_refl.
Qed.
Lemma key_eqb_refl a : key_eqb a a = true.
Proof. apply key_eqb_eq. reflexivity. Qed.
Lemma key_eqb_neq a b : key_eqb a b = false <-> a <> b.
Proof.
  split; intros H.
  - intros E. subst. rewrite key_eqb_refl in H. discriminate.
  - destruct (key_eqb a b) eqn:E; [apply key_eqb_eq in E; contradiction | reflexivity].
Qed.
Lemma key_eqb_sym a b : key_eqb a b = key_eqb b a.
Proof.
  destruct (key_eqb a b) eqn:E.
  - apply key_eqb_eq in E. subst. symmetry. apply key_eqb_refl.
  - symmetry. apply key_eqb_neq. apply key_eqb_neq in E. congruence.
Qed.

Lemma addr_eqb_eq a b : addr_eqb a b = true <-> a = b.
Proof. apply list_eqb_spec. apply key_eqb_eq. Qed.
Lemma addr_eqb_refl a : addr_eqb a a = true.
Proof. apply addr_eqb_eq. reflexivity. Qed.
Lemma addr_eqb_neq a b : addr_eqb a b = false <-> a <> b.
Proof.
  split; intros H.
  - intros E. subst. rewrite addr_eqb_refl in H. discriminate.
  - destruct (addr_eqb a b) eqn:E; [apply addr_eqb_eq in E; contradiction | reflexivity].
Qed.

Lemma uid_eqb_eq a b : uid_eqb a b = true <-> a = b.
Proof.
  destruct a, b; simpl; split; intros H; try discriminate; try congruence.
  - apply N.eqb_eq in H. congruence.
  - inversion H. apply N.eqb_refl.
  - apply addr_eqb_eq in H. congruence.
  - inversion H. apply addr_eqb_refl.
Qed.
Lemma uid_eqb_refl a : uid_eqb a a = true.
Proof. apply uid_eqb_eq. reflexivity. Qed.

(* ------------------------------------------------------------------ association lists *)
Lemma lookup_remove_same {V} k (l : list (key * V)) : lookup k (remove_key k l) = None.
Proof.
  induction l as [|[k' v] r IH]; simpl; [reflexivity|].
  destruct (key_eqb k k') eqn:E; [exact IH|]. simpl. rewrite E. exact IH.
Qed.
Lemma lookup_remove_other {V} k k' (l : list (key * V)) : k <> k' -> lookup k' (remove_key k l) = lookup k' l.
Proof.
  intros N. induction l as [|[k2 v] r IH]; simpl; [reflexivity|].
  destruct (key_eqb k k2) eqn:E.
  - apply key_eqb_eq in E. subst k2. rewrite IH.
    destruct (key_eqb k' k) eqn:E2; [apply key_eqb_eq in E2; congruence | reflexivity].
  - simpl. rewrite IH. reflexivity.
Qed.
Lemma remove_absent {V} k (l : list (key * V)) : lookup k l = None -> remove_key k l = l.
Proof.
  induction l as [|[k' v] r IH]; simpl; [reflexivity|].
  destruct (key_eqb k k') eqn:E; [discriminate|]. intros H. rewrite IH by exact H. reflexivity.
Qed.

(* ------------------------------------------------------------------ find_rec *)
Lemma find_rec_app u l1 l2 :
  find_rec u (l1 ++ l2) = match find_rec u l1 with Some r => Some r | None => find_rec u l2 end.
Proof.
  induction l1 as [|r l IH]; simpl; [reflexivity|]. destruct (uid_eqb (r_uid r) u); [reflexivity | exact IH].
Qed.
Lemma find_rec_none u l : (forall r, In r l -> r_uid r <> u) -> find_rec u l = None.
Proof.
  induction l as [|r l IH]; simpl; intros H; [reflexivity|].
  destruct (uid_eqb (r_uid r) u) eqn:E.
  - apply uid_eqb_eq in E. exfalso. apply (H r); [left; reflexivity | exact E].
  - apply IH. intros r' Hr'. apply H. right. exact Hr'.
Qed.

(* ------------------------------------------------------------------ trees *)
Lemma subtrees_self t : In t (subtrees t).
Proof. destruct t. simpl. left. reflexivity. Qed.
Lemma subtrees_kids t c : In c (et_kids t) -> forall x, In x (subtrees c) -> In x (subtrees t).
Proof.
  destruct t as [u k a ty d p cs kids]. simpl. intros Hc x Hx. right. apply in_flat_map. exists c. split; assumption.
Qed.
(* induction on depth instead of a nested induction principle *)
Lemma depth_kid t c : In c (et_kids t) -> depth c < depth t.
Proof.
  destruct t as [u k a ty d p cs kids]. simpl. intros H.
  assert (depth c <= fold_right Nat.max 0 (map depth kids)).
  { induction kids as [|x r IH]; simpl in *; [contradiction|]. destruct H as [H|H]; [subst; lia | specialize (IH H); lia]. }
  lia.
Qed.

Lemma subtrees_trans t : forall n, depth t <= n -> forall c x, In c (subtrees t) -> In x (subtrees c) -> In x (subtrees t).
Proof.
  intros n. revert t. induction n as [|n IH]; intros t Hd c x Hc Hx.
  - destruct t; simpl in Hd; lia.
  - destruct t as [u k a ty d p cs kids] eqn:Et. simpl in Hc. destruct Hc as [Hc|Hc].
    + subst c. exact Hx.
    + apply in_flat_map in Hc. destruct Hc as [k0 [Hk0 Hc]]. simpl. right. apply in_flat_map. exists k0. split; [exact Hk0|].
      apply (IH k0) with (c := c); [| exact Hc | exact Hx].
      assert (depth k0 < depth t) by (apply depth_kid; subst t; exact Hk0). subst t. lia.
Qed.
Lemma subtrees_trans' t c x : In c (subtrees t) -> In x (subtrees c) -> In x (subtrees t).
Proof. apply (subtrees_trans t (depth t)). lia. Qed.

Lemma uids_unfold t : uids t = et_uid t :: flat_map uids (et_kids t).
Proof.
  destruct t as [u k a ty d p cs kids]. unfold uids. simpl. f_equal.
  induction kids as [|c r IH]; simpl; [reflexivity|]. rewrite map_app. rewrite IH. reflexivity.
Qed.

Lemma in_uids_kid t c v : In c (et_kids t) -> In v (uids c) -> In v (uids t).
Proof.
  intros Hc Hv. rewrite uids_unfold. right. apply in_flat_map. exists c. split; assumption.
Qed.

Lemma NoDup_app_l {A} (l1 l2 : list A) : NoDup (l1 ++ l2) -> NoDup l1.
Proof. induction l1 as [|x r IH]; simpl; intros H; [constructor|]. inversion H; subst. constructor; [intros Hx; apply H2; apply in_or_app; left; exact Hx | apply IH; exact H3]. Qed.
Lemma NoDup_app_r {A} (l1 l2 : list A) : NoDup (l1 ++ l2) -> NoDup l2.
Proof. induction l1 as [|x r IH]; simpl; intros H; [exact H|]. inversion H; subst. apply IH. exact H3. Qed.
Lemma NoDup_app_disj {A} (l1 l2 : list A) x : NoDup (l1 ++ l2) -> In x l1 -> In x l2 -> False.
Proof.
  induction l1 as [|y r IH]; simpl; intros H H1 H2; [contradiction|]. inversion H; subst.
  destruct H1 as [H1|H1]; [subst; apply H4; apply in_or_app; right; exact H2 | apply IH; assumption].
Qed.

(* ------------------------------------------------------------------ seq_load *)
Lemma seq_load_nil {X} (step : list uid -> X -> res (list erec * list uid)) reg : seq_load step [] reg = Ok ([], reg).
Proof. reflexivity. Qed.

(* ------------------------------------------------------------------ the core induction: a file [f'] whose per-entity views and listings
   relate to the intact specification as stated reads back as the intact content outside [A] (or raises) *)
Section Core.
  Variable s : fspec.
  Variable f' : h5.
  Variable A : list N.

  Definition view (t : etree) (p : option uid) : res (option erec) :=
    load_entity G0 f' (U (et_uid t)) (Some (et_kind t)) p.

  Definition local_ok (t : etree) : Prop :=
    forall p,
      view t p = Ok (Some (rec_of s false t p))
      \/ (exists e, view t p = Err e /\ e <> OutOfFuel)
      \/ (view t p = Ok None /\ incl (uids t) A)
      \/ (exists r, view t p = Ok (Some r) /\ r_uid r = U (et_uid t) /\ In (et_uid t) A)
      \/ (exists r a, view t p = Ok (Some r) /\ r_uid r = Fresh a /\ incl (uids t) A).

  Definition list_ok (t : etree) : Prop :=
    exists keep, fetch_children G0 f' (U (et_uid t)) (et_kind t) = Ok (filter keep (map key_of (et_kids t)))
                 /\ forall c, In c (et_kids t) -> keep (key_of c) = false -> incl (uids c) A.

  Hypothesis H_fresh : forall a k, fetch_children G0 f' (Fresh a) k = Ok [].

  (* the conclusion for one subtree *)
  Definition sub_ok (t : etree) (p : option uid) (reg : list uid) (out : res (list erec * list uid)) : Prop :=
    match out with
    | Err e => e <> OutOfFuel
    | Ok (recs, reg') =>
        (forall u, ~ In u A -> find_rec (U u) recs = find_rec (U u) (flat_recs s t p))
        /\ (forall v, In (U v) reg' -> In (U v) reg \/ In v (uids t))
    end.

  Lemma flat_recs_unfold t p :
    flat_recs s t p = rec_of s false t p :: flat_map (fun c => flat_recs s c (Some (U (et_uid t)))) (et_kids t).
  Proof. destruct t. reflexivity. Qed.

  Lemma flat_recs_uids t : forall n, depth t <= n -> forall p r, In r (flat_recs s t p) -> exists v, r_uid r = U v /\ In v (uids t).
  Proof.
    intros n. revert t. induction n as [|n IH]; intros t Hd p r Hr.
    - destruct t; simpl in Hd; lia.
    - rewrite flat_recs_unfold in Hr. destruct Hr as [Hr|Hr].
      + subst r. exists (et_uid t). split; [reflexivity|]. rewrite uids_unfold. left. reflexivity.
      + apply in_flat_map in Hr. destruct Hr as [c [Hc Hr]].
        assert (depth c < depth t) by (apply depth_kid; exact Hc).
        destruct (IH c ltac:(lia) _ _ Hr) as [v [E Hv]]. exists v. split; [exact E|]. eapply in_uids_kid; eassumption.
  Qed.

  Lemma find_flat_recs_none t p u : ~ In u (uids t) -> find_rec (U u) (flat_recs s t p) = None.
  Proof.
    intros H. apply find_rec_none. intros r Hr E.
    destruct (flat_recs_uids t (depth t) (le_n _) p r Hr) as [v [Ev Hv]]. rewrite Ev in E. inversion E. subst. contradiction.
  Qed.

  Lemma mem_uid_false u reg : ~ In u reg -> mem_uid u reg = false.
  Proof.
    intros H. unfold mem_uid. destruct (existsb (uid_eqb u) reg) eqn:E; [|reflexivity].
    apply existsb_exists in E. destruct E as [x [Hx E]]. apply uid_eqb_eq in E. subst. contradiction.
  Qed.

  (* children of one entity, given the statement for every kid *)
  Lemma kids_ok (n : nat) (t : etree) (keep : N * ekind -> bool) (pu : uid) :
    (forall c, In c (et_kids t) -> keep (key_of c) = false -> incl (uids c) A) ->
    (forall c p reg, In c (et_kids t) -> (forall v, In v (uids c) -> ~ In (U v) reg) ->
                     sub_ok c p reg (load_ent n G0 f' reg (key_of c) p)) ->
    forall cs, incl cs (et_kids t) -> NoDup (flat_map uids cs) ->
    forall reg, (forall v, In v (flat_map uids cs) -> ~ In (U v) reg) ->
    match seq_load (fun reg' c' => load_ent n G0 f' reg' c' (Some pu)) (filter keep (map key_of cs)) reg with
    | Err e => e <> OutOfFuel
    | Ok (recs, reg') =>
        (forall u, ~ In u A -> find_rec (U u) recs = find_rec (U u) (flat_map (fun c => flat_recs s c (Some pu)) cs))
        /\ (forall v, In (U v) reg' -> In (U v) reg \/ In v (flat_map uids cs))
    end.
  Proof.
    intros Hdrop Hkid cs. induction cs as [|c r IH]; intros Hin Hnd reg Hreg.
    - simpl. split; [reflexivity | intros v Hv; left; exact Hv].
    - simpl in Hnd. simpl.
      assert (Hc : In c (et_kids t)) by (apply Hin; left; reflexivity).
      assert (Hr : incl r (et_kids t)) by (intros x Hx; apply Hin; right; exact Hx).
      destruct (keep (key_of c)) eqn:Ek.
      + simpl.
        assert (Hregc : forall v, In v (uids c) -> ~ In (U v) reg).
        { intros v Hv. apply Hreg. simpl. apply in_or_app. left. exact Hv. }
        specialize (Hkid c (Some pu) reg Hc Hregc).
        destruct (load_ent n G0 f' reg (key_of c) (Some pu)) as [[r1 reg1]|e]; [|exact Hkid].
        destruct Hkid as [Hf1 Hreg1].
        assert (Hreg1' : forall v, In v (flat_map uids r) -> ~ In (U v) reg1).
        { intros v Hv Hin1. destruct (Hreg1 v Hin1) as [H|H].
          - apply (Hreg v); [simpl; apply in_or_app; right; exact Hv | exact H].
          - eapply NoDup_app_disj; eassumption. }
        specialize (IH Hr (NoDup_app_r _ _ Hnd) reg1 Hreg1').
        destruct (seq_load _ (filter keep (map key_of r)) reg1) as [[r2 reg2]|e]; [|exact IH].
        destruct IH as [Hf2 Hreg2]. split.
        * intros u Hu. rewrite !find_rec_app. rewrite (Hf1 u Hu). rewrite (Hf2 u Hu). reflexivity.
        * intros v Hv. destruct (Hreg2 v Hv) as [H|H].
          -- destruct (Hreg1 v H) as [H'|H']; [left; exact H' | right; simpl; apply in_or_app; left; exact H'].
          -- right. simpl. apply in_or_app. right. exact H.
      + assert (Hreg' : forall v, In v (flat_map uids r) -> ~ In (U v) reg).
        { intros v Hv. apply Hreg. simpl. apply in_or_app. right. exact Hv. }
        specialize (IH Hr (NoDup_app_r _ _ Hnd) reg Hreg').
        destruct (seq_load _ (filter keep (map key_of r)) reg) as [[r2 reg2]|e]; [|exact IH].
        destruct IH as [Hf2 Hreg2]. split.
        * intros u Hu. rewrite find_rec_app.
          rewrite (find_flat_recs_none c (Some pu) u).
          -- apply Hf2. exact Hu.
          -- intros Hin'. apply Hu. apply (Hdrop c Hc Ek). exact Hin'.
        * intros v Hv. destruct (Hreg2 v Hv) as [H|H]; [left; exact H | right; simpl; apply in_or_app; right; exact H].
  Qed.

  Variable scope : list etree.       (* the subtrees the hypotheses are known for; closed under kids *)
  Hypothesis scope_kids : forall t c, In t scope -> In c (et_kids t) -> In c scope.
  Hypothesis H_local : forall t, In t scope -> local_ok t.
  Hypothesis H_list : forall t, In t scope -> list_ok t.
  Hypothesis H_data : forall t, In t scope -> et_kind t = KData -> et_kids t = [].

  Lemma core : forall n t, depth t <= n -> In t scope -> NoDup (uids t) ->
    forall p reg, (forall v, In v (uids t) -> ~ In (U v) reg) ->
    sub_ok t p reg (load_ent n G0 f' reg (key_of t) p).
  Proof.
    induction n as [|n IH]; intros t Hd Hs Hnd p reg Hreg.
    - destruct t; simpl in Hd; lia.
    - simpl.
      rewrite mem_uid_false by (apply Hreg; rewrite uids_unfold; left; reflexivity).
      change (load_entity G0 f' (U (et_uid t)) (Some (et_kind t)) p) with (view t p).
      assert (Hu0 : In (et_uid t) (uids t)) by (rewrite uids_unfold; left; reflexivity).
      rewrite uids_unfold in Hnd. inversion Hnd as [|x l Hnotin Hndk]; subst.
      (* the statement for the kids, used in three of the cases *)
      assert (Hkids : forall c p0 reg0, In c (et_kids t) -> (forall v, In v (uids c) -> ~ In (U v) reg0) ->
                                        sub_ok c p0 reg0 (load_ent n G0 f' reg0 (key_of c) p0)).
      { intros c p0 reg0 Hc Hr0. apply IH.
        - assert (depth c < depth t) by (apply depth_kid; exact Hc). lia.
        - eapply scope_kids; eassumption.
        - clear - Hndk Hc. induction (et_kids t) as [|y r IHr]; simpl in *; [contradiction|].
          destruct Hc as [Hc|Hc]; [subst; eapply NoDup_app_l; exact Hndk | apply IHr; [eapply NoDup_app_r; exact Hndk | exact Hc]].
        - exact Hr0. }
      destruct (H_list t Hs) as [keep [Hl Hdrop]].
      (* what the children contribute when the entity keeps its identifier *)
      assert (Hsame : forall r, r_uid r = U (et_uid t) -> is_container (et_kind t) = true ->
                 match (do kids <- fetch_children G0 f' (r_uid r) (et_kind t);
                        match seq_load (fun reg' c' => load_ent n G0 f' reg' c' (Some (r_uid r))) kids (r_uid r :: reg) with
                        | Err e => Err e
                        | Ok (sub, reg') => Ok (r :: sub, reg')
                        end) with
                 | Err e => e <> OutOfFuel
                 | Ok (recs, reg') =>
                     (forall u, ~ In u A -> u <> et_uid t ->
                                find_rec (U u) recs = find_rec (U u) (flat_map (fun c => flat_recs s c (Some (U (et_uid t)))) (et_kids t)))
                     /\ (forall v, In (U v) reg' -> In (U v) reg \/ In v (uids t))
                     /\ exists sub, recs = r :: sub
                 end).
      { intros r Er _. rewrite Er. rewrite Hl. simpl.
        pose proof (kids_ok n t keep (U (et_uid t)) Hdrop Hkids (et_kids t) (incl_refl _) Hndk (U (et_uid t) :: reg)) as K.
        assert (Hr' : forall v, In v (flat_map uids (et_kids t)) -> ~ In (U v) (U (et_uid t) :: reg)).
        { intros v Hv [E|Hin].
          - inversion E. subst. contradiction.
          - apply (Hreg v); [rewrite uids_unfold; right; exact Hv | exact Hin]. }
        specialize (K Hr').
        destruct (seq_load _ (filter keep (map key_of (et_kids t))) (U (et_uid t) :: reg)) as [[sub reg']|e]; [|exact K].
        destruct K as [Kf Kr]. split; [|split].
        - intros u Hu Hne. simpl. rewrite Er. simpl.
          destruct (N.eqb (et_uid t) u) eqn:E; [apply N.eqb_eq in E; congruence|]. apply Kf. exact Hu.
        - intros v Hv. destruct (Kr v Hv) as [[E|H]|H].
          + inversion E. right. exact Hu0.
          + left. exact H.
          + right. rewrite uids_unfold. right. exact H.
        - exists sub. reflexivity. }
      destruct (H_local t Hs p) as [Hv|[[e [Hv He]]|[[Hv HA]|[[r [Hv [Er HinA]]]|[r [a [Hv [Er HA]]]]]]]]; rewrite Hv; simpl.
      + (* view unchanged *)
        destruct (is_container (et_kind t)) eqn:Ec.
        * specialize (Hsame (rec_of s false t p) eq_refl Ec). simpl in Hsame.
          match goal with |- sub_ok _ _ _ ?X => destruct X as [[recs reg']|e] end; [|exact Hsame].
          destruct Hsame as [Hf [Hr [sub Esub]]]. split; [|exact Hr].
          intros u Hu. rewrite flat_recs_unfold. subst recs. simpl.
          destruct (N.eqb (et_uid t) u) eqn:E; [reflexivity|].
          specialize (Hf u Hu). simpl in Hf. rewrite E in Hf. apply Hf. intros E'. subst. rewrite N.eqb_refl in E. discriminate.
        * simpl. split.
          -- intros u Hu. rewrite flat_recs_unfold.
             assert (et_kids t = []) as ->.
             { apply H_data; [exact Hs|]. destruct (et_kind t); simpl in Ec; try discriminate; reflexivity. }
             reflexivity.
          -- intros v [E|H]; [inversion E; right; exact Hu0 | left; exact H].
      + exact He.
      + (* left out *)
        split.
        * intros u Hu. simpl. symmetry. apply find_flat_recs_none. intros H. apply Hu. apply HA. exact H.
        * intros v H. left. exact H.
      + (* altered, same identifier *)
        destruct (is_container (et_kind t)) eqn:Ec.
        * specialize (Hsame r Er Ec).
          match goal with |- sub_ok _ _ _ ?X => destruct X as [[recs reg']|e] end; [|exact Hsame].
          destruct Hsame as [Hf [Hr [sub Esub]]]. split; [|exact Hr].
          intros u Hu. rewrite flat_recs_unfold.
          assert (Hne : u <> et_uid t) by (intros E; subst; contradiction).
          rewrite (Hf u Hu Hne). simpl.
          destruct (N.eqb (et_uid t) u) eqn:E; [apply N.eqb_eq in E; congruence | reflexivity].
        * simpl. split.
          -- intros u Hu. rewrite flat_recs_unfold. simpl. rewrite Er. simpl.
             assert (Hne : u <> et_uid t) by (intros E; subst; contradiction).
             destruct (N.eqb (et_uid t) u) eqn:E; [apply N.eqb_eq in E; congruence|].
             assert (et_kids t = []) as ->.
             { apply H_data; [exact Hs|]. destruct (et_kind t); simpl in Ec; try discriminate; reflexivity. }
             reflexivity.
          -- intros v [E|H]; [rewrite Er in E; inversion E; right; exact Hu0 | left; exact H].
      + (* a new identifier: its children are not found *)
        assert (Hnone : forall u, ~ In u A -> find_rec (U u) (flat_recs s t p) = None).
        { intros u Hu. apply find_flat_recs_none. intros H. apply Hu. apply HA. exact H. }
        destruct (is_container (et_kind t)) eqn:Ec.
        * rewrite Er. rewrite H_fresh. simpl. split.
          -- intros u Hu. rewrite Hnone by exact Hu. simpl. rewrite Er. reflexivity.
          -- intros v [E|H]; [discriminate | left; exact H].
        * simpl. split.
          -- intros u Hu. rewrite Hnone by exact Hu. simpl. rewrite Er. reflexivity.
          -- intros v [E|H]; [rewrite Er in E; discriminate | left; exact H].
  Qed.
End Core.
