(* Proofs about Model/CopyModel.v (property C12). *)
From GV Require Import Prelude.Base Model.CopyModel.
Require Import Permutation.
Unset Implicit Arguments.

(* ------------------------------------------------------------------ induction over rose trees *)
Section TreeInd.
  Variable P : tree -> Prop.
  Hypothesis H : forall n ch, Forall P ch -> P (T n ch).
  Fixpoint tree_ind2 (t : tree) : P t :=
    match t with
    | T n ch => H n ch ((fix go (l : list tree) : Forall P l :=
                        match l with [] => Forall_nil P | c :: r => Forall_cons c (tree_ind2 c) (go r) end) ch)
    end.
End TreeInd.

(* ------------------------------------------------------------------ small facts *)
Lemma memN_In x l : memN x l = true <-> In x l.
Proof.
  unfold memN. rewrite existsb_exists. split.
  - intros [y [Hy E]]. apply N.eqb_eq in E. subst. exact Hy.
  - intros Hx. exists x. split; [exact Hx | apply N.eqb_refl].
Qed.

Lemma memN_false x l : memN x l = false <-> ~ In x l.
Proof.
  rewrite <- memN_In. destruct (memN x l); split; intros; try discriminate; try reflexivity.
  - exfalso. apply H. reflexivity.
Qed.

Lemma assocN_app_in {A} k (l1 l2 : list (N * A)) :
  In k (map fst l1) -> assocN k (l1 ++ l2) = assocN k l1.
Proof.
  induction l1 as [|[a b] r IH]; simpl; intros Hin; [contradiction|].
  destruct (N.eqb k a) eqn:E; [reflexivity|].
  apply IH. destruct Hin as [Ha|Hr]; [|exact Hr]. subst. rewrite N.eqb_refl in E. discriminate.
Qed.

Lemma assocN_app_notin {A} k (l1 l2 : list (N * A)) :
  ~ In k (map fst l1) -> assocN k (l1 ++ l2) = assocN k l2.
Proof.
  induction l1 as [|[a b] r IH]; simpl; intros Hin; [reflexivity|].
  destruct (N.eqb k a) eqn:E.
  - apply N.eqb_eq in E. subst. exfalso. apply Hin. left. reflexivity.
  - apply IH. intros Hr. apply Hin. right. exact Hr.
Qed.

Lemma combine_app {A B} (l1 l2 : list A) (m1 m2 : list B) :
  length l1 = length m1 -> combine (l1 ++ l2) (m1 ++ m2) = combine l1 m1 ++ combine l2 m2.
Proof.
  revert m1; induction l1 as [|a r IH]; intros [|b m1]; simpl; intros E; try discriminate; [reflexivity|].
  f_equal. apply IH. congruence.
Qed.

Lemma map_fst_combine {A B} (l : list A) (m : list B) : length l = length m -> map fst (combine l m) = l.
Proof.
  revert m; induction l as [|a r IH]; intros [|b m]; simpl; intros E; try discriminate; [reflexivity|].
  f_equal. apply IH. congruence.
Qed.

Lemma map_snd_combine {A B} (l : list A) (m : list B) : length l = length m -> map snd (combine l m) = m.
Proof.
  revert m; induction l as [|a r IH]; intros [|b m]; simpl; intros E; try discriminate; [reflexivity|].
  f_equal. apply IH. congruence.
Qed.

Lemma Forall2_len {A B} (R : A -> B -> Prop) l m : Forall2 R l m -> length l = length m.
Proof. induction 1; simpl; congruence. Qed.

Lemma Forall2_imp {A B} (R S : A -> B -> Prop) l m : (forall a b, R a b -> S a b) -> Forall2 R l m -> Forall2 S l m.
Proof. intros H. induction 1; constructor; auto. Qed.

(* ------------------------------------------------------------------ the local isomorphism produced by copy_tree *)
(* [iso s t']: t' has the payloads and shape of s; its property groups list, through the map of the node's own children
   (source child uid -> copy child uid), the members of the corresponding group of s; members are children. *)
Inductive iso : tree -> tree -> Prop :=
| iso_T n n' ch ch' :
    pl n' = pl n ->
    Forall2 (fun g g' => pg_tok g' = pg_tok g
                         /\ incl (pg_props g) (map root_uid ch)
                         /\ pg_props g' = map (look (combine (map root_uid ch) (map root_uid ch'))) (pg_props g))
            (npgs n) (npgs n') ->
    Forall2 iso ch ch' ->
    iso (T n ch) (T n' ch').

(* spec_tree's inner loop, as a top-level function *)
Fixpoint spec_list (keep : tree -> bool) (f : tree -> res tree) (l : list tree) : res (list tree) :=
  match l with
  | [] => Ok []
  | c :: r => if keep c then
                match f c with
                | Err e => Err e
                | Ok c' => match spec_list keep f r with Err e => Err e | Ok r' => Ok (c' :: r') end
                end
              else spec_list keep f r
  end.

Lemma spec_tree_unfold n ch cx :
  spec_tree (T n ch) cx =
  match masked_payload cx (pl n) with
  | Err e => Err e
  | Ok p1 =>
      let p' := set_attrs (set_meta p1 (if omit_meta cx then None else meta p1)) (overrides (over cx) (attrs p1)) in
      if negb (with_children cx) then Ok (T {| nuid := nuid n; pl := p'; npgs := [] |} []) else
      match spec_list (copied_child (pl n)) (fun c => spec_tree c (child_ctx cx (pl n) p' c)) ch with
      | Err e => Err e
      | Ok ch' => Ok (T {| nuid := nuid n; pl := p'; npgs := npgs n |} ch')
      end
  end.
Proof.
  simpl. destruct (masked_payload cx (pl n)); [|reflexivity]. cbv zeta.
  destruct (negb (with_children cx)); [reflexivity|].
  match goal with |- match ?A with _ => _ end = match ?B with _ => _ end => assert (E : A = B) end.
  { induction ch as [|c r IH]; simpl; [reflexivity|].
    destruct (copied_child (pl n) c); [|exact IH].
    destruct (spec_tree c _); [|reflexivity]. rewrite IH. reflexivity. }
  rewrite E. reflexivity.
Qed.

Lemma map_props_spec cmap l l' :
  map_props cmap l = Ok l' -> incl l (map fst cmap) /\ l' = map (look cmap) l.
Proof.
  revert l'; induction l as [|u r IH]; simpl; intros l' E.
  - inversion E. split; [intros x Hx; destruct Hx | reflexivity].
  - destruct (assocN u cmap) eqn:Ea; [|discriminate].
    destruct (map_props cmap r) eqn:Er; [|discriminate]. inversion E; subst.
    destruct (IH _ eq_refl) as [Hi Hm]. split.
    + intros x [Hx|Hx]; [subst|apply Hi; exact Hx].
      clear -Ea. induction cmap as [|[a b] c IHc]; simpl in *; [discriminate|].
      destruct (N.eqb x a) eqn:E; [left; apply N.eqb_eq in E; symmetry; exact E | right; apply IHc; exact Ea].
    + unfold look at 1. rewrite Ea. f_equal. exact Hm.
Qed.

Lemma copy_pgs_spec cmap l st l' st' :
  copy_pgs cmap l st = Ok (l', st') ->
  Forall2 (fun g g' => pg_tok g' = pg_tok g /\ incl (pg_props g) (map fst cmap) /\ pg_props g' = map (look cmap) (pg_props g)) l l'
  /\ used st' = used st /\ (nxt st <= nxt st')%N.
Proof.
  revert st l' st'; induction l as [|g r IH]; simpl; intros st l' st' E.
  - inversion E; subst. repeat split; [constructor | reflexivity].
  - destruct (map_props cmap (pg_props g)) eqn:Em; [|discriminate].
    destruct (alloc_pg (pg_uid g) st) as [u st1] eqn:Ea.
    destruct (copy_pgs cmap r st1) as [[r' st2]|] eqn:Er; [|discriminate].
    inversion E; subst. destruct (IH _ _ _ Er) as [HF [Hu Hn]].
    apply map_props_spec in Em. destruct Em as [Hi Hm].
    assert (Hst1 : used st1 = used st /\ (nxt st <= nxt st1)%N).
    { unfold alloc_pg in Ea. destruct (memN (pg_uid g) (usedpg st)); inversion Ea; subst; simpl; split; try reflexivity; lia. }
    destruct Hst1 as [Hu1 Hn1].
    repeat split.
    + constructor; [simpl; repeat split; assumption | exact HF].
    + congruence.
    + lia.
Qed.

(* mapM_st and spec_list walk the same children *)
Lemma mapM_spec keep (f : tree -> cst -> res (tree * cst)) (g : tree -> res tree) l :
  Forall (fun c => forall st c' st', f c st = Ok (c', st') -> exists s, g c = Ok s /\ iso s c') l ->
  forall st l' st', mapM_st keep f l st = Ok (l', st') ->
  exists sl, spec_list keep g l = Ok sl /\ Forall2 iso sl l'.
Proof.
  induction 1 as [|c r Hc Hr IH]; simpl; intros st l' st' E.
  - inversion E; subst. exists []. split; [reflexivity | constructor].
  - destruct (keep c).
    + destruct (f c st) as [[c' st1]|] eqn:Ef; [|discriminate].
      destruct (mapM_st keep f r st1) as [[r' st2]|] eqn:Er; [|discriminate].
      inversion E; subst. destruct (Hc _ _ _ Ef) as [s [Hs Hi]]. destruct (IH _ _ _ Er) as [sl [Hsl Hf]].
      exists (s :: sl). rewrite Hs, Hsl. split; [reflexivity | constructor; assumption].
    + apply (IH _ _ _ E).
Qed.

Lemma spec_list_roots keep (g : tree -> res tree) l sl :
  (forall c s, In c l -> g c = Ok s -> root_uid s = root_uid c) ->
  spec_list keep g l = Ok sl -> map root_uid sl = map root_uid (filter keep l).
Proof.
  revert sl; induction l as [|c r IH]; simpl; intros sl Hroot E.
  - inversion E. reflexivity.
  - destruct (keep c).
    + destruct (g c) eqn:Eg; [|discriminate]. destruct (spec_list keep g r) eqn:Er; [|discriminate].
      inversion E; subst. simpl. f_equal.
      * apply (Hroot c); [left; reflexivity | exact Eg].
      * apply IH; [|reflexivity]. intros c0 s0 Hin. apply Hroot. right. exact Hin.
    + apply IH; [|exact E]. intros c0 s0 Hin. apply Hroot. right. exact Hin.
Qed.

Lemma spec_tree_root t cx s : spec_tree t cx = Ok s -> root_uid s = root_uid t.
Proof.
  destruct t as [n ch]. rewrite spec_tree_unfold. destruct (masked_payload cx (pl n)); [|discriminate].
  cbv zeta. destruct (negb (with_children cx)); [intros E; inversion E; reflexivity|].
  destruct (spec_list _ _ ch); [|discriminate]. intros E; inversion E; reflexivity.
Qed.

Theorem copy_tree_iso : forall t cx st t' st',
  copy_tree t cx st = Ok (t', st') -> exists s, spec_tree t cx = Ok s /\ iso s t'.
Proof.
  induction t as [n ch IHch] using tree_ind2. intros cx st t' st' E.
  rewrite spec_tree_unfold. simpl in E.
  destruct (masked_payload cx (pl n)) as [p1|]; [|discriminate]. cbv zeta in *.
  destruct (negb (with_children cx)).
  - inversion E; subst. eexists. split; [reflexivity|]. constructor; [reflexivity | constructor | constructor].
  - set (p' := set_attrs (set_meta p1 (if omit_meta cx then None else meta p1)) (overrides (over cx) (attrs p1))) in *.
    destruct (mapM_st _ _ ch _) as [[ch' st2]|] eqn:Em; [|discriminate].
    destruct (copy_pgs _ (npgs n) st2) as [[pgs' st3]|] eqn:Ep; [|discriminate].
    inversion E; subst.
    assert (HFa : Forall (fun c => forall st0 c' st0', copy_tree c (child_ctx cx (pl n) p' c) st0 = Ok (c', st0') ->
                              exists s, spec_tree c (child_ctx cx (pl n) p' c) = Ok s /\ iso s c') ch).
    { apply Forall_forall. intros c Hc st0 c' st0' Hcopy. rewrite Forall_forall in IHch. apply (IHch c Hc _ _ _ _ Hcopy). }
    pose proof (mapM_spec (copied_child (pl n)) (fun c s => copy_tree c (child_ctx cx (pl n) p' c) s)
                  (fun c => spec_tree c (child_ctx cx (pl n) p' c)) ch HFa _ _ _ Em) as [sl [Hsl Hf]].
    rewrite Hsl. eexists. split; [reflexivity|].
    assert (Hroots : map root_uid sl = map root_uid (filter (copied_child (pl n)) ch)).
    { eapply spec_list_roots; [|exact Hsl]. intros c s _ Hs. apply (spec_tree_root _ _ _ Hs). }
    constructor; [reflexivity | | exact Hf].
    simpl. apply copy_pgs_spec in Ep. destruct Ep as [HF _].
    assert (Hlen : length (map root_uid (filter (copied_child (pl n)) ch)) = length (map root_uid ch')).
    { rewrite <- Hroots, !map_length. apply (Forall2_len _ _ _ Hf). }
    rewrite Hroots.
    eapply Forall2_imp; [|exact HF]. intros g g' [H1 [H2 H3]]. repeat split; try assumption.
    rewrite map_fst_combine in H2 by exact Hlen. exact H2.
Qed.

Lemma NoDup_app_parts {A} (l m : list A) :
  NoDup (l ++ m) -> NoDup l /\ NoDup m /\ (forall x, In x l -> ~ In x m).
Proof.
  induction l as [|a r IH]; simpl; intros H.
  - split; [constructor | split; [exact H | intros x []]].
  - inversion H as [|a' l' Hna Hnd]; subst. destruct (IH Hnd) as [K1 [K2 Hd]]. split; [|split].
    + constructor; [|exact K1]. intros Hin. apply Hna. apply in_or_app. left. exact Hin.
    + exact K2.
    + intros x [E|Hx]; [subst; intros Hm; apply Hna; apply in_or_app; right; exact Hm | apply Hd; exact Hx].
Qed.

Lemma NoDup_app_join {A} (l m : list A) :
  NoDup l -> NoDup m -> (forall x, In x l -> ~ In x m) -> NoDup (l ++ m).
Proof.
  induction l as [|a r IH]; simpl; intros H1 H2 Hd; [exact H2|].
  inversion H1; subst. constructor.
  - intros Hin. apply in_app_or in Hin. destruct Hin as [Hin|Hin]; [contradiction | apply (Hd a); [left; reflexivity | exact Hin]].
  - apply IH; [assumption | assumption | intros x Hx; apply Hd; right; exact Hx].
Qed.

(* ------------------------------------------------------------------ from the local isomorphism to the global uid map *)
Lemma Forall2_combine_in {A B} (R : A -> B -> Prop) l m a b : Forall2 R l m -> In (a, b) (combine l m) -> R a b.
Proof.
  induction 1; simpl; intros Hin; [contradiction|]. destruct Hin as [E|Hin]; [inversion E; subst; assumption | auto].
Qed.

Lemma map_eq_combine {A B C} (F : B -> C) (G : A -> C) l m :
  length l = length m -> (forall a b, In (a, b) (combine l m) -> F b = G a) -> map F m = map G l.
Proof.
  revert m; induction l as [|a r IH]; intros [|b m]; simpl; intros E H; try discriminate; [reflexivity|].
  f_equal; [apply H; left; reflexivity | apply IH; [congruence | intros; apply H; right; assumption]].
Qed.

Lemma in_combine_both {A B} (l : list A) (m : list B) a b : In (a, b) (combine l m) -> In a l /\ In b m.
Proof. intros H. split; [eapply in_combine_l | eapply in_combine_r]; exact H. Qed.

Lemma Forall2_in_l {A B} (R : A -> B -> Prop) l m a : Forall2 R l m -> In a l -> exists b, In b m /\ R a b.
Proof.
  induction 1 as [|x y l m Hxy _ IH]; simpl; intros Hin; [contradiction|].
  destruct Hin as [E|Hin]; [subst; exists y; split; [left; reflexivity | exact Hxy]|].
  destruct (IH Hin) as [b [Hb Hr]]. exists b. split; [right; exact Hb | exact Hr].
Qed.

Lemma iso_len s t' : iso s t' -> length (uids s) = length (uids t').
Proof.
  revert t'. induction s as [n ch IH] using tree_ind2. intros t' Hi. inversion Hi; subst. simpl. f_equal.
  clear -IH H4. induction H4; simpl; [reflexivity|]. inversion IH; subst.
  rewrite !app_length. f_equal; auto.
Qed.

Lemma iso_root_in s : In (root_uid s) (uids s).
Proof. destruct s; simpl; left; reflexivity. Qed.

Lemma look_head k v r : look ((k, v) :: r) k = v.
Proof. unfold look. simpl. rewrite N.eqb_refl. reflexivity. Qed.

Lemma look_skip k v r x : x <> k -> look ((k, v) :: r) x = look r x.
Proof. intros H. unfold look. simpl. destruct (N.eqb x k) eqn:E; [apply N.eqb_eq in E; contradiction | reflexivity]. Qed.

Lemma look_combine_root c c' : iso c c' -> look (combine (uids c) (uids c')) (root_uid c) = root_uid c'.
Proof. intros Hi. inversion Hi; subst. simpl. apply look_head. Qed.

(* inside the concatenation of the children's zips, a uid of child c is looked up in c's own zip *)
Lemma look_children ch : forall ch',
  Forall2 iso ch ch' -> NoDup (flat_map uids ch) ->
  forall c c', In (c, c') (combine ch ch') -> forall x, In x (uids c) ->
  look (combine (flat_map uids ch) (flat_map uids ch')) x = look (combine (uids c) (uids c')) x.
Proof.
  induction ch as [|a r IH]; intros ch' HF Hnd c c' Hin x Hx; inversion HF; subst; simpl in *; [contradiction|].
  rewrite combine_app by (apply iso_len; assumption).
  apply NoDup_app_parts in Hnd. destruct Hnd as [Hnd1 [Hnd2 Hdisj]].
  unfold look. destruct Hin as [E|Hin].
  - inversion E; subst. rewrite assocN_app_in; [reflexivity|].
    rewrite map_fst_combine by (apply iso_len; assumption). exact Hx.
  - rewrite assocN_app_notin.
    + apply (IH _ H3 Hnd2 _ _ Hin _ Hx).
    + rewrite map_fst_combine by (apply iso_len; assumption). intros Hxa. apply (Hdisj x Hxa).
      apply in_flat_map. exists c. split; [apply (in_combine_both _ _ _ _ Hin) | exact Hx].
Qed.

Lemma look_roots (F : uid -> uid) ch : forall ch',
  length ch = length ch' -> NoDup (map root_uid ch) ->
  (forall c c', In (c, c') (combine ch ch') -> F (root_uid c) = root_uid c') ->
  forall x, In x (map root_uid ch) -> look (combine (map root_uid ch) (map root_uid ch')) x = F x.
Proof.
  induction ch as [|c r IHc]; intros [|c' r'] Hlen Hndr Hroot x Hx; simpl in *; try discriminate; [contradiction|].
  inversion Hndr as [|a l Hna Hnd]; subst. destruct Hx as [E|Hx].
  - subst. rewrite look_head. symmetry. apply Hroot. left. reflexivity.
  - rewrite look_skip by (intros E; subst; contradiction).
    apply IHc; [congruence | assumption | | assumption]. intros a b Hab. apply Hroot. right. exact Hab.
Qed.

(* relabelling depends only on the uids mentioned in the tree; under [iso] all mentioned uids are entity uids *)
Lemma relabel_ext f g s : forall t', iso s t' -> (forall x, In x (uids s) -> f x = g x) -> relabel f s = relabel g s.
Proof.
  induction s as [n ch IH] using tree_ind2. intros t' Hi Hfg. inversion Hi as [n0 n' ch0 ch' Hpl Hpg Hch]; subst.
  simpl. f_equal.
  - f_equal; [apply Hfg; simpl; left; reflexivity|].
    clear -Hpg Hfg. induction Hpg as [|a b l m [_ [Hincl _]] _ IHp]; simpl; [reflexivity|]. f_equal; [|exact IHp].
    unfold relabel_pg. f_equal. apply map_ext_in. intros x Hx. apply Hfg. simpl. right.
    apply Hincl in Hx. apply in_map_iff in Hx. destruct Hx as [c [Ec Hc]]. apply in_flat_map. exists c. split; [exact Hc|].
    subst. apply iso_root_in.
  - apply map_ext_in. intros c Hc. rewrite Forall_forall in IH.
    destruct (Forall2_in_l _ _ _ _ Hch Hc) as [c' [_ Hic]].
    apply (IH c Hc c' Hic). intros x Hx. apply Hfg. simpl. right. apply in_flat_map. exists c. split; assumption.
Qed.

(* erasing property-group uids *)
Lemma erase_pg_relabel f g : erase_pg (relabel_pg f g) = relabel_pg f g.
Proof. reflexivity. Qed.

Theorem iso_relabel : forall s t',
  iso s t' -> NoDup (uids s) ->
  erase t' = erase (relabel (look (combine (uids s) (uids t'))) s).
Proof.
  induction s as [n ch IH] using tree_ind2. intros t' Hi Hnd.
  inversion Hi as [n0 n' ch0 ch' Hpl Hpg Hch]; subst.
  simpl in Hnd. inversion Hnd as [|a l Hnot Hnd']; subst.
  set (Z := combine (uids (T n ch)) (uids (T n' ch'))).
  assert (HZ : Z = (nuid n, nuid n') :: combine (flat_map uids ch) (flat_map uids ch')) by reflexivity.
  assert (Hskip : forall x, In x (flat_map uids ch) -> look Z x = look (combine (flat_map uids ch) (flat_map uids ch')) x).
  { intros x Hx. rewrite HZ. apply look_skip. intros E. subst. contradiction. }
  assert (Hlen : length ch = length ch') by (apply (Forall2_len _ _ _ Hch)).
  simpl. f_equal.
  - f_equal.
    + rewrite HZ. symmetry. apply look_head.
    + exact Hpl.
    + rewrite map_map.
      assert (Hroot : forall c c', In (c, c') (combine ch ch') -> look Z (root_uid c) = root_uid c').
      { intros c c' Hin. rewrite Hskip.
        - rewrite (look_children ch ch' Hch Hnd' c c' Hin) by apply iso_root_in.
          apply look_combine_root. apply (Forall2_combine_in _ _ _ _ _ Hch Hin).
        - apply in_flat_map. exists c. split; [apply (in_combine_both _ _ _ _ Hin) | apply iso_root_in]. }
      assert (Hcm : forall x, In x (map root_uid ch) ->
                     look (combine (map root_uid ch) (map root_uid ch')) x = look Z x).
      { assert (Hndr : NoDup (map root_uid ch)).
        { clear -Hnd'. induction ch as [|c r IHc]; simpl in *; [constructor|].
          apply NoDup_app_parts in Hnd'. destruct Hnd' as [_ [H2 Hd]]. constructor; [|apply IHc; exact H2].
          intros Hin. apply in_map_iff in Hin. destruct Hin as [c2 [E Hc2]].
          apply (Hd (root_uid c)); [apply iso_root_in|]. apply in_flat_map. exists c2. split; [exact Hc2|]. rewrite <- E. apply iso_root_in. }
        intros x Hx. apply (look_roots (look Z) ch ch' Hlen Hndr Hroot x Hx). }
      clear -Hpg Hcm. induction Hpg as [|a b l m [Ht [Hincl Hp]] _ IHp]; simpl; [reflexivity|]. f_equal; [|exact IHp].
      unfold erase_pg, relabel_pg. simpl. f_equal; [exact Ht|]. rewrite Hp. apply map_ext_in. intros x Hx. apply Hcm. apply Hincl. exact Hx.
  - rewrite map_map. apply map_eq_combine; [exact Hlen|]. intros c c' Hin.
    assert (Hic : iso c c') by apply (Forall2_combine_in _ _ _ _ _ Hch Hin).
    assert (Hcin : In c ch) by apply (in_combine_both _ _ _ _ Hin).
    rewrite Forall_forall in IH.
    assert (Hndc : NoDup (uids c)).
    { clear -Hnd' Hcin. induction ch as [|a r IHr]; simpl in *; [contradiction|].
      apply NoDup_app_parts in Hnd'. destruct Hnd' as [H1 [H2 _]]. destruct Hcin as [E|Hc]; [subst; exact H1 | apply IHr; assumption]. }
    rewrite (IH c Hcin c' Hic Hndc). f_equal.
    apply (relabel_ext _ _ c c' Hic). intros x Hx.
    rewrite Hskip by (apply in_flat_map; exists c; split; assumption).
    symmetry. apply (look_children ch ch' Hch Hnd' c c' Hin x Hx).
Qed.

(* ------------------------------------------------------------------ the specification tree without mask / options *)
(* the source subtree restricted to the entities the copy visits *)
Fixpoint prune (t : tree) : tree :=
  match t with
  | T n ch => T n ((fix go (l : list tree) : list tree :=
                      match l with [] => [] | c :: r => if copied_child (pl n) c then prune c :: go r else go r end) ch)
  end.

Fixpoint prune_list (keep : tree -> bool) (l : list tree) : list tree :=
  match l with [] => [] | c :: r => if keep c then prune c :: prune_list keep r else prune_list keep r end.

Lemma prune_unfold n ch : prune (T n ch) = T n (prune_list (copied_child (pl n)) ch).
Proof.
  simpl. f_equal. induction ch as [|c r IH]; simpl; [reflexivity|]. destruct (copied_child (pl n) c); [f_equal|]; exact IH.
Qed.

(* every child is visited: no CustomGroup below a group, grids hold data only *)
Fixpoint all_copied (t : tree) : Prop :=
  match t with
  | T n ch => (fix all (l : list tree) : Prop :=
                 match l with [] => True | c :: r => copied_child (pl n) c = true /\ all_copied c /\ all r end) ch
  end.

Lemma prune_all t : all_copied t -> prune t = t.
Proof.
  induction t as [n ch IH] using tree_ind2. intros H. rewrite prune_unfold. f_equal.
  simpl in H. induction ch as [|c r IHr]; simpl; [reflexivity|].
  destruct H as [Hc [Ha Hr]]. rewrite Hc. inversion IH; subst. f_equal; [auto | apply IHr; assumption].
Qed.

Definition plain (cx : ctx) : Prop := cmk cx = CNone /\ omit_meta cx = false /\ over cx = [] /\ with_children cx = true.

Lemma masked_payload_none cx p : cmk cx = CNone -> masked_payload cx p = Ok p.
Proof.
  intros H. unfold masked_payload. rewrite H. destruct (knd p); reflexivity.
Qed.

Lemma payload_id p : set_attrs (set_meta p (meta p)) (overrides [] (attrs p)) = p.
Proof. destruct p; reflexivity. Qed.

Lemma child_ctx_plain cx p p' c : cmk cx = CNone -> plain (child_ctx cx p p' c).
Proof.
  intros H. unfold plain, child_ctx; simpl. repeat split. unfold child_cmask. rewrite H.
  destruct (knd p); reflexivity.
Qed.

Theorem spec_tree_plain : forall t cx, plain cx -> spec_tree t cx = Ok (prune t).
Proof.
  induction t as [n ch IH] using tree_ind2. intros cx [Hm [Ho [Hv Hw]]].
  rewrite spec_tree_unfold, prune_unfold, masked_payload_none by exact Hm. cbv zeta.
  rewrite Ho, Hv, Hw, payload_id. simpl negb. cbv iota.
  assert (E : spec_list (copied_child (pl n)) (fun c => spec_tree c (child_ctx cx (pl n) (pl n) c)) ch
              = Ok (prune_list (copied_child (pl n)) ch)).
  { induction ch as [|c r IHr]; simpl; [reflexivity|]. inversion IH; subst.
    destruct (copied_child (pl n) c); [|apply IHr; assumption].
    rewrite H1 by (apply child_ctx_plain; exact Hm). rewrite IHr by assumption. reflexivity. }
  rewrite E. destruct n; reflexivity.
Qed.

(* the uids of the specification tree are the copied uids of the source *)
Fixpoint copied_list (keep : tree -> bool) (l : list tree) : list uid :=
  match l with [] => [] | c :: r => if keep c then copied_uids true c ++ copied_list keep r else copied_list keep r end.

Lemma copied_uids_unfold b n ch :
  copied_uids b (T n ch) = nuid n :: (if b then copied_list (copied_child (pl n)) ch else []).
Proof.
  simpl. f_equal. destruct b; [|reflexivity].
  induction ch as [|c r IH]; simpl; [reflexivity|]. destruct (copied_child (pl n) c); [f_equal|]; exact IH.
Qed.

Lemma spec_tree_uids : forall t cx s, spec_tree t cx = Ok s -> uids s = copied_uids (with_children cx) t.
Proof.
  induction t as [n ch IH] using tree_ind2. intros cx s E.
  rewrite spec_tree_unfold in E. rewrite copied_uids_unfold.
  destruct (masked_payload cx (pl n)) as [p1|]; [|discriminate]. cbv zeta in E.
  destruct (with_children cx); simpl negb in E; cbv iota in E.
  - destruct (spec_list _ _ ch) as [sl|] eqn:Es; [|discriminate]. inversion E; subst. simpl. f_equal.
    clear E. revert sl Es. induction ch as [|c r IHr]; simpl; intros sl Es; [inversion Es; reflexivity|].
    inversion IH; subst. destruct (copied_child (pl n) c).
    + destruct (spec_tree c _) as [c'|] eqn:Ec; [|discriminate]. destruct (spec_list _ _ r) as [r'|] eqn:Er; [|discriminate].
      inversion Es; subst. simpl. f_equal; [apply (H1 _ _ Ec) | apply IHr; [assumption | reflexivity]].
    + apply IHr; assumption.
  - inversion E; subst. reflexivity.
Qed.

Lemma copied_uids_all t : all_copied t -> copied_uids true t = uids t.
Proof.
  induction t as [n ch IH] using tree_ind2. intros H. rewrite copied_uids_unfold. simpl. f_equal.
  simpl in H. induction ch as [|c r IHr]; simpl; [reflexivity|]. destruct H as [Hc [Ha Hr]]. rewrite Hc.
  inversion IH; subst. f_equal; [auto | apply IHr; assumption].
Qed.

(* ------------------------------------------------------------------ identifiers of the copy are new and distinct *)
Definition st_ok (st : cst) : Prop := forall x, In x (used st) -> (x < nxt st)%N.

Lemma alloc_spec u st :
  st_ok st -> (u < nxt st)%N ->
  let v := fst (alloc u st) in let st1 := snd (alloc u st) in
  ~ In v (used st) /\ used st1 = v :: used st /\ (nxt st <= nxt st1)%N /\ st_ok st1 /\ usedpg st1 = usedpg st.
Proof.
  intros Hok Hu. unfold alloc. destruct (memN u (used st)) eqn:E; simpl.
  - repeat split; try lia.
    + intros Hin. apply Hok in Hin. lia.
    + intros x [Hx|Hx]; simpl; [subst; lia | apply Hok in Hx; lia].
  - apply memN_false in E. repeat split; try lia; [exact E|].
    intros x [Hx|Hx]; simpl; [subst; exact Hu | apply Hok; exact Hx].
Qed.

Definition fresh_post (st : cst) (uu : list uid) (st' : cst) : Prop :=
  NoDup uu /\ (forall x, In x uu -> ~ In x (used st))
  /\ (forall x, In x (used st') <-> In x uu \/ In x (used st))
  /\ (nxt st <= nxt st')%N /\ st_ok st'.

Lemma mapM_fresh keep (f : tree -> cst -> res (tree * cst)) l :
  Forall (fun c => forall st c' st', f c st = Ok (c', st') -> st_ok st -> (forall x, In x (uids c) -> (x < nxt st)%N) ->
                   fresh_post st (uids c') st') l ->
  forall st l' st', mapM_st keep f l st = Ok (l', st') -> st_ok st -> (forall x, In x (flat_map uids l) -> (x < nxt st)%N) ->
  fresh_post st (flat_map uids l') st'.
Proof.
  induction 1 as [|c r Hc Hr IH]; simpl; intros st l' st' E Hok Hlt.
  - inversion E; subst. simpl. split; [constructor|]. split; [intros x []|]. split; [intros x; split; [intros Hx; right; exact Hx | intros [[]|Hx]; exact Hx]|]. split; [lia | exact Hok].
  - destruct (keep c).
    + destruct (f c st) as [[c' st1]|] eqn:Ef; [|discriminate].
      destruct (mapM_st keep f r st1) as [[r' st2]|] eqn:Er; [|discriminate]. inversion E; subst.
      destruct (Hc _ _ _ Ef Hok) as [N1 [D1 [U1 [L1 O1]]]]; [intros x Hx; apply Hlt; apply in_or_app; left; exact Hx|].
      destruct (IH _ _ _ Er O1) as [N2 [D2 [U2 [L2 O2]]]]; [intros x Hx; apply N.lt_le_trans with (nxt st); [apply Hlt; apply in_or_app; right; exact Hx | exact L1]|].
      simpl. repeat split.
      * apply NoDup_app_join; [exact N1 | exact N2 |]. intros x Hx1 Hx2. apply (D2 x Hx2). apply U1. left. exact Hx1.
      * intros x Hx Hin. apply in_app_or in Hx. destruct Hx as [Hx|Hx]; [apply (D1 x Hx Hin) | apply (D2 x Hx); apply U1; right; exact Hin].
      * intros Hx. apply U2 in Hx. destruct Hx as [Hx|Hx]; [left; apply in_or_app; right; exact Hx|].
        apply U1 in Hx. destruct Hx as [Hx|Hx]; [left; apply in_or_app; left; exact Hx | right; exact Hx].
      * intros [Hx|Hx]; apply U2; [apply in_app_or in Hx; destruct Hx as [Hx|Hx]; [right; apply U1; left; exact Hx | left; exact Hx] | right; apply U1; right; exact Hx].
      * lia.
      * exact O2.
    + apply (IH _ _ _ E Hok). intros x Hx. apply Hlt. apply in_or_app. right. exact Hx.
Qed.

Theorem copy_tree_fresh : forall t cx st t' st',
  copy_tree t cx st = Ok (t', st') -> st_ok st -> (forall x, In x (uids t) -> (x < nxt st)%N) ->
  fresh_post st (uids t') st'.
Proof.
  induction t as [n ch IH] using tree_ind2. intros cx st t' st' E Hok Hlt. simpl in E.
  destruct (masked_payload cx (pl n)) as [p1|]; [|discriminate]. cbv zeta in E.
  destruct (alloc_spec (nuid n) st Hok) as [A1 [A2 [A3 [A4 A5]]]]; [apply Hlt; simpl; left; reflexivity|].
  set (u := fst (alloc (nuid n) st)) in *. set (st1 := snd (alloc (nuid n) st)) in *.
  destruct (negb (with_children cx)).
  - inversion E; subst. simpl. repeat split.
    + constructor; [intros []|constructor].
    + intros x [Hx|[]]. subst. exact A1.
    + intros Hx. fold st1 in Hx. rewrite A2 in Hx. destruct Hx as [Hx|Hx]; [left; left; exact Hx | right; exact Hx].
    + intros [[Hx|[]]|Hx]; fold st1; rewrite A2; [left; exact Hx | right; exact Hx].
    + exact A3.
    + exact A4.
  - destruct (mapM_st _ _ ch st1) as [[ch' st2]|] eqn:Em; [|discriminate].
    destruct (copy_pgs _ (npgs n) st2) as [[pgs' st3]|] eqn:Ep; [|discriminate]. inversion E; subst.
    assert (HF : Forall (fun c => forall st0 c' st0',
                  copy_tree c (child_ctx cx (pl n) (set_attrs (set_meta p1 (if omit_meta cx then None else meta p1)) (overrides (over cx) (attrs p1))) c) st0 = Ok (c', st0') ->
                  st_ok st0 -> (forall x, In x (uids c) -> (x < nxt st0)%N) -> fresh_post st0 (uids c') st0') ch).
    { apply Forall_forall. intros c Hc st0 c' st0' Hcopy. rewrite Forall_forall in IH. apply (IH c Hc _ _ _ _ Hcopy). }
    destruct (mapM_fresh _ _ ch HF _ _ _ Em A4) as [N2 [D2 [U2 [L2 O2]]]].
    { intros x Hx. apply N.lt_le_trans with (nxt st); [apply Hlt; simpl; right; exact Hx | exact A3]. }
    apply copy_pgs_spec in Ep. destruct Ep as [_ [Eu En]].
    simpl. repeat split.
    + constructor; [|exact N2]. intros Hin. apply (D2 _ Hin). rewrite A2. left. reflexivity.
    + intros x [Hx|Hx] Hin; [subst; exact (A1 Hin) | apply (D2 x Hx); rewrite A2; right; exact Hin].
    + rewrite Eu. intros Hx. apply U2 in Hx. destruct Hx as [Hx|Hx]; [left; right; exact Hx|].
      rewrite A2 in Hx. destruct Hx as [Hx|Hx]; [left; left; exact Hx | right; exact Hx].
    + rewrite Eu. intros [[Hx|Hx]|Hx]; apply U2; [right; rewrite A2; left; exact Hx | left; exact Hx | right; rewrite A2; right; exact Hx].
    + lia.
    + intros x Hx. rewrite Eu in Hx. apply O2 in Hx. lia.
Qed.

(* ------------------------------------------------------------------ lookups, insertion, update *)
Fixpoint tfind_list (u : uid) (l : list tree) : option tree :=
  match l with [] => None | c :: r => match tfind u c with Some x => Some x | None => tfind_list u r end end.

Lemma tfind_unfold u n ch : tfind u (T n ch) = if N.eqb u (nuid n) then Some (T n ch) else tfind_list u ch.
Proof.
  simpl. destruct (N.eqb u (nuid n)); [reflexivity|].
  induction ch as [|c r IH]; simpl; [reflexivity|]. destruct (tfind u c); [reflexivity | exact IH].
Qed.

Lemma tfind_notin : forall t u, ~ In u (uids t) -> tfind u t = None.
Proof.
  induction t as [n ch IH] using tree_ind2. intros u Hn. rewrite tfind_unfold.
  destruct (N.eqb u (nuid n)) eqn:E; [apply N.eqb_eq in E; subst; exfalso; apply Hn; simpl; left; reflexivity|].
  simpl in Hn. induction ch as [|c r IHr]; simpl; [reflexivity|]. inversion IH; subst.
  rewrite H1 by (intros Hin; apply Hn; right; apply in_or_app; left; exact Hin).
  apply IHr; [assumption|]. intros [Hx|Hx]; apply Hn; [left; exact Hx | right; simpl; apply in_or_app; right; exact Hx].
Qed.

Lemma tfind_some : forall t u x, tfind u t = Some x -> root_uid x = u /\ incl (uids x) (uids t).
Proof.
  induction t as [n ch IH] using tree_ind2. intros u x E. rewrite tfind_unfold in E.
  destruct (N.eqb u (nuid n)) eqn:Eu.
  - inversion E; subst. apply N.eqb_eq in Eu. split; [symmetry; exact Eu | apply incl_refl].
  - induction ch as [|c r IHr]; simpl in E; [discriminate|]. inversion IH; subst.
    destruct (tfind u c) eqn:Ec.
    + inversion E; subst. destruct (H1 _ _ Ec) as [Hr Hi]. split; [exact Hr|].
      intros y Hy. simpl. right. apply in_or_app. left. apply Hi. exact Hy.
    + destruct (IHr H2 E) as [Hr Hi]. split; [exact Hr|]. intros y Hy. apply Hi in Hy. simpl in *.
      destruct Hy as [Hy|Hy]; [left; exact Hy | right; apply in_or_app; right; exact Hy].
Qed.

Lemma tfind_in t u x : tfind u t = Some x -> In u (uids t).
Proof. intros E. destruct (tfind_some _ _ _ E) as [Hr Hi]. apply Hi. rewrite <- Hr. apply iso_root_in. Qed.

Lemma insert_root p x t : root_node (insert_child p x t) = root_node t.
Proof. destruct t as [n ch]. simpl. destruct (N.eqb p (nuid n)); reflexivity. Qed.

Lemma insert_root_uid p x t : root_uid (insert_child p x t) = root_uid t.
Proof. unfold root_uid. rewrite insert_root. reflexivity. Qed.

Lemma insert_notin : forall t p x, ~ In p (uids t) -> insert_child p x t = t.
Proof.
  induction t as [n ch IH] using tree_ind2. intros p x Hn. simpl.
  destruct (N.eqb p (nuid n)) eqn:E; [apply N.eqb_eq in E; subst; exfalso; apply Hn; simpl; left; reflexivity|].
  f_equal. simpl in Hn. induction ch as [|c r IHr]; simpl; [reflexivity|]. inversion IH; subst. f_equal.
  - apply H1. intros Hin. apply Hn. right. apply in_or_app. left. exact Hin.
  - apply IHr; [assumption|]. intros [Hx|Hx]; apply Hn; [left; exact Hx | right; apply in_or_app; right; exact Hx].
Qed.

(* an entity other than the target parent keeps its record and its list of children *)
Lemma insert_view_other : forall t p x u,
  u <> p -> ~ In u (uids x) ->
  option_map node_view (tfind u (insert_child p x t)) = option_map node_view (tfind u t).
Proof.
  induction t as [n ch IH] using tree_ind2. intros p x u Hup Hux.
  simpl insert_child. destruct (N.eqb p (nuid n)) eqn:Ep.
  - apply N.eqb_eq in Ep. subst p. rewrite !tfind_unfold.
    destruct (N.eqb u (nuid n)) eqn:Eu; [apply N.eqb_eq in Eu; contradiction|].
    clear IH. induction ch as [|c r IHr]; simpl.
    + rewrite (tfind_notin x u Hux). reflexivity.
    + destruct (tfind u c); [reflexivity | exact IHr].
  - rewrite !tfind_unfold. destruct (N.eqb u (nuid n)) eqn:Eu.
    + simpl. unfold node_view. simpl. rewrite map_map. f_equal. f_equal. apply map_ext. intros c. apply insert_root_uid.
    + induction ch as [|c r IHr]; simpl; [reflexivity|]. inversion IH; subst.
      specialize (H1 p x u Hup Hux).
      destruct (tfind u (insert_child p x c)) eqn:E1; destruct (tfind u c) eqn:E2; simpl in H1; try discriminate.
      * exact H1.
      * apply IHr. assumption.
Qed.

(* the target parent keeps its record and gains the copy as last child *)
Lemma insert_view_parent : forall t p x tp,
  tfind p t = Some tp ->
  option_map node_view (tfind p (insert_child p x t)) = Some (root_node tp, map root_uid (children tp) ++ [root_uid x]).
Proof.
  induction t as [n ch IH] using tree_ind2. intros p x tp E.
  simpl insert_child. destruct (N.eqb p (nuid n)) eqn:Ep.
  - rewrite tfind_unfold in E. rewrite Ep in E. inversion E; subst. rewrite tfind_unfold. rewrite Ep. simpl.
    unfold node_view. simpl. rewrite map_app. reflexivity.
  - rewrite tfind_unfold in *. rewrite Ep in *.
    induction ch as [|c r IHr]; simpl in *; [discriminate|]. inversion IH; subst.
    destruct (tfind p c) eqn:Ec.
    + inversion E; subst. specialize (H1 p x tp Ec).
      destruct (tfind p (insert_child p x c)); simpl in H1; [simpl; exact H1 | discriminate].
    + assert (Hn : tfind p (insert_child p x c) = None).
      { pose proof (tfind_in c p) as Hin.
        destruct (tfind p (insert_child p x c)) eqn:E3; [|reflexivity].
        destruct (in_dec N.eq_dec p (uids c)) as [Hi|Hi].
        - exfalso. clear -Hi Ec. revert Ec. generalize (tfind_notin c p). intros Hnn.
          (* p occurs in c, so tfind finds it *)
          assert (Hs : exists y, tfind p c = Some y).
          { clear Hnn. induction c as [m cs IHc] using tree_ind2. rewrite tfind_unfold.
            destruct (N.eqb p (nuid m)) eqn:Em; [eexists; reflexivity|].
            simpl in Hi. destruct Hi as [Hi|Hi]; [subst; rewrite N.eqb_refl in Em; discriminate|].
            induction cs as [|d ds IHd]; simpl in *; [contradiction|]. inversion IHc; subst.
            apply in_app_or in Hi. destruct (tfind p d) eqn:Ed; [eexists; reflexivity|].
            destruct Hi as [Hi|Hi]; [destruct (H1 Hi) as [y Hy]; congruence | apply IHd; assumption]. }
          destruct Hs as [y Hy]. congruence.
        - rewrite (insert_notin c p x Hi) in E3. congruence. }
      rewrite Hn. apply IHr; assumption.
Qed.

(* a subtree that does not contain the target parent is untouched *)
Lemma insert_subtree_same : forall t p x u s,
  tfind u t = Some s -> ~ In p (uids s) -> ~ In u (uids x) -> tfind u (insert_child p x t) = Some s.
Proof.
  induction t as [n ch IH] using tree_ind2. intros p x u s E Hp Hux.
  rewrite tfind_unfold in E. destruct (N.eqb u (nuid n)) eqn:Eu.
  - inversion E; subst. rewrite (insert_notin _ p x Hp). rewrite tfind_unfold, Eu. reflexivity.
  - simpl insert_child. destruct (N.eqb p (nuid n)) eqn:Ep.
    + rewrite tfind_unfold, Eu. clear IH. induction ch as [|c r IHr]; simpl in *; [discriminate|].
      destruct (tfind u c); [exact E | apply IHr; exact E].
    + rewrite tfind_unfold, Eu. induction ch as [|c r IHr]; simpl in *; [discriminate|]. inversion IH; subst.
      destruct (tfind u c) eqn:Ec.
      * inversion E; subst. rewrite (H1 p x u s Ec Hp Hux). reflexivity.
      * pose proof (insert_view_other c p x u) as Hv.
        destruct (N.eq_dec u p) as [Eup|Nup].
        -- subst p. exfalso. apply Hp.
           (* the found subtree is rooted at u *)
           assert (Hr : root_uid s = u).
           { clear -E. induction r as [|d ds IHd]; simpl in E; [discriminate|]. destruct (tfind u d) eqn:Ed; [inversion E; subst; apply (tfind_some _ _ _ Ed) | apply IHd; exact E]. }
           rewrite <- Hr. apply iso_root_in.
        -- specialize (Hv Nup Hux). rewrite Ec in Hv. destruct (tfind u (insert_child p x c)); [simpl in Hv; discriminate|].
           apply IHr; assumption.
Qed.

Lemma update_root_uid y f t : (forall n, nuid (f n) = nuid n) -> root_uid (update_node y f t) = root_uid t.
Proof. intros Hf. destruct t as [n ch]. simpl. destruct (N.eqb y (nuid n)); simpl; [apply Hf | reflexivity]. Qed.

(* editing entity y leaves the record and the children list of every other entity unchanged *)
Lemma update_view_other : forall t y f u,
  (forall n, nuid (f n) = nuid n) -> u <> y ->
  option_map node_view (tfind u (update_node y f t)) = option_map node_view (tfind u t).
Proof.
  induction t as [n ch IH] using tree_ind2. intros y f u Hf Huy. simpl update_node.
  destruct (N.eqb y (nuid n)) eqn:Ey.
  - apply N.eqb_eq in Ey. rewrite !tfind_unfold. rewrite Hf.
    destruct (N.eqb u (nuid n)) eqn:Eu; [apply N.eqb_eq in Eu; congruence | reflexivity].
  - rewrite !tfind_unfold. destruct (N.eqb u (nuid n)) eqn:Eu.
    + simpl. unfold node_view. simpl. rewrite map_map. f_equal. f_equal. apply map_ext. intros c. apply update_root_uid. exact Hf.
    + induction ch as [|c r IHr]; simpl; [reflexivity|]. inversion IH; subst.
      specialize (H1 y f u Hf Huy).
      destruct (tfind u (update_node y f c)) eqn:E1; destruct (tfind u c) eqn:E2; simpl in H1; try discriminate.
      * exact H1.
      * apply IHr. assumption.
Qed.

(* ------------------------------------------------------------------ the world-level copy *)
Lemma ws_set_same w b t nx : ws (set_ws w b t nx) b = t.
Proof. destruct b; reflexivity. Qed.
Lemma ws_set_other w b t nx : ws (set_ws w b t nx) (negb b) = ws w (negb b).
Proof. destruct b; reflexivity. Qed.
Lemma heap_set w b t nx : heap (set_ws w b t nx) = heap w.
Proof. destruct b; reflexivity. Qed.
Lemma wnext_set w b t nx : wnext (set_ws w b t nx) = nx.
Proof. destruct b; reflexivity. Qed.

Definition st0_of (w : world) (tws : bool) : cst :=
  {| used := uids (ws w tws); usedpg := pguids (ws w tws); nxt := wnext w |}.

Lemma copy_core w sws u tws p o w' nu r :
  copy w sws u tws p o = Ok (w', nu, r) ->
  exists t tp t' st',
    tfind u (ws w sws) = Some t /\ tfind p (ws w tws) = Some tp
    /\ (Bool.eqb sws tws && memN p (uids t) = false)
    /\ nocopy (pl (root_node t)) = false
    /\ copy_tree t (top_ctx o (pl (root_node tp))) (st0_of w tws) = Ok (t', st')
    /\ nu = root_uid t' /\ r = combine (copied_uids (o_children o) t) (uids t')
    /\ let w1 := set_ws w tws (insert_child p t' (ws w tws)) (nxt st') in
       w' = if clears o t then set_ws w1 sws (replace_tree u (clear_src (o_children o) t) (ws w1 sws)) (wnext w1) else w1.
Proof.
  unfold copy. destruct (tfind u (ws w sws)) as [t|] eqn:Et; [|discriminate].
  destruct (tfind p (ws w tws)) as [tp|] eqn:Ep; [|discriminate].
  destruct (Bool.eqb sws tws && memN p (uids t)) eqn:Ec; [discriminate|].
  destruct (nocopy (pl (root_node t))) eqn:En; [discriminate|].
  destruct (negb (parent_ok _ _)); [discriminate|].
  fold (st0_of w tws).
  destruct (copy_tree t _ _) as [[t' st']|] eqn:Ect; [|discriminate]. cbv zeta. intros E. inversion E; subst.
  exists t, tp, t', st'. repeat split; try reflexivity; assumption.
Qed.

Definition world_ok (w : world) : Prop :=
  (forall x, In x (uids (wsA w)) -> (x < wnext w)%N) /\ (forall x, In x (uids (wsB w)) -> (x < wnext w)%N).

Lemma world_ok_ws w b : world_ok w -> forall x, In x (uids (ws w b)) -> (x < wnext w)%N.
Proof. intros [Ha Hb]. destruct b; assumption. Qed.

Theorem copy_frame w sws u tws p o w' nu r :
  copy w sws u tws p o = Ok (w', nu, r) -> o_clear o = false -> world_ok w ->
  heap w' = heap w
  /\ ws w' (negb tws) = ws w (negb tws)
  /\ (forall x, x <> p -> In x (uids (ws w tws)) -> node_of x (ws w' tws) = node_of x (ws w tws))
  /\ (exists n kids, node_of p (ws w tws) = Some (n, kids) /\ node_of p (ws w' tws) = Some (n, kids ++ [nu]))
  /\ ~ In nu (uids (ws w tws))
  /\ tfind u (ws w' sws) = tfind u (ws w sws).
Proof.
  intros Hc Hclr Hok. destruct (copy_core _ _ _ _ _ _ _ _ _ Hc) as [t [tp [t' [st' [Et [Ep [Hrec [_ [Hct [Hnu [_ Hw]]]]]]]]]]].
  cbv zeta in Hw. unfold clears in Hw. rewrite Hclr in Hw. simpl in Hw. subst w' nu.
  assert (Hst : st_ok (st0_of w tws)) by (intros x Hx; simpl in *; apply (world_ok_ws w tws Hok x Hx)).
  assert (Hsrc : forall x, In x (uids t) -> (x < nxt (st0_of w tws))%N).
  { intros x Hx. simpl. apply (world_ok_ws w sws Hok). apply (proj2 (tfind_some _ _ _ Et)). exact Hx. }
  destruct (copy_tree_fresh _ _ _ _ _ Hct Hst Hsrc) as [Hnd [Hdisj _]]. simpl in Hdisj.
  rewrite heap_set, ws_set_other, ws_set_same. repeat split.
  - intros x Hxp Hx. unfold node_of. apply insert_view_other; [exact Hxp|]. intros Hin. apply (Hdisj x Hin Hx).
  - exists (root_node tp), (map root_uid (children tp)). split.
    + unfold node_of. rewrite Ep. reflexivity.
    + unfold node_of. apply insert_view_parent. exact Ep.
  - apply Hdisj. apply iso_root_in.
  - destruct (Bool.eqb sws tws) eqn:Eb.
    + apply eqb_prop in Eb. subst tws. rewrite ws_set_same. rewrite Et. apply insert_subtree_same; [exact Et | |].
      * simpl in Hrec. apply memN_false. exact Hrec.
      * intros Hin. apply (Hdisj u Hin). apply (tfind_in _ _ _ Et).
    + assert (sws = negb tws) by (destruct sws, tws; simpl in Eb; try discriminate; reflexivity). subst sws.
      rewrite ws_set_other. reflexivity.
Qed.

Lemma map_id_in {A} (f : A -> A) l : (forall a, In a l -> f a = a) -> map f l = l.
Proof. induction l as [|a r IH]; simpl; intros H; [reflexivity|]. f_equal; [apply H; left; reflexivity | apply IH; intros; apply H; right; assumption]. Qed.

(* ------------------------------------------------------------------ uids after the insertion *)
Lemma insert_uids_perm : forall t p x,
  In p (uids t) -> NoDup (uids t) -> Permutation (uids (insert_child p x t)) (uids t ++ uids x).
Proof.
  induction t as [n ch IH] using tree_ind2. intros p x Hin Hnd. simpl insert_child.
  destruct (N.eqb p (nuid n)) eqn:Ep.
  - simpl. apply perm_skip. rewrite flat_map_app. simpl. rewrite app_nil_r. apply Permutation_refl.
  - simpl in Hin. destruct Hin as [Hin|Hin]; [subst; rewrite N.eqb_refl in Ep; discriminate|].
    simpl. apply perm_skip. simpl in Hnd. inversion Hnd as [|a l _ Hnd']; subst. clear Hnd.
    induction ch as [|c r IHr]; simpl in *; [contradiction|]. inversion IH; subst.
    apply NoDup_app_parts in Hnd'. destruct Hnd' as [Hc [Hr Hd]].
    apply in_app_or in Hin. destruct Hin as [Hin|Hin].
    + assert (Er : map (insert_child p x) r = r).
      { apply map_id_in. intros d Hd'. apply insert_notin. intros Hp. apply (Hd p Hin). apply in_flat_map. exists d. split; assumption. }
      rewrite Er. eapply Permutation_trans; [apply Permutation_app_tail; apply (H1 p x Hin Hc)|].
      rewrite <- !app_assoc. apply Permutation_app_head. apply Permutation_app_comm.
    + assert (Ec : insert_child p x c = c) by (apply insert_notin; intros Hp; apply (Hd p Hp Hin)).
      rewrite Ec. rewrite <- app_assoc. apply Permutation_app_head. apply IHr; assumption.
Qed.

Theorem copy_uids_unique w sws u tws p o w' nu r :
  copy w sws u tws p o = Ok (w', nu, r) -> o_clear o = false -> world_ok w ->
  NoDup (uids (ws w tws)) -> NoDup (uids (ws w' tws)).
Proof.
  intros Hc Hclr Hok Hnd. destruct (copy_core _ _ _ _ _ _ _ _ _ Hc) as [t [tp [t' [st' [Et [Ep [Hrec [_ [Hct [Hnu [_ Hw]]]]]]]]]]].
  cbv zeta in Hw. unfold clears in Hw. rewrite Hclr in Hw. simpl in Hw. subst w' nu.
  assert (Hst : st_ok (st0_of w tws)) by (intros x Hx; simpl in *; apply (world_ok_ws w tws Hok x Hx)).
  assert (Hsrc : forall x, In x (uids t) -> (x < nxt (st0_of w tws))%N).
  { intros x Hx. simpl. apply (world_ok_ws w sws Hok). apply (proj2 (tfind_some _ _ _ Et)). exact Hx. }
  destruct (copy_tree_fresh _ _ _ _ _ Hct Hst Hsrc) as [Hnd' [Hdisj _]]. simpl in Hdisj.
  rewrite ws_set_same.
  eapply Permutation_NoDup; [apply Permutation_sym; apply insert_uids_perm; [apply (tfind_in _ _ _ Ep) | exact Hnd]|].
  apply NoDup_app_join; [exact Hnd | exact Hnd' |]. intros x Hx Hx'. apply (Hdisj x Hx' Hx).
Qed.

(* the copy is found below the target parent *)
Lemma insert_find_new : forall t p x tp,
  tfind p t = Some tp -> ~ In (root_uid x) (uids t) -> tfind (root_uid x) (insert_child p x t) = Some x.
Proof.
  induction t as [n ch IH] using tree_ind2. intros p x tp E Hn. simpl insert_child.
  assert (Hroot : N.eqb (root_uid x) (nuid n) = false).
  { destruct (N.eqb (root_uid x) (nuid n)) eqn:Ex; [|reflexivity]. apply N.eqb_eq in Ex. exfalso. apply Hn. simpl. left. symmetry. exact Ex. }
  assert (Hself : tfind (root_uid x) x = Some x).
  { destruct x as [m cs]. rewrite tfind_unfold. unfold root_uid. simpl. rewrite N.eqb_refl. reflexivity. }
  rewrite tfind_unfold in E. destruct (N.eqb p (nuid n)) eqn:Ep.
  - rewrite tfind_unfold, Hroot. clear IH E. simpl in Hn.
    induction ch as [|c r IHr]; simpl; [rewrite Hself; reflexivity|].
    rewrite (tfind_notin c) by (intros Hin; apply Hn; right; apply in_or_app; left; exact Hin).
    apply IHr. intros [Hx|Hx]; apply Hn; [left; exact Hx | right; apply in_or_app; right; exact Hx].
  - rewrite tfind_unfold, Hroot. simpl in Hn.
    induction ch as [|c r IHr]; simpl in *; [discriminate|]. inversion IH; subst.
    destruct (tfind p c) eqn:Ec.
    + inversion E; subst. rewrite (H1 p x tp Ec); [reflexivity|]. intros Hin. apply Hn. right. apply in_or_app. left. exact Hin.
    + assert (Hpc : ~ In p (uids c)).
      { intros Hin. clear -Hin Ec. revert Ec. induction c as [m cs IHc] using tree_ind2. rewrite tfind_unfold.
        destruct (N.eqb p (nuid m)) eqn:Em; [discriminate|]. simpl in Hin.
        destruct Hin as [Hin|Hin]; [subst; rewrite N.eqb_refl in Em; discriminate|].
        induction cs as [|d ds IHd]; simpl in *; [contradiction|]. inversion IHc; subst.
        apply in_app_or in Hin. destruct (tfind p d) eqn:Ed; [discriminate|].
        destruct Hin as [Hin|Hin]; [intros _; apply (H1 Hin eq_refl) | apply IHd; assumption]. }
      rewrite (insert_notin c p x Hpc).
      rewrite (tfind_notin c) by (intros Hin; apply Hn; right; apply in_or_app; left; exact Hin).
      apply IHr; [assumption | exact E |]. intros [Hx|Hx]; apply Hn; [left; exact Hx | right; apply in_or_app; right; exact Hx].
Qed.

Lemma copied_uids_incl : forall t b, incl (copied_uids b t) (uids t).
Proof.
  induction t as [n ch IH] using tree_ind2. intros b. rewrite copied_uids_unfold. simpl.
  intros x [Hx|Hx]; [left; exact Hx|]. right. destruct b; [|contradiction].
  induction ch as [|c r IHr]; simpl in *; [contradiction|]. inversion IH; subst.
  destruct (copied_child (pl n) c).
  - apply in_app_or in Hx. apply in_or_app. destruct Hx as [Hx|Hx]; [left; apply (H1 true); exact Hx | right; apply IHr; assumption].
  - apply in_or_app. right. apply IHr; assumption.
Qed.

Lemma copied_uids_nodup : forall t b, NoDup (uids t) -> NoDup (copied_uids b t).
Proof.
  induction t as [n ch IH] using tree_ind2. intros b Hnd. rewrite copied_uids_unfold. simpl in Hnd.
  inversion Hnd as [|a l Hna Hnd']; subst. constructor.
  - intros Hin. apply Hna. destruct b; [|contradiction].
    clear -Hin. induction ch as [|c r IHr]; simpl in *; [contradiction|].
    destruct (copied_child (pl n) c); [|apply in_or_app; right; apply IHr; exact Hin].
    apply in_app_or in Hin. apply in_or_app. destruct Hin as [Hin|Hin]; [left; apply (copied_uids_incl c true); exact Hin | right; apply IHr; exact Hin].
  - destruct b; [|constructor]. clear Hna Hnd. induction ch as [|c r IHr]; simpl in *; [constructor|]. inversion IH; subst.
    apply NoDup_app_parts in Hnd'. destruct Hnd' as [Hc [Hr Hd]].
    destruct (copied_child (pl n) c); [|apply IHr; assumption].
    apply NoDup_app_join; [apply H1; exact Hc | apply IHr; assumption |].
    intros x Hx Hx'. apply (Hd x); [apply (copied_uids_incl c true); exact Hx|].
    clear -Hx'. induction r as [|d ds IHd]; simpl in *; [contradiction|].
    destruct (copied_child (pl n) d); [|apply in_or_app; right; apply IHd; exact Hx'].
    apply in_app_or in Hx'. apply in_or_app. destruct Hx' as [Hx'|Hx']; [left; apply (copied_uids_incl d true); exact Hx' | right; apply IHd; exact Hx'].
Qed.

(* the copy, as seen in the new world, is the specification tree relabelled through the returned uid map *)
Theorem copy_iso_world w sws u tws p o w' nu r :
  copy w sws u tws p o = Ok (w', nu, r) -> o_clear o = false -> world_ok w ->
  exists t tp s t',
    tfind u (ws w sws) = Some t /\ tfind p (ws w tws) = Some tp
    /\ spec_tree t (top_ctx o (pl (root_node tp))) = Ok s
    /\ tfind nu (ws w' tws) = Some t'
    /\ r = combine (uids s) (uids t')
    /\ (NoDup (uids t) -> erase t' = erase (relabel (look r) s)).
Proof.
  intros Hc Hclr Hok. destruct (copy_core _ _ _ _ _ _ _ _ _ Hc) as [t [tp [t' [st' [Et [Ep [Hrec [_ [Hct [Hnu [Hr Hw]]]]]]]]]]].
  cbv zeta in Hw. unfold clears in Hw. rewrite Hclr in Hw. simpl in Hw. subst w' nu.
  destruct (copy_tree_iso _ _ _ _ _ Hct) as [s [Hs Hiso]].
  assert (Hst : st_ok (st0_of w tws)) by (intros x Hx; simpl in *; apply (world_ok_ws w tws Hok x Hx)).
  assert (Hsrc : forall x, In x (uids t) -> (x < nxt (st0_of w tws))%N).
  { intros x Hx. simpl. apply (world_ok_ws w sws Hok). apply (proj2 (tfind_some _ _ _ Et)). exact Hx. }
  destruct (copy_tree_fresh _ _ _ _ _ Hct Hst Hsrc) as [_ [Hdisj _]]. simpl in Hdisj.
  assert (Hu : uids s = copied_uids (o_children o) t) by (apply (spec_tree_uids _ _ _ Hs)).
  exists t, tp, s, t'. repeat split; try assumption.
  - rewrite ws_set_same. apply (insert_find_new _ _ _ _ Ep). apply Hdisj. apply iso_root_in.
  - rewrite Hu. exact Hr.
  - intros Hnd. rewrite Hr, <- Hu. apply iso_relabel; [exact Hiso|]. rewrite Hu. apply copied_uids_nodup. exact Hnd.
Qed.

(* ------------------------------------------------------------------ masks: the copy keeps exactly the selected part *)
Definition rank (m : list bool) (i : nat) : nat := count_true (firstn i m).

Lemma rank_0 m : rank m 0 = 0.
Proof. reflexivity. Qed.
Lemma rank_S b m i : rank (b :: m) (S i) = (if b then 1 else 0) + rank m i.
Proof. unfold rank, count_true. simpl. destruct b; reflexivity. Qed.

Lemma compress_nth {A} : forall (m : list bool) (l : list A) i,
  nth_error m i = Some true -> nth_error (compress m l) (rank m i) = nth_error l i.
Proof.
  induction m as [|b m IH]; intros l i Hm; [destruct i; discriminate|].
  destruct l as [|x l].
  - simpl. destruct (rank (b :: m) i); destruct i; reflexivity.
  - destruct i as [|i]; simpl in Hm.
    + inversion Hm; subst. reflexivity.
    + rewrite rank_S. destruct b; simpl; apply (IH l i Hm).
Qed.

Lemma compress_length {A} : forall (m : list bool) (l : list A), length m = length l -> length (compress m l) = count_true m.
Proof.
  induction m as [|b m IH]; intros [|x l] E; simpl in *; try discriminate; [reflexivity|].
  unfold count_true in *. simpl. destruct b; simpl; rewrite IH by congruence; reflexivity.
Qed.

Lemma new_ids_from_nth : forall m k i, nth_error m i = Some true -> nth i (new_ids_from k m) 1 = k + rank m i.
Proof.
  induction m as [|b m IH]; intros k i Hm; [destruct i; discriminate|].
  destruct i as [|i]; simpl in Hm.
  - inversion Hm; subst. simpl. rewrite rank_0. lia.
  - rewrite rank_S. destruct b; simpl.
    + rewrite (IH (S k) i Hm). lia.
    + rewrite (IH k i Hm). lia.
Qed.

(* every cell of the masked copy joins the same vertex tokens as the source cell it comes from *)
Theorem masked_cell_same_vertices {A} (m : list bool) (vs : list A) (c : list nat) :
  cell_kept m c = true ->
  map (nth_error (compress m vs)) (map (fun v => nth v (new_ids m) 1) c) = map (nth_error vs) c.
Proof.
  intros Hk. unfold cell_kept in Hk. rewrite forallb_forall in Hk. rewrite map_map. apply map_ext_in. intros v Hv.
  specialize (Hk v Hv).
  assert (Hm : nth_error m v = Some true).
  { clear -Hk. revert v Hk. induction m as [|b m IH]; intros [|v] Hk; simpl in *; try discriminate; [congruence | apply IH; exact Hk]. }
  unfold new_ids. rewrite (new_ids_from_nth m 0 v Hm). simpl. apply compress_nth. exact Hm.
Qed.

(* a kept vertex keeps its token; vertices that are masked out are dropped (the lengths add up) *)
Theorem masked_vertices {A} (m : list bool) (vs : list A) i :
  nth_error m i = Some true -> nth_error (compress m vs) (rank m i) = nth_error vs i.
Proof. apply compress_nth. Qed.

Lemma fillmask_nth {A} (nd : option A) : forall m l i,
  length m = length l -> i < length l ->
  nth_error (fillmask nd m l) i = Some (if nth i m false then nth i l None else nd).
Proof.
  induction m as [|b m IH]; intros [|x l] i E Hi; simpl in *; try discriminate; try lia.
  destruct i as [|i]; simpl; [destruct b; reflexivity|]. apply IH; [congruence | lia].
Qed.

(* ------------------------------------------------------------------ metadata locations *)
Lemma masked_payload_meta cx p p1 : masked_payload cx p = Ok p1 -> meta p1 = meta p.
Proof.
  unfold masked_payload. destruct (knd p).
  - intros E; inversion E; reflexivity.
  - destruct (cmk cx) as [|m|m|cm|m cm].
    + intros E; inversion E; reflexivity.
    + destruct (geok p); try (intros E; inversion E; reflexivity);
        destruct (verts p); try (intros E; inversion E; reflexivity);
        destruct (Nat.eqb _ _); intros E; inversion E; reflexivity.
    + intros E; inversion E; reflexivity.
    + destruct (geok p); try (intros E; inversion E; reflexivity);
        destruct (Nat.eqb _ _); intros E; inversion E; reflexivity.
    + destruct (geok p); try (intros E; inversion E; reflexivity);
        destruct (verts p); try (intros E; inversion E; reflexivity);
        destruct (Nat.eqb _ _); try (intros E; inversion E; reflexivity);
        destruct (Nat.eqb _ _); intros E; inversion E; reflexivity.
  - destruct (cmk cx) as [|m|m|cm|m cm]; destruct (vals p) as [v|]; try (intros E; inversion E; reflexivity).
    + destruct (negb _); [discriminate|]. destruct (match asc p with ACell => pnc cx | _ => pnv cx end); [|discriminate].
      intros E; inversion E; reflexivity.
    + destruct (Nat.eqb _ _); intros E; inversion E; reflexivity.
Qed.

Lemma metas_unfold n ch : metas (T n ch) = (match meta (pl n) with Some l => [l] | None => [] end) ++ flat_map metas ch.
Proof. reflexivity. Qed.

Lemma metas_iso : forall s t', iso s t' -> metas t' = metas s.
Proof.
  induction s as [n ch IH] using tree_ind2. intros t' Hi. inversion Hi as [n0 n' ch0 ch' Hpl Hpg Hch]; subst.
  rewrite !metas_unfold, Hpl. f_equal. clear -IH Hch. induction Hch; simpl; [reflexivity|]. inversion IH; subst. f_equal; auto.
Qed.

Lemma metas_spec : forall t cx s, spec_tree t cx = Ok s -> incl (metas s) (metas t).
Proof.
  induction t as [n ch IH] using tree_ind2. intros cx s E. rewrite spec_tree_unfold in E.
  destruct (masked_payload cx (pl n)) as [p1|] eqn:Em; [|discriminate]. cbv zeta in E.
  apply masked_payload_meta in Em.
  assert (Hroot : incl (match (if omit_meta cx then None else meta p1) with Some l => [l] | None => [] end)
                       (match meta (pl n) with Some l => [l] | None => [] end)).
  { rewrite Em. destruct (omit_meta cx); [intros x []|apply incl_refl]. }
  destruct (negb (with_children cx)).
  - inversion E; subst. rewrite !metas_unfold. simpl. rewrite app_nil_r. apply incl_appl.
    destruct p1; simpl in *. exact Hroot.
  - destruct (spec_list _ _ ch) as [sl|] eqn:Es; [|discriminate]. inversion E; subst. rewrite !metas_unfold.
    apply incl_app; [apply incl_appl; destruct p1; simpl in *; exact Hroot|]. apply incl_appr.
    clear E Hroot. revert sl Es. induction ch as [|c r IHr]; simpl; intros sl Es; [inversion Es; intros x []|].
    inversion IH; subst. destruct (copied_child (pl n) c).
    + destruct (spec_tree c _) as [c'|] eqn:Ec; [|discriminate]. destruct (spec_list _ _ r) as [r'|] eqn:Er; [|discriminate].
      inversion Es; subst. simpl. apply incl_app; [apply incl_appl; apply (H1 _ _ Ec) | apply incl_appr; apply IHr; [assumption | reflexivity]].
    + apply incl_appr. apply IHr; assumption.
Qed.

Lemma metas_insert : forall t p x, incl (metas (insert_child p x t)) (metas t ++ metas x).
Proof.
  induction t as [n ch IH] using tree_ind2. intros p x. simpl insert_child. destruct (N.eqb p (nuid n)).
  - rewrite !metas_unfold, flat_map_app. simpl. rewrite app_nil_r, app_assoc. apply incl_refl.
  - rewrite !metas_unfold. apply incl_app; [apply incl_appl; apply incl_appl; apply incl_refl|].
    induction ch as [|c r IHr]; simpl; [intros y []|]. inversion IH; subst. apply incl_app.
    + intros y Hy. apply (H1 p x) in Hy. apply in_app_or in Hy. apply in_or_app.
      destruct Hy as [Hy|Hy]; [left; apply in_or_app; right; apply in_or_app; left; exact Hy | right; exact Hy].
    + intros y Hy. apply (IHr H2) in Hy. apply in_app_or in Hy. apply in_or_app.
      destruct Hy as [Hy|Hy]; [left|right; exact Hy]. apply in_app_or in Hy. apply in_or_app.
      destruct Hy as [Hy|Hy]; [left; exact Hy | right; apply in_or_app; right; exact Hy].
Qed.

Lemma metas_tfind : forall t u s, tfind u t = Some s -> incl (metas s) (metas t).
Proof.
  induction t as [n ch IH] using tree_ind2. intros u s E. rewrite tfind_unfold in E.
  destruct (N.eqb u (nuid n)); [inversion E; apply incl_refl|]. rewrite metas_unfold. apply incl_appr.
  induction ch as [|c r IHr]; simpl in *; [discriminate|]. inversion IH; subst.
  destruct (tfind u c) eqn:Ec; [inversion E; subst; apply incl_appl; apply (H1 _ _ Ec) | apply incl_appr; apply IHr; assumption].
Qed.

Lemma meta_root_in t l : meta (pl (root_node t)) = Some l -> In l (metas t).
Proof. destruct t as [n ch]. simpl. intros E. rewrite E. left. reflexivity. Qed.

Definition locs_ok (w : world) : Prop := forall l, In l (metas (wsA w) ++ metas (wsB w)) -> (l < wnext w)%N.

Lemma locs_ok_ws w b l : locs_ok w -> In l (metas (ws w b)) -> (l < wnext w)%N.
Proof. intros H Hl. apply H. apply in_or_app. destruct b; [right | left]; exact Hl. Qed.

Lemma metas_set_ws w b t nx l :
  In l (metas (wsA (set_ws w b t nx)) ++ metas (wsB (set_ws w b t nx))) -> In l (metas t) \/ In l (metas (ws w (negb b))).
Proof.
  intros H. apply in_app_or in H. destruct b; simpl in *; tauto.
Qed.

(* ------------------------------------------------------------------ edits of the copy *)
Definition deep_of_view (h : list (loc * dictv)) (v : node * list uid) : node * list uid * option dictv :=
  (fst v, snd v, deref h (meta (pl (fst v)))).

Lemma deep_view_eq h t : deep_view h t = deep_of_view h (node_view t).
Proof. reflexivity. Qed.

Lemma deep_of_eq w b x : deep_of w b x = option_map (deep_of_view (heap w)) (node_of x (ws w b)).
Proof. unfold deep_of, node_of. destruct (tfind x (ws w b)); reflexivity. Qed.

Definition edit_fun (e : edit) : option (node -> node) :=
  match e with
  | SetAttr k v => Some (with_pl (fun q => set_attrs q (override1 k v (attrs q))))
  | SetVerts v => Some (with_pl (fun q => set_payload q v (cells q) (vals q)))
  | SetVals v => Some (with_pl (fun q => set_payload q (verts q) (cells q) (Some v)))
  | SetMeta _ => None
  end.

Lemma with_pl_uid f n : nuid (with_pl f n) = nuid n.
Proof. reflexivity. Qed.

(* an edit of entity y that does not write through a shared dict leaves every other entity of both workspaces unchanged *)
Lemma edit_frame w b y ed w'' :
  apply_edit w b y ed = Ok w'' ->
  (forall d, ed = SetMeta d -> exists ty, tfind y (ws w b) = Some ty /\ meta (pl (root_node ty)) = None) ->
  locs_ok w ->
  forall b' x, (b' = b -> x <> y) -> In x (uids (ws w b')) -> deep_of w'' b' x = deep_of w b' x.
Proof.
  intros Ha Hsafe Hlocs b' x Hxy Hx. unfold apply_edit in Ha.
  destruct (tfind y (ws w b)) as [ty|] eqn:Ety; [|discriminate].
  assert (Hupd : forall f, (forall n, nuid (f n) = nuid n) ->
            deep_of (set_ws w b (update_node y f (ws w b)) (wnext w)) b' x = deep_of w b' x).
  { intros f Hf. rewrite !deep_of_eq, heap_set. destruct (Bool.eqb b' b) eqn:Eb.
    - apply eqb_prop in Eb. subst b'. rewrite ws_set_same. unfold node_of. rewrite update_view_other; [reflexivity | exact Hf | apply Hxy; reflexivity].
    - assert (b' = negb b) by (destruct b, b'; simpl in Eb; try discriminate; reflexivity). subst b'. rewrite ws_set_other. reflexivity. }
  destruct ed as [k v|v|v|d].
  - inversion Ha; subst. apply Hupd. intros n. reflexivity.
  - inversion Ha; subst. apply Hupd. intros n. reflexivity.
  - inversion Ha; subst. apply Hupd. intros n. reflexivity.
  - destruct (Hsafe d eq_refl) as [ty' [Ety' Hnone]]. assert (Eq : ty' = ty) by congruence. subst ty'. rewrite Hnone in Ha.
    inversion Ha; subst. clear Ha.
    set (w1 := set_ws w b (update_node y (with_pl (fun q => set_meta q (Some (wnext w)))) (ws w b)) (N.succ (wnext w))).
    assert (Hview : node_of x (ws w1 b') = node_of x (ws w b')).
    { unfold w1. destruct (Bool.eqb b' b) eqn:Eb.
      - apply eqb_prop in Eb. subst b'. rewrite ws_set_same. unfold node_of. apply update_view_other; [intros n; reflexivity | apply Hxy; reflexivity].
      - assert (b' = negb b) by (destruct b, b'; simpl in Eb; try discriminate; reflexivity). subst b'. rewrite ws_set_other. reflexivity. }
    rewrite !deep_of_eq. simpl heap.
    assert (Hws : ws {| wsA := wsA w1; wsB := wsB w1; heap := (wnext w, d) :: heap w; wnext := wnext w1 |} b' = ws w1 b') by (destruct b'; reflexivity).
    rewrite Hws, Hview. unfold node_of. destruct (tfind x (ws w b')) as [tx|] eqn:Etx; [|reflexivity]. simpl.
    unfold deep_of_view. simpl. f_equal. f_equal. unfold deref.
    destruct (meta (pl (root_node tx))) as [l|] eqn:El; [|reflexivity]. simpl.
    assert (Hl : (l < wnext w)%N).
    { apply (locs_ok_ws w b' l Hlocs). apply (metas_tfind _ _ _ Etx). apply meta_root_in. exact El. }
    destruct (N.eqb l (wnext w)) eqn:E; [apply N.eqb_eq in E; lia | reflexivity].
Qed.

Theorem no_alias_partial w sws u tws p o w' nu r tc y ed w'' :
  world_ok w -> locs_ok w ->
  copy w sws u tws p o = Ok (w', nu, r) -> o_clear o = false ->
  tfind nu (ws w' tws) = Some tc -> In y (uids tc) ->
  (forall d, ed = SetMeta d -> exists ty, tfind y (ws w' tws) = Some ty /\ meta (pl (root_node ty)) = None) ->
  apply_edit w' tws y ed = Ok w'' ->
  forall b x, In x (uids (ws w b)) -> deep_of w'' b x = deep_of w' b x.
Proof.
  intros Hok Hlocs Hc Hclr Htc Hy Hsafe Ha b x Hx.
  destruct (copy_core _ _ _ _ _ _ _ _ _ Hc) as [t [tp [t' [st' [Et [Ep [Hrec [_ [Hct [Hnu [Hr Hw]]]]]]]]]]].
  cbv zeta in Hw. unfold clears in Hw. rewrite Hclr in Hw. simpl in Hw.
  assert (Hst : st_ok (st0_of w tws)) by (intros z Hz; simpl in *; apply (world_ok_ws w tws Hok z Hz)).
  assert (Hsrc : forall z, In z (uids t) -> (z < nxt (st0_of w tws))%N).
  { intros z Hz. simpl. apply (world_ok_ws w sws Hok). apply (proj2 (tfind_some _ _ _ Et)). exact Hz. }
  destruct (copy_tree_fresh _ _ _ _ _ Hct Hst Hsrc) as [_ [Hdisj [_ [Hnx _]]]]. simpl in Hdisj, Hnx.
  destruct (copy_tree_iso _ _ _ _ _ Hct) as [s [Hs Hiso]].
  assert (Hfind : tfind nu (ws w' tws) = Some t').
  { subst w' nu. rewrite ws_set_same. apply (insert_find_new _ _ _ _ Ep). apply Hdisj. apply iso_root_in. }
  rewrite Hfind in Htc. inversion Htc; subst tc.
  (* metadata locations of the new world are those of the old one *)
  assert (Hlocs' : locs_ok w').
  { intros l Hl. subst w'. rewrite wnext_set.
    assert (Hin : In l (metas (ws w tws) ++ metas t') \/ In l (metas (ws w (negb tws)))).
    { apply metas_set_ws in Hl. destruct Hl as [Hl|Hl]; [left; apply (metas_insert (ws w tws) p t' l Hl) | right; exact Hl]. }
    apply N.lt_le_trans with (wnext w); [|exact Hnx].
    destruct Hin as [Hin|Hin]; [|apply (locs_ok_ws w (negb tws) l Hlocs Hin)].
    apply in_app_or in Hin. destruct Hin as [Hin|Hin]; [apply (locs_ok_ws w tws l Hlocs Hin)|].
    rewrite (metas_iso _ _ Hiso) in Hin. apply (metas_spec _ _ _ Hs) in Hin. apply (metas_tfind _ _ _ Et) in Hin.
    apply (locs_ok_ws w sws l Hlocs Hin). }
  apply (edit_frame w' tws y ed w'' Ha Hsafe Hlocs').
  - intros Eb Exy. subst b x. apply (Hdisj y Hy Hx).
  - subst w'. destruct (Bool.eqb b tws) eqn:Eb.
    + apply eqb_prop in Eb. subst b. rewrite ws_set_same.
      eapply Permutation_in; [apply Permutation_sym; apply Permutation_refl|].
      destruct (in_dec N.eq_dec x (uids (insert_child p t' (ws w tws)))) as [Hi|Hi]; [exact Hi|].
      exfalso. apply Hi. clear Hi.
      (* insertion only adds uids *)
      clear -Hx. revert Hx. generalize (ws w tws). induction t as [n ch IH] using tree_ind2. intros Hx. simpl insert_child.
      destruct (N.eqb p (nuid n)); simpl in *.
      * destruct Hx as [Hx|Hx]; [left; exact Hx | right; rewrite flat_map_app; apply in_or_app; left; exact Hx].
      * destruct Hx as [Hx|Hx]; [left; exact Hx | right]. apply in_flat_map in Hx. destruct Hx as [c [Hc Hxc]].
        apply in_flat_map. exists (insert_child p t' c). split; [apply in_map; exact Hc|].
        rewrite Forall_forall in IH. apply (IH c Hc Hxc).
    + assert (b = negb tws) by (destruct b, tws; simpl in Eb; try discriminate; reflexivity). subst b. rewrite ws_set_other. exact Hx.
Qed.

(* ------------------------------------------------------------------ the two refuted full statements and their witnesses *)
(* ------------------------------------------------------------------ the cell_mask keyword of CellObject.copy *)
Definition has_cells (p : payload) : Prop := knd p = KObject /\ (geok p = GCells \/ geok p = GCurve).

(* cell mask alone: the constructor of the copy receives every vertex and exactly the selected cells; a cell mask of another
   length is refused *)
Theorem cells_mask_payload cx p p' cm :
  cmk cx = CCells cm -> has_cells p -> masked_payload cx p = Ok p' ->
  length cm = length (cells p) /\ verts p' = verts p /\ cells p' = compress cm (cells p) /\ vals p' = vals p.
Proof.
  intros Hc [Hk Hg] E. unfold masked_payload in E. rewrite Hk, Hc in E.
  assert (E' : (if Nat.eqb (length cm) (length (cells p)) then Ok (set_payload p (verts p) (compress cm (cells p)) (vals p)) else Err EIndex) = Ok p')
    by (destruct Hg as [Hg|Hg]; rewrite Hg in E; exact E).
  destruct (Nat.eqb (length cm) (length (cells p))) eqn:El; [|discriminate]. apply Nat.eqb_eq in El.
  inversion E'; subst p'. repeat split; try reflexivity. exact El.
Qed.

(* vertex mask and cell mask together: the kept vertices, and the SELECTED cells re-indexed over the kept vertices (the explicit
   cell mask replaces the derived "all vertices kept") *)
Theorem both_mask_payload cx p p' m cm :
  cmk cx = CBoth m cm -> has_cells p -> verts p <> [] -> masked_payload cx p = Ok p' ->
  length m = length (verts p) /\ length cm = length (cells p)
  /\ verts p' = compress m (verts p)
  /\ cells p' = map (map (fun v => nth v (new_ids m) 1)) (compress cm (cells p)) /\ vals p' = vals p.
Proof.
  intros Hc [Hk Hg] Hv E. unfold masked_payload in E. rewrite Hk, Hc in E.
  assert (E' : (if Nat.eqb (length m) (length (verts p))
                then if Nat.eqb (length cm) (length (cells p))
                     then Ok (set_payload p (compress m (verts p)) (map (map (fun v => nth v (new_ids m) 1)) (compress cm (cells p))) (vals p))
                     else Err EIndex
                else Err EMaskShape) = Ok p').
  { destruct Hg as [Hg|Hg]; rewrite Hg in E; destruct (verts p); try (exfalso; apply Hv; reflexivity); exact E. }
  destruct (Nat.eqb (length m) (length (verts p))) eqn:E1; [|discriminate].
  destruct (Nat.eqb (length cm) (length (cells p))) eqn:E2; [|discriminate].
  apply Nat.eqb_eq in E1. apply Nat.eqb_eq in E2. inversion E'; subst p'. repeat split; try reflexivity; assumption.
Qed.

Lemma in_compress {A} (x : A) : forall m l, In x (compress m l) -> In x l.
Proof.
  induction m as [|b m IH]; intros [|y l] H; simpl in *; try contradiction.
  destruct b; [destruct H as [H|H]; [left; exact H | right; apply IH; exact H] | right; apply IH; exact H].
Qed.

(* ... and every selected cell whose vertices are all kept joins, in the copy, the same vertex tokens as in the source *)
Theorem both_mask_cells_same_vertices cx p p' m cm c :
  cmk cx = CBoth m cm -> has_cells p -> verts p <> [] -> masked_payload cx p = Ok p' ->
  In c (compress cm (cells p)) -> cell_kept m c = true ->
  In (map (fun v => nth v (new_ids m) 1) c) (cells p')
  /\ map (nth_error (verts p')) (map (fun v => nth v (new_ids m) 1) c) = map (nth_error (verts p)) c.
Proof.
  intros Hc Hh Hv E Hin Hk. destruct (both_mask_payload cx p p' m cm Hc Hh Hv E) as (_ & _ & Ev & Ec & _).
  split; [rewrite Ec; apply in_map; exact Hin|]. rewrite Ev. apply masked_cell_same_vertices. exact Hk.
Qed.

(* which mask each data child receives: CELL data the cell mask, VERTEX data the vertex mask (none when only cells are selected),
   OBJECT-association data none *)
Theorem cell_mask_children cx p c :
  has_cells p -> knd c = KData ->
  (forall cm, cmk cx = CCells cm -> child_cmask cx p c = match asc c with ACell => CMask cm | _ => CNone end)
  /\ (forall m cm, cmk cx = CBoth m cm ->
        child_cmask cx p c = match asc c with AVertex => CMask m | ACell => CMask cm | AObject => CNone end).
Proof.
  intros [Hk Hg] Hc. split; [intros cm H | intros m cm H]; unfold child_cmask; rewrite Hk, H; destruct Hg as [Hg|Hg]; rewrite Hg, Hc; reflexivity.
Qed.

(* Group.copy forwards the vertex mask only *)
Theorem group_forwards_vertex_mask cx p c :
  knd p = KGroup ->
  child_cmask cx p c = match cmk cx with CBoth m _ => CMask m | CCells _ => CNone | x => x end.
Proof. intros H. unfold child_cmask. rewrite H. reflexivity. Qed.

Definition o_plain : opts := {| o_children := true; o_mask := None; o_omit_meta := false; o_over := []; o_clear := false; o_cmask := None |}.
Definition o_clearing : opts := {| o_children := true; o_mask := None; o_omit_meta := false; o_over := []; o_clear := true; o_cmask := None |}.

Definition p_root : payload := mkp 0 KGroup GPlain AObject [] [] [] 0 None None false None.
Definition p_points : payload := mkp 1 KObject GPoints AObject [(5, 6)%Z] [7; 8]%Z [] 0 None (Some 50%N) false None.
Definition p_data : payload := mkp 2 KData GPlain AVertex [] [] [] 0 (Some [Some 3; None]%Z) None false None.
(* root 0 { Points 1 (metadata dict at location 50) { data 2 } property group {2} } ; second workspace: root 9 *)
Definition w_alias : world :=
  {| wsA := T (mkn 0 p_root []) [T (mkn 1 p_points [mkg 3 4%Z [2%N]]) [T (mkn 2 p_data []) []]];
     wsB := T (mkn 9 p_root []) [];
     heap := [(50%N, [(1, 1)%Z])]; wnext := 100%N |}.

(* a curve with 4 vertices and 3 segments, one VERTEX and one CELL data child; copied into the other workspace with the vertex mask
   [0;1;1;1] and the cell mask [0;1;0]: the copy keeps the vertices 21,22,23, the ONE selected segment (1,2) re-indexed to (0,1)
   — not the two segments (1,2),(2,3) that "all vertices kept" would give —, the vertex values 2,3,4 and the cell value 8 *)
Definition p_curve3 : payload := mkp 1 KObject GCurve AObject [] [20; 21; 22; 23]%Z [[0; 1]; [1; 2]; [2; 3]] 0 None None false None.
Definition p_vdata : payload := mkp 2 KData GPlain AVertex [] [] [] 0 (Some [Some 1; Some 2; Some 3; Some 4]%Z) None false None.
Definition p_cdata : payload := mkp 3 KData GPlain ACell [] [] [] 0 (Some [Some 7; Some 8; Some 9]%Z) None false None.
Definition w_cells : world :=
  {| wsA := T (mkn 0 p_root []) [T (mkn 1 p_curve3 []) [T (mkn 2 p_vdata []) []; T (mkn 3 p_cdata []) []]];
     wsB := T (mkn 9 p_root []) [];
     heap := []; wnext := 100%N |}.
Definition o_both : opts :=
  {| o_children := true; o_mask := Some [false; true; true; true]; o_omit_meta := false; o_over := []; o_clear := false;
     o_cmask := Some [false; true; false] |}.
Definition o_cells : opts :=
  {| o_children := true; o_mask := None; o_omit_meta := false; o_over := []; o_clear := false; o_cmask := Some [true; false; true] |}.

Definition geom_of (w : world) (b : bool) (u : uid) : option (list Z * list (list nat) * list (option (list (option Z)))) :=
  match tfind u (ws w b) with
  | Some t => Some (verts (pl (root_node t)), cells (pl (root_node t)), map (fun c => vals (pl (root_node c))) (children t))
  | None => None
  end.

Example cell_mask_nonvacuous :
  (exists w' nu r, copy w_cells false 1%N true 9%N o_both = Ok (w', nu, r)
     /\ geom_of w' true nu = Some ([21; 22; 23]%Z, [[0; 1]], [Some [Some 2; Some 3; Some 4]%Z; Some [Some 8]%Z])
     /\ geom_of w' false 1%N = geom_of w_cells false 1%N)
  /\ (exists w' nu r, copy w_cells false 1%N true 9%N o_cells = Ok (w', nu, r)
     /\ geom_of w' true nu = Some ([20; 21; 22; 23]%Z, [[0; 1]; [2; 3]], [Some [Some 1; Some 2; Some 3; Some 4]%Z; Some [Some 7; Some 9]%Z]))
  /\ copy w_cells false 1%N true 9%N {| o_children := true; o_mask := None; o_omit_meta := false; o_over := []; o_clear := false;
                                          o_cmask := Some [true; false] |} = Err EIndex.
Proof.
  split; [|split].
  - eexists _, _, _. split; [vm_compute; reflexivity|]. split; vm_compute; reflexivity.
  - eexists _, _, _. split; [vm_compute; reflexivity|]. vm_compute; reflexivity.
  - vm_compute. reflexivity.
Qed.

(* later edits of the copy never show through in a pre-existing entity *)
Definition no_alias_full : Prop :=
  forall w sws u tws p o w' nu r tc y ed w'' b x,
    world_ok w -> locs_ok w ->
    copy w sws u tws p o = Ok (w', nu, r) -> o_clear o = false ->
    tfind nu (ws w' tws) = Some tc -> In y (uids tc) ->
    apply_edit w' tws y ed = Ok w'' ->
    In x (uids (ws w b)) -> deep_of w'' b x = deep_of w' b x.

Lemma w_alias_ok : world_ok w_alias /\ locs_ok w_alias.
Proof.
  split; [split|]; intros x Hx; simpl in Hx; repeat (destruct Hx as [Hx|Hx]; [subst; reflexivity|]); contradiction.
Qed.

Theorem no_alias_refuted : ~ no_alias_full.
Proof.
  intros H.
  assert (Hc : exists w' nu r tc w'',
            copy w_alias false 1%N false 0%N o_plain = Ok (w', nu, r) /\ tfind nu (ws w' false) = Some tc /\ In nu (uids tc)
            /\ apply_edit w' false nu (SetMeta [(1, 2)%Z]) = Ok w'' /\ deep_of w'' false 1%N <> deep_of w' false 1%N).
  { eexists _, _, _, _, _. split; [vm_compute; reflexivity|]. split; [vm_compute; reflexivity|]. split; [left; reflexivity|].
    split; [vm_compute; reflexivity|]. vm_compute. discriminate. }
  destruct Hc as (w' & nu & r & tc & w'' & H1 & H2 & H3 & H4 & H5). apply H5.
  apply (H w_alias false 1%N false 0%N o_plain w' nu r tc nu (SetMeta [(1, 2)%Z]) w'' false 1%N
           (proj1 w_alias_ok) (proj2 w_alias_ok) H1 eq_refl H2 H3 H4).
  simpl. right. left. reflexivity.
Qed.

(* the source subtree is the same after the copy *)
Definition source_unchanged_full : Prop :=
  forall w sws u tws p o w' nu r,
    world_ok w -> copy w sws u tws p o = Ok (w', nu, r) -> tfind u (ws w' sws) = tfind u (ws w sws).

(* a Curve with 4 vertices and the single cell [0;1] *)
Definition p_curve : payload := mkp 3 KObject GCurve AObject [] [7; 8; 9; 10]%Z [[0; 1]] 0 None None false None.
Definition w_curve : world :=
  {| wsA := T (mkn 0 p_root []) [T (mkn 1 p_curve []) []]; wsB := T (mkn 9 p_root []) []; heap := []; wnext := 100%N |}.

Lemma w_curve_ok : world_ok w_curve.
Proof. split; intros x Hx; simpl in Hx; repeat (destruct Hx as [Hx|Hx]; [subst; reflexivity|]); contradiction. Qed.

Theorem source_unchanged_refuted : ~ source_unchanged_full.
Proof.
  intros H.
  assert (Hc : exists w' nu r, copy w_curve false 1%N false 0%N o_clearing = Ok (w', nu, r)
                               /\ tfind 1%N (ws w' false) <> tfind 1%N (ws w_curve false)).
  { eexists _, _, _. split; [vm_compute; reflexivity|]. vm_compute. discriminate. }
  destruct Hc as (w' & nu & r & H1 & H2). apply H2. apply (H w_curve false 1%N false 0%N o_clearing w' nu r w_curve_ok H1).
Qed.

Theorem source_unchanged_partial w sws u tws p o w' nu r :
  world_ok w -> o_clear o = false -> copy w sws u tws p o = Ok (w', nu, r) -> tfind u (ws w' sws) = tfind u (ws w sws).
Proof. intros Hok Hclr Hc. apply (copy_frame _ _ _ _ _ _ _ _ _ Hc Hclr Hok). Qed.

(* what clear_cache does to the source: exactly the rebuilt cells, nothing else *)
Example clear_cache_witness :
  exists w' nu r, copy w_curve false 1%N false 0%N o_clearing = Ok (w', nu, r)
    /\ option_map (fun t => cells (pl (root_node t))) (tfind 1%N (ws w' false)) = Some [[0; 1]; [1; 2]; [2; 3]]
    /\ option_map (fun t => cells (pl (root_node t))) (tfind nu (ws w' false)) = Some [[0; 1]].
Proof. eexists _, _, _. split; [vm_compute; reflexivity|]. split; vm_compute; reflexivity. Qed.

(* ------------------------------------------------------------------ packaged statements *)
Theorem copy_tree_relabel t cx st t' st' :
  copy_tree t cx st = Ok (t', st') -> NoDup (uids t) ->
  exists s, spec_tree t cx = Ok s /\ erase t' = erase (relabel (look (combine (uids s) (uids t'))) s).
Proof.
  intros Hc Hnd. destruct (copy_tree_iso _ _ _ _ _ Hc) as [s [Hs Hi]]. exists s. split; [exact Hs|].
  apply iso_relabel; [exact Hi|]. rewrite (spec_tree_uids _ _ _ Hs). apply copied_uids_nodup. exact Hnd.
Qed.

Theorem copy_tree_plain_relabel t cx st t' st' :
  copy_tree t cx st = Ok (t', st') -> plain cx -> all_copied t -> NoDup (uids t) ->
  erase t' = erase (relabel (look (combine (uids t) (uids t'))) t).
Proof.
  intros Hc Hp Ha Hnd. destruct (copy_tree_relabel _ _ _ _ _ Hc Hnd) as [s [Hs He]].
  rewrite (spec_tree_plain t cx Hp), (prune_all t Ha) in Hs. inversion Hs; subst. exact He.
Qed.

(* non-vacuity: the alias witness world satisfies every hypothesis used above and the copy succeeds on it *)
Example copy_nonvacuous :
  world_ok w_alias /\ locs_ok w_alias /\ NoDup (uids (wsA w_alias)) /\ all_copied (wsA w_alias)
  /\ exists w' nu r, copy w_alias false 1%N false 0%N o_plain = Ok (w', nu, r) /\ nu = 100%N /\ r = [(1%N, 100%N); (2%N, 101%N)].
Proof.
  split; [apply w_alias_ok|]. split; [apply w_alias_ok|]. split.
  - simpl. repeat constructor; simpl; intuition discriminate.
  - split; [simpl; repeat split|]. eexists _, _, _. split; [vm_compute; reflexivity|]. split; reflexivity.
Qed.
