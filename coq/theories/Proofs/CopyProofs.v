(* Proofs about Model/CopyModel.v (property C12). *)
From GV Require Import Prelude.Base Model.CopyModel.
Require Import Permutation.
Unset Implicit Arguments.

(* ------------------------------------------------------------------ induction over rose trees *)
Section TreeInd.
  Variable P : tree -> Prop.
  Hypothesis H : forall n ch, Forall P ch -> P (T n ch).
  Fixpoint tree_ind2 (t : tree) : P t :=
    match t with
    | T n ch => H n ch ((fix go (l : list tree) : Forall P l :=
                        match l with [] => Forall_nil P | c :: r => Forall_cons c (tree_ind2 c) (go r) end) ch)
    end.
End TreeInd.

(* ------------------------------------------------------------------ small facts *)
Lemma memN_In x l : memN x l = true <-> In x l.
Proof.
  unfold memN. rewrite existsb_exists. split.
  - intros [y [Hy E]]. apply N.eqb_eq in E. subst. exact Hy.
  - intros Hx. exists x. split; [exact Hx | apply N.eqb_refl].
Qed.

Lemma memN_false x l : memN x l = false <-> ~ In x l.
Proof.
  rewrite <- memN_In. destruct (memN x l); split; intros; try discriminate; try reflexivity.
  - exfalso. apply H. reflexivity.
Qed.

Lemma assocN_app_in {A} k (l1 l2 : list (N * A)) :
  In k (map fst l1) -> assocN k (l1 ++ l2) = assocN k l1.
Proof.
  induction l1 as [|[a b] r IH]; simpl; intros Hin; [contradiction|].
  destruct (N.eqb k a) eqn:E; [reflexivity|].
  apply IH. destruct Hin as [Ha|Hr]; [|exact Hr]. subst. rewrite N.eqb_refl in E. discriminate.
Qed.

Lemma assocN_app_notin {A} k (l1 l2 : list (N * A)) :
  ~ In k (map fst l1) -> assocN k (l1 ++ l2) = assocN k l2.
Proof.
  induction l1 as [|[a b] r IH]; simpl; intros Hin; [reflexivity|].
  destruct (N.eqb k a) eqn:E.
  - apply N.eqb_eq in E. subst. exfalso. apply Hin. left. reflexivity.
  - apply IH. intros Hr. apply Hin. right. exact Hr.
Qed.

Lemma combine_app {A B} (l1 l2 : list A) (m1 m2 : list B) :
  length l1 = length m1 -> combine (l1 ++ l2) (m1 ++ m2) = combine l1 m1 ++ combine l2 m2.
Proof.
  revert m1; induction l1 as [|a r IH]; intros [|b m1]; simpl; intros E; try discriminate; [reflexivity|].
  f_equal. apply IH. congruence.
Qed.

Lemma map_fst_combine {A B} (l : list A) (m : list B) : length l = length m -> map fst (combine l m) = l.
Proof.
  revert m; induction l as [|a r IH]; intros [|b m]; simpl; intros E; try discriminate; [reflexivity|].
  f_equal. apply IH. congruence.
Qed.

Lemma map_snd_combine {A B} (l : list A) (m : list B) : length l = length m -> map snd (combine l m) = m.
Proof.
  revert m; induction l as [|a r IH]; intros [|b m]; simpl; intros E; try discriminate; [reflexivity|].
  f_equal. apply IH. congruence.
Qed.

Lemma Forall2_len {A B} (R : A -> B -> Prop) l m : Forall2 R l m -> length l = length m.
Proof. induction 1; simpl; congruence. Qed.

Lemma Forall2_imp {A B} (R S : A -> B -> Prop) l m : (forall a b, R a b -> S a b) -> Forall2 R l m -> Forall2 S l m.
Proof. intros H. induction 1; constructor; auto. Qed.

(* ------------------------------------------------------------------ the local isomorphism produced by copy_tree *)
(* [iso s t']: t' has the payloads and shape of s; its property groups list, through the map of the node's own children
   (source child uid -> copy child uid), the members of the corresponding group of s; members are children. *)
Inductive iso : tree -> tree -> Prop :=
| iso_T n n' ch ch' :
    pl n' = pl n ->
    Forall2 (fun g g' => pg_tok g' = pg_tok g
                         /\ incl (pg_props g) (map root_uid ch)
                         /\ pg_props g' = map (look (combine (map root_uid ch) (map root_uid ch'))) (pg_props g))
            (npgs n) (npgs n') ->
    Forall2 iso ch ch' ->
    iso (T n ch) (T n' ch').

(* spec_tree's inner loop, as a top-level function *)
Fixpoint spec_list (keep : tree -> bool) (f : tree -> res tree) (l : list tree) : res (list tree) :=
  match l with
  | [] => Ok []
  | c :: r => if keep c then
                match f c with
                | Err e => Err e
                | Ok c' => match spec_list keep f r with Err e => Err e | Ok r' => Ok (c' :: r') end
                end
              else spec_list keep f r
  end.

Lemma spec_tree_unfold n ch cx :
  spec_tree (T n ch) cx =
  match masked_payload cx (pl n) with
  | Err e => Err e
  | Ok p1 =>
      let p' := set_attrs (set_meta p1 (if omit_meta cx then None else meta p1)) (overrides (over cx) (attrs p1)) in
      if negb (with_children cx) then Ok (T {| nuid := nuid n; pl := p'; npgs := [] |} []) else
      match spec_list (copied_child (pl n)) (fun c => spec_tree c (child_ctx cx (pl n) p' c)) ch with
      | Err e => Err e
      | Ok ch' => Ok (T {| nuid := nuid n; pl := p'; npgs := npgs n |} ch')
      end
  end.
Proof.
  simpl. destruct (masked_payload cx (pl n)); [|reflexivity]. cbv zeta.
  destruct (negb (with_children cx)); [reflexivity|].
  match goal with |- match ?A with _ => _ end = match ?B with _ => _ end => assert (E : A = B) end.
  { induction ch as [|c r IH]; simpl; [reflexivity|].
    destruct (copied_child (pl n) c); [|exact IH].
    destruct (spec_tree c _); [|reflexivity]. rewrite IH. reflexivity. }
  rewrite E. reflexivity.
Qed.

Lemma map_props_spec cmap l l' :
  map_props cmap l = Ok l' -> incl l (map fst cmap) /\ l' = map (look cmap) l.
Proof.
  revert l'; induction l as [|u r IH]; simpl; intros l' E.
  - inversion E. split; [intros x Hx; destruct Hx | reflexivity].
  - destruct (assocN u cmap) eqn:Ea; [|discriminate].
    destruct (map_props cmap r) eqn:Er; [|discriminate]. inversion E; subst.
    destruct (IH _ eq_refl) as [Hi Hm]. split.
    + intros x [Hx|Hx]; [subst|apply Hi; exact Hx].
      clear -Ea. induction cmap as [|[a b] c IHc]; simpl in *; [discriminate|].
      destruct (N.eqb x a) eqn:E; [left; apply N.eqb_eq in E; symmetry; exact E | right; apply IHc; exact Ea].
    + unfold look at 1. rewrite Ea. f_equal. exact Hm.
Qed.

Lemma copy_pgs_spec cmap l st l' st' :
  copy_pgs cmap l st = Ok (l', st') ->
  Forall2 (fun g g' => pg_tok g' = pg_tok g /\ incl (pg_props g) (map fst cmap) /\ pg_props g' = map (look cmap) (pg_props g)) l l'
  /\ used st' = used st /\ (nxt st <= nxt st')%N.
Proof.
  revert st l' st'; induction l as [|g r IH]; simpl; intros st l' st' E.
  - inversion E; subst. repeat split; [constructor | reflexivity].
  - destruct (map_props cmap (pg_props g)) eqn:Em; [|discriminate].
    destruct (alloc_pg (pg_uid g) st) as [u st1] eqn:Ea.
    destruct (copy_pgs cmap r st1) as [[r' st2]|] eqn:Er; [|discriminate].
    inversion E; subst. destruct (IH _ _ _ Er) as [HF [Hu Hn]].
    apply map_props_spec in Em. destruct Em as [Hi Hm].
    assert (Hst1 : used st1 = used st /\ (nxt st <= nxt st1)%N).
    { unfold alloc_pg in Ea. destruct (memN (pg_uid g) (usedpg st)); inversion Ea; subst; simpl; split; try reflexivity; lia. }
    destruct Hst1 as [Hu1 Hn1].
    repeat split.
    + constructor; [simpl; repeat split; assumption | exact HF].
    + congruence.
    + lia.
Qed.

(* mapM_st and spec_list walk the same children *)
Lemma mapM_spec keep (f : tree -> cst -> res (tree * cst)) (g : tree -> res tree) l :
  Forall (fun c => forall st c' st', f c st = Ok (c', st') -> exists s, g c = Ok s /\ iso s c') l ->
  forall st l' st', mapM_st keep f l st = Ok (l', st') ->
  exists sl, spec_list keep g l = Ok sl /\ Forall2 iso sl l'.
Proof.
  induction 1 as [|c r Hc Hr IH]; simpl; intros st l' st' E.
  - inversion E; subst. exists []. split; [reflexivity | constructor].
  - destruct (keep c).
    + destruct (f c st) as [[c' st1]|] eqn:Ef; [|discriminate].
      destruct (mapM_st keep f r st1) as [[r' st2]|] eqn:Er; [|discriminate].
      inversion E; subst. destruct (Hc _ _ _ Ef) as [s [Hs Hi]]. destruct (IH _ _ _ Er) as [sl [Hsl Hf]].
      exists (s :: sl). rewrite Hs, Hsl. split; [reflexivity | constructor; assumption].
    + apply (IH _ _ _ E).
Qed.

Lemma spec_list_roots keep (g : tree -> res tree) l sl :
  (forall c s, In c l -> g c = Ok s -> root_uid s = root_uid c) ->
  spec_list keep g l = Ok sl -> map root_uid sl = map root_uid (filter keep l).
Proof.
  revert sl; induction l as [|c r IH]; simpl; intros sl Hroot E.
  - inversion E. reflexivity.
  - destruct (keep c).
    + destruct (g c) eqn:Eg; [|discriminate]. destruct (spec_list keep g r) eqn:Er; [|discriminate].
      inversion E; subst. simpl. f_equal.
      * apply (Hroot c); [left; reflexivity | exact Eg].
      * apply IH; [|reflexivity]. intros c0 s0 Hin. apply Hroot. right. exact Hin.
    + apply IH; [|exact E]. intros c0 s0 Hin. apply Hroot. right. exact Hin.
Qed.

Lemma spec_tree_root t cx s : spec_tree t cx = Ok s -> root_uid s = root_uid t.
Proof.
  destruct t as [n ch]. rewrite spec_tree_unfold. destruct (masked_payload cx (pl n)); [|discriminate].
  cbv zeta. destruct (negb (with_children cx)); [intros E; inversion E; reflexivity|].
  destruct (spec_list _ _ ch); [|discriminate]. intros E; inversion E; reflexivity.
Qed.

Theorem copy_tree_iso : forall t cx st t' st',
  copy_tree t cx st = Ok (t', st') -> exists s, spec_tree t cx = Ok s /\ iso s t'.
Proof.
  induction t as [n ch IHch] using tree_ind2. intros cx st t' st' E.
  rewrite spec_tree_unfold. simpl in E.
  destruct (masked_payload cx (pl n)) as [p1|]; [|discriminate]. cbv zeta in *.
  destruct (negb (with_children cx)).
  - inversion E; subst. eexists. split; [reflexivity|]. constructor; [reflexivity | constructor | constructor].
  - set (p' := set_attrs (set_meta p1 (if omit_meta cx then None else meta p1)) (overrides (over cx) (attrs p1))) in *.
    destruct (mapM_st _ _ ch _) as [[ch' st2]|] eqn:Em; [|discriminate].
    destruct (copy_pgs _ (npgs n) st2) as [[pgs' st3]|] eqn:Ep; [|discriminate].
    inversion E; subst.
    assert (HFa : Forall (fun c => forall st0 c' st0', copy_tree c (child_ctx cx (pl n) p' c) st0 = Ok (c', st0') ->
                              exists s, spec_tree c (child_ctx cx (pl n) p' c) = Ok s /\ iso s c') ch).
    { apply Forall_forall. intros c Hc st0 c' st0' Hcopy. rewrite Forall_forall in IHch. apply (IHch c Hc _ _ _ _ Hcopy). }
    pose proof (mapM_spec (copied_child (pl n)) (fun c s => copy_tree c (child_ctx cx (pl n) p' c) s)
                  (fun c => spec_tree c (child_ctx cx (pl n) p' c)) ch HFa _ _ _ Em) as [sl [Hsl Hf]].
    rewrite Hsl. eexists. split; [reflexivity|].
    assert (Hroots : map root_uid sl = map root_uid (filter (copied_child (pl n)) ch)).
    { eapply spec_list_roots; [|exact Hsl]. intros c s _ Hs. apply (spec_tree_root _ _ _ Hs). }
    constructor; [reflexivity | | exact Hf].
    simpl. apply copy_pgs_spec in Ep. destruct Ep as [HF _].
    assert (Hlen : length (map root_uid (filter (copied_child (pl n)) ch)) = length (map root_uid ch')).
    { rewrite <- Hroots, !map_length. apply (Forall2_len _ _ _ Hf). }
    rewrite Hroots.
    eapply Forall2_imp; [|exact HF]. intros g g' [H1 [H2 H3]]. repeat split; try assumption.
    rewrite map_fst_combine in H2 by exact Hlen. exact H2.
Qed.

(* ------------------------------------------------------------------ from the local isomorphism to the global uid map *)
Lemma Forall2_combine_in {A B} (R : A -> B -> Prop) l m a b : Forall2 R l m -> In (a, b) (combine l m) -> R a b.
Proof.
  induction 1; simpl; intros Hin; [contradiction|]. destruct Hin as [E|Hin]; [inversion E; subst; assumption | auto].
Qed.

Lemma map_eq_combine {A B C} (F : B -> C) (G : A -> C) l m :
  length l = length m -> (forall a b, In (a, b) (combine l m) -> F b = G a) -> map F m = map G l.
Proof.
  revert m; induction l as [|a r IH]; intros [|b m]; simpl; intros E H; try discriminate; [reflexivity|].
  f_equal; [apply H; left; reflexivity | apply IH; [congruence | intros; apply H; right; assumption]].
Qed.

Lemma in_combine_both {A B} (l : list A) (m : list B) a b : In (a, b) (combine l m) -> In a l /\ In b m.
Proof. intros H. split; [eapply in_combine_l | eapply in_combine_r]; exact H. Qed.

Lemma iso_len s t' : iso s t' -> length (uids s) = length (uids t').
Proof.
  revert t'. induction s as [n ch IH] using tree_ind2. intros t' Hi. inversion Hi; subst. simpl. f_equal.
  clear -IH H4. induction H4; simpl; [reflexivity|]. inversion IH; subst.
  rewrite !app_length. f_equal; auto.
Qed.

Lemma iso_root_in s : In (root_uid s) (uids s).
Proof. destruct s; simpl; left; reflexivity. Qed.

Lemma look_head k v r : look ((k, v) :: r) k = v.
Proof. unfold look. simpl. rewrite N.eqb_refl. reflexivity. Qed.

Lemma look_skip k v r x : x <> k -> look ((k, v) :: r) x = look r x.
Proof. intros H. unfold look. simpl. destruct (N.eqb x k) eqn:E; [apply N.eqb_eq in E; contradiction | reflexivity]. Qed.

Lemma look_combine_root c c' : iso c c' -> look (combine (uids c) (uids c')) (root_uid c) = root_uid c'.
Proof. intros Hi. inversion Hi; subst. simpl. apply look_head. Qed.

(* inside the concatenation of the children's zips, a uid of child c is looked up in c's own zip *)
Lemma look_children ch : forall ch',
  Forall2 iso ch ch' -> NoDup (flat_map uids ch) ->
  forall c c', In (c, c') (combine ch ch') -> forall x, In x (uids c) ->
  look (combine (flat_map uids ch) (flat_map uids ch')) x = look (combine (uids c) (uids c')) x.
Proof.
  induction ch as [|a r IH]; intros ch' HF Hnd c c' Hin x Hx; inversion HF; subst; simpl in *; [contradiction|].
  rewrite combine_app by (apply iso_len; assumption).
  apply NoDup_app_parts in Hnd. destruct Hnd as [Hnd1 [Hnd2 Hdisj]].
  unfold look. destruct Hin as [E|Hin].
  - inversion E; subst. rewrite assocN_app_in; [reflexivity|].
    rewrite map_fst_combine by (apply iso_len; assumption). exact Hx.
  - rewrite assocN_app_notin.
    + apply (IH _ H3 Hnd2 _ _ Hin _ Hx).
    + rewrite map_fst_combine by (apply iso_len; assumption). intros Hxa. apply (Hdisj x Hxa).
      apply in_flat_map. exists c. split; [apply (in_combine_both _ _ _ _ Hin) | exact Hx].
Qed.
