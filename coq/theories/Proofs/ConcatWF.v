(* The well-formedness invariant of the attribute layer (Model/ConcatAttrs.v) and the API-level consequences
   (property C04): read-your-write, isolation, table view, exactly one record per live entity, no stale row. *)
From GV Require Import Prelude.Base Model.Concat Model.ConcatAttrs Proofs.ConcatProofs Proofs.ConcatAttrsProofs.

(* ------------------------------------------------------------------ the record list as a finite map *)
Lemma find_rec_id x l r : find_rec x l = Some r -> a_id r = x.
Proof.
  induction l as [|y l IH]; simpl; [discriminate|].
  destruct (Nat.eqb (a_id y) x) eqn:E; [intros H; inversion H; subst; apply Nat.eqb_eq; exact E | exact IH].
Qed.

Lemma find_rec_In x l r : find_rec x l = Some r -> In r l.
Proof.
  induction l as [|y l IH]; simpl; [discriminate|].
  destruct (Nat.eqb (a_id y) x); [intros H; inversion H; left; reflexivity | intros H; right; apply IH; exact H].
Qed.

Lemma In_find_rec l r : NoDup (ids l) -> In r l -> find_rec (a_id r) l = Some r.
Proof.
  induction l as [|y l IH]; simpl; intros Hn Hin; [contradiction|].
  inversion Hn as [|? ? Hy Hl]; subst. destruct Hin as [-> | Hin].
  - rewrite Nat.eqb_refl. reflexivity.
  - destruct (Nat.eqb (a_id y) (a_id r)) eqn:E.
    + apply Nat.eqb_eq in E. exfalso. apply Hy. rewrite E. apply in_map. exact Hin.
    + apply IH; assumption.
Qed.

Lemma find_rec_in_ids x l : In x (ids l) <-> exists r, find_rec x l = Some r.
Proof.
  split.
  - induction l as [|y l IH]; simpl; [contradiction|]. intros [H | H].
    + subst. rewrite Nat.eqb_refl. eauto.
    + destruct (Nat.eqb (a_id y) x); eauto.
  - intros [r H]. rewrite <- (find_rec_id _ _ _ H). apply in_map. eapply find_rec_In. exact H.
Qed.

Lemma find_upd x id f l : (forall r, a_id (f r) = a_id r) ->
  find_rec x (upd_rec id f l) = if Nat.eqb x id then option_map f (find_rec id l) else find_rec x l.
Proof.
  intros Hf. induction l as [|y l IH]; simpl.
  - destruct (Nat.eqb x id); reflexivity.
  - destruct (Nat.eqb (a_id y) id) eqn:E; simpl.
    + rewrite Hf. apply Nat.eqb_eq in E. destruct (Nat.eqb x id) eqn:Ex.
      * apply Nat.eqb_eq in Ex. subst. rewrite Nat.eqb_refl. reflexivity.
      * destruct (Nat.eqb (a_id y) x) eqn:Ey; [|reflexivity]. apply Nat.eqb_eq in Ey. apply Nat.eqb_neq in Ex. congruence.
    + rewrite IH. destruct (Nat.eqb x id) eqn:Ex.
      * apply Nat.eqb_eq in Ex. subst. rewrite E. reflexivity.
      * reflexivity.
Qed.

Lemma find_del x id l : NoDup (ids l) ->
  find_rec x (del_rec id l) = if Nat.eqb x id then None else find_rec x l.
Proof.
  intros Hn. induction l as [|y l IH]; simpl.
  - destruct (Nat.eqb x id); reflexivity.
  - inversion Hn as [|? ? Hy Hl]; subst. destruct (Nat.eqb (a_id y) id) eqn:E; simpl.
    + apply Nat.eqb_eq in E. destruct (Nat.eqb x id) eqn:Ex.
      * apply Nat.eqb_eq in Ex. subst x. destruct (find_rec id l) eqn:F; [|reflexivity].
        exfalso. apply Hy. rewrite E. apply find_rec_in_ids. eauto.
      * destruct (Nat.eqb (a_id y) x) eqn:Ey; [|reflexivity]. apply Nat.eqb_eq in Ey. apply Nat.eqb_neq in Ex. congruence.
    + rewrite (IH Hl). destruct (Nat.eqb x id) eqn:Ex.
      * apply Nat.eqb_eq in Ex. subst. rewrite E. reflexivity.
      * reflexivity.
Qed.

Lemma find_rec_app x l r :
  find_rec x (l ++ [r]) = match find_rec x l with Some y => Some y | None => if Nat.eqb (a_id r) x then Some r else None end.
Proof.
  induction l as [|y l IH]; simpl; [reflexivity|]. destruct (Nat.eqb (a_id y) x); [reflexivity | exact IH].
Qed.

(* ------------------------------------------------------------------ contents of the store *)
Lemma decode_encode c : decode (encode c) = c.
Proof.
  unfold decode, encode. simpl.
  assert (G : forall pre s, s = length pre ->
           map (fun r => (oid r, did r, slice (pre ++ enc_data c) (start r) (size r))) (enc_rows s c) = c).
  { induction c as [|[[o d] vs] c IH]; intros pre s Hs; simpl; [reflexivity|].
    f_equal.
    - f_equal. subst s. rewrite slice_app_r. unfold enc_data. simpl.
      rewrite firstn_app, Nat.sub_diag, firstn_all. simpl. rewrite app_nil_r. reflexivity.
    - unfold enc_data in *. simpl. rewrite app_assoc. apply IH. rewrite app_length. lia. }
  apply (G [] 0). reflexivity.
Qed.

Lemma content_sset_same lab c s : content lab (sset lab (encode c) s) = c.
Proof. unfold content. rewrite sget_sset_same. apply decode_encode. Qed.

Lemma content_sset_other lab lab' t s : lab' <> lab -> content lab' (sset lab t s) = content lab' s.
Proof. intros H. unfold content. rewrite sget_sset_other by exact H. reflexivity. Qed.

Lemma content_put s lab o d vs s' lab' :
  AllTiled s -> lstep s (Put lab o d vs) = Ok s' ->
  content lab' s' = if Nat.eqb lab' lab then without (key_of lab o d) (content lab s) ++ [(o, did_of lab d, vs)] else content lab' s.
Proof.
  intros HA H. rewrite (lstep_put lab o d vs s HA) in H. inversion H; subst; clear H.
  destruct (Nat.eqb lab' lab) eqn:E.
  - apply Nat.eqb_eq in E. subst. apply content_sset_same.
  - apply Nat.eqb_neq in E. apply content_sset_other. exact E.
Qed.

Lemma content_del s lab o d s' lab' :
  AllTiled s -> lstep s (Del lab o d) = Ok s' ->
  content lab' s' = if Nat.eqb lab' lab then without (key_of lab o d) (content lab s) else content lab' s.
Proof.
  intros HA H. rewrite (lstep_del lab o d s HA) in H. inversion H; subst; clear H.
  destruct (sget lab s) as [t|] eqn:G.
  - destruct (Nat.eqb lab' lab) eqn:E.
    + apply Nat.eqb_eq in E. subst. apply content_sset_same.
    + apply Nat.eqb_neq in E. apply content_sset_other. exact E.
  - destruct (Nat.eqb lab' lab) eqn:E; [|reflexivity].
    apply Nat.eqb_eq in E. subst. unfold content. rewrite G. reflexivity.
Qed.

Lemma lstep_tiled' s op s' : AllTiled s -> lstep s op = Ok s' -> AllTiled s'.
Proof. intros HA H. destruct (lstep_tiled s op HA) as (x & Hx & HT). rewrite H in Hx. inversion Hx; subst. exact HT. Qed.

Lemma rows_content lab s t r : sget lab s = Some t -> In r (rows t) -> exists vs, In (oid r, did r, vs) (content lab s).
Proof.
  intros G Hin. unfold content. rewrite G. unfold decode. eexists. apply in_map_iff. exists r. split; [reflexivity | exact Hin].
Qed.

Lemma content_rows lab s o d vs : In (o, d, vs) (content lab s) -> exists t r, sget lab s = Some t /\ In r (rows t) /\ oid r = o /\ did r = d.
Proof.
  unfold content. destruct (sget lab s) as [t|]; [|contradiction]. unfold decode. intros Hin.
  apply in_map_iff in Hin as (r & Hr & Hin). inversion Hr; subst. exists t, r. auto.
Qed.

Lemma in_without w c e : In e (without w c) <-> In e c /\ ematch w e = false.
Proof.
  unfold without. rewrite filter_In. split; intros [H1 H2]; split; auto.
  - destruct (ematch w e); [discriminate | reflexivity].
  - rewrite H2. reflexivity.
Qed.

(* ------------------------------------------------------------------ the hole's property group list *)
Lemma val_id_ids l : map val_id (ids_val l) = l.
Proof. unfold ids_val. rewrite map_map. simpl. induction l as [|x l IH]; simpl; [reflexivity|]. rewrite Nat2Z.id, IH. reflexivity. Qed.

Definition pgs_in (c : list entry) (h : nat) : list nat :=
  match elookup (ByObj h) c with Some vs => map val_id vs | None => [] end.

Lemma pgs_of_content s h : AllTiled (st s) -> pgs_of s h = pgs_in (content L_PG (st s)) h.
Proof. intros HA. unfold pgs_of, pgs_in. rewrite sfetch_content by exact HA. reflexivity. Qed.

Lemma pgs_in_put c h l h' :
  pgs_in (without (ByObj h) c ++ [(h, 0, ids_val l)]) h' = if Nat.eqb h' h then l else pgs_in c h'.
Proof.
  unfold pgs_in, elookup. rewrite find_app. destruct (Nat.eqb h' h) eqn:E.
  - apply Nat.eqb_eq in E. subst. rewrite find_without_same. simpl. rewrite Nat.eqb_refl. simpl. apply val_id_ids.
  - apply Nat.eqb_neq in E.
    rewrite find_without_other.
    2:{ intros e He. simpl in *. apply Nat.eqb_eq in He. apply Nat.eqb_neq. congruence. }
    destruct (find (ematch (ByObj h')) c); [reflexivity|]. simpl.
    replace (Nat.eqb h h') with false by (symmetry; apply Nat.eqb_neq; auto). reflexivity.
Qed.

Lemma pgs_in_del c h h' : pgs_in (without (ByObj h) c) h' = if Nat.eqb h' h then [] else pgs_in c h'.
Proof.
  unfold pgs_in, elookup. destruct (Nat.eqb h' h) eqn:E.
  - apply Nat.eqb_eq in E. subst. rewrite find_without_same. reflexivity.
  - apply Nat.eqb_neq in E. rewrite find_without_other; [reflexivity|].
    intros e He. simpl in *. apply Nat.eqb_eq in He. apply Nat.eqb_neq. congruence.
Qed.

Lemma pgs_in_no_entry c h : (forall o d vs, In (o, d, vs) c -> o <> h) -> pgs_in c h = [].
Proof.
  intros H. unfold pgs_in, elookup. rewrite find_none; [reflexivity|].
  intros [[o d] vs] Hin. simpl. apply Nat.eqb_neq. eapply H. exact Hin.
Qed.

(* ------------------------------------------------------------------ the invariant, on the components (store, records, object ids) *)
Definition isholeR (R : list arec) (h : nat) : Prop := exists r, find_rec h R = Some r /\ a_kind r = KHole.
Definition keyedR (R : list arec) (h lab d : nat) : Prop :=
  exists rh, find_rec h R = Some rh /\ a_kind rh = KHole /\ In (lab, d) (a_props rh).

Record WFR (R : list arec) (O : list nat) : Prop := {
  r_uniq : NoDup (ids R);
  r_objs_nd : NoDup O;
  r_objs : forall h, In h O <-> isholeR R h;
  r_key_rec : forall h lab d, keyedR R h lab d -> exists rd, find_rec d R = Some rd /\ a_kind rd = KData /\ a_name rd = lab;
  r_key_inj : forall h h' lab lab' d, keyedR R h lab d -> keyedR R h' lab' d -> h = h';
  r_key_nd : forall h rh, find_rec h R = Some rh -> a_kind rh = KHole ->
             NoDup (map (fun p : nat * nat => fst p) (a_props rh)) /\ NoDup (map (fun p : nat * nat => snd p) (a_props rh));
  r_data_keyed : forall d rd, find_rec d R = Some rd -> a_kind rd = KData -> exists h, keyedR R h (a_name rd) d;
  r_names : forall d rd, find_rec d R = Some rd -> a_kind rd = KData -> 10 <= a_name rd
}.

Definition WFrows (R : list arec) (O : list nat) (cf : nat -> list entry) : Prop :=
  (forall lab o d vs, lab < 10 -> In (o, d, vs) (cf lab) -> lab <= 2 /\ In o O)
  /\ (forall lab o d vs, 10 <= lab -> In (o, d, vs) (cf lab) -> keyedR R o lab d).

Record WFpg (R : list arec) (O : list nat) (C : list entry) : Prop := {
  g_rec : forall h pg, In pg (pgs_in C h) ->
          exists rp, find_rec pg R = Some rp /\ a_kind rp = KPG /\ NoDup (a_members rp)
                     /\ forall m, In m (a_members rp) -> exists lab, keyedR R h lab m;
  g_listed : forall pg rp, find_rec pg R = Some rp -> a_kind rp = KPG -> exists h, In h O /\ In pg (pgs_in C h);
  g_nodup : forall h, NoDup (pgs_in C h);
  g_disj : forall h h' pg, In pg (pgs_in C h) -> In pg (pgs_in C h') -> h = h';
  g_one : forall h pg pg' rp rp' m, In pg (pgs_in C h) -> In pg' (pgs_in C h) ->
          find_rec pg R = Some rp -> find_rec pg' R = Some rp' -> In m (a_members rp) -> In m (a_members rp') -> pg = pg';
  g_live : forall h pg, In pg (pgs_in C h) -> In h O
}.

Definition WF3 (S : store) (R : list arec) (O : list nat) : Prop :=
  AllTiled S /\ WFR R O /\ WFrows R O (fun lab => content lab S) /\ WFpg R O (content L_PG S).

Definition WF (s : astate) : Prop := WF3 (st s) (recs s) (objids s).

Lemma WF_init : WF init.
Proof.
  unfold WF, WF3, init; simpl. split; [exact alltiled_nil|]. split; [|split].
  - constructor; simpl.
    + constructor.
    + constructor.
    + intros h. split; [intros [] | intros (r & H & _); discriminate].
    + intros h lab d (r & H & _). discriminate.
    + intros h h' lab lab' d (r & H & _). discriminate.
    + intros h rh H. discriminate.
    + intros d rd H. discriminate.
    + intros d rd H. discriminate.
  - split; intros lab o d vs _ H; contradiction.
  - constructor; unfold pgs_in, elookup; simpl; try (intros; contradiction).
    + intros pg rp H. discriminate.
    + intros h. constructor.
Qed.

(* ------------------------------------------------------------------ store transformations (records and object ids unchanged) *)
Lemma by_obj_ge lab : 10 <= lab -> by_obj lab = false.
Proof. intros H. unfold by_obj. apply Nat.ltb_ge. exact H. Qed.
Lemma by_obj_lt lab : lab < 10 -> by_obj lab = true.
Proof. intros H. unfold by_obj. apply Nat.ltb_lt. exact H. Qed.

Lemma eqb_false_ne a b : a <> b -> Nat.eqb a b = false.
Proof. intros H. apply Nat.eqb_neq. exact H. Qed.

Lemma wf_put_data S R O lab h d vs S' :
  WF3 S R O -> 10 <= lab -> keyedR R h lab d -> lstep S (Put lab h d vs) = Ok S' -> WF3 S' R O.
Proof.
  intros (HA & HR & (Ho & Hd) & HG) Hlab Hk H.
  pose proof (by_obj_ge lab Hlab) as Hb.
  split; [eapply lstep_tiled'; eassumption|]. split; [exact HR|]. split; [split|].
  - intros lab' o d' vs' Hl Hin. rewrite (content_put S lab h d vs S' lab' HA H) in Hin.
    rewrite eqb_false_ne in Hin by lia. eapply Ho; eassumption.
  - intros lab' o d' vs' Hl Hin. rewrite (content_put S lab h d vs S' lab' HA H) in Hin.
    destruct (Nat.eqb lab' lab) eqn:E.
    + apply Nat.eqb_eq in E. subst lab'. apply in_app_or in Hin as [Hin | [Hin | []]].
      * apply in_without in Hin as [Hin _]. eapply Hd; eassumption.
      * unfold did_of in Hin. rewrite Hb in Hin. inversion Hin; subst. exact Hk.
    + eapply Hd; eassumption.
  - rewrite (content_put S lab h d vs S' L_PG HA H). rewrite eqb_false_ne by (unfold L_PG; lia). exact HG.
Qed.

Lemma wf_del_data S R O lab h d S' :
  WF3 S R O -> 10 <= lab -> lstep S (Del lab h d) = Ok S' -> WF3 S' R O.
Proof.
  intros (HA & HR & (Ho & Hd) & HG) Hlab H.
  split; [eapply lstep_tiled'; eassumption|]. split; [exact HR|]. split; [split|].
  - intros lab' o d' vs' Hl Hin. rewrite (content_del S lab h d S' lab' HA H) in Hin.
    rewrite eqb_false_ne in Hin by lia. eapply Ho; eassumption.
  - intros lab' o d' vs' Hl Hin. rewrite (content_del S lab h d S' lab' HA H) in Hin.
    destruct (Nat.eqb lab' lab) eqn:E.
    + apply Nat.eqb_eq in E. subst lab'. apply in_without in Hin as [Hin _]. eapply Hd; eassumption.
    + eapply Hd; eassumption.
  - rewrite (content_del S lab h d S' L_PG HA H). rewrite eqb_false_ne by (unfold L_PG; lia). exact HG.
Qed.

(* Surveys / Trace rows of a live hole *)
Lemma wf_put_obj S R O lab h vs S' :
  WF3 S R O -> lab < 2 -> In h O -> lstep S (Put lab h 0 vs) = Ok S' -> WF3 S' R O.
Proof.
  intros (HA & HR & (Ho & Hd) & HG) Hlab Hh H.
  split; [eapply lstep_tiled'; eassumption|]. split; [exact HR|]. split; [split|].
  - intros lab' o d' vs' Hl Hin. rewrite (content_put S lab h 0 vs S' lab' HA H) in Hin.
    destruct (Nat.eqb lab' lab) eqn:E.
    + apply Nat.eqb_eq in E. subst lab'. apply in_app_or in Hin as [Hin | [Hin | []]].
      * apply in_without in Hin as [Hin _]. eapply Ho; eassumption.
      * inversion Hin; subst. split; [lia | exact Hh].
    + eapply Ho; eassumption.
  - intros lab' o d' vs' Hl Hin. rewrite (content_put S lab h 0 vs S' lab' HA H) in Hin.
    rewrite eqb_false_ne in Hin by lia. eapply Hd; eassumption.
  - rewrite (content_put S lab h 0 vs S' L_PG HA H). rewrite eqb_false_ne by (unfold L_PG; lia). exact HG.
Qed.

Lemma wf_del_obj S R O lab h S' :
  WF3 S R O -> lab < 2 -> lstep S (Del lab h 0) = Ok S' -> WF3 S' R O.
Proof.
  intros (HA & HR & (Ho & Hd) & HG) Hlab H.
  split; [eapply lstep_tiled'; eassumption|]. split; [exact HR|]. split; [split|].
  - intros lab' o d' vs' Hl Hin. rewrite (content_del S lab h 0 S' lab' HA H) in Hin.
    destruct (Nat.eqb lab' lab) eqn:E.
    + apply Nat.eqb_eq in E. subst lab'. apply in_without in Hin as [Hin _]. eapply Ho; eassumption.
    + eapply Ho; eassumption.
  - intros lab' o d' vs' Hl Hin. rewrite (content_del S lab h 0 S' lab' HA H) in Hin.
    rewrite eqb_false_ne in Hin by lia. eapply Hd; eassumption.
  - rewrite (content_del S lab h 0 S' L_PG HA H). rewrite eqb_false_ne by (unfold L_PG; lia). exact HG.
Qed.

(* the content of the Property Group IDs label after rewriting hole h's row *)
Lemma content_put_pg S h l S' :
  AllTiled S -> lstep S (Put L_PG h 0 (ids_val l)) = Ok S' ->
  content L_PG S' = without (ByObj h) (content L_PG S) ++ [(h, 0, ids_val l)]
  /\ forall lab, lab <> L_PG -> content lab S' = content lab S.
Proof.
  intros HA H. split.
  - rewrite (content_put S L_PG h 0 (ids_val l) S' L_PG HA H), Nat.eqb_refl. reflexivity.
  - intros lab Hne. rewrite (content_put S L_PG h 0 (ids_val l) S' lab HA H). rewrite eqb_false_ne by exact Hne. reflexivity.
Qed.

Lemma wfrows_put_pg R O S h l S' :
  AllTiled S -> WFrows R O (fun lab => content lab S) -> In h O -> lstep S (Put L_PG h 0 (ids_val l)) = Ok S' ->
  WFrows R O (fun lab => content lab S').
Proof.
  intros HA (Ho & Hd) Hh H. destruct (content_put_pg S h l S' HA H) as [Hc Hother]. split.
  - intros lab o d vs Hl Hin. destruct (Nat.eq_dec lab L_PG) as [-> | Hne].
    + rewrite Hc in Hin. apply in_app_or in Hin as [Hin | [Hin | []]].
      * apply in_without in Hin as [Hin _]. eapply Ho; eassumption.
      * inversion Hin; subst. split; [unfold L_PG; lia | exact Hh].
    + rewrite Hother in Hin by exact Hne. eapply Ho; eassumption.
  - intros lab o d vs Hl Hin. rewrite Hother in Hin by (unfold L_PG; lia). eapply Hd; eassumption.
Qed.

(* rewriting the row with the same list changes nothing that matters *)
Lemma wfpg_same R O C h : WFpg R O C -> In h O -> WFpg R O (without (ByObj h) C ++ [(h, 0, ids_val (pgs_in C h))]).
Proof.
  intros HG Hh.
  assert (E : forall h', pgs_in (without (ByObj h) C ++ [(h, 0, ids_val (pgs_in C h))]) h' = pgs_in C h').
  { intros h'. rewrite pgs_in_put. destruct (Nat.eqb h' h) eqn:E; [apply Nat.eqb_eq in E; subst; reflexivity | reflexivity]. }
  destruct HG as [g1 g2 g3 g4 g5 g6]. constructor.
  - intros h' pg. rewrite E. apply g1.
  - intros pg rp H1 H2. destruct (g2 pg rp H1 H2) as (h' & Hh' & Hin). exists h'. rewrite E. auto.
  - intros h'. rewrite E. apply g3.
  - intros h1 h2 pg. rewrite !E. apply g4.
  - intros h' pg pg' rp rp' m. rewrite !E. apply g5.
  - intros h' pg. rewrite E. apply g6.
Qed.

Lemma wf_put_pg_same S R O h S' :
  WF3 S R O -> In h O -> lstep S (Put L_PG h 0 (ids_val (pgs_in (content L_PG S) h))) = Ok S' -> WF3 S' R O.
Proof.
  intros (HA & HR & Hrows & HG) Hh H.
  split; [eapply lstep_tiled'; eassumption|]. split; [exact HR|]. split.
  - eapply wfrows_put_pg; eassumption.
  - destruct (content_put_pg S h _ S' HA H) as [Hc _]. rewrite Hc. apply wfpg_same; assumption.
Qed.

(* ------------------------------------------------------------------ record transformations *)
(* R' has the same records as R up to the fields the hole/data clauses look at (kind, name, property keys) *)
Definition rel_rec (r r' : arec) : Prop := a_kind r = a_kind r' /\ a_name r = a_name r' /\ a_props r = a_props r'.
Definition requiv (R R' : list arec) : Prop :=
  forall x, match find_rec x R, find_rec x R' with
            | Some r, Some r' => rel_rec r r'
            | None, None => True
            | _, _ => False
            end.

Lemma requiv_keyed R R' h lab d : requiv R R' -> keyedR R h lab d -> keyedR R' h lab d.
Proof.
  intros E (rh & Hf & Hk & Hin). specialize (E h). rewrite Hf in E.
  destruct (find_rec h R') as [r'|] eqn:F'; [|contradiction]. destruct E as (E1 & E2 & E3).
  exists r'. split; [exact F'|]. split; [congruence | rewrite <- E3; exact Hin].
Qed.

Lemma requiv_sym R R' : requiv R R' -> requiv R' R.
Proof.
  intros E x. specialize (E x). destruct (find_rec x R), (find_rec x R'); try contradiction; auto.
  destruct E as (E1 & E2 & E3). repeat split; congruence.
Qed.

Lemma requiv_hole R R' h : requiv R R' -> isholeR R h -> isholeR R' h.
Proof.
  intros E (r & Hf & Hk). specialize (E h). rewrite Hf in E.
  destruct (find_rec h R') as [r'|] eqn:F'; [|contradiction]. destruct E as (E1 & _). exists r'. split; [exact F' | congruence].
Qed.

Lemma WFR_equiv R R' O : requiv R R' -> NoDup (ids R') -> WFR R O -> WFR R' O.
Proof.
  intros E Hn [w1 w2 w3 w4 w5 w6 w7 w8]. pose proof (requiv_sym _ _ E) as E'.
  constructor.
  - exact Hn.
  - exact w2.
  - intros h. rewrite w3. split; apply requiv_hole; assumption.
  - intros h lab d Hk. destruct (w4 h lab d (requiv_keyed _ _ _ _ _ E' Hk)) as (rd & Hf & Hkd & Hnm).
    specialize (E d). rewrite Hf in E. destruct (find_rec d R') as [rd'|] eqn:F'; [|contradiction].
    destruct E as (E1 & E2 & _). exists rd'. split; [first [exact F' | reflexivity]|]. split; congruence.
  - intros h h' lab lab' d H1 H2. eapply w5; eapply requiv_keyed; eassumption.
  - intros h rh Hf Hk. specialize (E' h). rewrite Hf in E'. destruct (find_rec h R) as [r0|] eqn:F; [|contradiction].
    destruct E' as (E1 & _ & E3). rewrite E3. apply (w6 h r0 F). congruence.
  - intros d rd Hf Hk. specialize (E' d). rewrite Hf in E'. destruct (find_rec d R) as [r0|] eqn:F; [|contradiction].
    destruct E' as (E1 & E2 & _). destruct (w7 d r0 F ltac:(congruence)) as (h & Hh). exists h. rewrite E2.
    eapply requiv_keyed; eassumption.
  - intros d rd Hf Hk. specialize (E' d). rewrite Hf in E'. destruct (find_rec d R) as [r0|] eqn:F; [|contradiction].
    destruct E' as (E1 & E2 & _). rewrite E2. apply (w8 d r0 F). congruence.
Qed.

Lemma WFrows_mono R R' O cf :
  (forall h lab d, keyedR R h lab d -> keyedR R' h lab d) -> WFrows R O cf -> WFrows R' O cf.
Proof. intros M (Ho & Hd). split; [exact Ho|]. intros lab o d vs Hl Hin. apply M. eapply Hd; eassumption. Qed.

Lemma requiv_upd R id f :
  (forall r, a_id (f r) = a_id r) -> (forall r, rel_rec r (f r)) -> requiv R (upd_rec id f R).
Proof.
  intros Hid Hrel x. rewrite find_upd by exact Hid. destruct (Nat.eqb x id) eqn:E.
  - apply Nat.eqb_eq in E. subst. destruct (find_rec id R); simpl; [apply Hrel | exact I].
  - destruct (find_rec x R); [repeat split | exact I].
Qed.

Lemma set_members_rel m r : rel_rec r (set_members m r).
Proof. repeat split. Qed.

Lemma find_set_members R pg m' x r' :
  find_rec x (upd_rec pg (set_members m') R) = Some r' ->
  exists r, find_rec x R = Some r /\ a_kind r' = a_kind r
            /\ ((x = pg /\ a_members r' = m') \/ (x <> pg /\ r' = r)).
Proof.
  rewrite find_upd by (intros; reflexivity). destruct (Nat.eqb x pg) eqn:E.
  - apply Nat.eqb_eq in E. subst. destruct (find_rec pg R) as [r|]; simpl; [|discriminate].
    intros H. inversion H; subst. exists r. split; [reflexivity|]. split; [reflexivity|]. left. split; reflexivity.
  - apply Nat.eqb_neq in E. intros H. exists r'. split; [exact H|]. split; [reflexivity|]. right. split; [exact E | reflexivity].
Qed.

(* P6: shrinking the member list of a group *)
Lemma wf_set_members S R O pg m' :
  WF3 S R O ->
  (forall rp, find_rec pg R = Some rp -> NoDup m' /\ forall x, In x m' -> In x (a_members rp)) ->
  WF3 S (upd_rec pg (set_members m') R) O.
Proof.
  intros (HA & HR & Hrows & HG) Hm.
  assert (E : requiv R (upd_rec pg (set_members m') R)) by (apply requiv_upd; [reflexivity | apply set_members_rel]).
  split; [exact HA|]. split; [|split].
  - eapply WFR_equiv; [exact E | rewrite ids_upd_rec by reflexivity; apply (r_uniq _ _ HR) | exact HR].
  - eapply WFrows_mono; [|exact Hrows]. intros h lab d. apply requiv_keyed. exact E.
  - destruct HG as [g1 g2 g3 g4 g5 g6].
    constructor.
    + intros h pg0 Hin. destruct (g1 h pg0 Hin) as (rp & Hf & Hk & Hnd & Hkeyed).
      destruct (Nat.eq_dec pg0 pg) as [-> | Hne].
      * exists (set_members m' rp). rewrite find_upd by reflexivity. rewrite Nat.eqb_refl, Hf. simpl.
        destruct (Hm rp Hf) as [Hn Hs]. split; [reflexivity|]. split; [exact Hk|]. split; [exact Hn|].
        intros m Hmm. destruct (Hkeyed m (Hs m Hmm)) as (lab & Hl). exists lab. eapply requiv_keyed; eassumption.
      * exists rp. rewrite find_upd by reflexivity. rewrite eqb_false_ne by exact Hne.
        split; [exact Hf|]. split; [exact Hk|]. split; [exact Hnd|].
        intros m Hmm. destruct (Hkeyed m Hmm) as (lab & Hl). exists lab. eapply requiv_keyed; eassumption.
    + intros pg0 rp' Hf Hk. destruct (find_set_members _ _ _ _ _ Hf) as (r & Hfr & Hkr & _).
      apply (g2 pg0 r Hfr). congruence.
    + exact g3.
    + exact g4.
    + intros h p1 p2 r1 r2 m H1 H2 F1 F2 M1 M2.
      destruct (find_set_members _ _ _ _ _ F1) as (q1 & Q1 & _ & C1).
      destruct (find_set_members _ _ _ _ _ F2) as (q2 & Q2 & _ & C2).
      apply (g5 h p1 p2 q1 q2 m H1 H2 Q1 Q2).
      * destruct C1 as [[-> Em] | [_ ->]]; [|exact M1]. rewrite Em in M1. apply (Hm q1 Q1). exact M1.
      * destruct C2 as [[-> Em] | [_ ->]]; [|exact M2]. rewrite Em in M2. apply (Hm q2 Q2). exact M2.
    + exact g6.
Qed.

(* ------------------------------------------------------------------ list helpers *)
Lemma remove_first_sub a l x : In x (remove_first a l) -> In x l.
Proof.
  induction l as [|y l IH]; simpl; [auto|]. destruct (Nat.eqb y a); [intros H; right; exact H|].
  intros [H | H]; [left; exact H | right; apply IH; exact H].
Qed.

Lemma remove_first_nodup a l : NoDup l -> NoDup (remove_first a l).
Proof.
  induction l as [|y l IH]; simpl; intros H; [constructor|]. inversion H as [|? ? Hy Hl]; subst.
  destruct (Nat.eqb y a); [exact Hl|]. constructor; [intros Hin; apply Hy; eapply remove_first_sub; exact Hin | apply IH; exact Hl].
Qed.

Lemma remove_first_in a l x : NoDup l -> (In x (remove_first a l) <-> In x l /\ x <> a).
Proof.
  induction l as [|y l IH]; simpl; intros H; [tauto|]. inversion H as [|? ? Hy Hl]; subst.
  destruct (Nat.eqb y a) eqn:E.
  - apply Nat.eqb_eq in E. subst. split.
    + intros Hin. split; [right; exact Hin | intros ->; exact (Hy Hin)].
    + intros [[-> | Hin] Hne]; [congruence | exact Hin].
  - apply Nat.eqb_neq in E. simpl. rewrite (IH Hl). split.
    + intros [-> | [Hin Hne]]; [split; [left; reflexivity | exact E] | split; [right; exact Hin | exact Hne]].
    + intros [[-> | Hin] Hne]; [left; reflexivity | right; split; assumption].
Qed.

Lemma remove_first_absent a l : ~ In a l -> remove_first a l = l.
Proof.
  induction l as [|y l IH]; simpl; intros H; [reflexivity|].
  destruct (Nat.eqb y a) eqn:E; [apply Nat.eqb_eq in E; subst; exfalso; apply H; left; reflexivity|].
  rewrite IH; [reflexivity | intros Hin; apply H; right; exact Hin].
Qed.

Lemma del_rec_absent id l : find_rec id l = None -> del_rec id l = l.
Proof.
  induction l as [|y l IH]; simpl; [reflexivity|]. destruct (Nat.eqb (a_id y) id); [discriminate|].
  intros H. rewrite IH by exact H. reflexivity.
Qed.

(* ------------------------------------------------------------------ deleting the record of a property group *)
Lemma keyed_del_nonhole R x rx h lab d :
  NoDup (ids R) -> find_rec x R = Some rx -> a_kind rx <> KHole ->
  (keyedR (del_rec x R) h lab d <-> keyedR R h lab d).
Proof.
  intros Hn Hx Hk. unfold keyedR. split; intros (rh & Hf & Hkh & Hin).
  - rewrite find_del in Hf by exact Hn. destruct (Nat.eqb h x); [discriminate|]. exists rh. auto.
  - exists rh. rewrite find_del by exact Hn. destruct (Nat.eqb h x) eqn:E.
    + apply Nat.eqb_eq in E. subst. rewrite Hx in Hf. inversion Hf; subst. contradiction.
    + auto.
Qed.

Lemma hole_del_nonhole R x rx h :
  NoDup (ids R) -> find_rec x R = Some rx -> a_kind rx <> KHole -> (isholeR (del_rec x R) h <-> isholeR R h).
Proof.
  intros Hn Hx Hk. unfold isholeR. split; intros (r & Hf & Hkh).
  - rewrite find_del in Hf by exact Hn. destruct (Nat.eqb h x); [discriminate|]. eauto.
  - exists r. rewrite find_del by exact Hn. destruct (Nat.eqb h x) eqn:E; [|auto].
    apply Nat.eqb_eq in E. subst. rewrite Hx in Hf. inversion Hf; subst. contradiction.
Qed.

Lemma WFR_del_pg R O x rx : WFR R O -> find_rec x R = Some rx -> a_kind rx = KPG -> WFR (del_rec x R) O.
Proof.
  intros [w1 w2 w3 w4 w5 w6 w7 w8] Hx Hk.
  assert (Hnh : a_kind rx <> KHole) by (rewrite Hk; discriminate).
  assert (KE : forall h lab d, keyedR (del_rec x R) h lab d <-> keyedR R h lab d)
    by (intros; eapply keyed_del_nonhole; eassumption).
  constructor.
  - apply nodup_del_rec. exact w1.
  - exact w2.
  - intros h. rewrite w3. symmetry. eapply hole_del_nonhole; eassumption.
  - intros h lab d Hkd. apply KE in Hkd. destruct (w4 h lab d Hkd) as (rd & Hf & Hkk & Hnm).
    exists rd. rewrite find_del by exact w1. destruct (Nat.eqb d x) eqn:E; [|auto].
    apply Nat.eqb_eq in E. subst. rewrite Hx in Hf. inversion Hf; subst. rewrite Hk in Hkk. discriminate.
  - intros h h' lab lab' d H1 H2. apply KE in H1. apply KE in H2. eapply w5; eassumption.
  - intros h rh Hf Hkh. rewrite find_del in Hf by exact w1. destruct (Nat.eqb h x); [discriminate|]. eapply w6; eassumption.
  - intros d rd Hf Hkd. rewrite find_del in Hf by exact w1. destruct (Nat.eqb d x); [discriminate|].
    destruct (w7 d rd Hf Hkd) as (h & Hh). exists h. apply KE. exact Hh.
  - intros d rd Hf Hkd. rewrite find_del in Hf by exact w1. destruct (Nat.eqb d x); [discriminate|]. eapply w8; eassumption.
Qed.

(* P7: Concatenator.remove_entity(group), once its members are gone or not: the row loses the id, the record goes *)
Lemma wf_drop_pg S R O h pg S' :
  WF3 S R O -> In h O -> In pg (pgs_in (content L_PG S) h) ->
  lstep S (Put L_PG h 0 (ids_val (remove_first pg (pgs_in (content L_PG S) h)))) = Ok S' ->
  WF3 S' (del_rec pg R) O.
Proof.
  intros (HA & HR & Hrows & HG) Hh Hl H.
  destruct (content_put_pg S h _ S' HA H) as [Hc _].
  destruct HG as [g1 g2 g3 g4 g5 g6].
  destruct (g1 h pg Hl) as (rp & Hfp & Hkp & _).
  assert (Hnh : a_kind rp <> KHole) by (rewrite Hkp; discriminate).
  pose proof (r_uniq _ _ HR) as Hn.
  assert (KE : forall a b c, keyedR (del_rec pg R) a b c <-> keyedR R a b c)
    by (intros; eapply keyed_del_nonhole; eassumption).
  set (l := pgs_in (content L_PG S) h) in *.
  assert (Hl' : forall x, In x (remove_first pg l) <-> In x l /\ x <> pg) by (intros; apply remove_first_in; apply g3).
  split; [eapply lstep_tiled'; eassumption|]. split; [|split].
  - eapply WFR_del_pg; eassumption.
  - eapply WFrows_mono; [intros a b c Hk; apply KE; exact Hk|]. eapply wfrows_put_pg; eassumption.
  - rewrite Hc.
    assert (PI : forall h', pgs_in (without (ByObj h) (content L_PG S) ++ [(h, 0, ids_val (remove_first pg l))]) h'
                           = if Nat.eqb h' h then remove_first pg l else pgs_in (content L_PG S) h') by (intros; apply pgs_in_put).
    assert (Old : forall h' x, In x (pgs_in (without (ByObj h) (content L_PG S) ++ [(h, 0, ids_val (remove_first pg l))]) h')
                          -> In x (pgs_in (content L_PG S) h') /\ x <> pg).
    { intros h' x Hin. rewrite PI in Hin. destruct (Nat.eqb h' h) eqn:E.
      - apply Nat.eqb_eq in E. subst. apply Hl'. exact Hin.
      - split; [exact Hin|]. intros ->. apply Nat.eqb_neq in E. apply E. eapply g4; eassumption. }
    constructor.
    + intros h' x Hin. destruct (Old h' x Hin) as [Ho Hne]. destruct (g1 h' x Ho) as (rx & Hfx & Hkx & Hndx & Hkeyed).
      exists rx. rewrite find_del by exact Hn. rewrite eqb_false_ne by exact Hne.
      split; [exact Hfx|]. split; [exact Hkx|]. split; [exact Hndx|].
      intros m Hm. destruct (Hkeyed m Hm) as (lab & Hk). exists lab. apply KE. exact Hk.
    + intros x rx Hf Hk. rewrite find_del in Hf by exact Hn. destruct (Nat.eqb x pg) eqn:E; [discriminate|].
      apply Nat.eqb_neq in E. destruct (g2 x rx Hf Hk) as (h' & Hh' & Hin). exists h'. split; [exact Hh'|].
      rewrite PI. destruct (Nat.eqb h' h) eqn:E'; [|exact Hin].
      apply Nat.eqb_eq in E'. subst. apply Hl'. split; assumption.
    + intros h'. rewrite PI. destruct (Nat.eqb h' h); [apply remove_first_nodup; apply g3 | apply g3].
    + intros h1 h2 x H1 H2. eapply g4; [apply (Old h1 x H1) | apply (Old h2 x H2)].
    + intros h' p1 p2 r1 r2 m H1 H2 F1 F2 M1 M2.
      rewrite find_del in F1, F2 by exact Hn.
      destruct (Nat.eqb p1 pg); [discriminate|]. destruct (Nat.eqb p2 pg); [discriminate|].
      eapply (g5 h' p1 p2 r1 r2 m); try eassumption; [apply (Old h' p1 H1) | apply (Old h' p2 H2)].
    + intros h' x Hin. eapply g6. apply (Old h' x Hin).
Qed.

(* ------------------------------------------------------------------ appending the record of a new property group *)
Lemma find_app_old x R r rx : find_rec x R = Some rx -> find_rec x (R ++ [r]) = Some rx.
Proof. intros H. rewrite find_rec_app, H. reflexivity. Qed.

Lemma find_app_inv x R r rx :
  find_rec x (R ++ [r]) = Some rx -> find_rec x R = Some rx \/ (find_rec x R = None /\ x = a_id r /\ rx = r).
Proof.
  rewrite find_rec_app. destruct (find_rec x R) as [y|]; [intros H; left; exact H|].
  destruct (Nat.eqb (a_id r) x) eqn:E; [|discriminate]. apply Nat.eqb_eq in E. intros H. inversion H; subst. right. auto.
Qed.

Lemma keyed_app_nonhole R r a b c :
  a_kind r <> KHole -> (keyedR (R ++ [r]) a b c <-> keyedR R a b c).
Proof.
  intros Hk. unfold keyedR. split; intros (rh & Hf & Hkh & Hin).
  - apply find_app_inv in Hf as [Hf | (_ & _ & ->)]; [eauto | contradiction].
  - exists rh. split; [apply find_app_old; exact Hf | auto].
Qed.

Lemma hole_app_nonhole R r h : a_kind r <> KHole -> (isholeR (R ++ [r]) h <-> isholeR R h).
Proof.
  intros Hk. unfold isholeR. split; intros (rh & Hf & Hkh).
  - apply find_app_inv in Hf as [Hf | (_ & _ & ->)]; [eauto | contradiction].
  - exists rh. split; [apply find_app_old; exact Hf | exact Hkh].
Qed.

Lemma WFR_app_pg R O r : WFR R O -> find_rec (a_id r) R = None -> a_kind r = KPG -> WFR (R ++ [r]) O.
Proof.
  intros [w1 w2 w3 w4 w5 w6 w7 w8] Hfr Hk.
  assert (Hnh : a_kind r <> KHole) by (rewrite Hk; discriminate).
  assert (KE : forall a b c, keyedR (R ++ [r]) a b c <-> keyedR R a b c) by (intros; apply keyed_app_nonhole; exact Hnh).
  constructor.
  - unfold ids. rewrite map_app. simpl. apply NoDup_snoc; [exact w1 | apply find_rec_none; exact Hfr].
  - exact w2.
  - intros h. rewrite w3. symmetry. apply hole_app_nonhole. exact Hnh.
  - intros h lab d Hkd. apply KE in Hkd. destruct (w4 h lab d Hkd) as (rd & Hf & Hkk & Hnm).
    exists rd. split; [apply find_app_old; exact Hf | auto].
  - intros h h' lab lab' d H1 H2. apply KE in H1. apply KE in H2. eapply w5; eassumption.
  - intros h rh Hf Hkh. apply find_app_inv in Hf as [Hf | (_ & _ & ->)]; [eapply w6; eassumption | contradiction].
  - intros d rd Hf Hkd. apply find_app_inv in Hf as [Hf | (_ & _ & ->)]; [|rewrite Hk in Hkd; discriminate].
    destruct (w7 d rd Hf Hkd) as (h & Hh). exists h. apply KE. exact Hh.
  - intros d rd Hf Hkd. apply find_app_inv in Hf as [Hf | (_ & _ & ->)]; [eapply w8; eassumption | rewrite Hk in Hkd; discriminate].
Qed.

(* P1: a new, empty property group of hole h *)
Lemma wf_new_pg S R O h pgid pgname S' :
  WF3 S R O -> In h O -> find_rec pgid R = None ->
  lstep S (Put L_PG h 0 (ids_val (pgs_in (content L_PG S) h ++ [pgid]))) = Ok S' ->
  WF3 S' (R ++ [mkrec pgid KPG pgname [] []]) O.
Proof.
  intros (HA & HR & Hrows & HG) Hh Hfr H.
  destruct (content_put_pg S h _ S' HA H) as [Hc _].
  destruct HG as [g1 g2 g3 g4 g5 g6].
  set (r := mkrec pgid KPG pgname [] []) in *.
  assert (Hnh : a_kind r <> KHole) by (simpl; discriminate).
  assert (KE : forall a b c, keyedR (R ++ [r]) a b c <-> keyedR R a b c) by (intros; apply keyed_app_nonhole; exact Hnh).
  set (l := pgs_in (content L_PG S) h) in *.
  assert (Hnot : forall h', ~ In pgid (pgs_in (content L_PG S) h')).
  { intros h' Hin. destruct (g1 h' pgid Hin) as (rp & Hf & _). rewrite Hfr in Hf. discriminate. }
  split; [eapply lstep_tiled'; eassumption|]. split; [|split].
  - apply WFR_app_pg; [exact HR | exact Hfr | reflexivity].
  - eapply WFrows_mono; [intros a b c Hk; apply KE; exact Hk|]. eapply wfrows_put_pg; eassumption.
  - rewrite Hc.
    assert (PI : forall h', pgs_in (without (ByObj h) (content L_PG S) ++ [(h, 0, ids_val (l ++ [pgid]))]) h'
                           = if Nat.eqb h' h then l ++ [pgid] else pgs_in (content L_PG S) h') by (intros; apply pgs_in_put).
    assert (Cases : forall h' x, In x (pgs_in (without (ByObj h) (content L_PG S) ++ [(h, 0, ids_val (l ++ [pgid]))]) h')
                            -> In x (pgs_in (content L_PG S) h') \/ (h' = h /\ x = pgid)).
    { intros h' x Hin. rewrite PI in Hin. destruct (Nat.eqb h' h) eqn:E; [|left; exact Hin].
      apply Nat.eqb_eq in E. subst. apply in_app_or in Hin as [Hin | [<- | []]]; [left; exact Hin | right; auto]. }
    constructor.
    + intros h' x Hin. destruct (Cases h' x Hin) as [Ho | [-> ->]].
      * destruct (g1 h' x Ho) as (rx & Hfx & Hkx & Hndx & Hkeyed). exists rx.
        split; [apply find_app_old; exact Hfx|]. split; [exact Hkx|]. split; [exact Hndx|].
        intros m Hm. destruct (Hkeyed m Hm) as (lab & Hk). exists lab. apply KE. exact Hk.
      * exists r. rewrite find_rec_app, Hfr. simpl. rewrite Nat.eqb_refl.
        split; [reflexivity|]. split; [reflexivity|]. split; [constructor | intros m []].
    + intros x rx Hf Hk. apply find_app_inv in Hf as [Hf | (_ & -> & ->)].
      * destruct (g2 x rx Hf Hk) as (h' & Hh' & Hin). exists h'. split; [exact Hh'|].
        rewrite PI. destruct (Nat.eqb h' h) eqn:E'; [|exact Hin].
        apply Nat.eqb_eq in E'. subst. apply in_or_app. left. exact Hin.
      * exists h. split; [exact Hh|]. rewrite PI, Nat.eqb_refl. apply in_or_app. right. left. reflexivity.
    + intros h'. rewrite PI. destruct (Nat.eqb h' h); [|apply g3].
      apply NoDup_snoc; [apply g3 | apply Hnot].
    + intros h1 h2 x H1 H2. destruct (Cases h1 x H1) as [O1 | [E1 E1']]; destruct (Cases h2 x H2) as [O2 | [E2 E2']].
      * eapply g4; eassumption.
      * subst. exfalso. exact (Hnot _ O1).
      * subst. exfalso. exact (Hnot _ O2).
      * congruence.
    + intros h' p1 p2 r1 r2 m H1 H2 F1 F2 M1 M2.
      apply find_app_inv in F1 as [F1 | (_ & E1 & ->)]; [|contradiction].
      apply find_app_inv in F2 as [F2 | (_ & E2 & ->)]; [|contradiction].
      destruct (Cases h' p1 H1) as [O1 | [_ ->]]; [|rewrite Hfr in F1; discriminate].
      destruct (Cases h' p2 H2) as [O2 | [_ ->]]; [|rewrite Hfr in F2; discriminate].
      eapply (g5 h' p1 p2 r1 r2 m); eassumption.
    + intros h' x Hin. destruct (Cases h' x Hin) as [Ho | [-> _]]; [eapply g6; exact Ho | exact Hh].
Qed.

(* ------------------------------------------------------------------ a new data set of hole h: key + record *)
Definition add_key (name d : nat) (r : arec) : arec := set_props (a_props r ++ [(name, d)]) r.

Lemma has_key_false k l : has_key k l = false -> ~ In k (map (fun p : nat * nat => fst p) l).
Proof.
  unfold has_key. intros H Hin. apply in_map_iff in Hin as (p & <- & Hp).
  assert (existsb (fun q : nat * nat => Nat.eqb (fst q) (fst p)) l = true) by (apply existsb_exists; exists p; split; [exact Hp | apply Nat.eqb_refl]).
  congruence.
Qed.

Lemma has_key_true k l : has_key k l = true -> exists d, In (k, d) l.
Proof.
  unfold has_key. intros H. apply existsb_exists in H as ([a b] & Hin & E). simpl in E. apply Nat.eqb_eq in E. subst. eauto.
Qed.

Section CreateRecs.
  Variables (R : list arec) (O : list nat) (h d name : nat) (rh : arec).
  Hypothesis HR : WFR R O.
  Hypothesis Hh : find_rec h R = Some rh.
  Hypothesis Hhk : a_kind rh = KHole.
  Hypothesis Hd : find_rec d R = None.
  Hypothesis Hname : 10 <= name.
  Hypothesis Hnk : has_key name (a_props rh) = false.

  Let R2 := upd_rec h (add_key name d) R ++ [mkrec d KData name [] []].

  Lemma hd_ne : h <> d.
  Proof. intros ->. rewrite Hd in Hh. discriminate. Qed.

  Lemma find_R2 x :
    find_rec x R2 = if Nat.eqb x h then Some (add_key name d rh)
                    else if Nat.eqb x d then Some (mkrec d KData name [] []) else find_rec x R.
  Proof.
    unfold R2. rewrite find_rec_app, find_upd by reflexivity. destruct (Nat.eqb x h) eqn:E.
    - apply Nat.eqb_eq in E. subst. rewrite Hh. reflexivity.
    - simpl. destruct (Nat.eqb x d) eqn:E2.
      + apply Nat.eqb_eq in E2. subst. rewrite Hd, Nat.eqb_refl. reflexivity.
      + destruct (find_rec x R); [reflexivity|]. rewrite Nat.eqb_sym, E2. reflexivity.
  Qed.

  Lemma keyed_R2 a b c : keyedR R2 a b c <-> keyedR R a b c \/ (a = h /\ b = name /\ c = d).
  Proof.
    unfold keyedR. split.
    - intros (r & Hf & Hk & Hin). rewrite find_R2 in Hf. destruct (Nat.eqb a h) eqn:E.
      + apply Nat.eqb_eq in E. subst. inversion Hf; subst. simpl in Hin. apply in_app_or in Hin as [Hin | [Hin | []]].
        * left. exists rh. auto.
        * inversion Hin; subst. right. auto.
      + destruct (Nat.eqb a d); [inversion Hf; subst; discriminate|]. left. exists r. auto.
    - intros [(r & Hf & Hk & Hin) | (-> & -> & ->)].
      + rewrite find_R2. destruct (Nat.eqb a h) eqn:E.
        * apply Nat.eqb_eq in E. subst. rewrite Hh in Hf. inversion Hf; subst.
          exists (add_key name d r). split; [reflexivity|]. split; [exact Hk|]. simpl. apply in_or_app. left. exact Hin.
        * destruct (Nat.eqb a d) eqn:E2; [apply Nat.eqb_eq in E2; subst; rewrite Hd in Hf; discriminate|].
          exists r. auto.
      + exists (add_key name d rh). rewrite find_R2, Nat.eqb_refl. split; [reflexivity|]. split; [exact Hhk|].
        simpl. apply in_or_app. right. left. reflexivity.
  Qed.

  Lemma hole_R2 x : isholeR R2 x <-> isholeR R x.
  Proof.
    unfold isholeR. split; intros (r & Hf & Hk).
    - rewrite find_R2 in Hf. destruct (Nat.eqb x h) eqn:E; [apply Nat.eqb_eq in E; subst; eauto|].
      destruct (Nat.eqb x d); [inversion Hf; subst; discriminate | eauto].
    - rewrite find_R2. destruct (Nat.eqb x h) eqn:E.
      + exists (add_key name d rh). split; [reflexivity | exact Hhk].
      + destruct (Nat.eqb x d) eqn:E2; [apply Nat.eqb_eq in E2; subst; rewrite Hd in Hf; discriminate | eauto].
  Qed.

  Lemma old_key_ne a b c : keyedR R a b c -> c <> d.
  Proof.
    intros Hk ->. destruct (r_key_rec _ _ HR a b d Hk) as (rd & Hf & _). rewrite Hd in Hf. discriminate.
  Qed.

  Lemma WFR_R2 : WFR R2 O.
  Proof.
    destruct HR as [w1 w2 w3 w4 w5 w6 w7 w8]. constructor.
    - unfold R2, ids. rewrite map_app. simpl. fold (ids (upd_rec h (add_key name d) R)).
      rewrite ids_upd_rec by reflexivity. apply NoDup_snoc; [exact w1 | apply find_rec_none; exact Hd].
    - exact w2.
    - intros x. rewrite w3. symmetry. apply hole_R2.
    - intros a b c Hk. apply keyed_R2 in Hk as [Hk | (-> & -> & ->)].
      + destruct (w4 a b c Hk) as (rd & Hf & Hkd & Hnm). exists rd. rewrite find_R2.
        destruct (Nat.eqb c h) eqn:E; [apply Nat.eqb_eq in E; subst; rewrite Hh in Hf; inversion Hf; subst; congruence|].
        rewrite eqb_false_ne by (eapply old_key_ne; exact Hk). auto.
      + exists (mkrec d KData name [] []). rewrite find_R2. rewrite eqb_false_ne by (intros E; apply hd_ne; auto).
        rewrite Nat.eqb_refl. auto.
    - intros a a' b b' c H1 H2. apply keyed_R2 in H1. apply keyed_R2 in H2.
      destruct H1 as [H1 | (-> & -> & ->)]; destruct H2 as [H2 | (-> & -> & E2)].
      + eapply w5; eassumption.
      + subst. exfalso. eapply old_key_ne; [exact H1 | reflexivity].
      + exfalso. eapply old_key_ne; [exact H2 | reflexivity].
      + reflexivity.
    - intros x r Hf Hk. rewrite find_R2 in Hf. destruct (Nat.eqb x h) eqn:E.
      + inversion Hf; subst. simpl. destruct (w6 h rh Hh Hhk) as [N1 N2]. rewrite !map_app. simpl. split.
        * apply NoDup_snoc; [exact N1 | apply has_key_false; exact Hnk].
        * apply NoDup_snoc; [exact N2|]. intros Hin. apply in_map_iff in Hin as ([b c] & Ec & Hin). simpl in Ec. subst.
          eapply (old_key_ne h b d); [exists rh; auto | reflexivity].
      + destruct (Nat.eqb x d); [inversion Hf; subst; discriminate|]. eapply w6; eassumption.
    - intros x r Hf Hk. rewrite find_R2 in Hf. destruct (Nat.eqb x h) eqn:E; [inversion Hf; subst; simpl in Hk; congruence|].
      destruct (Nat.eqb x d) eqn:E2.
      + apply Nat.eqb_eq in E2. inversion Hf; subst. simpl. exists h. apply keyed_R2. right. auto.
      + destruct (w7 x r Hf Hk) as (a & Ha). exists a. apply keyed_R2. left. exact Ha.
    - intros x r Hf Hk. rewrite find_R2 in Hf. destruct (Nat.eqb x h) eqn:E; [inversion Hf; subst; simpl in Hk; congruence|].
      destruct (Nat.eqb x d); [inversion Hf; subst; exact Hname | eapply w8; eassumption].
  Qed.

  Lemma WFpg_R2 C : WFpg R O C -> WFpg R2 O C.
  Proof.
    intros [g1 g2 g3 g4 g5 g6].
    assert (Keep : forall x rx, find_rec x R = Some rx -> a_kind rx = KPG -> find_rec x R2 = Some rx).
    { intros x rx Hf Hk. rewrite find_R2. destruct (Nat.eqb x h) eqn:E.
      - apply Nat.eqb_eq in E. subst. rewrite Hh in Hf. inversion Hf; subst. congruence.
      - destruct (Nat.eqb x d) eqn:E2; [apply Nat.eqb_eq in E2; subst; rewrite Hd in Hf; discriminate | exact Hf]. }
    assert (Back : forall x rx, find_rec x R2 = Some rx -> a_kind rx = KPG -> find_rec x R = Some rx).
    { intros x rx Hf Hk. rewrite find_R2 in Hf. destruct (Nat.eqb x h); [inversion Hf; subst; simpl in Hk; congruence|].
      destruct (Nat.eqb x d); [inversion Hf; subst; discriminate | exact Hf]. }
    constructor.
    - intros a pg Hin. destruct (g1 a pg Hin) as (rp & Hf & Hk & Hnd & Hkeyed). exists rp.
      split; [apply Keep; assumption|]. split; [exact Hk|]. split; [exact Hnd|].
      intros m Hm. destruct (Hkeyed m Hm) as (lab & Hl). exists lab. apply keyed_R2. left. exact Hl.
    - intros pg rp Hf Hk. apply (g2 pg rp (Back _ _ Hf Hk) Hk).
    - exact g3.
    - exact g4.
    - intros a p1 p2 r1 r2 m H1 H2 F1 F2 M1 M2.
      destruct (g1 a p1 H1) as (q1 & Q1 & K1 & _). destruct (g1 a p2 H2) as (q2 & Q2 & K2 & _).
      rewrite (Keep _ _ Q1 K1) in F1. rewrite (Keep _ _ Q2 K2) in F2. inversion F1; inversion F2; subst.
      eapply (g5 a p1 p2 r1 r2 m); eassumption.
    - exact g6.
  Qed.
End CreateRecs.

Definition add_member (d : nat) (r : arec) : arec := set_members (a_members r ++ [d]) r.

Lemma wf_add_member S R O h pg d lab :
  WF3 S R O -> In pg (pgs_in (content L_PG S) h) -> keyedR R h lab d ->
  (forall h' p rp, In p (pgs_in (content L_PG S) h') -> find_rec p R = Some rp -> ~ In d (a_members rp)) ->
  WF3 S (upd_rec pg (add_member d) R) O.
Proof.
  intros (HA & HR & Hrows & HG) Hl Hk Hnot.
  assert (E : requiv R (upd_rec pg (add_member d) R)) by (apply requiv_upd; [reflexivity | intros r; repeat split]).
  assert (F : forall x, find_rec x (upd_rec pg (add_member d) R)
                       = if Nat.eqb x pg then option_map (add_member d) (find_rec pg R) else find_rec x R)
    by (intros; apply find_upd; reflexivity).
  split; [exact HA|]. split; [|split].
  - eapply WFR_equiv; [exact E | rewrite ids_upd_rec by reflexivity; apply (r_uniq _ _ HR) | exact HR].
  - eapply WFrows_mono; [|exact Hrows]. intros a b c. apply requiv_keyed. exact E.
  - destruct HG as [g1 g2 g3 g4 g5 g6]. constructor.
    + intros a p Hin. destruct (g1 a p Hin) as (rp & Hf & Hkp & Hnd & Hkeyed).
      destruct (Nat.eq_dec p pg) as [-> | Hne].
      * assert (a = h) by (eapply g4; eassumption). subst a.
        exists (add_member d rp). rewrite F, Nat.eqb_refl, Hf. simpl.
        split; [reflexivity|]. split; [exact Hkp|]. split.
        -- apply NoDup_snoc; [exact Hnd | eapply Hnot; eassumption].
        -- intros m Hm. apply in_app_or in Hm as [Hm | [<- | []]].
           ++ destruct (Hkeyed m Hm) as (l' & Hl'). exists l'. eapply requiv_keyed; eassumption.
           ++ exists lab. eapply requiv_keyed; eassumption.
      * exists rp. rewrite F, eqb_false_ne by exact Hne. split; [exact Hf|]. split; [exact Hkp|]. split; [exact Hnd|].
        intros m Hm. destruct (Hkeyed m Hm) as (l' & Hl'). exists l'. eapply requiv_keyed; eassumption.
    + intros p rp Hf Hkp. rewrite F in Hf. destruct (Nat.eqb p pg) eqn:Ep.
      * apply Nat.eqb_eq in Ep. subst. destruct (find_rec pg R) as [r0|] eqn:F0; [|discriminate]. simpl in Hf. inversion Hf; subst.
        apply (g2 pg r0 F0). exact Hkp.
      * apply (g2 p rp Hf Hkp).
    + exact g3.
    + exact g4.
    + intros a p1 p2 r1 r2 m H1 H2 F1 F2 M1 M2.
      assert (Old : forall p r, In p (pgs_in (content L_PG S) a) -> find_rec p (upd_rec pg (add_member d) R) = Some r -> In m (a_members r) ->
                    exists r0, find_rec p R = Some r0 /\ (In m (a_members r0) \/ (p = pg /\ m = d))).
      { intros p r Hp Hf Hm. rewrite F in Hf. destruct (Nat.eqb p pg) eqn:Ep.
        - apply Nat.eqb_eq in Ep. subst. destruct (find_rec pg R) as [r0|]; [|discriminate]. simpl in Hf. inversion Hf; subst.
          exists r0. split; [reflexivity|]. simpl in Hm. apply in_app_or in Hm as [Hm | [<- | []]]; [left; exact Hm | right; auto].
        - exists r. auto. }
      destruct (Old p1 r1 H1 F1 M1) as (q1 & Q1 & [A1 | [-> ->]]); destruct (Old p2 r2 H2 F2 M2) as (q2 & Q2 & [A2 | [E2 E2']]).
      * eapply (g5 a p1 p2 q1 q2 m); eassumption.
      * subst. exfalso. eapply Hnot; [exact H1 | exact Q1 | exact A1].
      * exfalso. eapply Hnot; [exact H2 | exact Q2 | exact A2].
      * congruence.
    + exact g6.
Qed.

(* ------------------------------------------------------------------ removing the key and the record of a data set *)
Lemma del_key_in k l b c :
  NoDup (map (fun p : nat * nat => fst p) l) -> (In (b, c) (del_key k l) <-> In (b, c) l /\ b <> k).
Proof.
  induction l as [|[a x] l IH]; simpl; intros Hn; [tauto|]. inversion Hn as [|? ? Ha Hl]; subst.
  destruct (Nat.eqb a k) eqn:E.
  - apply Nat.eqb_eq in E. subst. split.
    + intros Hin. split; [right; exact Hin|]. intros ->. apply Ha. apply in_map_iff. exists (k, c). auto.
    + intros [[Heq | Hin] Hne]; [inversion Heq; congruence | exact Hin].
  - apply Nat.eqb_neq in E. simpl. rewrite (IH Hl). split.
    + intros [Heq | [Hin Hne]]; [inversion Heq; subst; split; [left; reflexivity | exact E] | split; [right; exact Hin | exact Hne]].
    + intros [[Heq | Hin] Hne]; [left; exact Heq | right; split; assumption].
Qed.

Lemma del_key_sub k l p : In p (del_key k l) -> In p l.
Proof.
  induction l as [|[a x] l IH]; simpl; [auto|]. destruct (Nat.eqb a k); [intros H; right; exact H|].
  intros [H | H]; [left; exact H | right; apply IH; exact H].
Qed.

Lemma del_key_nodup {A} (f : nat * nat -> A) k l : NoDup (map f l) -> NoDup (map f (del_key k l)).
Proof.
  induction l as [|[a x] l IH]; simpl; intros Hn; [constructor|]. inversion Hn as [|? ? Ha Hl]; subst.
  destruct (Nat.eqb a k); [exact Hl|]. simpl. constructor; [|apply IH; exact Hl].
  intros Hin. apply Ha. apply in_map_iff in Hin as (p & Hp & Hin). apply in_map_iff. exists p. split; [exact Hp | eapply del_key_sub; exact Hin].
Qed.

Definition drop_key (name : nat) (r : arec) : arec := set_props (del_key name (a_props r)) r.

Section DropData.
  Variables (S : store) (R : list arec) (O : list nat) (h d name : nat).
  Hypothesis HW : WF3 S R O.
  Hypothesis Hk : keyedR R h name d.
  Hypothesis Hnorow : forall lab o vs, 10 <= lab -> ~ In (o, d, vs) (content lab S).
  Hypothesis Hnomem : forall h' p rp, In p (pgs_in (content L_PG S) h') -> find_rec p R = Some rp -> ~ In d (a_members rp).

  Let R' := del_rec d (upd_rec h (drop_key name) R).

  Lemma dd_facts : exists rh rd, find_rec h R = Some rh /\ a_kind rh = KHole /\ In (name, d) (a_props rh)
                                 /\ find_rec d R = Some rd /\ a_kind rd = KData /\ h <> d.
  Proof.
    destruct HW as (_ & HR & _). destruct Hk as (rh & Hf & Hkh & Hin).
    destruct (r_key_rec _ _ HR h name d Hk) as (rd & Hfd & Hkd & _).
    exists rh, rd. repeat split; try assumption. intros ->. rewrite Hf in Hfd. inversion Hfd; subst. congruence.
  Qed.

  Lemma find_R' x :
    find_rec x R' = if Nat.eqb x d then None
                    else if Nat.eqb x h then option_map (drop_key name) (find_rec h R) else find_rec x R.
  Proof.
    destruct HW as (_ & HR & _). unfold R'. rewrite find_del by (rewrite ids_upd_rec by reflexivity; apply (r_uniq _ _ HR)).
    destruct (Nat.eqb x d); [reflexivity|]. apply find_upd. reflexivity.
  Qed.

  Lemma keyed_R' a b c : keyedR R' a b c <-> keyedR R a b c /\ c <> d.
  Proof.
    destruct HW as (_ & HR & _). destruct dd_facts as (rh & rd & Hf & Hkh & Hin & Hfd & Hkd & Hne).
    destruct (r_key_nd _ _ HR h rh Hf Hkh) as [N1 N2].
    unfold keyedR. split.
    - intros (r & Hfr & Hkr & Hir). rewrite find_R' in Hfr. destruct (Nat.eqb a d) eqn:Ea; [discriminate|].
      destruct (Nat.eqb a h) eqn:Eh.
      + apply Nat.eqb_eq in Eh. subst a. rewrite Hf in Hfr. simpl in Hfr. inversion Hfr; subst. simpl in Hir.
        apply (del_key_in name (a_props rh) b c N1) in Hir as [Hir Hb]. split; [exists rh; auto|].
        intros ->. apply Hb.
        (* two keys with the same data id have the same label *)
        assert (G : forall l, NoDup (map (fun p : nat * nat => snd p) l) -> In (b, d) l -> In (name, d) l -> b = name).
        { induction l as [|[x y] l IH]; simpl; intros Hn H1 H2; [contradiction|]. inversion Hn as [|? ? Hy Hl]; subst.
          destruct H1 as [H1 | H1]; destruct H2 as [H2 | H2].
          - congruence.
          - inversion H1; subst. exfalso. apply Hy. apply in_map_iff. exists (name, d). auto.
          - inversion H2; subst. exfalso. apply Hy. apply in_map_iff. exists (b, d). auto.
          - apply IH; assumption. }
        apply (G (a_props rh) N2 Hir Hin).
      + split; [exists r; auto|]. intros ->. apply Nat.eqb_neq in Eh. apply Eh.
        eapply (r_key_inj _ _ HR a h b name d); [exists r; auto | exact Hk].
    - intros [(r & Hfr & Hkr & Hir) Hc]. destruct (Nat.eq_dec a h) as [-> | Hah].
      + rewrite Hf in Hfr. inversion Hfr; subst. exists (drop_key name r). rewrite find_R'.
        rewrite eqb_false_ne by exact Hne. rewrite Nat.eqb_refl, Hf. simpl. split; [reflexivity|]. split; [exact Hkr|].
        apply (del_key_in name (a_props r) b c N1). split; [exact Hir|]. intros ->. apply Hc.
        assert (G : forall l, NoDup (map (fun p : nat * nat => fst p) l) -> In (name, c) l -> In (name, d) l -> c = d).
        { induction l as [|[x y] l IH]; simpl; intros Hn H1 H2; [contradiction|]. inversion Hn as [|? ? Hy Hl]; subst.
          destruct H1 as [H1 | H1]; destruct H2 as [H2 | H2].
          - congruence.
          - inversion H1; subst. exfalso. apply Hy. apply in_map_iff. exists (name, d). auto.
          - inversion H2; subst. exfalso. apply Hy. apply in_map_iff. exists (name, c). auto.
          - apply IH; assumption. }
        apply (G (a_props r) N1 Hir Hin).
      + exists r. rewrite find_R'. destruct (Nat.eqb a d) eqn:Ea.
        * apply Nat.eqb_eq in Ea. subst. rewrite Hfd in Hfr. inversion Hfr; subst. congruence.
        * rewrite eqb_false_ne by exact Hah. auto.
  Qed.

  Lemma hole_R' x : isholeR R' x <-> isholeR R x.
  Proof.
    destruct dd_facts as (rh & rd & Hf & Hkh & Hin & Hfd & Hkd & Hne). unfold isholeR. split; intros (r & Hfr & Hkr).
    - rewrite find_R' in Hfr. destruct (Nat.eqb x d); [discriminate|]. destruct (Nat.eqb x h) eqn:Eh.
      + apply Nat.eqb_eq in Eh. subst. exists rh. auto.
      + eauto.
    - rewrite find_R'. destruct (Nat.eqb x d) eqn:Ed.
      + apply Nat.eqb_eq in Ed. subst. rewrite Hfd in Hfr. inversion Hfr; subst. congruence.
      + destruct (Nat.eqb x h) eqn:Eh; [|eauto]. rewrite Hf. simpl. exists (drop_key name rh). split; [reflexivity | exact Hkh].
  Qed.

  Lemma keep_other x r : find_rec x R = Some r -> a_kind r <> KHole -> x <> d -> find_rec x R' = Some r.
  Proof.
    destruct dd_facts as (rh & rd & Hf & Hkh & _). intros Hfr Hkr Hx. rewrite find_R'. rewrite eqb_false_ne by exact Hx.
    destruct (Nat.eqb x h) eqn:Eh; [|exact Hfr]. apply Nat.eqb_eq in Eh. subst. rewrite Hf in Hfr. inversion Hfr; subst. contradiction.
  Qed.

  Lemma back_other x r : find_rec x R' = Some r -> a_kind r <> KHole -> find_rec x R = Some r /\ x <> d.
  Proof.
    destruct dd_facts as (rh & rd & Hf & Hkh & _). intros Hfr Hkr. rewrite find_R' in Hfr.
    destruct (Nat.eqb x d) eqn:Ed; [discriminate|]. apply Nat.eqb_neq in Ed. split; [|exact Ed].
    destruct (Nat.eqb x h); [|exact Hfr]. rewrite Hf in Hfr. simpl in Hfr. inversion Hfr; subst. simpl in Hkr. contradiction.
  Qed.

  Lemma wf_drop_data : WF3 S R' O.
  Proof.
    destruct HW as (HA & HR & (Ho & Hd) & HG).
    destruct dd_facts as (rh & rd & Hf & Hkh & Hin & Hfd & Hkd & Hne).
    destruct HR as [w1 w2 w3 w4 w5 w6 w7 w8].
    split; [exact HA|]. split; [|split].
    - constructor.
      + unfold R'. apply nodup_del_rec. rewrite ids_upd_rec by reflexivity. exact w1.
      + exact w2.
      + intros x. rewrite w3. symmetry. apply hole_R'.
      + intros a b c Hkk. apply keyed_R' in Hkk as [Hkk Hc]. destruct (w4 a b c Hkk) as (rc & Hfc & Hkc & Hnc).
        exists rc. split; [apply keep_other; [exact Hfc | rewrite Hkc; discriminate | exact Hc] | auto].
      + intros a a' b b' c H1 H2. apply keyed_R' in H1 as [H1 _]. apply keyed_R' in H2 as [H2 _]. eapply w5; eassumption.
      + intros x r Hfr Hkr. rewrite find_R' in Hfr. destruct (Nat.eqb x d); [discriminate|]. destruct (Nat.eqb x h) eqn:Eh.
        * rewrite Hf in Hfr. simpl in Hfr. inversion Hfr; subst. simpl. destruct (w6 h rh Hf Hkh) as [N1 N2].
          split; apply del_key_nodup; assumption.
        * eapply w6; eassumption.
      + intros x r Hfr Hkr. destruct (back_other x r Hfr ltac:(rewrite Hkr; discriminate)) as [Hfx Hx].
        destruct (w7 x r Hfx Hkr) as (a & Ha). exists a. apply keyed_R'. split; assumption.
      + intros x r Hfr Hkr. destruct (back_other x r Hfr ltac:(rewrite Hkr; discriminate)) as [Hfx Hx]. eapply w8; eassumption.
    - split; [exact Ho|]. intros lab o c vs Hl Hinc. apply keyed_R'. split; [eapply Hd; eassumption|].
      intros ->. eapply Hnorow; eassumption.
    - destruct HG as [g1 g2 g3 g4 g5 g6]. constructor.
      + intros a p Hp. destruct (g1 a p Hp) as (rp & Hfp & Hkp & Hnd & Hkeyed). exists rp.
        split; [apply keep_other; [exact Hfp | rewrite Hkp; discriminate|]; intros ->; rewrite Hfd in Hfp; inversion Hfp; subst; congruence|].
        split; [exact Hkp|]. split; [exact Hnd|]. intros m Hm. destruct (Hkeyed m Hm) as (l & Hl). exists l.
        apply keyed_R'. split; [exact Hl|]. intros ->. eapply Hnomem; eassumption.
      + intros p rp Hfp Hkp. destruct (back_other p rp Hfp ltac:(rewrite Hkp; discriminate)) as [Hfx _]. eapply g2; eassumption.
      + exact g3.
      + exact g4.
      + intros a p1 p2 r1 r2 m H1 H2 F1 F2 M1 M2.
        destruct (g1 a p1 H1) as (q1 & Q1 & K1 & _). destruct (g1 a p2 H2) as (q2 & Q2 & K2 & _).
        assert (E1 : find_rec p1 R' = Some q1) by (apply keep_other; [exact Q1 | rewrite K1; discriminate | intros ->; rewrite Hfd in Q1; inversion Q1; subst; congruence]).
        assert (E2 : find_rec p2 R' = Some q2) by (apply keep_other; [exact Q2 | rewrite K2; discriminate | intros ->; rewrite Hfd in Q2; inversion Q2; subst; congruence]).
        rewrite E1 in F1. rewrite E2 in F2. inversion F1; inversion F2; subst. eapply (g5 a p1 p2 r1 r2 m); eassumption.
      + exact g6.
  Qed.
End DropData.

(* ------------------------------------------------------------------ a new hole / the end of a hole *)
Lemma wf_add_hole S R O h :
  WF3 S R O -> find_rec h R = None -> WF3 S (R ++ [mkrec h KHole h [] []]) (O ++ [h]).
Proof.
  intros (HA & HR & (Ho & Hd) & HG) Hfr.
  set (r := mkrec h KHole h [] []).
  assert (KE : forall a b c, keyedR (R ++ [r]) a b c <-> keyedR R a b c).
  { intros a b c. unfold keyedR. split; intros (rh & Hf & Hk & Hin).
    - apply find_app_inv in Hf as [Hf | (_ & _ & ->)]; [eauto | simpl in Hin; contradiction].
    - exists rh. split; [apply find_app_old; exact Hf | auto]. }
  assert (HE : forall x, isholeR (R ++ [r]) x <-> isholeR R x \/ x = h).
  { intros x. unfold isholeR. split.
    - intros (rx & Hf & Hk). apply find_app_inv in Hf as [Hf | (_ & -> & _)]; [left; eauto | right; reflexivity].
    - intros [(rx & Hf & Hk) | ->]; [exists rx; split; [apply find_app_old; exact Hf | exact Hk]|].
      exists r. rewrite find_rec_app, Hfr. simpl. rewrite Nat.eqb_refl. auto. }
  destruct HR as [w1 w2 w3 w4 w5 w6 w7 w8].
  assert (HnO : ~ In h O) by (intros Hin; apply w3 in Hin as (rx & Hf & _); rewrite Hfr in Hf; discriminate).
  split; [exact HA|]. split; [|split].
  - constructor.
    + unfold ids. rewrite map_app. simpl. apply NoDup_snoc; [exact w1 | apply find_rec_none; exact Hfr].
    + apply NoDup_snoc; assumption.
    + intros x. rewrite HE, <- w3. split; [intros Hin; apply in_app_or in Hin as [Hin | [<- | []]]; auto | intros [Hin | ->]; apply in_or_app; [left; exact Hin | right; left; reflexivity]].
    + intros a b c Hk. apply KE in Hk. destruct (w4 a b c Hk) as (rd & Hf & Hkd & Hn). exists rd. split; [apply find_app_old; exact Hf | auto].
    + intros a a' b b' c H1 H2. apply KE in H1. apply KE in H2. eapply w5; eassumption.
    + intros x rx Hf Hk. apply find_app_inv in Hf as [Hf | (_ & _ & ->)]; [eapply w6; eassumption | simpl; split; constructor].
    + intros x rx Hf Hk. apply find_app_inv in Hf as [Hf | (_ & _ & ->)]; [|discriminate].
      destruct (w7 x rx Hf Hk) as (a & Ha). exists a. apply KE. exact Ha.
    + intros x rx Hf Hk. apply find_app_inv in Hf as [Hf | (_ & _ & ->)]; [eapply w8; eassumption | discriminate].
  - split.
    + intros lab o d vs Hl Hin. destruct (Ho lab o d vs Hl Hin) as [H1 H2]. split; [exact H1 | apply in_or_app; left; exact H2].
    + intros lab o d vs Hl Hin. apply KE. eapply Hd; eassumption.
  - destruct HG as [g1 g2 g3 g4 g5 g6]. constructor.
    + intros a p Hp. destruct (g1 a p Hp) as (rp & Hf & Hk & Hnd & Hkeyed). exists rp.
      split; [apply find_app_old; exact Hf|]. split; [exact Hk|]. split; [exact Hnd|].
      intros m Hm. destruct (Hkeyed m Hm) as (l & Hl). exists l. apply KE. exact Hl.
    + intros p rp Hf Hk. apply find_app_inv in Hf as [Hf | (_ & _ & ->)]; [|discriminate].
      destruct (g2 p rp Hf Hk) as (a & Ha & Hin). exists a. split; [apply in_or_app; left; exact Ha | exact Hin].
    + exact g3.
    + exact g4.
    + intros a p1 p2 r1 r2 m H1 H2 F1 F2 M1 M2.
      apply find_app_inv in F1 as [F1 | (_ & _ & ->)]; [|simpl in M1; contradiction].
      apply find_app_inv in F2 as [F2 | (_ & _ & ->)]; [|simpl in M2; contradiction].
      eapply (g5 a p1 p2 r1 r2 m); eassumption.
    + intros a p Hp. apply in_or_app. left. eapply g6. exact Hp.
Qed.

Lemma wf_del_pgrow S R O h S' :
  WF3 S R O -> pgs_in (content L_PG S) h = [] -> lstep S (Del L_PG h 0) = Ok S' -> WF3 S' R O.
Proof.
  intros (HA & HR & (Ho & Hd) & HG) Hnone H.
  assert (Hc : content L_PG S' = without (ByObj h) (content L_PG S)).
  { rewrite (content_del S L_PG h 0 S' L_PG HA H), Nat.eqb_refl. reflexivity. }
  assert (Hother : forall lab, lab <> L_PG -> content lab S' = content lab S).
  { intros lab Hne. rewrite (content_del S L_PG h 0 S' lab HA H). rewrite eqb_false_ne by exact Hne. reflexivity. }
  split; [eapply lstep_tiled'; eassumption|]. split; [exact HR|]. split; [split|].
  - intros lab o d vs Hl Hin. destruct (Nat.eq_dec lab L_PG) as [-> | Hne].
    + rewrite Hc in Hin. apply in_without in Hin as [Hin _]. eapply Ho; eassumption.
    + rewrite Hother in Hin by exact Hne. eapply Ho; eassumption.
  - intros lab o d vs Hl Hin. rewrite Hother in Hin by (unfold L_PG; lia). eapply Hd; eassumption.
  - rewrite Hc.
    assert (E : forall h', pgs_in (without (ByObj h) (content L_PG S)) h' = pgs_in (content L_PG S) h').
    { intros h'. rewrite pgs_in_del. destruct (Nat.eqb h' h) eqn:E; [apply Nat.eqb_eq in E; subst; symmetry; exact Hnone | reflexivity]. }
    destruct HG as [g1 g2 g3 g4 g5 g6]. constructor.
    + intros h' pg. rewrite E. apply g1.
    + intros pg rp H1 H2. destruct (g2 pg rp H1 H2) as (h' & Hh' & Hin). exists h'. rewrite E. auto.
    + intros h'. rewrite E. apply g3.
    + intros h1 h2 pg. rewrite !E. apply g4.
    + intros h' pg pg' rp rp' m. rewrite !E. apply g5.
    + intros h' pg. rewrite E. apply g6.
Qed.

Lemma wf_drop_hole S R O h :
  WF3 S R O -> In h O -> (forall b c, ~ keyedR R h b c) -> pgs_in (content L_PG S) h = [] ->
  (forall lab o d vs, lab < 10 -> In (o, d, vs) (content lab S) -> o <> h) ->
  WF3 S (del_rec h R) (remove_first h O).
Proof.
  intros (HA & HR & (Ho & Hd) & HG) Hh Hnk Hnp Hnr.
  destruct HR as [w1 w2 w3 w4 w5 w6 w7 w8].
  destruct (proj1 (w3 h) Hh) as (rh & Hfh & Hkh).
  assert (FO : forall x, x <> h -> find_rec x (del_rec h R) = find_rec x R).
  { intros x Hx. rewrite find_del by exact w1. rewrite eqb_false_ne by exact Hx. reflexivity. }
  assert (KE : forall a b c, keyedR (del_rec h R) a b c <-> keyedR R a b c).
  { intros a b c. unfold keyedR. split; intros (r & Hf & Hk & Hin).
    - rewrite find_del in Hf by exact w1. destruct (Nat.eqb a h); [discriminate | eauto].
    - destruct (Nat.eq_dec a h) as [-> | Hne]; [exfalso; apply (Hnk b c); exists r; auto|].
      exists r. rewrite FO by exact Hne. auto. }
  assert (OE : forall x, In x (remove_first h O) <-> In x O /\ x <> h) by (intros; apply remove_first_in; exact w2).
  split; [exact HA|]. split; [|split].
  - constructor.
    + apply nodup_del_rec. exact w1.
    + apply remove_first_nodup. exact w2.
    + intros x. rewrite OE, w3. unfold isholeR. split.
      * intros [(r & Hf & Hk) Hx]. exists r. rewrite FO by exact Hx. auto.
      * intros (r & Hf & Hk). rewrite find_del in Hf by exact w1. destruct (Nat.eqb x h) eqn:E; [discriminate|].
        apply Nat.eqb_neq in E. split; [eauto | exact E].
    + intros a b c Hk. apply KE in Hk. destruct (w4 a b c Hk) as (rd & Hf & Hkd & Hn). exists rd.
      rewrite FO; [auto|]. intros ->. rewrite Hfh in Hf. inversion Hf; subst. congruence.
    + intros a a' b b' c H1 H2. apply KE in H1. apply KE in H2. eapply w5; eassumption.
    + intros x r Hf Hk. rewrite find_del in Hf by exact w1. destruct (Nat.eqb x h); [discriminate|]. eapply w6; eassumption.
    + intros x r Hf Hk. rewrite find_del in Hf by exact w1. destruct (Nat.eqb x h); [discriminate|].
      destruct (w7 x r Hf Hk) as (a & Ha). exists a. apply KE. exact Ha.
    + intros x r Hf Hk. rewrite find_del in Hf by exact w1. destruct (Nat.eqb x h); [discriminate|]. eapply w8; eassumption.
  - split.
    + intros lab o d vs Hl Hin. destruct (Ho lab o d vs Hl Hin) as [H1 H2]. split; [exact H1|]. apply OE. split; [exact H2 | eapply Hnr; eassumption].
    + intros lab o d vs Hl Hin. apply KE. eapply Hd; eassumption.
  - destruct HG as [g1 g2 g3 g4 g5 g6].
    assert (NotH : forall a p, In p (pgs_in (content L_PG S) a) -> a <> h) by (intros a p Hp ->; rewrite Hnp in Hp; contradiction).
    constructor.
    + intros a p Hp. destruct (g1 a p Hp) as (rp & Hf & Hk & Hnd & Hkeyed). exists rp.
      split; [rewrite FO; [exact Hf|]; intros ->; rewrite Hfh in Hf; inversion Hf; subst; congruence|].
      split; [exact Hk|]. split; [exact Hnd|]. intros m Hm. destruct (Hkeyed m Hm) as (l & Hl). exists l. apply KE. exact Hl.
    + intros p rp Hf Hk. rewrite find_del in Hf by exact w1. destruct (Nat.eqb p h); [discriminate|].
      destruct (g2 p rp Hf Hk) as (a & Ha & Hin). exists a. split; [apply OE; split; [exact Ha | eapply NotH; exact Hin] | exact Hin].
    + exact g3.
    + exact g4.
    + intros a p1 p2 r1 r2 m H1 H2 F1 F2 M1 M2.
      rewrite find_del in F1, F2 by exact w1. destruct (Nat.eqb p1 h); [discriminate|]. destruct (Nat.eqb p2 h); [discriminate|].
      eapply (g5 a p1 p2 r1 r2 m); eassumption.
    + intros a p Hp. apply OE. split; [eapply g6; exact Hp | eapply NotH; exact Hp].
Qed.

(* ------------------------------------------------------------------ lifting to the API helpers *)
Definition pgs' (s : astate) (h : nat) : list nat := pgs_in (content L_PG (st s)) h.

(* Workspace.fetch_values(data) = Concatenator.fetch_values(data, data.name); hole.surveys *)
Definition api_read (s : astate) (h d : nat) : option (list val) :=
  match find_rec d (recs s) with Some rd => sfetch (st s) (a_name rd) h d | None => None end.
Definition api_surveys (s : astate) (h : nat) : option (list val) := sfetch (st s) L_SURV h 0.

Lemma lput_inv s op s' : lput s op = Ok s' -> lstep (st s) op = Ok (st s') /\ recs s' = recs s /\ objids s' = objids s.
Proof. unfold lput. destruct (lstep (st s) op); intros H; inversion H; subst; auto. Qed.

Lemma pgs_of_eq s h : WF s -> pgs_of s h = pgs' s h.
Proof. intros (HA & _). apply pgs_of_content. exact HA. Qed.

Lemma find_none_inv {A} (p : A -> bool) l : find p l = None -> forall x, In x l -> p x = false.
Proof.
  induction l as [|y l IH]; simpl; intros H x Hin; [contradiction|]. destruct (p y) eqn:E; [discriminate|].
  destruct Hin as [<- | Hin]; [exact E | apply IH; assumption].
Qed.

Lemma find_some_inv {A} (p : A -> bool) l x : find p l = Some x -> In x l /\ p x = true.
Proof.
  induction l as [|y l IH]; simpl; intros H; [discriminate|]. destruct (p y) eqn:E.
  - inversion H; subst. auto.
  - destruct (IH H). auto.
Qed.

(* what removals may do: keys, records and listings only shrink *)
Record Mono (s s' : astate) : Prop := {
  m_keys : forall a b c, keyedR (recs s') a b c -> keyedR (recs s) a b c;
  m_recs : forall x r', find_rec x (recs s') = Some r' ->
           exists r, find_rec x (recs s) = Some r /\ a_kind r' = a_kind r /\ a_name r' = a_name r;
  m_list : forall a p, In p (pgs' s' a) -> In p (pgs' s a);
  m_objs : objids s' = objids s
}.

Lemma Mono_refl s : Mono s s.
Proof. constructor; eauto. Qed.

Lemma Mono_trans s1 s2 s3 : Mono s1 s2 -> Mono s2 s3 -> Mono s1 s3.
Proof.
  intros [a1 b1 c1 d1] [a2 b2 c2 d2]. constructor.
  - intros a b c H. apply a1. apply a2. exact H.
  - intros x r3 H. destruct (b2 x r3 H) as (r2 & H2 & K2 & N2). destruct (b1 x r2 H2) as (r1 & H1 & K1 & N1).
    exists r1. split; [exact H1|]. split; congruence.
  - intros a p H. apply c1. apply c2. exact H.
  - congruence.
Qed.

(* every membership of a keyed data set is in a group of its own hole *)
Lemma member_hole S R O h lab d a p rp :
  WF3 S R O -> keyedR R h lab d -> In p (pgs_in (content L_PG S) a) -> find_rec p R = Some rp -> In d (a_members rp) -> a = h.
Proof.
  intros (_ & HR & _ & HG) Hk Hp Hf Hm. destruct (g_rec _ _ _ HG a p Hp) as (rp' & Hf' & _ & _ & Hkeyed).
  rewrite Hf in Hf'. inversion Hf'; subst. destruct (Hkeyed d Hm) as (l & Hl). eapply (r_key_inj _ _ HR); eassumption.
Qed.

Lemma memb_true x l : memb x l = true <-> In x l.
Proof.
  unfold memb. rewrite existsb_exists. split.
  - intros (y & Hy & E). apply Nat.eqb_eq in E. subst. exact Hy.
  - intros H. exists x. split; [exact H | apply Nat.eqb_refl].
Qed.

Lemma remove_first_not_in a l : NoDup l -> ~ In a (remove_first a l).
Proof. intros Hn Hin. apply (remove_first_in a l a Hn) in Hin as [_ Hne]. congruence. Qed.

(* the calls of update_array_attribute made by an operation on hole h: all carry Object ID h, and those on data labels
   concern data ids in D *)
Definition lop_lab (op : lop) : nat := match op with Put l _ _ _ => l | Del l _ _ => l end.
Definition lop_did (op : lop) : nat := match op with Put _ _ d _ => d | Del _ _ d => d end.
Definition okop (h : nat) (D : nat -> Prop) (op : lop) : Prop :=
  lop_oid op = h /\ (by_obj (lop_lab op) = true \/ D (lop_did op)).
Definition viaD (h : nat) (D : nat -> Prop) (s s' : astate) : Prop :=
  exists lops, Forall (okop h D) lops /\ lrun lops (st s) = Ok (st s').

Lemma viaD_refl h D s s' : st s' = st s -> viaD h D s s'.
Proof. intros E. exists []. simpl. rewrite E. auto. Qed.

Lemma viaD_trans h D s1 s2 s3 : viaD h D s1 s2 -> viaD h D s2 s3 -> viaD h D s1 s3.
Proof.
  intros (l1 & F1 & R1) (l2 & F2 & R2). exists (l1 ++ l2). split; [apply Forall_app; auto | rewrite lrun_app, R1; exact R2].
Qed.

Lemma viaD_one h D s op s' : lstep (st s) op = Ok (st s') -> okop h D op -> viaD h D s s'.
Proof. intros L Hok. exists [op]. simpl. rewrite L. auto. Qed.

Lemma viaD_weaken h (D D' : nat -> Prop) s s' : (forall x, D x -> D' x) -> viaD h D s s' -> viaD h D' s s'.
Proof.
  intros HD (l & F & R). exists l. split; [|exact R]. eapply Forall_impl; [|exact F].
  intros op (H1 & [H2 | H2]); split; auto.
Qed.

Lemma okop_pg h D l : okop h D (Put L_PG h 0 l).
Proof. split; [reflexivity | left; reflexivity]. Qed.

Definition nomem (s : astate) (d : nat) : Prop :=
  forall a p rp, In p (pgs' s a) -> find_rec p (recs s) = Some rp -> ~ In d (a_members rp).

Lemma WF_ext s s' : st s' = st s -> recs s' = recs s -> objids s' = objids s -> WF s -> WF s'.
Proof. unfold WF. intros -> -> ->. auto. Qed.

(* the group part of Concatenator.remove_entity(data): the data set leaves its group; an emptied group is removed *)
Lemma pg_part s1 h d name s3 :
  WF s1 -> In h (objids s1) -> keyedR (recs s1) h name d ->
  match pg_of_data s1 h d with
  | None => Ok s1
  | Some pg =>
      match find_rec pg (recs s1) with
      | None => Err Unsupported
      | Some rp =>
          let m' := remove_first d (a_members rp) in
          let s2 := with_recs s1 (upd_rec pg (set_members m') (recs s1)) in
          match m' with
          | [] => remove_pg_entity s2 h pg
          | _ => lput s2 (Put L_PG h 0 (ids_val (pgs_of s2 h)))
          end
      end
  end = Ok s3 ->
  WF s3 /\ Mono s1 s3
  /\ (forall a b c, keyedR (recs s1) a b c -> keyedR (recs s3) a b c)
  /\ (forall lab, lab <> L_PG -> content lab (st s3) = content lab (st s1))
  /\ nomem s3 d
  /\ (forall D, viaD h D s1 s3).
Proof.
  intros W1 Hh Hk H.
  pose proof W1 as (HA1 & HR1 & Hrows1 & HG1).
  destruct (pg_of_data s1 h d) as [pg|] eqn:Epg.
  - unfold pg_of_data in Epg. apply find_some_inv in Epg as [Hpl Hpm]. rewrite (pgs_of_eq s1 h W1) in Hpl.
    destruct (find_rec pg (recs s1)) as [rp|] eqn:Fp; [|discriminate].
    apply memb_true in Hpm.
    destruct (g_rec _ _ _ HG1 h pg Hpl) as (rp0 & Fp0 & Kp & Ndp & Hkeyed). rewrite Fp in Fp0. inversion Fp0; subst rp0; clear Fp0.
    cbv zeta in H.
    remember (remove_first d (a_members rp)) as m' eqn:Em'.
    remember (with_recs s1 (upd_rec pg (set_members m') (recs s1))) as s2 eqn:Es2.
    assert (St2 : st s2 = st s1) by (subst s2; reflexivity).
    assert (Rc2 : recs s2 = upd_rec pg (set_members m') (recs s1)) by (subst s2; reflexivity).
    assert (Ob2 : objids s2 = objids s1) by (subst s2; reflexivity).
    clear Es2.
    assert (W2 : WF s2).
    { unfold WF. rewrite St2, Rc2, Ob2. apply wf_set_members; [exact W1|]. intros rp0 F0. rewrite Fp in F0. inversion F0; subst rp0.
      subst m'. split; [apply remove_first_nodup; exact Ndp | intros x Hx; eapply remove_first_sub; exact Hx]. }
    assert (E2 : requiv (recs s1) (recs s2)) by (rewrite Rc2; apply requiv_upd; [reflexivity | apply set_members_rel]).
    assert (F2 : forall x, find_rec x (recs s2) = if Nat.eqb x pg then Some (set_members m' rp) else find_rec x (recs s1)).
    { intros x. rewrite Rc2, find_upd by reflexivity. destruct (Nat.eqb x pg); [rewrite Fp; reflexivity | reflexivity]. }
    assert (P2 : forall a, pgs' s2 a = pgs' s1 a) by (intros; unfold pgs'; rewrite St2; reflexivity).
    (* d is in no listed group of s2 *)
    assert (NM2 : nomem s2 d).
    { intros a p r Hp Hf Hm. rewrite P2 in Hp. unfold pgs' in Hp. rewrite F2 in Hf. destruct (Nat.eqb p pg) eqn:Ep.
      - inversion Hf; subst r. simpl in Hm. subst m'. eapply remove_first_not_in; [exact Ndp | exact Hm].
      - apply Nat.eqb_neq in Ep. apply Ep.
        assert (a = h) by (eapply member_hole; [exact W1 | exact Hk | exact Hp | exact Hf | exact Hm]). subst a.
        eapply (g_one _ _ _ HG1 h p pg r rp d); eassumption. }
    assert (M12 : Mono s1 s2).
    { constructor.
      - intros a b c. apply requiv_keyed. apply requiv_sym. exact E2.
      - intros x r' Hf. rewrite F2 in Hf. destruct (Nat.eqb x pg) eqn:Ex.
        + apply Nat.eqb_eq in Ex. subst x. inversion Hf; subst r'. exists rp. auto.
        + exists r'. auto.
      - intros a p Hp. rewrite P2 in Hp. exact Hp.
      - exact Ob2. }
    assert (Hh2 : In h (objids s2)) by (rewrite Ob2; exact Hh).
    assert (Hpl2 : In pg (pgs_in (content L_PG (st s2)) h)) by (rewrite St2; exact Hpl).
    clear Em'. destruct m' as [|x0 m0].
    + (* the group is emptied: it is removed *)
      unfold remove_pg_entity in H.
      match type of H with match lput ?a ?b with _ => _ end = _ => destruct (lput a b) as [s2'|e] eqn:E; [|discriminate] end.
      inversion H; subst s3; clear H. apply lput_inv in E as (L & Rq & Oq).
      rewrite (pgs_of_eq s2 h W2) in L.
      assert (W3 : WF3 (st s2') (del_rec pg (recs s2)) (objids s2)).
      { eapply wf_drop_pg; [exact W2 | exact Hh2 | exact Hpl2 | exact L]. }
      assert (Hn2 : NoDup (ids (recs s2))) by (destruct W2 as (_ & HR2 & _); apply (r_uniq _ _ HR2)).
      assert (Hnh : a_kind (set_members [] rp) <> KHole) by (simpl; rewrite Kp; discriminate).
      assert (Fpg2 : find_rec pg (recs s2) = Some (set_members [] rp)) by (rewrite F2, Nat.eqb_refl; reflexivity).
      destruct (content_put_pg (st s2) h _ (st s2') (proj1 W2) L) as [Hc Hother].
      split; [|split; [|split; [|split; [|split]]]]; [| | | | |intros D; eapply viaD_one; [simpl; rewrite <- St2; exact L | apply okop_pg]].
      * unfold WF. simpl. rewrite Rq, Oq. exact W3.
      * eapply Mono_trans; [exact M12|]. constructor; simpl.
        -- intros a b c Hkk. rewrite Rq in Hkk. eapply keyed_del_nonhole; eassumption.
        -- intros x r' Hf. rewrite Rq in Hf. rewrite find_del in Hf by exact Hn2. destruct (Nat.eqb x pg); [discriminate|]. exists r'. auto.
        -- intros a p Hp. unfold pgs' in *. simpl in *. rewrite Hc, pgs_in_put in Hp. destruct (Nat.eqb a h) eqn:Ea; [|exact Hp].
           apply Nat.eqb_eq in Ea. subst. eapply remove_first_sub. exact Hp.
        -- exact Oq.
      * intros a b c Hkk. simpl. rewrite Rq. eapply keyed_del_nonhole; [exact Hn2 | exact Fpg2 | exact Hnh|].
        eapply requiv_keyed; eassumption.
      * intros lab Hne. simpl. rewrite <- St2. apply Hother. exact Hne.
      * intros a p r Hp Hf Hm. simpl in Hf. rewrite Rq in Hf. rewrite find_del in Hf by exact Hn2.
        destruct (Nat.eqb p pg) eqn:Ep; [discriminate|].
        unfold pgs' in Hp. simpl in Hp. rewrite Hc, pgs_in_put in Hp.
        eapply (NM2 a p r); [|exact Hf | exact Hm]. unfold pgs'. destruct (Nat.eqb a h) eqn:Ea; [|exact Hp].
        apply Nat.eqb_eq in Ea. subst. eapply remove_first_sub. exact Hp.
    + (* members remain: the row is rewritten with the same list *)
      apply lput_inv in H as (L & Rq & Oq). rewrite (pgs_of_eq s2 h W2) in L.
      assert (W3 : WF3 (st s3) (recs s2) (objids s2)) by (eapply wf_put_pg_same; [exact W2 | exact Hh2 | exact L]).
      destruct (content_put_pg (st s2) h _ (st s3) (proj1 W2) L) as [Hc Hother].
      assert (PE : forall a, pgs' s3 a = pgs' s2 a).
      { intros a. unfold pgs'. rewrite Hc, pgs_in_put. destruct (Nat.eqb a h) eqn:Ea; [apply Nat.eqb_eq in Ea; subst; reflexivity | reflexivity]. }
      split; [|split; [|split; [|split; [|split]]]]; [| | | | |intros D; eapply viaD_one; [rewrite <- St2; exact L | apply okop_pg]].
      * unfold WF. rewrite Rq, Oq. exact W3.
      * eapply Mono_trans; [exact M12|]. constructor.
        -- intros a b c. rewrite Rq. auto.
        -- intros x r' Hf. rewrite Rq in Hf. exists r'. auto.
        -- intros a p. rewrite PE. auto.
        -- exact Oq.
      * intros a b c Hkk. rewrite Rq. eapply requiv_keyed; eassumption.
      * intros lab Hne. rewrite <- St2. apply Hother. exact Hne.
      * intros a p r Hp Hf Hm. rewrite PE in Hp. rewrite Rq in Hf. eapply NM2; eassumption.
  - inversion H; subst s3; clear H. unfold pg_of_data in Epg. rewrite (pgs_of_eq s1 h W1) in Epg.
    split; [exact W1|]. split; [apply Mono_refl|]. split; [auto|]. split; [auto|]. split; [|intros D; apply viaD_refl; reflexivity].
    intros a p r Hp Hf Hm.
    assert (a = h) by (eapply member_hole; [exact W1 | exact Hk | exact Hp | exact Hf | exact Hm]). subst a.
    pose proof (find_none_inv _ _ Epg p Hp) as Hfalse. simpl in Hfalse. rewrite Hf in Hfalse.
    apply memb_true in Hm. congruence.
Qed.

Lemma wf_rm_data_simple s h d lab s' :
  WF s -> In h (objids s) -> keyedR (recs s) h lab d -> rm_data_simple s h d = Ok s' ->
  WF s' /\ Mono s s' /\ find_rec d (recs s') = None
  /\ (forall a b c, keyedR (recs s) a b c -> c <> d -> keyedR (recs s') a b c)
  /\ (forall l, l < 10 -> l <> L_PG -> content l (st s') = content l (st s))
  /\ (forall l o c vs, In (o, c, vs) (content l (st s')) -> c <> d \/ l < 10)
  /\ (forall D : nat -> Prop, D d -> viaD h D s s').
Proof.
  intros W Hh Hk H.
  pose proof W as (HA & HR & (Ho & Hd) & HG).
  destruct (r_key_rec _ _ HR h lab d Hk) as (rd & Hfd & Hkd & Hnm).
  pose proof (r_names _ _ HR d rd Hfd Hkd) as Hge. subst lab.
  unfold rm_data_simple in H. rewrite Hfd in H.
  destruct (lput s (Del (a_name rd) h d)) as [s1|e] eqn:E1; [|discriminate].
  apply lput_inv in E1 as (L1 & R1 & O1).
  assert (W1 : WF s1) by (unfold WF; rewrite R1, O1; eapply wf_del_data; eassumption).
  assert (Hb : by_obj (a_name rd) = false) by (apply by_obj_ge; exact Hge).
  assert (C1 : forall l, content l (st s1) = if Nat.eqb l (a_name rd) then without (ByData d) (content (a_name rd) (st s)) else content l (st s)).
  { intros l. rewrite (content_del (st s) (a_name rd) h d (st s1) l HA L1). unfold key_of. rewrite Hb. reflexivity. }
  assert (NR1 : forall l o vs, 10 <= l -> ~ In (o, d, vs) (content l (st s1))).
  { intros l o vs Hl Hin. rewrite C1 in Hin. destruct (Nat.eqb l (a_name rd)) eqn:El.
    - apply in_without in Hin as [_ Hm]. simpl in Hm. rewrite Nat.eqb_refl in Hm. discriminate.
    - apply Nat.eqb_neq in El. apply El. pose proof (Hd l o d vs Hl Hin) as Hk'.
      destruct (r_key_rec _ _ HR o l d Hk') as (rd' & Hfd' & _ & Hn'). rewrite Hfd in Hfd'. inversion Hfd'; subst. reflexivity. }
  match type of H with match ?x with _ => _ end = _ => destruct x as [s3|e] eqn:E3; [|discriminate] end.
  assert (Hh1 : In h (objids s1)) by (rewrite O1; exact Hh).
  assert (Hk1 : keyedR (recs s1) h (a_name rd) d) by (rewrite R1; exact Hk).
  destruct (pg_part s1 h d (a_name rd) s3 W1 Hh1 Hk1 E3) as (W3 & M13 & K13 & C13 & NM3 & V13).
  destruct (has_key (a_name rd) (keys_of s3 h)); [|discriminate].
  inversion H; subst s'; clear H.
  assert (Hk3 : keyedR (recs s3) h (a_name rd) d) by (apply K13; exact Hk1).
  assert (NR3 : forall l o vs, 10 <= l -> ~ In (o, d, vs) (content l (st s3))).
  { intros l o vs Hl. rewrite C13 by (unfold L_PG; lia). apply NR1. exact Hl. }
  pose proof (wf_drop_data (st s3) (recs s3) (objids s3) h d (a_name rd) W3 Hk3 NR3 NM3) as W4.
  pose proof (keyed_R' (st s3) (recs s3) (objids s3) h d (a_name rd) W3 Hk3) as KR.
  pose proof (find_R' (st s3) (recs s3) (objids s3) h d (a_name rd) W3) as FR.
  split; [exact W4|]. split; [|split; [|split; [|split; [|split]]]].
  6:{ intros D HD. simpl. eapply viaD_trans; [eapply (viaD_one h D s (Del (a_name rd) h d) s1 L1); split; [reflexivity | right; exact HD]|].
      destruct (V13 D) as (l & F & Rn). exists l. split; [exact F | exact Rn]. }
  - eapply Mono_trans; [|eapply Mono_trans; [exact M13|]].
    + constructor; [rewrite R1; auto | rewrite R1; eauto | unfold pgs'; intros a p; rewrite C1; rewrite eqb_false_ne by (unfold L_PG; lia); auto | exact O1].
    + constructor; simpl.
      * intros a b c Hkk. apply KR in Hkk. apply Hkk.
      * intros x r' Hf. rewrite FR in Hf. destruct (Nat.eqb x d); [discriminate|]. destruct (Nat.eqb x h) eqn:Eh.
        -- apply Nat.eqb_eq in Eh. subst x. destruct (find_rec h (recs s3)) as [rh|]; [|discriminate]. simpl in Hf. inversion Hf; subst.
           exists rh. auto.
        -- exists r'. auto.
      * intros a p Hp. exact Hp.
      * reflexivity.
  - simpl. rewrite FR, Nat.eqb_refl. reflexivity.
  - intros a b c Hkk Hc. simpl. apply KR. split; [apply K13; rewrite R1; exact Hkk | exact Hc].
  - intros l Hl Hne. simpl. rewrite C13 by exact Hne. rewrite C1. rewrite eqb_false_ne by lia. reflexivity.
  - intros l o c vs Hin. simpl in Hin. destruct (Nat.lt_ge_cases l 10) as [Hlt | Hge']; [right; exact Hlt|].
    left. intros ->. eapply NR3; eassumption.
Qed.

(* ------------------------------------------------------------------ what a removal on hole h guarantees *)
Record Rem (h : nat) (s s' : astate) : Prop := {
  rem_wf : WF s';
  rem_mono : Mono s s';
  rem_obj : forall l, l < 10 -> l <> L_PG -> content l (st s') = content l (st s);
  rem_via : forall D : nat -> Prop, (forall b c, keyedR (recs s) h b c -> D c) -> viaD h D s s';
  rem_keep : forall a b c, a <> h -> keyedR (recs s) a b c -> keyedR (recs s') a b c
}.

Lemma Rem_refl h s : WF s -> Rem h s s.
Proof. intros W. constructor; auto. - apply Mono_refl. - intros D _. apply viaD_refl. reflexivity. Qed.

Lemma Rem_trans h s1 s2 s3 : Rem h s1 s2 -> Rem h s2 s3 -> Rem h s1 s3.
Proof.
  intros [a1 b1 c1 d1 e1] [a2 b2 c2 d2 e2]. constructor.
  - exact a2.
  - eapply Mono_trans; eassumption.
  - intros l H1 H2. rewrite c2, c1 by assumption. reflexivity.
  - intros D HD. eapply viaD_trans; [apply d1; exact HD|]. apply d2. intros b c Hk. apply (HD b c). apply (m_keys _ _ b1). exact Hk.
  - intros a b c Hne Hk. apply e2; [exact Hne|]. apply e1; assumption.
Qed.

Lemma rem_rm_data_simple s h d lab s' :
  WF s -> In h (objids s) -> keyedR (recs s) h lab d -> rm_data_simple s h d = Ok s' ->
  Rem h s s' /\ find_rec d (recs s') = None.
Proof.
  intros W Hh Hk H. destruct (wf_rm_data_simple s h d lab s' W Hh Hk H) as (W' & M & Fd & K & C & _ & V).
  split; [|exact Fd]. constructor; try assumption.
  - intros D HD. apply V. eapply HD. exact Hk.
  - intros a b c Hne Hkk. apply K; [exact Hkk|]. intros ->. apply Hne.
    destruct W as (_ & HR & _). eapply (r_key_inj _ _ HR); eassumption.
Qed.

Lemma listed_stays s s' h pg r :
  WF s -> WF s' -> Mono s s' -> In pg (pgs' s h) -> find_rec pg (recs s') = Some r -> In pg (pgs' s' h).
Proof.
  intros W W' M Hl Hf.
  destruct W as (_ & _ & _ & HG). destruct W' as (_ & _ & _ & HG').
  destruct (g_rec _ _ _ HG h pg Hl) as (rp & Hfp & Hkp & _).
  destruct (m_recs _ _ M pg r Hf) as (r0 & Hf0 & Hk0 & _). rewrite Hfp in Hf0. inversion Hf0; subst r0.
  destruct (g_listed _ _ _ HG' pg r Hf ltac:(congruence)) as (a & Ha & Hin).
  pose proof (m_list _ _ M a pg Hin) as Hin0.
  assert (a = h) by (eapply (g_disj _ _ _ HG); eassumption). subst a. exact Hin.
Qed.

Lemma rem_rm_data s h d lab s' :
  WF s -> In h (objids s) -> keyedR (recs s) h lab d -> rm_data s h d = Ok s' ->
  Rem h s s' /\ find_rec d (recs s') = None.
Proof.
  intros W Hh Hk H. unfold rm_data in H.
  destruct (rm_data_simple s h d) as [s1|e] eqn:E1; [|discriminate].
  destruct (rem_rm_data_simple s h d lab s1 W Hh Hk E1) as [R1 F1].
  destruct (pg_of_data s h d) as [pg|] eqn:Epg; [|inversion H; subst; auto].
  destruct (find_rec pg (recs s1)) as [rp|] eqn:Fp; [|inversion H; subst; auto].
  destruct (a_members rp) as [|x [|y l]] eqn:Em; try (inversion H; subst; auto; fail).
  destruct (depth_of s1 pg) as [dd|] eqn:Edd; [|inversion H; subst; auto].
  (* the depth is the one member left: it is a data set of h *)
  assert (dd = x).
  { unfold depth_of in Edd. rewrite Fp, Em in Edd. destruct (find_rec x (recs s1)); [|discriminate].
    destruct (is_depth_label (a_name a)); inversion Edd. reflexivity. }
  subst dd.
  unfold pg_of_data in Epg. apply find_some_inv in Epg as [Hpl _]. rewrite (pgs_of_eq s h W) in Hpl.
  pose proof (rem_wf _ _ _ R1) as W1.
  assert (Hl1 : In pg (pgs' s1 h)) by (eapply listed_stays; [exact W | exact W1 | apply (rem_mono _ _ _ R1) | exact Hpl | exact Fp]).
  destruct W1 as (_ & _ & _ & HG1). destruct (g_rec _ _ _ HG1 h pg Hl1) as (rp' & Fp' & _ & _ & Hkeyed).
  rewrite Fp in Fp'. inversion Fp'; subst rp'. destruct (Hkeyed x ltac:(rewrite Em; left; reflexivity)) as (lx & Hkx).
  assert (Hh1 : In h (objids s1)) by (rewrite (m_objs _ _ (rem_mono _ _ _ R1)); exact Hh).
  destruct (rem_rm_data_simple s1 h x lx s' (rem_wf _ _ _ R1) Hh1 Hkx H) as [R2 F2].
  split; [eapply Rem_trans; eassumption|].
  destruct (find_rec d (recs s')) as [r|] eqn:Fd; [|reflexivity].
  destruct (m_recs _ _ (rem_mono _ _ _ R2) d r Fd) as (r0 & Hf0 & _). rewrite F1 in Hf0. discriminate.
Qed.

Lemma none_stays s s' x : Mono s s' -> find_rec x (recs s) = None -> find_rec x (recs s') = None.
Proof.
  intros M Hn. destruct (find_rec x (recs s')) as [r|] eqn:F; [|reflexivity].
  destruct (m_recs _ _ M x r F) as (r0 & Hf0 & _). rewrite Hn in Hf0. discriminate.
Qed.

(* a data set of h whose record survived is still a data set of h *)
Lemma keyed_stays s s' h lab d r :
  WF s -> WF s' -> Mono s s' -> keyedR (recs s) h lab d -> find_rec d (recs s') = Some r -> keyedR (recs s') h lab d.
Proof.
  intros W W' M Hk Hf. destruct W as (_ & HR & _). destruct W' as (_ & HR' & _).
  destruct (r_key_rec _ _ HR h lab d Hk) as (rd & Hfd & Hkd & Hnm).
  destruct (m_recs _ _ M d r Hf) as (r0 & Hf0 & Hk0 & Hn0). rewrite Hfd in Hf0. inversion Hf0; subst r0.
  destruct (r_data_keyed _ _ HR' d r Hf ltac:(congruence)) as (a & Ha).
  pose proof (m_keys _ _ M _ _ _ Ha) as Ha0.
  assert (a = h) by (eapply (r_key_inj _ _ HR); eassumption). subst a. rewrite Hn0, Hnm in Ha. exact Ha.
Qed.

Lemma rem_rm_datas_gen h ds : forall s0 s s',
  WF s0 -> Rem h s0 s -> In h (objids s) ->
  (forall d, In d ds -> exists lab, keyedR (recs s0) h lab d) ->
  rm_datas s h ds = Ok s' ->
  Rem h s s' /\ forall d, In d ds -> find_rec d (recs s') = None.
Proof.
  induction ds as [|d r IH]; intros s0 s s' W0 R0 Hh Hds H; simpl in H.
  - inversion H; subst. split; [apply Rem_refl; apply (rem_wf _ _ _ R0) | intros d []].
  - destruct (find_rec d (recs s)) as [rd|] eqn:Fd.
    + destruct (rm_data s h d) as [s1|e] eqn:E1; [|discriminate].
      destruct (Hds d (or_introl eq_refl)) as (lab & Hk0).
      pose proof (keyed_stays s0 s h lab d rd W0 (rem_wf _ _ _ R0) (rem_mono _ _ _ R0) Hk0 Fd) as Hk.
      destruct (rem_rm_data s h d lab s1 (rem_wf _ _ _ R0) Hh Hk E1) as [R1 F1].
      assert (Hh1 : In h (objids s1)) by (rewrite (m_objs _ _ (rem_mono _ _ _ R1)); exact Hh).
      destruct (IH s0 s1 s' W0 (Rem_trans _ _ _ _ R0 R1) Hh1 ltac:(intros y Hy; apply Hds; right; exact Hy) H) as [R3 F3].
      split; [eapply Rem_trans; eassumption|].
      intros y [<- | Hy]; [eapply none_stays; [apply (rem_mono _ _ _ R3) | exact F1] | apply F3; exact Hy].
    + destruct (IH s0 s s' W0 R0 Hh ltac:(intros y Hy; apply Hds; right; exact Hy) H) as [R3 F3].
      split; [exact R3|]. intros y [<- | Hy]; [eapply none_stays; [apply (rem_mono _ _ _ R3) | exact Fd] | apply F3; exact Hy].
Qed.

Lemma rem_rm_datas h ds s s' :
  WF s -> In h (objids s) ->
  (forall d, In d ds -> exists lab, keyedR (recs s) h lab d) ->
  rm_datas s h ds = Ok s' ->
  Rem h s s' /\ forall d, In d ds -> find_rec d (recs s') = None.
Proof. intros W Hh Hds H. eapply rem_rm_datas_gen; [exact W | apply Rem_refl; exact W | exact Hh | exact Hds | exact H]. Qed.

(* the tail of Concatenator.remove_entity(group): the id leaves the hole's row, the record goes *)
Lemma rem_drop_pg s1 h pg s2 :
  WF s1 -> In h (objids s1) ->
  lput s1 (Put L_PG h 0 (ids_val (remove_first pg (pgs_of s1 h)))) = Ok s2 ->
  (forall r, find_rec pg (recs s1) = Some r -> In pg (pgs' s1 h)) ->
  Rem h s1 (with_recs s2 (del_rec pg (recs s2))) /\ find_rec pg (del_rec pg (recs s2)) = None.
Proof.
  intros W1 Hh E Hl. apply lput_inv in E as (L & Rq & Oq). rewrite (pgs_of_eq s1 h W1) in L.
  pose proof W1 as (HA1 & HR1 & Hrows1 & HG1). pose proof (r_uniq _ _ HR1) as Hn.
  destruct (content_put_pg (st s1) h _ (st s2) HA1 L) as [Hc Hother].
  assert (Fnone : find_rec pg (del_rec pg (recs s2)) = None) by (rewrite Rq, find_del by exact Hn; rewrite Nat.eqb_refl; reflexivity).
  split; [|exact Fnone].
  destruct (find_rec pg (recs s1)) as [r|] eqn:Fp.
  - pose proof (Hl r eq_refl) as Hin.
    destruct (g_rec _ _ _ HG1 h pg Hin) as (rp & Fp' & Kp & _). rewrite Fp in Fp'. inversion Fp'; subst rp.
    assert (Hnh : a_kind r <> KHole) by (rewrite Kp; discriminate).
    constructor.
    + unfold WF. simpl. rewrite Rq, Oq. eapply wf_drop_pg; eassumption.
    + constructor; simpl.
      * intros a b c Hk. rewrite Rq in Hk. eapply keyed_del_nonhole; eassumption.
      * intros x r' Hf. rewrite Rq in Hf. rewrite find_del in Hf by exact Hn. destruct (Nat.eqb x pg); [discriminate|]. exists r'. auto.
      * intros a p Hp. unfold pgs' in *. simpl in Hp. rewrite Hc, pgs_in_put in Hp. destruct (Nat.eqb a h) eqn:Ea; [|exact Hp].
        apply Nat.eqb_eq in Ea. subst. eapply remove_first_sub. exact Hp.
      * exact Oq.
    + intros l _ Hne. simpl. apply Hother. exact Hne.
    + intros D _. eapply viaD_one; [simpl; exact L | apply okop_pg].
    + intros a b c _ Hk. simpl. rewrite Rq. eapply keyed_del_nonhole; eassumption.
  - assert (Hnl : ~ In pg (pgs' s1 h)).
    { intros Hin. destruct (g_rec _ _ _ HG1 h pg Hin) as (rp & Fp' & _). rewrite Fp in Fp'. discriminate. }
    unfold pgs' in Hnl. rewrite remove_first_absent in L by exact Hnl.
    rewrite remove_first_absent in Hc by exact Hnl.
    assert (Rs : del_rec pg (recs s2) = recs s1) by (rewrite Rq; apply del_rec_absent; exact Fp).
    assert (PE : forall a, pgs_in (content L_PG (st s2)) a = pgs_in (content L_PG (st s1)) a).
    { intros a. rewrite Hc, pgs_in_put. destruct (Nat.eqb a h) eqn:Ea; [apply Nat.eqb_eq in Ea; subst; reflexivity | reflexivity]. }
    constructor.
    + unfold WF. simpl. rewrite Rs, Oq. eapply wf_put_pg_same; eassumption.
    + constructor; simpl.
      * intros a b c. rewrite Rs. auto.
      * intros x r' Hf. rewrite Rs in Hf. exists r'. auto.
      * intros a p. unfold pgs'. simpl. rewrite PE. auto.
      * exact Oq.
    + intros l _ Hne. simpl. apply Hother. exact Hne.
    + intros D _. eapply viaD_one; [simpl; exact L | apply okop_pg].
    + intros a b c _ Hk. simpl. rewrite Rs. exact Hk.
Qed.

Lemma rem_rm_pg s0 s h pg s' :
  WF s0 -> Rem h s0 s -> In h (objids s) -> In pg (pgs' s0 h) ->
  rm_pg s h pg = Ok s' ->
  Rem h s s' /\ find_rec pg (recs s') = None.
Proof.
  intros W0 R0 Hh Hl0 H. unfold rm_pg in H. pose proof (rem_wf _ _ _ R0) as W.
  destruct (find_rec pg (recs s)) as [rp|] eqn:Fp; [|discriminate].
  pose proof (listed_stays s0 s h pg rp W0 W (rem_mono _ _ _ R0) Hl0 Fp) as Hl.
  destruct (rm_datas s h (a_members rp)) as [s1|e] eqn:E1; [|discriminate].
  assert (Hmem : forall d, In d (a_members rp) -> exists lab, keyedR (recs s) h lab d).
  { destruct W as (_ & _ & _ & HG). destruct (g_rec _ _ _ HG h pg Hl) as (rp' & Fp' & _ & _ & Hkeyed).
    rewrite Fp in Fp'. inversion Fp'; subst. exact Hkeyed. }
  destruct (rem_rm_datas h (a_members rp) s s1 W Hh Hmem E1) as [R1 _].
  match type of H with match lput ?a ?b with _ => _ end = _ => destruct (lput a b) as [s2|e] eqn:E2; [|discriminate] end.
  inversion H; subst s'; clear H.
  assert (Hh1 : In h (objids s1)) by (rewrite (m_objs _ _ (rem_mono _ _ _ R1)); exact Hh).
  destruct (rem_drop_pg s1 h pg s2 (rem_wf _ _ _ R1) Hh1 E2) as [R2 F2].
  { intros r Hf. eapply listed_stays; [exact W | apply (rem_wf _ _ _ R1) | apply (rem_mono _ _ _ R1) | exact Hl | exact Hf]. }
  split; [eapply Rem_trans; eassumption | exact F2].
Qed.

Lemma rem_rm_pgs h pgs : forall s0 s s',
  WF s0 -> Rem h s0 s -> In h (objids s) -> (forall pg, In pg pgs -> In pg (pgs' s0 h)) ->
  rm_pgs s h pgs = Ok s' ->
  Rem h s s' /\ forall pg, In pg pgs -> find_rec pg (recs s') = None.
Proof.
  induction pgs as [|pg r IH]; intros s0 s s' W0 R0 Hh Hl H; simpl in H.
  - inversion H; subst. split; [apply Rem_refl; apply (rem_wf _ _ _ R0) | intros pg []].
  - destruct (find_rec pg (recs s)) as [rp|] eqn:Fp.
    + destruct (rm_pg s h pg) as [s1|e] eqn:E1; [|discriminate].
      destruct (rem_rm_pg s0 s h pg s1 W0 R0 Hh (Hl pg (or_introl eq_refl)) E1) as [R1 F1].
      assert (Hh1 : In h (objids s1)) by (rewrite (m_objs _ _ (rem_mono _ _ _ R1)); exact Hh).
      destruct (IH s0 s1 s' W0 (Rem_trans _ _ _ _ R0 R1) Hh1 ltac:(intros y Hy; apply Hl; right; exact Hy) H) as [R3 F3].
      split; [eapply Rem_trans; eassumption|].
      intros y [<- | Hy]; [eapply none_stays; [apply (rem_mono _ _ _ R3) | exact F1] | apply F3; exact Hy].
    + destruct (IH s0 s s' W0 R0 Hh ltac:(intros y Hy; apply Hl; right; exact Hy) H) as [R3 F3].
      split; [exact R3|]. intros y [<- | Hy]; [eapply none_stays; [apply (rem_mono _ _ _ R3) | exact Fp] | apply F3; exact Hy].
Qed.

(* ------------------------------------------------------------------ creations *)
Lemma live_rec s h : WF s -> In h (objids s) -> exists rh, find_rec h (recs s) = Some rh /\ a_kind rh = KHole.
Proof. intros (_ & HR & _) Hh. apply (r_objs _ _ HR). exact Hh. Qed.

Lemma add_new_pg s h pgname pgid s' :
  WF s -> In h (objids s) -> find_rec pgid (recs s) = None -> new_pg s h pgname pgid = Ok s' ->
  WF s' /\ objids s' = objids s /\ recs s' = recs s ++ [mkrec pgid KPG pgname [] []]
  /\ (forall a b c, keyedR (recs s') a b c <-> keyedR (recs s) a b c)
  /\ (forall D, viaD h D s s')
  /\ (forall a, pgs' s' a = if Nat.eqb a h then pgs' s h ++ [pgid] else pgs' s a)
  /\ (forall l, l <> L_PG -> content l (st s') = content l (st s)).
Proof.
  intros W Hh Hf H. unfold new_pg in H. apply lput_inv in H as (L & Rq & Oq). unfold with_recs in L, Rq, Oq. cbn [st recs objids] in L, Rq, Oq.
  rewrite (pgs_of_eq s h W) in L. pose proof W as (HA & _).
  destruct (content_put_pg (st s) h _ (st s') HA L) as [Hc Hother].
  split; [unfold WF; rewrite Rq, Oq; eapply wf_new_pg; eassumption|]. split; [exact Oq|]. split; [exact Rq|].
  split; [intros a b c; rewrite Rq; apply keyed_app_nonhole; simpl; discriminate|].
  split; [intros D; eapply viaD_one; [exact L | apply okop_pg]|].
  split; [intros a; unfold pgs'; rewrite Hc; apply pgs_in_put | exact Hother].
Qed.

Lemma add_create_data s h pg d name vs s' :
  WF s -> In h (objids s) -> In pg (pgs' s h) -> find_rec d (recs s) = None -> 10 <= name ->
  has_key name (keys_of s h) = false -> create_data s h pg d name vs = Ok s' ->
  WF s' /\ objids s' = objids s
  /\ (forall a b c, keyedR (recs s') a b c <-> keyedR (recs s) a b c \/ (a = h /\ b = name /\ c = d))
  /\ (forall D : nat -> Prop, D d -> viaD h D s s')
  /\ (forall a, pgs' s' a = pgs' s a)
  /\ (forall x, x <> d -> find_rec x (recs s) = None -> find_rec x (recs s') = None)
  /\ (forall x r, find_rec x (recs s) = Some r -> exists r', find_rec x (recs s') = Some r' /\ a_kind r' = a_kind r /\ a_name r' = a_name r)
  /\ (exists rd, find_rec d (recs s') = Some rd /\ a_name rd = name)
  /\ (forall l, l <> L_PG -> l <> name -> content l (st s') = content l (st s))
  /\ sfetch (st s') name h d = Some vs.
Proof.
  intros W Hh Hpl Hfd Hname Hnk H.
  destruct (live_rec s h W Hh) as (rh & Hfh & Hkh).
  unfold keys_of in Hnk. rewrite Hfh in Hnk.
  pose proof W as (HA & HR & Hrows & HG).
  unfold create_data in H.
  match type of H with match lput ?a ?b with _ => _ end = _ => destruct (lput a b) as [s1|e] eqn:E1; [|discriminate] end.
  apply lput_inv in E1 as (L1 & R1 & O1). unfold with_recs in L1, R1, O1. cbn [st recs objids] in L1, R1, O1.
  apply lput_inv in H as (L2 & R2q & O2).
  set (R2 := upd_rec h (add_key name d) (recs s) ++ [mkrec d KData name [] []]) in *.
  change (upd_rec pg (fun r : arec => set_members (a_members r ++ [d]) r) R2) with (upd_rec pg (add_member d) R2) in R1.
  (* records *)
  assert (WA : WF3 (st s) R2 (objids s)).
  { split; [exact HA|]. split; [apply WFR_R2 with (rh := rh); assumption|]. split.
    - eapply WFrows_mono; [|exact Hrows]. intros a b c Hk. apply (keyed_R2 (recs s) h d name rh Hfh Hkh Hfd Hname Hnk a b c). left. exact Hk.
    - apply WFpg_R2 with (rh := rh); assumption. }
  assert (K2 : forall a b c, keyedR R2 a b c <-> keyedR (recs s) a b c \/ (a = h /\ b = name /\ c = d))
    by (intros; apply (keyed_R2 (recs s) h d name rh Hfh Hkh Hfd Hname Hnk)).
  assert (F2 : forall x, find_rec x R2 = if Nat.eqb x h then Some (add_key name d rh)
                                        else if Nat.eqb x d then Some (mkrec d KData name [] []) else find_rec x (recs s))
    by (intros; apply (find_R2 (recs s) h d name rh Hfh Hfd)).
  assert (WB : WF3 (st s) (upd_rec pg (add_member d) R2) (objids s)).
  { eapply wf_add_member with (h := h) (lab := name); [exact WA | exact Hpl | apply K2; right; auto|].
    intros a p rp Hp Hf Hm. destruct (g_rec _ _ _ HG a p Hp) as (rp0 & Hf0 & Hk0 & _ & Hkeyed).
    assert (find_rec p R2 = Some rp0).
    { rewrite F2. destruct (Nat.eqb p h) eqn:Eh; [apply Nat.eqb_eq in Eh; subst; rewrite Hfh in Hf0; inversion Hf0; subst; congruence|].
      destruct (Nat.eqb p d) eqn:Ed; [apply Nat.eqb_eq in Ed; subst; rewrite Hfd in Hf0; discriminate | exact Hf0]. }
    rewrite H in Hf. inversion Hf; subst rp0. destruct (Hkeyed d Hm) as (l & Hl).
    destruct (r_key_rec _ _ HR a l d Hl) as (rd & Hfd' & _). rewrite Hfd in Hfd'. discriminate. }
  assert (E3 : requiv R2 (upd_rec pg (add_member d) R2)) by (apply requiv_upd; [reflexivity | intros r; repeat split]).
  assert (K3 : forall a b c, keyedR (recs s1) a b c <-> keyedR R2 a b c).
  { intros a b c. rewrite R1. split; apply requiv_keyed; [apply requiv_sym; exact E3 | exact E3]. }
  assert (W1 : WF s1).
  { unfold WF. rewrite R1, O1. eapply wf_put_data; [exact WB | exact Hname | | exact L1].
    eapply requiv_keyed; [exact E3|]. apply K2. right. auto. }
  assert (Hb : by_obj name = false) by (apply by_obj_ge; exact Hname).
  assert (C1 : forall l, content l (st s1) = if Nat.eqb l name then without (ByData d) (content name (st s)) ++ [(h, d, vs)] else content l (st s)).
  { intros l. rewrite (content_put (st s) name h d vs (st s1) l HA L1). unfold key_of, did_of. rewrite Hb. reflexivity. }
  assert (P1 : pgs_of s h = pgs_in (content L_PG (st s1)) h).
  { rewrite (pgs_of_eq s h W). unfold pgs'. rewrite C1. rewrite eqb_false_ne by (unfold L_PG; lia). reflexivity. }
  rewrite P1 in L2.
  assert (Hh1 : In h (objids s1)) by (rewrite O1; exact Hh).
  assert (W2 : WF s') by (unfold WF; rewrite R2q, O2; eapply wf_put_pg_same; [exact W1 | exact Hh1 | exact L2]).
  destruct (content_put_pg (st s1) h _ (st s') (proj1 W1) L2) as [Hc Hother].
  assert (F3 : forall x, find_rec x (recs s') = if Nat.eqb x pg then option_map (add_member d) (find_rec pg R2) else find_rec x R2).
  { intros x. rewrite R2q, R1. apply find_upd. reflexivity. }
  split; [exact W2|]. split; [congruence|].
  split; [intros a b c; rewrite R2q, K3; apply K2|].
  split.
  { intros D HD. eapply viaD_trans; [eapply (viaD_one h D s (Put name h d vs) s1 L1); split; [reflexivity | right; exact HD]|].
    eapply viaD_one; [exact L2 | apply okop_pg]. }
  split.
  { intros a. unfold pgs'. rewrite Hc, pgs_in_put. rewrite C1. rewrite (eqb_false_ne L_PG name) by (unfold L_PG; lia).
    destruct (Nat.eqb a h) eqn:Ea; [apply Nat.eqb_eq in Ea; subst; reflexivity | reflexivity]. }
  split.
  { intros x Hx Hn. rewrite F3, !F2.
    assert (x <> h) by (intros ->; rewrite Hfh in Hn; discriminate).
    assert (x <> pg).
    { intros ->. destruct (g_rec _ _ _ HG h pg Hpl) as (rp & Hfp & _). rewrite Hn in Hfp. discriminate. }
    rewrite (eqb_false_ne x pg), (eqb_false_ne x h), (eqb_false_ne x d) by assumption. exact Hn. }
  split.
  { intros x r Hf. rewrite F3.
    assert (G : exists r2, find_rec x R2 = Some r2 /\ a_kind r2 = a_kind r /\ a_name r2 = a_name r).
    { rewrite F2. destruct (Nat.eqb x h) eqn:Eh.
      - apply Nat.eqb_eq in Eh. subst. rewrite Hfh in Hf. inversion Hf; subst. eexists. split; [reflexivity | auto].
      - destruct (Nat.eqb x d) eqn:Ed; [apply Nat.eqb_eq in Ed; subst; rewrite Hfd in Hf; discriminate | eauto]. }
    destruct G as (r2 & G1 & G2 & G3). destruct (Nat.eqb x pg) eqn:Ep.
    - apply Nat.eqb_eq in Ep. subst. rewrite G1. simpl. eexists. split; [reflexivity | auto].
    - eauto. }
  split.
  { assert (Hpd : pg <> d).
    { intros ->. destruct (g_rec _ _ _ HG h d Hpl) as (rp & Hfp & _). rewrite Hfd in Hfp. discriminate. }
    exists (mkrec d KData name [] []). rewrite F3. rewrite eqb_false_ne by (intros E; apply Hpd; auto).
    rewrite F2. rewrite eqb_false_ne by (intros ->; rewrite Hfd in Hfh; discriminate). rewrite Nat.eqb_refl. auto. }
  split.
  { intros l Hl1 Hl2. rewrite Hother by exact Hl1. rewrite C1. rewrite eqb_false_ne by exact Hl2. reflexivity. }
  (* read-your-write *)
  unfold sfetch.
  assert (Hcn : content name (st s') = without (ByData d) (content name (st s)) ++ [(h, d, vs)]).
  { rewrite Hother by (unfold L_PG; lia). rewrite C1, Nat.eqb_refl. reflexivity. }
  pose proof (sfetch_content name h d (st s') (proj1 W2)) as Hsf. unfold sfetch in Hsf. rewrite Hsf.
  unfold key_of. rewrite Hb. rewrite Hcn. unfold elookup. rewrite find_app, find_without_same. simpl. rewrite Nat.eqb_refl. reflexivity.
Qed.

(* ------------------------------------------------------------------ one API operation *)
Definition Dset (s : astate) (h x : nat) : Prop := (exists b, keyedR (recs s) h b x) \/ find_rec x (recs s) = None.

Record Touch (h : nat) (s s' : astate) : Prop := {
  t_wf : WF s';
  t_via : viaD h (Dset s h) s s';
  t_keys : forall a b c, a <> h -> (keyedR (recs s') a b c <-> keyedR (recs s) a b c)
}.

Lemma rem_touch h s s' : Rem h s s' -> Touch h s s'.
Proof.
  intros R. constructor.
  - apply (rem_wf _ _ _ R).
  - apply (rem_via _ _ _ R). intros b c Hk. left. eauto.
  - intros a b c Hne. split; [apply (m_keys _ _ (rem_mono _ _ _ R)) | apply (rem_keep _ _ _ R); exact Hne].
Qed.

Lemma keys_of_keyed s h lab d : WF s -> In h (objids s) -> (In (lab, d) (keys_of s h) <-> keyedR (recs s) h lab d).
Proof.
  intros W Hh. destruct (live_rec s h W Hh) as (rh & Hf & Hk). unfold keys_of, keyedR. rewrite Hf. split.
  - intros Hin. exists rh. auto.
  - intros (r & Hfr & _ & Hin). inversion Hfr; subst. exact Hin.
Qed.

Lemma owns_keyed s h d : WF s -> In h (objids s) -> owns s h d = true -> exists lab, keyedR (recs s) h lab d.
Proof.
  intros W Hh Ho. unfold owns in Ho. apply existsb_exists in Ho as ([lab x] & Hin & E). simpl in E. apply Nat.eqb_eq in E. subst x.
  exists lab. apply keys_of_keyed; assumption.
Qed.

Lemma has_key_keyed s h k : WF s -> In h (objids s) -> has_key k (keys_of s h) = true -> exists d, keyedR (recs s) h k d.
Proof. intros W Hh Hk. apply has_key_true in Hk as (d & Hin). exists d. apply keys_of_keyed; assumption. Qed.

Lemma not_has_key s h k : WF s -> In h (objids s) -> (forall d, ~ keyedR (recs s) h k d) -> has_key k (keys_of s h) = false.
Proof.
  intros W Hh Hn. destruct (has_key k (keys_of s h)) eqn:E; [|reflexivity].
  destruct (has_key_keyed s h k W Hh E) as (d & Hk). exfalso. eapply Hn. exact Hk.
Qed.

Lemma nodup_nat_in x l : In x (nodup_nat l) <-> In x l.
Proof.
  induction l as [|y l IH]; simpl; [tauto|]. destruct (memb y l) eqn:E.
  - rewrite IH. split; [auto|]. intros [<- | H]; [apply memb_true; exact E | exact H].
  - simpl. rewrite IH. tauto.
Qed.

Lemma fresh_none s x : fresh s x = true -> find_rec x (recs s) = None.
Proof. unfold fresh. intros H. apply andb_true_iff in H as [_ H]. destruct (find_rec x (recs s)); [discriminate | reflexivity]. Qed.

Lemma live_hole_true s h : live_hole s h = true -> In h (objids s).
Proof. apply live_hole_In. Qed.

(* --- SetSurveys *)
Lemma touch_set_surveys s h vs s' :
  WF s -> outcome (api_step s (SetSurveys h vs)) = Some s' -> In h (objids s) /\ Touch h s s' /\ objids s' = objids s.
Proof.
  intros W Ho. simpl in Ho. destruct (live_hole s h) eqn:L; simpl in Ho; [|discriminate]. apply live_hole_In in L.
  apply soft_or_hard_out in Ho. destruct (lput s (Put L_SURV h 0 vs)) as [s2|e] eqn:E; [|discriminate].
  apply lput_inv in E as (L1 & R1 & O1). apply lput_inv in Ho as (L2 & R2 & O2).
  assert (W2 : WF s2) by (unfold WF; rewrite R1, O1; eapply (wf_put_obj (st s) (recs s) (objids s) L_SURV); [exact W | unfold L_SURV; lia | exact L | exact L1]).
  assert (W3 : WF s') by (unfold WF; rewrite R2, O2; eapply (wf_del_obj (st s2) (recs s2) (objids s2) L_TRACE); [exact W2 | unfold L_TRACE; lia | exact L2]).
  split; [exact L|]. split; [|congruence]. constructor.
  - exact W3.
  - eapply viaD_trans; eapply viaD_one; try eassumption; split; try reflexivity; left; reflexivity.
  - intros a b c _. rewrite R2, R1. tauto.
Qed.

(* --- SetValues *)
Lemma touch_set_values s h d vals s' :
  WF s -> outcome (api_step s (SetValues h d vals)) = Some s' -> In h (objids s) /\ Touch h s s' /\ objids s' = objids s.
Proof.
  intros W Ho. simpl in Ho. destruct (live_hole s h) eqn:L; simpl in Ho; [|discriminate]. apply live_hole_In in L.
  destruct (owns s h d) eqn:Eo; simpl in Ho; [|discriminate].
  destruct (owns_keyed s h d W L Eo) as (lab & Hk).
  pose proof W as (_ & HR & _). destruct (r_key_rec _ _ HR h lab d Hk) as (rd & Hf & Hkd & Hn). rewrite Hf in Ho.
  pose proof (r_names _ _ HR d rd Hf Hkd) as Hge. subst lab.
  split; [exact L|].
  assert (G : forall v, lput s (Put (a_name rd) h d v) = Ok s' -> Touch h s s' /\ objids s' = objids s).
  { intros v E. apply lput_inv in E as (L1 & R1 & O1). split; [|exact O1]. constructor.
    - unfold WF. rewrite R1, O1. eapply wf_put_data; eassumption.
    - eapply viaD_one; [exact L1|]. split; [reflexivity|]. right. left. eauto.
    - intros a b c _. rewrite R1. tauto. }
  match type of Ho with outcome (match ?c with _ => _ end) = _ => destruct c as [[n|]|]; try discriminate end.
  - destruct (Nat.ltb n (length vals)).
    + inversion Ho; subst. split; [|reflexivity]. apply rem_touch. apply Rem_refl. exact W.
    + apply soft_or_hard_out in Ho. eapply G. exact Ho.
  - apply soft_or_hard_out in Ho. eapply G. exact Ho.
Qed.

(* --- AddPG *)
Lemma touch_add_pg s h pgname pgid s' :
  WF s -> outcome (api_step s (AddPG h pgname pgid)) = Some s' -> In h (objids s) /\ Touch h s s' /\ objids s' = objids s.
Proof.
  intros W Ho. simpl in Ho. destruct (live_hole s h) eqn:L; simpl in Ho; [|discriminate]. apply live_hole_In in L.
  split; [exact L|]. destruct (pg_by_name s h pgname).
  - inversion Ho; subst. split; [|reflexivity]. apply rem_touch. apply Rem_refl. exact W.
  - destruct (fresh s pgid) eqn:F; [|discriminate]. apply soft_or_hard_out in Ho.
    destruct (add_new_pg s h pgname pgid s' W L (fresh_none _ _ F) Ho) as (W' & O' & _ & K & V & _).
    split; [|exact O']. constructor; [exact W' | apply V | intros a b c _; apply K].
Qed.

(* --- RemoveData / RemovePG *)
Lemma touch_remove_data s h d v s' :
  WF s -> outcome (api_step s (RemoveData h d v)) = Some s' -> In h (objids s) /\ Touch h s s' /\ objids s' = objids s.
Proof.
  intros W Ho. simpl in Ho. destruct (live_hole s h) eqn:L; simpl in Ho; [|discriminate]. apply live_hole_In in L.
  destruct (owns s h d) eqn:Eo; simpl in Ho; [|discriminate].
  destruct (owns_keyed s h d W L Eo) as (lab & Hk).
  destruct (rm_data s h d) as [s1|e] eqn:E; [|discriminate]. inversion Ho; subst.
  destruct (rem_rm_data s h d lab s' W L Hk E) as [R _].
  split; [exact L|]. split; [apply rem_touch; exact R | apply (m_objs _ _ (rem_mono _ _ _ R))].
Qed.

Lemma touch_remove_pg s h pg v s' :
  WF s -> outcome (api_step s (RemovePG h pg v)) = Some s' -> In h (objids s) /\ Touch h s s' /\ objids s' = objids s.
Proof.
  intros W Ho. simpl in Ho. destruct (live_hole s h) eqn:L; simpl in Ho; [|discriminate]. apply live_hole_In in L.
  destruct (memb pg (pgs_of s h)) eqn:Em; simpl in Ho; [|discriminate].
  apply memb_true in Em. rewrite (pgs_of_eq s h W) in Em.
  apply soft_or_hard_out in Ho.
  destruct (rem_rm_pg s s h pg s' W (Rem_refl h s W) L Em Ho) as [R _].
  split; [exact L|]. split; [apply rem_touch; exact R | apply (m_objs _ _ (rem_mono _ _ _ R))].
Qed.

Lemma keyed_has_key s h k d : WF s -> In h (objids s) -> keyedR (recs s) h k d -> has_key k (keys_of s h) = true.
Proof.
  intros W Hh Hk. apply (keys_of_keyed s h k d W Hh) in Hk. unfold has_key. apply existsb_exists. exists (k, d). split; [exact Hk | apply Nat.eqb_refl].
Qed.

Lemma touch_refl h s : WF s -> Touch h s s.
Proof. intros W. apply rem_touch. apply Rem_refl. exact W. Qed.

Local Arguments Nat.leb : simpl never.
Local Arguments Nat.ltb : simpl never.

(* --- AddData *)
Lemma touch_add_data s h pgname name pgid depid did depth vals s' :
  WF s -> outcome (api_step s (AddData h pgname name pgid depid did depth vals)) = Some s' ->
  In h (objids s) /\ Touch h s s' /\ objids s' = objids s.
Proof.
  intros W Ho. simpl in Ho. destruct (live_hole s h) eqn:L; simpl in Ho; [|discriminate]. apply live_hole_In in L.
  split; [exact L|].
  destruct (Nat.ltb name 100) eqn:En; [discriminate|]. apply Nat.ltb_ge in En.
  destruct (has_key name (keys_of s h)) eqn:Ek; [inversion Ho; subst; split; [apply touch_refl; exact W | reflexivity]|].
  destruct (pg_by_name s h pgname) as [pg0|] eqn:Epn.
  - (* a group of that name exists *)
    unfold pg_by_name in Epn. apply find_some_inv in Epn as [Hpl0 _]. rewrite (pgs_of_eq s h W) in Hpl0.
    destruct depth as [dv|]; destruct (depth_of s pg0) eqn:Edo; try discriminate.
    + (* empty group, depth given *)
      destruct (Nat.ltb (length dv) (length vals)); [inversion Ho; subst; split; [apply touch_refl; exact W | reflexivity]|].
      destruct (fresh s depid) eqn:F1; simpl in Ho; [|discriminate].
      destruct (fresh s did) eqn:F2; simpl in Ho; [|discriminate].
      destruct (Nat.eqb depid did) eqn:F3; simpl in Ho; [discriminate|]. apply Nat.eqb_neq in F3.
      match type of Ho with outcome (if ?c then _ else _) = _ => destruct c eqn:Ec; [discriminate|] end.
      apply orb_false_iff in Ec as [Ec1 Ec2]. apply Nat.leb_gt in Ec2.
      match type of Ho with outcome (match ?c with _ => _ end) = _ => destruct c as [s2|e] eqn:E2; [|discriminate] end.
      apply soft_or_hard_out in Ho.
      match type of E2 with create_data _ _ _ _ ?x _ = _ => set (dl := x) in * end.
      assert (Hdl : 10 <= dl) by (unfold dl, depth_label; lia).
      destruct (add_create_data s h pg0 depid dl dv s2 W L Hpl0 (fresh_none _ _ F1) Hdl Ec1 E2)
        as (W2 & O2 & K2 & V2 & P2 & N2 & _ & _).
      assert (L2 : In h (objids s2)) by (rewrite O2; exact L).
      assert (Hk2 : has_key name (keys_of s2 h) = false).
      { apply not_has_key; [exact W2 | exact L2|]. intros d' Hk. apply K2 in Hk as [Hk | (_ & Hn & _)]; [|lia].
        rewrite (keyed_has_key s h name d' W L Hk) in Ek. discriminate. }
      destruct (add_create_data s2 h pg0 did name _ s' W2 L2 ltac:(rewrite P2; exact Hpl0)
                  (N2 did ltac:(auto) (fresh_none _ _ F2)) ltac:(lia) Hk2 Ho) as (W3 & O3 & K3 & V3 & _).
      split; [|congruence]. constructor.
      * exact W3.
      * eapply viaD_trans; [apply V2; right; apply fresh_none; exact F1 | apply V3; right; apply fresh_none; exact F2].
      * intros a b c Hne. rewrite K3, K2. split; [intros [[H | (H & _)] | (H & _)]; [exact H | contradiction | contradiction] | auto].
    + (* a group with depths, no depth given *)
      destruct (depth_vals s h pg0) as [dv|]; [|discriminate].
      destruct (Nat.ltb (length dv) (length vals)); [inversion Ho; subst; split; [apply touch_refl; exact W | reflexivity]|].
      destruct (fresh s did) eqn:F; simpl in Ho; [|discriminate].
      apply soft_or_hard_out in Ho.
      destruct (add_create_data s h pg0 did name _ s' W L Hpl0 (fresh_none _ _ F) ltac:(lia) Ek Ho) as (W3 & O3 & K3 & V3 & _).
      split; [|exact O3]. constructor.
      * exact W3.
      * apply V3. right. apply fresh_none. exact F.
      * intros a b c Hne. rewrite K3. split; [intros [H | (H & _)]; [exact H | contradiction] | auto].
    + inversion Ho; subst. split; [apply touch_refl; exact W | reflexivity].
  - (* no group of that name *)
    destruct depth as [dv|]; [|inversion Ho; subst; split; [apply touch_refl; exact W | reflexivity]].
    destruct (Nat.ltb (length dv) (length vals)); [inversion Ho; subst; split; [apply touch_refl; exact W | reflexivity]|].
    destruct (fresh s depid) eqn:F1; simpl in Ho; [|discriminate].
    destruct (fresh s did) eqn:F2; simpl in Ho; [|discriminate].
    destruct (Nat.eqb depid did) eqn:F3; simpl in Ho; [discriminate|]. apply Nat.eqb_neq in F3.
    destruct (fresh s pgid) eqn:F4; simpl in Ho; [|discriminate].
    destruct (Nat.eqb pgid depid) eqn:F5; simpl in Ho; [discriminate|]. apply Nat.eqb_neq in F5.
    destruct (Nat.eqb pgid did) eqn:F6; simpl in Ho; [discriminate|]. apply Nat.eqb_neq in F6.
    destruct (new_pg s h pgname pgid) as [s1|e] eqn:E1; [|discriminate].
    destruct (add_new_pg s h pgname pgid s1 W L (fresh_none _ _ F4) E1) as (W1 & O1 & R1 & K1 & V1 & P1 & _).
    match type of Ho with outcome (if ?c then _ else _) = _ => destruct c eqn:Ec; [discriminate|] end.
    apply orb_false_iff in Ec as [Ec1 Ec2]. apply Nat.leb_gt in Ec2.
    match type of Ho with outcome (match ?c with _ => _ end) = _ => destruct c as [s2|e] eqn:E2; [|discriminate] end.
    apply soft_or_hard_out in Ho.
    match type of E2 with create_data _ _ _ _ ?x _ = _ => set (dl := x) in * end.
    assert (Hdl : 10 <= dl) by (unfold dl, depth_label; lia).
    assert (L1 : In h (objids s1)) by (rewrite O1; exact L).
    assert (Hpl1 : In pgid (pgs' s1 h)) by (rewrite P1, Nat.eqb_refl; apply in_or_app; right; left; reflexivity).
    assert (N1 : forall x, x <> pgid -> find_rec x (recs s) = None -> find_rec x (recs s1) = None).
    { intros x Hx Hn. rewrite R1, find_rec_app, Hn. simpl. rewrite eqb_false_ne by auto. reflexivity. }
    destruct (add_create_data s1 h pgid depid dl dv s2 W1 L1 Hpl1 (N1 depid ltac:(auto) (fresh_none _ _ F1)) Hdl Ec1 E2)
      as (W2 & O2 & K2 & V2 & P2 & N2 & _ & _).
    assert (L2 : In h (objids s2)) by (rewrite O2; exact L1).
    assert (Hk2 : has_key name (keys_of s2 h) = false).
    { apply not_has_key; [exact W2 | exact L2|]. intros d' Hk. apply K2 in Hk as [Hk | (_ & Hn & _)]; [|lia].
      apply K1 in Hk. rewrite (keyed_has_key s h name d' W L Hk) in Ek. discriminate. }
    destruct (add_create_data s2 h pgid did name _ s' W2 L2 ltac:(rewrite P2; exact Hpl1)
                (N2 did ltac:(auto) (N1 did ltac:(auto) (fresh_none _ _ F2))) ltac:(lia) Hk2 Ho) as (W3 & O3 & K3 & V3 & _).
    split; [|congruence]. constructor.
    + exact W3.
    + eapply viaD_trans; [apply V1|]. eapply viaD_trans; [apply V2; right; apply fresh_none; exact F1 | apply V3; right; apply fresh_none; exact F2].
    + intros a b c Hne. rewrite K3, K2, K1. split; [intros [[H | (H & _)] | (H & _)]; [exact H | contradiction | contradiction] | auto].
Qed.

(* --- AddHole *)
Lemma touch_add_hole s h sv s' :
  WF s -> outcome (api_step s (AddHole h sv)) = Some s' ->
  Touch h s s' /\ objids s' = objids s ++ [h] /\ ~ In h (objids s).
Proof.
  intros W Ho. simpl in Ho. destruct (fresh s h) eqn:F; simpl in Ho; [|discriminate].
  pose proof (fresh_none _ _ F) as Fn.
  assert (Hnot : ~ In h (objids s)).
  { intros Hin. destruct (live_rec s h W Hin) as (r & Hf & _). rewrite Fn in Hf. discriminate. }
  assert (Em : memb h (objids s) = false).
  { destruct (memb h (objids s)) eqn:E; [|reflexivity]. apply memb_true in E. contradiction. }
  rewrite Em in Ho. apply soft_or_hard_out in Ho.
  match type of Ho with match lput ?a ?b with _ => _ end = _ => destruct (lput a b) as [s2|e] eqn:E; [|discriminate]; set (s1 := a) in * end.
  assert (W1 : WF s1) by (unfold WF, s1; simpl; apply wf_add_hole; assumption).
  assert (L1 : In h (objids s1)) by (unfold s1; simpl; apply in_or_app; right; left; reflexivity).
  apply lput_inv in E as (La & Ra & Oa). apply lput_inv in Ho as (Lb & Rb & Ob).
  assert (W2 : WF s2).
  { unfold WF. rewrite Ra, Oa. destruct sv as [vs|].
    - eapply (wf_put_obj (st s1) (recs s1) (objids s1) L_SURV); [exact W1 | unfold L_SURV; lia | exact L1 | exact La].
    - eapply (wf_del_obj (st s1) (recs s1) (objids s1) L_SURV); [exact W1 | unfold L_SURV; lia | exact La]. }
  assert (W3 : WF s') by (unfold WF; rewrite Rb, Ob; eapply (wf_del_obj (st s2) (recs s2) (objids s2) L_TRACE); [exact W2 | unfold L_TRACE; lia | exact Lb]).
  split; [|split; [rewrite Ob, Oa; reflexivity | exact Hnot]]. constructor.
  - exact W3.
  - eapply viaD_trans; [eapply (viaD_one h _ s _ s2); [exact La | destruct sv; split; try reflexivity; left; reflexivity]|].
    eapply viaD_one; [exact Lb | split; [reflexivity | left; reflexivity]].
  - intros a b c _. rewrite Rb, Ra. unfold s1. simpl. unfold keyedR. split; intros (rh & Hf & Hk & Hin).
    + apply find_app_inv in Hf as [Hf | (_ & _ & ->)]; [eauto | simpl in Hin; contradiction].
    + exists rh. split; [apply find_app_old; exact Hf | auto].
Qed.

Lemma key_of_obj lab h x : lab < 10 -> key_of lab h x = ByObj h.
Proof. intros H. unfold key_of. rewrite by_obj_lt by exact H. reflexivity. Qed.

(* --- RemoveHole *)
Lemma touch_remove_hole s h v s' :
  WF s -> outcome (api_step s (RemoveHole h v)) = Some s' ->
  In h (objids s) /\ Touch h s s' /\ objids s' = remove_first h (objids s)
  /\ (forall b c, ~ keyedR (recs s') h b c) /\ find_rec h (recs s') = None.
Proof.
  intros W Ho. simpl in Ho. destruct (live_hole s h) eqn:L; simpl in Ho; [|discriminate]. apply live_hole_In in L.
  split; [exact L|].
  destruct (rm_pgs s h (pgs_of s h)) as [s1|e] eqn:E1; [|discriminate].
  destruct (rem_rm_pgs h (pgs_of s h) s s s1 W (Rem_refl h s W) L ltac:(intros pg Hp; rewrite <- (pgs_of_eq s h W); exact Hp) E1) as [R1 F1].
  match type of Ho with outcome (match ?c with _ => _ end) = _ => destruct c as [s2|e] eqn:E2; [|discriminate] end.
  pose proof (rem_wf _ _ _ R1) as W1.
  assert (L1 : In h (objids s1)) by (rewrite (m_objs _ _ (rem_mono _ _ _ R1)); exact L).
  assert (Hds : forall d, In d (nodup_nat (map (fun p : nat * nat => snd p) (keys_of s1 h))) -> exists lab, keyedR (recs s1) h lab d).
  { intros d Hd. apply (proj1 (nodup_nat_in _ _)) in Hd. apply in_map_iff in Hd as ([lab x] & Ex & Hin). simpl in Ex. subst x.
    exists lab. apply keys_of_keyed; assumption. }
  destruct (rem_rm_datas h _ s1 s2 W1 L1 Hds E2) as [R2 F2].
  pose proof (rem_wf _ _ _ R2) as W2.
  assert (L2 : In h (objids s2)) by (rewrite (m_objs _ _ (rem_mono _ _ _ R2)); exact L1).
  (* the hole has no data set and no group left *)
  assert (NK : forall b c, ~ keyedR (recs s2) h b c).
  { intros b c Hk. pose proof W2 as (_ & HR2 & _). destruct (r_key_rec _ _ HR2 h b c Hk) as (rc & Hf & _).
    pose proof (m_keys _ _ (rem_mono _ _ _ R2) _ _ _ Hk) as Hk1.
    rewrite (F2 c) in Hf; [discriminate|]. apply (proj2 (nodup_nat_in _ _)). apply in_map_iff. exists (b, c). split; [reflexivity|].
    apply keys_of_keyed; assumption. }
  assert (NP : pgs' s2 h = []).
  { destruct (pgs' s2 h) as [|p l] eqn:Ep; [reflexivity|]. exfalso.
    assert (Hp : In p (pgs' s2 h)) by (rewrite Ep; left; reflexivity).
    pose proof W2 as (_ & _ & _ & HG2). destruct (g_rec _ _ _ HG2 h p Hp) as (rp & Hf & _).
    pose proof (m_list _ _ (rem_mono _ _ _ R1) h p (m_list _ _ (rem_mono _ _ _ R2) h p Hp)) as Hp0.
    rewrite <- (pgs_of_eq s h W) in Hp0.
    rewrite (none_stays s1 s2 p (rem_mono _ _ _ R2) (F1 p Hp0)) in Hf. discriminate. }
  destruct (lput s2 (Del L_SURV h 0)) as [s3|e] eqn:E3; [|discriminate].
  destruct (lput s3 (Del L_TRACE h 0)) as [s4|e] eqn:E4; [|discriminate].
  destruct (lput s4 (Del L_PG h 0)) as [s5|e] eqn:E5; [|discriminate].
  inversion Ho; subst s'; clear Ho.
  apply lput_inv in E3 as (L3 & R3 & O3). apply lput_inv in E4 as (L4 & R4 & O4). apply lput_inv in E5 as (L5 & R5 & O5).
  assert (W3 : WF s3) by (unfold WF; rewrite R3, O3; eapply (wf_del_obj (st s2) (recs s2) (objids s2) L_SURV); [exact W2 | unfold L_SURV; lia | exact L3]).
  assert (W4 : WF s4) by (unfold WF; rewrite R4, O4; eapply (wf_del_obj (st s3) (recs s3) (objids s3) L_TRACE); [exact W3 | unfold L_TRACE; lia | exact L4]).
  pose proof (content_del (st s2) L_SURV h 0 (st s3)) as C3. pose proof (content_del (st s3) L_TRACE h 0 (st s4)) as C4.
  pose proof (content_del (st s4) L_PG h 0 (st s5)) as C5.
  assert (P4 : pgs_in (content L_PG (st s4)) h = []).
  { rewrite (C4 L_PG (proj1 W3) L4), (C3 L_PG (proj1 W2) L3). simpl. exact NP. }
  assert (W5 : WF s5) by (unfold WF; rewrite R5, O5; eapply wf_del_pgrow; [exact W4 | exact P4 | exact L5]).
  assert (Rall : recs s5 = recs s2) by congruence. assert (Oall : objids s5 = objids s2) by congruence.
  assert (Hobj : objids s2 = objids s) by (rewrite (m_objs _ _ (rem_mono _ _ _ R2)), (m_objs _ _ (rem_mono _ _ _ R1)); reflexivity).
  assert (WF' : WF3 (st s5) (del_rec h (recs s5)) (remove_first h (objids s5))).
  { apply wf_drop_hole.
    - exact W5.
    - rewrite Oall. exact L2.
    - rewrite Rall. exact NK.
    - rewrite (C5 L_PG (proj1 W4) L5), Nat.eqb_refl. rewrite key_of_obj by (unfold L_PG; lia). rewrite pgs_in_del, Nat.eqb_refl. reflexivity.
    - intros lab o d vs Hl Hin. pose proof W5 as (_ & _ & (Ho5 & _) & _). destruct (Ho5 lab o d vs Hl Hin) as [Hle _].
      assert (Hc : lab = L_SURV \/ lab = L_TRACE \/ lab = L_PG) by (unfold L_SURV, L_TRACE, L_PG; lia).
      destruct Hc as [-> | [-> | ->]].
      + rewrite (C5 L_SURV (proj1 W4) L5), (C4 L_SURV (proj1 W3) L4), (C3 L_SURV (proj1 W2) L3) in Hin. simpl in Hin.
        rewrite key_of_obj in Hin by (unfold L_SURV; lia).
        apply in_without in Hin as [_ Hm]. simpl in Hm. apply Nat.eqb_neq in Hm. exact Hm.
      + rewrite (C5 L_TRACE (proj1 W4) L5), (C4 L_TRACE (proj1 W3) L4) in Hin. simpl in Hin.
        rewrite key_of_obj in Hin by (unfold L_TRACE; lia).
        apply in_without in Hin as [_ Hm]. simpl in Hm. apply Nat.eqb_neq in Hm. exact Hm.
      + rewrite (C5 L_PG (proj1 W4) L5) in Hin. simpl in Hin.
        rewrite key_of_obj in Hin by (unfold L_PG; lia).
        apply in_without in Hin as [_ Hm]. simpl in Hm. apply Nat.eqb_neq in Hm. exact Hm. }
  pose proof W5 as (_ & HR5 & _).
  assert (Hn5 : NoDup (ids (recs s5))) by apply (r_uniq _ _ HR5).
  assert (KE : forall a b c, keyedR (del_rec h (recs s5)) a b c <-> keyedR (recs s5) a b c).
  { intros a b c. unfold keyedR. split; intros (r & Hf & Hk & Hin).
    - rewrite find_del in Hf by exact Hn5. destruct (Nat.eqb a h); [discriminate | eauto].
    - exists r. rewrite find_del by exact Hn5. destruct (Nat.eqb a h) eqn:Ea; [|auto].
      apply Nat.eqb_eq in Ea. subst. exfalso. apply (NK b c). rewrite <- Rall. exists r. auto. }
  split; [|split; [simpl; rewrite Oall, Hobj; reflexivity | split]].
  - constructor.
    + exact WF'.
    + eapply viaD_trans; [apply (rem_via _ _ _ R1); intros b c Hk; left; eauto|].
      eapply viaD_trans; [apply (rem_via _ _ _ R2); intros b c Hk; left; exists b; apply (m_keys _ _ (rem_mono _ _ _ R1)); exact Hk|].
      eapply viaD_trans; [eapply (viaD_one h _ s2 _ s3 L3); split; [reflexivity | left; reflexivity]|].
      eapply viaD_trans; [eapply (viaD_one h _ s3 _ s4 L4); split; [reflexivity | left; reflexivity]|].
      eapply viaD_one; [simpl; exact L5 | split; [reflexivity | left; reflexivity]].
    + intros a b c Hne. simpl. rewrite KE, Rall. split.
      * intros Hk. apply (m_keys _ _ (rem_mono _ _ _ R1)). apply (m_keys _ _ (rem_mono _ _ _ R2)). exact Hk.
      * intros Hk. apply (rem_keep _ _ _ R2); [exact Hne|]. apply (rem_keep _ _ _ R1); assumption.
  - intros b c Hk. simpl in Hk. apply KE in Hk. rewrite Rall in Hk. exact (NK b c Hk).
  - simpl. rewrite find_del by exact Hn5. rewrite Nat.eqb_refl. reflexivity.
Qed.

(* --- AddObjData / SaveHole / RemoveViaGroup *)
Lemma touch_add_obj s h name did vals s' :
  WF s -> outcome (api_step s (AddObjData h name did vals)) = Some s' ->
  In h (objids s) /\ Touch h s s' /\ objids s' = objids s
  /\ (api_step s (AddObjData h name did vals) = AOk s' -> api_read s' h did = Some vals).
Proof.
  intros W Ho. pose proof Ho as Ho0. simpl in Ho. destruct (live_hole s h) eqn:L; simpl in Ho; [|discriminate]. apply live_hole_In in L.
  split; [exact L|].
  destruct (Nat.ltb name 100) eqn:En; [discriminate|]. apply Nat.ltb_ge in En.
  destruct (has_key name (keys_of s h)) eqn:Ek.
  { inversion Ho; subst. split; [apply touch_refl; exact W|]. split; [reflexivity|].
    intros Ha. simpl in Ha. destruct (live_hole s' h); simpl in Ha; [|discriminate].
    destruct (Nat.ltb name 100); [discriminate|]. rewrite Ek in Ha. discriminate. }
  destruct (fresh s did) eqn:F; simpl in Ho; [|discriminate]. pose proof (fresh_none _ _ F) as Hfd.
  apply soft_or_hard_out in Ho. apply lput_inv in Ho as (L1 & R1 & O1). unfold with_recs in L1, R1, O1. cbn [st recs objids] in L1, R1, O1.
  destruct (live_rec s h W L) as (rh & Hfh & Hkh). unfold keys_of in Ek. rewrite Hfh in Ek.
  pose proof W as (HA & HR & Hrows & HG).
  set (R2 := upd_rec h (add_key name did) (recs s) ++ [mkrec did KData name [] []]) in *.
  assert (Hname : 10 <= name) by lia.
  assert (K2 : forall a b c, keyedR R2 a b c <-> keyedR (recs s) a b c \/ (a = h /\ b = name /\ c = did))
    by (intros; apply (keyed_R2 (recs s) h did name rh Hfh Hkh Hfd Hname Ek)).
  assert (WA : WF3 (st s) R2 (objids s)).
  { split; [exact HA|]. split; [apply WFR_R2 with (rh := rh); assumption|]. split.
    - eapply WFrows_mono; [|exact Hrows]. intros a b c Hk. apply K2. left. exact Hk.
    - apply WFpg_R2 with (rh := rh); assumption. }
  change (upd_rec h (fun r : arec => set_props (a_props r ++ [(name, did)]) r) (recs s) ++ [mkrec did KData name [] []]) with R2 in R1.
  assert (W' : WF s') by (unfold WF; rewrite R1, O1; eapply wf_put_data; [exact WA | exact Hname | apply K2; right; auto | exact L1]).
  split; [|split; [exact O1|]].
  - constructor.
    + exact W'.
    + eapply viaD_one; [exact L1 | split; [reflexivity | right; right; exact Hfd]].
    + intros a b c Hne. rewrite R1, K2. split; [intros [H | (H & _)]; [exact H | contradiction] | auto].
  - intros _. unfold api_read. rewrite R1.
    assert (Fd : find_rec did R2 = Some (mkrec did KData name [] [])).
    { rewrite (find_R2 (recs s) h did name rh Hfh Hfd). rewrite eqb_false_ne by (intros ->; rewrite Hfd in Hfh; discriminate).
      rewrite Nat.eqb_refl. reflexivity. }
    rewrite Fd. simpl.
    destruct (read_your_write (st s) name h did vals HA) as (x & Hx & Hf). rewrite L1 in Hx. inversion Hx; subst. exact Hf.
Qed.

Lemma touch_save_hole s h s' :
  WF s -> outcome (api_step s (SaveHole h)) = Some s' -> In h (objids s) /\ Touch h s s' /\ objids s' = objids s.
Proof.
  intros W Ho. simpl in Ho. destruct (live_hole s h) eqn:L; simpl in Ho; [|discriminate]. apply live_hole_In in L.
  apply soft_or_hard_out in Ho.
  match type of Ho with match lput s ?b with _ => _ end = _ => destruct (lput s b) as [s2|e] eqn:E; [|discriminate] end.
  apply lput_inv in E as (L1 & R1 & O1). apply lput_inv in Ho as (L2 & R2 & O2).
  assert (W2 : WF s2).
  { unfold WF. rewrite R1, O1. destruct (sfetch (st s) L_SURV h 0).
    - eapply (wf_put_obj (st s) (recs s) (objids s) L_SURV); [exact W | unfold L_SURV; lia | exact L | exact L1].
    - eapply (wf_del_obj (st s) (recs s) (objids s) L_SURV); [exact W | unfold L_SURV; lia | exact L1]. }
  assert (W3 : WF s') by (unfold WF; rewrite R2, O2; eapply (wf_del_obj (st s2) (recs s2) (objids s2) L_TRACE); [exact W2 | unfold L_TRACE; lia | exact L2]).
  split; [exact L|]. split; [|congruence]. constructor.
  - exact W3.
  - eapply viaD_trans; [eapply (viaD_one h _ s _ s2 L1); destruct (sfetch (st s) L_SURV h 0); split; try reflexivity; left; reflexivity|].
    eapply viaD_one; [exact L2 | split; [reflexivity | left; reflexivity]].
  - intros a b c _. rewrite R2, R1. tauto.
Qed.

Lemma touch_remove_via_group s h d s' :
  WF s -> outcome (api_step s (RemoveViaGroup h d)) = Some s' -> In h (objids s) /\ Touch h s s' /\ objids s' = objids s /\ s' = s.
Proof.
  intros W Ho. simpl in Ho. destruct (live_hole s h) eqn:L; simpl in Ho; [|discriminate]. apply live_hole_In in L.
  destruct (negb (owns s h d)); [discriminate|]. inversion Ho; subst. split; [exact L|]. split; [apply touch_refl; exact W | auto].
Qed.

Lemma touch_set_text s h d vals s' :
  WF s -> outcome (api_step s (SetText h d vals)) = Some s' ->
  In h (objids s) /\ Touch h s s' /\ objids s' = objids s
  /\ (api_step s (SetText h d vals) = AOk s' -> api_read s' h d = Some vals).
Proof.
  intros W Ho. pose proof Ho as Ho0. simpl in Ho. destruct (live_hole s h) eqn:L; simpl in Ho; [|discriminate]. apply live_hole_In in L.
  destruct (owns s h d) eqn:Eo; simpl in Ho; [|discriminate].
  destruct (owns_keyed s h d W L Eo) as (lab & Hk).
  pose proof W as (HA & HR & _). destruct (r_key_rec _ _ HR h lab d Hk) as (rd & Hf & Hkd & Hn). rewrite Hf in Ho.
  pose proof (r_names _ _ HR d rd Hf Hkd) as Hge. subst lab.
  split; [exact L|].
  match type of Ho with outcome (if ?c then _ else _) = _ => destruct c eqn:Ec end.
  - inversion Ho; subst. split; [apply touch_refl; exact W|]. split; [reflexivity|].
    intros Ha. simpl in Ha. rewrite Eo in Ha. destruct (live_hole s' h); simpl in Ha; [|discriminate]. rewrite Hf, Ec in Ha. discriminate.
  - apply soft_or_hard_out in Ho. apply lput_inv in Ho as (L1 & R1 & O1). split; [|split; [exact O1|]].
    + constructor.
      * unfold WF. rewrite R1, O1. eapply wf_put_data; eassumption.
      * eapply viaD_one; [exact L1|]. split; [reflexivity|]. right. left. eauto.
      * intros a b c _. rewrite R1. tauto.
    + intros _. unfold api_read. rewrite R1, Hf.
      destruct (read_your_write (st s) (a_name rd) h d vals HA) as (x & Hx & Hfx). rewrite L1 in Hx. inversion Hx; subst. exact Hfx.
Qed.

(* --- Reopen: without renamed data sets, loading the children adds no key *)
Lemma fold_keys_same (R : list arec) (acc : list (nat * nat)) : forall l,
  (forall p, In p l -> exists rd, find_rec (snd p) R = Some rd /\ has_key (a_name rd) acc = true) ->
  fold_left (fun a (p : nat * nat) => match find_rec (snd p) R with
                                      | Some rd => if has_key (a_name rd) a then a else a ++ [(a_name rd, snd p)]
                                      | None => a end) l acc = acc.
Proof.
  induction l as [|p l IH]; intros H; simpl; [reflexivity|].
  destruct (H p (or_introl eq_refl)) as (rd & Hf & Hk). rewrite Hf, Hk. apply IH. intros q Hq. apply H. right. exact Hq.
Qed.

Lemma reopen_same s : WF s -> api_step s Reopen = AOk (mkst (st s) (recs s) (objids s)).
Proof.
  intros W. simpl. f_equal. f_equal.
  pose proof W as (_ & HR & _).
  transitivity (map (fun r : arec => r) (recs s)); [|apply map_id]. apply map_ext_in. intros r Hin.
  destruct (a_kind r) eqn:Ek; try reflexivity.
  rewrite fold_keys_same.
  - destruct r; reflexivity.
  - intros [lab d] Hp. simpl.
    assert (Hk : keyedR (recs s) (a_id r) lab d).
    { exists r. split; [apply In_find_rec; [apply (r_uniq _ _ HR) | exact Hin]|]. auto. }
    destruct (r_key_rec _ _ HR _ _ _ Hk) as (rd & Hf & _ & Hn). exists rd. split; [exact Hf|].
    unfold has_key. apply existsb_exists. exists (lab, d). split; [exact Hp | simpl; rewrite Hn; apply Nat.eqb_refl].
Qed.

(* ------------------------------------------------------------------ the invariant holds along every history without rename *)
Definition is_rename (op : aop) : bool := match op with Rename _ _ _ => true | _ => false end.

Lemma step_WF s op s' : WF s -> is_rename op = false -> outcome (api_step s op) = Some s' -> WF s'.
Proof.
  intros W Hr Ho. destruct op; try discriminate.
  - apply (t_wf _ _ _ (proj1 (touch_add_hole _ _ _ _ W Ho))).
  - apply (t_wf _ _ _ (proj1 (proj2 (touch_set_surveys _ _ _ _ W Ho)))).
  - apply (t_wf _ _ _ (proj1 (proj2 (touch_add_data _ _ _ _ _ _ _ _ _ _ W Ho)))).
  - apply (t_wf _ _ _ (proj1 (proj2 (touch_add_pg _ _ _ _ _ W Ho)))).
  - apply (t_wf _ _ _ (proj1 (proj2 (touch_set_values _ _ _ _ _ W Ho)))).
  - apply (t_wf _ _ _ (proj1 (proj2 (touch_remove_data _ _ _ _ _ W Ho)))).
  - apply (t_wf _ _ _ (proj1 (proj2 (touch_remove_pg _ _ _ _ _ W Ho)))).
  - apply (t_wf _ _ _ (proj1 (proj2 (touch_remove_hole _ _ _ _ W Ho)))).
  - rewrite (reopen_same s W) in Ho. inversion Ho; subst. exact W.
  - apply (t_wf _ _ _ (proj1 (proj2 (touch_add_obj _ _ _ _ _ _ W Ho)))).
  - apply (t_wf _ _ _ (proj1 (proj2 (touch_save_hole _ _ _ W Ho)))).
  - apply (t_wf _ _ _ (proj1 (proj2 (touch_remove_via_group _ _ _ _ W Ho)))).
  - apply (t_wf _ _ _ (proj1 (proj2 (touch_set_text _ _ _ _ _ W Ho)))).
Qed.

Lemma run_WF ops : forall s0 s,
  forallb (fun op => negb (is_rename op)) ops = true -> WF s0 -> last_state s0 (arun s0 ops) = Some s -> WF s.
Proof.
  induction ops as [|op r IH]; intros s0 s Hq W Hlast; simpl in *.
  - inversion Hlast; subst. exact W.
  - apply andb_true_iff in Hq as [Hq1 Hq2]. apply negb_true_iff in Hq1.
    destruct (api_step s0 op) as [s1|e s1|e] eqn:E; simpl in *; try discriminate.
    + eapply (IH s1); [exact Hq2 | | exact Hlast]. eapply step_WF; [exact W | exact Hq1 | rewrite E; reflexivity].
    + eapply (IH s1); [exact Hq2 | | exact Hlast]. eapply step_WF; [exact W | exact Hq1 | rewrite E; reflexivity].
Qed.

(* ================================================================== API-level consequences *)

Lemma reaches_WF ops s : forallb (fun op => negb (is_rename op)) ops = true -> reaches ops s -> WF s.
Proof. intros Hq [_ Hlast]. eapply run_WF; [exact Hq | exact WF_init | exact Hlast]. Qed.

(* ---- (5) no stale row *)
Lemma wf_rows_live s : WF s -> rows_live s.
Proof.
  intros (_ & HR & (Ho & Hd) & _) lab t r Hg Hin.
  destruct (rows_content lab (st s) t r Hg Hin) as (vs & He).
  destruct (Nat.lt_ge_cases lab 10) as [Hlt | Hge].
  - apply (Ho lab _ _ _ Hlt He).
  - apply (r_objs _ _ HR). destruct (Hd lab _ _ _ Hge He) as (rh & Hf & Hk & _). exists rh. auto.
Qed.

(* ---- (4) exactly one record per live entity *)
Lemma wf_records_exact s : WF s ->
  NoDup (ids (recs s))
  /\ forall id, In id (ids (recs s)) <->
       In id (objids s)
       \/ (exists h lab, In h (objids s) /\ keyedR (recs s) h lab id)
       \/ (exists h, In h (objids s) /\ In id (pgs_of s h)).
Proof.
  intros W. pose proof W as (HA & HR & _ & HG). split; [apply (r_uniq _ _ HR)|]. intros id. split.
  - intros Hin. apply find_rec_in_ids in Hin as (r & Hf). destruct (a_kind r) eqn:Ek.
    + left. apply (r_objs _ _ HR). exists r. auto.
    + right. left. destruct (r_data_keyed _ _ HR id r Hf Ek) as (h & Hk). exists h, (a_name r). split; [|exact Hk].
      apply (r_objs _ _ HR). destruct Hk as (rh & Hfh & Hkh & _). exists rh. auto.
    + right. right. destruct (g_listed _ _ _ HG id r Hf Ek) as (h & Hh & Hl). exists h. split; [exact Hh|].
      rewrite (pgs_of_eq s h W). exact Hl.
  - intros [Hh | [(h & lab & Hh & Hk) | (h & Hh & Hl)]]; apply find_rec_in_ids.
    + apply (r_objs _ _ HR) in Hh as (r & Hf & _). eauto.
    + destruct (r_key_rec _ _ HR h lab id Hk) as (rd & Hf & _). eauto.
    + rewrite (pgs_of_eq s h W) in Hl. destruct (g_rec _ _ _ HG h id Hl) as (rp & Hf & _). eauto.
Qed.

(* ---- (3) the group-wide view of a data label *)
Lemma wf_table_view s lab t :
  WF s -> 10 <= lab -> sget lab (st s) = Some t ->
  concat (map (fun p : nat * list val => snd p) (table_view t)) = data t
  /\ forall r, In r (rows t) ->
       In (oid r) (objids s) /\ api_read s (oid r) (did r) = Some (slice (data t) (start r) (size r)).
Proof.
  intros W Hge Hg. pose proof W as (HA & HR & (_ & Hd) & _). pose proof (HA lab t Hg) as HT. split; [apply (table_view_concat lab t HT)|].
  intros r Hin. destruct (rows_content lab (st s) t r Hg Hin) as (vs & He).
  pose proof (Hd lab _ _ _ Hge He) as Hk. split.
  - apply (r_objs _ _ HR). destruct Hk as (rh & Hf & Hkh & _). exists rh. auto.
  - destruct (r_key_rec _ _ HR _ _ _ Hk) as (rd & Hf & _ & Hn). unfold api_read. rewrite Hf, Hn.
    unfold sfetch. rewrite Hg. apply (table_view_rows lab t r HT Hin).
Qed.

(* ---- (2) isolation between holes *)
Lemma lrun_foreign h (D : nat -> Prop) lops : forall S S',
  AllTiled S -> Forall (okop h D) lops -> lrun lops S = Ok S' ->
  forall lab o c vs, o <> h -> (by_obj lab = true \/ ~ D c) ->
  (In (o, c, vs) (content lab S') <-> In (o, c, vs) (content lab S)).
Proof.
  induction lops as [|op r IH]; intros S S' HA HF H lab o c vs Ho Hc; simpl in H.
  - inversion H; subst. tauto.
  - inversion HF as [|? ? Hop Hr]; subst. destruct (lstep S op) as [S1|e] eqn:E; [|discriminate].
    rewrite (IH S1 S' (lstep_tiled' _ _ _ HA E) Hr H lab o c vs Ho Hc). clear IH H.
    destruct Hop as [Hoid Hd].
    assert (Hm : forall l0 d0, lop_lab op = l0 -> lop_did op = d0 -> l0 = lab -> ematch (key_of l0 h d0) (o, c, vs) = false).
    { intros l0 d0 E1 E2 ->. unfold key_of. destruct (by_obj lab) eqn:Eb; simpl.
      - apply Nat.eqb_neq. exact Ho.
      - apply Nat.eqb_neq. intros ->. destruct Hc as [Hc | Hc]; [discriminate|]. destruct Hd as [Hd | Hd]; [rewrite E1, Eb in Hd; discriminate|].
        rewrite E2 in Hd. contradiction. }
    destruct op as [l0 o0 d0 vs0 | l0 o0 d0]; simpl in Hoid; subst o0.
    + rewrite (content_put S l0 h d0 vs0 S1 lab HA E). destruct (Nat.eqb lab l0) eqn:El; [|tauto].
      apply Nat.eqb_eq in El. subst l0. split.
      * intros Hin. apply in_app_or in Hin as [Hin | [Hin | []]]; [apply in_without in Hin as [Hin _]; exact Hin|].
        inversion Hin; subst. contradiction.
      * intros Hin. apply in_or_app. left. apply in_without. split; [exact Hin | apply (Hm lab d0); reflexivity].
    + rewrite (content_del S l0 h d0 S1 lab HA E). destruct (Nat.eqb lab l0) eqn:El; [|tauto].
      apply Nat.eqb_eq in El. subst l0. rewrite in_without. split; [tauto|]. intros Hin. split; [exact Hin | apply (Hm lab d0); reflexivity].
Qed.

(* reading by Data ID / Object ID is determined by membership when keys are unique *)
Lemma elookup_in lab o d c vs :
  NoDup (map (ekey lab) c) ->
  (elookup (key_of lab o d) c = Some vs <-> exists o' d', In (o', d', vs) c /\ ematch (key_of lab o d) (o', d', vs) = true).
Proof.
  intros Hn. unfold elookup. split.
  - destruct (find (ematch (key_of lab o d)) c) as [[[o' d'] vs']|] eqn:F; [|discriminate]. simpl. intros H. inversion H; subst.
    apply find_some_inv in F as [Hin Hm]. eauto.
  - intros (o' & d' & Hin & Hm).
    destruct (unique_match (ekey lab) (ematch (key_of lab o d)) (if by_obj lab then o else d) c (ematch_key lab o d) Hn)
      as [Hnone | (l1 & x & l2 & -> & Hx & H1 & H2)].
    + rewrite (Hnone _ Hin) in Hm. discriminate.
    + rewrite find_app_none by exact H1. simpl. rewrite Hx. simpl.
      apply in_app_or in Hin as [Hin | [Hin | Hin]].
      * rewrite (H1 _ Hin) in Hm. discriminate.
      * subst x. reflexivity.
      * rewrite (H2 _ Hin) in Hm. discriminate.
Qed.

Lemma option_ext {A} (a b : option A) : (forall x, a = Some x <-> b = Some x) -> a = b.
Proof.
  intros H. destruct a as [x|], b as [y|]; try reflexivity.
  - symmetry. apply H. reflexivity.
  - destruct (proj1 (H x) eq_refl). reflexivity.
  - apply (proj2 (H y)). reflexivity.
Qed.

Lemma step_touch s op h s' :
  WF s -> is_rename op = false -> op_hole op = Some h -> outcome (api_step s op) = Some s' -> Touch h s s'.
Proof.
  intros W Hr Hh Ho. destruct op; simpl in Hh; inversion Hh; subst; try discriminate.
  - apply (proj1 (touch_add_hole _ _ _ _ W Ho)).
  - apply (proj1 (proj2 (touch_set_surveys _ _ _ _ W Ho))).
  - apply (proj1 (proj2 (touch_add_data _ _ _ _ _ _ _ _ _ _ W Ho))).
  - apply (proj1 (proj2 (touch_add_pg _ _ _ _ _ W Ho))).
  - apply (proj1 (proj2 (touch_set_values _ _ _ _ _ W Ho))).
  - apply (proj1 (proj2 (touch_remove_data _ _ _ _ _ W Ho))).
  - apply (proj1 (proj2 (touch_remove_pg _ _ _ _ _ W Ho))).
  - apply (proj1 (proj2 (touch_remove_hole _ _ _ _ W Ho))).
  - apply (proj1 (proj2 (touch_add_obj _ _ _ _ _ _ W Ho))).
  - apply (proj1 (proj2 (touch_save_hole _ _ _ W Ho))).
  - apply (proj1 (proj2 (touch_remove_via_group _ _ _ _ W Ho))).
  - apply (proj1 (proj2 (touch_set_text _ _ _ _ _ W Ho))).
Qed.

Lemma touch_isolation s h s' h' lab d :
  WF s -> Touch h s s' -> h' <> h -> keyedR (recs s) h' lab d ->
  api_read s' h' d = api_read s h' d /\ api_surveys s' h' = api_surveys s h'.
Proof.
  intros W [W' (lops & HF & HR) K] Hne Hk.
  pose proof W as (HA & HRs & (_ & Hd) & _). pose proof W' as (HA' & HRs' & (_ & Hd') & _).
  pose proof (lrun_foreign h (Dset s h) lops (st s) (st s') HA HF HR) as FR.
  assert (Hk' : keyedR (recs s') h' lab d) by (apply K; assumption).
  destruct (r_key_rec _ _ HRs _ _ _ Hk) as (rd & Hf & Hkd & Hn).
  destruct (r_key_rec _ _ HRs' _ _ _ Hk') as (rd' & Hf' & Hkd' & Hn').
  pose proof (r_names _ _ HRs d rd Hf Hkd) as Hge. rewrite Hn in Hge.
  assert (ND : ~ Dset s h d).
  { intros [(b & Hb) | Hnone]; [apply Hne; eapply (r_key_inj _ _ HRs); eassumption | rewrite Hf in Hnone; discriminate]. }
  split.
  - unfold api_read. rewrite Hf, Hf', Hn, Hn'. rewrite !sfetch_content by assumption.
    apply option_ext. intros vs. rewrite !elookup_in by (apply content_nodup; assumption).
    assert (Hb : by_obj lab = false) by (apply by_obj_ge; exact Hge).
    split; intros (o' & d' & Hin & Hm); unfold key_of in Hm; rewrite Hb in Hm; simpl in Hm; apply Nat.eqb_eq in Hm; subst d'.
    + assert (o' = h') by (eapply (r_key_inj _ _ HRs'); [eapply Hd'; eassumption | exact Hk']). subst o'.
      exists h', d. split; [apply (FR lab h' d vs Hne (or_intror ND)); exact Hin | unfold key_of; rewrite Hb; simpl; apply Nat.eqb_refl].
    + assert (o' = h') by (eapply (r_key_inj _ _ HRs); [eapply Hd; eassumption | exact Hk]). subst o'.
      exists h', d. split; [apply (FR lab h' d vs Hne (or_intror ND)); exact Hin | unfold key_of; rewrite Hb; simpl; apply Nat.eqb_refl].
  - unfold api_surveys. rewrite !sfetch_content by assumption.
    apply option_ext. intros vs. rewrite !elookup_in by (apply content_nodup; assumption).
    split; intros (o' & d' & Hin & Hm); rewrite key_of_obj in Hm by (unfold L_SURV; lia); simpl in Hm; apply Nat.eqb_eq in Hm; subst o'.
    + exists h', d'. split; [apply (FR L_SURV h' d' vs Hne (or_introl eq_refl)); exact Hin | rewrite key_of_obj by (unfold L_SURV; lia); simpl; apply Nat.eqb_refl].
    + exists h', d'. split; [apply (FR L_SURV h' d' vs Hne (or_introl eq_refl)); exact Hin | rewrite key_of_obj by (unfold L_SURV; lia); simpl; apply Nat.eqb_refl].
Qed.

(* ---- (1) read-your-write *)
Lemma pad_spec vs : forall k, pad vs k = vs ++ repeat None (k - length vs).
Proof.
  induction vs as [|v r IH]; intros k.
  - simpl. induction k as [|k IHk]; simpl; [reflexivity|]. rewrite IHk. rewrite Nat.sub_0_r. reflexivity.
  - destruct k as [|k]; simpl; [rewrite app_nil_r; reflexivity|]. rewrite IH. reflexivity.
Qed.

Lemma soft_or_hard_ok s r s' : soft_or_hard s r = AOk s' -> r = Ok s'.
Proof. destruct r; simpl; intros H; inversion H; reflexivity. Qed.

Lemma lput_ryw s lab o d vs s' :
  AllTiled (st s) -> lput s (Put lab o d vs) = Ok s' -> sfetch (st s') lab o d = Some vs /\ recs s' = recs s.
Proof.
  intros HA H. apply lput_inv in H as (L & R & _). split; [|exact R].
  destruct (read_your_write (st s) lab o d vs HA) as (x & Hx & Hf). rewrite L in Hx. inversion Hx; subst. exact Hf.
Qed.

Lemma ryw_set_values s h d vals s' :
  AllTiled (st s) -> api_step s (SetValues h d vals) = AOk s' -> exists k, api_read s' h d = Some (pad vals k).
Proof.
  intros HA H. simpl in H. destruct (live_hole s h); simpl in H; [|discriminate].
  destruct (owns s h d); simpl in H; [|discriminate].
  destruct (find_rec d (recs s)) as [rd|] eqn:Fd; [|discriminate].
  match type of H with match ?c with _ => _ end = _ => destruct c as [[n|]|]; try discriminate end.
  - destruct (Nat.ltb n (length vals)); [discriminate|]. apply soft_or_hard_ok in H.
    destruct (lput_ryw s _ h d _ s' HA H) as [Hf Hr]. exists n. unfold api_read. rewrite Hr, Fd. exact Hf.
  - apply soft_or_hard_ok in H. destruct (lput_ryw s _ h d _ s' HA H) as [Hf Hr]. exists 0. unfold api_read. rewrite Hr, Fd. exact Hf.
Qed.

(* the other data sets of the same hole keep their values *)
Lemma set_values_same_hole s h d vals s' lab' d' :
  WF s -> api_step s (SetValues h d vals) = AOk s' -> d' <> d -> keyedR (recs s) h lab' d' ->
  api_read s' h d' = api_read s h d'.
Proof.
  intros W H Hne Hk'. pose proof W as (HA & HR & _). simpl in H. destruct (live_hole s h) eqn:L; simpl in H; [|discriminate]. apply live_hole_In in L.
  destruct (owns s h d) eqn:Eo; simpl in H; [|discriminate].
  destruct (owns_keyed s h d W L Eo) as (lab & Hk).
  destruct (r_key_rec _ _ HR h lab d Hk) as (rd & Hf & Hkd & Hn). rewrite Hf in H.
  destruct (r_key_rec _ _ HR h lab' d' Hk') as (rd' & Hf' & Hkd' & Hn').
  pose proof (r_names _ _ HR d rd Hf Hkd) as Hge. pose proof (r_names _ _ HR d' rd' Hf' Hkd') as Hge'.
  assert (G : forall v, lput s (Put (a_name rd) h d v) = Ok s' -> api_read s' h d' = api_read s h d').
  { intros v E. apply lput_inv in E as (L1 & R1 & _). unfold api_read. rewrite R1, Hf'.
    destruct (isolation_put (st s) (a_name rd) h d v (a_name rd') h d' HA) as (x & Hx & Hiso).
    - right. unfold kval. rewrite by_obj_ge by exact Hge. exact Hne.
    - rewrite L1 in Hx. inversion Hx; subst. exact Hiso. }
  match type of H with match ?c with _ => _ end = _ => destruct c as [[n|]|]; try discriminate end.
  - destruct (Nat.ltb n (length vals)); [discriminate|]. apply soft_or_hard_ok in H. eapply G. exact H.
  - apply soft_or_hard_ok in H. eapply G. exact H.
Qed.

Lemma ryw_add_data s h pgname name pgid depid did depth vals s' :
  WF s -> api_step s (AddData h pgname name pgid depid did depth vals) = AOk s' ->
  exists k, api_read s' h did = Some (pad vals k).
Proof.
  intros W Ho. simpl in Ho. destruct (live_hole s h) eqn:L; simpl in Ho; [|discriminate]. apply live_hole_In in L.
  destruct (Nat.ltb name 100) eqn:En; [discriminate|]. apply Nat.ltb_ge in En.
  destruct (has_key name (keys_of s h)) eqn:Ek; [discriminate|].
  assert (Fin : forall s2 pg k, WF s2 -> In h (objids s2) -> In pg (pgs' s2 h) -> find_rec did (recs s2) = None ->
                 has_key name (keys_of s2 h) = false -> create_data s2 h pg did name (pad vals k) = Ok s' ->
                 exists k, api_read s' h did = Some (pad vals k)).
  { intros s2 pg k W2 L2 Hp Hf Hk E.
    destruct (add_create_data s2 h pg did name _ s' W2 L2 Hp Hf ltac:(lia) Hk E) as (_ & _ & _ & _ & _ & _ & _ & (rd & Hfd & Hn) & _ & Hs).
    exists k. unfold api_read. rewrite Hfd, Hn. exact Hs. }
  destruct (pg_by_name s h pgname) as [pg0|] eqn:Epn.
  - unfold pg_by_name in Epn. apply find_some_inv in Epn as [Hpl0 _]. rewrite (pgs_of_eq s h W) in Hpl0.
    destruct depth as [dv|]; destruct (depth_of s pg0) eqn:Edo; try discriminate.
    + destruct (Nat.ltb (length dv) (length vals)); [discriminate|].
      destruct (fresh s depid) eqn:F1; simpl in Ho; [|discriminate].
      destruct (fresh s did) eqn:F2; simpl in Ho; [|discriminate].
      destruct (Nat.eqb depid did) eqn:F3; simpl in Ho; [discriminate|]. apply Nat.eqb_neq in F3.
      match type of Ho with (if ?c then _ else _) = _ => destruct c eqn:Ec; [discriminate|] end.
      apply orb_false_iff in Ec as [Ec1 Ec2]. apply Nat.leb_gt in Ec2.
      match type of Ho with match ?c with _ => _ end = _ => destruct c as [s2|e] eqn:E2; [|discriminate] end.
      apply soft_or_hard_ok in Ho.
      match type of E2 with create_data _ _ _ _ ?x _ = _ => set (dl := x) in * end.
      assert (Hdl : 10 <= dl) by (unfold dl, depth_label; lia).
      destruct (add_create_data s h pg0 depid dl dv s2 W L Hpl0 (fresh_none _ _ F1) Hdl Ec1 E2)
        as (W2 & O2 & K2 & V2 & P2 & N2 & _ & _).
      assert (L2 : In h (objids s2)) by (rewrite O2; exact L).
      eapply (Fin s2 pg0); [exact W2 | exact L2 | rewrite P2; exact Hpl0 | apply N2; [auto | apply fresh_none; exact F2] | | exact Ho].
      apply not_has_key; [exact W2 | exact L2|]. intros d' Hk. apply K2 in Hk as [Hk | (_ & Hn & _)]; [|lia].
      rewrite (keyed_has_key s h name d' W L Hk) in Ek. discriminate.
    + destruct (depth_vals s h pg0) as [dv|]; [|discriminate].
      destruct (Nat.ltb (length dv) (length vals)); [discriminate|].
      destruct (fresh s did) eqn:F; simpl in Ho; [|discriminate].
      apply soft_or_hard_ok in Ho. eapply (Fin s pg0); [exact W | exact L | exact Hpl0 | apply fresh_none; exact F | exact Ek | exact Ho].
  - destruct depth as [dv|]; [|discriminate].
    destruct (Nat.ltb (length dv) (length vals)); [discriminate|].
    destruct (fresh s depid) eqn:F1; simpl in Ho; [|discriminate].
    destruct (fresh s did) eqn:F2; simpl in Ho; [|discriminate].
    destruct (Nat.eqb depid did) eqn:F3; simpl in Ho; [discriminate|]. apply Nat.eqb_neq in F3.
    destruct (fresh s pgid) eqn:F4; simpl in Ho; [|discriminate].
    destruct (Nat.eqb pgid depid) eqn:F5; simpl in Ho; [discriminate|]. apply Nat.eqb_neq in F5.
    destruct (Nat.eqb pgid did) eqn:F6; simpl in Ho; [discriminate|]. apply Nat.eqb_neq in F6.
    destruct (new_pg s h pgname pgid) as [s1|e] eqn:E1; [|discriminate].
    destruct (add_new_pg s h pgname pgid s1 W L (fresh_none _ _ F4) E1) as (W1 & O1 & R1 & K1 & V1 & P1 & _).
    match type of Ho with (if ?c then _ else _) = _ => destruct c eqn:Ec; [discriminate|] end.
    apply orb_false_iff in Ec as [Ec1 Ec2]. apply Nat.leb_gt in Ec2.
    match type of Ho with match ?c with _ => _ end = _ => destruct c as [s2|e] eqn:E2; [|discriminate] end.
    apply soft_or_hard_ok in Ho.
    match type of E2 with create_data _ _ _ _ ?x _ = _ => set (dl := x) in * end.
    assert (Hdl : 10 <= dl) by (unfold dl, depth_label; lia).
    assert (L1 : In h (objids s1)) by (rewrite O1; exact L).
    assert (Hpl1 : In pgid (pgs' s1 h)) by (rewrite P1, Nat.eqb_refl; apply in_or_app; right; left; reflexivity).
    assert (N1 : forall x, x <> pgid -> find_rec x (recs s) = None -> find_rec x (recs s1) = None).
    { intros x Hx Hn. rewrite R1, find_rec_app, Hn. simpl. rewrite eqb_false_ne by auto. reflexivity. }
    destruct (add_create_data s1 h pgid depid dl dv s2 W1 L1 Hpl1 (N1 depid ltac:(auto) (fresh_none _ _ F1)) Hdl Ec1 E2)
      as (W2 & O2 & K2 & V2 & P2 & N2 & _ & _).
    assert (L2 : In h (objids s2)) by (rewrite O2; exact L1).
    eapply (Fin s2 pgid); [exact W2 | exact L2 | rewrite P2; exact Hpl1 | apply N2; [auto | apply N1; [auto | apply fresh_none; exact F2]] | | exact Ho].
    apply not_has_key; [exact W2 | exact L2|]. intros d' Hk. apply K2 in Hk as [Hk | (_ & Hn & _)]; [|lia].
    apply K1 in Hk. rewrite (keyed_has_key s h name d' W L Hk) in Ek. discriminate.
Qed.

Lemma last_tiled ops : forall s0 s, AllTiled (st s0) -> last_state s0 (arun s0 ops) = Some s -> AllTiled (st s).
Proof.
  induction ops as [|op r IH]; intros s0 s HA Hlast; simpl in *.
  - inversion Hlast; subst. exact HA.
  - destruct (api_step s0 op) as [s1|e s1|e] eqn:E; simpl in *; try discriminate;
      (eapply (IH s1); [|exact Hlast]; eapply steps_tiled; [eapply step_steps; rewrite E; reflexivity | exact HA]).
Qed.

Lemma reaches_tiled ops s : reaches ops s -> AllTiled (st s).
Proof. intros [_ Hlast]. eapply (last_tiled ops init s); [exact alltiled_nil | exact Hlast]. Qed.
