(* Proofs about Model/Desurvey.v (property C18): the desurveyed position lies on the surveyed path. *)
From GV Require Import Prelude.Base Model.GridIndex Model.Desurvey.
From Coq Require Import QArith.
Close Scope Q_scope.

(* ---------------- vectors up to Qeq ---------------- *)
Ltac vdes := repeat match goal with v : V3 |- _ => destruct v as [[? ?] ?] end.
Ltac vq := vdes; unfold veq, vadd, vsub, vscale, vmean, vzero in *; simpl in *; intuition (try ring).

Lemma veq_refl a : veq a a.
Proof. vq; reflexivity. Qed.
Lemma veq_sym a b : veq a b -> veq b a.
Proof. vq; symmetry; assumption. Qed.
Lemma veq_trans a b c : veq a b -> veq b c -> veq a c.
Proof. vq; etransitivity; eassumption. Qed.
Lemma vadd_compat a a' b b' : veq a a' -> veq b b' -> veq (vadd a b) (vadd a' b').
Proof.
  vdes. unfold veq, vadd. simpl. intros [H1 [H2 H3]] [H4 [H5 H6]].
  rewrite H1, H2, H3, H4, H5, H6. repeat split; reflexivity.
Qed.
Lemma vscale_compat c c' a a' : (c == c')%Q -> veq a a' -> veq (vscale c a) (vscale c' a').
Proof.
  vdes. unfold veq, vscale. simpl. intros Hc [H1 [H2 H3]]. rewrite Hc, H1, H2, H3. repeat split; reflexivity.
Qed.
Lemma vadd_assoc a b c : veq (vadd a (vadd b c)) (vadd (vadd a b) c).
Proof. vq. Qed.
Lemma vadd_zero_r a : veq (vadd a vzero) a.
Proof. vq. Qed.
Lemma vscale_zero c a : (c == 0)%Q -> veq (vscale c a) vzero.
Proof. vdes. unfold veq, vscale, vzero. simpl. intros H. rewrite H. repeat split; ring. Qed.
Lemma vadd_scale_zero p c v : (c == 0)%Q -> veq (vadd p (vscale c v)) p.
Proof.
  intros H. eapply veq_trans; [apply vadd_compat; [apply veq_refl|apply vscale_zero; exact H]|apply vadd_zero_r].
Qed.

(* ---------------- comparisons ---------------- *)
Lemma Qltb_lt a b : Qltb a b = true <-> (a < b)%Q.
Proof.
  unfold Qltb. rewrite negb_true_iff. split.
  - intros H. apply Qnot_le_lt. intros Hle. apply Qle_bool_iff in Hle. congruence.
  - intros H. destruct (Qle_bool b a) eqn:E; [|reflexivity]. apply Qle_bool_iff in E.
    exfalso. exact (Qlt_not_le _ _ H E).
Qed.

Lemma Qltb_ge a b : Qltb a b = false <-> (b <= a)%Q.
Proof.
  unfold Qltb. rewrite negb_false_iff. apply Qle_bool_iff.
Qed.

(* ---------------- deviation of a leg ---------------- *)
(* every leg moves along the mean of its two station directions *)
Lemma dev_mean a b : veq (dev a b) (vmean a b).
Proof. vdes. unfold dev, veq, vmean, vscale, vadd. simpl. repeat split; field. Qed.

(* where the two station directions coincide the leg moves along that direction: by exactly the depth difference *)
Lemma dev_same a b : veq a b -> veq (dev a b) a.
Proof.
  intros Hab. vdes. unfold veq, dev in *. simpl in *. destruct Hab as [H1 [H2 H3]].
  rewrite <- H1, <- H2, <- H3. repeat split; field.
Qed.

(* the pre-repair formula: the mean for a leg that has a length ... *)
Lemma dev1_old_mean g din dout len : ~ (len == 0)%Q -> (dev1_old g din dout len == (din + dout) / 2)%Q.
Proof.
  intros H. unfold dev1_old. destruct (Qeq_bool len 0) eqn:E; [apply Qeq_bool_iff in E; contradiction|]. field. exact H.
Qed.

(* ... but the FIRST station's direction (whatever finite garbage the uninitialised entry holds) for a zero-length leg *)
Lemma dev1_old_zero g din dout len : (len == 0)%Q -> (dev1_old g din dout len == din)%Q.
Proof.
  intros H. unfold dev1_old. pose proof H as E. apply Qeq_bool_iff in E. rewrite E. rewrite H. field.
Qed.

Lemma dev_old_zero_leg_witness : forall g,
  veq (dev_old g (0, 0, 1)%Q (0, 0, -1)%Q 0%Q) (0, 0, 1)%Q /\ ~ veq (dev_old g (0, 0, 1)%Q (0, 0, -1)%Q 0%Q) (vmean (0, 0, 1)%Q (0, 0, -1)%Q).
Proof.
  intros g. split.
  - unfold dev_old, veq. repeat split; apply dev1_old_zero; reflexivity.
  - unfold dev_old, veq, vmean, vscale, vadd. intros [_ [_ H]]. rewrite dev1_old_zero in H by reflexivity.
    vm_compute in H. discriminate.
Qed.

Section Proofs.
  Variable ang : Type.
  Variable dir : ang -> V3.
  Notation station := (Q * ang)%type.

  (* ---------------- shape of the tables ---------------- *)
  Lemma legs_length : forall t : list station, length (legs dir t) = length t - 1.
  Proof.
    induction t as [|[t0 a0] r IH]; [reflexivity|]. destruct r as [|[t1 a1] r']; [reflexivity|].
    change (legs dir ((t0, a0) :: (t1, a1) :: r'))
      with (((t1 - t0)%Q, dev (dir a0) (dir a1)) :: legs dir ((t1, a1) :: r')).
    simpl length in *. rewrite IH. lia.
  Qed.

  Lemma legs_nth : forall (t : list station) k t0 a0 t1 a1,
    nth_error t k = Some (t0, a0) -> nth_error t (S k) = Some (t1, a1) ->
    nth_error (legs dir t) k = Some ((t1 - t0)%Q, dev (dir a0) (dir a1)).
  Proof.
    induction t as [|[x ax] r IH]; intros k t0 a0 t1 a1 H0 H1; [destruct k; discriminate|].
    destruct r as [|[y ay] r']; [destruct k; simpl in H1; try discriminate; destruct k; discriminate|].
    change (legs dir ((x, ax) :: (y, ay) :: r'))
      with (((y - x)%Q, dev (dir ax) (dir ay)) :: legs dir ((y, ay) :: r')).
    destruct k as [|k]; simpl in H0, H1 |- *.
    - inversion H0; inversion H1; subst. reflexivity.
    - apply IH; assumption.
  Qed.

  Lemma depths_nth (t : list station) k tk :
    nth_error (depths_of t) k = Some tk <-> exists a, nth_error t k = Some (tk, a).
  Proof.
    unfold depths_of. revert k. induction t as [|[x ax] r IH]; intros k.
    - destruct k; simpl; split; try discriminate; intros [a H]; discriminate.
    - destruct k as [|k]; simpl.
      + split; [intros H; inversion H; subst; exists ax; reflexivity|intros [a H]; inversion H; reflexivity].
      + apply IH.
  Qed.

  Lemma depths_length (t : list station) : length (depths_of t) = length t.
  Proof. apply map_length. Qed.

  Lemma cum_length : forall lg acc, length (cum acc lg) = S (length lg).
  Proof. induction lg as [|[l v] r IH]; intros acc; simpl; [reflexivity|]. rewrite IH. reflexivity. Qed.

  Lemma cum_step : forall lg acc k p l v,
    nth_error (cum acc lg) k = Some p -> nth_error lg k = Some (l, v) ->
    nth_error (cum acc lg) (S k) = Some (vadd p (vscale l v)).
  Proof.
    induction lg as [|[l0 v0] r IH]; intros acc k p l v Hp Hl; [destruct k; discriminate|].
    destruct k as [|k].
    - simpl in Hp, Hl. inversion Hp; inversion Hl; subst. simpl. destruct r as [|[? ?] ?]; reflexivity.
    - simpl in Hl. change (cum acc ((l0, v0) :: r)) with (acc :: cum (vadd acc (vscale l0 v0)) r) in *.
      simpl in Hp |- *. apply IH; assumption.
  Qed.

  Lemma locations_of_length collar lg : length (locations_of collar lg) = S (length lg).
  Proof. unfold locations_of. rewrite map_length. apply cum_length. Qed.

  Lemma nth_error_map_inv {A B} (f : A -> B) l k y :
    nth_error (map f l) k = Some y -> exists x, nth_error l k = Some x /\ y = f x.
  Proof.
    revert k; induction l as [|a r IH]; intros [|k] H; simpl in H; try discriminate.
    - inversion H. exists a. split; reflexivity.
    - apply IH. exact H.
  Qed.

  (* continuity at every station: the end of leg k is the start of leg k+1 *)
  Lemma locations_step collar lg k p l v :
    nth_error (locations_of collar lg) k = Some p -> nth_error lg k = Some (l, v) ->
    exists p', nth_error (locations_of collar lg) (S k) = Some p' /\ veq p' (vadd p (vscale l v)).
  Proof.
    unfold locations_of. intros Hp Hl. apply nth_error_map_inv in Hp. destruct Hp as [c [Hc ->]].
    exists (vadd collar (vadd c (vscale l v))). split.
    - apply map_nth_error. apply cum_step; assumption.
    - apply vadd_assoc.
  Qed.

  Lemma locations_zero collar lg : exists p, nth_error (locations_of collar lg) 0 = Some p /\ veq p collar.
  Proof.
    exists (vadd collar vzero). split; [|apply vadd_zero_r].
    unfold locations_of. destruct lg as [|[l v] r]; reflexivity.
  Qed.

  (* ---------------- searchsorted on a sorted table ---------------- *)
  Lemma sorted_tail x r : sortedQ (x :: r) -> sortedQ r.
  Proof. intros [_ H]. exact H. Qed.

  Lemma sorted_head_le : forall r x y, sortedQ (x :: r) -> In y r -> (x <= y)%Q.
  Proof.
    induction r as [|z r IH]; intros x y Hs Hy; [contradiction|].
    destruct Hs as [Hxz Hs]. destruct Hy as [<-|Hy]; [exact Hxz|].
    apply Qle_trans with z; [exact Hxz|]. apply IH; assumption.
  Qed.

  Lemma sorted_nth_le : forall ts i j a b, sortedQ ts -> i <= j ->
    nth_error ts i = Some a -> nth_error ts j = Some b -> (a <= b)%Q.
  Proof.
    induction ts as [|x r IH]; intros i j a b Hs Hij Ha Hb; [destruct i; discriminate|].
    destruct i as [|i], j as [|j]; simpl in Ha, Hb; try lia.
    - inversion Ha; inversion Hb; subst. apply Qle_refl.
    - inversion Ha; subst. apply sorted_head_le with r; [exact Hs|]. eapply nth_error_In. exact Hb.
    - apply (IH i j); try assumption; [apply sorted_tail with x; exact Hs|lia].
  Qed.

  Lemma count_lt_cons x r d : count_lt (x :: r) d = if Qltb x d then S (count_lt r d) else count_lt r d.
  Proof. unfold count_lt. simpl. destruct (Qltb x d); reflexivity. Qed.

  Lemma count_lt_none : forall l d, (forall y, In y l -> (d <= y)%Q) -> count_lt l d = 0.
  Proof.
    induction l as [|x r IH]; intros d H; [reflexivity|]. rewrite count_lt_cons.
    assert (E : Qltb x d = false) by (apply Qltb_ge; apply H; left; reflexivity). rewrite E.
    apply IH. intros y Hy. apply H. right. exact Hy.
  Qed.

  (* the position found by searchsorted(side="left"): everything before it is < d, everything from it on is >= d *)
  Lemma count_lt_spec : forall ts d, sortedQ ts ->
    (forall i t, i < count_lt ts d -> nth_error ts i = Some t -> (t < d)%Q)
    /\ (forall i t, count_lt ts d <= i -> nth_error ts i = Some t -> (d <= t)%Q)
    /\ count_lt ts d <= length ts.
  Proof.
    induction ts as [|x r IH]; intros d Hs.
    - unfold count_lt. simpl. split; [intros i t H; lia|]. split; [intros [|i] t _ H; discriminate|]. lia.
    - destruct (IH d (sorted_tail x r Hs)) as [IH1 [IH2 IH3]]. rewrite count_lt_cons.
      destruct (Qltb x d) eqn:E.
      + apply Qltb_lt in E. split; [|split].
        * intros [|i] t Hi Ht; simpl in Ht; [inversion Ht; subst; exact E|]. apply (IH1 i); [lia|exact Ht].
        * intros [|i] t Hi Ht; [lia|]. simpl in Ht. apply (IH2 i); [lia|exact Ht].
        * simpl. lia.
      + apply Qltb_ge in E.
        assert (Hz : count_lt r d = 0).
        { apply count_lt_none. intros y Hy. apply Qle_trans with x; [exact E|]. apply sorted_head_le with r; assumption. }
        rewrite Hz. split; [intros i t Hi; lia|]. split; [|lia].
        intros [|i] t _ Ht; simpl in Ht; [inversion Ht; subst; exact E|].
        apply Qle_trans with x; [exact E|]. apply sorted_head_le with r; [exact Hs|]. eapply nth_error_In. exact Ht.
  Qed.

  Lemma count_lt_index : forall ts d k tk, sortedQ ts ->
    nth_error ts k = Some tk -> (tk < d)%Q ->
    (forall t', nth_error ts (S k) = Some t' -> (d <= t')%Q) ->
    count_lt ts d = S k.
  Proof.
    intros ts d k tk Hs Hk Hlt Hnext.
    destruct (count_lt_spec ts d Hs) as [H1 [H2 H3]].
    destruct (Nat.lt_trichotomy (count_lt ts d) (S k)) as [Hc|[Hc|Hc]]; [|exact Hc|].
    - exfalso. assert (Hge : (d <= tk)%Q) by (apply (H2 k); [lia|exact Hk]). exact (Qlt_not_le _ _ Hlt Hge).
    - exfalso. assert (Hlen : S k < length ts) by lia.
      destruct (nth_error ts (S k)) as [t'|] eqn:E; [|apply nth_error_None in E; lia].
      assert (Hlt' : (t' < d)%Q) by (apply (H1 (S k)); [lia|exact E]).
      exact (Qlt_not_le _ _ Hlt' (Hnext t' eq_refl)).
  Qed.

  (* ---------------- the leg formula ---------------- *)
  (* strictly after station k and up to station k+1, the position is the location of station k plus the
     depth difference times the deviation of leg k *)
  Lemma desurvey_on_leg collar (t : list station) d k tk tk1 l v p :
    sortedQ (depths_of t) ->
    nth_error (depths_of t) k = Some tk -> nth_error (depths_of t) (S k) = Some tk1 ->
    (tk < d)%Q -> (d <= tk1)%Q ->
    nth_error (legs dir t) k = Some (l, v) -> nth_error (locations_of collar (legs dir t)) k = Some p ->
    desurvey_on dir collar t d = Some (vadd p (vscale (d - tk)%Q v)).
  Proof.
    intros Hs Hk Hk1 Hlt Hle Hleg Hloc. unfold desurvey_on, desurvey_with.
    rewrite (count_lt_index (depths_of t) d k tk Hs Hk Hlt)
      by (intros t' Ht'; rewrite Hk1 in Ht'; inversion Ht'; subst; exact Hle).
    simpl Nat.pred.
    assert (Hkl : k < length (legs dir t)) by (apply nth_error_Some; congruence).
    replace (Nat.min k (length (legs dir t) - 1)) with k by lia.
    rewrite Hloc, Hk, Hleg. reflexivity.
  Qed.

  (* beyond the final survey the last leg's direction is continued *)
  Lemma desurvey_on_beyond collar (t : list station) d n tn l v p :
    sortedQ (depths_of t) -> length t = S (S n) ->
    nth_error (depths_of t) (S n) = Some tn -> (tn < d)%Q ->
    nth_error (legs dir t) n = Some (l, v) -> nth_error (locations_of collar (legs dir t)) (S n) = Some p ->
    desurvey_on dir collar t d = Some (vadd p (vscale (d - tn)%Q v)).
  Proof.
    intros Hs Hlen Hk Hlt Hleg Hloc. unfold desurvey_on, desurvey_with.
    rewrite (count_lt_index (depths_of t) d (S n) tn Hs Hk Hlt).
    - simpl Nat.pred. rewrite legs_length, Hlen.
      replace (Nat.min (S n) (S (S n) - 1 - 1)) with n by lia.
      rewrite Hloc, Hk, Hleg. reflexivity.
    - intros t' Ht'. assert (S (S n) < length (depths_of t)) by (apply nth_error_Some; congruence).
      rewrite depths_length in *. lia.
  Qed.

  (* ---------------- stations that share a depth share a location ---------------- *)
  Lemma leg_between (t : list station) k tk tk1 :
    nth_error (depths_of t) k = Some tk -> nth_error (depths_of t) (S k) = Some tk1 ->
    exists v, nth_error (legs dir t) k = Some ((tk1 - tk)%Q, v).
  Proof.
    intros Hk Hk1. apply depths_nth in Hk. apply depths_nth in Hk1.
    destruct Hk as [a0 Hk]. destruct Hk1 as [a1 Hk1].
    eexists. apply legs_nth; eassumption.
  Qed.

  Lemma equal_run collar (t : list station) : sortedQ (depths_of t) ->
    forall m j tj pj, nth_error (depths_of t) j = Some tj -> nth_error (locations_of collar (legs dir t)) j = Some pj ->
    forall tk, nth_error (depths_of t) (j + m) = Some tk -> (tj == tk)%Q ->
    exists pk, nth_error (locations_of collar (legs dir t)) (j + m) = Some pk /\ veq pk pj.
  Proof.
    intros Hs. induction m as [|m IH]; intros j tj pj Hj Hpj tk Hk Heq.
    - rewrite Nat.add_0_r in *. exists pj. split; [exact Hpj|apply veq_refl].
    - replace (j + S m) with (S (j + m)) in * by lia.
      assert (Hlen : j + m < length (depths_of t)).
      { assert (S (j + m) < length (depths_of t)) by (apply nth_error_Some; congruence). lia. }
      destruct (nth_error (depths_of t) (j + m)) as [tm|] eqn:Em; [|apply nth_error_None in Em; lia].
      assert (H1 : (tj <= tm)%Q) by (apply (sorted_nth_le (depths_of t) j (j + m)); try assumption; lia).
      assert (H2 : (tm <= tk)%Q) by (apply (sorted_nth_le (depths_of t) (j + m) (S (j + m))); try assumption; lia).
      assert (Htm : (tj == tm)%Q).
      { apply Qle_antisym; [exact H1|]. rewrite Heq. exact H2. }
      destruct (IH j tj pj Hj Hpj tm Em Htm) as [pm [Hpm Hveq]].
      destruct (leg_between t (j + m) tm tk Em Hk) as [v Hleg].
      destruct (locations_step collar _ _ _ _ _ Hpm Hleg) as [pk [Hpk Hstep]].
      exists pk. split; [exact Hpk|].
      eapply veq_trans; [exact Hstep|]. eapply veq_trans; [|exact Hveq].
      apply vadd_scale_zero. rewrite <- Htm, <- Heq. ring.
  Qed.

  (* desurveying the depth of station k gives the location of station k (whichever of several stations at that
     depth searchsorted lands on): together with the leg formula, the path is continuous at every station *)
  Lemma desurvey_on_station collar (t : list station) k tk pk :
    sortedQ (depths_of t) -> 2 <= length t ->
    nth_error (depths_of t) k = Some tk -> nth_error (locations_of collar (legs dir t)) k = Some pk ->
    exists p, desurvey_on dir collar t tk = Some p /\ veq p pk.
  Proof.
    intros Hs Hlen Hk Hpk.
    assert (Hklen : k < length t) by (rewrite <- depths_length; apply nth_error_Some; congruence).
    destruct (count_lt_spec (depths_of t) tk Hs) as [C1 [C2 C3]].
    assert (Hck : count_lt (depths_of t) tk <= k).
    { destruct (le_lt_dec (count_lt (depths_of t) tk) k) as [H|H]; [exact H|].
      exfalso. exact (Qlt_irrefl tk (C1 k tk H Hk)). }
    unfold desurvey_on, desurvey_with. destruct (count_lt (depths_of t) tk) as [|j] eqn:Ec; simpl Nat.pred.
    - (* no station before: we are at the first depth *)
      assert (H0len : 0 < length (depths_of t)) by (rewrite depths_length; lia).
      destruct (nth_error (depths_of t) 0) as [t0|] eqn:E0; [|apply nth_error_None in E0; lia].
      assert (Ht0 : (t0 == tk)%Q).
      { apply Qle_antisym; [apply (sorted_nth_le (depths_of t) 0 k); try assumption; lia|apply (C2 0); [lia|exact E0]]. }
      destruct (locations_zero collar (legs dir t)) as [p0 [Hp0 _]].
      destruct (equal_run collar t Hs k 0 t0 p0 E0 Hp0 tk Hk Ht0) as [pk' [Hpk' Hveq]].
      simpl in Hpk'. rewrite Hpk in Hpk'. inversion Hpk'; subst pk'.
      assert (Hl : 0 < length (legs dir t)) by (rewrite legs_length; lia).
      replace (Nat.min 0 (length (legs dir t) - 1)) with 0 by lia.
      destruct (nth_error (legs dir t) 0) as [[l v]|] eqn:El; [|apply nth_error_None in El; lia].
      rewrite Hp0. eexists. split; [reflexivity|].
      eapply veq_trans; [apply vadd_scale_zero; rewrite Ht0; ring|]. apply veq_sym. exact Hveq.
    - (* station j is the last one strictly above tk; station j+1 is at tk *)
      assert (Hjk : S j <= k) by lia.
      assert (Hjlen : j < length (depths_of t)) by (rewrite depths_length; lia).
      destruct (nth_error (depths_of t) j) as [tj|] eqn:Ej; [|apply nth_error_None in Ej; lia].
      assert (Hj1len : S j < length (depths_of t)) by (rewrite depths_length; lia).
      destruct (nth_error (depths_of t) (S j)) as [tj1|] eqn:Ej1; [|apply nth_error_None in Ej1; lia].
      assert (Htj1 : (tj1 == tk)%Q).
      { apply Qle_antisym; [apply (sorted_nth_le (depths_of t) (S j) k); try assumption|apply (C2 (S j)); [lia|exact Ej1]]. }
      destruct (leg_between t j tj tj1 Ej Ej1) as [v Hleg].
      assert (Hpjlen : j < length (locations_of collar (legs dir t))).
      { rewrite locations_of_length, legs_length. lia. }
      destruct (nth_error (locations_of collar (legs dir t)) j) as [pj|] eqn:Epj; [|apply nth_error_None in Epj; lia].
      destruct (locations_step collar _ _ _ _ _ Epj Hleg) as [pj1 [Hpj1 Hstep]].
      replace k with (S j + (k - S j)) in Hk, Hpk by lia.
      destruct (equal_run collar t Hs (k - S j) (S j) tj1 pj1 Ej1 Hpj1 tk Hk Htj1) as [pk' [Hpk' Hveq]].
      rewrite Hpk in Hpk'. inversion Hpk'; subst pk'.
      assert (Hjl : j < length (legs dir t)) by (apply nth_error_Some; congruence).
      replace (Nat.min j (length (legs dir t) - 1)) with j by lia.
      rewrite Hleg. eexists. split; [reflexivity|].
      eapply veq_trans; [|apply veq_sym; exact Hveq]. eapply veq_trans; [|apply veq_sym; exact Hstep].
      apply vadd_compat; [apply veq_refl|]. apply vscale_compat; [rewrite Htj1; reflexivity|apply veq_refl].
  Qed.

  (* ---------------- the real table: first station duplicated at depth 0 ---------------- *)
  Lemma augment_shape (s : list station) : s <> [] ->
    exists a, augment s = (0%Q, a) :: s /\ length (augment s) = S (length s)
              /\ depths_of (augment s) = 0%Q :: map fst s.
  Proof.
    destruct s as [|[t0 a0] r]; [intros H; contradiction|]. intros _. exists a0. repeat split.
  Qed.

  (* the position at depth zero is the collar *)
  Lemma collar_at_zero collar (s : list station) : survey_ok s ->
    exists p, desurvey dir collar s 0%Q = Some p /\ veq p collar.
  Proof.
    intros [Hne Hs]. destruct (augment_shape s Hne) as [a [Ha [Hlen Hd]]].
    unfold desurvey.
    destruct (locations_zero collar (legs dir (augment s))) as [p0 [Hp0 Hv0]].
    assert (H1 : sortedQ (depths_of (augment s))) by (rewrite Hd; exact Hs).
    assert (H2 : 2 <= length (augment s)) by (rewrite Hlen; destruct s; [contradiction|simpl; lia]).
    assert (H3 : nth_error (depths_of (augment s)) 0 = Some 0%Q) by (rewrite Hd; reflexivity).
    destruct (desurvey_on_station collar (augment s) 0 0%Q p0 H1 H2 H3 Hp0) as [p [Hp Hv]].
    exists p. split; [exact Hp|]. eapply veq_trans; eassumption.
  Qed.

  (* desurvey is total on every table with at least one row (no sortedness needed) *)
  Lemma count_lt_le_length ts d : count_lt ts d <= length ts.
  Proof.
    unfold count_lt. induction ts as [|x r IH]; simpl; [lia|]. destruct (Qltb x d); simpl; lia.
  Qed.

  Lemma desurvey_on_total collar (t : list station) d : 2 <= length t -> exists p, desurvey_on dir collar t d = Some p.
  Proof.
    intros Hlen. unfold desurvey_on, desurvey_with.
    pose proof (count_lt_le_length (depths_of t) d) as Hc. rewrite depths_length in Hc.
    set (il := Nat.pred (count_lt (depths_of t) d)).
    assert (Hil : il < length t) by (unfold il; lia).
    assert (Hl : length (legs dir t) = length t - 1) by apply legs_length.
    destruct (nth_error (locations_of collar (legs dir t)) il) as [p|] eqn:E1;
      [|apply nth_error_None in E1; rewrite locations_of_length in E1; lia].
    destruct (nth_error (depths_of t) il) as [t0|] eqn:E2; [|apply nth_error_None in E2; rewrite depths_length in E2; lia].
    destruct (nth_error (legs dir t) (Nat.min il (length (legs dir t) - 1))) as [[l v]|] eqn:E3;
      [|apply nth_error_None in E3; lia].
    eexists. reflexivity.
  Qed.

  Lemma desurvey_total collar (s : list station) d : s <> [] -> exists p, desurvey dir collar s d = Some p.
  Proof.
    intros Hne. destruct (augment_shape s Hne) as [a [_ [Hlen _]]].
    assert (H2 : 2 <= length (augment s)) by (rewrite Hlen; destruct s; [contradiction|simpl; lia]).
    unfold desurvey. exact (desurvey_on_total collar (augment s) d H2).
  Qed.
End Proofs.
