(* Proofs about Model/Enforcers.v (property C15): statelessness of the repaired objects, refutation for the
   pre-repair transcriptions. *)
From Coq Require Import String.
From GV Require Import Prelude.Base Model.PyVal Model.Enforcers Proofs.PyValProofs.
From GVgen Require Import PyLite_SharedUtils PyLite_UiUtils PyLite_Validators.
Local Open Scope string_scope. Local Open Scope list_scope.

(* ---------------------------------------------------------------- EnforcerPool *)
Definition pool_verdict (step : pool -> pv -> pool * res unit) (p : pool) (v : pv) : res unit := snd (step p v).
(* the verdict of a call does not depend on the calls made before on the same pool object *)
Definition PoolStateless (step : pool -> pv -> pool * res unit) : Prop :=
  forall es hist v, pool_verdict step (fst (pool_run step (fresh_pool es) hist)) v = pool_verdict step (fresh_pool es) v.

Lemma pool_enforce_from_enf s p v : p_enf (fst (pool_enforce_from s p v)) = p_enf p.
Proof.
  unfold pool_enforce_from. destruct (capture (p_enf p) v s) as [errs [x|]]; [reflexivity|].
  destruct (raise_errors errs); reflexivity.
Qed.

Lemma pool_run_enf step : (forall p v, p_enf (fst (step p v)) = p_enf p) ->
  forall hist p, p_enf (fst (pool_run step p hist)) = p_enf p.
Proof.
  intros H. induction hist as [|v r IH]; intros p; simpl; [reflexivity|].
  specialize (H p v). destruct (step p v) as [p' out]. specialize (IH p'). destruct (pool_run step p' r) as [p'' outs].
  simpl in *. congruence.
Qed.

Lemma pool_enforce_only_enf p q v : p_enf p = p_enf q -> snd (pool_enforce p v) = snd (pool_enforce q v).
Proof.
  intros E. unfold pool_enforce, pool_enforce_from. rewrite E.
  destruct (capture (p_enf q) v []) as [errs [x|]]; [reflexivity|]. destruct (raise_errors errs); reflexivity.
Qed.

Theorem pool_stateless : PoolStateless pool_enforce.
Proof.
  intros es hist v. unfold pool_verdict. apply pool_enforce_only_enf.
  rewrite pool_run_enf; [reflexivity|]. intros p w. apply pool_enforce_from_enf.
Qed.

(* whatever `_errors` holds when the call starts - not only what earlier calls of the model could have left there -
   the verdict is that of a fresh pool with the same enforcers *)
Theorem pool_stateless_any_state p v : snd (pool_enforce p v) = snd (pool_enforce (fresh_pool (p_enf p)) v).
Proof. apply pool_enforce_only_enf. reflexivity. Qed.

(* accept iff every enforcer's rule holds *)
Lemma capture_ok es v : forall errs,
  (forall e, In e es -> exists b, enf_rule e v = Ok b) ->
  exists extra, capture es v errs = (errs ++ extra, None) /\ (extra = [] <-> forall e, In e es -> enf_rule e v = Ok true).
Proof.
  induction es as [|e r IH]; intros errs H.
  - exists []. simpl. rewrite app_nil_r. split; [reflexivity|]. split; [intros _ e [] | reflexivity].
  - simpl. destruct (H e (or_introl eq_refl)) as [b Eb]. rewrite Eb.
    assert (Hr : forall e0, In e0 r -> exists b0, enf_rule e0 v = Ok b0) by (intros; apply H; right; assumption).
    destruct b.
    + destruct (IH errs Hr) as (extra & E1 & E2). exists extra. split; [exact E1|]. rewrite E2. split.
      * intros X e0 [<-|Hin]; [exact Eb | apply X; exact Hin].
      * intros X e0 Hin. apply X. right; exact Hin.
    + destruct (IH (errs ++ [enf_kind e]) Hr) as (extra & E1 & _). exists (enf_kind e :: extra). split.
      * rewrite E1. rewrite <- app_assoc. reflexivity.
      * split; [discriminate|]. intros X. specialize (X e (or_introl eq_refl)). congruence.
Qed.

Theorem pool_accept_iff es v :
  (forall e, In e es -> exists b, enf_rule e v = Ok b) ->
  (pool_verdict pool_enforce (fresh_pool es) v = Ok tt <-> forall e, In e es -> enf_rule e v = Ok true).
Proof.
  intros H. unfold pool_verdict, pool_enforce, pool_enforce_from. cbn [fresh_pool p_enf].
  destruct (capture_ok es v [] H) as (extra & E1 & E2). rewrite E1. cbn [app]. rewrite <- E2.
  destruct extra as [|k [|k2 r]]; cbn; split; intros X; try reflexivity; try discriminate.
Qed.

(* the pre-repair code: a stale aggregate makes a valid value fail *)
Theorem pool_old_refuted : ~ PoolStateless pool_enforce_old.
Proof.
  intros H. specialize (H [EType [TStr]; EValue [PStr "a"; PStr "b"]] [PInt 3] (PStr "a")).
  vm_compute in H. discriminate.
Qed.

(* ---------------------------------------------------------------- Parameter *)
Definition ParamStateless (step : param -> pv -> param * res unit) : Prop :=
  forall es hist v, snd (step (fst (param_run step (fresh_param es) hist)) v) = snd (step (fresh_param es) v).
(* a rejected value leaves the stored value unchanged, an accepted one is stored *)
Definition ParamRejectKeeps (step : param -> pv -> param * res unit) : Prop :=
  forall p v e, snd (step p v) = Raise e -> pm_val (fst (step p v)) = pm_val p.

Lemma param_set_enf p v : p_enf (pm_pool (fst (param_set p v))) = p_enf (pm_pool p).
Proof.
  unfold param_set. pose proof (pool_enforce_from_enf [] (pm_pool p) v) as H. unfold pool_enforce.
  destruct (pool_enforce_from [] (pm_pool p) v) as [pl r]. destruct r; exact H.
Qed.

Lemma param_run_enf : forall hist p, p_enf (pm_pool (fst (param_run param_set p hist))) = p_enf (pm_pool p).
Proof.
  induction hist as [|v r IH]; intros p; simpl; [reflexivity|].
  pose proof (param_set_enf p v) as H. destruct (param_set p v) as [p' out]. specialize (IH p').
  destruct (param_run param_set p' r) as [p'' outs]. simpl in *. congruence.
Qed.

Lemma param_set_verdict p v : snd (param_set p v) = snd (pool_enforce (pm_pool p) v).
Proof. unfold param_set. destruct (pool_enforce (pm_pool p) v) as [pl [[]|e]]; reflexivity. Qed.

Theorem param_stateless_any_state p v :
  snd (param_set p v) = snd (param_set {| pm_pool := fresh_pool (p_enf (pm_pool p)); pm_val := PNone |} v).
Proof. rewrite !param_set_verdict. apply pool_enforce_only_enf. reflexivity. Qed.

Theorem param_stateless : ParamStateless param_set.
Proof.
  intros es hist v. rewrite !param_set_verdict. apply pool_enforce_only_enf. rewrite param_run_enf. reflexivity.
Qed.

Theorem param_reject_keeps : ParamRejectKeeps param_set.
Proof.
  intros p v e. unfold param_set. destruct (pool_enforce (pm_pool p) v) as [pl [[]|x]]; simpl; [discriminate | reflexivity].
Qed.

Theorem param_accept_stores p v : snd (param_set p v) = Ok tt -> pm_val (fst (param_set p v)) = v.
Proof.
  unfold param_set. destruct (pool_enforce (pm_pool p) v) as [pl [[]|x]]; simpl; [reflexivity | discriminate].
Qed.

Theorem param_old_refuted : ~ ParamRejectKeeps param_set_old.
Proof.
  intros H. specialize (H (fresh_param [EType [TStr]]) (PInt 5) (Validation VType) eq_refl). vm_compute in H. discriminate.
Qed.

(* ---------------------------------------------------------------- InputValidation.validate_data *)
Lemma fold_res_inv {S A} (P : S -> Prop) (f : S -> A -> res S) :
  (forall s x s', P s -> f s x = Ok s' -> P s') ->
  forall l s s', P s -> fold_res f l s = Ok s' -> P s'.
Proof.
  intros H. induction l as [|x r IH]; intros s s' Hs E; simpl in E.
  - inversion E; subst; exact Hs.
  - destruct (f s x) as [s1|] eqn:E1; simpl in E; [|discriminate]. eapply IH; [eapply H; eassumption | exact E].
Qed.

(* the repaired validate_data never changes the rule table *)
Theorem validate_data_keeps_table W o vals data : fst (iv_validate_data W o vals data) = vals.
Proof.
  unfold iv_validate_data, iv_validate_data_gen. destruct vals; try reflexivity.
  match goal with |- context [fold_res ?F d ?S0] => set (F0 := F); set (s0 := S0) end.
  destruct (fold_res F0 d s0) as [[vals' oo]|e] eqn:E; [|reflexivity].
  assert (X : fst (vals', oo) = PDict d).
  { apply (fold_res_inv (fun s => fst s = PDict d) F0) with (l := d) (s := s0); [|reflexivity|exact E].
    intros [v1 o1] [param rules] [v2 o2] Hs Hstep. simpl in Hs. subst v1. unfold F0, iv_step in Hstep.
    repeat match type of Hstep with
    | bind ?m _ = Ok _ => let r := fresh "r" in destruct m as [r|] eqn:?; cbn [bind] in Hstep; [|discriminate]
    | (if ?c then _ else _) = Ok _ => destruct c eqn:?
    | Ok _ = Ok _ => inversion Hstep; subst; clear Hstep
    | Raise _ = Ok _ => discriminate
    | (let '(a, b) := ?x in _) = Ok _ => destruct x
    end; try reflexivity.
    all: repeat match goal with
    | H : bind ?m _ = Ok _ |- _ => let r := fresh "r" in destruct m as [r|] eqn:?; cbn [bind] in H; [|discriminate]
    | H : (if ?c then _ else _) = Ok _ |- _ => destruct c eqn:?
    | H : Ok _ = Ok _ |- _ => inversion H; subst; clear H
    | H : Raise _ = Ok _ |- _ => discriminate
    end; try reflexivity. }
  simpl in X. subst vals'. destruct oo; reflexivity.
Qed.

(* the verdicts of a history of validate_data calls on one object are the verdicts of the same calls on fresh objects *)
Definition IvStateless (step : pv -> pv -> pv * res pv) : Prop :=
  forall vals datas, iv_run step vals datas = map (fun d => snd (step vals d)) datas.

Theorem validate_data_stateless W o : IvStateless (iv_validate_data W o).
Proof.
  intros vals datas. induction datas as [|d r IH]; simpl; [reflexivity|].
  pose proof (validate_data_keeps_table W o vals d) as H.
  destruct (iv_validate_data W o vals d) as [v' out]. simpl in *. subst v'. rewrite IH. reflexivity.
Qed.

Definition oneof_rules : pv :=
  PDict [(PStr "one_of", PStr "g"); (PStr "types", PList [PType TStr; PType TNoneType])].
Definition oneof_table : pv := PDict [(PStr "a", oneof_rules); (PStr "b", oneof_rules)].
Definition all_none : pv := PDict [(PStr "a", PNone); (PStr "b", PNone)].
Definition no_world : world := {| w_ents := []; w_desc := [] |}.
Definition no_opts : iv_opts := {| ignore_requirements := false; ignore_list := [] |}.

Theorem oneof_old_refuted : ~ IvStateless (iv_validate_data_gen true no_world no_opts).
Proof.
  intros H. specialize (H oneof_table [all_none; all_none]). vm_compute in H. discriminate.
Qed.

Example oneof_repaired_rejects_twice :
  iv_run (iv_validate_data no_world no_opts) oneof_table [all_none; all_none]
  = [Raise (Validation VAtLeastOne); Raise (Validation VAtLeastOne)].
Proof. vm_compute. reflexivity. Qed.
