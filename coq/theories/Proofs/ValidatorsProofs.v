(* Proofs about the PyLite translation of geoh5py/shared/validators.py (coq/generated/PyLite_Validators.v) and the fixed
   validator order of InputValidation.validate (Model/Enforcers.v): each validator is characterised by a declarative
   constraint, the chain accepts iff all declared constraints hold  (property C15). *)
From Coq Require Import String.
From GV Require Import Prelude.Base Model.PyVal Model.UiRules Model.Enforcers Proofs.PyValProofs.
From GVgen Require Import PyLite_SharedUtils PyLite_UiUtils PyLite_Validators.
Local Open Scope string_scope. Local Open Scope list_scope.

(* ---------------------------------------------------------------- declarative constraints *)
Definition type_objs (ts : list pty) : pv := PList (map PType ts).

Definition elems_for_types (v : pv) (ts : list pty) : list pv :=
  match v with
  | PList l => if existsb (pty_eqb TList) ts then [v] else l
  | PTuple l => l
  | _ => [v]
  end.
Definition types_ok (v : pv) (ts : list pty) : bool := forallb (fun x => isinst x ts) (elems_for_types v ts).

Lemma isinst_dyn_types v ts : isinst_dyn v (type_objs ts) = Ok (isinst v ts).
Proof.
  unfold isinst_dyn, type_objs. rewrite all_res_pure.
  assert (E : forallb is_type (map PType ts) = true) by (induction ts; simpl; auto).
  rewrite E. cbn [bind]. clear E. f_equal. unfold isinst. induction ts as [|t r IH]; simpl; [reflexivity|]. rewrite IH. reflexivity.
Qed.

Lemma fold_res_ext_unit {A} (f : unit -> A -> res unit) (c : A -> bool) (e : exn) l :
  (forall x, f tt x = if c x then Raise e else Ok tt) ->
  fold_res f l tt = fold_res (fun (_ : unit) x => if c x then Raise e else Ok tt) l tt.
Proof. intros H. induction l as [|x r IH]; simpl; [reflexivity|]. rewrite H. destruct (c x); simpl; [reflexivity|exact IH]. Qed.

Lemma fold_check {A} (c : A -> bool) (e : exn) l :
  fold_res (fun (_ : unit) x => if c x then Raise e else Ok tt) l tt = if existsb c l then Raise e else Ok tt.
Proof. induction l as [|x r IH]; simpl; [reflexivity|]. destruct (c x); simpl; [reflexivity | exact IH]. Qed.

Lemma contains_type_list ts : contains (PType TList) (PTuple (map PType ts)) = Ok (existsb (pty_eqb TList) ts).
Proof. simpl. f_equal. induction ts as [|t r IH]; simpl; [reflexivity|]. rewrite IH. reflexivity. Qed.

Lemma existsb_tlist ts :
  existsb (fun b : pv => match b with PType TList => true | _ => false end) (map PType ts) = existsb (pty_eqb TList) ts.
Proof. induction ts as [|t r IH]; simpl; [reflexivity|]. rewrite IH. destruct t; reflexivity. Qed.

Lemma TypeValidator_eq name v ts :
  TypeValidator_validate name v (type_objs ts) = if types_ok v ts then Ok PNone else Raise (Validation VType).
Proof.
  unfold TypeValidator_validate, type_objs. cbn [is_type isinst existsb isinst1 negb orb].
  assert (L : forall l, (_ <- fold_res (fun (_ : unit) v_val => t <- (t0 <- isinst_dyn v_val (PList (map PType ts)) ;; Ok (negb t0)) ;;
                          if t then Raise (Validation VType) else Ok tt) l tt ;; Ok PNone)
              = if forallb (fun x => isinst x ts) l then Ok PNone else Raise (Validation VType)).
  { intros l. rewrite (fold_res_ext_unit _ (fun x => negb (isinst x ts)) (Validation VType)).
    - rewrite fold_check. induction l as [|x r IH]; simpl; [reflexivity|]. destruct (isinst x ts); simpl; [exact IH | reflexivity].
    - intros x. fold (type_objs ts). rewrite isinst_dyn_types. reflexivity. }
  unfold types_ok, elems_for_types, iterable.
  destruct v; cbn -[isinst_dyn fold_res]; try rewrite L; try reflexivity.
  match goal with |- context [existsb ?F (map PType ?T)] =>
    replace (existsb F (map PType T)) with (existsb (pty_eqb TList) T)
      by (clear; induction T as [|t r IH]; simpl; [reflexivity | rewrite IH; destruct t; reflexivity]);
    destruct (existsb (pty_eqb TList) T); cbn -[isinst_dyn fold_res]; try rewrite L; cbn; reflexivity end.
Qed.

Definition elems_for_values (v : pv) : list pv :=
  match v with PList l | PTuple l => l | _ => [v] end.
Definition values_ok (v : pv) (allowed : list pv) : bool :=
  is_none v || forallb (fun x => is_none x || existsb (py_eq x) allowed) (elems_for_values v).
Definition is_seq (v : pv) : option (list pv) := match v with PList l | PTuple l => Some l | _ => None end.

Lemma ValueValidator_eq name v valid allowed : is_seq valid = Some allowed ->
  ValueValidator_validate name v valid = if values_ok v allowed then Ok PNone else Raise (Validation VValue).
Proof.
  intros Hs. unfold ValueValidator_validate, values_ok.
  assert (C : forall x, contains x valid = Ok (existsb (py_eq x) allowed)).
  { intros x. destruct valid; try discriminate; inversion Hs; subst; reflexivity. }
  assert (L : forall l, (_ <- fold_res (fun (_ : unit) v_val =>
                 t <- (if negb (is_none v_val) then (t0 <- contains v_val valid ;; Ok (negb t0)) else Ok false) ;;
                 if t then Raise (Validation VValue) else Ok tt) l tt ;; Ok PNone)
              = if forallb (fun x => is_none x || existsb (py_eq x) allowed) l then Ok PNone else Raise (Validation VValue)).
  { intros l. rewrite (fold_res_ext_unit _ (fun x => negb (is_none x || existsb (py_eq x) allowed)) (Validation VValue)).
    - rewrite fold_check. induction l as [|x r IH]; simpl; [reflexivity|].
      destruct (is_none x || existsb (py_eq x) allowed); simpl; [exact IH | reflexivity].
    - intros x. rewrite C. destruct (is_none x); cbn; [reflexivity|]. destruct (existsb (py_eq x) allowed); reflexivity. }
  destruct v as [ | | | | | | k ? | | | | | ]; try destruct k; cbn -[fold_res contains]; try rewrite L; cbn; try reflexivity.
Qed.

Definition uuid_ok (v : pv) : bool := match v with PStr s => match parse_uuid s with Some _ => true | None => false end | _ => true end.
Lemma UUIDValidator_eq name v valid :
  UUIDValidator_validate name v valid = if uuid_ok v then Ok PNone else Raise (Validation VUUID).
Proof.
  unfold UUIDValidator_validate, uuid_ok. destruct v; try reflexivity; try (destruct k; reflexivity).
  cbn. unfold py_uuid_of, uuid_of_value. destruct (parse_uuid s); reflexivity.
Qed.

Lemma OptionalValidator_eq name v valid :
  OptionalValidator_validate name v valid = if is_none v && negb (truthy valid) then Raise (Validation VOptional) else Ok PNone.
Proof. reflexivity. Qed.
Lemma RequiredValidator_eq name v valid :
  RequiredValidator_validate name v valid = if is_none v && truthy valid then Raise (Validation VRequired) else Ok PNone.
Proof. reflexivity. Qed.

(* ---------------------------------------------------------------- the chain *)
Definition skip_key (o : iv_opts) (name : pv) (key : string) : bool :=
  (String.eqb key "required" && ignore_requirements o) || existsb (py_eq name) (ignore_list o).

Fixpoint types_of (l : list pv) : list pty :=
  match l with PType t :: r => t :: types_of r | _ :: r => types_of r | [] => [] end.
Definition seq_of (v : pv) : list pv := match is_seq v with Some l => l | None => [] end.

Definition uid_of (v : pv) : option N := match v with PUuid u => Some u | PEnt _ u => Some u | _ => None end.
Definition assoc_ok (W : world) (v valid : pv) : bool :=
  match valid, uid_of v with
  | PWs _, Some u => w_has W u
  | PEnt KEntity p, Some u => existsb (N.eqb u) (w_descendants W p)
  | _, _ => true
  end.
Definition pg_ok (v valid : pv) : bool :=
  match v with PEnt (KPropGroup t) _ => py_eq (PStr t) valid | _ => true end.
Definition shape_ok (v valid : pv) : bool :=
  match v with
  | PNone => true
  | PList l => py_eq (PTuple [PInt (Z.of_nat (length l))]) valid
  | _ => py_eq (PTuple [PInt 1]) valid
  end.

Definition rule (key : string) (rules : alist) : option pv := dict_find (PStr key) rules.

(* rule tables as _validations_from_uijson / the user write them, for the value at hand *)
Definition wf_rules (v : pv) (rules : alist) : bool :=
  match rule "one_of" rules with None => true | Some _ => false end
  && match rule "types" rules with Some (PList l) => forallb is_type l | Some _ => false | None => true end
  && match rule "values" rules with Some x => match is_seq x with Some _ => true | None => false end | None => true end
  && match rule "association" rules with
     | Some PNone | Some (PList _) | Some (PEnt KEntity _) | Some (PWs _) | None => true
     | Some _ => false
     end
  && match rule "property_group_type" rules with
     | Some _ => match v with PNone | PEnt (KPropGroup _) _ => true | _ => false end
     | None => true
     end.

(* the declared constraints, one by one *)
Definition none_allowed (o : iv_opts) (name : pv) (rules : alist) : bool :=
  match rule "required" rules with Some r => skip_key o name "required" || negb (truthy r) | None => true end
  && match rule "optional" rules with Some r => skip_key o name "optional" || truthy r | None => true end.
Definition constraint_ok (W : world) (o : iv_opts) (name v : pv) (rules : alist) (key : string) : bool :=
  match rule key rules with
  | None => true
  | Some valid =>
      skip_key o name key ||
      (if String.eqb key "required" then negb (is_none v && truthy valid)
       else if String.eqb key "one_of" then true
       else if String.eqb key "optional" then negb (is_none v && negb (truthy valid))
       else if String.eqb key "types" then match valid with PList l => types_ok v (types_of l) | _ => true end
       else if String.eqb key "uuid" then uuid_ok v
       else if String.eqb key "association" then assoc_ok W v valid
       else if String.eqb key "property_group_type" then pg_ok v valid
       else if String.eqb key "values" then values_ok v (seq_of valid)
       else shape_ok v valid)
  end.

(* accepted iff: None only where allowed, type, well-formed identifier, membership, property-group type, choice list, shape *)
Definition chain_ok (W : world) (o : iv_opts) (name v : pv) (rules : alist) : bool :=
  (negb (is_none v) || none_allowed o name rules)
  && constraint_ok W o name v rules "types" && constraint_ok W o name v rules "uuid"
  && constraint_ok W o name v rules "association" && constraint_ok W o name v rules "property_group_type"
  && constraint_ok W o name v rules "values" && constraint_ok W o name v rules "shape".

Lemma types_of_objs l : forallb is_type l = true -> PList l = type_objs (types_of l).
Proof.
  unfold type_objs. intros H. f_equal. induction l as [|x r IH]; simpl in *; [reflexivity|].
  apply andb_true_iff in H as [H1 H2]. destruct x; try discriminate. simpl. rewrite <- IH by assumption. reflexivity.
Qed.

Lemma fold_decided {A} (f : unit -> A -> res unit) (ok : A -> bool) l :
  (forall x, In x l -> f tt x = Ok tt /\ ok x = true \/ (exists k, f tt x = Raise (Validation k)) /\ ok x = false) ->
  (fold_res f l tt = Ok tt /\ forallb ok l = true) \/ ((exists k, fold_res f l tt = Raise (Validation k)) /\ forallb ok l = false).
Proof.
  induction l as [|x r IH]; intros H; simpl; [left; split; reflexivity|].
  destruct (H x (or_introl eq_refl)) as [[E O]|[[k E] O]]; rewrite E, O; simpl.
  - apply IH. intros y Hy. apply H. right; exact Hy.
  - right. split; [exists k; reflexivity | reflexivity].
Qed.

Lemma step_decided W o name v rules key : wf_rules v rules = true -> In key validator_order ->
  let step := (fun (_ : unit) key =>
         present <- contains (PStr key) (PDict rules) ;;
         if negb present || (String.eqb key "required" && ignore_requirements o) || existsb (py_eq name) (ignore_list o)
         then Ok tt
         else valid <- getitem (PDict rules) (PStr key) ;; _ <- run_validator W key name v valid ;; Ok tt) in
  step tt key = Ok tt /\ constraint_ok W o name v rules key = true \/
  (exists k, step tt key = Raise (Validation k)) /\ constraint_ok W o name v rules key = false.
Proof.
  intros Wf Hin step. unfold step, constraint_ok, rule. rewrite contains_dict_str, getitem_dict_str. cbn [bind]. unfold dict_has.
  unfold wf_rules, rule in Wf. repeat (apply andb_true_iff in Wf as [Wf ?]).
  destruct (dict_find (PStr key) rules) as [valid|] eqn:Ek; [|left; split; reflexivity].
  cbn [negb orb]. unfold skip_key.
  destruct ((String.eqb key "required" && ignore_requirements o) || existsb (py_eq name) (ignore_list o)) eqn:Es;
    [left; split; reflexivity|]. cbn [orb bind].
  simpl in Hin. unfold run_validator.
  repeat (destruct Hin as [<-|Hin]; [cbn [String.eqb Ascii.eqb Bool.eqb]|]); try contradiction.
  - rewrite RequiredValidator_eq. destruct (is_none v && truthy valid); cbn; [right; split; [eexists; reflexivity|reflexivity] | left; split; reflexivity].
  - rewrite Ek in Wf. discriminate.
  - rewrite OptionalValidator_eq. destruct (is_none v && negb (truthy valid)); cbn; [right; split; [eexists; reflexivity|reflexivity] | left; split; reflexivity].
  - rewrite Ek in H2. destruct valid; try discriminate.
    pose proof (TypeValidator_eq name v (types_of l)) as X. rewrite <- (types_of_objs l H2) in X. rewrite X.
    destruct (types_ok v (types_of l)); cbn; [left; split; reflexivity | right; split; [eexists; reflexivity|reflexivity]].
  - rewrite UUIDValidator_eq. destruct (uuid_ok v); cbn; [left; split; reflexivity | right; split; [eexists; reflexivity|reflexivity]].
  - rewrite Ek in H0. unfold AssociationValidator_validate, assoc_ok, uid_of.
    destruct valid as [ | | | | | | k ? | | | | | ]; try discriminate; try (left; split; reflexivity).
    + destruct k; try discriminate. destruct v; cbn; try (left; split; reflexivity).
      * destruct (existsb (N.eqb u0) (w_descendants W u)); cbn; [left; split; reflexivity | right; split; [eexists; reflexivity|reflexivity]].
      * destruct (existsb (N.eqb u0) (w_descendants W u)); cbn; [left; split; reflexivity | right; split; [eexists; reflexivity|reflexivity]].
    + destruct v; cbn; try (left; split; reflexivity).
      * destruct (w_has W u); cbn; [left; split; reflexivity | right; split; [eexists; reflexivity|reflexivity]].
      * destruct (w_has W u); cbn; [left; split; reflexivity | right; split; [eexists; reflexivity|reflexivity]].
  - rewrite Ek in H. unfold PropertyGroupValidator_validate, pg_ok.
    destruct v as [ | | | | | | k ? | | | | | ]; try discriminate; [left; split; reflexivity|].
    destruct k; try discriminate. destruct (py_eq (PStr pgtype) valid); cbn; [left; split; reflexivity | right; split; [eexists; reflexivity|reflexivity]].
  - rewrite Ek in H1. unfold seq_of. destruct (is_seq valid) as [allowed|] eqn:Ea; [|discriminate].
    rewrite (ValueValidator_eq name v valid allowed Ea). destruct (values_ok v allowed); cbn; [left; split; reflexivity | right; split; [eexists; reflexivity|reflexivity]].
  - unfold ShapeValidator_validate, shape_ok.
    destruct v; cbn -[py_eq]; try (left; split; reflexivity);
      match goal with |- context [py_eq ?a valid] => destruct (py_eq a valid) end; cbn;
      try (left; split; reflexivity); right; split; try (eexists; reflexivity); reflexivity.
Qed.

Lemma chain_ok_forallb W o name v rules : wf_rules v rules = true ->
  forallb (constraint_ok W o name v rules) validator_order = chain_ok W o name v rules.
Proof.
  intros Wf. unfold wf_rules in Wf. repeat (apply andb_true_iff in Wf as [Wf ?]).
  unfold validator_order, chain_ok, none_allowed. cbn [forallb].
  assert (E1 : constraint_ok W o name v rules "one_of" = true).
  { unfold constraint_ok. destruct (rule "one_of" rules); [discriminate | reflexivity]. }
  rewrite E1. unfold constraint_ok at 1 2. cbn [String.eqb Ascii.eqb Bool.eqb].
  repeat match goal with |- context [constraint_ok W o name v rules ?k] => generalize (constraint_ok W o name v rules k); intro end.
  destruct (rule "required" rules) as [r|]; destruct (rule "optional" rules) as [q|];
    destruct (is_none v); destruct (skip_key o name "required"); destruct (skip_key o name "optional");
    try destruct (truthy r); try destruct (truthy q);
    repeat match goal with x : bool |- _ => destruct x end; reflexivity.
Qed.

Theorem accept_iff W o name v rules : wf_rules v rules = true ->
  (iv_validate W o name v (PDict rules) = Ok PNone <-> chain_ok W o name v rules = true)
  /\ (chain_ok W o name v rules = false -> exists k, iv_validate W o name v (PDict rules) = Raise (Validation k)).
Proof.
  intros Wf. rewrite <- (chain_ok_forallb W o name v rules Wf). unfold iv_validate.
  match goal with |- context [fold_res ?F validator_order tt] => set (F0 := F) end.
  destruct (fold_decided F0 (constraint_ok W o name v rules) validator_order) as [[E O]|[[k E] O]].
  { intros key Hin. apply (step_decided W o name v rules key Wf Hin). }
  - rewrite E, O. cbn. split; [split; reflexivity | discriminate].
  - rewrite E, O. cbn. split; [split; discriminate | intros _; exists k; reflexivity].
Qed.
