(* Proofs about Model/Registry.v, part 2 (property C06): uniqueness, look-ups, identifier rule of copies, witnesses. *)
From GV Require Import Prelude.Base Model.Registry Proofs.RegistryProofs.

(* a live, successfully registered instance *)
Definition owner (w : st) (e : nat) : Prop := e < n w /\ alive w e = true /\ ereg (E w e) = true.

(* ================= per-kind uniqueness ================= *)
Theorem per_kind_unique_good w e1 e2 :
  good w -> owner w e1 -> owner w e2 ->
  ews (E w e1) = ews (E w e2) -> ekind (E w e1) = ekind (E w e2) -> euid (E w e1) = euid (E w e2) -> e1 = e2.
Proof.
  intros G [H1 [A1 R1]] [H2 [A2 R2]] Hws Hk Hu.
  pose proof (g_owner G e1 H1 A1 R1) as I1. pose proof (g_owner G e2 H2 A2 R2) as I2.
  rewrite Hws, Hk, Hu in I1.
  apply (dget_In _ _ _ (g_nodup G _ _)) in I1. apply (dget_In _ _ _ (g_nodup G _ _)) in I2. congruence.
Qed.

(* ================= look-ups ================= *)
Lemma set_R_sub_facts w ws k d :
  (forall p, In p d -> In p (R w ws k)) ->
  (forall u' e, In (u', e) (R w ws k) -> alive w e = true -> In (u', e) d) ->
  (forall ws' k' u' e, In (u', e) (R (set_R w ws k d) ws' k') -> In (u', e) (R w ws' k'))
  /\ (forall ws' k' u' e, In (u', e) (R w ws' k') -> alive w e = true -> In (u', e) (R (set_R w ws k d) ws' k')).
Proof.
  intros Hsub Hkeep. split; intros ws' k' u' e; destruct (pair_dec ws ws' k k') as [E0|E0].
  - inversion E0; subst. rewrite R_set_R_same. apply Hsub.
  - rewrite R_set_R_other by exact E0. tauto.
  - inversion E0; subst. rewrite R_set_R_same. apply Hkeep.
  - rewrite R_set_R_other by exact E0. tauto.
Qed.

Lemma find_in_spec w ws k u :
  good w ->
  let w1 := fst (find_in w ws k u) in
  dead w1 = dead w /\ n w1 = n w /\ E w1 = E w
  /\ (forall x, snd (find_in w ws k u) = Some x <-> In (u, x) (R w ws k) /\ alive w x = true)
  /\ (forall ws' k' u' e, In (u', e) (R w1 ws' k') -> In (u', e) (R w ws' k'))
  /\ (forall ws' k' u' e, In (u', e) (R w ws' k') -> alive w e = true -> In (u', e) (R w1 ws' k')).
Proof.
  intros G. unfold find_in, get_clean_ref.
  destruct (dget (R w ws k) u) as [e0|] eqn:Eg.
  - destruct (alive w e0) eqn:Ea; cbn [fst snd].
    + split; [reflexivity|]. split; [reflexivity|]. split; [reflexivity|]. split.
      * intros x. split.
        -- intros Hx. inversion Hx; subst. split; [apply (dget_In _ _ _ (g_nodup G ws k)); exact Eg | exact Ea].
        -- intros [Hx _]. apply (dget_In _ _ _ (g_nodup G ws k)) in Hx. congruence.
      * apply set_R_sub_facts; tauto.
    + split; [reflexivity|]. split; [reflexivity|]. split; [reflexivity|]. split.
      * intros x. split; [discriminate|].
        intros [Hx Hal]. apply (dget_In _ _ _ (g_nodup G ws k)) in Hx. rewrite Hx in Eg. inversion Eg; subst. congruence.
      * apply set_R_sub_facts; [intros p; apply In_ddel|].
        intros u' e Hin Hal. destruct (Nat.eq_dec u' u) as [->|Hne]; [|apply In_ddel_other; assumption].
        apply (dget_In _ _ _ (g_nodup G ws k)) in Hin. rewrite Hin in Eg. inversion Eg; subst. congruence.
  - cbn [fst snd]. split; [reflexivity|]. split; [reflexivity|]. split; [reflexivity|]. split.
    + intros x. split; [discriminate|]. intros [Hx _]. apply (dget_In _ _ _ (g_nodup G ws k)) in Hx. congruence.
    + apply set_R_sub_facts; tauto.
Qed.

(* the order in which Workspace.find_entity asks the registries *)
Definition lookup_rank (k : kind) : nat := match k with KGroup => 0 | KData => 1 | KObject => 2 | KPG => 3 | KType => 4 end.

(* e owns identifier u in workspace ws, with a kind that get_entity asks *)
Definition holds (w : st) (ws u e : nat) : Prop :=
  owner w e /\ ews (E w e) = ws /\ euid (E w e) = u /\ ekind (E w e) <> KType.

Lemma entry_holds w ws k u x : good w -> k <> KType -> In (u, x) (R w ws k) -> alive w x = true -> holds w ws u x /\ ekind (E w x) = k.
Proof.
  intros G Hk Hin Hal. destruct (g_entry G ws k u x Hin) as [A [B [C [D F]]]].
  split; [|exact C]. split; [split; [exact A | split; assumption]|]. split; [exact D | split; [exact B | congruence]].
Qed.

Lemma holds_entry w ws u e : good w -> holds w ws u e -> In (u, e) (R w ws (ekind (E w e))).
Proof. intros G [[A [B C]] [D [F _]]]. pose proof (g_owner G e A B C) as H. rewrite D, F in H. exact H. Qed.

Theorem get_entity_spec w ws u :
  good w ->
  (forall x, snd (get_entity w ws u) = Some x ->
     holds w ws u x /\ forall e, holds w ws u e -> lookup_rank (ekind (E w x)) <= lookup_rank (ekind (E w e)))
  /\ (snd (get_entity w ws u) = None -> forall e, ~ holds w ws u e).
Proof.
  intros G. unfold get_entity.
  destruct (find_in_spec w ws KGroup u G) as [D1 [N1 [E1 [S1 [Sub1 Keep1]]]]].
  pose proof (good_find_in w ws KGroup u G) as G1.
  destruct (find_in w ws KGroup u) as [w1 r1]. simpl in *.
  assert (Al1 : forall e, alive w1 e = alive w e) by (intros e; unfold alive; rewrite D1; reflexivity).
  (* every holder has an entry; classify by kind *)
  assert (Hk : forall e, holds w ws u e ->
            (ekind (E w e) = KGroup \/ ekind (E w e) = KData \/ ekind (E w e) = KObject \/ ekind (E w e) = KPG)).
  { intros e [_ [_ [_ Hne]]]. destruct (ekind (E w e)); tauto. }
  destruct r1 as [x|].
  { split; [|discriminate]. intros y Hy. inversion Hy; subst y. destruct (proj1 (S1 x) eq_refl) as [Hin Hal].
    destruct (entry_holds w ws KGroup u x G ltac:(discriminate) Hin Hal) as [Hh Hkx]. split; [exact Hh|].
    intros e _. rewrite Hkx. simpl. lia. }
  assert (No1 : forall e, holds w ws u e -> ekind (E w e) <> KGroup).
  { intros e He Hke. pose proof (holds_entry w ws u e G He) as Hin. rewrite Hke in Hin.
    destruct He as [[_ [Hal _]] _]. pose proof (proj2 (S1 e) (conj Hin Hal)). discriminate. }
  destruct (find_in_spec w1 ws KData u G1) as [D2 [N2 [E2 [S2 [Sub2 Keep2]]]]].
  pose proof (good_find_in w1 ws KData u G1) as G2.
  destruct (find_in w1 ws KData u) as [w2 r2]. simpl in *.
  assert (Al2 : forall e, alive w2 e = alive w e) by (intros e; unfold alive; rewrite D2, D1; reflexivity).
  destruct r2 as [x|].
  { split; [|discriminate]. intros y Hy. inversion Hy; subst y. destruct (proj1 (S2 x) eq_refl) as [Hin Hal].
    rewrite Al1 in Hal. apply Sub1 in Hin.
    destruct (entry_holds w ws KData u x G ltac:(discriminate) Hin Hal) as [Hh Hkx]. split; [exact Hh|].
    intros e He. rewrite Hkx. pose proof (No1 e He). destruct (Hk e He) as [K|[K|[K|K]]]; rewrite K in *; simpl; try lia; congruence. }
  assert (No2 : forall e, holds w ws u e -> ekind (E w e) <> KData).
  { intros e He Hke. pose proof (holds_entry w ws u e G He) as Hin. rewrite Hke in Hin.
    destruct He as [[_ [Hal _]] _]. apply (Keep1 ws KData u e) in Hin; [|exact Hal].
    assert (snd (w2, @None nat) = Some e) by (apply S2; split; [exact Hin | rewrite Al1; exact Hal]). discriminate. }
  destruct (find_in_spec w2 ws KObject u G2) as [D3 [N3 [E3 [S3 [Sub3 Keep3]]]]].
  pose proof (good_find_in w2 ws KObject u G2) as G3.
  destruct (find_in w2 ws KObject u) as [w3 r3]. simpl in *.
  assert (Al3 : forall e, alive w3 e = alive w e) by (intros e; unfold alive; rewrite D3, D2, D1; reflexivity).
  destruct r3 as [x|].
  { split; [|discriminate]. intros y Hy. inversion Hy; subst y. destruct (proj1 (S3 x) eq_refl) as [Hin Hal].
    rewrite Al2 in Hal. apply Sub2, Sub1 in Hin.
    destruct (entry_holds w ws KObject u x G ltac:(discriminate) Hin Hal) as [Hh Hkx]. split; [exact Hh|].
    intros e He. rewrite Hkx. pose proof (No1 e He). pose proof (No2 e He).
    destruct (Hk e He) as [K|[K|[K|K]]]; rewrite K in *; simpl; try lia; congruence. }
  assert (No3 : forall e, holds w ws u e -> ekind (E w e) <> KObject).
  { intros e He Hke. pose proof (holds_entry w ws u e G He) as Hin. rewrite Hke in Hin.
    destruct He as [[_ [Hal _]] _]. apply (Keep1 ws KObject u e) in Hin; [|exact Hal].
    apply (Keep2 ws KObject u e) in Hin; [|rewrite Al1; exact Hal].
    assert (snd (w3, @None nat) = Some e) by (apply S3; split; [exact Hin | rewrite Al2; exact Hal]). discriminate. }
  destruct (find_in_spec w3 ws KPG u G3) as [D4 [N4 [E4 [S4 [Sub4 Keep4]]]]].
  destruct (find_in w3 ws KPG u) as [w4 r4]. simpl in *.
  destruct r4 as [x|].
  - split; [|discriminate]. intros y Hy. inversion Hy; subst y. destruct (proj1 (S4 x) eq_refl) as [Hin Hal].
    rewrite Al3 in Hal. apply Sub3, Sub2, Sub1 in Hin.
    destruct (entry_holds w ws KPG u x G ltac:(discriminate) Hin Hal) as [Hh Hkx]. split; [exact Hh|].
    intros e He. rewrite Hkx. pose proof (No1 e He). pose proof (No2 e He). pose proof (No3 e He).
    destruct (Hk e He) as [K|[K|[K|K]]]; rewrite K in *; simpl; try lia; congruence.
  - split; [discriminate|]. intros _ e He.
    pose proof (No1 e He). pose proof (No2 e He). pose proof (No3 e He).
    destruct (Hk e He) as [K|[K|[K|K]]]; try congruence.
    pose proof (holds_entry w ws u e G He) as Hin. rewrite K in Hin.
    destruct He as [[_ [Hal _]] _]. apply (Keep1 ws KPG u e) in Hin; [|exact Hal].
    apply (Keep2 ws KPG u e) in Hin; [|rewrite Al1; exact Hal].
    apply (Keep3 ws KPG u e) in Hin; [|rewrite Al2; exact Hal].
    assert (snd (w4, @None nat) = Some e) by (apply S4; split; [exact Hin | rewrite Al3; exact Hal]). discriminate.
Qed.

Theorem lookup_returns_owner_good w e :
  good w -> owner w e -> ekind (E w e) <> KType ->
  (forall e', holds w (ews (E w e)) (euid (E w e)) e' -> lookup_rank (ekind (E w e)) <= lookup_rank (ekind (E w e'))) ->
  snd (get_entity w (ews (E w e)) (euid (E w e))) = Some e.
Proof.
  intros G Ho Hk Hfirst.
  assert (He : holds w (ews (E w e)) (euid (E w e)) e) by (split; [exact Ho | repeat split; try reflexivity; exact Hk]).
  destruct (get_entity_spec w (ews (E w e)) (euid (E w e)) G) as [HS HN].
  destruct (snd (get_entity w (ews (E w e)) (euid (E w e)))) as [x|] eqn:Er.
  - destruct (HS x eq_refl) as [Hx Hmin]. f_equal.
    pose proof (Hmin e He) as L1. pose proof (Hfirst x Hx) as L2.
    assert (Hkk : ekind (E w x) = ekind (E w e)).
    { destruct (ekind (E w x)), (ekind (E w e)); simpl in L1, L2; try reflexivity; lia. }
    destruct Hx as [Ox [Wx [Ux _]]]. apply (per_kind_unique_good w x e G Ox Ho); congruence.
  - exfalso. exact (HN eq_refl e He).
Qed.

(* ================= the identifier rule of copies ================= *)
Theorem copy_uid_spec w ws u :
  good w ->
  ((exists e, holds w ws u e) -> snd (copy_uid w ws u) = fresh w /\ forall e, euid (E w e) <> fresh w)
  /\ ((forall e, ~ holds w ws u e) -> snd (copy_uid w ws u) = u).
Proof.
  intros G. unfold copy_uid. destruct (get_entity_spec w ws u G) as [HS HN].
  destruct (get_entity_fresh w ws u) as [Hf _].
  destruct (get_entity w ws u) as [w1 [x|]]; simpl in *.
  - split.
    + intros _. split; [exact Hf|]. intros e He. pose proof (g_fresh G e). lia.
    + intros Hno. exfalso. destruct (HS x eq_refl) as [Hx _]. exact (Hno x Hx).
  - split; [|reflexivity]. intros [e He]. exfalso. exact (HN eq_refl e He).
Qed.

(* ================= one type per class: find_or_create reuses the live registered type ================= *)
Theorem type_reused w ws cls t :
  good w -> In (tuid cls, t) (R w ws KType) -> alive w t = true ->
  snd (find_or_create_type w ws cls) = t /\ n (fst (find_or_create_type w ws cls)) = n w.
Proof.
  intros G Hin Hal. unfold find_or_create_type, get_clean_ref.
  apply (dget_In _ _ _ (g_nodup G ws KType)) in Hin. rewrite Hin, Hal. split; reflexivity.
Qed.

(* ================= a refused creation: with the rollback the refused instance is detached and dies ================= *)
Lemma not_in_remove_one x l : ~ In x (remove_one x l).
Proof. unfold remove_one. intros H. apply filter_In in H as [_ H]. rewrite Nat.eqb_refl in H. discriminate. Qed.

Theorem refused_rollback_detached c w ws k cls par u ty props w' x :
  rollback c = true -> construct c w ws k cls par u ty props = (w', Refused, x) ->
  x = n w /\ ~ In x (ech (E w' par)) /\ ~ In x (epgs (E w' par)) /\ alive w' x = false.
Proof.
  intros Hc. unfold construct. destruct (alloc w (blank u k ws cls par ty)) as [w1 y] eqn:Ea.
  assert (Hy : y = n w) by (inversion Ea; reflexivity).
  destruct (insert_once (alive (add_child w1 par y)) (R (add_child w1 par y) ws k) u y) as [d|].
  - destruct (memb y (ech (E _ par))); intros H; inversion H.
  - rewrite Hc. set (w2 := upd (add_child w1 par y) par (fun r => with_ch r (remove_one y (ech r)) (remove_one y (epgs r)))).
    assert (Hch : ech (E w2 par) = remove_one y (ech (E (add_child w1 par y) par))
                  /\ epgs (E w2 par) = remove_one y (epgs (E (add_child w1 par y) par))).
    { unfold w2. simpl. rewrite Nat.eqb_refl. split; reflexivity. }
    destruct Hch as [Hch Hpg].
    assert (Hm : memb y (ech (E w2 par)) = false).
    { destruct (memb y (ech (E w2 par))) eqn:Em; [|reflexivity]. apply memb_In in Em. rewrite Hch in Em.
      exfalso. exact (not_in_remove_one y _ Em). }
    rewrite Hm. intros H. inversion H; subst w' x. split; [exact Hy|].
    split; [|split].
    + change (E (kill w2 [y])) with (E w2). rewrite Hch. apply not_in_remove_one.
    + change (E (kill w2 [y])) with (E w2). rewrite Hpg. apply not_in_remove_one.
    + unfold alive, kill. simpl dead. apply negb_false_iff. apply memb_In.
      apply in_or_app. left. simpl.
      match goal with |- context [memb y ?l] => destruct (memb y l) eqn:Ed end.
      * apply in_or_app. left. apply memb_In. exact Ed.
      * apply in_or_app. right. left. reflexivity.
Qed.

(* ================= statements over all histories ================= *)
Theorem per_kind_unique c h e1 e2 :
  let w := run c init h in
  owner w e1 -> owner w e2 ->
  ews (E w e1) = ews (E w e2) -> ekind (E w e1) = ekind (E w e2) -> euid (E w e1) = euid (E w e2) -> e1 = e2.
Proof. intros w. apply per_kind_unique_good. apply reachable_good. Qed.

Theorem lookup_returns_owner c h e :
  let w := run c init h in
  owner w e -> ekind (E w e) <> KType ->
  (forall e', holds w (ews (E w e)) (euid (E w e)) e' -> lookup_rank (ekind (E w e)) <= lookup_rank (ekind (E w e'))) ->
  step c w (OLookup (ews (E w e)) e) = (fst (get_entity w (ews (E w e)) (euid (E w e))), Found e).
Proof.
  intros w Ho Hk Hfirst. unfold step. destruct Ho as [Hn Ho].
  apply Nat.ltb_lt in Hn as Hb. rewrite Hb.
  pose proof (lookup_returns_owner_good w e (reachable_good c h) (conj Hn Ho) Hk Hfirst) as Hr.
  destruct (get_entity w (ews (E w e)) (euid (E w e))) as [w1 r]. simpl in Hr. subst r. reflexivity.
Qed.

Theorem lookup_result_is_an_owner c h ws u x :
  let w := run c init h in
  snd (get_entity w ws u) = Some x -> holds w ws u x.
Proof. intros w Hx. apply (get_entity_spec w ws u (reachable_good c h)). exact Hx. Qed.

Theorem copy_identifier_rule c h ws u :
  let w := run c init h in
  ((exists e, holds w ws u e) -> snd (copy_uid w ws u) = fresh w /\ forall e, euid (E w e) <> fresh w)
  /\ ((forall e, ~ holds w ws u e) -> snd (copy_uid w ws u) = u).
Proof. intros w. apply copy_uid_spec. apply reachable_good. Qed.

(* a copy of a live registered entity into its own workspace: the copy itself gets the fresh identifier *)
Lemma holds_self w e : owner w e -> ekind (E w e) <> KType -> holds w (ews (E w e)) (euid (E w e)) e.
Proof. intros Ho Hk. split; [exact Ho | repeat split; try reflexivity; exact Hk]. Qed.

(* ================= witnesses ================= *)
Definition cross_kind_unique_full (c : cfg) : Prop :=
  forall h e1 e2, let w := run c init h in
    owner w e1 -> owner w e2 -> ekind (E w e1) <> KType -> ekind (E w e2) <> KType ->
    ews (E w e1) = ews (E w e2) -> euid (E w e1) = euid (E w e2) -> e1 = e2.

(* Points 5 (type 4), then ContainerGroup 7 (type 6) created under the identifier of 5: accepted *)
Definition h_cross : list op := [OCreate 0 true 1 UFresh; OCreate 0 false 1 (USame 5)].

Theorem cross_kind_unique_refuted : forall c, ~ cross_kind_unique_full c.
Proof.
  intros c F. assert (H : 5 = 7); [|discriminate].
  destruct c as [[]].
  - apply (F h_cross 5 7); vm_compute; try reflexivity; try discriminate; repeat split; try reflexivity; try lia.
  - apply (F h_cross 5 7); vm_compute; try reflexivity; try discriminate; repeat split; try reflexivity; try lia.
Qed.

Lemma cross_kind_lookup_masks_the_object :
  forall c, snd (step c (run c init h_cross) (OLookup 0 5)) = Found 7.
Proof. intros [[]]; vm_compute; reflexivity. Qed.

Definition refused_creation_no_side_effect_full (c : cfg) : Prop :=
  forall h a w', let w := run c init h in
    step c w a = (w', Refused) -> forall e, e < n w -> ech (E w' e) = ech (E w e).

Definition h_dup : list op := [OCreate 0 true 1 UFresh].

Lemma h_dup_result :
  snd (step pinned (run pinned init h_dup) (OCreate 0 true 1 (USame 5))) = Refused
  /\ ech (E (fst (step pinned (run pinned init h_dup) (OCreate 0 true 1 (USame 5)))) 1) = [5; 6]
  /\ ech (E (run pinned init h_dup) 1) = [5] /\ n (run pinned init h_dup) = 6.
Proof. vm_compute. repeat split; reflexivity. Qed.

Theorem refused_creation_no_side_effect_refuted : ~ refused_creation_no_side_effect_full pinned.
Proof.
  intros F. destruct h_dup_result as [Ho [Hch [Hch0 Hn]]].
  destruct (step pinned (run pinned init h_dup) (OCreate 0 true 1 (USame 5))) as [w' o] eqn:Hs.
  simpl in Ho, Hch. subst o.
  assert (H1 : 1 < n (run pinned init h_dup)) by (rewrite Hn; lia).
  pose proof (F h_dup (OCreate 0 true 1 (USame 5)) w' Hs 1 H1) as H.
  rewrite Hch, Hch0 in H. discriminate.
Qed.

Lemma refused_creation_repaired_example :
  let w := run repaired init h_dup in
  let w' := fst (step repaired w (OCreate 0 true 1 (USame 5))) in
  snd (step repaired w (OCreate 0 true 1 (USame 5))) = Refused
  /\ ech (E w' 1) = ech (E w 1) /\ ech (E w 1) = [5] /\ alive w' 6 = false /\ flat w' 0 = flat w 0.
Proof. vm_compute. repeat split; reflexivity. Qed.

(* non-vacuity: a history with a same-workspace and a cross-workspace copy of an object with a data set and a group *)
Definition h_copy : list op :=
  [OCreate 0 true 1 UFresh; OData 5 UFresh; OPg 5 [6] UFresh; OCopy 5 1; OCopy 5 3].

Example copy_example :
  forall c, let w := run c init h_copy in
  n w = 15
  /\ map (fun e => uidrep w (euid (E w e))) [5; 6; 7; 8; 9; 10; 12; 13; 14] = [5; 6; 7; 8; 9; 10; 5; 6; 7]
  /\ etype (E w 5) = etype (E w 8) /\ etype (E w 12) = 11.
Proof. intros [[]]; vm_compute; repeat split; reflexivity. Qed.
