(* Proofs about Model/Merge.v (property C16). *)
From GV Require Import Prelude.Base Model.Merge.

Lemma voff_0 ins : voff ins 0 = 0.
Proof. reflexivity. Qed.

Lemma voff_cons a r k : voff (a :: r) (S k) = length (vs a) + voff r k.
Proof. unfold voff, merge_verts. simpl. rewrite app_length. reflexivity. Qed.

Lemma coff_cons a r k : coff (a :: r) (S k) = length (cs a) + coff r k.
Proof. unfold coff. simpl. rewrite app_length. reflexivity. Qed.

Lemma merge_verts_cons a r : merge_verts (a :: r) = vs a ++ merge_verts r.
Proof. reflexivity. Qed.

Lemma verts_nth : forall ins k i v,
  nth_error ins k = Some i -> v < length (vs i) ->
  nth_error (merge_verts ins) (voff ins k + v) = nth_error (vs i) v.
Proof.
  induction ins as [|a r IH]; intros [|k] i v Hk Hv; simpl in Hk; try discriminate.
  - inversion Hk; subst. rewrite voff_0, merge_verts_cons. simpl. apply nth_error_app1; assumption.
  - rewrite voff_cons, merge_verts_cons.
    rewrite nth_error_app2 by lia.
    replace (length (vs a) + voff r k + v - length (vs a)) with (voff r k + v) by lia.
    apply IH; assumption.
Qed.

Lemma cells_from_nth : forall ins prev k i j c,
  nth_error ins k = Some i -> nth_error (cs i) j = Some c ->
  nth_error (merge_cells_spec_from prev ins) (coff ins k + j)
  = Some (map (fun v => v + (prev + voff ins k)) c).
Proof.
  induction ins as [|a r IH]; intros prev [|k] i j c Hk Hj; simpl in Hk; try discriminate.
  - inversion Hk; subst. simpl. rewrite voff_0, Nat.add_0_r.
    rewrite nth_error_app1 by (rewrite map_length; apply nth_error_Some; congruence).
    erewrite map_nth_error by eassumption. reflexivity.
  - simpl merge_cells_spec_from. rewrite coff_cons, voff_cons.
    rewrite nth_error_app2 by (rewrite map_length; lia).
    rewrite map_length.
    replace (length (cs a) + coff r k + j - length (cs a)) with (coff r k + j) by lia.
    rewrite (IH (prev + length (vs a)) k i j c Hk Hj).
    f_equal. apply map_ext. intros v. lia.
Qed.

Lemma merge_cells_spec_from_length : forall ins prev,
  length (merge_cells_spec_from prev ins) = length (concat (map cs ins)).
Proof.
  induction ins as [|a r IH]; intros prev; simpl; [reflexivity|].
  rewrite !app_length, map_length, IH. reflexivity.
Qed.

Lemma voff_le : forall ins k i, nth_error ins k = Some i -> voff ins k + length (vs i) <= length (merge_verts ins).
Proof.
  induction ins as [|a r IH]; intros [|k] i Hk; simpl in Hk; try discriminate.
  - inversion Hk; subst. rewrite voff_0, merge_verts_cons, app_length. lia.
  - rewrite voff_cons, merge_verts_cons, app_length. specialize (IH k i Hk). lia.
Qed.

(* every output cell corresponding to input cell c of input k connects the same coordinates *)
Lemma merged_cell_same_coords : forall ins k i j c,
  nth_error ins k = Some i -> nth_error (cs i) j = Some c -> cell_ok (length (vs i)) c ->
  exists c', nth_error (merge_cells_spec ins) (coff ins k + j) = Some c'
          /\ length c' = length c
          /\ map (nth_error (merge_verts ins)) c' = map (nth_error (vs i)) c
          /\ cell_ok (length (merge_verts ins)) c'.
Proof.
  intros ins k i j c Hk Hj Hok.
  exists (map (fun v => v + (0 + voff ins k)) c). split; [unfold merge_cells_spec; apply (cells_from_nth ins 0 k i j c Hk Hj)|].
  split; [apply map_length|]. split.
  - rewrite map_map. apply map_ext_in. intros v Hv.
    unfold cell_ok in Hok. rewrite Forall_forall in Hok. specialize (Hok v Hv).
    simpl. rewrite Nat.add_comm. apply verts_nth; assumption.
  - unfold cell_ok in *. rewrite Forall_forall in *. intros w Hw.
    apply in_map_iff in Hw as [v [<- Hv]]. specialize (Hok v Hv).
    pose proof (voff_le ins k i Hk). lia.
Qed.

(* every output cell comes from exactly one input cell: position p < total decomposes as coff k + j *)
Lemma cells_decompose : forall ins p, p < length (concat (map cs ins)) ->
  exists k i j, nth_error ins k = Some i /\ j < length (cs i) /\ p = coff ins k + j.
Proof.
  induction ins as [|a r IH]; intros p Hp; simpl in Hp; [lia|].
  rewrite app_length in Hp.
  destruct (Nat.lt_ge_cases p (length (cs a))) as [Hlt|Hge].
  - exists 0, a, p. repeat split; auto.
  - destruct (IH (p - length (cs a))) as [k [i [j [Hk [Hj Hp']]]]]; [lia|].
    exists (S k), i, j. repeat split; auto. rewrite coff_cons. lia.
Qed.

(* ---- the code's offset rule coincides with the specification when every input but the last has its last
        vertex referenced by some cell ---- *)
Definition good (i : inp) : Prop := tail_referenced i /\ concat (cs i) <> [].

Lemma max_list_map_add : forall l p, l <> [] -> max_list (map (fun v => v + p) l) = max_list l + p.
Proof.
  induction l as [|x r IH]; intros p H; [congruence|].
  destruct r as [|y r'].
  - simpl. lia.
  - change (max_list (map (fun v => v + p) (x :: y :: r'))) with (Nat.max (x + p) (max_list (map (fun v => v + p) (y :: r')))).
    rewrite IH by discriminate.
    change (max_list (x :: y :: r')) with (Nat.max x (max_list (y :: r'))). lia.
Qed.

Lemma concat_map_map {A B} (f : A -> B) (ll : list (list A)) : concat (map (map f) ll) = map f (concat ll).
Proof. induction ll as [|l r IH]; simpl; [reflexivity|]. rewrite map_app, IH. reflexivity. Qed.

Lemma code_eq_spec_from : forall ins prev,
  Forall good (removelast ins) -> merge_cells_from prev ins = merge_cells_spec_from prev ins.
Proof.
  induction ins as [|a r IH]; intros prev H; [reflexivity|].
  cbn [merge_cells_from merge_cells_spec_from]. f_equal.
  destruct r as [|b r']; [reflexivity|].
  change (removelast (a :: b :: r')) with (a :: removelast (b :: r')) in H.
  inversion H as [|? ? [Ht Hne] Hr]; subst.
  rewrite concat_map_map, max_list_map_add by assumption.
  unfold tail_referenced in Ht.
  replace (max_list (concat (cs a)) + prev + 1) with (prev + length (vs a)) by lia.
  apply IH. assumption.
Qed.

Lemma code_eq_spec : forall ins, Forall good (removelast ins) -> merge_cells ins = merge_cells_spec ins.
Proof. intros. apply code_eq_spec_from. assumption. Qed.

(* ---- and it does not in general: an input whose last vertex is used by no cell ---- *)
Definition witness : list inp :=
  [ {| vs := [(0,0,0); (1,0,0); (2,0,0); (3,0,0)]%Z; cs := [[0;1];[1;2]]; ds := [] |};
    {| vs := [(0,1,0); (1,1,0); (2,1,0)]%Z; cs := [[0;1];[1;2]]; ds := [] |} ].

(* full-strength statement of the cell part of C16 for the code's merge_cells *)
Definition C16_cells_full : Prop := forall ins k i j c,
  Forall inp_ok ins ->
  nth_error ins k = Some i -> nth_error (cs i) j = Some c ->
  exists c', nth_error (merge_cells ins) (coff ins k + j) = Some c'
          /\ map (nth_error (merge_verts ins)) c' = map (nth_error (vs i)) c.

Lemma cells_full_refuted : ~ C16_cells_full.
Proof.
  intros H.
  assert (Hok : Forall inp_ok witness) by (repeat constructor).
  destruct (H witness 1 {| vs := [(0,1,0); (1,1,0); (2,1,0)]%Z; cs := [[0;1];[1;2]]; ds := [] |} 0 [0;1] Hok eq_refl eq_refl)
    as [c' [Hc Hm]].
  vm_compute in Hc. inversion Hc; subst. vm_compute in Hm. discriminate.
Qed.

(* ====================================================================================================== *)
(* merge_data: values land at the right offsets, no-data elsewhere                                         *)
(* ====================================================================================================== *)

Lemma label_eqb_eq : forall a b : label, label_eqb a b = true <-> a = b.
Proof.
  intros [[[n1 r1] t1] c1] [[[n2 r2] t2] c2]. unfold label_eqb. split.
  - intros H. apply andb_true_iff in H as [H Hc]. apply andb_true_iff in H as [H Ht]. apply andb_true_iff in H as [Hn Hr].
    apply Nat.eqb_eq in Hn. apply Nat.eqb_eq in Ht. apply Bool.eqb_prop in Hc.
    assert (r1 = r2).
    { destruct r1, r2; simpl in Hr; try discriminate; try reflexivity. apply Nat.eqb_eq in Hr. congruence. }
    congruence.
  - intros H. inversion H; subst. rewrite !Nat.eqb_refl, Bool.eqb_reflx.
    destruct r2; simpl; rewrite ?Nat.eqb_refl; reflexivity.
Qed.

Lemma label_eqb_refl : forall a, label_eqb a a = true.
Proof. intros. apply label_eqb_eq. reflexivity. Qed.

Lemma label_eqb_neq : forall a b, a <> b -> label_eqb a b = false.
Proof. intros a b H. destruct (label_eqb a b) eqn:E; [apply label_eqb_eq in E; contradiction|reflexivity]. Qed.

Lemma lookup_set_same : forall l v d v0, lookup l d = Some v0 -> lookup l (set l v d) = Some v.
Proof.
  induction d as [|[k w] r IH]; intros v0 H; simpl in *; [discriminate|].
  destruct (label_eqb l k) eqn:E; simpl; rewrite E; [reflexivity|]. eapply IH; eassumption.
Qed.

Lemma lookup_set_other : forall l l' v d, l' <> l -> lookup l' (set l v d) = lookup l' d.
Proof.
  induction d as [|[k w] r IH]; intros Hne; simpl; [reflexivity|].
  destruct (label_eqb l k) eqn:E; simpl.
  - apply label_eqb_eq in E; subst k. rewrite (label_eqb_neq _ _ Hne). reflexivity.
  - destruct (label_eqb l' k); [reflexivity|]. apply IH; assumption.
Qed.

Lemma lookup_app_new : forall l v d, lookup l d = None -> lookup l (d ++ [(l, v)]) = Some v.
Proof.
  induction d as [|[k w] r IH]; intros H; simpl in *; [rewrite label_eqb_refl; reflexivity|].
  destruct (label_eqb l k); [discriminate|]. apply IH; assumption.
Qed.

Lemma lookup_app_other : forall l l' v d, l' <> l -> lookup l' (d ++ [(l, v)]) = lookup l' d.
Proof.
  induction d as [|[k w] r IH]; intros H; simpl; [rewrite (label_eqb_neq _ _ H); reflexivity|].
  destruct (label_eqb l' k); [reflexivity|]. apply IH; assumption.
Qed.

Definition lcell (l : label) : bool := let '(_, _, _, c) := l in c.
Definition lren (l : label) : option nat := let '(_, r, _, _) := l in r.
Definition shape (nv nc : nat) (c : bool) : nat := if c then nc else nv.
Definition cnt (st : mstate) (c : bool) : nat := if c then ccount st else vcount st.
Definition blank_from (v : vals) (p : nat) : Prop := forall q, p <= q -> q < length v -> nth_error v q = Some None.

Lemma all_none_slice : forall (v : vals) s n, blank_from v s -> s + n <= length v -> all_none (slice v s n) = true.
Proof.
  intros v s n Hb Hl. unfold all_none. apply forallb_forall. intros x Hx.
  apply In_nth_error in Hx as [q Hq]. unfold slice in Hq.
  assert (q < n).
  { assert (q < length (firstn n (skipn s v))) by (apply nth_error_Some; congruence). rewrite firstn_length in *. lia. }
  rewrite nth_error_firstn_lt in Hq by assumption. rewrite nth_error_skipn_add in Hq.
  rewrite Hb in Hq by lia. inversion Hq. reflexivity.
Qed.

Lemma blank_repeat : forall n p, blank_from (repeat None n) p.
Proof.
  intros n p q _ Hq. rewrite repeat_length in Hq.
  apply nth_error_repeat. assumption.
Qed.

(* one data set: when the target slice of an existing entry is blank, no renaming happens and the values are spliced in *)
Lemma data_step_spec : forall nv nc st ind d,
  let l0 := lbl0 d in let start := cnt st (dcell d) in let n := length (dvals d) in
  (forall v, lookup l0 (md st) = Some v -> blank_from v start /\ length v = shape nv nc (dcell d)) ->
  start + n <= shape nv nc (dcell d) ->
  exists v0,
    (lookup l0 (md st) = Some v0 \/ (lookup l0 (md st) = None /\ v0 = repeat None (shape nv nc (dcell d))))
    /\ lookup l0 (md (data_step nv nc st ind d)) = Some (splice v0 start (dvals d))
    /\ (forall l', l' <> l0 -> lookup l' (md (data_step nv nc st ind d)) = lookup l' (md st))
    /\ vcount (data_step nv nc st ind d) = vcount st /\ ccount (data_step nv nc st ind d) = ccount st.
Proof.
  intros nv nc st ind d l0 start n Hb Hroom.
  unfold data_step. fold l0. fold n.
  replace (if dcell d then ccount st else vcount st) with start by reflexivity.
  replace (if dcell d then nc else nv) with (shape nv nc (dcell d)) by reflexivity.
  destruct (lookup l0 (md st)) as [v|] eqn:E.
  - destruct (Hb v eq_refl) as [Hbl Hlen].
    rewrite all_none_slice by (try assumption; lia).
    cbn iota. rewrite E. cbn iota. rewrite E. exists v. split; [left; reflexivity|]. simpl.
    split; [eapply lookup_set_same; eassumption|].
    split; [intros l' Hne; apply lookup_set_other; assumption|]. split; reflexivity.
  - cbn iota. rewrite E. cbn iota.
    assert (HH : lookup l0 (md st ++ [(l0, repeat None (shape nv nc (dcell d)))]) = Some (repeat None (shape nv nc (dcell d))))
      by (apply lookup_app_new; assumption).
    rewrite HH.
    exists (repeat None (shape nv nc (dcell d))). split; [right; split; reflexivity|]. simpl.
    split; [eapply lookup_set_same; apply lookup_app_new; assumption|].
    split; [|split; reflexivity].
    intros l' Hne. rewrite lookup_set_other by assumption. apply lookup_app_other; assumption.
Qed.

Lemma blank_from_mono : forall v p p', blank_from v p -> p <= p' -> blank_from v p'.
Proof. intros v p p' H Hle q Hq Hl. apply H; lia. Qed.

Lemma slice_splice_before : forall (v w : vals) s s' n',
  s' + n' <= s -> s + length w <= length v -> slice (splice v s w) s' n' = slice v s' n'.
Proof.
  intros v w s s' n' H1 H2. unfold slice, splice.
  rewrite skipn_app, firstn_length, firstn_app.
  rewrite skipn_length, firstn_length.
  replace (n' - (Nat.min s (length v) - s')) with 0 by lia. rewrite firstn_O, app_nil_r.
  rewrite skipn_firstn_comm, firstn_firstn. f_equal. lia.
Qed.

Lemma blank_splice : forall (v w : vals) s p,
  blank_from v s -> s + length w <= length v -> s + length w <= p -> blank_from (splice v s w) p.
Proof.
  intros v w s p Hb Hl Hp q Hq Hlen. rewrite splice_length in Hlen by assumption.
  rewrite nth_error_splice_out by (try assumption; right; lia). apply Hb; lia.
Qed.

Section MergeData.
Variables nv nc : nat.

Definition isize (i : inp) (c : bool) : nat := if c then length (cs i) else length (vs i).
Definition total (l : list inp) (c : bool) : nat := if c then length (concat (map cs l)) else length (merge_verts l).
Definition doff (l : list inp) (k : nat) (c : bool) : nat := if c then coff l k else voff l k.

Definition wf_inp (i : inp) : Prop :=
  NoDup (map lbl0 (ds i)) /\ Forall (fun d => length (dvals d) = isize i (dcell d)) (ds i).

Lemma total_app : forall l i c, total (l ++ [i]) c = total l c + isize i c.
Proof.
  intros l i [|]; unfold total, isize, merge_verts; rewrite map_app, concat_app, app_length; simpl;
    rewrite app_nil_r; reflexivity.
Qed.

Lemma doff_total : forall l c, doff l (length l) c = total l c.
Proof. intros l [|]; unfold doff, total, coff, voff; rewrite firstn_all; reflexivity. Qed.

Lemma doff_app : forall l i k c, k <= length l -> doff (l ++ [i]) k c = doff l k c.
Proof.
  intros l i k [|] H; unfold doff, coff, voff; rewrite firstn_app;
    replace (k - length l) with 0 by lia; rewrite firstn_O, app_nil_r; reflexivity.
Qed.

Lemma doff_le : forall l k i c, nth_error l k = Some i -> doff l k c + isize i c <= total l c.
Proof.
  intros l k i c H. destruct c; unfold doff, total, isize.
  - revert k i H. induction l as [|a r IH]; intros [|k] i H; simpl in H; try discriminate.
    + inversion H; subst. unfold coff. simpl. rewrite app_length. lia.
    + rewrite coff_cons. simpl. rewrite app_length. specialize (IH k i H). lia.
  - apply voff_le; assumption.
Qed.

Record GInv (done : list inp) (st : mstate) : Prop := {
  g_v : vcount st = total done false;
  g_c : ccount st = total done true;
  g_wf : forall l v, lookup l (md st) = Some v ->
         lren l = None /\ length v = shape nv nc (lcell l) /\ blank_from v (cnt st (lcell l));
  g_rec : forall k i d, nth_error done k = Some i -> In d (ds i) ->
          exists v, lookup (lbl0 d) (md st) = Some v
                 /\ slice v (doff done k (dcell d)) (length (dvals d)) = dvals d
}.

Record IInv (done : list inp) (i : inp) (st0 : mstate) (pr : list dat) (st : mstate) : Prop := {
  i_v : vcount st = vcount st0;
  i_c : ccount st = ccount st0;
  i_wf : forall l v, lookup l (md st) = Some v ->
         lren l = None /\ length v = shape nv nc (lcell l)
         /\ blank_from v (cnt st0 (lcell l) + isize i (lcell l))
         /\ (~ In l (map lbl0 pr) -> blank_from v (cnt st0 (lcell l)));
  i_rec : forall k i' d, nth_error done k = Some i' -> In d (ds i') ->
          exists v, lookup (lbl0 d) (md st) = Some v
                 /\ slice v (doff done k (dcell d)) (length (dvals d)) = dvals d;
  i_cur : forall d, In d pr ->
          exists v, lookup (lbl0 d) (md st) = Some v
                 /\ slice v (cnt st0 (dcell d)) (length (dvals d)) = dvals d
}.

Lemma cnt_eq : forall st st0 c, vcount st = vcount st0 -> ccount st = ccount st0 -> cnt st c = cnt st0 c.
Proof. intros st st0 [|] H1 H2; unfold cnt; assumption. Qed.

Lemma lcell_lbl0 : forall d, lcell (lbl0 d) = dcell d.
Proof. reflexivity. Qed.

Lemma iinv_step : forall done i st0 pr st ind d,
  Forall wf_inp done ->
  GInv done st0 ->
  IInv done i st0 pr st ->
  ~ In (lbl0 d) (map lbl0 pr) ->
  length (dvals d) = isize i (dcell d) ->
  cnt st0 (dcell d) + isize i (dcell d) <= shape nv nc (dcell d) ->
  IInv done i st0 (pr ++ [d]) (data_step nv nc st ind d).
Proof.
  intros done i st0 pr st ind d Hwfd HG HI Hfresh Hlen Hroom.
  destruct HI as [Hv Hc Hwf Hrec Hcur].
  assert (Hcnt : cnt st (dcell d) = cnt st0 (dcell d)) by (apply cnt_eq; assumption).
  destruct (data_step_spec nv nc st ind d) as [v0 [Hv0 [Hnew [Hoth [Hv' Hc']]]]].
  { intros v Hl. destruct (Hwf _ _ Hl) as [_ [Hlen' [_ Hb]]]. rewrite lcell_lbl0 in *.
    split; [rewrite Hcnt; apply Hb; assumption | assumption]. }
  { rewrite Hcnt, Hlen. assumption. }
  rewrite Hcnt in Hnew.
  (* facts about the previous content v0 of the target entry *)
  assert (Hv0len : length v0 = shape nv nc (dcell d)).
  { destruct Hv0 as [Hl | [_ ->]]; [destruct (Hwf _ _ Hl) as [_ [H _]]; exact H | apply repeat_length]. }
  assert (Hv0blank : blank_from v0 (cnt st0 (dcell d))).
  { destruct Hv0 as [Hl | [_ ->]]; [destruct (Hwf _ _ Hl) as [_ [_ [_ H]]]; apply H; assumption | apply blank_repeat]. }
  assert (Hfit : cnt st0 (dcell d) + length (dvals d) <= length v0) by (rewrite Hv0len, Hlen; assumption).
  constructor.
  - congruence.
  - congruence.
  - intros l v Hl. destruct (label_eqb l (lbl0 d)) eqn:E.
    + apply label_eqb_eq in E; subst l. rewrite Hnew in Hl. inversion Hl; subst v. rewrite lcell_lbl0.
      split; [reflexivity|]. split; [rewrite splice_length by assumption; assumption|]. split.
      * apply blank_splice; try assumption. rewrite Hlen. lia.
      * intros Hn. exfalso. apply Hn. rewrite map_app. apply in_or_app. right. left. reflexivity.
    + assert (Hne : l <> lbl0 d) by (intro; subst; rewrite label_eqb_refl in E; discriminate).
      rewrite Hoth in Hl by assumption. destruct (Hwf _ _ Hl) as [H1 [H2 [H3 H4]]].
      repeat split; try assumption. intros Hn. apply H4. intros Hin. apply Hn.
      rewrite map_app. apply in_or_app. left. assumption.
  - intros k i' d' Hk Hd'. destruct (Hrec k i' d' Hk Hd') as [v [Hl Hs]].
    destruct (label_eqb (lbl0 d') (lbl0 d)) eqn:E.
    + apply label_eqb_eq in E. rewrite E in *.
      assert (v0 = v) by (destruct Hv0 as [H|[H _]]; congruence). subst v0.
      exists (splice v (cnt st0 (dcell d)) (dvals d)). split; [assumption|].
      assert (Hdc : dcell d' = dcell d) by (unfold lbl0 in E; congruence).
      rewrite <- Hs at 2. rewrite Hdc. apply slice_splice_before; [|assumption].
      pose proof (doff_le done k i' (dcell d) Hk) as Hle.
      assert (length (dvals d') = isize i' (dcell d)).
      { rewrite Forall_forall in Hwfd. destruct (Hwfd i' (nth_error_In _ _ Hk)) as [_ Hall].
        rewrite Forall_forall in Hall. rewrite (Hall d' Hd'). rewrite Hdc. reflexivity. }
      destruct HG as [Gv Gc _ _]. unfold cnt. destruct (dcell d); [rewrite Gc | rewrite Gv]; lia.
    + assert (Hne : lbl0 d' <> lbl0 d) by (intro HH; rewrite HH, label_eqb_refl in E; discriminate).
      exists v. split; [rewrite Hoth by assumption; assumption | assumption].
  - intros d' Hd'. apply in_app_or in Hd' as [Hd'|[<-|[]]].
    + destruct (Hcur d' Hd') as [v [Hl Hs]].
      assert (Hne : lbl0 d' <> lbl0 d).
      { intros HH. apply Hfresh. rewrite <- HH. apply in_map. assumption. }
      exists v. split; [rewrite Hoth by assumption; assumption | assumption].
    + exists (splice v0 (cnt st0 (dcell d)) (dvals d)). split; [assumption|].
      apply slice_splice_same. assumption.
Qed.

Lemma iinv_steps : forall done i st0 rest pr st ind,
  Forall wf_inp done -> GInv done st0 ->
  IInv done i st0 pr st ->
  NoDup (map lbl0 (pr ++ rest)) ->
  Forall (fun d => length (dvals d) = isize i (dcell d)) rest ->
  (forall c, cnt st0 c + isize i c <= shape nv nc c) ->
  IInv done i st0 (pr ++ rest) (data_steps nv nc st ind rest).
Proof.
  intros done i st0 rest. induction rest as [|d r IH]; intros pr st ind Hwfd HG HI Hnd Hlen Hroom.
  - rewrite app_nil_r. exact HI.
  - simpl. replace (pr ++ d :: r) with ((pr ++ [d]) ++ r) by (rewrite <- app_assoc; reflexivity).
    inversion Hlen as [|? ? Hd Hr]; subst.
    apply IH; try assumption.
    + apply iinv_step; try assumption.
      * rewrite map_app in Hnd. simpl in Hnd. apply NoDup_remove_2 in Hnd.
        intros Hin. apply Hnd. apply in_or_app. left. assumption.
      * apply Hroom.
    + rewrite <- app_assoc. exact Hnd.
Qed.

Lemma ginv_input : forall done i st0,
  Forall wf_inp done -> wf_inp i -> GInv done st0 ->
  (forall c, cnt st0 c + isize i c <= shape nv nc c) ->
  GInv (done ++ [i]) (input_step nv nc st0 i).
Proof.
  intros done i st0 Hwfd [Hnd Hlen] HG Hroom.
  assert (HI0 : IInv done i st0 [] st0).
  { destruct HG as [Gv Gc Gwf Grec]. constructor; try reflexivity.
    - intros l v Hl. destruct (Gwf l v Hl) as [H1 [H2 H3]]. repeat split; try assumption.
      + eapply blank_from_mono; [exact H3|lia].
      + intros _. exact H3.
    - exact Grec.
    - intros d []. }
  pose proof (iinv_steps done i st0 (ds i) [] st0 0 Hwfd HG HI0 Hnd Hlen Hroom) as HI.
  simpl in HI. destruct HI as [Iv Ic Iwf Irec Icur]. destruct HG as [Gv Gc Gwf Grec].
  unfold input_step. constructor; cbn [md vcount ccount].
  - rewrite Iv, Gv. change (length (vs i)) with (isize i false). rewrite total_app. reflexivity.
  - rewrite Ic, Gc. change (length (cs i)) with (isize i true). rewrite total_app. reflexivity.
  - intros l v Hl. destruct (Iwf l v Hl) as [H1 [H2 [H3 _]]]. repeat split; try assumption.
    unfold cnt in *. cbn [md vcount ccount]. destruct (lcell l); unfold isize in H3; [rewrite Ic | rewrite Iv]; exact H3.
  - intros k i' d Hk Hd.
    destruct (Nat.lt_ge_cases k (length done)) as [Hlt|Hge].
    + rewrite nth_error_app1 in Hk by assumption. rewrite doff_app by lia. eapply Irec; eassumption.
    + assert (k = length done).
      { assert (k < length (done ++ [i])) by (apply nth_error_Some; congruence). rewrite app_length in *. simpl in *. lia. }
      subst k. rewrite nth_error_app2, Nat.sub_diag in Hk by lia. simpl in Hk. inversion Hk; subst i'.
      destruct (Icur d Hd) as [v [Hl Hs]]. exists v. split; [assumption|].
      rewrite doff_app by lia. rewrite doff_total.
      replace (total done (dcell d)) with (cnt st0 (dcell d)); [assumption|].
      unfold cnt. destruct (dcell d); assumption.
Qed.

Lemma ginv_fold : forall rest done st,
  Forall wf_inp done -> Forall wf_inp rest -> GInv done st ->
  (forall c, total (done ++ rest) c <= shape nv nc c) ->
  GInv (done ++ rest) (fold_left (input_step nv nc) rest st).
Proof.
  induction rest as [|i r IH]; intros done st Hwd Hwr HG Hroom.
  - rewrite app_nil_r. exact HG.
  - simpl. inversion Hwr as [|? ? Hi Hr]; subst.
    replace (done ++ i :: r) with ((done ++ [i]) ++ r) in * by (rewrite <- app_assoc; reflexivity).
    apply IH; try assumption.
    + apply Forall_app. split; [assumption | constructor; [assumption | constructor]].
    + apply ginv_input; try assumption.
      intros c. specialize (Hroom c). destruct HG as [Gv Gc _ _].
      assert (total ((done ++ [i]) ++ r) c >= total (done ++ [i]) c).
      { destruct c; unfold total, merge_verts; rewrite !map_app, !concat_app, !app_length; lia. }
      rewrite total_app in *. unfold cnt. destruct c; [rewrite Gc | rewrite Gv]; lia.
Qed.
End MergeData.

(* ---- no-data elsewhere: where an input lacks a label, the merged array of that label is blank over that input's range ---- *)
Section MergeBlank.
Variables nv nc : nat.

Definition BInv (done : list inp) (st : mstate) : Prop :=
  forall l v, lookup l (md st) = Some v ->
  forall k i, nth_error done k = Some i -> (forall d, In d (ds i) -> lbl0 d <> l) ->
  all_none (slice v (doff done k (lcell l)) (isize i (lcell l))) = true.

Lemma in_firstn {A} : forall n (l : list A) x, In x (firstn n l) -> In x l.
Proof. induction n as [|n IH]; intros [|h r] x H; simpl in *; try contradiction. destruct H as [H|H]; [left; exact H | right; apply IH; exact H]. Qed.

Lemma in_skipn {A} : forall n (l : list A) x, In x (skipn n l) -> In x l.
Proof. induction n as [|n IH]; intros [|h r] x H; simpl in *; try contradiction; try assumption. right. apply IH. exact H. Qed.

Lemma all_none_repeat : forall n s m, all_none (slice (repeat None n) s m) = true.
Proof.
  intros n s m. unfold all_none. apply forallb_forall. intros x Hx.
  unfold slice in Hx. apply in_firstn in Hx. apply in_skipn in Hx.
  apply repeat_spec in Hx. subst x. reflexivity.
Qed.

Lemma binv_step : forall done i st0 pr st ind d,
  Forall wf_inp done -> GInv nv nc done st0 -> IInv nv nc done i st0 pr st ->
  ~ In (lbl0 d) (map lbl0 pr) ->
  length (dvals d) = isize i (dcell d) ->
  cnt st0 (dcell d) + isize i (dcell d) <= shape nv nc (dcell d) ->
  BInv done st -> BInv done (data_step nv nc st ind d).
Proof.
  intros done i st0 pr st ind d Hwfd HG HI Hfresh Hlen Hroom HB.
  destruct HI as [Hv Hc Hwf Hrec Hcur].
  assert (Hcnt : cnt st (dcell d) = cnt st0 (dcell d)) by (apply cnt_eq; assumption).
  destruct (data_step_spec nv nc st ind d) as [v0 [Hv0 [Hnew [Hoth _]]]].
  { intros v Hl. destruct (Hwf _ _ Hl) as [_ [Hlen' [_ Hb]]]. rewrite lcell_lbl0 in *.
    split; [rewrite Hcnt; apply Hb; assumption | assumption]. }
  { rewrite Hcnt, Hlen. assumption. }
  rewrite Hcnt in Hnew.
  assert (Hv0len : length v0 = shape nv nc (dcell d)).
  { destruct Hv0 as [Hl | [_ ->]]; [destruct (Hwf _ _ Hl) as [_ [H _]]; exact H | apply repeat_length]. }
  intros l v Hl k i' Hk Hno.
  destruct (label_eqb l (lbl0 d)) eqn:E.
  - apply label_eqb_eq in E; subst l. rewrite Hnew in Hl. inversion Hl; subst v. rewrite lcell_lbl0.
    pose proof (doff_le done k i' (dcell d) Hk) as Hle.
    assert (Hbefore : doff done k (dcell d) + isize i' (dcell d) <= cnt st0 (dcell d)).
    { destruct HG as [Gv Gc _ _]. unfold cnt. destruct (dcell d); [rewrite Gc | rewrite Gv]; exact Hle. }
    rewrite slice_splice_before by (try assumption; rewrite Hv0len, Hlen; assumption).
    destruct Hv0 as [Hl0 | [_ ->]].
    + specialize (HB _ _ Hl0 k i' Hk Hno). rewrite lcell_lbl0 in HB. exact HB.
    + apply all_none_repeat.
  - assert (Hne : l <> lbl0 d) by (intro; subst; rewrite label_eqb_refl in E; discriminate).
    rewrite Hoth in Hl by assumption. eapply HB; eassumption.
Qed.

Lemma binv_steps : forall done i st0 rest pr st ind,
  Forall wf_inp done -> GInv nv nc done st0 -> IInv nv nc done i st0 pr st ->
  NoDup (map lbl0 (pr ++ rest)) ->
  Forall (fun d => length (dvals d) = isize i (dcell d)) rest ->
  (forall c, cnt st0 c + isize i c <= shape nv nc c) ->
  BInv done st -> BInv done (data_steps nv nc st ind rest).
Proof.
  intros done i st0 rest. induction rest as [|d r IH]; intros pr st ind Hwfd HG HI Hnd Hlen Hroom HB.
  - exact HB.
  - simpl. inversion Hlen as [|? ? Hd Hr]; subst.
    assert (Hfresh : ~ In (lbl0 d) (map lbl0 pr)).
    { rewrite map_app in Hnd. simpl in Hnd. apply NoDup_remove_2 in Hnd.
      intros Hin. apply Hnd. apply in_or_app. left. assumption. }
    apply (IH (pr ++ [d])); try assumption.
    + apply iinv_step; try assumption. apply Hroom.
    + rewrite <- app_assoc. exact Hnd.
    + eapply binv_step; try eassumption. apply Hroom.
Qed.

Lemma binv_input : forall done i st0,
  Forall wf_inp done -> wf_inp i -> GInv nv nc done st0 ->
  (forall c, cnt st0 c + isize i c <= shape nv nc c) ->
  BInv done st0 -> BInv (done ++ [i]) (input_step nv nc st0 i).
Proof.
  intros done i st0 Hwfd [Hnd Hlen] HG Hroom HB.
  assert (HI0 : IInv nv nc done i st0 [] st0).
  { destruct HG as [Gv Gc Gwf Grec]. constructor; try reflexivity.
    - intros l v Hl. destruct (Gwf l v Hl) as [H1 [H2 H3]]. repeat split; try assumption.
      + eapply blank_from_mono; [exact H3|lia].
      + intros _. exact H3.
    - exact Grec.
    - intros d []. }
  pose proof (iinv_steps nv nc done i st0 (ds i) [] st0 0 Hwfd HG HI0 Hnd Hlen Hroom) as HI.
  pose proof (binv_steps done i st0 (ds i) [] st0 0 Hwfd HG HI0 Hnd Hlen Hroom HB) as HB'.
  simpl in HI. destruct HI as [Iv Ic Iwf Irec Icur]. destruct HG as [Gv Gc Gwf Grec].
  unfold input_step. intros l v Hl k i' Hk Hno. cbn [md vcount ccount] in Hl.
  destruct (Nat.lt_ge_cases k (length done)) as [Hlt|Hge].
  - rewrite nth_error_app1 in Hk by assumption. rewrite doff_app by lia. eapply HB'; eassumption.
  - assert (k = length done).
    { assert (k < length (done ++ [i])) by (apply nth_error_Some; congruence). rewrite app_length in *. simpl in *. lia. }
    subst k. rewrite nth_error_app2, Nat.sub_diag in Hk by lia. simpl in Hk. inversion Hk; subst i'.
    rewrite doff_app by lia. rewrite doff_total.
    destruct (Iwf l v Hl) as [_ [Hlenv [_ Hblank]]].
    assert (Hnotin : ~ In l (map lbl0 (ds i))).
    { intros Hin. apply in_map_iff in Hin as [d [Hd Hin]]. apply (Hno d Hin). exact Hd. }
    specialize (Hblank Hnotin).
    replace (total done (lcell l)) with (cnt st0 (lcell l)) by (unfold cnt; destruct (lcell l); assumption).
    apply all_none_slice; [exact Hblank|]. rewrite Hlenv. apply Hroom.
Qed.

Lemma binv_fold : forall rest done st,
  Forall wf_inp done -> Forall wf_inp rest -> GInv nv nc done st -> BInv done st ->
  (forall c, total (done ++ rest) c <= shape nv nc c) ->
  BInv (done ++ rest) (fold_left (input_step nv nc) rest st).
Proof.
  induction rest as [|i r IH]; intros done st Hwd Hwr HG HB Hroom.
  - rewrite app_nil_r. exact HB.
  - simpl. inversion Hwr as [|? ? Hi Hr]; subst.
    replace (done ++ i :: r) with ((done ++ [i]) ++ r) in * by (rewrite <- app_assoc; reflexivity).
    assert (Hroomi : forall c, cnt st c + isize i c <= shape nv nc c).
    { intros c. specialize (Hroom c). destruct HG as [Gv Gc _ _].
      assert (total ((done ++ [i]) ++ r) c >= total (done ++ [i]) c).
      { destruct c; unfold total, merge_verts; rewrite !map_app, !concat_app, !app_length; lia. }
      rewrite total_app in *. unfold cnt. destruct c; [rewrite Gc | rewrite Gv]; lia. }
    apply IH; try assumption.
    + apply Forall_app. split; [assumption | constructor; [assumption | constructor]].
    + apply ginv_input; assumption.
    + apply binv_input; assumption.
Qed.
End MergeBlank.

Lemma merged_data_blank : forall ins,
  Forall wf_inp ins ->
  forall l v, lookup l (merge_data ins) = Some v ->
  forall k i, nth_error ins k = Some i -> (forall d, In d (ds i) -> lbl0 d <> l) ->
  all_none (slice v (doff ins k (lcell l)) (isize i (lcell l))) = true.
Proof.
  intros ins Hwf l v Hl k i Hk Hno. unfold merge_data in Hl.
  set (nv := length (merge_verts ins)) in *. set (nc := length (concat (map cs ins))) in *.
  assert (HG0 : GInv nv nc [] {| md := []; vcount := 0; ccount := 0 |}).
  { constructor; try reflexivity.
    - intros l' v' Hl'. discriminate.
    - intros k' i' d' Hk'. destruct k'; discriminate. }
  assert (HB0 : BInv [] {| md := []; vcount := 0; ccount := 0 |}).
  { intros l' v' Hl'. discriminate. }
  assert (Hroom : forall c, total ([] ++ ins) c <= shape nv nc c) by (intros [|]; unfold total, shape; subst nv nc; simpl; lia).
  pose proof (binv_fold nv nc ins [] _ (Forall_nil _) Hwf HG0 HB0 Hroom) as HB. simpl in HB.
  eapply HB; eassumption.
Qed.

(* every data set of every input is found in the merged object under its own name/type/association, with its
   values at the offset of its input; elsewhere the array holds the no-data value unless another input wrote there *)
Lemma merged_data : forall ins,
  Forall wf_inp ins ->
  forall k i d, nth_error ins k = Some i -> In d (ds i) ->
  exists v, lookup (lbl0 d) (merge_data ins) = Some v
         /\ length v = total ins (dcell d)
         /\ slice v (doff ins k (dcell d)) (length (dvals d)) = dvals d.
Proof.
  intros ins Hwf k i d Hk Hd. unfold merge_data.
  set (nv := length (merge_verts ins)). set (nc := length (concat (map cs ins))).
  assert (HG0 : GInv nv nc [] {| md := []; vcount := 0; ccount := 0 |}).
  { constructor; try reflexivity.
    - intros l v Hl. discriminate.
    - intros k' i' d' Hk'. destruct k'; discriminate. }
  pose proof (ginv_fold nv nc ins [] _ (Forall_nil _) Hwf HG0) as HG. simpl in HG.
  assert (Hroom : forall c, total ins c <= shape nv nc c) by (intros [|]; unfold total, shape; subst nv nc; lia).
  specialize (HG Hroom). destruct HG as [_ _ Gwf Grec].
  destruct (Grec k i d Hk Hd) as [v [Hl Hs]]. exists v. split; [assumption|]. split; [|assumption].
  destruct (Gwf _ _ Hl) as [_ [Hlen _]]. rewrite Hlen. reflexivity.
Qed.

(* no-data elsewhere: a position of a merged array that no input's data set of that label covers is blank *)
Lemma merged_data_names : forall ins l v,
  Forall wf_inp ins -> lookup l (merge_data ins) = Some v -> lren l = None.
Proof.
  intros ins l v Hwf Hl. unfold merge_data in Hl.
  set (nv := length (merge_verts ins)) in *. set (nc := length (concat (map cs ins))) in *.
  assert (HG0 : GInv nv nc [] {| md := []; vcount := 0; ccount := 0 |}).
  { constructor; try reflexivity.
    - intros l' v' Hl'. discriminate.
    - intros k' i' d' Hk'. destruct k'; discriminate. }
  pose proof (ginv_fold nv nc ins [] _ (Forall_nil _) Hwf HG0) as HG. simpl in HG.
  assert (Hroom : forall c, total ins c <= shape nv nc c) by (intros [|]; unfold total, shape; subst nv nc; lia).
  specialize (HG Hroom). destruct HG as [_ _ Gwf _]. destruct (Gwf _ _ Hl) as [H _]. exact H.
Qed.

(* ---- added: completeness of the merged vertices, range safety of the code's cells, unit and append laws ---- *)
Lemma merge_verts_length : forall ins, length (merge_verts ins) = list_sum (map (fun i => length (vs i)) ins).
Proof.
  induction ins as [|a r IH]; [reflexivity|].
  rewrite merge_verts_cons, app_length, IH. reflexivity.
Qed.

Lemma verts_decompose : forall ins p, p < length (merge_verts ins) ->
  exists k i v, nth_error ins k = Some i /\ v < length (vs i) /\ p = voff ins k + v.
Proof.
  induction ins as [|a r IH]; intros p Hp; [simpl in Hp; lia|].
  rewrite merge_verts_cons, app_length in Hp.
  destruct (Nat.lt_ge_cases p (length (vs a))) as [Hlt|Hge].
  - exists 0, a, p. repeat split; auto.
  - destruct (IH (p - length (vs a))) as [k [i [v [Hk [Hv Hp']]]]]; [lia|].
    exists (S k), i, v. repeat split; auto. rewrite voff_cons. lia.
Qed.

Lemma merge_verts_app : forall a b, merge_verts (a ++ b) = merge_verts a ++ merge_verts b.
Proof. intros a b. unfold merge_verts. rewrite map_app, concat_app. reflexivity. Qed.

Lemma map_map_add0 : forall ll : list (list nat), map (map (fun v => v + 0)) ll = ll.
Proof.
  intros ll. rewrite <- (map_id ll) at 2. apply map_ext. intros l.
  rewrite <- (map_id l) at 2. apply map_ext. intros v. lia.
Qed.

Lemma merge_single : forall i, merge_verts [i] = vs i /\ merge_cells [i] = cs i /\ merge_cells_spec [i] = cs i.
Proof.
  intros i. unfold merge_verts, merge_cells, merge_cells_spec. simpl.
  rewrite !app_nil_r, map_map_add0. repeat split; reflexivity.
Qed.

Lemma cell_ok_mono : forall n m c, cell_ok n c -> n <= m -> cell_ok m c.
Proof. unfold cell_ok. intros n m c H Hle. eapply Forall_impl; [|exact H]. simpl. intros v Hv. lia. Qed.

Lemma max_list_lt : forall l n, 0 < n -> Forall (fun v => v < n) l -> max_list l < n.
Proof.
  induction l as [|x r IH]; intros n Hn H; simpl; [exact Hn|].
  inversion H; subst. specialize (IH n Hn H3). lia.
Qed.

Lemma concat_cells_lt : forall (ll : list (list nat)) n, Forall (cell_ok n) ll -> Forall (fun v => v < n) (concat ll).
Proof.
  induction ll as [|c r IH]; intros n H; simpl; [constructor|].
  inversion H; subst. apply Forall_app. split; [assumption | apply IH; assumption].
Qed.

(* The code's offset rule never overshoots: whatever the inputs reference, every merged cell points at an existing
   merged vertex (inputs with at least one vertex and in-range cells). *)
Lemma code_cells_in_range_from : forall ins prev,
  Forall inp_ok ins -> Forall (fun i => 0 < length (vs i)) ins ->
  Forall (cell_ok (prev + length (merge_verts ins))) (merge_cells_from prev ins).
Proof.
  induction ins as [|a r IH]; intros prev Hok Hne; simpl; [constructor|].
  inversion Hok as [|? ? Ha Hr]; subst. inversion Hne as [|? ? Hna Hnr]; subst.
  rewrite merge_verts_cons, app_length.
  assert (Hshift : Forall (cell_ok (prev + length (vs a))) (map (map (fun v => v + prev)) (cs a))).
  { apply Forall_forall. intros c Hc. apply in_map_iff in Hc as [c0 [Hc0 Hin]]. subst c.
    unfold inp_ok in Ha. rewrite Forall_forall in Ha. specialize (Ha c0 Hin).
    unfold cell_ok in *. apply Forall_forall. intros v Hv. apply in_map_iff in Hv as [v0 [Hv0 Hin0]]. subst v.
    rewrite Forall_forall in Ha. specialize (Ha v0 Hin0). lia. }
  apply Forall_app. split.
  - eapply Forall_impl; [|exact Hshift]. intros c Hc. eapply cell_ok_mono; [exact Hc|lia].
  - assert (Hmax : max_list (concat (map (map (fun v => v + prev)) (cs a))) + 1 <= prev + length (vs a)).
    { pose proof (@max_list_lt (concat (map (map (fun v => v + prev)) (cs a))) (prev + length (vs a))) as H.
      assert (Hc := @concat_cells_lt _ _ Hshift). specialize (H ltac:(lia) Hc). lia. }
    specialize (IH (max_list (concat (map (map (fun v => v + prev)) (cs a))) + 1) Hr Hnr).
    eapply Forall_impl; [|exact IH]. intros c Hc. eapply cell_ok_mono; [exact Hc|lia].
Qed.

Lemma code_cells_in_range : forall ins,
  Forall inp_ok ins -> Forall (fun i => 0 < length (vs i)) ins ->
  Forall (cell_ok (length (merge_verts ins))) (merge_cells ins).
Proof. intros ins H1 H2. exact (@code_cells_in_range_from ins 0 H1 H2). Qed.

Lemma merge_cells_from_length : forall ins prev, length (merge_cells_from prev ins) = length (concat (map cs ins)).
Proof.
  induction ins as [|a r IH]; intros prev; simpl; [reflexivity|].
  rewrite !app_length, map_length, IH. reflexivity.
Qed.

(* ---- added: no data set is invented — every label of the merged dictionary stems from an input's data set ---- *)
Definition keys (d : dict) : list label := map fst d.
Definition stems (d : dat) (l : label) : Prop :=
  let '(n, _, t, c) := l in n = dname d /\ t = dtype d /\ c = dcell d.

Lemma lookup_some_in_keys : forall l d v, lookup l d = Some v -> In l (keys d).
Proof.
  induction d as [|[k w] r IH]; intros v H; simpl in *; [discriminate|].
  destruct (label_eqb l k) eqn:E.
  - apply label_eqb_eq in E. left. symmetry. exact E.
  - right. eapply IH. exact H.
Qed.

Lemma keys_set : forall l v d, keys (set l v d) = keys d.
Proof.
  induction d as [|[k w] r IH]; simpl; [reflexivity|].
  destruct (label_eqb l k); simpl; [reflexivity | rewrite IH; reflexivity].
Qed.

Lemma keys_data_step : forall nv nc st ind d l,
  In l (keys (md (data_step nv nc st ind d))) -> In l (keys (md st)) \/ stems d l.
Proof.
  intros nv nc st ind d l. unfold data_step.
  set (lbl := match lookup (lbl0 d) (md st) with
              | Some v => if all_none (slice v (if dcell d then ccount st else vcount st) (length (dvals d)))
                          then lbl0 d else (dname d, Some ind, dtype d, dcell d)
              | None => lbl0 d end).
  assert (Hst : stems d lbl).
  { unfold lbl, lbl0. destruct (lookup _ (md st)); [destruct (all_none _)|]; simpl; auto. }
  set (d1 := match lookup lbl (md st) with
             | Some _ => md st
             | None => md st ++ [(lbl, repeat None (if dcell d then nc else nv))] end).
  assert (Hd1 : forall x, In x (keys d1) -> In x (keys (md st)) \/ x = lbl).
  { intros x Hx. unfold d1 in Hx. destruct (lookup lbl (md st)); [left; exact Hx|].
    unfold keys in Hx. rewrite map_app in Hx. apply in_app_or in Hx as [Hx|[Hx|[]]]; [left; exact Hx | right; symmetry; exact Hx]. }
  destruct (lookup lbl d1); simpl; [|intros H; left; exact H].
  rewrite keys_set. intros H. destruct (Hd1 _ H) as [H1|H1]; [left; exact H1 | right; subst l; exact Hst].
Qed.

Lemma keys_data_steps : forall nv nc L st ind l,
  In l (keys (md (data_steps nv nc st ind L))) -> In l (keys (md st)) \/ exists d, In d L /\ stems d l.
Proof.
  induction L as [|d r IH]; intros st ind l H; simpl in H; [left; exact H|].
  destruct (IH _ _ _ H) as [H1|[d' [Hin Hs]]].
  - destruct (keys_data_step _ _ _ _ _ _ H1) as [H2|H2]; [left; exact H2 | right; exists d; split; [left; reflexivity | exact H2]].
  - right. exists d'. split; [right; exact Hin | exact Hs].
Qed.

Lemma keys_fold : forall nv nc ins st l,
  In l (keys (md (fold_left (input_step nv nc) ins st))) ->
  In l (keys (md st)) \/ exists i d, In i ins /\ In d (ds i) /\ stems d l.
Proof.
  induction ins as [|a r IH]; intros st l H; simpl in H; [left; exact H|].
  destruct (IH _ _ H) as [H1|[i [d [Hi [Hd Hs]]]]].
  - unfold input_step in H1. simpl in H1.
    destruct (keys_data_steps _ _ _ _ _ _ H1) as [H2|[d [Hd Hs]]]; [left; exact H2|].
    right. exists a, d. repeat split; [left; reflexivity | exact Hd | exact Hs].
  - right. exists i, d. repeat split; [right; exact Hi | exact Hd | exact Hs].
Qed.

Lemma merged_data_stems : forall ins l v,
  lookup l (merge_data ins) = Some v -> exists i d, In i ins /\ In d (ds i) /\ stems d l.
Proof.
  intros ins l v H. apply lookup_some_in_keys in H. unfold merge_data in H.
  destruct (keys_fold _ _ _ _ _ H) as [[]|H1]. exact H1.
Qed.
