(* Proofs about Model/Merge.v (property C16). *)
From GV Require Import Prelude.Base Model.Merge.

Lemma voff_0 ins : voff ins 0 = 0.
Proof. reflexivity. Qed.

Lemma voff_cons a r k : voff (a :: r) (S k) = length (vs a) + voff r k.
Proof. unfold voff, merge_verts. simpl. rewrite app_length. reflexivity. Qed.

Lemma coff_cons a r k : coff (a :: r) (S k) = length (cs a) + coff r k.
Proof. unfold coff. simpl. rewrite app_length. reflexivity. Qed.

Lemma merge_verts_cons a r : merge_verts (a :: r) = vs a ++ merge_verts r.
Proof. reflexivity. Qed.

Lemma verts_nth : forall ins k i v,
  nth_error ins k = Some i -> v < length (vs i) ->
  nth_error (merge_verts ins) (voff ins k + v) = nth_error (vs i) v.
Proof.
  induction ins as [|a r IH]; intros [|k] i v Hk Hv; simpl in Hk; try discriminate.
  - inversion Hk; subst. rewrite voff_0, merge_verts_cons. simpl. apply nth_error_app1; assumption.
  - rewrite voff_cons, merge_verts_cons.
    rewrite nth_error_app2 by lia.
    replace (length (vs a) + voff r k + v - length (vs a)) with (voff r k + v) by lia.
    apply IH; assumption.
Qed.

Lemma cells_from_nth : forall ins prev k i j c,
  nth_error ins k = Some i -> nth_error (cs i) j = Some c ->
  nth_error (merge_cells_spec_from prev ins) (coff ins k + j)
  = Some (map (fun v => v + (prev + voff ins k)) c).
Proof.
  induction ins as [|a r IH]; intros prev [|k] i j c Hk Hj; simpl in Hk; try discriminate.
  - inversion Hk; subst. simpl. rewrite voff_0, Nat.add_0_r.
    rewrite nth_error_app1 by (rewrite map_length; apply nth_error_Some; congruence).
    erewrite map_nth_error by eassumption. reflexivity.
  - simpl merge_cells_spec_from. rewrite coff_cons, voff_cons.
    rewrite nth_error_app2 by (rewrite map_length; lia).
    rewrite map_length.
    replace (length (cs a) + coff r k + j - length (cs a)) with (coff r k + j) by lia.
    rewrite (IH (prev + length (vs a)) k i j c Hk Hj).
    f_equal. apply map_ext. intros v. lia.
Qed.

Lemma merge_cells_spec_from_length : forall ins prev,
  length (merge_cells_spec_from prev ins) = length (concat (map cs ins)).
Proof.
  induction ins as [|a r IH]; intros prev; simpl; [reflexivity|].
  rewrite !app_length, map_length, IH. reflexivity.
Qed.

Lemma voff_le : forall ins k i, nth_error ins k = Some i -> voff ins k + length (vs i) <= length (merge_verts ins).
Proof.
  induction ins as [|a r IH]; intros [|k] i Hk; simpl in Hk; try discriminate.
  - inversion Hk; subst. rewrite voff_0, merge_verts_cons, app_length. lia.
  - rewrite voff_cons, merge_verts_cons, app_length. specialize (IH k i Hk). lia.
Qed.

(* every output cell corresponding to input cell c of input k connects the same coordinates *)
Lemma merged_cell_same_coords : forall ins k i j c,
  nth_error ins k = Some i -> nth_error (cs i) j = Some c -> cell_ok (length (vs i)) c ->
  exists c', nth_error (merge_cells_spec ins) (coff ins k + j) = Some c'
          /\ length c' = length c
          /\ map (nth_error (merge_verts ins)) c' = map (nth_error (vs i)) c
          /\ cell_ok (length (merge_verts ins)) c'.
Proof.
  intros ins k i j c Hk Hj Hok.
  exists (map (fun v => v + (0 + voff ins k)) c). split; [unfold merge_cells_spec; apply (cells_from_nth ins 0 k i j c Hk Hj)|].
  split; [apply map_length|]. split.
  - rewrite map_map. apply map_ext_in. intros v Hv.
    unfold cell_ok in Hok. rewrite Forall_forall in Hok. specialize (Hok v Hv).
    simpl. rewrite Nat.add_comm. apply verts_nth; assumption.
  - unfold cell_ok in *. rewrite Forall_forall in *. intros w Hw.
    apply in_map_iff in Hw as [v [<- Hv]]. specialize (Hok v Hv).
    pose proof (voff_le ins k i Hk). lia.
Qed.

(* every output cell comes from exactly one input cell: position p < total decomposes as coff k + j *)
Lemma cells_decompose : forall ins p, p < length (concat (map cs ins)) ->
  exists k i j, nth_error ins k = Some i /\ j < length (cs i) /\ p = coff ins k + j.
Proof.
  induction ins as [|a r IH]; intros p Hp; simpl in Hp; [lia|].
  rewrite app_length in Hp.
  destruct (Nat.lt_ge_cases p (length (cs a))) as [Hlt|Hge].
  - exists 0, a, p. repeat split; auto.
  - destruct (IH (p - length (cs a))) as [k [i [j [Hk [Hj Hp']]]]]; [lia|].
    exists (S k), i, j. repeat split; auto. rewrite coff_cons. lia.
Qed.

(* ---- the code's offset rule coincides with the specification when every input but the last has its last
        vertex referenced by some cell ---- *)
Definition good (i : inp) : Prop := tail_referenced i /\ concat (cs i) <> [].

Lemma max_list_map_add : forall l p, l <> [] -> max_list (map (fun v => v + p) l) = max_list l + p.
Proof.
  induction l as [|x r IH]; intros p H; [congruence|].
  destruct r as [|y r'].
  - simpl. lia.
  - change (max_list (map (fun v => v + p) (x :: y :: r'))) with (Nat.max (x + p) (max_list (map (fun v => v + p) (y :: r')))).
    rewrite IH by discriminate.
    change (max_list (x :: y :: r')) with (Nat.max x (max_list (y :: r'))). lia.
Qed.

Lemma concat_map_map {A B} (f : A -> B) (ll : list (list A)) : concat (map (map f) ll) = map f (concat ll).
Proof. induction ll as [|l r IH]; simpl; [reflexivity|]. rewrite map_app, IH. reflexivity. Qed.

Lemma code_eq_spec_from : forall ins prev,
  Forall good (removelast ins) -> merge_cells_from prev ins = merge_cells_spec_from prev ins.
Proof.
  induction ins as [|a r IH]; intros prev H; [reflexivity|].
  cbn [merge_cells_from merge_cells_spec_from]. f_equal.
  destruct r as [|b r']; [reflexivity|].
  change (removelast (a :: b :: r')) with (a :: removelast (b :: r')) in H.
  inversion H as [|? ? [Ht Hne] Hr]; subst.
  rewrite concat_map_map, max_list_map_add by assumption.
  unfold tail_referenced in Ht.
  replace (max_list (concat (cs a)) + prev + 1) with (prev + length (vs a)) by lia.
  apply IH. assumption.
Qed.

Lemma code_eq_spec : forall ins, Forall good (removelast ins) -> merge_cells ins = merge_cells_spec ins.
Proof. intros. apply code_eq_spec_from. assumption. Qed.

(* ---- and it does not in general: an input whose last vertex is used by no cell ---- *)
Definition witness : list inp :=
  [ {| vs := [(0,0,0); (1,0,0); (2,0,0); (3,0,0)]%Z; cs := [[0;1];[1;2]]; ds := [] |};
    {| vs := [(0,1,0); (1,1,0); (2,1,0)]%Z; cs := [[0;1];[1;2]]; ds := [] |} ].

(* full-strength statement of the cell part of C16 for the code's merge_cells *)
Definition C16_cells_full : Prop := forall ins k i j c,
  Forall inp_ok ins ->
  nth_error ins k = Some i -> nth_error (cs i) j = Some c ->
  exists c', nth_error (merge_cells ins) (coff ins k + j) = Some c'
          /\ map (nth_error (merge_verts ins)) c' = map (nth_error (vs i)) c.

Lemma cells_full_refuted : ~ C16_cells_full.
Proof.
  intros H.
  assert (Hok : Forall inp_ok witness) by (repeat constructor).
  destruct (H witness 1 {| vs := [(0,1,0); (1,1,0); (2,1,0)]%Z; cs := [[0;1];[1;2]]; ds := [] |} 0 [0;1] Hok eq_refl eq_refl)
    as [c' [Hc Hm]].
  vm_compute in Hc. inversion Hc; subst. vm_compute in Hm. discriminate.
Qed.
