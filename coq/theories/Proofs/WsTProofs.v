(* Proofs about the typed layer Model/WsT.v: frame (C09), the Type-link invariant (C02), re-open (C01). *)
From GV Require Import Prelude.Base Model.WsT Model.WsTSpec.

(* ---------------- equalities ---------------- *)
Lemma tkind_eqb_eq a b : tkind_eqb a b = true <-> a = b.
Proof. destruct a, b; simpl; split; intros H; try reflexivity; try discriminate. Qed.
Lemma tkey_eqb_eq a b : tkey_eqb a b = true <-> a = b.
Proof.
  destruct a as [k1 n1], b as [k2 n2]. unfold tkey_eqb. simpl. rewrite andb_true_iff, tkind_eqb_eq, N.eqb_eq.
  split; [intros [-> ->]; reflexivity | intros H; inversion H; auto].
Qed.
Lemma tkey_eqb_refl a : tkey_eqb a a = true.
Proof. apply tkey_eqb_eq. reflexivity. Qed.
Lemma tkey_eqb_neq a b : tkey_eqb a b = false <-> a <> b.
Proof. rewrite <- tkey_eqb_eq. destruct (tkey_eqb a b); split; congruence. Qed.
Lemma memN_In x l : memN x l = true <-> In x l.
Proof.
  unfold memN. rewrite existsb_exists. split.
  - intros [y [Hy E]]. apply N.eqb_eq in E. subst. exact Hy.
  - intros H. exists x. split; [exact H | apply N.eqb_refl].
Qed.
Lemma memN_false x l : memN x l = false <-> ~ In x l.
Proof. rewrite <- memN_In. destruct (memN x l); split; congruence. Qed.

Lemma nodup_map_filter {A B} (f : A -> B) (p : A -> bool) l : NoDup (map f l) -> NoDup (map f (filter p l)).
Proof.
  induction l as [|x r IH]; simpl; intros H; [constructor|].
  inversion H as [|? ? Hn Hr]; subst. destruct (p x); simpl; [|apply IH; exact Hr].
  constructor; [|apply IH; exact Hr]. intros Hin. apply Hn.
  apply in_map_iff in Hin. destruct Hin as [y [Ey Hy]]. apply filter_In in Hy. rewrite <- Ey. apply in_map. apply Hy.
Qed.
Lemma nodup_snoc {A} (l : list A) h : NoDup l -> ~ In h l -> NoDup (l ++ [h]).
Proof.
  induction l as [|x r IH]; simpl; intros H Hn; [constructor; [intros [] | constructor]|].
  inversion H as [|? ? Hx Hr]; subst. constructor.
  - intros Hin. apply in_app_or in Hin. destruct Hin as [Hin|[Hin|[]]]; [exact (Hx Hin) | apply Hn; left; congruence].
  - apply IH; [exact Hr | intros Hin; apply Hn; right; exact Hin].
Qed.

(* ---------------- nget / nset ---------------- *)
Section NAssoc.
Context {V : Type}.
Implicit Types m : list (N * V).

Lemma nget_In x m v : nget x m = Some v -> In (x, v) m.
Proof.
  induction m as [|[k o] r IH]; simpl; [discriminate|]. destruct (N.eqb x k) eqn:E.
  - apply N.eqb_eq in E. intros H; inversion H; subst. left. reflexivity.
  - intros H. right. apply IH. exact H.
Qed.
Lemma nget_None x m : nget x m = None <-> ~ In x (map fst m).
Proof.
  induction m as [|[k o] r IH]; simpl; [tauto|]. destruct (N.eqb x k) eqn:E.
  - apply N.eqb_eq in E. split; [discriminate | intros H; exfalso; apply H; left; congruence].
  - apply N.eqb_neq in E. rewrite IH. split; [intros H [H1|H1]; [congruence | exact (H H1)] | intros H H1; apply H; right; exact H1].
Qed.
Lemma In_nget x m v : NoDup (map fst m) -> In (x, v) m -> nget x m = Some v.
Proof.
  induction m as [|[k o] r IH]; simpl; intros Hn Hin; [destruct Hin|]. inversion Hn as [|? ? Hk Hr]; subst.
  destruct Hin as [E|Hin].
  - inversion E; subst. rewrite N.eqb_refl. reflexivity.
  - destruct (N.eqb x k) eqn:E; [|apply IH; assumption]. apply N.eqb_eq in E. subst k. exfalso. apply Hk.
    apply in_map_iff. exists (x, v). split; [reflexivity | exact Hin].
Qed.
Lemma nget_app x m m' : nget x (m ++ m') = match nget x m with Some v => Some v | None => nget x m' end.
Proof. induction m as [|[k o] r IH]; simpl; [reflexivity|]. destruct (N.eqb x k); [reflexivity | exact IH]. Qed.
Lemma nget_nset_same x v m : nget x (nset x v m) = Some v.
Proof.
  induction m as [|[k o] r IH]; simpl; [rewrite N.eqb_refl; reflexivity|]. destruct (N.eqb x k) eqn:E; simpl; rewrite ?E; [reflexivity | exact IH].
Qed.
Lemma nget_nset_other x y v m : y <> x -> nget y (nset x v m) = nget y m.
Proof.
  intros H. induction m as [|[k o] r IH]; simpl.
  - apply N.eqb_neq in H. rewrite H. reflexivity.
  - destruct (N.eqb x k) eqn:E; simpl.
    + apply N.eqb_eq in E. subst k. apply N.eqb_neq in H. rewrite H. reflexivity.
    + rewrite IH. reflexivity.
Qed.
Lemma nset_keys x v m o : nget x m = Some o -> map fst (nset x v m) = map fst m.
Proof.
  induction m as [|[k w] r IH]; simpl; [discriminate|]. destruct (N.eqb x k) eqn:E; simpl; [reflexivity|].
  intros H. f_equal. apply IH. exact H.
Qed.
Lemma nget_filter (f : N -> bool) x m : nget x (filter (fun p => f (fst p)) m) = if f x then nget x m else None.
Proof.
  induction m as [|[k o] r IH]; simpl; [destruct (f x); reflexivity|].
  destruct (f k) eqn:Ek; simpl; destruct (N.eqb x k) eqn:E.
  - apply N.eqb_eq in E. subst k. rewrite Ek. reflexivity.
  - exact IH.
  - apply N.eqb_eq in E. subst k. rewrite IH, Ek. reflexivity.
  - exact IH.
Qed.
End NAssoc.

(* ---------------- tget / tset ---------------- *)
Lemma tget_In x m v : tget x m = Some v -> In (x, v) m.
Proof.
  induction m as [|[k o] r IH]; simpl; [discriminate|]. destruct (tkey_eqb x k) eqn:E.
  - apply tkey_eqb_eq in E. intros H; inversion H; subst. left. reflexivity.
  - intros H. right. apply IH. exact H.
Qed.
Lemma tget_None x m : tget x m = None <-> ~ In x (map fst m).
Proof.
  induction m as [|[k o] r IH]; simpl; [tauto|]. destruct (tkey_eqb x k) eqn:E.
  - apply tkey_eqb_eq in E. split; [discriminate | intros H; exfalso; apply H; left; congruence].
  - apply tkey_eqb_neq in E. rewrite IH. split; [intros H [H1|H1]; [congruence | exact (H H1)] | intros H H1; apply H; right; exact H1].
Qed.
Lemma In_tget x m v : NoDup (map fst m) -> In (x, v) m -> tget x m = Some v.
Proof.
  induction m as [|[k o] r IH]; simpl; intros Hn Hin; [destruct Hin|]. inversion Hn as [|? ? Hk Hr]; subst.
  destruct Hin as [E|Hin].
  - inversion E; subst. rewrite tkey_eqb_refl. reflexivity.
  - destruct (tkey_eqb x k) eqn:E; [|apply IH; assumption]. apply tkey_eqb_eq in E. subst k. exfalso. apply Hk.
    apply in_map_iff. exists (x, v). split; [reflexivity | exact Hin].
Qed.
Lemma tget_app x m m' : tget x (m ++ m') = match tget x m with Some v => Some v | None => tget x m' end.
Proof. induction m as [|[k o] r IH]; simpl; [reflexivity|]. destruct (tkey_eqb x k); [reflexivity | exact IH]. Qed.
Lemma tget_tset_same x v m : tget x (tset x v m) = Some v.
Proof.
  induction m as [|[k o] r IH]; simpl; [rewrite tkey_eqb_refl; reflexivity|]. destruct (tkey_eqb x k) eqn:E; simpl; rewrite ?E; [reflexivity | exact IH].
Qed.
Lemma tget_tset_other x y v m : y <> x -> tget y (tset x v m) = tget y m.
Proof.
  intros H. induction m as [|[k o] r IH]; simpl.
  - apply tkey_eqb_neq in H. rewrite H. reflexivity.
  - destruct (tkey_eqb x k) eqn:E; simpl.
    + apply tkey_eqb_eq in E. subst k. apply tkey_eqb_neq in H. rewrite H. reflexivity.
    + rewrite IH. reflexivity.
Qed.
Lemma tset_keys x v m o : tget x m = Some o -> map fst (tset x v m) = map fst m.
Proof.
  induction m as [|[k w] r IH]; simpl; [discriminate|]. destruct (tkey_eqb x k) eqn:E; simpl; [reflexivity|].
  intros H. f_equal. apply IH. exact H.
Qed.
Lemma tset_addrs x v m o : tget x m = Some o -> taddr v = taddr o ->
  map (fun kn => taddr (snd kn)) (tset x v m) = map (fun kn => taddr (snd kn)) m.
Proof.
  induction m as [|[k w] r IH]; simpl; [discriminate|]. destruct (tkey_eqb x k) eqn:E; simpl.
  - intros H Ha. inversion H; subst. f_equal. exact Ha.
  - intros H Ha. f_equal. apply IH; assumption.
Qed.
Lemma tset_In x v m kn : In kn (tset x v m) -> kn = (x, v) \/ In kn m.
Proof.
  induction m as [|[k w] r IH]; simpl; [intros [H|[]]; left; congruence|]. destruct (tkey_eqb x k) eqn:E; simpl.
  - apply tkey_eqb_eq in E. subst k. intros [H|H]; [left; congruence | right; right; exact H].
  - intros [H|H]; [right; left; exact H|]. destruct (IH H) as [H1|H1]; [left; exact H1 | right; right; exact H1].
Qed.
Lemma tget_filter (f : tkey -> bool) x m : tget x (filter (fun p => f (fst p)) m) = if f x then tget x m else None.
Proof.
  induction m as [|[k o] r IH]; simpl; [destruct (f x); reflexivity|].
  destruct (f k) eqn:Ek; simpl; destruct (tkey_eqb x k) eqn:E.
  - apply tkey_eqb_eq in E. subst k. rewrite Ek. reflexivity.
  - exact IH.
  - apply tkey_eqb_eq in E. subst k. rewrite IH, Ek. reflexivity.
  - exact IH.
Qed.

(* ======================================================================================================== *)
(* C09 — frame, unconditional                                                                                *)
(* ======================================================================================================== *)
Lemma sweep_ftypes_frame s key : ~ In (snd key) (dead_tids s) -> tget key (ftypes (sweep s)) = tget key (ftypes s).
Proof.
  intros H. unfold sweep. simpl.
  rewrite (tget_filter (fun k => negb (memN (snd k) (dead_tids s))) key). apply memN_false in H. rewrite H. reflexivity.
Qed.

Lemma do_remove_ws_eq s e : do_remove_ws s e =
  match nget e (ents s) with
  | Some _ => if N.eqb e root_id then (s, Refused) else (sweep (after_rm s e), Done)
  | None => (s, Refused)
  end.
Proof. reflexivity. Qed.

Theorem types_frame : forall s o key, ~ In (snd key) (type_footprint s o) ->
  tget key (ftypes (fst (step s o))) = tget key (ftypes s).
Proof.
  intros s o key Hk. destruct o as [e k p tid prim name | e | e | | e name | ]; simpl in Hk; unfold step.
  - unfold do_create. destruct (nget e (ents s)); [reflexivity|]. destruct (nget p (ents s)) as [pe|]; [|reflexivity].
    destruct (negb (can_hold (ekind pe) k)); [reflexivity|].
    destruct (match nget tid (reg s) with
              | Some (k', _) => if alive s tid then if tkind_eqb k' k then Some (reg s) else None
                                else Some (nset tid (k, {| tprim := prim; tname := name |}) (reg s))
              | None => Some (reg s ++ [(tid, (k, {| tprim := prim; tname := name |}))])
              end) as [reg'|]; [|reflexivity].
    destruct (tget (k, tid) (ftypes s)) as [n|] eqn:Et; simpl; [reflexivity|].
    rewrite tget_app. destruct (tget key (ftypes s)); [reflexivity|]. simpl.
    rewrite (proj2 (tkey_eqb_neq key (k, tid))); [reflexivity|]. intros ->. apply Hk. left. reflexivity.
  - rewrite do_remove_ws_eq. destruct (nget e (ents s)); [|reflexivity]. destruct (N.eqb e root_id); [reflexivity|]. simpl fst.
    rewrite sweep_ftypes_frame by exact Hk. reflexivity.
  - unfold do_remove_parent. destruct (nget e (ents s)); [|reflexivity]. destruct (N.eqb e root_id); reflexivity.
  - apply sweep_ftypes_frame. exact Hk.
  - unfold do_set_tname. destruct (nget e (ents s)) as [en|]; [|reflexivity].
    destruct (nget (etid en) (reg s)) as [[k a]|]; [|reflexivity]. simpl.
    destruct (tget (k, etid en) (ftypes s)) as [n|]; [|reflexivity].
    apply tget_tset_other. intros ->. apply Hk. left. reflexivity.
  - unfold do_reopen. destruct (load s (ents s) ([], [])) as [[es rg]|]; reflexivity.
Qed.

Theorem links_frame : forall s o e, ~ In e (ent_footprint s o) ->
  nget e (fents (fst (step s o))) = nget e (fents s).
Proof.
  intros s o x Hx. destruct o as [e k p tid prim name | e | e | | e name | ]; simpl in Hx; unfold step.
  - unfold do_create. destruct (nget e (ents s)); [reflexivity|]. destruct (nget p (ents s)) as [pe|]; [|reflexivity].
    destruct (negb (can_hold (ekind pe) k)); [reflexivity|].
    destruct (match nget tid (reg s) with
              | Some (k', _) => if alive s tid then if tkind_eqb k' k then Some (reg s) else None
                                else Some (nset tid (k, {| tprim := prim; tname := name |}) (reg s))
              | None => Some (reg s ++ [(tid, (k, {| tprim := prim; tname := name |}))])
              end) as [reg'|]; [|reflexivity].
    assert (Hne : N.eqb x e = false) by (apply N.eqb_neq; intros ->; apply Hx; left; reflexivity).
    destruct (tget (k, tid) (ftypes s)) as [n|]; simpl; (destruct (nget e (fents s)); [reflexivity|]);
      rewrite nget_app; destruct (nget x (fents s)); try reflexivity; simpl; rewrite Hne; reflexivity.
  - rewrite do_remove_ws_eq. destruct (nget e (ents s)); [|reflexivity]. destruct (N.eqb e root_id); [reflexivity|]. simpl.
    rewrite (nget_filter (fun y => negb (memN y (sub_ids s e))) x). apply memN_false in Hx. rewrite Hx. reflexivity.
  - unfold do_remove_parent. destruct (nget e (ents s)); [|reflexivity]. destruct (N.eqb e root_id); reflexivity.
  - reflexivity.
  - unfold do_set_tname. destruct (nget e (ents s)) as [en|]; [|reflexivity].
    destruct (nget (etid en) (reg s)) as [[k a]|]; reflexivity.
  - unfold do_reopen. destruct (load s (ents s) ([], [])) as [[es rg]|]; reflexivity.
Qed.

(* close + open writes nothing: the Types container, every Type link and the address counter are the same *)
Theorem reopen_file_identity : forall s,
  ftypes (fst (step s Reopen)) = ftypes s /\ fents (fst (step s Reopen)) = fents s /\ next (fst (step s Reopen)) = next s.
Proof. intros s. simpl. unfold do_reopen. destruct (load s (ents s) ([], [])) as [[es rg]|]; repeat split. Qed.

(* ======================================================================================================== *)
(* C02 — the Type-link invariant                                                                             *)
(* ======================================================================================================== *)
Lemma tinv_init : TInv init.
Proof.
  constructor; simpl.
  - constructor; [intros [] | constructor].
  - constructor; [intros [] | constructor].
  - constructor; [intros [] | constructor].
  - constructor; [intros [] | constructor].
  - intros kn [<-|[]]. simpl. reflexivity.
  - intros e en [H|[]]. inversion H; subst. simpl. split; [eexists; reflexivity | eexists; split; reflexivity].
Qed.

Lemma alive_user s e en : In (e, en) (ents s) -> alive s (etid en) = true.
Proof. intros H. unfold alive. apply existsb_exists. exists (e, en). split; [exact H | apply N.eqb_refl]. Qed.

Lemma tinv_sweep s : TInv s -> TInv (sweep s).
Proof.
  intros [H1 H2 H3 H4 H5 H6]. constructor; simpl.
  - exact H1.
  - apply nodup_map_filter. exact H2.
  - apply nodup_map_filter. exact H3.
  - apply nodup_map_filter. exact H4.
  - intros kn Hk. apply filter_In in Hk. apply H5. apply Hk.
  - intros e en Hin. destruct (H6 e en Hin) as [[a Ha] [n [Hn Hl]]]. pose proof (alive_user s e en Hin) as Hal. split.
    + exists a. rewrite (nget_filter (fun t => alive s t)). rewrite Hal. exact Ha.
    + exists n. split; [|exact Hl].
      rewrite (tget_filter (fun k => negb (memN (snd k) (dead_tids s)))). simpl.
      assert (Hd : memN (etid en) (dead_tids s) = false).
      { apply memN_false. unfold dead_tids. intros Hin'. apply in_map_iff in Hin'. destruct Hin' as [[t v] [Et Hf]].
        apply filter_In in Hf. destruct Hf as [_ Hf]. simpl in *. subst t. rewrite Hal in Hf. discriminate. }
      rewrite Hd. exact Hn.
Qed.

(* removing live entities (and possibly their stored nodes) keeps the invariant *)
Lemma tinv_drop s (f : N -> bool) fe' :
  TInv s -> (forall e, f e = true -> nget e fe' = nget e (fents s)) ->
  TInv {| ents := filter (fun p => f (fst p)) (ents s); reg := reg s; ftypes := ftypes s; fents := fe'; next := next s |}.
Proof.
  intros [H1 H2 H3 H4 H5 H6] Hfe. constructor; simpl; try assumption.
  - apply nodup_map_filter. exact H1.
  - intros e en Hin. apply filter_In in Hin. destruct Hin as [Hin Hf]. simpl in Hf.
    destruct (H6 e en Hin) as [Ha [n [Hn Hl]]]. split; [exact Ha|]. exists n. split; [exact Hn|]. rewrite Hfe by exact Hf. exact Hl.
Qed.

Lemma tinv_after_rm s e : TInv s -> TInv (after_rm s e).
Proof.
  intros H. unfold after_rm. apply (tinv_drop s (fun x => negb (memN x (sub_ids s e)))); [exact H|].
  intros x Hx. rewrite (nget_filter (fun y => negb (memN y (sub_ids s e))) x). rewrite Hx. reflexivity.
Qed.

Lemma tinv_remove_parent s e : TInv s -> TInv (fst (do_remove_parent s e)).
Proof.
  intros H. unfold do_remove_parent. destruct (nget e (ents s)); [|exact H]. destruct (N.eqb e root_id); [exact H|]. simpl.
  apply (tinv_drop s (fun x => negb (memN x (sub_ids s e)))); [exact H | reflexivity].
Qed.

Lemma tinv_set_tname s e name : TInv s -> TInv (fst (do_set_tname s e name)).
Proof.
  intros H. pose proof H as [H1 H2 H3 H4 H5 H6]. unfold do_set_tname.
  destruct (nget e (ents s)) as [en|] eqn:Ee; [|exact H].
  destruct (nget (etid en) (reg s)) as [[k a]|] eqn:Er; [|exact H]. simpl.
  set (a' := {| tprim := tprim a; tname := name |}).
  destruct (tget (k, etid en) (ftypes s)) as [n|] eqn:Et.
  - constructor; simpl.
    + exact H1.
    + rewrite (nset_keys _ _ _ _ Er). exact H2.
    + rewrite (tset_keys _ _ _ _ Et). exact H3.
    + rewrite (tset_addrs _ _ _ _ Et); [exact H4 | reflexivity].
    + intros kn Hk. apply tset_In in Hk. destruct Hk as [->|Hk]; [|apply H5; exact Hk].
      simpl. apply (H5 ((k, etid en), n)). apply tget_In. exact Et.
    + intros x xn Hin. destruct (H6 x xn Hin) as [[ax Hax] [nx [Hnx Hlx]]].
      destruct (N.eq_dec (etid xn) (etid en)) as [E|E].
      * rewrite E in *. rewrite Er in Hax. inversion Hax; subst. rewrite Et in Hnx. inversion Hnx; subst nx.
        split; [exists a'; apply nget_nset_same|]. eexists. split; [apply tget_tset_same | exact Hlx].
      * split; [exists ax; rewrite nget_nset_other by exact E; exact Hax|]. exists nx. split; [|exact Hlx].
        rewrite tget_tset_other; [exact Hnx|]. intros Hk. inversion Hk. contradiction.
  - constructor; simpl; try assumption.
    + rewrite (nset_keys _ _ _ _ Er). exact H2.
    + intros x xn Hin. destruct (H6 x xn Hin) as [[ax Hax] Hrest]. split; [|exact Hrest].
      destruct (N.eq_dec (etid xn) (etid en)) as [E|E].
      * rewrite E in *. rewrite Er in Hax. inversion Hax; subst. exists a'. apply nget_nset_same.
      * exists ax. rewrite nget_nset_other by exact E. exact Hax.
Qed.

Lemma alive_In s tid : alive s tid = true -> exists e en, In (e, en) (ents s) /\ etid en = tid.
Proof.
  unfold alive. intros H. apply existsb_exists in H. destruct H as [[e en] [Hin E]]. apply N.eqb_eq in E. exists e, en. split; assumption.
Qed.

Lemma tinv_create s e k p tid prim name : TInv s -> fresh_op s (Create e k p tid prim name) = true ->
  TInv (fst (do_create s e k p tid prim name)).
Proof.
  intros H Hf. pose proof H as [H1 H2 H3 H4 H5 H6]. simpl in Hf. unfold do_create.
  destruct (nget e (ents s)) eqn:Ee; [exact H|]. destruct (nget p (ents s)) as [pe|]; [|exact H].
  destruct (negb (can_hold (ekind pe) k)); [exact H|].
  destruct (nget e (fents s)) eqn:Efe; [discriminate|].
  set (a := {| tprim := prim; tname := name |}).
  (* the registry after find_or_create *)
  assert (Hreg : forall reg', (match nget tid (reg s) with
              | Some (k', _) => if alive s tid then if tkind_eqb k' k then Some (reg s) else None else Some (nset tid (k, a) (reg s))
              | None => Some (reg s ++ [(tid, (k, a))])
              end) = Some reg' ->
      NoDup (map fst reg') /\ (exists x, nget tid reg' = Some (k, x)) /\
      (forall t, t <> tid -> nget t reg' = nget t (reg s)) /\
      (alive s tid = true -> reg' = reg s)).
  { intros reg' E. destruct (nget tid (reg s)) as [[k' a0]|] eqn:Er.
    - destruct (alive s tid) eqn:Al.
      + destruct (tkind_eqb k' k) eqn:Ek; [|discriminate]. inversion E; subst reg'. apply tkind_eqb_eq in Ek. subst k'.
        split; [exact H2|]. split; [exists a0; exact Er|]. split; [reflexivity | reflexivity].
      + inversion E; subst reg'. split; [rewrite (nset_keys _ _ _ _ Er); exact H2|].
        split; [exists a; apply nget_nset_same|]. split; [intros t Ht; apply nget_nset_other; exact Ht | discriminate].
    - inversion E; subst reg'. split.
      + rewrite map_app. simpl. apply nodup_snoc; [exact H2 | apply nget_None; exact Er].
      + split; [exists a; rewrite nget_app, Er; simpl; rewrite N.eqb_refl; reflexivity|].
        split; [|intros Al; apply alive_In in Al; destruct Al as [x [xn [Hin Ex]]];
                  destruct (H6 x xn Hin) as [[ax Hax] _]; rewrite Ex, Er in Hax; discriminate].
        intros t Ht. rewrite nget_app. destruct (nget t (reg s)); [reflexivity|]. simpl.
        apply N.eqb_neq in Ht. rewrite Ht. reflexivity. }
  destruct (match nget tid (reg s) with
            | Some (k', _) => if alive s tid then if tkind_eqb k' k then Some (reg s) else None else Some (nset tid (k, a) (reg s))
            | None => Some (reg s ++ [(tid, (k, a))])
            end) as [reg'|] eqn:Ereg; [|exact H].
  destruct (Hreg reg' eq_refl) as [R1 [[x0 R2] [R3 R4]]].
  assert (Hold : forall x xn, In (x, xn) (ents s) -> exists ax, nget (etid xn) reg' = Some (ekind xn, ax)).
  { intros x xn Hin. destruct (H6 x xn Hin) as [[ax Hax] _].
    destruct (N.eq_dec (etid xn) tid) as [E|E].
    - rewrite (R4 (eq_trans (f_equal (alive s) (eq_sym E)) (alive_user s x xn Hin))). exists ax. exact Hax.
    - exists ax. rewrite R3 by exact E. exact Hax. }
  destruct (tget (k, tid) (ftypes s)) as [n|] eqn:Et; simpl.
  - constructor; simpl; try assumption.
    + rewrite map_app. simpl. apply nodup_snoc; [exact H1 | apply nget_None; exact Ee].
    + intros x xn Hin. apply in_app_or in Hin. destruct Hin as [Hin|[Hin|[]]].
      * destruct (H6 x xn Hin) as [_ [nx [Hnx Hlx]]]. split; [apply (Hold x xn Hin)|]. exists nx. split; [exact Hnx|].
        rewrite nget_app, Hlx. reflexivity.
      * inversion Hin; subst. simpl. split; [exists x0; exact R2|]. exists n. split; [exact Et|].
        rewrite nget_app, Efe. simpl. rewrite N.eqb_refl. reflexivity.
  - set (ta := match nget tid reg' with Some (_, x) => x | None => a end).
    set (nn := {| taddr := next s; tnattrs := ta |}).
    assert (Hnew : ~ In (next s) (map (fun kn => taddr (snd kn)) (ftypes s))).
    { intros Hin. apply in_map_iff in Hin. destruct Hin as [kn [Ek Hk]]. pose proof (H5 kn Hk) as Hlt. rewrite Ek in Hlt.
      exact (N.lt_irrefl _ Hlt). }
    constructor; simpl.
    + rewrite map_app. simpl. apply nodup_snoc; [exact H1 | apply nget_None; exact Ee].
    + exact R1.
    + rewrite map_app. simpl. apply nodup_snoc; [exact H3 | apply tget_None; exact Et].
    + rewrite map_app. simpl. apply nodup_snoc; [exact H4 | exact Hnew].
    + intros kn Hk. apply in_app_or in Hk. destruct Hk as [Hk|[<-|[]]].
      * eapply N.lt_trans; [apply H5; exact Hk | apply N.lt_succ_diag_r].
      * simpl. apply N.lt_succ_diag_r.
    + intros x xn Hin. apply in_app_or in Hin. destruct Hin as [Hin|[Hin|[]]].
      * destruct (H6 x xn Hin) as [_ [nx [Hnx Hlx]]]. split; [apply (Hold x xn Hin)|]. exists nx. split.
        -- rewrite tget_app, Hnx. reflexivity.
        -- rewrite nget_app, Hlx. reflexivity.
      * inversion Hin; subst. simpl. split; [exists x0; exact R2|]. exists nn. split.
        -- rewrite tget_app, Et. simpl. rewrite tkey_eqb_refl. reflexivity.
        -- rewrite nget_app, Efe. simpl. rewrite N.eqb_refl. reflexivity.
Qed.

(* ---- close + open ---- *)
Lemma node_at_unique ft key n : NoDup (map (fun kn => taddr (snd kn)) ft) -> In (key, n) ft -> node_at (taddr n) ft = Some (key, n).
Proof.
  unfold node_at. induction ft as [|[k0 n0] r IH]; simpl; intros Hn Hin; [destruct Hin|].
  inversion Hn as [|? ? Hk Hr]; subst. destruct Hin as [E|Hin].
  - inversion E; subst. rewrite N.eqb_refl. reflexivity.
  - destruct (N.eqb (taddr n0) (taddr n)) eqn:E; [|apply IH; assumption].
    apply N.eqb_eq in E. exfalso. apply Hk. rewrite E. apply in_map_iff. exists (key, n). split; [reflexivity | exact Hin].
Qed.

(* the registry being rebuilt while loading: every entry is a stored node read for a live entity of that class *)
Definition rg_ok (s : st) (rg : list (N * (tkind * tattrs))) : Prop :=
  NoDup (map fst rg) /\
  forall tid k a, nget tid rg = Some (k, a) ->
    exists n, tget (k, tid) (ftypes s) = Some n /\ tnattrs n = a /\ exists e en, In (e, en) (ents s) /\ etid en = tid /\ ekind en = k.

Lemma ent_eta en : {| eparent := eparent en; ekind := ekind en; etid := etid en |} = en.
Proof. destruct en; reflexivity. Qed.

Lemma load_spec s : TInv s -> forall l es rg, (forall x, In x l -> In x (ents s)) -> rg_ok s rg ->
  exists rg', load s l (es, rg) = Some (es ++ l, rg') /\ rg_ok s rg' /\
    (forall tid v, nget tid rg = Some v -> nget tid rg' = Some v) /\
    (forall e en, In (e, en) l -> exists v, nget (etid en) rg' = Some v).
Proof.
  intros H. pose proof H as [H1 H2 H3 H4 H5 H6].
  induction l as [|[e en] r IH]; intros es rg Hl Hrg.
  - exists rg. rewrite app_nil_r. split; [reflexivity|]. split; [exact Hrg|]. split; [tauto | intros e en []].
  - assert (Hin : In (e, en) (ents s)) by (apply Hl; left; reflexivity).
    destruct (H6 e en Hin) as [_ [n [Hn Hlk]]].
    simpl. rewrite Hlk. rewrite (node_at_unique _ _ _ H4 (tget_In _ _ _ Hn)). rewrite ent_eta.
    set (rg1 := match nget (etid en) rg with Some _ => rg | None => rg ++ [(etid en, (ekind en, tnattrs n))] end).
    assert (Hrg1 : rg_ok s rg1 /\ (forall tid v, nget tid rg = Some v -> nget tid rg1 = Some v) /\ exists v, nget (etid en) rg1 = Some v).
    { unfold rg1. destruct (nget (etid en) rg) as [v|] eqn:E.
      - split; [exact Hrg|]. split; [tauto | exists v; exact E].
      - destruct Hrg as [G1 G2]. split; [split|].
        + rewrite map_app. simpl. apply nodup_snoc; [exact G1 | apply nget_None; exact E].
        + intros tid k a Hg. rewrite nget_app in Hg. destruct (nget tid rg) as [v|] eqn:E2.
          * inversion Hg; subst. apply G2. exact E2.
          * simpl in Hg. destruct (N.eqb tid (etid en)) eqn:E3; [|discriminate]. apply N.eqb_eq in E3. inversion Hg; subst.
            exists n. split; [exact Hn|]. split; [reflexivity|]. exists e, en. repeat split. exact Hin.
        + split; [intros tid v Hv; rewrite nget_app, Hv; reflexivity|].
          eexists. rewrite nget_app, E. simpl. rewrite N.eqb_refl. reflexivity. }
    destruct Hrg1 as [K1 [K2 [v1 K3]]].
    destruct (IH (es ++ [(e, en)]) rg1 (fun x Hx => Hl x (or_intror Hx)) K1) as [rg' [E' [G' [M' C']]]].
    exists rg'. split; [rewrite E', <- app_assoc; reflexivity|]. split; [exact G'|].
    split; [intros tid v Hv; apply M'; apply K2; exact Hv|].
    intros x xn [Hx|Hx]; [inversion Hx; subst; exists v1; apply M'; exact K3 | apply (C' x xn Hx)].
Qed.

Lemma reopen_spec s : TInv s ->
  exists rg, do_reopen s = ({| ents := ents s; reg := rg; ftypes := ftypes s; fents := fents s; next := next s |}, Done) /\
             rg_ok s rg /\ forall e en, In (e, en) (ents s) -> exists v, nget (etid en) rg = Some v.
Proof.
  intros H. destruct (load_spec s H (ents s) [] [] (fun x Hx => Hx)) as [rg [E [G [_ Cc]]]].
  { split; [constructor | intros tid k a Hg; discriminate]. }
  exists rg. unfold do_reopen. rewrite E. simpl. split; [reflexivity|]. split; assumption.
Qed.

Lemma user_kind s : TInv s -> forall e1 n1 e2 n2, In (e1, n1) (ents s) -> In (e2, n2) (ents s) -> etid n1 = etid n2 -> ekind n1 = ekind n2.
Proof.
  intros H e1 n1 e2 n2 I1 I2 E. destruct (ti_link _ H e1 n1 I1) as [[a1 A1] _]. destruct (ti_link _ H e2 n2 I2) as [[a2 A2] _].
  rewrite E in A1. rewrite A1 in A2. inversion A2. reflexivity.
Qed.

Lemma tinv_reopen s : TInv s -> TInv (fst (do_reopen s)) /\ snd (do_reopen s) = Done.
Proof.
  intros H. destruct (reopen_spec s H) as [rg [E [[G1 G2] Cc]]]. rewrite E. simpl. split; [|reflexivity].
  pose proof H as [H1 H2 H3 H4 H5 H6]. constructor; simpl; try assumption.
  intros e en Hin. destruct (H6 e en Hin) as [_ Hrest]. split; [|exact Hrest].
  destruct (Cc e en Hin) as [[k a] Hv]. destruct (G2 _ _ _ Hv) as [n [_ [_ [e2 [n2 [I2 [Et Ek]]]]]]].
  exists a. rewrite Hv. f_equal. f_equal. rewrite <- Ek. apply (user_kind s H e2 n2 e en I2 Hin Et).
Qed.

Theorem tinv_step : forall s o, TInv s -> fresh_op s o = true -> TInv (fst (step s o)).
Proof.
  intros s o H Hf. destruct o as [e k p tid prim name | e | e | | e name | ]; unfold step.
  - apply tinv_create; assumption.
  - rewrite do_remove_ws_eq. destruct (nget e (ents s)); [|exact H]. destruct (N.eqb e root_id); [exact H|]. simpl.
    apply tinv_sweep. apply tinv_after_rm. exact H.
  - apply tinv_remove_parent. exact H.
  - apply tinv_sweep. exact H.
  - apply tinv_set_tname. exact H.
  - apply tinv_reopen. exact H.
Qed.

Lemma run_cons o r s : run (o :: r) s = run r (fst (step s o)).
Proof. reflexivity. Qed.

Theorem tinv_run : forall ops, fresh_run ops init = true -> TInv (run ops init).
Proof.
  intros ops. generalize tinv_init. generalize init. induction ops as [|o r IH]; intros s H Hf; [exact H|].
  simpl in Hf. apply andb_true_iff in Hf. destruct Hf as [F1 F2]. rewrite run_cons. apply IH; [apply tinv_step; assumption | exact F2].
Qed.

(* C02, in words: after every such history every live entity's Type link is the node stored under its type identifier *)
Theorem type_links_shared : forall ops, fresh_run ops init = true -> let s := run ops init in
  NoDup (map fst (ftypes s)) /\
  forall e en, In (e, en) (ents s) ->
    exists n, tget (ekind en, etid en) (ftypes s) = Some n /\ nget e (fents s) = Some (taddr n).
Proof.
  intros ops Hf s. pose proof (tinv_run ops Hf) as H. fold s in H. split; [exact (ti_types _ H)|].
  intros e en Hin. apply (ti_link _ H e en Hin).
Qed.

(* the observable form used by the correspondence: every row of link_view says "same object" *)
Theorem link_view_ok : forall ops, fresh_run ops init = true ->
  forall r, In r (link_view (run ops init)) -> snd (fst r) = true.
Proof.
  intros ops Hf r Hr. pose proof (tinv_run ops Hf) as H. unfold link_view in Hr. apply in_map_iff in Hr.
  destruct Hr as [[e en] [<- Hin]]. destruct (ti_link _ H e en Hin) as [_ [n [Hn Hl]]]. rewrite Hl, Hn. simpl. apply N.eqb_refl.
Qed.

(* ======================================================================================================== *)
(* C01 — the stored type attributes are those of the live type objects; re-open                              *)
(* ======================================================================================================== *)
Lemma sync_init : attrs_sync init.
Proof.
  intros e en k a n [H|[]] Hr Ht. inversion H; subst. simpl in *. inversion Hr; subst. inversion Ht; subst. reflexivity.
Qed.

Lemma sync_sweep s : attrs_sync s -> attrs_sync (sweep s).
Proof.
  intros H e en k a n Hin Hr Ht. simpl in *.
  rewrite (nget_filter (fun t => alive s t)) in Hr. destruct (alive s (etid en)); [|discriminate].
  rewrite (tget_filter (fun key => negb (memN (snd key) (dead_tids s)))) in Ht.
  destruct (negb (memN (snd (ekind en, etid en)) (dead_tids s))); [|discriminate]. eapply H; eassumption.
Qed.

Lemma sync_drop s (f : N -> bool) fe' : attrs_sync s ->
  attrs_sync {| ents := filter (fun p => f (fst p)) (ents s); reg := reg s; ftypes := ftypes s; fents := fe'; next := next s |}.
Proof. intros H e en k a n Hin Hr Ht. simpl in *. apply filter_In in Hin. eapply H; [apply Hin | exact Hr | exact Ht]. Qed.

Lemma sync_set_tname s e name : TInv s -> attrs_sync s -> attrs_sync (fst (do_set_tname s e name)).
Proof.
  intros HI H. unfold do_set_tname.
  destruct (nget e (ents s)) as [en|] eqn:Ee; [|exact H].
  destruct (nget (etid en) (reg s)) as [[k a]|] eqn:Er; [|exact H]. simpl.
  intros x xn k0 a0 n0 Hin Hr Ht. simpl in *.
  destruct (ti_link _ HI x xn Hin) as [[ax Hax] _].
  destruct (N.eq_dec (etid xn) (etid en)) as [E|E].
  - rewrite E in *. rewrite Er in Hax. inversion Hax; subst. rewrite nget_nset_same in Hr. inversion Hr; subst.
    destruct (tget (ekind xn, etid en) (ftypes s)) as [n|] eqn:Et; [|rewrite Et in Ht; discriminate].
    rewrite tget_tset_same in Ht. inversion Ht; subst. reflexivity.
  - rewrite nget_nset_other in Hr by exact E.
    assert (Ht' : tget (ekind xn, etid xn) (ftypes s) = Some n0).
    { destruct (tget (k, etid en) (ftypes s)); [|exact Ht]. rewrite tget_tset_other in Ht; [exact Ht|].
      intros Hk. inversion Hk. contradiction. }
    eapply H; eassumption.
Qed.

Lemma sync_create s e k p tid prim name : TInv s -> attrs_sync s ->
  fresh_op s (Create e k p tid prim name) = true -> fresh_type_op s (Create e k p tid prim name) = true ->
  attrs_sync (fst (do_create s e k p tid prim name)).
Proof.
  intros HI H Hf Hft. pose proof HI as [H1 H2 H3 H4 H5 H6]. simpl in Hf, Hft. unfold do_create.
  destruct (nget e (ents s)) eqn:Ee; [exact H|]. destruct (nget p (ents s)) as [pe|]; [|exact H].
  destruct (negb (can_hold (ekind pe) k)); [exact H|].
  set (a := {| tprim := prim; tname := name |}).
  destruct (match nget tid (reg s) with
            | Some (k', _) => if alive s tid then if tkind_eqb k' k then Some (reg s) else None else Some (nset tid (k, a) (reg s))
            | None => Some (reg s ++ [(tid, (k, a))])
            end) as [reg'|] eqn:Ereg; [|exact H].
  (* what find_or_create did to the other identifiers / when the identifier is live *)
  assert (R3 : forall t, t <> tid -> nget t reg' = nget t (reg s)).
  { intros t Ht. destruct (nget tid (reg s)) as [[k' a0]|] eqn:Er.
    - destruct (alive s tid); [destruct (tkind_eqb k' k); [inversion Ereg; reflexivity | discriminate]|].
      inversion Ereg; subst. apply nget_nset_other. exact Ht.
    - inversion Ereg; subst. rewrite nget_app. destruct (nget t (reg s)); [reflexivity|]. simpl.
      apply N.eqb_neq in Ht. rewrite Ht. reflexivity. }
  assert (R4 : alive s tid = true -> reg' = reg s).
  { intros Al. destruct (nget tid (reg s)) as [[k' a0]|] eqn:Er.
    - rewrite Al in Ereg. destruct (tkind_eqb k' k); [inversion Ereg; reflexivity | discriminate].
    - apply alive_In in Al. destruct Al as [x [xn [Hin Ex]]]. destruct (H6 x xn Hin) as [[ax Hax] _].
      rewrite Ex, Er in Hax. discriminate. }
  assert (Hold : forall x xn k0 a0 n0, In (x, xn) (ents s) -> nget (etid xn) reg' = Some (k0, a0) ->
                  tget (ekind xn, etid xn) (ftypes s) = Some n0 -> tnattrs n0 = a0).
  { intros x xn k0 a0 n0 Hin Hr Ht. destruct (N.eq_dec (etid xn) tid) as [E|E].
    - rewrite (R4 (eq_trans (f_equal (alive s) (eq_sym E)) (alive_user s x xn Hin))) in Hr. eapply H; eassumption.
    - rewrite R3 in Hr by exact E. eapply H; eassumption. }
  destruct (tget (k, tid) (ftypes s)) as [n|] eqn:Et; simpl.
  - intros x xn k0 a0 n0 Hin Hr Ht. simpl in *. apply in_app_or in Hin. destruct Hin as [Hin|[Hin|[]]]; [eapply Hold; eassumption|].
    inversion Hin; subst. simpl in *. rewrite Et in Ht. inversion Ht; subst n0.
    assert (Al : alive s tid = true).
    { destruct (alive s tid); [reflexivity|]. simpl in Hft. apply negb_true_iff in Hft.
      assert (Ex : existsb (fun kn => N.eqb (snd (fst kn)) tid) (ftypes s) = true).
      { apply existsb_exists. exists ((k, tid), n). split; [apply tget_In; exact Et | simpl; apply N.eqb_refl]. }
      congruence. }
    assert (Kk : k0 = k).
    { rewrite (R4 Al) in Hr. rewrite Hr, Al in Ereg. destruct (tkind_eqb k0 k) eqn:Ekk; [apply tkind_eqb_eq; exact Ekk | discriminate]. }
    rewrite (R4 Al) in Hr. destruct (alive_In _ _ Al) as [y [yn [Hy Ey]]].
    destruct (H6 y yn Hy) as [[ay Hay] _]. rewrite Ey in Hay. rewrite Hr in Hay. inversion Hay as [[Ek Ea]]. rewrite <- ?Ea.
    apply (H y yn k0 a0 n Hy); [rewrite Ey; exact Hr | rewrite Ey, <- Ek, Kk; exact Et].
  - intros x xn k0 a0 n0 Hin Hr Ht. simpl in *. apply in_app_or in Hin. destruct Hin as [Hin|[Hin|[]]].
    + destruct (H6 x xn Hin) as [_ [nx [Hnx _]]]. rewrite tget_app, Hnx in Ht. inversion Ht; subst. eapply Hold; eassumption.
    + inversion Hin; subst. simpl in *. rewrite tget_app, Et in Ht. simpl in Ht. rewrite tkey_eqb_refl in Ht. inversion Ht; subst.
      simpl. rewrite Hr. reflexivity.
Qed.

Lemma sync_reopen s : TInv s -> attrs_sync s -> attrs_sync (fst (do_reopen s)).
Proof.
  intros HI H. destruct (reopen_spec s HI) as [rg [E [[G1 G2] Cc]]]. rewrite E. simpl.
  intros e en k a n Hin Hr Ht. simpl in *. destruct (G2 _ _ _ Hr) as [n' [Hn' [Ha' [e2 [n2 [I2 [Et Ek]]]]]]].
  rewrite <- Ek, (user_kind s HI e2 n2 e en I2 Hin Et) in Hn'. rewrite Hn' in Ht. inversion Ht; subst. reflexivity.
Qed.

Theorem sync_step : forall s o, TInv s -> attrs_sync s -> fresh_op s o = true -> fresh_type_op s o = true ->
  attrs_sync (fst (step s o)).
Proof.
  intros s o HI H Hf Hft. destruct o as [e k p tid prim name | e | e | | e name | ]; unfold step.
  - apply sync_create; assumption.
  - rewrite do_remove_ws_eq. destruct (nget e (ents s)); [|exact H]. destruct (N.eqb e root_id); [exact H|]. simpl.
    apply sync_sweep. unfold after_rm. apply (sync_drop s (fun x => negb (memN x (sub_ids s e)))). exact H.
  - unfold do_remove_parent. destruct (nget e (ents s)); [|exact H]. destruct (N.eqb e root_id); [exact H|]. simpl.
    apply (sync_drop s (fun x => negb (memN x (sub_ids s e)))). exact H.
  - apply sync_sweep. exact H.
  - apply sync_set_tname; assumption.
  - apply sync_reopen; assumption.
Qed.

Lemma inv_sync_run : forall ops s, TInv s -> attrs_sync s -> fresh_types_run ops s = true ->
  TInv (run ops s) /\ attrs_sync (run ops s).
Proof.
  induction ops as [|o r IH]; intros s HI H Hf; [split; assumption|].
  simpl in Hf. apply andb_true_iff in Hf. destruct Hf as [Hf F3]. apply andb_true_iff in Hf. destruct Hf as [F1 F2].
  rewrite run_cons. apply IH; [apply tinv_step; assumption | apply sync_step; assumption | exact F3].
Qed.

(* one re-open, from any state where links and attributes are in order *)
Theorem reopen_types_state : forall s, TInv s -> attrs_sync s ->
  snd (step s Reopen) = Done /\ mem_view (fst (step s Reopen)) = mem_view s.
Proof.
  intros s HI H. simpl. destruct (reopen_spec s HI) as [rg [E [[G1 G2] Cc]]]. rewrite E. simpl. split; [reflexivity|].
  unfold mem_view. simpl. apply map_ext_in. intros [e en] Hin.
  destruct (Cc e en Hin) as [[k a] Hv]. rewrite Hv.
  destruct (G2 _ _ _ Hv) as [n [Hn [Ha [e2 [n2 [I2 [Et Ek]]]]]]].
  destruct (ti_link _ HI e en Hin) as [[a0 Ha0] _]. rewrite Ha0.
  rewrite <- Ek, (user_kind s HI e2 n2 e en I2 Hin Et) in Hn. rewrite <- (H e en _ _ _ Hin Ha0 Hn), Ha. reflexivity.
Qed.

(* C01 *)
Theorem reopen_types : forall ops, fresh_types_run ops init = true ->
  let s := run ops init in
  snd (step s Reopen) = Done /\ mem_view (fst (step s Reopen)) = mem_view s.
Proof.
  intros ops Hf s. destruct (inv_sync_run ops init tinv_init sync_init Hf) as [HI H]. apply reopen_types_state; assumption.
Qed.

(* ---- refutation without the side condition: the stale-type-reused witness ---- *)
Definition C01_types_full : Prop :=
  forall ops, let s := run ops init in mem_view (fst (step s Reopen)) = mem_view s.

(* group, points object, float data under the caller-supplied type identifier 10; the data is removed through its parent
   (its type dies, the node under Types stays); integer data under the same identifier: write_entity_type returns the stale
   node untouched; after close + open the data is float again, under the old type name *)
Definition ops_stale_type : list op :=
  [Create 1 TG 0 2 0 2; Create 2 TO 1 3 0 3; Create 3 TD 2 10 1 21; RemoveParent 3; Create 4 TD 2 10 2 22].

Theorem C01_types_full_refuted : ~ C01_types_full.
Proof. intros H. specialize (H ops_stale_type). vm_compute in H. discriminate H. Qed.

Lemma ops_stale_type_flags : fresh_run ops_stale_type init = true /\ fresh_types_run ops_stale_type init = false.
Proof. vm_compute. split; reflexivity. Qed.

(* ---- non-vacuity ---- *)
(* a group, two objects; a data type (10) shared by two data while live; a rename of the shared type; one user removed
   through the workspace (type still alive), the other through its parent (type dead, unswept), the listing sweeps it and
   the identifier comes back fresh with another primitive type; an object removed through the workspace with its data
   (their types swept at the end); re-opens *)
Definition ops_demo_t : list op :=
  [Create 1 TG 0 2 0 2; Create 2 TO 1 3 0 3; Create 3 TO 1 4 0 4;
   Create 4 TD 2 10 1 21; Create 5 TD 3 10 2 22; SetTypeName 5 23;
   Reopen; RemoveWs 4; RemoveParent 5; ListTypes; Create 6 TD 2 10 2 24;
   Create 7 TD 3 11 1 25; RemoveWs 3; Create 8 TD 2 11 2 26; Reopen].

Lemma ops_demo_t_ok :
  fresh_types_run ops_demo_t init = true /\
  map (fun n => snd (step (run (firstn n ops_demo_t) init) (nth n ops_demo_t Reopen))) (seq 0 15)
  = [Done; Done; Done; Done; Done; Done; Done; Done; Done; Done; Done; Done; Done; Done; Done] /\
  mem_view (run ops_demo_t init)
  = [(0, 0, TG, 1, 0, 1); (1, 0, TG, 2, 0, 2); (2, 1, TO, 3, 0, 3); (6, 2, TD, 10, 2, 24); (8, 2, TD, 11, 2, 26)]%N /\
  types_view (run ops_demo_t init)
  = [(TG, 1, 0, 1); (TG, 2, 0, 2); (TO, 3, 0, 3); (TD, 10, 2, 24); (TD, 11, 2, 26)]%N.
Proof. vm_compute. repeat split. Qed.

Lemma fresh_types_fresh ops : forall s, fresh_types_run ops s = true -> fresh_run ops s = true.
Proof.
  induction ops as [|o r IH]; intros s H; [reflexivity|]. simpl in *.
  apply andb_true_iff in H. destruct H as [H H3]. apply andb_true_iff in H. destruct H as [H1 _].
  rewrite H1. simpl. apply IH. exact H3.
Qed.
