From GV Require Import Prelude.Base Model.ConcatDtype.

Lemma cast_join_l a b e : same_family a b = true -> fits a e = true -> denote (cast (join a b) e) = denote e /\ fits (join a b) (cast (join a b) e) = true.
Proof.
  destruct a as [| |x], b as [| |y], e as [z|t|s]; simpl; intros F H; try discriminate; auto.
  apply Nat.leb_le in H. rewrite firstn_all2 by lia. split; [reflexivity|]. apply Nat.leb_le. lia.
Qed.

Lemma cast_join_r a b e : same_family a b = true -> fits b e = true -> denote (cast (join a b) e) = denote e /\ fits (join a b) (cast (join a b) e) = true.
Proof.
  destruct a as [| |x], b as [| |y], e as [z|t|s]; simpl; intros F H; try discriminate; auto.
  apply Nat.leb_le in H. rewrite firstn_all2 by lia. split; [reflexivity|]. apply Nat.leb_le. lia.
Qed.

Lemma hstack_decodes x y :
  same_family (fst x) (fst y) = true -> forallb (fits (fst x)) (snd x) = true -> forallb (fits (fst y)) (snd y) = true ->
  decode (hstack x y) = decode x ++ decode y /\ forallb (fits (fst (hstack x y))) (snd (hstack x y)) = true.
Proof.
  destruct x as [a xs], y as [b ys]. unfold decode, hstack. simpl. intros F Hx Hy.
  rewrite map_app, map_app, forallb_app. rewrite !forallb_forall in *.
  assert (Gx : forall e, In e xs -> denote (cast (join a b) e) = denote e /\ fits (join a b) (cast (join a b) e) = true)
    by (intros e He; apply cast_join_l; [exact F | apply Hx; exact He]).
  assert (Gy : forall e, In e ys -> denote (cast (join a b) e) = denote e /\ fits (join a b) (cast (join a b) e) = true)
    by (intros e He; apply cast_join_r; [exact F | apply Hy; exact He]).
  split.
  - rewrite !map_map. f_equal; apply map_ext_in; intros e He; [apply Gx | apply Gy]; exact He.
  - apply andb_true_iff. split; apply forallb_forall; intros e He; apply in_map_iff in He as (e0 & <- & He0); [apply Gx | apply Gy]; exact He0.
Qed.

(* 'abc' first, then 'sandstone' : <U3 imposed on the later hole cuts it to 'san'; 1,2 (int32) first, then 2.5: 2 *)
Lemma keep_first_loses :
  exists x y, same_family (fst x) (fst y) = true /\ forallb (fits (fst x)) (snd x) = true /\ forallb (fits (fst y)) (snd y) = true
              /\ decode (hstack_keep_first x y) <> decode x ++ decode y.
Proof.
  exists (DInt, [EI 1; EI 2]%Z), (DFloat, [EH 5]%Z). repeat split; try reflexivity. vm_compute. discriminate.
Qed.

Lemma keep_first_loses_text :
  decode (hstack_keep_first (DStr 3, [ES [1; 2; 3]]) (DStr 9, [ES [19; 1; 14; 4; 19; 20; 15; 14; 5]]))
  = [VText [1; 2; 3]; VText [19; 1; 14]].
Proof. reflexivity. Qed.

Lemma store_cast_id a b e :
  same_family a b = true -> (fits a e = true \/ fits b e = true) -> in_domain e = true ->
  store_el (cast (join a b) e) = cast (join a b) e.
Proof.
  destruct a as [| |x], b as [| |y], e as [z|t|s]; simpl; intros F H D; try discriminate; try reflexivity;
    try (destruct H; discriminate); unfold round32; rewrite D; reflexivity.
Qed.

Lemma stored_hstack_decodes x y :
  same_family (fst x) (fst y) = true -> forallb (fits (fst x)) (snd x) = true -> forallb (fits (fst y)) (snd y) = true ->
  forallb in_domain (snd x) = true -> forallb in_domain (snd y) = true ->
  decode (stored (hstack x y)) = decode x ++ decode y.
Proof.
  intros F Hx Hy Dx Dy. destruct (hstack_decodes x y F Hx Hy) as [Hd _]. rewrite <- Hd.
  destruct x as [a xs], y as [b ys]. unfold decode, stored, hstack. simpl in *. rewrite !map_map.
  apply map_ext_in. intros e He. rewrite forallb_forall in Hx, Hy, Dx, Dy.
  apply in_app_or in He as [He | He]; rewrite store_cast_id; auto.
Qed.

(* an int32 column that shares its label with float data: 16777217 is stored as float32 and comes back as 16777216 *)
Lemma stored_large_int_altered :
  exists x y, same_family (fst x) (fst y) = true /\ forallb (fits (fst x)) (snd x) = true /\ forallb (fits (fst y)) (snd y) = true
              /\ decode (stored (hstack x y)) <> decode x ++ decode y.
Proof.
  exists (DInt, [EI 16777217]%Z), (DFloat, [EH 5]%Z). repeat split; try reflexivity. vm_compute. discriminate.
Qed.
