(* Proofs about Model/PGroups.v: what the index-stepping loop of ObjectBase.remove_data_from_groups computes. *)
From GV Require Import Prelude.Base Model.PGroups.

(* ---------------- basic facts ---------------- *)
Lemma memb_In x l : memb x l = true <-> In x l.
Proof.
  unfold memb. rewrite existsb_exists. split.
  - intros [y [Hy E]]. apply Nat.eqb_eq in E. subst. exact Hy.
  - intros H. exists x. split; [exact H | apply Nat.eqb_refl].
Qed.

Lemma memb_false x l : memb x l = false <-> ~ In x l.
Proof.
  rewrite <- memb_In. destruct (memb x l); split; intros H.
  - discriminate.
  - exfalso. apply H. reflexivity.
  - intros E. discriminate.
  - reflexivity.
Qed.

Lemma remove_first_notin d l : ~ In d l -> remove_first d l = l.
Proof.
  induction l as [|y r IH]; simpl; intros H; [reflexivity|].
  destruct (Nat.eqb d y) eqn:E.
  - apply Nat.eqb_eq in E. subst. exfalso. apply H. left. reflexivity.
  - f_equal. apply IH. intros Hr. apply H. right. exact Hr.
Qed.

Lemma remove_first_incl d l x : In x (remove_first d l) -> In x l.
Proof.
  induction l as [|y r IH]; simpl; [tauto|].
  destruct (Nat.eqb d y); simpl; [tauto|]. intros [H|H]; [left; exact H | right; apply IH; exact H].
Qed.

Lemma remove_first_NoDup d l : NoDup l -> NoDup (remove_first d l).
Proof.
  induction 1 as [|y r Hy Hr IH]; simpl; [constructor|].
  destruct (Nat.eqb d y); [exact Hr|]. constructor; [|exact IH].
  intros H. apply Hy. eapply remove_first_incl. exact H.
Qed.

Lemma remove_first_NoDup_notin d l : NoDup l -> ~ In d (remove_first d l).
Proof.
  induction 1 as [|y r Hy Hr IH]; simpl; [tauto|].
  destruct (Nat.eqb d y) eqn:E.
  - apply Nat.eqb_eq in E. subst. exact Hy.
  - simpl. intros [H|H]; [subst; rewrite Nat.eqb_refl in E; discriminate | exact (IH H)].
Qed.

Lemma remove_first_other d l x : x <> d -> In x l -> In x (remove_first d l).
Proof.
  intros Hx. induction l as [|y r IH]; simpl; [tauto|].
  destruct (Nat.eqb d y) eqn:E.
  - apply Nat.eqb_eq in E. subst. intros [H|H]; [congruence | exact H].
  - simpl. intros [H|H]; [left; exact H | right; apply IH; exact H].
Qed.

(* a group that is emptied by removing d from a non-empty duplicate-free list is exactly [d] *)
Lemma emptied_is_singleton d l : l <> [] -> remove_first d l = [] -> l = [d].
Proof.
  destruct l as [|y r]; [congruence|]. intros _. simpl.
  destruct (Nat.eqb d y) eqn:E; [|discriminate]. apply Nat.eqb_eq in E. intros; subst. reflexivity.
Qed.

Lemma is_nil_true {A} (l : list A) : is_nil l = true <-> l = [].
Proof. destruct l; simpl; split; congruence. Qed.

Lemma nth_error_app_len {A} (pre : list A) x r : nth_error (pre ++ x :: r) (length pre) = Some x.
Proof. induction pre; simpl; [reflexivity | exact IHpre]. Qed.

Lemma set_nth_app_len {A} (pre : list A) a x r : set_nth (length pre) a (pre ++ x :: r) = pre ++ a :: r.
Proof. induction pre; simpl; [reflexivity | f_equal; exact IHpre]. Qed.

Lemma set_nth_length {A} i (a : A) l : length (set_nth i a l) = length l.
Proof. revert i; induction l; intros [|i]; simpl; try reflexivity. f_equal. apply IHl. Qed.

Lemma remove_grp_length g gs : length (remove_grp g gs) <= length gs.
Proof.
  induction gs as [|[h l] r IH]; simpl; [lia|]. destruct (Nat.eqb g h); simpl; lia.
Qed.

Lemma remove_grp_app_notin g pre l r :
  ~ In g (map fst pre) -> remove_grp g (pre ++ (g, l) :: r) = pre ++ r.
Proof.
  induction pre as [|[h m] p IH]; simpl; intros H.
  - rewrite Nat.eqb_refl. reflexivity.
  - destruct (Nat.eqb g h) eqn:E.
    + apply Nat.eqb_eq in E. subst. exfalso. apply H. left. reflexivity.
    + f_equal. apply IH. intros Hp. apply H. right. exact Hp.
Qed.

Lemma snoc_app {A} (pre : list A) x r : pre ++ x :: r = (pre ++ [x]) ++ r.
Proof. rewrite <- app_assoc. reflexivity. Qed.
Lemma length_snoc {A} (pre : list A) x : length (pre ++ [x]) = S (length pre).
Proof. rewrite app_length. simpl. lia. Qed.

(* ---------------- the loop never runs out of its iteration bound ---------------- *)
Lemma scrub_visit_length d gs i g l : length (scrub_visit d gs i g l) <= length gs.
Proof.
  unfold scrub_visit. destruct (is_nil (remove_first d l)).
  - etransitivity; [apply remove_grp_length|]. rewrite set_nth_length. lia.
  - rewrite set_nth_length. lia.
Qed.

Lemma scrub_loop_fuel k : forall m d gs i,
  length gs <= i + k -> scrub_loop (k + m) d gs i = scrub_loop k d gs i.
Proof.
  induction k as [|k IH]; intros m d gs i H.
  - simpl. destruct m; simpl; [reflexivity|].
    destruct (nth_error gs i) eqn:E; [|reflexivity].
    assert (i < length gs) by (apply nth_error_Some; congruence). lia.
  - simpl. destruct (nth_error gs i) as [[g l]|]; [|reflexivity].
    apply IH. pose proof (scrub_visit_length d gs i g l). lia.
Qed.

(* ---------------- what the pinned loop computes, as a function of the unvisited suffix ---------------- *)
Fixpoint scrub_def (d : nat) (suf : list grp) : list grp :=
  match suf with
  | [] => []
  | (g, l) :: r =>
      let l' := remove_first d l in
      if is_nil l' then match r with [] => [] | x :: r2 => x :: scrub_def d r2 end   (* the next group is skipped *)
      else (g, l') :: scrub_def d r
  end.

Lemma scrub_loop_def k : forall d (pre suf : list grp),
  NoDup (map fst (pre ++ suf)) -> length suf <= k ->
  scrub_loop k d (pre ++ suf) (length pre) = pre ++ scrub_def d suf.
Proof.
  induction k as [|k IH]; intros d pre suf ND Hk.
  - destruct suf; [simpl; reflexivity | simpl in Hk; lia].
  - destruct suf as [|[g l] r].
    + simpl. rewrite !app_nil_r.
      destruct (nth_error pre (length pre)) as [[g l]|] eqn:E; [|reflexivity].
      exfalso. assert (length pre < length pre) by (apply nth_error_Some; rewrite E; discriminate). lia.
    + cbn [scrub_loop]. rewrite nth_error_app_len. unfold scrub_visit. rewrite set_nth_app_len.
      cbn [scrub_def]. destruct (is_nil (remove_first d l)) eqn:En.
      * assert (Hg : ~ In g (map fst pre)).
        { rewrite map_app in ND. simpl in ND. apply NoDup_remove_2 in ND. intros H. apply ND. apply in_or_app. left. exact H. }
        rewrite remove_grp_app_notin by exact Hg.
        destruct r as [|x r2].
        -- cbn iota. rewrite !app_nil_r. destruct k; cbn [scrub_loop]; [reflexivity|].
           destruct (nth_error pre (S (length pre))) as [[g' l']|] eqn:E; [|reflexivity].
           exfalso. assert (S (length pre) < length pre) by (apply nth_error_Some; rewrite E; discriminate). lia.
        -- rewrite (snoc_app pre x r2), <- (length_snoc pre x).
           rewrite IH.
           ++ rewrite <- app_assoc. reflexivity.
           ++ rewrite <- app_assoc. simpl. rewrite map_app in ND |- *. simpl in ND |- *.
              apply NoDup_remove_1 in ND. exact ND.
           ++ simpl in Hk. lia.
      * rewrite (snoc_app pre (g, remove_first d l) r), <- (length_snoc pre (g, remove_first d l)).
        rewrite IH.
        -- rewrite <- app_assoc. reflexivity.
        -- rewrite <- app_assoc. simpl. rewrite map_app in ND |- *. simpl in ND |- *. exact ND.
        -- simpl in Hk. lia.
Qed.

Lemma scrub_is_def d gs : NoDup (map fst gs) -> scrub d gs = scrub_def d gs.
Proof. intros ND. unfold scrub. apply (scrub_loop_def (length gs) d [] gs); [exact ND | lia]. Qed.

(* ---------------- the side condition under which nothing harmful is skipped ---------------- *)
Definition nonempty_groups (gs : list grp) : Prop := Forall (fun p => snd p <> []) gs.

Lemma def_eq_spec_n n : forall d gs,
  length gs <= n -> nonempty_groups gs -> no_skip d gs = true -> scrub_def d gs = scrub_spec d gs.
Proof.
  induction n as [|n IH]; intros d gs Hn NE NS.
  - destruct gs; [reflexivity | simpl in Hn; lia].
  - destruct gs as [|[g l] r]; [reflexivity|].
    cbn [scrub_def scrub_spec]. inversion NE as [|? ? Hl NEr]; subst. simpl in Hl.
    cbn [no_skip] in NS. apply andb_true_iff in NS as [NS1 NS2].
    destruct (is_nil (remove_first d l)) eqn:En.
    + destruct r as [|[g2 l2] r2]; [reflexivity|].
      apply is_nil_true in En. pose proof (emptied_is_singleton d l Hl En) as ->.
      simpl in NS1. rewrite Nat.eqb_refl in NS1. simpl in NS1.
      assert (Hd : ~ In d l2).
      { apply memb_false. destruct (memb d l2); [discriminate | reflexivity]. }
      cbn [scrub_spec]. rewrite (remove_first_notin d l2 Hd).
      inversion NEr as [|? ? Hl2 NEr2]; subst. simpl in Hl2.
      destruct l2 as [|y l2']; [congruence|]. cbn [is_nil].
      f_equal. apply IH; [simpl in Hn; lia | exact NEr2 |].
      cbn [no_skip] in NS2. apply andb_true_iff in NS2 as [_ NS3]. exact NS3.
    + f_equal. apply IH; [simpl in Hn; lia | exact NEr | exact NS2].
Qed.

Lemma scrub_eq_spec d gs : grp_ok gs -> no_skip d gs = true -> scrub d gs = scrub_spec d gs.
Proof.
  intros [ND F] NS. rewrite scrub_is_def by exact ND.
  apply (def_eq_spec_n (length gs)); [lia | | exact NS].
  unfold nonempty_groups. eapply Forall_impl; [|exact F]. intros p [_ H]. exact H.
Qed.

Lemma spec_no_dangling d gs : Forall (fun p => NoDup (snd p)) gs -> dangling d (scrub_spec d gs) = false.
Proof.
  induction 1 as [|[g l] r Hl Hr IH]; [reflexivity|]. cbn [scrub_spec].
  destruct (is_nil (remove_first d l)); [exact IH|].
  unfold dangling in *. cbn [existsb snd]. rewrite IH.
  replace (memb d (remove_first d l)) with false; [reflexivity|].
  symmetry. apply memb_false. apply remove_first_NoDup_notin. exact Hl.
Qed.

Lemma scrub_no_dangling_partial d gs : grp_ok gs -> no_skip d gs = true -> dangling d (scrub d gs) = false.
Proof.
  intros OK NS. rewrite (scrub_eq_spec d gs OK NS). apply spec_no_dangling.
  destruct OK as [_ F]. eapply Forall_impl; [|exact F]. intros p [H _]. exact H.
Qed.

(* ... and the condition is exact: whenever it fails a group keeps listing d *)
Lemma def_dangling_n n : forall d gs,
  length gs <= n -> nonempty_groups gs -> no_skip d gs = false -> dangling d (scrub_def d gs) = true.
Proof.
  induction n as [|n IH]; intros d gs Hn NE NS.
  - destruct gs; [discriminate | simpl in Hn; lia].
  - destruct gs as [|[g l] r]; [discriminate|].
    inversion NE as [|? ? Hl NEr]; subst. simpl in Hl.
    cbn [no_skip] in NS. cbn [scrub_def].
    destruct (is_nil (remove_first d l)) eqn:En.
    + destruct r as [|[g2 l2] r2].
      * simpl in NS. discriminate.
      * apply is_nil_true in En. pose proof (emptied_is_singleton d l Hl En) as ->.
        simpl in NS. rewrite Nat.eqb_refl in NS. simpl in NS.
        unfold dangling. cbn [existsb snd]. destruct (memb d l2) eqn:Em; [reflexivity|].
        simpl in NS. simpl.
        inversion NEr as [|? ? Hl2 NEr2]; subst.
        apply IH; [simpl in Hn; lia | exact NEr2 |].
        (* the pair (l2, head of r2) cannot be the violating one since d is not in l2 *)
        destruct r2 as [|[g3 l3] r3]; [simpl in NS; discriminate|].
        rewrite ?Em in NS. rewrite andb_false_r in NS. simpl in NS. exact NS.
    + unfold dangling. cbn [existsb snd]. apply orb_true_iff. right.
      apply IH; [simpl in Hn; lia | exact NEr |].
      destruct r as [|[g2 l2] r2]; [simpl in NS; discriminate|].
      simpl in NS. exact NS.
Qed.

Lemma scrub_dangling_iff d gs : grp_ok gs -> dangling d (scrub d gs) = negb (no_skip d gs).
Proof.
  intros OK. destruct (no_skip d gs) eqn:NS.
  - apply scrub_no_dangling_partial; assumption.
  - destruct OK as [ND F]. rewrite scrub_is_def by exact ND.
    apply (def_dangling_n (length gs)); [lia | | exact NS].
    unfold nonempty_groups. eapply Forall_impl; [|exact F]. intros p [_ H]. exact H.
Qed.

(* ---------------- the snapshot loop (repaired code) meets the specification unconditionally ---------------- *)
Lemma scrub_spec_app d a b : scrub_spec d (a ++ b) = scrub_spec d a ++ scrub_spec d b.
Proof.
  induction a as [|[g l] r IH]; [reflexivity|]. cbn [app scrub_spec]. rewrite IH.
  destruct (is_nil (remove_first d l)); reflexivity.
Qed.

Lemma scrub_spec_ids d gs x : In x (map fst (scrub_spec d gs)) -> In x (map fst gs).
Proof.
  induction gs as [|[g l] r IH]; [tauto|]. cbn [scrub_spec].
  destruct (is_nil (remove_first d l)); simpl; intros H; [right; apply IH; exact H|].
  destruct H as [H|H]; [left; exact H | right; apply IH; exact H].
Qed.

Lemma index_of_app_notin g (A : list grp) l r :
  ~ In g (map fst A) -> index_of g (A ++ (g, l) :: r) = Some (length A).
Proof.
  induction A as [|[h m] A IH]; simpl; intros H.
  - rewrite Nat.eqb_refl. reflexivity.
  - destruct (Nat.eqb g h) eqn:E.
    + apply Nat.eqb_eq in E. subst. exfalso. apply H. left. reflexivity.
    + rewrite IH; [reflexivity|]. intros Hp. apply H. right. exact Hp.
Qed.

Lemma visit_id_step d (A : list grp) g l r :
  ~ In g (map fst A) ->
  visit_id d (A ++ (g, l) :: r) g = A ++ scrub_spec d [(g, l)] ++ r.
Proof.
  intros HA. unfold visit_id. rewrite index_of_app_notin by exact HA.
  rewrite nth_error_app_len. unfold scrub_visit. rewrite set_nth_app_len.
  cbn [scrub_spec]. destruct (is_nil (remove_first d l)) eqn:En.
  - rewrite remove_grp_app_notin by exact HA. reflexivity.
  - reflexivity.
Qed.

Lemma scrub_snap_from d : forall (suf pre : list grp),
  NoDup (map fst (pre ++ suf)) ->
  fold_left (visit_id d) (map fst suf) (scrub_spec d pre ++ suf) = scrub_spec d (pre ++ suf).
Proof.
  induction suf as [|[g l] r IH]; intros pre ND.
  - simpl. rewrite !app_nil_r. reflexivity.
  - cbn [map fst fold_left].
    assert (HND := ND). rewrite map_app in HND. cbn [map fst] in HND.
    assert (Hpre : ~ In g (map fst pre)).
    { apply NoDup_remove_2 in HND. intros H. apply HND. apply in_or_app. left. exact H. }
    rewrite visit_id_step; [| intros H; apply Hpre; eapply scrub_spec_ids; exact H].
    rewrite app_assoc, <- scrub_spec_app.
    rewrite (snoc_app pre (g, l) r).
    apply IH. rewrite <- app_assoc. exact ND.
Qed.

Lemma scrub_snap_eq_spec d gs : NoDup (map fst gs) -> scrub_snap d gs = scrub_spec d gs.
Proof. intros ND. unfold scrub_snap. apply (scrub_snap_from d gs []). exact ND. Qed.

(* ---------------- the specification itself: exactly d disappears ---------------- *)
Lemma spec_members d gs g l :
  In (g, l) (scrub_spec d gs) -> exists l0, In (g, l0) gs /\ l = remove_first d l0 /\ l <> [].
Proof.
  induction gs as [|[h m] r IH]; [simpl; tauto|]. cbn [scrub_spec].
  destruct (is_nil (remove_first d m)) eqn:En.
  - intros H. destruct (IH H) as [l0 [H1 H2]]. exists l0. split; [right; exact H1 | exact H2].
  - intros [H|H].
    + inversion H; subst. exists m. split; [left; reflexivity | split; [reflexivity|]].
      intros E. rewrite E in En. discriminate.
    + destruct (IH H) as [l0 [H1 H2]]. exists l0. split; [right; exact H1 | exact H2].
Qed.

Lemma spec_keeps d gs g l0 :
  In (g, l0) gs -> remove_first d l0 <> [] -> In (g, remove_first d l0) (scrub_spec d gs).
Proof.
  induction gs as [|[h m] r IH]; [simpl; tauto|]. cbn [scrub_spec]. intros [H|H] NE.
  - inversion H; subst. destruct (is_nil (remove_first d l0)) eqn:En.
    + apply is_nil_true in En. congruence.
    + left. reflexivity.
  - destruct (is_nil (remove_first d m)); [apply IH; assumption | right; apply IH; assumption].
Qed.

(* ---------------- refutation witness: d = 0 in g1, g2, g3; g1 = [0] ---------------- *)
Definition witness_gs : list grp := [(1, [0]); (2, [0; 7]); (3, [0; 8])].
Lemma witness_ok : grp_ok witness_gs.
Proof.
  split.
  - simpl. repeat constructor; simpl; intuition discriminate.
  - repeat constructor; simpl; try discriminate; intuition discriminate.
Qed.
Lemma witness_dangles : scrub 0 witness_gs = [(2, [0; 7]); (3, [8])].
Proof. reflexivity. Qed.
