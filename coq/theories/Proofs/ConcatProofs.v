(* Proofs about Model/Concat.v (property C04, index layer). *)
From GV Require Import Prelude.Base Model.Concat.

(* ------------------------------------------------------------------ generic list facts *)
Lemma firstn_add {A} (l : list A) a b : firstn (a + b) l = firstn a l ++ firstn b (skipn a l).
Proof.
  revert l; induction a as [|a IH]; intros l; simpl; [reflexivity|].
  destruct l as [|x r]; simpl.
  - rewrite firstn_nil. reflexivity.
  - rewrite IH. reflexivity.
Qed.

Lemma skipn_skipn' {A} (l : list A) a b : skipn a (skipn b l) = skipn (b + a) l.
Proof.
  revert l; induction b as [|b IH]; intros l; simpl; [reflexivity|].
  destruct l as [|x r]; simpl; [apply skipn_nil | apply IH].
Qed.

Lemma slice_add {A} (d : list A) s a b : slice d s (a + b) = slice d s a ++ slice d (s + a) b.
Proof. unfold slice. rewrite firstn_add, skipn_skipn'. reflexivity. Qed.

Lemma slice_length {A} (d : list A) s n : s + n <= length d -> length (slice d s n) = n.
Proof. intros H. unfold slice. rewrite firstn_length, skipn_length. lia. Qed.

Lemma slice_all {A} (d : list A) : slice d 0 (length d) = d.
Proof. unfold slice. simpl. apply firstn_all. Qed.

Lemma slice_app_l {A} (d1 d2 : list A) s n : s + n <= length d1 -> slice (d1 ++ d2) s n = slice d1 s n.
Proof.
  intros H. unfold slice. rewrite skipn_app, firstn_app, skipn_length.
  replace (n - (length d1 - s)) with 0 by lia. simpl. rewrite app_nil_r. reflexivity.
Qed.

Lemma slice_app_r {A} (d1 d2 : list A) n : slice (d1 ++ d2) (length d1) n = firstn n d2.
Proof.
  unfold slice. rewrite skipn_app, Nat.sub_diag, skipn_all. reflexivity.
Qed.

Lemma remove_nth_app {A} (l1 l2 : list A) x : remove_nth (length l1) (l1 ++ x :: l2) = l1 ++ l2.
Proof. induction l1 as [|y r IH]; simpl; [reflexivity | rewrite IH; reflexivity]. Qed.

Lemma map_res_app {A B} (f : A -> res B) l1 l2 r1 r2 :
  map_res f l1 = Ok r1 -> map_res f l2 = Ok r2 -> map_res f (l1 ++ l2) = Ok (r1 ++ r2).
Proof.
  revert r1; induction l1 as [|x r IH]; intros r1 H1 H2; simpl in *.
  - inversion H1; subst. exact H2.
  - destruct (f x) as [y|e]; [|discriminate].
    destruct (map_res f r) as [ys|e]; [|discriminate].
    inversion H1; subst. rewrite (IH ys eq_refl H2). reflexivity.
Qed.

Lemma NoDup_map_filter {A} (k : A -> nat) (q : A -> bool) l : NoDup (map k l) -> NoDup (map k (filter q l)).
Proof.
  induction l as [|x r IH]; simpl; intros H; [constructor|].
  inversion H as [|? ? Hn Hr]; subst.
  destruct (q x); simpl; [constructor|]; auto.
  intros Hin. apply Hn. apply in_map_iff in Hin as [y [Hy Hin]]. apply filter_In in Hin as [Hin _].
  apply in_map_iff. exists y; auto.
Qed.

(* ------------------------------------------------------------------ encode *)
Definition total (c : list entry) : nat := length (enc_data c).

Lemma total_cons o d vs c : total ((o, d, vs) :: c) = length vs + total c.
Proof. unfold total, enc_data. simpl. rewrite app_length. reflexivity. Qed.

Lemma total_app c1 c2 : total (c1 ++ c2) = total c1 + total c2.
Proof. unfold total, enc_data. rewrite map_app, concat_app, app_length. reflexivity. Qed.

Lemma enc_data_app c1 c2 : enc_data (c1 ++ c2) = enc_data c1 ++ enc_data c2.
Proof. unfold enc_data. rewrite map_app, concat_app. reflexivity. Qed.

Lemma enc_rows_app c1 c2 s : enc_rows s (c1 ++ c2) = enc_rows s c1 ++ enc_rows (s + total c1) c2.
Proof.
  revert s; induction c1 as [|[[o d] vs] r IH]; intros s; simpl.
  - unfold total; simpl. rewrite Nat.add_0_r. reflexivity.
  - rewrite IH, total_cons. f_equal. f_equal. f_equal. lia.
Qed.

Lemma enc_rows_length c s : length (enc_rows s c) = length c.
Proof. revert s; induction c as [|[[o d] vs] r IH]; intros s; simpl; [reflexivity | rewrite IH; reflexivity]. Qed.

Lemma sum_sizes_enc c s : sum_sizes (enc_rows s c) = total c.
Proof.
  revert s; induction c as [|[[o d] vs] r IH]; intros s; simpl; [reflexivity|].
  rewrite IH, total_cons. reflexivity.
Qed.

Lemma tiled_from_enc c s : tiled_from (enc_rows s c) s.
Proof. revert s; induction c as [|[[o d] vs] r IH]; intros s; simpl; [exact I | split; [reflexivity | apply IH]]. Qed.

Lemma sum_sizes_app l1 l2 : sum_sizes (l1 ++ l2) = sum_sizes l1 + sum_sizes l2.
Proof. induction l1 as [|x r IH]; simpl; [reflexivity | rewrite IH; lia]. Qed.

(* decode is a left inverse of encode on tiled tables *)
Lemma dec_rows (dt : list val) rs s :
  tiled_from rs s -> s + sum_sizes rs <= length dt ->
  enc_rows s (map (fun r => (oid r, did r, slice dt (start r) (size r))) rs) = rs.
Proof.
  revert s; induction rs as [|r rs IH]; intros s Ht Hl; simpl in *; [reflexivity|].
  destruct Ht as [Hs Ht]. rewrite slice_length by lia. rewrite IH by (assumption || lia).
  destruct r; simpl in *; subst. reflexivity.
Qed.

Lemma dec_data (dt : list val) rs s :
  tiled_from rs s -> s + sum_sizes rs <= length dt ->
  enc_data (map (fun r => (oid r, did r, slice dt (start r) (size r))) rs) = slice dt s (sum_sizes rs).
Proof.
  revert s; induction rs as [|r rs IH]; intros s Ht Hl; simpl in *.
  - unfold slice. reflexivity.
  - destruct Ht as [Hs Ht]. unfold enc_data in *. simpl. rewrite (IH (s + size r)) by (assumption || lia).
    rewrite slice_add. subst. reflexivity.
Qed.

Lemma encode_decode t :
  tiled_from (rows t) 0 -> length (data t) = sum_sizes (rows t) -> encode (decode t) = t.
Proof.
  intros Ht Hl. unfold encode, decode.
  rewrite (dec_rows (data t) (rows t) 0), (dec_data (data t) (rows t) 0) by (assumption || lia).
  rewrite <- Hl, slice_all. destruct t; reflexivity.
Qed.

Definition ekey (lab : nat) (e : entry) : nat := if by_obj lab then fst (fst e) else snd (fst e).

Lemma keyf_enc lab c s : map (keyf lab) (enc_rows s c) = map (ekey lab) c.
Proof.
  revert s; induction c as [|[[o d] vs] r IH]; intros s; simpl; [reflexivity|].
  rewrite IH. unfold keyf, ekey. simpl. reflexivity.
Qed.

Lemma keyf_decode lab t : map (ekey lab) (decode t) = map (keyf lab) (rows t).
Proof.
  unfold decode. rewrite map_map. apply map_ext. intros r. unfold ekey, keyf. simpl. reflexivity.
Qed.

(* a tiled table is exactly the encoding of an association list without duplicate keys *)
Lemma tiled_encode lab t : Tiled lab t <-> exists c, t = encode c /\ NoDup (map (ekey lab) c).
Proof.
  split.
  - intros (Ht & Hl & Hn). exists (decode t). split.
    + symmetry. apply encode_decode; assumption.
    + rewrite keyf_decode. exact Hn.
  - intros (c & -> & Hn). unfold Tiled, encode; simpl. repeat split.
    + apply tiled_from_enc.
    + rewrite sum_sizes_enc. reflexivity.
    + rewrite keyf_enc. exact Hn.
Qed.

(* ------------------------------------------------------------------ delete_index_data on encoded tables *)
Lemma shift_low s n c s0 : s0 + total c <= s -> map_res (shift s n) (enc_rows s0 c) = Ok (enc_rows s0 c).
Proof.
  revert s0; induction c as [|[[o d] vs] r IH]; intros s0 H; simpl; [reflexivity|].
  rewrite total_cons in H.
  unfold shift at 1; simpl. replace (Nat.ltb s s0) with false by (symmetry; apply Nat.ltb_ge; lia).
  rewrite IH by lia. reflexivity.
Qed.

Lemma shift_high s n c k : map_res (shift s n) (enc_rows (s + n + k) c) = Ok (enc_rows (s + k) c).
Proof.
  revert k; induction c as [|[[o d] vs] r IH]; intros k; simpl; [reflexivity|].
  unfold shift at 1; simpl.
  replace (s + n + k + length vs) with (s + n + (k + length vs)) by lia. rewrite IH.
  replace (s + (k + length vs)) with (s + k + length vs) by lia.
  destruct (Nat.ltb s (s + n + k)) eqn:E.
  - replace (Nat.leb n (s + n + k)) with true by (symmetry; apply Nat.leb_le; lia).
    replace (s + n + k - n) with (s + k) by lia. reflexivity.
  - apply Nat.ltb_ge in E. replace (s + n + k) with (s + k) by lia. reflexivity.
Qed.

Lemma cut_middle {A} (d1 v d2 : list A) :
  firstn (length d1) (d1 ++ v ++ d2) ++ skipn (length d1 + length v) (d1 ++ v ++ d2) = d1 ++ d2.
Proof.
  rewrite firstn_app, Nat.sub_diag, firstn_all. simpl. rewrite app_nil_r. f_equal.
  rewrite skipn_app. rewrite skipn_all2 by lia. simpl.
  replace (length d1 + length v - length d1) with (length v) by lia.
  rewrite skipn_app, skipn_all, Nat.sub_diag. reflexivity.
Qed.

Lemma enc_data_cons_mid c1 o d vs c2 : enc_data (c1 ++ (o, d, vs) :: c2) = enc_data c1 ++ vs ++ enc_data c2.
Proof. unfold enc_data. rewrite map_app, concat_app. reflexivity. Qed.

Lemma nth_error_enc c1 o d vs c2 :
  nth_error (enc_rows 0 (c1 ++ (o, d, vs) :: c2)) (length c1) = Some (mkrow (total c1) (length vs) o d).
Proof.
  rewrite enc_rows_app. rewrite nth_error_app2 by (rewrite enc_rows_length; lia).
  rewrite enc_rows_length, Nat.sub_diag. reflexivity.
Qed.

Lemma delete_enc c1 o d vs c2 :
  delete_index_data (encode (c1 ++ (o, d, vs) :: c2)) (length c1) = Ok (encode (c1 ++ c2)).
Proof.
  unfold delete_index_data, encode; simpl rows; simpl data.
  rewrite nth_error_enc. simpl start; simpl size.
  assert (Hlen : length (enc_data (c1 ++ (o, d, vs) :: c2)) = total c1 + length vs + total c2).
  { fold (total (c1 ++ (o, d, vs) :: c2)). rewrite total_app, total_cons. lia. }
  replace (Nat.ltb (length (enc_data (c1 ++ (o, d, vs) :: c2))) (total c1 + length vs)) with false
    by (symmetry; apply Nat.ltb_ge; lia).
  rewrite andb_false_r.
  rewrite enc_rows_app. simpl enc_rows.
  erewrite map_res_app; [| apply shift_low; lia |].
  2:{ simpl. unfold shift at 1; simpl. rewrite Nat.ltb_irrefl.
      replace (total c1 + length vs) with (total c1 + length vs + 0) by lia.
      rewrite shift_high. reflexivity. }
  replace (length c1) with (length (enc_rows 0 c1)) by apply enc_rows_length.
  rewrite remove_nth_app. f_equal. f_equal.
  - rewrite enc_rows_app, Nat.add_0_r. reflexivity.
  - rewrite enc_data_cons_mid, enc_data_app. unfold total. apply cut_middle.
Qed.

(* ------------------------------------------------------------------ fetch_index on encoded tables *)
Definition ematch (w : who) (e : entry) : bool :=
  match w with ByData d => Nat.eqb (snd (fst e)) d | ByObj o => Nat.eqb (fst (fst e)) o end.

Fixpoint positions {A} (p : A -> bool) (l : list A) (i : nat) : list nat :=
  match l with [] => [] | x :: r => if p x then i :: positions p r (S i) else positions p r (S i) end.

Lemma where_enc w c s i : where_from w (enc_rows s c) i = positions (ematch w) c i.
Proof.
  revert s i; induction c as [|[[o d] vs] r IH]; intros s i; simpl; [reflexivity|].
  rewrite IH. destruct w; reflexivity.
Qed.

Lemma positions_none {A} (p : A -> bool) l i : (forall x, In x l -> p x = false) -> positions p l i = [].
Proof.
  revert i; induction l as [|x r IH]; intros i H; simpl; [reflexivity|].
  rewrite (H x) by (left; reflexivity). apply IH. intros y Hy. apply H. right; exact Hy.
Qed.

Lemma positions_app {A} (p : A -> bool) l1 l2 i :
  positions p (l1 ++ l2) i = positions p l1 i ++ positions p l2 (i + length l1).
Proof.
  revert i; induction l1 as [|x r IH]; intros i; simpl.
  - rewrite Nat.add_0_r. reflexivity.
  - rewrite IH. replace (S i + length r) with (i + S (length r)) by lia. destruct (p x); reflexivity.
Qed.

(* with unique keys either nothing matches, or exactly one entry does *)
Lemma unique_match {A} (k : A -> nat) (p : A -> bool) key l :
  (forall x, p x = Nat.eqb (k x) key) -> NoDup (map k l) ->
  (forall x, In x l -> p x = false)
  \/ exists l1 x l2, l = l1 ++ x :: l2 /\ p x = true
       /\ (forall y, In y l1 -> p y = false) /\ (forall y, In y l2 -> p y = false).
Proof.
  intros Hp. induction l as [|x r IH]; intros Hn; [left; intros ? []|].
  inversion Hn as [|? ? Hx Hr]; subst.
  destruct (p x) eqn:E.
  - right. exists [], x, r. repeat split; [exact E | intros ? [] |].
    intros y Hy. rewrite Hp. apply Nat.eqb_neq. intros Hk.
    apply Hx. rewrite Hp in E. apply Nat.eqb_eq in E. rewrite E, <- Hk. apply in_map. exact Hy.
  - destruct (IH Hr) as [Hnone | (l1 & y & l2 & -> & Hy & H1 & H2)].
    + left. intros z [<- | Hz]; [exact E | apply Hnone; exact Hz].
    + right. exists (x :: l1), y, l2. repeat split; [exact Hy | | exact H2].
      intros z [<- | Hz]; [exact E | apply H1; exact Hz].
Qed.

Lemma ematch_key lab o d e : ematch (key_of lab o d) e = Nat.eqb (ekey lab e) (if by_obj lab then o else d).
Proof. unfold key_of, ekey. destruct (by_obj lab); reflexivity. Qed.

Lemma filter_none {A} (q : A -> bool) l : (forall x, In x l -> q x = true) -> filter q l = l.
Proof.
  induction l as [|x r IH]; intros H; simpl; [reflexivity|].
  rewrite (H x) by (left; reflexivity). rewrite IH; [reflexivity|]. intros y Hy. apply H. right; exact Hy.
Qed.

Lemma filter_one {A} (p : A -> bool) l1 x l2 :
  p x = true -> (forall y, In y l1 -> p y = false) -> (forall y, In y l2 -> p y = false) ->
  filter (fun e => negb (p e)) (l1 ++ x :: l2) = l1 ++ l2.
Proof.
  intros Hx H1 H2. rewrite filter_app. simpl. rewrite Hx. simpl.
  rewrite !filter_none; [reflexivity | |]; intros y Hy; [rewrite H2 | rewrite H1]; auto.
Qed.

(* ------------------------------------------------------------------ update_array on encoded tables *)
Definition without (w : who) (c : list entry) : list entry := filter (fun e => negb (ematch w e)) c.

Lemma fetch_start_enc lab o d c :
  NoDup (map (ekey lab) c) ->
  fetch_start_index (Some (encode c)) (key_of lab o d)
  = Ok (Some (encode (without (key_of lab o d) c)), total (without (key_of lab o d) c)).
Proof.
  intros Hn. unfold fetch_start_index, fetch_index. simpl rows. rewrite where_enc.
  destruct (unique_match (ekey lab) (ematch (key_of lab o d)) (if by_obj lab then o else d) c
              (ematch_key lab o d) Hn) as [Hnone | (l1 & x & l2 & -> & Hx & H1 & H2)].
  - rewrite positions_none by exact Hnone.
    unfold without. rewrite filter_none by (intros y Hy; rewrite Hnone; auto).
    simpl. rewrite sum_sizes_enc. reflexivity.
  - rewrite positions_app. simpl. rewrite Hx.
    rewrite !positions_none by assumption. simpl.
    destruct x as [[xo xd] xvs]. rewrite delete_enc.
    unfold without. rewrite filter_one by assumption. reflexivity.
Qed.

Lemma update_put_enc lab o d vs c :
  NoDup (map (ekey lab) c) ->
  update_array (Some (encode c)) (key_of lab o d) o (did_of lab d) (Some vs)
  = Ok (Some (encode (without (key_of lab o d) c ++ [(o, did_of lab d, vs)]))).
Proof.
  intros Hn. unfold update_array. rewrite (fetch_start_enc lab o d c Hn).
  f_equal. f_equal. unfold encode. simpl rows; simpl data.
  rewrite enc_rows_app, enc_data_app. simpl. unfold enc_data at 3. simpl. rewrite app_nil_r.
  reflexivity.
Qed.

Lemma update_del_enc lab o d c :
  NoDup (map (ekey lab) c) ->
  update_array (Some (encode c)) (key_of lab o d) o (did_of lab d) None
  = Ok (Some (encode (without (key_of lab o d) c))).
Proof. intros Hn. unfold update_array. rewrite (fetch_start_enc lab o d c Hn). reflexivity. Qed.

Lemma ekey_new lab o d vs : ekey lab (o, did_of lab d, vs) = if by_obj lab then o else d.
Proof. unfold ekey, did_of. destruct (by_obj lab); reflexivity. Qed.

Lemma nodup_without lab o d c : NoDup (map (ekey lab) c) -> NoDup (map (ekey lab) (without (key_of lab o d) c)).
Proof. apply NoDup_map_filter. Qed.

Lemma NoDup_snoc {A} (l : list A) x : NoDup l -> ~ In x l -> NoDup (l ++ [x]).
Proof.
  induction l as [|y r IH]; intros Hn Hx; simpl.
  - constructor; [intros [] | constructor].
  - inversion Hn as [|? ? Hy Hr]; subst. constructor.
    + intros Hin. apply in_app_or in Hin as [Hin | [<- | []]]; [exact (Hy Hin) | apply Hx; left; reflexivity].
    + apply IH; [exact Hr | intros Hin; apply Hx; right; exact Hin].
Qed.

Lemma nodup_put lab o d vs c :
  NoDup (map (ekey lab) c) -> NoDup (map (ekey lab) (without (key_of lab o d) c ++ [(o, did_of lab d, vs)])).
Proof.
  intros Hn. rewrite map_app. simpl. apply NoDup_snoc; [apply nodup_without; exact Hn|].
  rewrite ekey_new. intros Hin. apply in_map_iff in Hin as [e [He Hin]].
  apply filter_In in Hin as [_ Hq]. rewrite ematch_key, He, Nat.eqb_refl in Hq. discriminate.
Qed.

(* ------------------------------------------------------------------ fetch_values on encoded tables *)
Lemma slice_enc c1 o d vs c2 : slice (enc_data (c1 ++ (o, d, vs) :: c2)) (total c1) (length vs) = vs.
Proof.
  rewrite enc_data_app. unfold total. rewrite slice_app_r. unfold enc_data at 1. simpl. fold (enc_data c2).
  rewrite firstn_app, Nat.sub_diag, firstn_all. simpl. rewrite app_nil_r. reflexivity.
Qed.

Definition elookup (w : who) (c : list entry) : option (list val) := option_map (fun e : entry => snd e) (find (ematch w) c).

Lemma find_none {A} (p : A -> bool) l : (forall x, In x l -> p x = false) -> find p l = None.
Proof.
  induction l as [|x r IH]; intros H; simpl; [reflexivity|].
  rewrite (H x) by (left; reflexivity). apply IH. intros y Hy. apply H. right; exact Hy.
Qed.

Lemma find_app_none {A} (p : A -> bool) l1 l2 : (forall x, In x l1 -> p x = false) -> find p (l1 ++ l2) = find p l2.
Proof.
  induction l1 as [|x r IH]; intros H; simpl; [reflexivity|].
  rewrite (H x) by (left; reflexivity). apply IH. intros y Hy. apply H. right; exact Hy.
Qed.

Lemma fetch_values_enc lab o d c :
  NoDup (map (ekey lab) c) -> fetch_values (encode c) (key_of lab o d) = elookup (key_of lab o d) c.
Proof.
  intros Hn. unfold fetch_values, fetch_index, elookup. simpl rows. rewrite where_enc.
  destruct (unique_match (ekey lab) (ematch (key_of lab o d)) (if by_obj lab then o else d) c
              (ematch_key lab o d) Hn) as [Hnone | (l1 & x & l2 & -> & Hx & H1 & H2)].
  - rewrite positions_none, find_none by exact Hnone. reflexivity.
  - rewrite positions_app. simpl. rewrite Hx. rewrite !positions_none by assumption. simpl.
    rewrite find_app_none by exact H1. simpl. rewrite Hx. simpl.
    destruct x as [[xo xd] xvs]. rewrite nth_error_enc. simpl. rewrite slice_enc. reflexivity.
Qed.

Lemma find_without_same w c : find (ematch w) (without w c) = None.
Proof.
  apply find_none. intros x Hx. apply filter_In in Hx as [_ Hq]. destruct (ematch w x); [discriminate | reflexivity].
Qed.

Lemma find_without_other w w' c :
  (forall e, ematch w' e = true -> ematch w e = false) -> find (ematch w') (without w c) = find (ematch w') c.
Proof.
  intros H. induction c as [|x r IH]; simpl; [reflexivity|].
  destruct (ematch w x) eqn:E; simpl.
  - rewrite IH. destruct (ematch w' x) eqn:E'; [|reflexivity]. rewrite (H x E') in E. discriminate.
  - rewrite IH. reflexivity.
Qed.

Lemma find_app {A} (p : A -> bool) l1 l2 :
  find p (l1 ++ l2) = match find p l1 with Some x => Some x | None => find p l2 end.
Proof. induction l1 as [|x r IH]; simpl; [reflexivity|]. destruct (p x); [reflexivity | exact IH]. Qed.

(* ------------------------------------------------------------------ geometry of tiled rows *)
Lemma tiled_from_app l1 l2 s : tiled_from (l1 ++ l2) s <-> tiled_from l1 s /\ tiled_from l2 (s + sum_sizes l1).
Proof.
  revert s; induction l1 as [|r l1 IH]; intros s; simpl.
  - rewrite Nat.add_0_r. tauto.
  - rewrite IH. replace (s + size r + sum_sizes l1) with (s + (size r + sum_sizes l1)) by lia. tauto.
Qed.

Lemma tiled_from_bounds rs s r : tiled_from rs s -> In r rs -> s <= start r /\ start r + size r <= s + sum_sizes rs.
Proof.
  revert s; induction rs as [|x rs IH]; intros s Ht Hin; simpl in *; [contradiction|].
  destruct Ht as [Hs Ht]. destruct Hin as [<- | Hin]; [lia|].
  specialize (IH _ Ht Hin). lia.
Qed.

Lemma tiled_ordered rs s i j ri rj :
  tiled_from rs s -> i < j -> nth_error rs i = Some ri -> nth_error rs j = Some rj ->
  start ri + size ri <= start rj.
Proof.
  revert s i j; induction rs as [|x rs IH]; intros s i j Ht Hij Hi Hj; [destruct i; discriminate|].
  simpl in Ht. destruct Ht as [Hs Ht].
  destruct j as [|j]; [lia|]. simpl in Hj.
  destruct i as [|i]; simpl in Hi.
  - inversion Hi; subst. apply nth_error_In in Hj. destruct (tiled_from_bounds _ _ _ Ht Hj). lia.
  - apply (IH (s + size x) i j); [exact Ht | lia | exact Hi | exact Hj].
Qed.

Lemma delete_arith lab t i r :
  Tiled lab t -> nth_error (rows t) i = Some r ->
  start r + size r <= length (data t)
  /\ forall r', In r' (rows t) -> start r < start r' -> start r + size r <= start r'.
Proof.
  intros (Ht & Hl & _) Hi.
  destruct (nth_error_split _ _ Hi) as (l1 & l2 & Hrows & Hlen).
  rewrite Hrows in Ht. apply tiled_from_app in Ht as [H1 H2]. simpl in H2. destruct H2 as [Hs H2].
  split.
  - rewrite Hl, Hrows, sum_sizes_app. simpl. lia.
  - intros r' Hin Hlt. rewrite Hrows in Hin. apply in_app_or in Hin as [Hin | [<- | Hin]].
    + destruct (tiled_from_bounds _ _ _ H1 Hin). lia.
    + lia.
    + destruct (tiled_from_bounds _ _ _ H2 Hin). lia.
Qed.

Lemma nth_error_enc_split c i r :
  nth_error (enc_rows 0 c) i = Some r -> exists c1 e c2, c = c1 ++ e :: c2 /\ length c1 = i.
Proof.
  intros H. assert (Hi : i < length c).
  { rewrite <- (enc_rows_length c 0). apply nth_error_Some. congruence. }
  destruct (nth_error c i) as [e|] eqn:E; [| apply nth_error_None in E; lia].
  destruct (nth_error_split _ _ E) as (c1 & c2 & -> & Hl). exists c1, e, c2. auto.
Qed.

Lemma delete_tiled lab t i r :
  Tiled lab t -> nth_error (rows t) i = Some r -> exists t', delete_index_data t i = Ok t' /\ Tiled lab t'.
Proof.
  intros HT Hi. apply tiled_encode in HT as (c & -> & Hn).
  simpl in Hi. destruct (nth_error_enc_split _ _ _ Hi) as (c1 & [[o d] vs] & c2 & -> & <-).
  exists (encode (c1 ++ c2)). split; [apply delete_enc|].
  apply tiled_encode. exists (c1 ++ c2). split; [reflexivity|].
  rewrite map_app in *. simpl in Hn. eapply NoDup_remove_1. exact Hn.
Qed.

(* ------------------------------------------------------------------ the store *)
Lemma sget_sset_same l t s : sget l (sset l t s) = Some t.
Proof.
  induction s as [|[k u] r IH]; simpl.
  - rewrite Nat.eqb_refl. reflexivity.
  - destruct (Nat.eqb k l) eqn:E; simpl; rewrite E; [reflexivity | exact IH].
Qed.

Lemma sget_sset_other l l' t s : l' <> l -> sget l' (sset l t s) = sget l' s.
Proof.
  intros Hne. induction s as [|[k u] r IH]; simpl.
  - replace (Nat.eqb l l') with false by (symmetry; apply Nat.eqb_neq; auto). reflexivity.
  - destruct (Nat.eqb k l) eqn:E; simpl.
    + apply Nat.eqb_eq in E; subst. replace (Nat.eqb l l') with false by (symmetry; apply Nat.eqb_neq; auto). reflexivity.
    + rewrite IH. reflexivity.
Qed.

Definition content (lab : nat) (s : store) : list entry :=
  match sget lab s with None => [] | Some t => decode t end.

Lemma content_spec lab s t : AllTiled s -> sget lab s = Some t -> t = encode (content lab s) /\ NoDup (map (ekey lab) (content lab s)).
Proof.
  intros HA Hg. unfold content. rewrite Hg. destruct (HA _ _ Hg) as (Ht & Hl & Hn). split.
  - symmetry. apply encode_decode; assumption.
  - rewrite keyf_decode. exact Hn.
Qed.

Lemma content_nodup lab s : AllTiled s -> NoDup (map (ekey lab) (content lab s)).
Proof.
  intros HA. destruct (sget lab s) as [t|] eqn:E.
  - apply (content_spec lab s t HA E).
  - unfold content. rewrite E. constructor.
Qed.

Definition put_content lab o d vs s := without (key_of lab o d) (content lab s) ++ [(o, did_of lab d, vs)].

Lemma lstep_put lab o d vs s :
  AllTiled s -> lstep s (Put lab o d vs) = Ok (sset lab (encode (put_content lab o d vs s)) s).
Proof.
  intros HA. unfold lstep, put_content. destruct (sget lab s) as [t|] eqn:E.
  - destruct (content_spec lab s t HA E) as [-> Hn]. rewrite update_put_enc by exact Hn. reflexivity.
  - unfold content. rewrite E. simpl. unfold encode, enc_data. simpl. rewrite app_nil_r. reflexivity.
Qed.

Lemma lstep_del lab o d s :
  AllTiled s ->
  lstep s (Del lab o d) = Ok match sget lab s with
                            | None => s
                            | Some _ => sset lab (encode (without (key_of lab o d) (content lab s))) s
                            end.
Proof.
  intros HA. unfold lstep. destruct (sget lab s) as [t|] eqn:E.
  - destruct (content_spec lab s t HA E) as [-> Hn]. rewrite update_del_enc by exact Hn. reflexivity.
  - reflexivity.
Qed.

Lemma alltiled_sset lab c s :
  AllTiled s -> NoDup (map (ekey lab) c) -> AllTiled (sset lab (encode c) s).
Proof.
  intros HA Hn l t Hg. destruct (Nat.eq_dec l lab) as [-> | Hne].
  - rewrite sget_sset_same in Hg. inversion Hg; subst. apply tiled_encode. exists c. auto.
  - rewrite sget_sset_other in Hg by exact Hne. apply HA. exact Hg.
Qed.

Lemma lstep_tiled s op : AllTiled s -> exists s', lstep s op = Ok s' /\ AllTiled s'.
Proof.
  intros HA. destruct op as [lab o d vs | lab o d].
  - eexists. split; [apply lstep_put; exact HA|].
    apply alltiled_sset; [exact HA|]. apply nodup_put. apply content_nodup. exact HA.
  - eexists. split; [apply lstep_del; exact HA|].
    destruct (sget lab s) eqn:E; [|exact HA].
    apply alltiled_sset; [exact HA|]. apply nodup_without. apply content_nodup. exact HA.
Qed.

Lemma lrun_tiled ops s : AllTiled s -> exists s', lrun ops s = Ok s' /\ AllTiled s'.
Proof.
  revert s; induction ops as [|op r IH]; intros s HA; simpl.
  - exists s. auto.
  - destruct (lstep_tiled s op HA) as (s1 & -> & HA1). apply IH. exact HA1.
Qed.

Lemma alltiled_nil : AllTiled [].
Proof. intros l t H. discriminate. Qed.

Lemma tiled_invariant ops : exists s, lrun ops [] = Ok s /\ AllTiled s.
Proof. apply lrun_tiled. apply alltiled_nil. Qed.

(* ------------------------------------------------------------------ read-your-write, isolation *)
Definition kval (lab o d : nat) : nat := if by_obj lab then o else d.

Lemma sfetch_enc lab o d c s :
  NoDup (map (ekey lab) c) -> sfetch (sset lab (encode c) s) lab o d = elookup (key_of lab o d) c.
Proof. intros Hn. unfold sfetch. rewrite sget_sset_same. apply fetch_values_enc. exact Hn. Qed.

Lemma sfetch_content lab o d s : AllTiled s -> sfetch s lab o d = elookup (key_of lab o d) (content lab s).
Proof.
  intros HA. unfold sfetch. destruct (sget lab s) as [t|] eqn:E.
  - destruct (content_spec lab s t HA E) as [Ht Hn]. rewrite Ht at 1. apply fetch_values_enc. exact Hn.
  - unfold content. rewrite E. reflexivity.
Qed.

Lemma ematch_new lab o d vs : ematch (key_of lab o d) (o, did_of lab d, vs) = true.
Proof. rewrite ematch_key, ekey_new. apply Nat.eqb_refl. Qed.

Lemma read_your_write s lab o d vs :
  AllTiled s -> exists s', lstep s (Put lab o d vs) = Ok s' /\ sfetch s' lab o d = Some vs.
Proof.
  intros HA. eexists. split; [apply lstep_put; exact HA|].
  rewrite sfetch_enc by (apply nodup_put; apply content_nodup; exact HA).
  unfold elookup, put_content. rewrite find_app, find_without_same. simpl. rewrite ematch_new. reflexivity.
Qed.

Lemma other_key lab o d o' d' e :
  kval lab o' d' <> kval lab o d -> ematch (key_of lab o' d') e = true -> ematch (key_of lab o d) e = false.
Proof.
  unfold kval. rewrite !ematch_key. intros Hne H. apply Nat.eqb_eq in H. apply Nat.eqb_neq. congruence.
Qed.

Lemma isolation_put s lab o d vs lab' o' d' :
  AllTiled s -> (lab' <> lab \/ kval lab o' d' <> kval lab o d) ->
  exists s', lstep s (Put lab o d vs) = Ok s' /\ sfetch s' lab' o' d' = sfetch s lab' o' d'.
Proof.
  intros HA Hne. eexists. split; [apply lstep_put; exact HA|].
  destruct (Nat.eq_dec lab' lab) as [-> | Hl].
  - destruct Hne as [Hne | Hne]; [congruence|].
    rewrite sfetch_enc by (apply nodup_put; apply content_nodup; exact HA).
    rewrite sfetch_content by exact HA.
    unfold elookup, put_content. rewrite find_app.
    rewrite find_without_other by (intros e; apply other_key; exact Hne).
    destruct (find (ematch (key_of lab o' d')) (content lab s)); [reflexivity|]. simpl.
    rewrite ematch_key, ekey_new. replace (Nat.eqb (if by_obj lab then o else d) (if by_obj lab then o' else d')) with false; [reflexivity|].
    symmetry. apply Nat.eqb_neq. unfold kval in Hne. congruence.
  - unfold sfetch. rewrite sget_sset_other by exact Hl. reflexivity.
Qed.

Lemma isolation_del s lab o d lab' o' d' :
  AllTiled s -> (lab' <> lab \/ kval lab o' d' <> kval lab o d) ->
  exists s', lstep s (Del lab o d) = Ok s' /\ sfetch s' lab' o' d' = sfetch s lab' o' d'.
Proof.
  intros HA Hne. eexists. split; [apply lstep_del; exact HA|].
  destruct (sget lab s) as [t|] eqn:E; [|reflexivity].
  destruct (Nat.eq_dec lab' lab) as [-> | Hl].
  - destruct Hne as [Hne | Hne]; [congruence|].
    rewrite sfetch_enc by (apply nodup_without; apply content_nodup; exact HA).
    rewrite sfetch_content by exact HA.
    unfold elookup. rewrite find_without_other by (intros e; apply other_key; exact Hne). reflexivity.
  - unfold sfetch. rewrite sget_sset_other by exact Hl. reflexivity.
Qed.

(* removal really removes *)
Lemma del_removes s lab o d :
  AllTiled s -> exists s', lstep s (Del lab o d) = Ok s' /\ sfetch s' lab o d = None.
Proof.
  intros HA. eexists. split; [apply lstep_del; exact HA|].
  destruct (sget lab s) as [t|] eqn:E.
  - rewrite sfetch_enc by (apply nodup_without; apply content_nodup; exact HA).
    unfold elookup. rewrite find_without_same. reflexivity.
  - unfold sfetch. rewrite E. reflexivity.
Qed.

(* ------------------------------------------------------------------ the group-wide view *)
Lemma table_view_concat lab t : Tiled lab t -> concat (map (fun p : nat * list val => snd p) (table_view t)) = data t.
Proof.
  intros (Ht & Hl & _). unfold table_view. rewrite map_map. simpl.
  pose proof (dec_data (data t) (rows t) 0 Ht) as H. unfold enc_data in H. rewrite map_map in H. simpl in H.
  rewrite H by lia. rewrite <- Hl. apply slice_all.
Qed.

Lemma table_view_rows lab t r :
  Tiled lab t -> In r (rows t) ->
  fetch_values t (key_of lab (oid r) (did r)) = Some (slice (data t) (start r) (size r)).
Proof.
  intros HT Hin. pose proof HT as HT'. apply tiled_encode in HT as (c & Hc & Hn).
  assert (Hd : decode t = c).
  { destruct HT' as (Ht & Hl & _). rewrite Hc. rewrite Hc in Ht, Hl. simpl in Ht, Hl.
    unfold decode. simpl rows. simpl data.
    clear - c. unfold encode. (* decode (encode c) = c *)
    assert (G : forall pre s, s = length pre ->
             map (fun r => (oid r, did r, slice (pre ++ enc_data c) (start r) (size r))) (enc_rows s c) = c).
    { induction c as [|[[o d] vs] c IH]; intros pre s Hs; simpl; [reflexivity|].
      f_equal.
      - f_equal. subst s. rewrite slice_app_r. unfold enc_data. simpl.
        rewrite firstn_app, Nat.sub_diag, firstn_all. simpl. rewrite app_nil_r. reflexivity.
      - unfold enc_data in *. simpl. rewrite app_assoc. apply IH. rewrite app_length. lia. }
    apply (G [] 0). reflexivity. }
  rewrite Hc at 1. rewrite fetch_values_enc by exact Hn.
  (* r is the image of some entry of c *)
  unfold elookup.
  assert (He : In (oid r, did r, slice (data t) (start r) (size r)) c).
  { rewrite <- Hd. unfold decode. apply in_map_iff. exists r. auto. }
  destruct (unique_match (ekey lab) (ematch (key_of lab (oid r) (did r))) (if by_obj lab then oid r else did r) c
              (ematch_key lab (oid r) (did r)) Hn) as [Hnone | (l1 & x & l2 & Hcc & Hx & H1 & H2)].
  - specialize (Hnone _ He). rewrite ematch_key in Hnone. unfold ekey in Hnone. simpl in Hnone.
    destruct (by_obj lab); rewrite Nat.eqb_refl in Hnone; discriminate.
  - assert (Hmatch : ematch (key_of lab (oid r) (did r)) (oid r, did r, slice (data t) (start r) (size r)) = true).
    { rewrite ematch_key. unfold ekey. simpl. destruct (by_obj lab); apply Nat.eqb_refl. }
    rewrite Hcc in He. apply in_app_or in He as [He | [He | He]].
    + rewrite (H1 _ He) in Hmatch. discriminate.
    + rewrite Hcc, find_app_none by exact H1. simpl. rewrite Hx. rewrite He. reflexivity.
    + rewrite (H2 _ He) in Hmatch. discriminate.
Qed.
