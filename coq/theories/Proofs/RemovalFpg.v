(* Proofs about Model/Removal.v, part 7 (property C05): the PropertyGroups blocks stored in the file mirror the
   in-memory groups of every object whose node exists, after every history; hence the file side of "no dangling member". *)
From GV Require Import Prelude.Base Model.PGroups Model.Removal.
From GV Require Import Proofs.PGroupsProofs Proofs.RemovalProofs Proofs.RemovalGroups Proofs.RemovalTotal Proofs.RemovalFile
                       Proofs.RemovalWitness Proofs.RemovalListing.

Definition pgpar (w : st) : Prop := forall o g, In g (ids (pgs (E w o))) -> par (E w g) = o.

Record fsync (w : st) : Prop := {
  fs_par : pgpar w;
  fs_bound : forall g l, In (g, l) (fpg w) -> g < n w /\ par (E w g) < n w;
  fs_ok : forall g l, In (g, l) (fpg w) -> memb (par (E w g)) (flat w) = true -> In (g, l) (pgs (E w (par (E w g)))) }.
Arguments fs_par {w}. Arguments fs_bound {w}. Arguments fs_ok {w}.

(* ---------------- list facts ---------------- *)
Lemma set_nth_keeps (gs : list grp) i g l a h m :
  nth_error gs i = Some (g, l) -> In (h, m) gs -> h <> g -> In (h, m) (set_nth i a gs).
Proof.
  revert i; induction gs as [|[k x] r IH]; intros [|i]; simpl; try discriminate; try tauto.
  - intros E0 [H|H] Hne; [inversion E0; inversion H; subst; congruence | right; exact H].
  - intros E0 [H|H] Hne; [left; exact H | right; eapply IH; eassumption].
Qed.

Lemma remove_grp_keeps g (gs : list grp) h m : In (h, m) gs -> h <> g -> In (h, m) (remove_grp g gs).
Proof.
  induction gs as [|[k x] r IH]; simpl; [tauto|]. intros [H|H] Hne.
  - inversion H; subst. destruct (Nat.eqb g h) eqn:E0; [apply Nat.eqb_eq in E0; congruence | left; reflexivity].
  - destruct (Nat.eqb g k); [exact H | right; apply IH; assumption].
Qed.

Lemma nth_set_nth_same {A} (l : list A) i a x : nth_error l i = Some x -> In a (set_nth i a l).
Proof. revert i; induction l as [|y r IH]; intros [|i]; simpl; try discriminate; [left; reflexivity | intros H; right; eapply IH; exact H]. Qed.

(* ---------------- the file primitives ---------------- *)
Lemma fpg_del_fpg w g h m :
  In (h, m) (fpg (del_fpg w g)) -> In (h, m) (fpg w) /\ (memb (par (E w g)) (flat w) = true -> h <> g).
Proof.
  unfold del_fpg. destruct (memb (par (E w g)) (flat w)); simpl.
  - intros H. apply filter_In in H as [H1 H2]. split; [exact H1|]. intros _ ->. unfold neqb in H2. simpl in H2.
    rewrite Nat.eqb_refl in H2. discriminate.
  - intros H. split; [exact H | discriminate].
Qed.

Lemma fpg_write_fpg w g l h m :
  In (h, m) (fpg (write_fpg w g l)) ->
  (In (h, m) (fpg w) /\ (memb (par (E w g)) (flat w) = true -> h <> g))
  \/ (h = g /\ m = l /\ memb (par (E w g)) (flat w) = true).
Proof.
  unfold write_fpg. destruct (memb (par (E w g)) (flat w)); simpl.
  - intros H. apply in_app_or in H as [H|[H|[]]].
    + apply filter_In in H as [H1 H2]. left. split; [exact H1|]. intros _ ->. unfold neqb in H2. simpl in H2.
      rewrite Nat.eqb_refl in H2. discriminate.
    + inversion H; subst. right. repeat split; reflexivity.
  - intros H. left. split; [exact H | discriminate].
Qed.

Lemma flat_write_fpg' w g l : flat (write_fpg w g l) = flat w.
Proof. apply flat_write_fpg. Qed.

(* ---------------- generic preservation rules ---------------- *)
(* only the file shrinks / children lists change: groups and parents untouched *)
Lemma fsync_weaken w w' :
  n w' = n w ->
  (forall y, par (E w' y) = par (E w y) /\ pgs (E w' y) = pgs (E w y)) ->
  (forall x, memb x (flat w') = true -> memb x (flat w) = true) ->
  (forall p, In p (fpg w') -> In p (fpg w)) ->
  fsync w -> fsync w'.
Proof.
  intros Hn HE Hfl Hfp F. constructor.
  - intros o g. rewrite (proj2 (HE o)), (proj1 (HE g)). apply (fs_par F).
  - intros g l Hin. rewrite Hn, (proj1 (HE g)). apply (fs_bound F g l). apply Hfp. exact Hin.
  - intros g l Hin Hm. rewrite (proj1 (HE g)) in *. rewrite (proj2 (HE _)). apply (fs_ok F); [apply Hfp; exact Hin | apply Hfl; exact Hm].
Qed.

(* the groups of ONE object o are rewritten, around group g *)
Lemma fsync_regroup w w' o g :
  fsync w -> o < n w ->
  n w' = n w -> flat w' = flat w ->
  (forall y, par (E w' y) = par (E w y)) ->
  (forall y, y <> o -> pgs (E w' y) = pgs (E w y)) ->
  (forall h, In h (ids (pgs (E w' o))) -> In h (ids (pgs (E w o)))) ->
  (forall h m, h <> g -> In (h, m) (pgs (E w o)) -> In (h, m) (pgs (E w' o))) ->
  (forall h m, In (h, m) (fpg w') ->
     (In (h, m) (fpg w) /\ (h <> g \/ par (E w h) <> o \/ memb o (flat w) = false))
     \/ (h < n w /\ par (E w h) = o /\ In (h, m) (pgs (E w' o)))) ->
  fsync w'.
Proof.
  intros F Ho Hn Hfl Hpar Hoth Hids Hkeep Hfpg. constructor.
  - intros y h Hh. rewrite Hpar. destruct (Nat.eq_dec y o) as [->|Hy].
    + apply (fs_par F). apply Hids. exact Hh.
    + rewrite (Hoth y Hy) in Hh. apply (fs_par F). exact Hh.
  - intros h m Hin. rewrite Hn, Hpar. destruct (Hfpg h m Hin) as [[Hold _]|[Hh [Hp _]]].
    + apply (fs_bound F h m Hold).
    + split; [exact Hh | rewrite Hp; exact Ho].
  - intros h m Hin Hm. rewrite Hpar in *. rewrite Hfl in Hm. destruct (Hfpg h m Hin) as [[Hold Hc]|[_ [Hp Hnew]]].
    + pose proof (fs_ok F h m Hold Hm) as Hok.
      destruct (Nat.eq_dec (par (E w h)) o) as [Hpo|Hpo].
      * rewrite Hpo in *. apply Hkeep; [|exact Hok].
        destruct Hc as [Hc|[Hc|Hc]]; [exact Hc | congruence | congruence].
      * rewrite (Hoth _ Hpo). exact Hok.
    + rewrite Hp. exact Hnew.
Qed.

(* ---------------- Inv3 = wf + pginv + fsync through the removal code ---------------- *)
Definition inv3 (w : st) : Prop := wf w /\ pginv w /\ fsync w.

Lemma obj_lt w o g : wf w -> pginv w -> In g (ids (pgs (E w o))) -> o < n w.
Proof. intros H P Hg. pose proof (pi_ch P o g Hg) as Hc. destruct (wf_ord H o g Hc). lia. Qed.

Lemma fpg_upd w x f : fpg (upd w x f) = fpg w.
Proof. reflexivity. Qed.

Lemma rp_visit_inv3 w o d i g l :
  inv3 w -> nth_error (pgs (E w o)) i = Some (g, l) -> inv3 (rp_visit w o d i g l).
Proof.
  intros [H [P F]] Hn.
  assert (Hgi : In g (ids (pgs (E w o)))) by (eapply nth_error_ids; exact Hn).
  assert (Hgc : In g (ch (E w o))) by (apply (pi_ch P o); exact Hgi).
  assert (Hpg : par (E w g) = o) by (apply (fs_par F); exact Hgi).
  pose proof (rp_visit_shrink w o d i g l Hn) as Hs.
  destruct (rp_visit_pgs w o d i g l Hgc Hn) as [Epgs _].
  split; [eapply wf_shrink; eassumption|]. split; [apply rp_visit_pginv; assumption|].
  apply (fsync_regroup w (rp_visit w o d i g l) o g F (obj_lt w o g H P Hgi)).
  - apply (sh_n Hs).
  - apply flat_rp_visit.
  - intros y. apply (es_par (sh_E Hs y)).
  - intros y Hy. rewrite (rp_visit_frame w o d i g l y Hy). reflexivity.
  - intros h Hh. eapply sub_In; [apply (proj1 (es_pgs (sh_E Hs o))) | exact Hh].
  - intros h m Hne Hin. rewrite Epgs. unfold scrub_visit.
    pose proof (set_nth_keeps _ i g l (g, remove_first d l) h m Hn Hin Hne) as Hk.
    destruct (is_nil (remove_first d l)); [apply remove_grp_keeps; assumption | exact Hk].
  - intros h m Hin. unfold rp_visit in Hin.
    set (w1 := upd w o (fun r => set_pgs r (set_nth i (g, remove_first d l) (pgs r)))) in *.
    assert (Hs1 : shrink w w1).
    { constructor; simpl; try reflexivity; try apply sub_refl.
      intros y. destruct (Nat.eqb y o) eqn:Ey; [|apply ent_shrink_refl].
      apply Nat.eqb_eq in Ey. subst y. apply es_set_pgs. eapply gs_set_nth; [exact Hn | apply sub_remove_first]. }
    destruct (is_nil (remove_first d l)) eqn:En.
    + unfold remove_pg in Hin.
      set (wA := if memb g (ch (E w1 o)) then upd w1 o (fun r => set_ch (if is_nil (pgs r) then r else set_pgs r (remove_grp g (pgs r))) (remove_first g (ch r))) else w1) in *.
      assert (HA : par (E wA g) = par (E w g) /\ flat wA = flat w /\ fpg wA = fpg w).
      { split; [|split; unfold wA; destruct (memb g (ch (E w1 o))); reflexivity].
        pose proof (remove_pg_shrink w1 o g) as Hsr. pose proof (es_par (sh_E Hsr g)) as Hp.
        unfold remove_pg in Hp. fold wA in Hp. rewrite E_del_fpg in Hp. rewrite Hp. apply (es_par (sh_E Hs1 g)). }
      destruct HA as [HA1 [HA2 HA3]].
      apply fpg_del_fpg in Hin as [Hin Hc]. rewrite HA1, HA2, Hpg in Hc. rewrite HA3 in Hin.
      left. split; [exact Hin|]. destruct (memb o (flat w)) eqn:Em; [left; apply Hc; reflexivity | right; right; reflexivity].
    + apply fpg_write_fpg in Hin as [[Hin Hc]|[-> [-> Hm]]].
      * assert (Hp1 : par (E w1 g) = o) by (rewrite (es_par (sh_E Hs1 g)); exact Hpg).
        rewrite Hp1 in Hc. change (flat w1) with (flat w) in Hc. change (fpg w1) with (fpg w) in Hin.
        left. split; [exact Hin|]. destruct (memb o (flat w)) eqn:Em; [left; apply Hc; reflexivity | right; right; reflexivity].
      * right. split; [apply (proj1 (wf_bound H o g l (nth_error_In _ _ Hn)))|]. split; [exact Hpg|].
        rewrite Epgs. unfold scrub_visit. rewrite En. eapply nth_set_nth_same. exact Hn.
Qed.

Lemma rdfg_loop_inv3 k : forall w o d i, inv3 w -> inv3 (rdfg_loop k w o d i).
Proof.
  induction k as [|k IH]; intros w o d i I; simpl; [exact I|].
  destruct (nth_error (pgs (E w o)) i) as [[g l]|] eqn:En; [|exact I].
  apply IH. apply rp_visit_inv3; assumption.
Qed.

Lemma rp_visit_id_inv3 w o d g : inv3 w -> inv3 (rp_visit_id w o d g).
Proof.
  intros I. unfold rp_visit_id. destruct (index_of g (pgs (E w o))) as [i|] eqn:Ei; [|exact I].
  destruct (index_of_nth _ _ _ Ei) as [l Hl]. rewrite Hl. apply rp_visit_inv3; assumption.
Qed.

Lemma fold_visit_inv3 o d l : forall w, inv3 w -> inv3 (fold_left (fun w g => rp_visit_id w o d g) l w).
Proof. induction l as [|g r IH]; intros w I; simpl; [exact I | apply IH, rp_visit_id_inv3, I]. Qed.

Lemma rdfg_inv3 c w o d : inv3 w -> inv3 (rdfg c w o d).
Proof.
  intros I. unfold rdfg. destruct (is_nil _); [exact I|].
  destruct (snap_pg c); [apply fold_visit_inv3 | apply rdfg_loop_inv3]; exact I.
Qed.

(* a record changes only in its children list *)
Lemma fsync_children w x f :
  (forall r, par (f r) = par r /\ pgs (f r) = pgs r) -> fsync w -> fsync (upd w x f).
Proof.
  intros Hf F. apply (fsync_weaken w); [reflexivity | | tauto | tauto | exact F].
  intros y. simpl. destruct (Nat.eqb y x); [apply Hf | split; reflexivity].
Qed.

Lemma fsync_del_link w p x : fsync w -> fsync (del_link w p x).
Proof.
  intros F. unfold del_link. destruct (memb p (flat w)); [|exact F].
  apply (fsync_weaken w); [reflexivity | intros y; split; reflexivity | tauto | tauto | exact F].
Qed.

Lemma fsync_del_flat w e : fsync w -> fsync (del_flat w e).
Proof.
  intros F. apply (fsync_weaken w); [reflexivity | intros y; split; reflexivity | | tauto | exact F].
  intros x Hx. apply memb_In in Hx. simpl in Hx. apply filter_In in Hx as [Hx _]. apply memb_In. exact Hx.
Qed.

Lemma remove_pg_inv3 w o g : inv3 w -> inv3 (remove_pg w o g).
Proof.
  intros [H [P F]].
  split; [eapply wf_shrink; [apply remove_pg_shrink | exact H]|]. split; [apply remove_pg_pginv; assumption|].
  pose proof (remove_pg_shrink w o g) as Hs.
  destruct (in_dec Nat.eq_dec g (ids (pgs (E w o)))) as [Hgi|Hgi].
  - assert (Hpg : par (E w g) = o) by (apply (fs_par F); exact Hgi).
    apply (fsync_regroup w (remove_pg w o g) o g F (obj_lt w o g H P Hgi)).
    + apply (sh_n Hs).
    + apply flat_remove_pg.
    + intros y. apply (es_par (sh_E Hs y)).
    + intros y Hy. rewrite (remove_pg_frame w o g y Hy). reflexivity.
    + intros h Hh. eapply sub_In; [apply (proj1 (es_pgs (sh_E Hs o))) | exact Hh].
    + intros h m Hne Hin. unfold remove_pg. rewrite E_del_fpg.
      destruct (memb g (ch (E w o))); [|exact Hin]. rewrite E_upd_same. simpl.
      destruct (is_nil (pgs (E w o))); [exact Hin | simpl; apply remove_grp_keeps; assumption].
    + intros h m Hin. unfold remove_pg in Hin.
      set (wA := if memb g (ch (E w o)) then upd w o _ else w) in *.
      assert (HA : par (E wA g) = par (E w g) /\ flat wA = flat w /\ fpg wA = fpg w).
      { split; [|split; unfold wA; destruct (memb g (ch (E w o))); reflexivity].
        pose proof (es_par (sh_E Hs g)) as Hp. unfold remove_pg in Hp. fold wA in Hp. rewrite E_del_fpg in Hp. exact Hp. }
      destruct HA as [HA1 [HA2 HA3]].
      apply fpg_del_fpg in Hin as [Hin Hc]. rewrite HA1, HA2, Hpg in Hc. rewrite HA3 in Hin.
      left. split; [exact Hin|]. destruct (memb o (flat w)) eqn:Em; [left; apply Hc; reflexivity | right; right; reflexivity].
  - (* g is not one of o's groups: only the children list and the file shrink *)
    apply (fsync_weaken w); [apply (sh_n Hs) | | | | exact F].
    + intros y. split; [apply (es_par (sh_E Hs y))|]. unfold remove_pg. rewrite E_del_fpg.
      destruct (memb g (ch (E w o))); [|reflexivity]. simpl. destruct (Nat.eqb y o) eqn:Ey; [|reflexivity].
      apply Nat.eqb_eq in Ey. subst y. simpl. destruct (is_nil (pgs (E w o))); [reflexivity|]. simpl.
      clear -Hgi. unfold ids in Hgi. induction (pgs (E w o)) as [|[k x] r IH]; [reflexivity|]. simpl in *.
      destruct (Nat.eqb g k) eqn:E0; [apply Nat.eqb_eq in E0; subst; tauto|]. f_equal. apply IH. tauto.
    + rewrite flat_remove_pg. tauto.
    + intros [h m] Hin. unfold remove_pg in Hin. apply fpg_del_fpg in Hin as [Hin _].
      destruct (memb g (ch (E w o))); exact Hin.
Qed.

Lemma object_remove_child_inv3 c w o x : inv3 w -> inv3 (object_remove_child c w o x).
Proof.
  intros I. unfold object_remove_child.
  assert (G : forall w', inv3 w' -> ekind (E w' x) <> KPG ->
     inv3 (del_link (if memb x (ch (E w o)) then upd w' o (fun r => set_ch r (remove_first x (ch r))) else w) o x)).
  { intros w' [H' [P' F']] Hk.
    destruct (memb x (ch (E w o))).
    - split; [eapply wf_shrink; [apply shrink_del_link|]; eapply wf_shrink; [|exact H']; apply shrink_upd; intros r; apply es_set_ch, sub_remove_first|].
      split; [eapply pginv_file; [apply E_del_link|]; apply pginv_drop_child; assumption|].
      apply fsync_del_link. apply fsync_children; [intros r; split; reflexivity | exact F'].
    - destruct I as [H [P F]]. split; [eapply wf_shrink; [apply shrink_del_link | exact H]|].
      split; [eapply pginv_file; [apply E_del_link | exact P] | apply fsync_del_link; exact F]. }
  destruct (ekind (E w x)) eqn:Ek.
  - apply G; [exact I | congruence].
  - apply G; [exact I | congruence].
  - apply G; [apply rdfg_inv3; exact I|]. rewrite (es_kind (sh_E (rdfg_shrink c w o x) x)). congruence.
  - apply remove_pg_inv3. exact I.
Qed.

Lemma group_remove_child_inv3 w p x : ekind (E w p) <> KObject -> inv3 w -> inv3 (group_remove_child w p x).
Proof.
  intros Hk [H [P F]].
  split; [eapply wf_shrink; [apply group_remove_child_shrink | exact H]|].
  split; [apply group_remove_child_pginv; assumption|].
  unfold group_remove_child. apply fsync_del_link. apply fsync_children; [intros r; split; reflexivity | exact F].
Qed.

Lemma parent_remove_child_inv3 c w p x : inv3 w -> inv3 (parent_remove_child c w p x).
Proof.
  intros I. unfold parent_remove_child. destruct (ekind (E w p)) eqn:Ek;
    try (apply group_remove_child_inv3; [congruence | exact I]).
  apply object_remove_child_inv3. exact I.
Qed.

Lemma remove_entity_inv3 c f : forall w e w' o, inv3 w -> remove_entity c f w e = (w', o) -> inv3 w'.
Proof.
  induction f as [|f IH]; intros w e w' o I Hr.
  - simpl in Hr. inversion Hr; subst. exact I.
  - rewrite remove_entity_unfold in Hr. destruct (negb (adel (E w e))); [inversion Hr; subst; exact I|].
    destruct (children_loop c f w e) as [w1 o1] eqn:Hl.
    assert (I1 : inv3 w1).
    { eapply (children_loop_inv (fun wi => shrink w wi /\ inv3 wi)); [| | |exact Hl].
      - split; [apply shrink_refl | exact I].
      - intros wi [Hs _]. exact Hs.
      - intros wi x wi' oi [Hs Ii] _ Hx.
        destruct (remove_entity_fp c f wi x wi' oi (wf_par (proj1 Ii)) Hx) as [Hs' _].
        split; [eapply shrink_trans; eassumption | eapply IH; eassumption]. }
    destruct (is_ok o1); [|inversion Hr; subst; exact I1].
    inversion Hr; subst. unfold finish.
    pose proof (parent_remove_child_inv3 c w1 (par (E w e)) e I1) as [H2 [P2 F2]].
    destruct (ekind (E w e)); try (split; [eapply wf_shrink; [apply shrink_del_flat | exact H2] |
       split; [eapply pginv_file; [apply E_del_flat | exact P2] | apply fsync_del_flat; exact F2]]).
    split; [exact H2 | split; assumption].
Qed.

(* ---------------- creations ---------------- *)
Lemma memb_app x a b : memb x (a ++ b) = memb x a || memb x b.
Proof. unfold memb. apply existsb_app. Qed.

(* a new instance n w; every other record keeps its parent; group lists only gain the new instance *)
Lemma fsync_new w w' :
  wf w -> fsync w ->
  n w' = S (n w) -> fpg w' = fpg w ->
  (forall x, memb x (flat w') = true -> memb x (flat w) = true \/ x = n w) ->
  (forall y, y <> n w -> par (E w' y) = par (E w y)) ->
  (forall y h, In h (ids (pgs (E w' y))) -> (y <> n w /\ In h (ids (pgs (E w y)))) \/ (h = n w /\ par (E w' (n w)) = y)) ->
  (forall y h m, y <> n w -> In (h, m) (pgs (E w y)) -> In (h, m) (pgs (E w' y))) ->
  fsync w'.
Proof.
  intros H F Hn Hfp Hfl Hpar Hids Hkeep. constructor.
  - intros o g Hg. destruct (Hids o g Hg) as [[Ho Hg']|[-> Hp]]; [|exact Hp].
    assert (Hgl : g < n w).
    { unfold ids in Hg'. apply in_map_iff in Hg' as [[g' l] [Hf Hin]]. simpl in Hf. subst g'. exact (proj1 (wf_bound H o g l Hin)). }
    rewrite (Hpar g ltac:(lia)). apply (fs_par F). exact Hg'.
  - intros g l Hin. rewrite Hfp in Hin. destruct (fs_bound F g l Hin) as [A B].
    rewrite Hn, (Hpar g ltac:(lia)). lia.
  - intros g l Hin Hm. rewrite Hfp in Hin. destruct (fs_bound F g l Hin) as [A B].
    rewrite (Hpar g ltac:(lia)) in *. apply Hkeep; [lia|].
    apply (fs_ok F g l Hin). destruct (Hfl _ Hm) as [Hm'|Hm']; [exact Hm' | lia].
Qed.

Lemma fsync_create w k p : wf w -> fsync w -> p < n w -> fsync (create w k p).
Proof.
  intros H F Hp. apply (fsync_new w); try assumption; try reflexivity.
  - intros x Hx. simpl in Hx. rewrite memb_app in Hx. apply orb_true_iff in Hx as [Hx|Hx]; [left; exact Hx|].
    right. simpl in Hx. rewrite orb_false_r in Hx. apply Nat.eqb_eq in Hx. exact Hx.
  - intros y Hy. simpl. apply Nat.eqb_neq in Hy. rewrite Hy. destruct (Nat.eqb y p) eqn:Eyp; [apply Nat.eqb_eq in Eyp; subst y|]; reflexivity.
  - intros y h Hh. simpl in Hh. destruct (Nat.eqb y (n w)) eqn:Ey; [destruct Hh|]. apply Nat.eqb_neq in Ey.
    left. split; [exact Ey|]. destruct (Nat.eqb y p) eqn:Eyp; [apply Nat.eqb_eq in Eyp; subst y|]; exact Hh.
  - intros y h m Hy Hin. simpl. apply Nat.eqb_neq in Hy. rewrite Hy.
    destruct (Nat.eqb y p) eqn:Eyp; [apply Nat.eqb_eq in Eyp; subst y|]; exact Hin.
Qed.

Lemma flat_fold_del_flat_sub l : forall w x, memb x (flat (fold_left del_flat l w)) = true -> memb x (flat w) = true.
Proof.
  induction l as [|a r IH]; intros w x Hx; simpl in *; [exact Hx|].
  apply IH in Hx. apply memb_In in Hx. simpl in Hx. apply filter_In in Hx as [Hx _]. apply memb_In. exact Hx.
Qed.

Lemma fpg_fold_del_flat l : forall w, fpg (fold_left del_flat l w) = fpg w.
Proof. induction l as [|a r IH]; intros w; simpl; [reflexivity | rewrite IH; reflexivity]. Qed.

Lemma fsync_sweep w l rg hl : fsync w -> fsync (set_reg_held (fold_left del_flat l w) rg hl).
Proof.
  intros F. apply (fsync_weaken w); [simpl; apply (proj2 (E_fold_del_flat l w)) | | | | exact F].
  - intros y. simpl. rewrite (proj1 (E_fold_del_flat l w)). split; reflexivity.
  - intros x Hx. simpl in Hx. eapply flat_fold_del_flat_sub. exact Hx.
  - intros p Hp. simpl in Hp. rewrite fpg_fold_del_flat in Hp. exact Hp.
Qed.

Lemma fsync_same w w' : E w' = E w -> n w' = n w -> flat w' = flat w -> fpg w' = fpg w -> fsync w -> fsync w'.
Proof.
  intros HE Hn Hfl Hfp F. apply (fsync_weaken w); [exact Hn | | | | exact F].
  - intros y. rewrite HE. split; reflexivity.
  - rewrite Hfl. tauto.
  - rewrite Hfp. tauto.
Qed.

Lemma par_upd_pgs w o (f : ent -> list grp) y : par (E (upd w o (fun r => set_pgs r (f r))) y) = par (E w y).
Proof. simpl. destruct (Nat.eqb y o) eqn:Ey; [apply Nat.eqb_eq in Ey; subst y|]; reflexivity. Qed.

Lemma fold_prc_inv3 c p es : forall w, inv3 w -> inv3 (fold_left (fun w e => parent_remove_child c w p e) es w).
Proof. induction es as [|e r IH]; intros w I; simpl; [exact I | apply IH, parent_remove_child_inv3, I]. Qed.

Lemma step_fsync c w a : inv3 w -> fsync (fst (step c w a)).
Proof.
  intros [H [P F]]. destruct a as [p|p|o|o ds|g ds|e b|e|e| |k|e|es]; unfold step.
  - destruct (attachedb w p && kind_eqb (ekind (E w p)) KGroup) eqn:G; [|exact F]. cbn [fst].
    apply andb_true_iff in G as [Ga _]. apply fsync_create; [exact H | exact F | apply attachedb_lt; exact Ga].
  - destruct (attachedb w p && kind_eqb (ekind (E w p)) KGroup) eqn:G; [|exact F]. cbn [fst].
    apply andb_true_iff in G as [Ga _]. apply fsync_create; [exact H | exact F | apply attachedb_lt; exact Ga].
  - destruct (attachedb w o && kind_eqb (ekind (E w o)) KObject) eqn:G; [|exact F]. cbn [fst].
    apply andb_true_iff in G as [Ga _]. apply fsync_create; [exact H | exact F | apply attachedb_lt; exact Ga].
  - destruct (attachedb w o && kind_eqb (ekind (E w o)) KObject && negb (is_nil (add_props (ch (E w o)) (isdata w) [] ds))) eqn:G; [|exact F].
    cbn [fst]. apply andb_true_iff in G as [G _]. apply andb_true_iff in G as [Ga _].
    pose proof (attachedb_lt w o Ga) as Hlt.
    assert (Hox : Nat.eqb o (n w) = false) by (apply Nat.eqb_neq; lia).
    set (l := add_props (ch (E w o)) (isdata w) [] ds).
    match goal with |- fsync (write_fpg ?ww _ _) => set (w1 := ww) end.
    assert (F1 : fsync w1).
    { apply (fsync_new w); try assumption; try reflexivity.
      - intros x Hx. left. exact Hx.
      - intros y Hy. unfold w1. simpl. apply Nat.eqb_neq in Hy. rewrite Hy. destruct (Nat.eqb y o) eqn:Eyo; [apply Nat.eqb_eq in Eyo; subst y|]; reflexivity.
      - intros y h Hh. unfold w1 in Hh. simpl in Hh. destruct (Nat.eqb y (n w)) eqn:Ey; [destruct Hh|]. apply Nat.eqb_neq in Ey.
        destruct (Nat.eqb y o) eqn:Eyo; [|left; split; assumption].
        apply Nat.eqb_eq in Eyo. subst y. simpl in Hh. unfold ids in Hh. rewrite map_app in Hh.
        apply in_app_or in Hh as [Hh|[Hh|[]]]; [left; split; assumption|].
        simpl in Hh. right. split; [symmetry; exact Hh|]. unfold w1. simpl. rewrite Nat.eqb_refl. reflexivity.
      - intros y h m Hy Hin. unfold w1. simpl. apply Nat.eqb_neq in Hy. rewrite Hy.
        destruct (Nat.eqb y o) eqn:Eyo; [|exact Hin]. apply Nat.eqb_eq in Eyo. subst y. simpl. apply in_or_app. left. exact Hin. }
    assert (Hg1 : par (E w1 (n w)) = o /\ In (n w, l) (pgs (E w1 o)) /\ n w1 = S (n w)).
    { unfold w1. simpl. rewrite Nat.eqb_refl, Hox, Nat.eqb_refl. simpl. repeat split; try reflexivity.
      apply in_or_app. right. left. reflexivity. }
    destruct Hg1 as [Hg1 [Hg2 Hg3]].
    apply (fsync_regroup w1 (write_fpg w1 (n w) l) o (n w) F1).
    + rewrite Hg3. lia.
    + apply n_write_fpg.
    + apply flat_write_fpg.
    + intros y. rewrite E_write_fpg. reflexivity.
    + intros y _. rewrite E_write_fpg. reflexivity.
    + intros h. rewrite E_write_fpg. tauto.
    + intros h m _. rewrite E_write_fpg. tauto.
    + intros h m Hin. apply fpg_write_fpg in Hin as [[Hin Hc]|[-> [-> Hm]]].
      * left. split; [exact Hin|]. rewrite Hg1 in Hc. destruct (memb o (flat w1)) eqn:Em; [left; apply Hc; reflexivity | right; right; reflexivity].
      * right. rewrite E_write_fpg. split; [rewrite Hg3; lia | split; assumption].
  - destruct (attachedb w g && kind_eqb (ekind (E w g)) KPG); [|exact F].
    destruct (index_of g (pgs (E w (par (E w g))))) as [i|] eqn:Ei; [|exact F].
    destruct (index_of_nth _ _ _ Ei) as [l0 Hl0]. rewrite Hl0. cbn [fst].
    set (o := par (E w g)) in *. set (l := add_props (ch (E w o)) (isdata w) l0 ds).
    assert (Hgi : In g (ids (pgs (E w o)))) by (eapply nth_error_ids; exact Hl0).
    set (w1 := upd w o (fun r => set_pgs r (set_nth i (g, l) (pgs r)))).
    apply (fsync_regroup w (write_fpg w1 g l) o g F (obj_lt w o g H P Hgi)).
    + rewrite n_write_fpg. reflexivity.
    + rewrite flat_write_fpg. reflexivity.
    + intros y. rewrite E_write_fpg. unfold w1. simpl. destruct (Nat.eqb y o) eqn:Ey; [apply Nat.eqb_eq in Ey; subst y|]; reflexivity.
    + intros y Hy. rewrite E_write_fpg. unfold w1. simpl. apply Nat.eqb_neq in Hy. rewrite Hy. reflexivity.
    + intros h. rewrite E_write_fpg. unfold w1. rewrite E_upd_same. simpl. unfold ids. rewrite (set_nth_ids i g l0 l _ Hl0). tauto.
    + intros h m Hne Hin. rewrite E_write_fpg. unfold w1. rewrite E_upd_same. simpl. eapply set_nth_keeps; eassumption.
    + intros h m Hin. apply fpg_write_fpg in Hin as [[Hin Hc]|[-> [-> Hm]]].
      * left. split; [exact Hin|].
        assert (Hp1 : par (E w1 g) = o).
        { unfold w1. rewrite par_upd_pgs. reflexivity. }
        rewrite Hp1 in Hc. change (flat w1) with (flat w) in Hc.
        destruct (memb o (flat w)) eqn:Em; [left; apply Hc; reflexivity | right; right; reflexivity].
      * right. split; [apply (proj1 (wf_bound H o g l0 (nth_error_In _ _ Hl0)))|]. split; [reflexivity|].
        rewrite E_write_fpg. unfold w1. rewrite E_upd_same. simpl. eapply nth_set_nth_same. exact Hl0.
  - destruct (attachedb w e && negb (kind_eqb (ekind (E w e)) KPG) && negb (Nat.eqb e 0)); [|exact F]. cbn [fst].
    apply fsync_children; [intros r; split; reflexivity | exact F].
  - destruct (attachedb w e && negb (Nat.eqb e 0)); [|exact F].
    destruct (remove_entity c (fuel_of w) w e) as [w' o] eqn:Hr. cbn [fst].
    apply (remove_entity_inv3 c (fuel_of w) w e w' o (conj H (conj P F)) Hr).
  - destruct (attachedb w e && negb (Nat.eqb e 0)); [|exact F]. cbn [fst].
    apply (parent_remove_child_inv3 c w (par (E w e)) e (conj H (conj P F))).
  - apply (fsync_same w); try reflexivity. exact F.
  - destruct k; cbn [fst]; try (apply fsync_sweep; exact F).
    destruct (pg_list_ok c); [apply (fsync_same w); try reflexivity; exact F | destruct (is_nil _); exact F].
  - destruct (Nat.ltb e (n w)); [|exact F]. destruct (memb e (reg w)); [|exact F]. destruct (memb e (held w)); [exact F|].
    cbn [fst]. apply (fsync_same w); try reflexivity. exact F.
  - destruct es as [|e0 r]; [exact F|]. destruct (forallb _ (e0 :: r)); [|exact F]. cbn [fst].
    apply (fold_prc_inv3 c (par (E w e0)) (e0 :: r) w (conj H (conj P F))).
Qed.

Lemma fsync_init : fsync init.
Proof. constructor; [intros o g [] | intros g l [] | intros g l []]. Qed.

Lemma step_inv3 c w a : inv3 w -> inv3 (fst (step c w a)).
Proof.
  intros I. split; [apply step_wf; apply I|]. split; [apply step_pginv; apply I | apply step_fsync; exact I].
Qed.

Theorem reachable_inv3 c : forall h, inv3 (run c init h).
Proof.
  assert (G : forall h w, inv3 w -> inv3 (run c w h)).
  { induction h as [|a r IH]; intros w I; simpl; [exact I | apply IH, step_inv3, I]. }
  intros h. apply G. split; [apply wf_init|]. split; [apply pginv_init | apply fsync_init].
Qed.

(* what a raw dump shows of the PropertyGroups blocks is what the objects hold in memory *)
Lemma obs_fpg_In w g l : In (g, l) (obs_fpg w) -> In (g, l) (fpg w) /\ memb (par (E w g)) (flat w) = true.
Proof.
  unfold obs_fpg. intros H. apply in_flat_map in H as [x [_ Hx]].
  destruct (find (fun p => Nat.eqb (fst p) x) (fpg w)) as [p|] eqn:Ef; [|destruct Hx].
  apply find_some in Ef as [Hin Heq]. apply Nat.eqb_eq in Heq.
  destruct (memb (par (E w x)) (flat w)) eqn:Em; [|destruct Hx].
  destruct Hx as [Hx|[]]. subst p. simpl in Heq. subst x. split; [exact Hin | exact Em].
Qed.

Theorem stored_groups_mirror_memory c h g l :
  let w := run c init h in
  In (g, l) (obs_fpg w) -> In (g, l) (pgs (E w (par (E w g)))).
Proof.
  intros w Hin. destruct (reachable_inv3 c h) as [_ [_ F]]. fold w in F.
  apply obs_fpg_In in Hin as [Hin Hm]. apply (fs_ok F g l Hin Hm).
Qed.

(* C05, file side of the property groups: after the removal of a data set no stored block lists it *)
Theorem stored_groups_no_dangling c h e a w' :
  let w := run c init h in
  ekind (E w e) = KData -> removal_of e a -> step c w a = (w', Ok) ->
  snap_pg c = true \/ no_skip e (pgs (E w (par (E w e)))) = true ->
  forall g l, In (g, l) (obs_fpg w') -> ~ In e l.
Proof.
  intros w Hk Ha Hs Hside g l Hin.
  assert (Hw' : w' = run c init (h ++ [a])).
  { clear -Hs. unfold w in Hs. revert Hs. generalize init. induction h as [|b r IH]; intros w0 Hs; simpl in *; [rewrite Hs; reflexivity | apply IH; exact Hs]. }
  rewrite Hw' in Hin. apply stored_groups_mirror_memory in Hin. rewrite <- Hw' in Hin.
  destruct Ha as [-> | ->]; eapply (no_dangling_side c h e); try eassumption; [left | right]; reflexivity.
Qed.
