(* Proofs about the PyLite translation of geoh5py/ui_json/utils.py (coq/generated/PyLite_UiUtils.v) against the
   specification Model/UiRules.v  (property C15).
   Every lemma is about the GENERATED definitions: a change of the Python source that changes what one of these
   functions computes changes the generated term and breaks the corresponding characterising lemma. *)
From Coq Require Import String.
From GV Require Import Prelude.Base Model.PyVal Model.UiRules Proofs.PyValProofs.
From GVgen Require Import PyLite_SharedUtils PyLite_UiUtils.
Local Open Scope string_scope. Local Open Scope list_scope.

Definition is_formb v := match form_members v with Some _ => true | None => false end.

Lemma is_form_eq v : is_form v = Ok (PBool (is_formb v)).
Proof.
  unfold is_form, is_formb, form_members. destruct v as [ | b | z | f | s | u | k u | p | t | l | l | d ]; try reflexivity; [destruct k; reflexivity|].
  cbn. destruct (dict_has (PStr "label") d) eqn:E1; cbn; [|reflexivity].
  destruct (dict_has (PStr "value") d) eqn:E2; cbn; reflexivity.
Qed.

Definition sel (m : string) (val : pv) (kv : pv * pv) : bool :=
  match form_members (snd kv) with
  | Some f => match mem m f with Some x => is_none val || py_eq x val | None => false end
  | None => false
  end.

Lemma collect_step m val acc name form :
  (t5 <- (t2 <- (t1 <- is_form form ;; Ok (truthy t1)) ;; (if t2 then contains (PStr m) form else Ok false)) ;;
     if t5 then
       t4 <- (if (is_none val) then Ok true else (t3 <- getitem form (PStr m) ;; Ok (py_eq t3 val))) ;;
       if t4 then
         v_parameters <- setitem acc name form ;;
         Ok v_parameters
       else
         Ok acc
     else
       Ok acc) = if sel m val (name, form) then setitem acc name form else Ok acc.
Proof.
  rewrite is_form_eq. unfold is_formb, sel, mem. cbn [snd].
  destruct (form_members form) as [f|] eqn:Ef; cbn; [|reflexivity].
  unfold form_members in Ef. destruct form as [ | b | z | f0 | s | u | k u | p | t | l | l | d ]; try discriminate.
  destruct (dict_has (PStr "label") d && dict_has (PStr "value") d); try discriminate. inversion Ef; subst f.
  cbn. unfold dict_has. destruct (dict_find (PStr m) d) as [x|]; cbn; [|reflexivity].
  destruct (is_none val); cbn.
  - destruct (setitem acc name (PDict d)); reflexivity.
  - destruct (py_eq x val); cbn; [destruct (setitem acc name (PDict d)); reflexivity | reflexivity].
Qed.

Lemma collect_eq d m val :
  forallb (fun kv => hashable (fst kv)) d = true -> keys_distinct (map fst d) = true ->
  collect (PDict d) (PStr m) val = Ok (PDict (filter (sel m val) d)).
Proof.
  intros Hh Hk. unfold collect. cbn [dict_items bind].
  match goal with |- context [fold_res ?F _ _] => set (F0 := F) end.
  assert (G : forall d' acc, forallb (fun kv => hashable (fst kv)) d' = true ->
              keys_distinct (map fst acc ++ map fst d') = true ->
              fold_res F0 d' (PDict acc) = Ok (PDict (acc ++ filter (sel m val) d'))).
  { induction d' as [|[name form] r IH]; intros acc Hh' Hk'.
    - simpl. rewrite app_nil_r. reflexivity.
    - cbn [fold_res]. unfold F0 at 1. rewrite collect_step. fold F0.
      cbn [forallb fst] in Hh'. apply andb_true_iff in Hh' as [Hn Hr].
      cbn [map fst] in Hk'. destruct (keys_distinct_app_cons _ _ _ Hk') as (Fresh & K1 & K2).
      cbn [filter]. destruct (sel m val (name, form)).
      + unfold setitem. rewrite Hn. cbn [bind]. rewrite dict_set_fresh by assumption.
        rewrite IH; [rewrite <- app_assoc; reflexivity | assumption |].
        rewrite map_app. simpl. exact K1.
      + cbn [bind]. apply IH; assumption. }
  rewrite (G d [] Hh Hk). reflexivity.
Qed.

Definition keys_ok (d : alist) : Prop :=
  forallb (fun kv => is_pstr (fst kv)) d = true /\ keys_distinct (map fst d) = true.

Lemma pstr_hashable d : forallb (fun kv : pv * pv => is_pstr (fst kv)) d = true -> forallb (fun kv : pv * pv => hashable (fst kv)) d = true.
Proof.
  induction d as [|[k v] r IH]; simpl; intros H; [reflexivity|]. apply andb_true_iff in H as [H1 H2].
  rewrite IH by assumption. destruct k; try discriminate. reflexivity.
Qed.

Lemma existsb_filter_false (q : pv -> bool) (p : pv * pv -> bool) r :
  existsb q (map fst r) = false -> existsb q (map fst (filter p r)) = false.
Proof.
  induction r as [|a r IH]; simpl; intros H; [reflexivity|]. apply orb_false_iff in H as [H1 H2].
  destruct (p a); simpl; [rewrite H1|]; apply IH; assumption.
Qed.

Lemma keys_ok_filter p d : keys_ok d -> keys_ok (filter p d).
Proof.
  intros [H1 H2]. split.
  - clear H2. induction d as [|a r IH]; simpl in *; [reflexivity|]. apply andb_true_iff in H1 as [X Y].
    destruct (p a); simpl; [rewrite X|]; apply IH; assumption.
  - clear H1. induction d as [|a r IH]; simpl in *; [reflexivity|]. apply andb_true_iff in H2 as [X Y].
    destruct (p a); simpl; [|apply IH; assumption].
    apply negb_true_iff in X. rewrite (existsb_filter_false _ p r X). simpl. apply IH; assumption.
Qed.

Lemma dict_find_first d k v : keys_ok d -> In (k, v) d -> dict_find k d = Some v.
Proof.
  intros [H1 H2]. induction d as [|[k2 w] r IH]; intros Hin; [contradiction|].
  simpl in H1, H2. apply andb_true_iff in H1 as [P1 P2]. apply andb_true_iff in H2 as [D1 D2]. simpl in P1.
  destruct Hin as [E|Hin].
  - inversion E; subst. simpl. destruct k; try discriminate. rewrite py_eq_str_refl. reflexivity.
  - simpl. apply negb_true_iff in D1.
    assert (X : py_eq k k2 = false).
    { clear - D1 Hin. induction r as [|[a b] r IH]; [contradiction|]. simpl in D1. apply orb_false_iff in D1 as [A B].
      destruct Hin as [E|Hin]; [inversion E; subst; apply orb_false_iff in A as [_ A]; exact A | apply IH; assumption]. }
    rewrite X. apply IH; assumption.
Qed.

Lemma find_all_eq d m val : keys_ok d ->
  find_all (PDict d) (PStr m) val = Ok (PList (map fst (filter (sel m val) d))).
Proof.
  intros [H1 H2]. unfold find_all. rewrite collect_eq by (try apply pstr_hashable; assumption). reflexivity.
Qed.

(* the first member of the selection, as a form *)
Definition first_form (l : alist) : option alist :=
  match l with kv :: _ => form_members (snd kv) | [] => None end.

Lemma sel_form m val kv : sel m val kv = true -> exists f x, form_members (snd kv) = Some f /\ snd kv = PDict f /\ mem m f = Some x.
Proof.
  unfold sel. destruct (form_members (snd kv)) as [f|] eqn:E; [|discriminate].
  destruct (mem m f) as [x|] eqn:Em; [|discriminate]. intros _. exists f, x. repeat split; try assumption.
  unfold form_members in E. destruct (snd kv); try discriminate. destruct (_ && _); inversion E; reflexivity.
Qed.

Lemma group_optional_eq d g : keys_ok d ->
  group_optional (PDict d) g =
  Ok (match first_form (filter (sel "groupOptional" PNone) (filter (sel "group" g) d)) with
      | Some f => mem_default "groupOptional" f (PBool false)
      | None => PBool false
      end).
Proof.
  intros K. unfold group_optional.
  destruct K as [K1 K2]. rewrite collect_eq by (try apply pstr_hashable; assumption). cbn [bind].
  set (G := filter (sel "group" g) d). assert (KG : keys_ok G) by (apply keys_ok_filter; split; assumption).
  rewrite find_all_eq by assumption. cbn [bind].
  destruct (filter (sel "groupOptional" PNone) G) as [|[k0 form0] rest] eqn:ES; [reflexivity|].
  cbn [map truthy first_form snd]. cbn [getitem norm_index Z.ltb Z.leb Z.compare andb length Z.of_nat nth_error Z.to_nat].
  assert (Hin : In (k0, form0) (filter (sel "groupOptional" PNone) G)) by (rewrite ES; left; reflexivity).
  apply filter_In in Hin as [Hin Hsel].
  destruct (sel_form _ _ _ Hsel) as (f & x & Ef & Esnd & Em). cbn [snd] in Ef, Esnd. subst form0.
  assert (Hk0 : is_pstr k0 = true).
  { destruct KG as [A _]. rewrite forallb_forall in A. apply (A _ Hin). }
  destruct k0; try discriminate.
  simpl. rewrite (dict_find_first G (PStr s) (PDict f) KG Hin). cbn [bind].
  rewrite getitem_dict_str. unfold form_members in Ef. rewrite Ef. unfold mem_default. unfold mem in Em |- *. rewrite Em. reflexivity.
Qed.

Lemma group_enabled_eq G : keys_ok G ->
  group_enabled (PDict G) =
  match first_form (filter (sel "groupOptional" PNone) G) with
  | Some f => Ok (mem_default "enabled" f (PBool true))
  | None => Raise ValueError
  end.
Proof.
  intros KG. unfold group_enabled. rewrite find_all_eq by assumption. cbn [bind].
  destruct (filter (sel "groupOptional" PNone) G) as [|[k0 form0] rest] eqn:ES; [reflexivity|].
  cbn [map truthy first_form snd negb]. cbn [getitem norm_index Z.ltb Z.leb Z.compare andb length Z.of_nat nth_error Z.to_nat].
  assert (Hin : In (k0, form0) (filter (sel "groupOptional" PNone) G)) by (rewrite ES; left; reflexivity).
  apply filter_In in Hin as [Hin Hsel].
  destruct (sel_form _ _ _ Hsel) as (f & x & Ef & Esnd & Em). cbn [snd] in Ef, Esnd. subst form0.
  assert (Hk0 : is_pstr k0 = true).
  { destruct KG as [A _]. rewrite forallb_forall in A. apply (A _ Hin). }
  destruct k0; try discriminate.
  simpl. rewrite (dict_find_first G (PStr s) (PDict f) KG Hin). cbn [bind].
  unfold form_members in Ef. rewrite Ef. reflexivity.
Qed.

Lemma sel_group_in_group g kv : is_none g = false -> sel "group" g kv = in_group g kv.
Proof. intros H. unfold sel, in_group. destruct (form_members (snd kv)); [|reflexivity]. destruct (mem "group" a); [rewrite H|]; reflexivity. Qed.
Lemma sel_go_switch kv : sel "groupOptional" PNone kv = has_group_switch kv.
Proof. unfold sel, has_group_switch. destruct (form_members (snd kv)); [|reflexivity]. destruct (mem "groupOptional" a); reflexivity. Qed.

Lemma group_switch_eq d g : is_none g = false ->
  first_form (filter (sel "groupOptional" PNone) (filter (sel "group" g) d)) = group_switch d g.
Proof.
  intros H. unfold group_switch.
  rewrite (filter_ext _ _ (fun kv => sel_group_in_group g kv H)). rewrite (filter_ext _ _ sel_go_switch). reflexivity.
Qed.

(* ---------------------------------------------------------------- what wf_ui gives *)
Lemma wf_ui_keys d : wf_ui d = true -> keys_ok d.
Proof.
  unfold wf_ui. intros H. apply andb_true_iff in H as [H1 H2]. split.
  - rewrite forallb_forall in *. intros kv Hin. specialize (H2 kv Hin). apply andb_true_iff in H2 as [X _]. exact X.
  - simpl in H1. apply andb_true_iff in H1 as [_ X]. exact X.
Qed.
Lemma wf_ui_form d k v f : wf_ui d = true -> In (k, v) d -> form_members v = Some f -> wf_form d f = true.
Proof.
  unfold wf_ui. intros H Hin Ef. apply andb_true_iff in H as [_ H2]. rewrite forallb_forall in H2.
  specialize (H2 _ Hin). apply andb_true_iff in H2 as [_ X]. cbn [snd] in X. rewrite Ef in X. exact X.
Qed.
Lemma dict_find_in k d v : dict_find k d = Some v -> exists k2, In (k2, v) d.
Proof.
  induction d as [|[k2 w] r IH]; simpl; [discriminate|]. destruct (py_eq k k2).
  - intros E; inversion E; subst. exists k2. left; reflexivity.
  - intros E. destruct (IH E) as [k3 H]. exists k3. right; exact H.
Qed.
Lemma form_members_dict v f : form_members v = Some f -> v = PDict f.
Proof. unfold form_members. destruct v; try discriminate. destruct (_ && _); intros E; inversion E; reflexivity. Qed.

Lemma pbool_default k f dflt : opt_ok is_pbool (mem k f) = true -> exists b, mem_default k f (PBool dflt) = PBool b.
Proof.
  unfold mem_default. destruct (mem k f) as [x|]; simpl; [|intros _; exists dflt; reflexivity].
  destruct x; try discriminate. intros _. exists b; reflexivity.
Qed.

Lemma first_form_in l f : first_form l = Some f -> exists k v, In (k, v) l /\ form_members v = Some f.
Proof. destruct l as [|[k v] r]; simpl; [discriminate|]. intros E. exists k, v. split; [left; reflexivity | exact E]. Qed.

Lemma group_switch_in d g f0 : group_switch d g = Some f0 -> exists k v, In (k, v) d /\ form_members v = Some f0.
Proof.
  unfold group_switch. intros E.
  destruct (first_form_in (filter has_group_switch (filter (in_group g) d)) f0) as (k & v & Hin & Ef).
  { unfold first_form. exact E. }
  exists k, v. split; [|exact Ef]. apply filter_In in Hin as [Hin _]. apply filter_In in Hin as [Hin _]. exact Hin.
Qed.

Lemma group_requires_value_eq d p f g :
  wf_ui d = true -> dict_find (PStr p) d = Some (PDict f) -> form_members (PDict f) = Some f -> mem "group" f = Some g ->
  group_requires_value (PDict d) (PStr p) = Ok (PBool (group_on d g)).
Proof.
  intros W Hp Ef Hg. pose proof (wf_ui_keys d W) as K.
  destruct (dict_find_in _ _ _ Hp) as [kp Hinp].
  pose proof (wf_ui_form d kp (PDict f) f W Hinp Ef) as Wf.
  assert (Gs : is_pstr g = true).
  { unfold wf_form in Wf. repeat (apply andb_true_iff in Wf as [Wf ?]). rewrite Hg in H0. exact H0. }
  destruct g; try discriminate. rename s into gname.
  unfold group_requires_value. rewrite getitem_dict_str, Hp. cbn [bind]. rewrite getitem_dict_str. unfold mem in Hg. rewrite Hg. cbn [bind].
  destruct K as [K1 K2]. rewrite collect_eq by (try apply pstr_hashable; assumption). cbn [bind].
  rewrite group_optional_eq by (split; assumption). cbn [bind].
  rewrite group_switch_eq by reflexivity. unfold group_on.
  destruct (group_switch d (PStr gname)) as [f0|] eqn:Es; [|reflexivity].
  destruct (group_switch_in _ _ _ Es) as (k0 & v0 & Hin0 & Ef0).
  pose proof (wf_ui_form d k0 v0 f0 W Hin0 Ef0) as Wf0.
  unfold wf_form in Wf0. repeat (apply andb_true_iff in Wf0 as [Wf0 ?]).
  destruct (pbool_default "groupOptional" f0 false H1) as [b Eb]. rewrite Eb. cbn [truthy].
  destruct b; [|reflexivity].
  rewrite group_enabled_eq by (apply keys_ok_filter; split; assumption).
  rewrite group_switch_eq by reflexivity. rewrite Es.
  destruct (pbool_default "enabled" f0 true H2) as [e Ee]. rewrite Ee. reflexivity.
Qed.

Lemma wf_form_parts d f : wf_form d f = true ->
  opt_ok is_pbool (mem "optional" f) = true /\ opt_ok is_pbool (mem "enabled" f) = true /\
  opt_ok is_pbool (mem "groupOptional" f) = true /\ opt_ok is_pstr (mem "group" f) = true /\
  match mem "dependency" f with
  | None => True
  | Some dep => exists s fd, dep = PStr s /\ dict_find (PStr s) d = Some (PDict fd) /\
                opt_ok is_pbool (mem "optional" fd) = true /\
                opt_ok is_pbool (mem (if truthy (mem_default "optional" fd (PBool false)) then "enabled" else "value") fd) = true
  end.
Proof.
  unfold wf_form. intros H. repeat (apply andb_true_iff in H as [H ?]).
  repeat split; try assumption.
  destruct (mem "dependency" f) as [dep|]; [|exact I].
  apply andb_true_iff in H0 as [Hs Hd]. destruct dep; try discriminate.
  destruct (dict_find (PStr s) d) as [vd|] eqn:Ed; [|discriminate]. destruct vd; try discriminate.
  apply andb_true_iff in Hd as [A B]. exists s, d0. repeat split; assumption.
Qed.

Lemma own_switch_pbool d f : wf_form d f = true -> dict_get (PDict f) (PStr "enabled") (PBool true) = Ok (PBool (truthy (mem_default "enabled" f (PBool true)))).
Proof.
  intros W. destruct (wf_form_parts d f W) as (_ & He & _). rewrite dict_get_dict_str.
  destruct (pbool_default "enabled" f true He) as [e Ee]. unfold mem_default, mem in Ee. rewrite Ee.
  unfold mem_default, mem. rewrite Ee. reflexivity.
Qed.

Lemma optional_requires_value_eq d p f :
  wf_form d f = true -> dict_find (PStr p) d = Some (PDict f) -> mem "optional" f <> None ->
  optional_requires_value (PDict d) (PStr p) = Ok (PBool (own_switch f)).
Proof.
  intros W Hp Ho. unfold optional_requires_value. rewrite getitem_dict_str, Hp. cbn [bind].
  rewrite (own_switch_pbool d f W). unfold own_switch. destruct (mem "optional" f); [reflexivity | contradiction].
Qed.

Lemma dependency_requires_value_eq d p f :
  wf_form d f = true -> dict_find (PStr p) d = Some (PDict f) -> mem "dependency" f <> None ->
  dependency_requires_value (PDict d) (PStr p) = Ok (PBool (if dep_on d f then own_switch f else false)).
Proof.
  intros W Hp Hd. destruct (wf_form_parts d f W) as (Ho & He & _ & _ & Hdep).
  unfold dep_on. destruct (mem "dependency" f) as [dep|] eqn:Edep; [|contradiction].
  destruct Hdep as (s & fd & -> & Efd & Hfo & Hsw).
  unfold dependency_requires_value.
  rewrite !getitem_dict_str, !Hp. cbn [bind]. rewrite getitem_dict_str. unfold mem in Edep. rewrite Edep. cbn [bind].
  rewrite !getitem_dict_str, !Efd. cbn [bind]. rewrite !dict_get_dict_str. cbn [bind].
  destruct (pbool_default "optional" fd false Hfo) as [bo Ebo]. rewrite Ebo in *.
  unfold mem_default, mem in Ebo. rewrite Ebo. cbn [truthy].
  set (key := if bo then "enabled" else "value") in *.
  destruct (pbool_default key fd true Hsw) as [sw Esw].
  assert (Esw' : match dict_find (PStr key) fd with Some v => v | None => PBool true end = PBool sw) by exact Esw.
  replace (if bo then PStr "enabled" else PStr "value") with (PStr key) by (unfold key; destruct bo; reflexivity).
  rewrite !dict_get_dict_str, !contains_dict_str. cbn [bind].
  rewrite Esw. rewrite !Esw'. unfold own_switch, mem_default, mem, dict_has.
  destruct (pbool_default "enabled" f true He) as [e Ee]. unfold mem_default, mem in Ee. rewrite Ee.
  destruct (py_eq match dict_find (PStr "dependencyType") f with Some v => v | None => PStr "enabled" end (PStr "enabled"));
    cbn [truthy negb bind]; destruct (dict_find (PStr "optional") f); destruct sw; reflexivity.
Qed.

Theorem requires_value_spec d p v :
  wf_ui d = true -> dict_find (PStr p) d = Some v ->
  requires_value (PDict d) (PStr p) = Ok (PBool (rv_spec d v)).
Proof.
  intros W Hp. unfold requires_value, rv_spec.
  rewrite !getitem_dict_str, !Hp. cbn [bind]. rewrite is_form_eq. unfold is_formb. cbn [bind truthy].
  destruct (form_members v) as [f|] eqn:Ef; [|reflexivity].
  pose proof (form_members_dict v f Ef) as ->.
  destruct (dict_find_in _ _ _ Hp) as [kp Hinp].
  pose proof (wf_ui_form d kp (PDict f) f W Hinp Ef) as Wf.
  rewrite !contains_dict_str. cbn [bind]. unfold dict_has. fold (mem "group" f) (mem "dependency" f) (mem "optional" f).
  destruct (mem "group" f) as [g|] eqn:Eg.
  - rewrite (group_requires_value_eq d p f g W Hp Ef Eg). cbn [bind truthy].
    destruct (group_on d g); [|reflexivity].
    destruct (mem "dependency" f) as [dep|] eqn:Ed.
    + rewrite (dependency_requires_value_eq d p f Wf Hp) by (rewrite Ed; discriminate). reflexivity.
    + destruct (mem "optional" f) as [o|] eqn:Eo.
      * rewrite (optional_requires_value_eq d p f Wf Hp) by (rewrite Eo; discriminate). reflexivity.
      * unfold own_switch. rewrite Eo. reflexivity.
  - destruct (mem "dependency" f) as [dep|] eqn:Ed.
    + rewrite (dependency_requires_value_eq d p f Wf Hp) by (rewrite Ed; discriminate). reflexivity.
    + destruct (mem "optional" f) as [o|] eqn:Eo.
      * rewrite (optional_requires_value_eq d p f Wf Hp) by (rewrite Eo; discriminate). reflexivity.
      * unfold own_switch. rewrite Eo. reflexivity.
Qed.

Corollary requires_value_total d p :
  wf_ui d = true -> dict_has (PStr p) d = true -> exists b, requires_value (PDict d) (PStr p) = Ok (PBool b).
Proof.
  intros W H. unfold dict_has in H. destruct (dict_find (PStr p) d) as [v|] eqn:E; [|discriminate].
  exists (rv_spec d v). apply requires_value_spec; assumption.
Qed.
