(* Proofs about Model/FormParams.v (property C15): a rejected member value leaves the form as it was. *)
From Coq Require Import String.
From GV Require Import Prelude.Base Model.PyVal Model.Enforcers Model.FormParams Proofs.PyValProofs Proofs.EnforcersProofs.
Local Open Scope string_scope. Local Open Scope list_scope.

Lemma form_values_update m p p' members :
  assoc_s m members = Some p -> pm_val p' = pm_val p ->
  map (fun np : string * param => (fst np, pm_val (snd np))) (update_s m p' members)
  = map (fun np : string * param => (fst np, pm_val (snd np))) members.
Proof.
  induction members as [|[k q] r IH]; simpl; intros H E; [discriminate|].
  destruct (String.eqb m k) eqn:Ek; simpl.
  - inversion H; subst. rewrite E. reflexivity.
  - rewrite IH by assumption. reflexivity.
Qed.

(* a rejected member value: stored values, extra members and the active list are what they were *)
Theorem form_set_reject_keeps f m v e : snd (form_set f m v) = Raise e -> fview (fst (form_set f m v)) = fview f.
Proof.
  unfold form_set, form_set_gen. destruct (assoc_s m (f_members f)) as [p|] eqn:Ea; [|reflexivity].
  pose proof (param_reject_keeps p v) as K. destruct (param_set p v) as [p' r] eqn:Es. destruct r as [[]|x]; simpl; [discriminate|].
  intros _. unfold fview, form_values. simpl. rewrite (form_values_update m p p' (f_members f) Ea (K x eq_refl)). reflexivity.
Qed.

(* an accepted member value is stored, and (other than "value") marked active *)
Theorem form_set_accept f m v p : assoc_s m (f_members f) = Some p -> snd (form_set f m v) = Ok tt ->
  f_active (fst (form_set f m v)) = (if String.eqb m "value" then f_active f else f_active f ++ [m])
  /\ f_extra (fst (form_set f m v)) = f_extra f.
Proof.
  unfold form_set, form_set_gen. intros Ea. rewrite Ea. destruct (param_set p v) as [p' r]. destruct r as [[]|x]; simpl; [|discriminate].
  intros _. split; reflexivity.
Qed.

Lemma form_set_verdict f m v p : assoc_s m (f_members f) = Some p -> snd (form_set f m v) = snd (param_set p v).
Proof.
  unfold form_set, form_set_gen. intros Ea. rewrite Ea. destruct (param_set p v) as [p' r]. destruct r as [[]|x]; reflexivity.
Qed.

(* the verdict for a member depends only on the enforcers behind that member, not on anything set or rejected before *)
Theorem form_set_stateless f g m v p q :
  assoc_s m (f_members f) = Some p -> assoc_s m (f_members g) = Some q -> p_enf (pm_pool p) = p_enf (pm_pool q) ->
  snd (form_set f m v) = snd (form_set g m v).
Proof.
  intros Ef Eg E. rewrite (form_set_verdict f m v p Ef), (form_set_verdict g m v q Eg), !param_set_verdict.
  apply pool_enforce_only_enf. exact E.
Qed.

(* marking the member active before the value is validated (the order the statement excludes) is refuted *)
Theorem form_set_mark_first_refuted :
  ~ (forall f m v e, snd (form_set_gen true f m v) = Raise e -> fview (fst (form_set_gen true f m v)) = fview f).
Proof.
  intros H.
  specialize (H {| f_members := [("optional", fresh_param [EType [TBool]])]; f_extra := []; f_active := [] |} "optional" (PStr "yes")
                (Validation VType) eq_refl).
  vm_compute in H. discriminate.
Qed.
