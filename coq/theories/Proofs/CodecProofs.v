(* Proofs about Model/Codec.v (property C08): numeric classes, text, blobs, UTF-8. *)
From GV Require Import Prelude.Base Model.Codec.

Local Open Scope Z_scope.

(* ------------------------------------------------------------------ arithmetic *)
Lemma in_int32b_spec z : in_int32b z = true <-> in_int32 z.
Proof. unfold in_int32b, in_int32. rewrite andb_true_iff, !Z.leb_le. tauto. Qed.

Lemma wrap32_id z : in_int32 z -> wrap32 z = z.
Proof.
  unfold in_int32, wrap32, INT_MIN, INT_MAX. intros H.
  rewrite Z.mod_small by (change (2 ^ 32) with 4294967296; change (2 ^ 31) with 2147483648; lia). lia.
Qed.

Lemma wrap32_range z : in_int32 (wrap32 z).
Proof.
  unfold in_int32, wrap32, INT_MIN, INT_MAX.
  pose proof (Z.mod_pos_bound (z + 2 ^ 31) (2 ^ 32) ltac:(reflexivity)) as H.
  change (2 ^ 32) with 4294967296 in *; change (2 ^ 31) with 2147483648 in *. lia.
Qed.

Lemma ndv_in_int32 : in_int32 INTEGER_NDV.
Proof. unfold in_int32, INTEGER_NDV, INT_MIN, INT_MAX. lia. Qed.

Lemma forallb_in_int32 l : forallb in_int32b l = true <-> Forall in_int32 l.
Proof.
  rewrite forallb_forall, Forall_forall. split; intros H x Hx; apply in_int32b_spec; auto.
Qed.

Lemma map_wrap32_id l : Forall in_int32 l -> map wrap32 l = l.
Proof. induction 1; simpl; [reflexivity|]. rewrite wrap32_id, IHForall; auto. Qed.

(* ------------------------------------------------------------------ lists *)
Lemma padded_length {A} (l : list A) n f : (length l <= n)%nat -> length (padded l n f) = n.
Proof.
  intros H. unfold padded. destruct (Nat.ltb_spec (length l) n).
  - rewrite app_length, repeat_length. lia.
  - lia.
Qed.

Lemma padded_length_ge {A} (l : list A) n f : (n <= length (padded l n f))%nat.
Proof.
  unfold padded. destruct (Nat.ltb_spec (length l) n).
  - rewrite app_length, repeat_length. lia.
  - lia.
Qed.

Lemma padded_nonempty {A} (l : list A) n f : (1 <= n)%nat -> padded l n f <> [].
Proof.
  intros Hn E. pose proof (padded_length_ge l n f) as H. rewrite E in H. simpl in H. lia.
Qed.

Lemma padded_idem {A} (l : list A) n f : padded (padded l n f) n f = padded l n f.
Proof.
  unfold padded at 1. destruct (Nat.ltb_spec (length (padded l n f)) n) as [H|H]; [|reflexivity].
  pose proof (padded_length_ge l n f). lia.
Qed.

Lemma Forall_padded {A} (P : A -> Prop) l n f : Forall P l -> P f -> Forall P (padded l n f).
Proof.
  intros Hl Hf. unfold padded. destruct (length l <? n)%nat; [|assumption].
  apply Forall_app. split; [assumption|]. apply Forall_forall. intros x Hx. apply repeat_spec in Hx. subst. assumption.
Qed.

Lemma map_repeat' {A B} (g : A -> B) x k : map g (repeat x k) = repeat (g x) k.
Proof. induction k; simpl; congruence. Qed.

Lemma map_padded {A B} (g : A -> B) l n f : map g (padded l n f) = padded (map g l) n (g f).
Proof.
  unfold padded. rewrite map_length. destruct (length l <? n)%nat; [|reflexivity].
  rewrite map_app, map_repeat'. reflexivity.
Qed.

(* format_length on a list-shaped array, phrased with [padded] *)
Definition len_ok (a : assoc) (n len : nat) : Prop := a = AVertex -> (len <= n)%nat.

Lemma len_ok_dec a n len : {len_ok a n len} + {a = AVertex /\ (n < len)%nat}.
Proof.
  destruct a.
  - destruct (le_lt_dec len n); [left; intros _; assumption | right; auto].
  - left. intros H; discriminate.
Qed.

(* ------------------------------------------------------------------ float data *)
Definition enc_f (x : fl) : fl := if is_nan x then FNdv else x.        (* writer *)
Definition dec_f (x : fl) : fl := if is_ndv x then FNaN else x.        (* reader *)

Lemma dec_enc_f v : v <> FNdv -> dec_f (enc_f v) = v.
Proof. intros H. destruct v; unfold enc_f, dec_f; simpl; congruence. Qed.

Lemma enc_f_not_nan v : enc_f v <> FNaN.
Proof. destruct v; unfold enc_f; simpl; discriminate. Qed.

Lemma enc_f_ndv_iff v : v <> FNdv -> (enc_f v = FNdv <-> v = FNaN).
Proof. intros H. destruct v; unfold enc_f; simpl; intuition congruence. Qed.

Lemma map_dec_enc_f l : ~ In FNdv l -> map dec_f (map enc_f l) = l.
Proof.
  induction l as [|v r IH]; simpl; intros H; [reflexivity|].
  rewrite dec_enc_f by (intros E; apply H; left; auto). rewrite IH by (intros E; apply H; right; auto). reflexivity.
Qed.

Lemma map_put_nan_float l : map (fun v => if is_nan v then FNaN else v) l = l.
Proof. induction l as [|v r IH]; simpl; [reflexivity|]. rewrite IH. destruct v; reflexivity. Qed.

Lemma format_values_float w d a n l :
  len_ok a n (length l) ->
  format_values w CFloat a n (AFlt d l) = Ok (VF (padded l n FNaN)).
Proof.
  intros Hlen. unfold format_values, replace_nan. simpl bind. rewrite map_put_nan_float.
  unfold format_length, padded. simpl alen.
  destruct (Nat.ltb_spec (length l) n) as [H|H]; simpl.
  - reflexivity.
  - destruct (Nat.ltb_spec n (length l)) as [H2|H2]; [|reflexivity].
    destruct a; [|reflexivity]. specialize (Hlen eq_refl). lia.
Qed.

Lemma fetch_RF64 l : l <> [] -> fetch (RF64 l) = Ok (AFlt F64 (map dec_f l)).
Proof. destruct l; [congruence|reflexivity]. Qed.

Theorem float_roundtrip : forall w d a n l,
  ~ In FNdv l -> len_ok a n (length l) -> (1 <= n)%nat ->
  let l' := padded l n FNaN in
  run_num w CFloat a n (AFlt d l) = ODone (VF l') (RF64 (map enc_f l')) (VF l').
Proof.
  intros w d a n l Hndv Hlen Hn l'. unfold run_num, store.
  rewrite format_values_float by assumption. simpl bind. fold l'.
  change (write_values (VF l')) with (RF64 (map enc_f l')).
  unfold reopen. rewrite fetch_RF64.
  2:{ intros E. apply map_eq_nil in E. revert E. apply padded_nonempty; assumption. }
  simpl bind. rewrite map_dec_enc_f.
  2:{ unfold l', padded. destruct (length l <? n)%nat; [|assumption].
      rewrite in_app_iff. intros [H|H]; [auto|]. apply repeat_spec in H. discriminate. }
  rewrite format_values_float.
  - unfold l'. rewrite padded_idem. reflexivity.
  - intros Ha. unfold l'. rewrite padded_length by (apply Hlen; assumption). lia.
Qed.

(* ------------------------------------------------------------------ integer / referenced data *)
Definition is_intcls (c : cls) : Prop := c = CInteger \/ c = CReferenced.

Definition too_long (a : assoc) (n len : nat) : bool :=
  match a with AVertex => (n <? len)%nat | AObject => false end.

Lemma too_long_false a n len : too_long a n len = false <-> len_ok a n len.
Proof.
  unfold too_long, len_ok. destruct a.
  - rewrite Nat.ltb_ge. split; [intros H _; exact H | intros H; apply H; reflexivity].
  - split; [intros _ H; discriminate | reflexivity].
Qed.

Lemma forallb_app' {A} (f : A -> bool) l1 l2 : forallb f (l1 ++ l2) = forallb f l1 && forallb f l2.
Proof. induction l1; simpl; [reflexivity|]. rewrite IHl1, andb_assoc. reflexivity. Qed.

Lemma existsb_app' {A} (f : A -> bool) l1 l2 : existsb f (l1 ++ l2) = existsb f l1 || existsb f l2.
Proof. induction l1; simpl; [reflexivity|]. rewrite IHl1, orb_assoc. reflexivity. Qed.

Lemma forallb_repeat {A} (f : A -> bool) x k : f x = true -> forallb f (repeat x k) = true.
Proof. intros H. induction k; simpl; [reflexivity|]. rewrite H, IHk. reflexivity. Qed.

Lemma existsb_repeat {A} (f : A -> bool) x k : f x = false -> existsb f (repeat x k) = false.
Proof. intros H. induction k; simpl; [reflexivity|]. rewrite H, IHk. reflexivity. Qed.

Lemma existsb_frac_FInt l : existsb has_frac (map FInt l) = false.
Proof. induction l; simpl; auto. Qed.

Lemma forallb_range_FInt l : forallb f_in_range (map FInt l) = forallb in_int32b l.
Proof. induction l; simpl; [reflexivity|]. rewrite IHl. reflexivity. Qed.

Lemma map_f2i32_FInt l : forallb in_int32b l = true -> map f2i32 (map FInt l) = l.
Proof.
  induction l as [|z r IH]; simpl; [reflexivity|]. intros H. apply andb_true_iff in H as [H1 H2].
  rewrite H1, IH by assumption. reflexivity.
Qed.

Lemma map_wrap32_idb l : forallb in_int32b l = true -> map wrap32 l = l.
Proof. intros H. apply map_wrap32_id, forallb_in_int32, H. Qed.

Lemma ndv_rangeb : in_int32b INTEGER_NDV = true.
Proof. reflexivity. Qed.

(* closed form of format_values on integer arrays, repaired code *)
Lemma fv_int_cf c d a n l : is_intcls c ->
  format_values Repaired c a n (AInt d l) =
    if too_long a n (length l) then Err ValueErr
    else if forallb in_int32b l then Ok (VI (padded l n INTEGER_NDV)) else Err ValueErr.
Proof.
  intros Hc. unfold format_values, format_length, too_long, padded.
  assert (replace_nan c (AInt d l) = Ok (AInt d l)) as -> by (destruct Hc; subst; reflexivity).
  simpl bind. simpl alen.
  destruct (Nat.ltb_spec (length l) n) as [Hs|Hs].
  - replace (match a with AVertex => (n <? length l)%nat | AObject => false end) with false
      by (destruct a; [symmetry; apply Nat.ltb_ge; lia | reflexivity]).
    simpl bind.
    generalize (n - length l)%nat as k. intros k.
    destruct Hc; subst c; destruct d; simpl;
      rewrite ?existsb_app', ?forallb_app', ?existsb_frac_FInt, ?forallb_range_FInt, ?map_app, ?map_repeat';
      rewrite ?existsb_repeat, ?forallb_repeat by reflexivity; rewrite ?andb_true_r; simpl;
      destruct (forallb in_int32b l) eqn:E; try reflexivity;
      rewrite ?map_f2i32_FInt, ?map_wrap32_idb by assumption; reflexivity.
  - destruct (Nat.ltb_spec n (length l)) as [Hl|Hl].
    + destruct a; simpl bind; [reflexivity|].
      destruct Hc; subst c; simpl; destruct (forallb in_int32b l) eqn:E; try reflexivity;
        rewrite map_wrap32_idb by assumption; reflexivity.
    + replace (match a with AVertex => false | AObject => false end) with false by (destruct a; reflexivity).
      simpl bind. destruct Hc; subst c; simpl; destruct (forallb in_int32b l) eqn:E; try reflexivity;
        rewrite map_wrap32_idb by assumption; reflexivity.
Qed.

Lemma fetch_RI32 l : l <> [] -> fetch (RI32 l) = Ok (AInt I32 l).
Proof. destruct l; [congruence|reflexivity]. Qed.

Theorem int_roundtrip_in_range : forall c d a n l,
  is_intcls c -> Forall in_int32 l -> len_ok a n (length l) -> (1 <= n)%nat ->
  let l' := padded l n INTEGER_NDV in
  run_num Repaired c a n (AInt d l) = ODone (VI l') (RI32 l') (VI l').
Proof.
  intros c d a n l Hc Hr Hlen Hn l'. unfold run_num, store.
  rewrite fv_int_cf by assumption.
  apply too_long_false in Hlen as Htl. rewrite Htl.
  apply forallb_in_int32 in Hr as Hrb. rewrite Hrb. simpl bind. fold l'.
  assert (Forall in_int32 l') as Hr' by (apply Forall_padded; [assumption | apply ndv_in_int32]).
  change (write_values (VI l')) with (RI32 (map wrap32 l')). rewrite map_wrap32_id by assumption.
  unfold reopen. rewrite fetch_RI32 by (apply padded_nonempty; assumption). simpl bind.
  rewrite fv_int_cf by assumption.
  assert (too_long a n (length l') = false) as ->.
  { apply too_long_false. intros Ha. unfold l'. rewrite padded_length by (apply Hlen; assumption). lia. }
  apply forallb_in_int32 in Hr'. rewrite Hr'. unfold l'. rewrite padded_idem. reflexivity.
Qed.

(* every integer array the repaired code accepts reads back identical, gaps as the integer no-data code *)
Definition int_full (w : ver) : Prop :=
  forall c d a n l v r v', is_intcls c -> (1 <= n)%nat ->
    run_num w c a n (AInt d l) = ODone v r v' ->
    v = VI (padded l n INTEGER_NDV) /\ r = RI32 (padded l n INTEGER_NDV) /\ v' = v.

Theorem int_full_repaired : int_full Repaired.
Proof.
  intros c d a n l v r v' Hc Hn H.
  destruct (too_long a n (length l)) eqn:Htl.
  { unfold run_num, store in H. rewrite fv_int_cf, Htl in H by assumption. discriminate. }
  destruct (forallb in_int32b l) eqn:Hr.
  2:{ unfold run_num, store in H. rewrite fv_int_cf, Htl, Hr in H by assumption. discriminate. }
  rewrite int_roundtrip_in_range in H; try assumption.
  - inversion H; subst. auto.
  - apply forallb_in_int32; assumption.
  - apply too_long_false; assumption.
Qed.

Theorem int_old_refuted : ~ int_full Old.
Proof.
  intros H.
  specialize (H CInteger I64 AVertex 1%nat [2147483648] (VI [-2147483648]) (RI32 [-2147483648]) (VI [-2147483648])
                (or_introl eq_refl) (le_n 1) eq_refl).
  destruct H as [H _]. discriminate H.
Qed.

(* the concrete pre-repair behaviour on the probe input *)
Lemma int_old_wraps :
  run_num Old CInteger AVertex 2 (AInt I64 [2147483648; 5]) = ODone (VI [-2147483648; 5]) (RI32 [-2147483648; 5]) (VI [-2147483648; 5]).
Proof. reflexivity. Qed.

Theorem int_out_of_range_rejected : forall c d a n l,
  is_intcls c -> ~ Forall in_int32 l -> store Repaired c a n (AInt d l) = Err ValueErr.
Proof.
  intros c d a n l Hc Hr. unfold store. rewrite fv_int_cf by assumption.
  destruct (too_long a n (length l)); [reflexivity|].
  destruct (forallb in_int32b l) eqn:E; [|reflexivity].
  exfalso. apply Hr, forallb_in_int32, E.
Qed.

(* floats given to an integer class *)
Lemma replace_nan_keeps_frac c d l v :
  In v l -> has_frac v = true -> In v (map (fun v => if is_nan v then put_nan c d else v) l).
Proof.
  intros Hin Hf. apply in_map_iff. exists v. split; [|assumption]. destruct v; simpl in *; try discriminate; reflexivity.
Qed.

Lemma existsb_true_in {A} (f : A -> bool) l v : In v l -> f v = true -> existsb f l = true.
Proof. intros. apply existsb_exists. eauto. Qed.

Theorem int_rejects_fractional : forall w c d a n l v,
  is_intcls c -> In v l -> has_frac v = true ->
  store w c a n (AFlt d l) = Err (if too_long a n (length l) then ValueErr else TypeErr).
Proof.
  intros w c d a n l v Hc Hin Hf. unfold store, format_values.
  assert (replace_nan c (AFlt d l) = Ok (AFlt d (map (fun v => if is_nan v then put_nan c d else v) l))) as -> by reflexivity.
  cbn [bind]. set (l1 := map _ l).
  assert (In v l1) as Hin1 by (apply replace_nan_keeps_frac; assumption).
  assert (length l1 = length l) as Hlen by (unfold l1; apply map_length).
  unfold format_length, too_long. simpl alen. rewrite Hlen.
  destruct (Nat.ltb_spec (length l) n) as [Hs|Hs].
  - replace (match a with AVertex => (n <? length l)%nat | AObject => false end) with false
      by (destruct a; [symmetry; apply Nat.ltb_ge; lia | reflexivity]).
    cbn [bind].
    assert (forall k, exists d' fill, pad_arr c k (AFlt d l1) = AFlt d' (l1 ++ repeat fill k)) as Hp.
    { intros k. destruct Hc; subst c; simpl; eauto. }
    destruct (Hp (n - length l)%nat) as (d' & fill & ->).
    destruct Hc; subst c; simpl;
      rewrite (existsb_true_in has_frac (l1 ++ repeat fill (n - length l)) v) by (try apply in_or_app; auto); reflexivity.
  - destruct (Nat.ltb_spec n (length l)) as [Hl|Hl].
    + destruct a; cbn [bind]; [reflexivity|].
      destruct Hc; subst c; simpl; rewrite (existsb_true_in has_frac l1 v) by assumption; reflexivity.
    + replace (match a with AVertex => false | AObject => false end) with false by (destruct a; reflexivity).
      cbn [bind]. destruct Hc; subst c; simpl; rewrite (existsb_true_in has_frac l1 v) by assumption; reflexivity.
Qed.

Lemma reopen_int_padded c a n l :
  is_intcls c -> Forall in_int32 l -> len_ok a n (length l) -> (1 <= n)%nat ->
  reopen Repaired c a n (RI32 (padded l n INTEGER_NDV)) = Ok (VI (padded l n INTEGER_NDV)).
Proof.
  intros Hc Hr Hlen Hn. set (l' := padded l n INTEGER_NDV).
  assert (Forall in_int32 l') as Hr' by (apply Forall_padded; [assumption | apply ndv_in_int32]).
  unfold reopen. rewrite fetch_RI32 by (apply padded_nonempty; assumption). cbn [bind].
  rewrite fv_int_cf by assumption.
  assert (too_long a n (length l') = false) as ->.
  { apply too_long_false. intros Ha. unfold l'. rewrite padded_length by (apply Hlen; assumption). lia. }
  apply forallb_in_int32 in Hr'. rewrite Hr'. unfold l'. rewrite padded_idem. reflexivity.
Qed.

Definition fl_int_ok (v : fl) : Prop :=
  match v with FNaN | FNegZero => True | FInt z => in_int32 z | _ => False end.
Definition fl2z (v : fl) : Z := match v with FInt z => z | FNaN => INTEGER_NDV | _ => 0 end.

Lemma fl_int_ok_elem v (v1 := if is_nan v then FInt INTEGER_NDV else v) :
  fl_int_ok v -> has_frac v1 = false /\ f_in_range v1 = true /\ f2i32 v1 = fl2z v /\ in_int32 (fl2z v).
Proof.
  subst v1. destruct v; simpl; intros H; try contradiction.
  - split; [reflexivity|]. split; [reflexivity|]. split; [reflexivity|]. apply ndv_in_int32.
  - split; [reflexivity|]. split; [reflexivity|]. split; [reflexivity|]. unfold in_int32, INT_MIN, INT_MAX; lia.
  - apply in_int32b_spec in H as Hb. split; [reflexivity|]. split; [assumption|]. split; [rewrite Hb; reflexivity | assumption].
Qed.

Lemma fl_int_ok_list l (l1 := map (fun v => if is_nan v then FInt INTEGER_NDV else v) l) :
  Forall fl_int_ok l ->
  existsb has_frac l1 = false /\ forallb f_in_range l1 = true /\ map f2i32 l1 = map fl2z l /\ Forall in_int32 (map fl2z l).
Proof.
  subst l1. induction 1 as [|v r Hv Hr IH]; simpl; [auto|].
  destruct IH as (I1 & I2 & I3 & I4). destruct (fl_int_ok_elem v Hv) as (E1 & E2 & E3 & E4).
  rewrite E1, E2, E3, I1, I2, I3. auto.
Qed.

Theorem int_from_float_roundtrip : forall c d a n l,
  is_intcls c -> d <> F16 -> Forall fl_int_ok l -> len_ok a n (length l) -> (1 <= n)%nat ->
  let l' := padded (map fl2z l) n INTEGER_NDV in
  run_num Repaired c a n (AFlt d l) = ODone (VI l') (RI32 l') (VI l').
Proof.
  intros c d a n l Hc Hd Hok Hlen Hn l'.
  destruct (fl_int_ok_list l Hok) as (E1 & E2 & E3 & E4).
  assert (format_values Repaired c a n (AFlt d l) = Ok (VI l')) as Hfv.
  { unfold format_values.
    assert (replace_nan c (AFlt d l) = Ok (AFlt d (map (fun v => if is_nan v then FInt INTEGER_NDV else v) l))) as ->.
    { destruct Hc; subst c; destruct d; try congruence; reflexivity. }
    cbn [bind]. set (l1 := map (fun v => if is_nan v then FInt INTEGER_NDV else v) l) in *.
    assert (length l1 = length l) as Hl1 by (unfold l1; apply map_length).
    unfold format_length. simpl alen. rewrite Hl1. unfold l', padded. rewrite map_length.
    destruct (Nat.ltb_spec (length l) n) as [Hs|Hs].
    - cbn [bind].
      assert (pad_arr c (n - length l) (AFlt d l1) = AFlt F64 (l1 ++ repeat (FInt INTEGER_NDV) (n - length l))) as ->
        by (destruct Hc; subst c; reflexivity).
      destruct Hc; subst c; simpl;
        rewrite existsb_app', forallb_app', E1, E2, map_app, E3, map_repeat',
          existsb_repeat, forallb_repeat by reflexivity; reflexivity.
    - assert ((if (n <? length l)%nat then match a with AObject => Ok (AFlt d l1) | AVertex => Err ValueErr end else Ok (AFlt d l1))
              = Ok (AFlt d l1)) as ->.
      { destruct (Nat.ltb_spec n (length l)); [|reflexivity]. destruct a; [|reflexivity]. specialize (Hlen eq_refl). lia. }
      cbn [bind]. destruct Hc; subst c; simpl; rewrite E1, E2, E3; reflexivity. }
  unfold run_num, store. rewrite Hfv. cbn [bind].
  assert (Forall in_int32 l') as Hr' by (apply Forall_padded; [assumption | apply ndv_in_int32]).
  change (write_values (VI l')) with (RI32 (map wrap32 l')). rewrite map_wrap32_id by assumption.
  unfold l'. rewrite reopen_int_padded; try assumption; [reflexivity|]. rewrite map_length. assumption.
Qed.

Theorem int_rejects_infinite : forall c d a n l s,
  is_intcls c -> In (FInf s) l -> exists e, store Repaired c a n (AFlt d l) = Err e.
Proof.
  intros c d a n l s Hc Hin. unfold store, format_values.
  assert (replace_nan c (AFlt d l) = Ok (AFlt d (map (fun v => if is_nan v then put_nan c d else v) l))) as -> by reflexivity.
  cbn [bind]. set (l1 := map _ l).
  assert (In (FInf s) l1) as Hin1 by (apply in_map_iff; exists (FInf s); split; [reflexivity | assumption]).
  assert (forall l2, In (FInf s) l2 -> forallb f_in_range l2 = false) as Hf.
  { intros l2 H2. destruct (forallb f_in_range l2) eqn:E; [|reflexivity].
    rewrite forallb_forall in E. specialize (E _ H2). discriminate. }
  destruct (format_length c a n (AFlt d l1)) as [x2|e] eqn:Efl; [|eexists; reflexivity].
  cbn [bind].
  assert (exists d' l2, x2 = AFlt d' l2 /\ In (FInf s) l2) as (d' & l2 & -> & Hin2).
  { unfold format_length in Efl. simpl alen in Efl.
    destruct (length l1 <? n)%nat.
    - inversion Efl. destruct Hc; subst c; simpl; do 2 eexists; split; try reflexivity; apply in_or_app; auto.
    - destruct (n <? length l1)%nat; [destruct a; inversion Efl|inversion Efl]; eauto. }
  destruct Hc; subst c; simpl; destruct (existsb has_frac l2); try (eexists; reflexivity);
    rewrite (Hf l2 Hin2); eexists; reflexivity.
Qed.

(* ------------------------------------------------------------------ boolean data *)
Lemma wrap8_b2z b : wrap8 (b2z b) = b2z b.
Proof. destruct b; reflexivity. Qed.

Lemma forallb_is01_b2z l : forallb is01_z (map b2z l) = true.
Proof. induction l as [|b r IH]; simpl; [reflexivity|]. rewrite IH. destruct b; reflexivity. Qed.

Lemma map_nz_b2z l : map (fun z => negb (z =? 0)) (map b2z l) = l.
Proof. induction l as [|b r IH]; simpl; [reflexivity|]. rewrite IH. destruct b; reflexivity. Qed.

Lemma format_values_bool w a n l :
  len_ok a n (length l) -> format_values w CBoolean a n (ABool l) = Ok (VB (padded l n false)).
Proof.
  intros Hlen. unfold format_values. simpl replace_nan. cbn [bind]. unfold format_length, padded. simpl alen.
  destruct (Nat.ltb_spec (length l) n) as [Hs|Hs].
  - cbn [bind]. simpl. rewrite forallb_app', forallb_is01_b2z, forallb_repeat by reflexivity. simpl.
    rewrite map_app, map_nz_b2z, map_repeat'. reflexivity.
  - destruct (Nat.ltb_spec n (length l)); [|reflexivity]. destruct a; [|reflexivity]. specialize (Hlen eq_refl). lia.
Qed.

Lemma format_values_bool_i8 w a n l :
  len_ok a n (length l) -> (n <= length l)%nat -> format_values w CBoolean a n (AInt I8 (map b2z l)) = Ok (VB l).
Proof.
  intros Hlen Hge. unfold format_values. simpl replace_nan. cbn [bind]. unfold format_length. simpl alen. rewrite map_length.
  assert ((length l <? n)%nat = false) as -> by (apply Nat.ltb_ge; assumption).
  assert ((if (n <? length l)%nat then match a with AObject => Ok (AInt I8 (map b2z l)) | AVertex => Err ValueErr end
           else Ok (AInt I8 (map b2z l))) = Ok (AInt I8 (map b2z l))) as ->.
  { destruct (Nat.ltb_spec n (length l)); [|reflexivity]. destruct a; [|reflexivity]. specialize (Hlen eq_refl). lia. }
  cbn [bind]. simpl. rewrite forallb_is01_b2z, map_nz_b2z. reflexivity.
Qed.

Theorem bool_roundtrip : forall w a n l,
  len_ok a n (length l) -> (1 <= n)%nat ->
  let l' := padded l n false in
  run_num w CBoolean a n (ABool l) = ODone (VB l') (RI8 (map b2z l')) (VB l').
Proof.
  intros w a n l Hlen Hn l'. unfold run_num, store. rewrite format_values_bool by assumption. cbn [bind]. fold l'.
  assert (write_values (VB l') = RI8 (map b2z l')) as ->.
  { simpl. f_equal. apply map_ext. intros b. apply wrap8_b2z. }
  unfold reopen.
  assert (fetch (RI8 (map b2z l')) = Ok (AInt I8 (map b2z l'))) as ->.
  { destruct l' eqn:E; [|reflexivity]. exfalso. revert E. apply padded_nonempty. assumption. }
  cbn [bind]. rewrite format_values_bool_i8; [reflexivity | |apply padded_length_ge].
  intros Ha. unfold l'. rewrite padded_length by (apply Hlen; assumption). lia.
Qed.

(* whatever a BooleanData accepts is held as booleans and stored as int8 zeros and ones *)
Theorem bool_only_01 : forall w a n x v r,
  store w CBoolean a n x = Ok (v, r) ->
  exists bl, v = VB bl /\ r = RI8 (map b2z bl) /\ Forall (fun z => z = 0 \/ z = 1) (map b2z bl).
Proof.
  intros w a n x v r H. unfold store, format_values in H.
  destruct (replace_nan CBoolean x) as [x1|e]; [|discriminate]. cbn [bind] in H.
  destruct (format_length CBoolean a n x1) as [x2|e]; [|discriminate]. cbn [bind] in H.
  assert ((exists bl, format_type w CBoolean x2 = Ok (VB bl)) \/ exists e, format_type w CBoolean x2 = Err e) as Hft.
  { destruct x2; simpl; try (right; eexists; reflexivity);
      try (match goal with |- context [if ?b then _ else _] => destruct b end); eauto. }
  destruct Hft as [[bl Hft]|[e Hft]]; rewrite Hft in H; [|discriminate]. cbn [bind] in H. inversion H; subst.
  exists bl. split; [reflexivity|]. split.
  - simpl. f_equal. apply map_ext. intros b. apply wrap8_b2z.
  - apply Forall_forall. intros z Hz. apply in_map_iff in Hz as (b & <- & _). destruct b; auto.
Qed.

Lemma forallb_false_in {A} (f : A -> bool) l v : In v l -> f v = false -> forallb f l = false.
Proof.
  intros Hin Hf. destruct (forallb f l) eqn:E; [|reflexivity]. rewrite forallb_forall in E. rewrite (E _ Hin) in Hf. discriminate.
Qed.

Theorem bool_rejects_non01_int : forall w d a n l z,
  In z l -> z <> 0 -> z <> 1 -> store w CBoolean a n (AInt d l) = Err ValueErr.
Proof.
  intros w d a n l z Hin H0 H1. unfold store, format_values. simpl replace_nan. cbn [bind].
  assert (is01_z z = false) as Hz.
  { unfold is01_z. apply orb_false_iff. split; apply Z.eqb_neq; assumption. }
  unfold format_length. simpl alen.
  destruct (length l <? n)%nat.
  - cbn [bind]. simpl. rewrite (forallb_false_in is01_z (l ++ repeat 0 (n - length l)) z); auto. apply in_or_app; auto.
  - destruct (n <? length l)%nat; [destruct a|]; cbn [bind]; try reflexivity;
      simpl; rewrite (forallb_false_in is01_z l z); auto.
Qed.

Theorem bool_rejects_non01_float : forall w d a n l v,
  In v l -> is_nan v = false -> is01_f v = false -> store w CBoolean a n (AFlt d l) = Err ValueErr.
Proof.
  intros w d a n l v Hin Hn H01. unfold store, format_values.
  assert (replace_nan CBoolean (AFlt d l) = Ok (AFlt d (map (fun v => if is_nan v then FInt 0 else v) l))) as -> by reflexivity.
  cbn [bind]. set (l1 := map _ l).
  assert (In v l1) as Hin1 by (apply in_map_iff; exists v; rewrite Hn; auto).
  unfold format_length. simpl alen.
  destruct (length l1 <? n)%nat.
  - cbn [bind]. simpl. rewrite (forallb_false_in is01_f (l1 ++ repeat (FInt 0) (n - length l1)) v); auto. apply in_or_app; auto.
  - destruct (n <? length l1)%nat; [destruct a|]; cbn [bind]; try reflexivity;
      simpl; rewrite (forallb_false_in is01_f l1 v); auto.
Qed.

(* ------------------------------------------------------------------ length and type refusals *)
Lemma alen_replace_nan c x x1 : replace_nan c x = Ok x1 -> alen x1 = alen x.
Proof.
  destruct x; simpl; try (destruct c); intros H; inversion H; simpl; rewrite ?map_length; reflexivity.
Qed.

Theorem too_long_rejected : forall w c n x,
  (n < alen x)%nat -> store w c AVertex n x = Err ValueErr.
Proof.
  intros w c n x Hn. unfold store, format_values.
  destruct (replace_nan c x) as [x1|e] eqn:E.
  - cbn [bind]. unfold format_length. rewrite (alen_replace_nan _ _ _ E).
    assert ((alen x <? n)%nat = false) as -> by (apply Nat.ltb_ge; lia).
    assert ((n <? alen x)%nat = true) as -> by (apply Nat.ltb_lt; assumption). reflexivity.
  - destruct x; simpl in E; try (destruct c); inversion E; try reflexivity; simpl in Hn; lia.
Qed.

Theorem unsupported_type_rejected :
  (forall w c a n, store w c a n AObj = Err TypeErr)
  /\ (forall c a n l, c <> CBoolean -> exists e, store Repaired c a n (ACplx l) = Err e)
  /\ (forall w a n l, length l = n -> store w CFloat a n (ABool l) = Err TypeErr)
  /\ (forall l, infer (ACplx l) = Err NotImplementedErr) /\ infer AObj = Err NotImplementedErr.
Proof.
  repeat split; try reflexivity.
  - intros c a n l Hc. unfold store, format_values. simpl replace_nan. cbn [bind].
    destruct (format_length c a n (ACplx _)) as [x2|e] eqn:E; [|eexists; reflexivity]. cbn [bind].
    assert (exists l2, x2 = ACplx l2) as (l2 & ->).
    { unfold format_length in E. simpl alen in E.
      destruct (_ <? n)%nat; [inversion E; simpl; eauto|].
      destruct (n <? _)%nat; [destruct a|]; inversion E; eauto. }
    destruct c; try congruence; simpl; eexists; reflexivity.
  - intros w a n l Hl. unfold store, format_values. simpl replace_nan. cbn [bind]. unfold format_length. simpl alen.
    rewrite Hl, Nat.ltb_irrefl. reflexivity.
Qed.

Lemma complex_old_drops_imag :
  run_num Old CFloat AVertex 1 (ACplx [(FInt 1, FInt 2)]) = ODone (VF [FInt 1]) (RF64 [FInt 1]) (VF [FInt 1]).
Proof. reflexivity. Qed.

(* per class: what is held and what dtype / codes reach the file *)
Theorem store_kind : forall w c a n x v r,
  store w c a n x = Ok (v, r) ->
  match c with
  | CFloat => exists l, v = VF l /\ r = RF64 (map enc_f l) /\ ~ In FNaN (map enc_f l)
  | CInteger | CReferenced => exists l, v = VI l /\ r = RI32 (map wrap32 l) /\ Forall in_int32 (map wrap32 l)
  | CBoolean => exists l, v = VB l /\ r = RI8 (map b2z l)
  end.
Proof.
  intros w c a n x v r H. destruct c.
  - unfold store, format_values in H.
    destruct (replace_nan CFloat x) as [x1|e]; [|discriminate]. cbn [bind] in H.
    destruct (format_length CFloat a n x1) as [x2|e]; [|discriminate]. cbn [bind] in H.
    assert ((exists l, format_type w CFloat x2 = Ok (VF l)) \/ exists e, format_type w CFloat x2 = Err e) as [[l Hft]|[e Hft]].
    { destruct x2; simpl; try destruct w; eauto. }
    2:{ rewrite Hft in H. discriminate. }
    rewrite Hft in H. cbn [bind] in H. inversion H; subst. exists l. repeat split.
    intros Hin. apply in_map_iff in Hin as (v & Hv & _). revert Hv. apply enc_f_not_nan.
  - unfold store, format_values in H.
    destruct (replace_nan CInteger x) as [x1|e]; [|discriminate]. cbn [bind] in H.
    destruct (format_length CInteger a n x1) as [x2|e]; [|discriminate]. cbn [bind] in H.
    assert ((exists l, format_type w CInteger x2 = Ok (VI l)) \/ exists e, format_type w CInteger x2 = Err e) as [[l Hft]|[e Hft]].
    { destruct x2; simpl; try destruct w; try (match goal with |- context [if ?b then _ else _] => destruct b end);
        try (match goal with |- context [if ?b then _ else _] => destruct b end); eauto. }
    2:{ rewrite Hft in H. discriminate. }
    rewrite Hft in H. cbn [bind] in H. inversion H; subst. exists l. repeat split.
    apply Forall_forall. intros z Hz. apply in_map_iff in Hz as (z0 & <- & _). apply wrap32_range.
  - unfold store, format_values in H.
    destruct (replace_nan CReferenced x) as [x1|e]; [|discriminate]. cbn [bind] in H.
    destruct (format_length CReferenced a n x1) as [x2|e]; [|discriminate]. cbn [bind] in H.
    assert ((exists l, format_type w CReferenced x2 = Ok (VI l)) \/ exists e, format_type w CReferenced x2 = Err e) as [[l Hft]|[e Hft]].
    { destruct x2; simpl; try destruct w; try (match goal with |- context [if ?b then _ else _] => destruct b end);
        try (match goal with |- context [if ?b then _ else _] => destruct b end); eauto. }
    2:{ rewrite Hft in H. discriminate. }
    rewrite Hft in H. cbn [bind] in H. inversion H; subst. exists l. repeat split.
    apply Forall_forall. intros z Hz. apply in_map_iff in Hz as (z0 & <- & _). apply wrap32_range.
  - destruct (bool_only_01 _ _ _ _ _ _ H) as (bl & -> & -> & _). eauto.
Qed.

(* ------------------------------------------------------------------ text *)
Lemma all_some_map_Some {A} (l : list A) : all_some (map Some l) = Some l.
Proof. induction l; simpl; [reflexivity|]. rewrite IHl. reflexivity. Qed.

Lemma all_some_spec {A} (l : list (option A)) r : all_some l = Some r <-> l = map Some r.
Proof.
  revert r. induction l as [|o l IH]; intros r; simpl.
  - split; [intros [= <-]; reflexivity | destruct r; [reflexivity | discriminate]].
  - destruct o as [a|].
    + destruct (all_some l) as [r'|] eqn:E.
      * split.
        -- intros [= <-]. simpl. f_equal. apply IH. reflexivity.
        -- destruct r as [|b r]; [discriminate|]. simpl. intros [= -> H]. apply IH in H. congruence.
      * split; [discriminate|]. destruct r as [|b r]; [discriminate|]. simpl. intros [= -> H]. apply IH in H. discriminate.
    + split; [discriminate|]. destruct r; discriminate.
Qed.

Section TextProofs.
  Variable enc : str -> option bytes.
  Variable dec : bytes -> option str.
  (* the codec law: what the encoder produces, the decoder maps back *)
  Hypothesis dec_enc : forall s b, enc s = Some b -> dec b = Some s.

  Theorem text_roundtrip_str : forall w a n s b,
    enc s = Some b -> has_nul b = false ->
    run_text enc dec w a n (TStr s) = TODone (TVStr s) (RTVlen [b]) (TVStr s).
  Proof.
    intros w a n s b He Hn. unfold run_text. simpl. unfold enc1. rewrite He, Hn. simpl.
    unfold text_fetch. simpl. rewrite (dec_enc _ _ He). reflexivity.
  Qed.

  Theorem text_roundtrip_bytes : forall w a n b s b',
    dec b = Some s -> enc s = Some b' -> has_nul b' = false ->
    run_text enc dec w a n (TBytes b) = TODone (TVStr s) (RTVlen [b']) (TVStr s).
  Proof.
    intros w a n b s b' Hd He Hn. unfold run_text. simpl. rewrite Hd. simpl. unfold enc1. rewrite He, Hn. simpl.
    unfold text_fetch. simpl. rewrite (dec_enc _ _ He). reflexivity.
  Qed.

  Lemma dec_all l bs : map enc l = map Some bs -> all_some (map dec bs) = Some l.
  Proof.
    revert bs. induction l as [|s l IH]; intros [|b bs]; simpl; try discriminate; [reflexivity|].
    intros [= He Hr]. rewrite (dec_enc _ _ He), (IH _ Hr). reflexivity.
  Qed.

  Lemma text_set_arr_ok w a n l : len_ok a n (length l) -> text_set dec w a n (TArrU l) = Ok (TVArrU l).
  Proof.
    intros H. simpl. destruct w, a; try reflexivity.
    assert ((n <? length l)%nat = false) as -> by (apply Nat.ltb_ge; apply H; reflexivity). reflexivity.
  Qed.

  Theorem text_roundtrip_arr : forall w a n l bs,
    l <> [] -> map enc l = map Some bs -> existsb has_nul bs = false -> len_ok a n (length l) ->
    exists v', run_text enc dec w a n (TArrU l) = TODone (TVArrU l) (RTVlen bs) v' /\ items v' = l.
  Proof.
    intros w a n l bs Hne He Hn Hlen. unfold run_text. rewrite text_set_arr_ok by assumption. cbn [bind].
    assert (text_write enc (TVArrU l) = Ok (RTVlen bs)) as ->.
    { destruct l as [|s l]; [congruence|]. unfold text_write, enc_arr. rewrite He, all_some_map_Some, Hn. reflexivity. }
    cbn [bind]. unfold text_fetch.
    destruct bs as [|b bs]; [destruct l; [congruence | discriminate]|].
    rewrite (dec_all _ _ He).
    destruct l as [|s [|s2 l]]; [congruence | |]; eexists; split; reflexivity.
  Qed.

  (* a byte array whose elements decode is stored like the decoded 'U' array (repaired code) *)
  Theorem text_arrS_as_arrU : forall a n l ss,
    ss <> [] -> all_some (map dec l) = Some ss ->
    run_text enc dec Repaired a n (TArrS l) = run_text enc dec Repaired a n (TArrU ss).
  Proof.
    intros a n l ss Hne Hd. unfold run_text. simpl text_set. rewrite Hd.
    destruct ss as [|s ss]; [congruence|]. destruct a; reflexivity.
  Qed.

  Theorem text_rejections :
    (forall w a n, run_text enc dec w a n TOther = TOStoreErr ValueErr)
    /\ (forall w a n s, enc s = None -> run_text enc dec w a n (TStr s) = TOStoreErr UnicodeEncodeErr)
    /\ (forall w a n s b, enc s = Some b -> has_nul b = true -> run_text enc dec w a n (TStr s) = TOStoreErr ValueErr)
    /\ (forall w a n b, dec b = None -> run_text enc dec w a n (TBytes b) = TOStoreErr UnicodeDecodeErr)
    /\ (forall n l, (n < length l)%nat -> run_text enc dec Repaired AVertex n (TArrU l) = TOStoreErr ValueErr)
    /\ (forall a n l, all_some (map dec l) = None -> run_text enc dec Repaired a n (TArrS l) = TOStoreErr UnicodeDecodeErr).
  Proof.
    repeat split.
    - intros w a n s H. unfold run_text. simpl. unfold enc1. rewrite H. reflexivity.
    - intros w a n s b H Hn. unfold run_text. simpl. unfold enc1. rewrite H, Hn. reflexivity.
    - intros w a n b H. unfold run_text. simpl. rewrite H. reflexivity.
    - intros n l H. unfold run_text. simpl. apply Nat.ltb_lt in H. rewrite H. reflexivity.
    - intros a n l H. unfold run_text. simpl. rewrite H. reflexivity.
  Qed.
End TextProofs.

(* pre-repair behaviour on the two text witnesses *)
Lemma text_old_too_long_accepted :
  run_text utf8_enc utf8_dec Old AVertex 2 (TArrU [[97]; [98]; [99]]%N)
  = TODone (TVArrU [[97]; [98]; [99]]%N) (RTVlen [[97]; [98]; [99]]%N) (TVArrU [[97]; [98]; [99]]%N).
Proof. reflexivity. Qed.

Lemma text_old_invalid_bytes_unreadable :
  run_text utf8_enc utf8_dec Old AVertex 1 (TArrS [[255]]%N) = TOReadErr (TVArrS [[255]]%N) (RTFixed [[255]]%N) UnicodeDecodeErr.
Proof. reflexivity. Qed.

(* ------------------------------------------------------------------ the RFC 3629 codec of the model *)
Local Open Scope N_scope.

Lemma Some_inj {A} (x y : A) : Some x = Some y -> x = y.
Proof. congruence. Qed.

Ltac split_ltb :=
  repeat match goal with
         | |- context [N.ltb ?a ?b] => destruct (N.ltb_spec a b); try (exfalso; lia)
         | |- context [N.leb ?a ?b] => destruct (N.leb_spec a b); try (exfalso; lia)
         end.

(* name the base-64 digits of c so that lia sees only linear facts *)
Ltac digits c :=
  replace (c / 262144) with (c / 64 / 64 / 64) by (rewrite !N.div_div by discriminate; reflexivity);
  replace (c / 4096) with (c / 64 / 64) by (rewrite !N.div_div by discriminate; reflexivity);
  pose proof (N.div_mod' c 64); pose proof (N.mod_lt c 64 ltac:(discriminate));
  pose proof (N.div_mod' (c / 64) 64); pose proof (N.mod_lt (c / 64) 64 ltac:(discriminate));
  pose proof (N.div_mod' (c / 64 / 64) 64); pose proof (N.mod_lt (c / 64 / 64) 64 ltac:(discriminate));
  generalize dependent (c / 64 / 64 / 64); generalize dependent ((c / 64 / 64) mod 64);
  generalize dependent (c / 64 / 64); generalize dependent ((c / 64) mod 64);
  generalize dependent (c / 64); generalize dependent (c mod 64); intros.

Lemma utf8_dec_cons b1 r1 : utf8_dec (b1 :: r1) =
      if b1 <? 128 then option_map (cons b1) (utf8_dec r1)
      else if b1 <? 194 then None
      else if b1 <? 224 then
        match r1 with
        | b2 :: r2 => if cont b2 then option_map (cons ((b1 - 192) * 64 + (b2 - 128))) (utf8_dec r2) else None
        | _ => None
        end
      else if b1 <? 240 then
        match r1 with
        | b2 :: b3 :: r3 =>
            let c := (b1 - 224) * 4096 + (b2 - 128) * 64 + (b3 - 128) in
            if cont b2 && cont b3 && (2048 <=? c) && is_scalar c then option_map (cons c) (utf8_dec r3) else None
        | _ => None
        end
      else if b1 <? 245 then
        match r1 with
        | b2 :: b3 :: b4 :: r4 =>
            let c := (b1 - 240) * 262144 + (b2 - 128) * 4096 + (b3 - 128) * 64 + (b4 - 128) in
            if cont b2 && cont b3 && cont b4 && (65536 <=? c) && (c <? 1114112) then option_map (cons c) (utf8_dec r4) else None
        | _ => None
        end
      else None.
Proof. reflexivity. Qed.

Lemma enc_dec_cp c bs r : enc_cp c = Some bs -> utf8_dec (bs ++ r) = option_map (cons c) (utf8_dec r).
Proof.
  unfold enc_cp.
  destruct (N.ltb_spec c 128).
  { intros E; apply Some_inj in E; subst bs. rewrite <- ?app_comm_cons, app_nil_l; rewrite utf8_dec_cons; cbv beta iota zeta. split_ltb. reflexivity. }
  destruct (N.ltb_spec c 2048).
  { intros E; apply Some_inj in E; subst bs. rewrite <- ?app_comm_cons, app_nil_l; rewrite utf8_dec_cons; cbv beta iota zeta. unfold cont. digits c.
    match goal with |- context [option_map (cons ?e)] => replace e with c by lia end.
    split_ltb. reflexivity. }
  destruct (N.ltb_spec c 65536).
  { destruct (is_scalar c) eqn:Es; [|discriminate]. intros E; apply Some_inj in E; subst bs. rewrite <- ?app_comm_cons, app_nil_l; rewrite utf8_dec_cons; cbv beta iota zeta. unfold cont. digits c.
    match goal with |- context [option_map (cons ?e)] => replace e with c by lia end.
    rewrite Es. split_ltb. reflexivity. }
  destruct (N.ltb_spec c 1114112); [|discriminate].
  intros E; apply Some_inj in E; subst bs. rewrite <- ?app_comm_cons, app_nil_l; rewrite utf8_dec_cons; cbv beta iota zeta. unfold cont. digits c.
  match goal with |- context [option_map (cons ?e)] => replace e with c by lia end.
  split_ltb. reflexivity.
Qed.

Theorem utf8_dec_enc : forall s b, utf8_enc s = Some b -> utf8_dec b = Some s.
Proof.
  induction s as [|c s IH]; intros b; simpl.
  - intros E; apply Some_inj in E; subst b. reflexivity.
  - destruct (enc_cp c) as [bc|] eqn:Ec; [|discriminate].
    destruct (utf8_enc s) as [bs|] eqn:Es; [|discriminate].
    intros E; apply Some_inj in E; subst b.
    rewrite (enc_dec_cp _ _ _ Ec), (IH _ eq_refl). reflexivity.
Qed.

Lemma enc_cp_total c : is_scalar c = true -> exists bs, enc_cp c = Some bs.
Proof.
  intros H. unfold enc_cp. rewrite H.
  destruct (c <? 128); [eauto|]. destruct (c <? 2048); [eauto|]. destruct (c <? 65536); [eauto|].
  destruct (N.ltb_spec c 1114112); [eauto|].
  unfold is_scalar in H. apply orb_true_iff in H as [H|H].
  - apply N.ltb_lt in H. lia.
  - apply andb_true_iff in H as [_ H]. apply N.ltb_lt in H. lia.
Qed.

Lemma utf8_enc_total s : Forall (fun c => is_scalar c = true) s -> exists b, utf8_enc s = Some b.
Proof.
  induction 1 as [|c s Hc Hs [bs IH]]; simpl; [eauto|].
  destruct (enc_cp_total c Hc) as [bc ->]. rewrite IH. eauto.
Qed.

Ltac atoms := repeat match goal with |- context [?a / ?b] => generalize (a / b); intro
                                     | |- context [?a mod ?b] => generalize (a mod b); intro end.

Lemma enc_cp_no_nul c bs : enc_cp c = Some bs -> c <> 0 -> has_nul bs = false.
Proof.
  unfold enc_cp, has_nul. intros E Hc.
  destruct (c <? 128); [apply Some_inj in E; subst bs; cbn [existsb]; rewrite orb_false_r; apply N.eqb_neq; lia|].
  destruct (c <? 2048);
    [apply Some_inj in E; subst bs; cbn [existsb]; rewrite ?orb_false_r; atoms;
     repeat (apply orb_false_iff; split); apply N.eqb_neq; lia|].
  destruct (c <? 65536).
  { destruct (is_scalar c); [|discriminate]. apply Some_inj in E; subst bs; cbn [existsb]; rewrite ?orb_false_r; atoms;
      repeat (apply orb_false_iff; split); apply N.eqb_neq; lia. }
  destruct (c <? 1114112); [|discriminate].
  apply Some_inj in E; subst bs; cbn [existsb]; rewrite ?orb_false_r; atoms;
    repeat (apply orb_false_iff; split); apply N.eqb_neq; lia.
Qed.

Lemma utf8_enc_no_nul s b : utf8_enc s = Some b -> ~ In 0 s -> has_nul b = false.
Proof.
  revert b. induction s as [|c s IH]; intros b; simpl.
  - intros E _; apply Some_inj in E; subst b. reflexivity.
  - destruct (enc_cp c) as [bc|] eqn:Ec; [|discriminate].
    destruct (utf8_enc s) as [bs|] eqn:Es; [|discriminate].
    intros E Hn; apply Some_inj in E; subst b.
    assert (has_nul (bc ++ bs) = has_nul bc || has_nul bs) as -> by apply existsb_app'.
    rewrite (enc_cp_no_nul _ _ Ec) by (intros ->; apply Hn; left; reflexivity).
    rewrite (IH _ eq_refl) by (intros H; apply Hn; right; assumption). reflexivity.
Qed.

Local Close Scope N_scope.

(* valid text: Unicode scalar values, no NUL (HDF5 variable-length strings end at NUL) *)
Definition valid_text (s : str) : Prop := Forall (fun c => is_scalar c = true) s /\ ~ In 0%N s.

Theorem text_roundtrip_utf8 : forall w a n s,
  valid_text s ->
  exists b, utf8_enc s = Some b /\ run_text utf8_enc utf8_dec w a n (TStr s) = TODone (TVStr s) (RTVlen [b]) (TVStr s).
Proof.
  intros w a n s [Hs Hn]. destruct (utf8_enc_total s Hs) as [b Hb]. exists b. split; [assumption|].
  apply (text_roundtrip_str utf8_enc utf8_dec utf8_dec_enc); [assumption|]. apply (utf8_enc_no_nul s); assumption.
Qed.

Lemma utf8_enc_arr l : Forall valid_text l -> exists bs, map utf8_enc l = map Some bs /\ existsb has_nul bs = false.
Proof.
  induction 1 as [|s l [Hs Hn] Hl (bs & IH1 & IH2)]; [exists []; auto|].
  destruct (utf8_enc_total s Hs) as [b Hb]. exists (b :: bs). simpl. rewrite Hb, IH1, IH2, (utf8_enc_no_nul s b Hb Hn). auto.
Qed.

Theorem text_roundtrip_arr_utf8 : forall w a n l,
  l <> [] -> Forall valid_text l -> len_ok a n (length l) ->
  exists bs v', map utf8_enc l = map Some bs
    /\ run_text utf8_enc utf8_dec w a n (TArrU l) = TODone (TVArrU l) (RTVlen bs) v' /\ items v' = l.
Proof.
  intros w a n l Hne Hv Hlen. destruct (utf8_enc_arr l Hv) as (bs & H1 & H2).
  destruct (text_roundtrip_arr utf8_enc utf8_dec utf8_dec_enc w a n l bs Hne H1 H2 Hlen) as (v' & H3 & H4).
  exists bs, v'. auto.
Qed.

(* ------------------------------------------------------------------ blobs *)
Theorem blob_roundtrip : forall b, b <> [] -> blob_store (FBytes b) = Ok b /\ blob_fetch false b = Some b.
Proof. intros [|x b] H; [congruence|]. split; reflexivity. Qed.

Lemma blob_named_Data_lost : forall b, blob_fetch true b = None.
Proof. reflexivity. Qed.

Lemma blob_rejections : blob_store FNotBytes = Err ValueErr /\ blob_store (FBytes []) = Err ValueErr.
Proof. split; reflexivity. Qed.

(* ------------------------------------------------------------------ per-version statements used by Properties/C08.v *)
Definition complex_rejected (w : ver) : Prop :=
  forall a n l, exists e, store w CFloat a n (ACplx l) = Err e.

Theorem complex_rejected_repaired : complex_rejected Repaired.
Proof. intros a n l. apply unsupported_type_rejected. discriminate. Qed.

Theorem complex_rejected_old_refuted : ~ complex_rejected Old.
Proof. intros H. destruct (H AVertex 1%nat [(FInt 1, FInt 2)]) as [e He]. discriminate He. Qed.

Definition text_too_long_rejected (w : ver) : Prop :=
  forall n l, (n < length l)%nat -> run_text utf8_enc utf8_dec w AVertex n (TArrU l) = TOStoreErr ValueErr.

Theorem text_too_long_rejected_repaired : text_too_long_rejected Repaired.
Proof. intros n l H. apply text_rejections. assumption. Qed.

Theorem text_too_long_old_refuted : ~ text_too_long_rejected Old.
Proof. intros H. specialize (H 2%nat [[97]; [98]; [99]]%N ltac:(simpl; lia)). discriminate H. Qed.

(* a stored byte array can always be read back *)
Definition text_bytes_readable (w : ver) : Prop :=
  forall a n l v r e, run_text utf8_enc utf8_dec w a n (TArrS l) <> TOReadErr v r e.

Theorem text_bytes_readable_old_refuted : ~ text_bytes_readable Old.
Proof. intros H. apply (H AVertex 1%nat [[255]]%N (TVArrS [[255]]%N) (RTFixed [[255]]%N) UnicodeDecodeErr). reflexivity. Qed.

Theorem text_bytes_readable_repaired : text_bytes_readable Repaired.
Proof.
  intros a n l v r e H.
  destruct (all_some (map utf8_dec l)) as [ss|] eqn:Ed.
  - destruct ss as [|s ss].
    + unfold run_text in H. simpl text_set in H. rewrite Ed in H. discriminate H.
    + rewrite (text_arrS_as_arrU utf8_enc utf8_dec a n l (s :: ss)) in H by (congruence || assumption).
      (* the decoded strings come from the strict decoder; if they are written, the bytes written decode again *)
      unfold run_text in H.
      destruct (text_set utf8_dec Repaired a n (TArrU (s :: ss))) as [tv|] eqn:Es; [|discriminate H]. cbn [bind] in H.
      assert (tv = TVArrU (s :: ss)) as ->.
      { simpl in Es. destruct a; [destruct (n <? _)%nat|]; inversion Es; reflexivity. }
      destruct (text_write utf8_enc (TVArrU (s :: ss))) as [tr|] eqn:Ew; [|discriminate H]. cbn [bind] in H.
      unfold text_write, enc_arr in Ew.
      destruct (all_some (map utf8_enc (s :: ss))) as [bs|] eqn:Ea; [|discriminate Ew].
      destruct (existsb has_nul bs); [discriminate Ew|]. cbn [bind] in Ew. inversion Ew; subst tr.
      apply all_some_spec in Ea.
      pose proof (dec_all utf8_enc utf8_dec utf8_dec_enc (s :: ss) bs Ea) as Hd.
      unfold text_fetch in H. destruct bs as [|b bs]; [discriminate Ea|]. rewrite Hd in H.
      destruct ss; discriminate H.
  - unfold run_text in H. simpl text_set in H. rewrite Ed in H. discriminate H.
Qed.

Definition blob_full : Prop := forall is_Data b, b <> [] -> blob_fetch is_Data b = Some b.

Theorem blob_full_refuted : ~ blob_full.
Proof. intros H. specialize (H true [120%N] ltac:(discriminate)). discriminate H. Qed.

(* ------------------------------------------------------------------ N-d input: only the total size counts *)
Theorem too_long_rejected_any_shape : forall w c n dims x,
  dims <> [] -> (n < alen x)%nat -> store_nd w c AVertex n dims x = Err ValueErr.
Proof. intros w c n [|d ds] x Hd Hn; [congruence|]. apply too_long_rejected. assumption. Qed.

Theorem shape_irrelevant : forall w c a n dims dims' x,
  dims <> [] -> dims' <> [] -> run_num_nd w c a n dims x = run_num_nd w c a n dims' x.
Proof. intros w c a n [|d ds] [|d' ds'] x H H'; congruence || reflexivity. Qed.

Theorem zero_dim_rejected : forall w c a n x, exists e, store_nd w c a n [] x = Err e.
Proof. intros w c a n x. unfold store_nd. destruct (replace_nan c x); eexists; reflexivity. Qed.

(* an empty text array (a text child of an object whose entries were all removed) is stored as an empty variable-length
   dataset and read back as an empty text array; /repo f36edcd *)
Theorem text_empty_array_roundtrip : forall (enc : str -> option bytes) (dec : bytes -> option str) w a n,
  run_text enc dec w a n (TArrU []) = TODone (TVArrU []) (RTVlen []) (TVArrU []).
Proof.
  intros enc dec w a n. unfold run_text. simpl text_set.
  assert ((n <? 0)%nat = false) as Hn by (apply Nat.ltb_ge; lia).
  destruct w, a; rewrite ?Hn; reflexivity.
Qed.
