(* Proofs about Model/Codec.v (property C08): numeric classes, text, blobs, UTF-8. *)
From GV Require Import Prelude.Base Model.Codec.

Local Open Scope Z_scope.

(* ------------------------------------------------------------------ arithmetic *)
Lemma in_int32b_spec z : in_int32b z = true <-> in_int32 z.
Proof. unfold in_int32b, in_int32. rewrite andb_true_iff, !Z.leb_le. tauto. Qed.

Lemma wrap32_id z : in_int32 z -> wrap32 z = z.
Proof.
  unfold in_int32, wrap32, INT_MIN, INT_MAX. intros H.
  rewrite Z.mod_small by (change (2 ^ 32) with 4294967296; change (2 ^ 31) with 2147483648; lia). lia.
Qed.

Lemma wrap32_range z : in_int32 (wrap32 z).
Proof.
  unfold in_int32, wrap32, INT_MIN, INT_MAX.
  pose proof (Z.mod_pos_bound (z + 2 ^ 31) (2 ^ 32) ltac:(reflexivity)) as H.
  change (2 ^ 32) with 4294967296 in *; change (2 ^ 31) with 2147483648 in *. lia.
Qed.

Lemma ndv_in_int32 : in_int32 INTEGER_NDV.
Proof. unfold in_int32, INTEGER_NDV, INT_MIN, INT_MAX. lia. Qed.

Lemma forallb_in_int32 l : forallb in_int32b l = true <-> Forall in_int32 l.
Proof.
  rewrite forallb_forall, Forall_forall. split; intros H x Hx; apply in_int32b_spec; auto.
Qed.

Lemma map_wrap32_id l : Forall in_int32 l -> map wrap32 l = l.
Proof. induction 1; simpl; [reflexivity|]. rewrite wrap32_id, IHForall; auto. Qed.

(* ------------------------------------------------------------------ lists *)
Lemma padded_length {A} (l : list A) n f : (length l <= n)%nat -> length (padded l n f) = n.
Proof.
  intros H. unfold padded. destruct (Nat.ltb_spec (length l) n).
  - rewrite app_length, repeat_length. lia.
  - lia.
Qed.

Lemma padded_length_ge {A} (l : list A) n f : (n <= length (padded l n f))%nat.
Proof.
  unfold padded. destruct (Nat.ltb_spec (length l) n).
  - rewrite app_length, repeat_length. lia.
  - lia.
Qed.

Lemma padded_nonempty {A} (l : list A) n f : (1 <= n)%nat -> padded l n f <> [].
Proof.
  intros Hn E. pose proof (padded_length_ge l n f) as H. rewrite E in H. simpl in H. lia.
Qed.

Lemma padded_idem {A} (l : list A) n f : padded (padded l n f) n f = padded l n f.
Proof.
  unfold padded at 1. destruct (Nat.ltb_spec (length (padded l n f)) n) as [H|H]; [|reflexivity].
  pose proof (padded_length_ge l n f). lia.
Qed.

Lemma Forall_padded {A} (P : A -> Prop) l n f : Forall P l -> P f -> Forall P (padded l n f).
Proof.
  intros Hl Hf. unfold padded. destruct (length l <? n)%nat; [|assumption].
  apply Forall_app. split; [assumption|]. apply Forall_forall. intros x Hx. apply repeat_spec in Hx. subst. assumption.
Qed.

Lemma map_repeat' {A B} (g : A -> B) x k : map g (repeat x k) = repeat (g x) k.
Proof. induction k; simpl; congruence. Qed.

Lemma map_padded {A B} (g : A -> B) l n f : map g (padded l n f) = padded (map g l) n (g f).
Proof.
  unfold padded. rewrite map_length. destruct (length l <? n)%nat; [|reflexivity].
  rewrite map_app, map_repeat'. reflexivity.
Qed.

(* format_length on a list-shaped array, phrased with [padded] *)
Definition len_ok (a : assoc) (n len : nat) : Prop := a = AVertex -> (len <= n)%nat.

Lemma len_ok_dec a n len : {len_ok a n len} + {a = AVertex /\ (n < len)%nat}.
Proof.
  destruct a.
  - destruct (le_lt_dec len n); [left; intros _; assumption | right; auto].
  - left. intros H; discriminate.
Qed.

(* ------------------------------------------------------------------ float data *)
Definition enc_f (x : fl) : fl := if is_nan x then FNdv else x.        (* writer *)
Definition dec_f (x : fl) : fl := if is_ndv x then FNaN else x.        (* reader *)

Lemma dec_enc_f v : v <> FNdv -> dec_f (enc_f v) = v.
Proof. destruct v; simpl; congruence. Qed.

Lemma enc_f_not_nan v : enc_f v <> FNaN.
Proof. destruct v; simpl; discriminate. Qed.

Lemma enc_f_ndv_iff v : v <> FNdv -> (enc_f v = FNdv <-> v = FNaN).
Proof. destruct v; simpl; intuition congruence. Qed.

Lemma map_dec_enc_f l : ~ In FNdv l -> map dec_f (map enc_f l) = l.
Proof.
  induction l as [|v r IH]; simpl; intros H; [reflexivity|].
  rewrite dec_enc_f by (intros E; apply H; left; auto). rewrite IH by (intros E; apply H; right; auto). reflexivity.
Qed.

Lemma map_put_nan_float l : map (fun v => if is_nan v then FNaN else v) l = l.
Proof. induction l as [|v r IH]; simpl; [reflexivity|]. rewrite IH. destruct v; reflexivity. Qed.

Lemma format_values_float w d a n l :
  len_ok a n (length l) ->
  format_values w CFloat a n (AFlt d l) = Ok (VF (padded l n FNaN)).
Proof.
  intros Hlen. unfold format_values, replace_nan. simpl bind. rewrite map_put_nan_float.
  unfold format_length, padded. simpl alen.
  destruct (Nat.ltb_spec (length l) n) as [H|H]; simpl.
  - reflexivity.
  - destruct (Nat.ltb_spec n (length l)) as [H2|H2]; [|reflexivity].
    destruct a; [|reflexivity]. specialize (Hlen eq_refl). lia.
Qed.

Lemma fetch_RF64 l : l <> [] -> fetch (RF64 l) = Ok (AFlt F64 (map dec_f l)).
Proof. destruct l; [congruence|reflexivity]. Qed.

Theorem float_roundtrip : forall w d a n l,
  ~ In FNdv l -> len_ok a n (length l) -> (1 <= n)%nat ->
  let l' := padded l n FNaN in
  run_num w CFloat a n (AFlt d l) = ODone (VF l') (RF64 (map enc_f l')) (VF l').
Proof.
  intros w d a n l Hndv Hlen Hn l'. unfold run_num, store.
  rewrite format_values_float by assumption. simpl bind. fold l'.
  change (write_values (VF l')) with (RF64 (map enc_f l')).
  unfold reopen. rewrite fetch_RF64.
  2:{ intros E. apply map_eq_nil in E. revert E. apply padded_nonempty; assumption. }
  simpl bind. rewrite map_dec_enc_f.
  2:{ unfold l', padded. destruct (length l <? n)%nat; [|assumption].
      rewrite in_app_iff. intros [H|H]; [auto|]. apply repeat_spec in H. discriminate. }
  rewrite format_values_float.
  - unfold l'. rewrite padded_idem. reflexivity.
  - intros Ha. unfold l'. rewrite padded_length by (apply Hlen; assumption). lia.
Qed.
