(* Proofs about Model/HoleData.v (property C18): vertices sit at the position of their depth, cells join the positions
   of their from / to depths, arrays stay aligned, through every history of depth / interval additions and sort_depths. *)
From GV Require Import Prelude.Base Model.GridIndex Model.Desurvey Model.HoleData Proofs.DesurveyProofs.
From Coq Require Import QArith Qabs Permutation.
Close Scope Q_scope.

(* ---------------- pick / argsort ---------------- *)
Lemma pick_cons {A} (l : list A) i r :
  pick l (i :: r) = (match nth_error l i with Some x => [x] | None => [] end) ++ pick l r.
Proof. reflexivity. Qed.

Lemma pick_nth {A} (l : list A) : forall idx k, Forall (fun i => i < length l) idx ->
  nth_error (pick l idx) k = match nth_error idx k with Some i => nth_error l i | None => None end.
Proof.
  induction idx as [|i r IH]; intros k H.
  - destruct k; reflexivity.
  - inversion H as [|? ? Hi Hr]; subst. rewrite pick_cons.
    destruct (nth_error l i) as [x|] eqn:E; [|apply nth_error_None in E; lia].
    destruct k as [|k]; simpl; [symmetry; exact E|]. apply IH. exact Hr.
Qed.

Lemma pick_length {A} (l : list A) : forall idx, Forall (fun i => i < length l) idx -> length (pick l idx) = length idx.
Proof.
  induction idx as [|i r IH]; intros H; [reflexivity|].
  inversion H as [|? ? Hi Hr]; subst. rewrite pick_cons, app_length, IH by exact Hr.
  destruct (nth_error l i) as [x|] eqn:E; [reflexivity|apply nth_error_None in E; lia].
Qed.

Lemma ins_perm x l : Permutation (ins x l) (x :: l).
Proof.
  induction l as [|y r IH]; simpl; [apply Permutation_refl|].
  destruct (oq_le (snd x) (snd y)); [apply Permutation_refl|].
  eapply Permutation_trans; [apply perm_skip; exact IH|apply perm_swap].
Qed.

Lemma isort_perm l : Permutation (isort l) l.
Proof.
  induction l as [|x r IH]; simpl; [apply perm_nil|].
  eapply Permutation_trans; [apply ins_perm|apply perm_skip; exact IH].
Qed.

Lemma map_fst_combine {A B} : forall (l1 : list A) (l2 : list B), length l1 = length l2 -> map fst (combine l1 l2) = l1.
Proof.
  induction l1 as [|a r IH]; intros [|b r2] H; simpl in *; try reflexivity; try discriminate.
  f_equal. apply IH. lia.
Qed.

Lemma argsort_perm v : Permutation (argsort v) (seq 0 (length v)).
Proof.
  unfold argsort. rewrite <- (map_fst_combine (seq 0 (length v)) v) at 2 by apply seq_length.
  apply Permutation_map. apply isort_perm.
Qed.

Lemma argsort_range v : Forall (fun i => i < length v) (argsort v).
Proof.
  apply Forall_forall. intros i Hi. apply (Permutation_in _ (argsort_perm v)) in Hi. apply in_seq in Hi. lia.
Qed.

Lemma argsort_length v : length (argsort v) = length v.
Proof. rewrite (Permutation_length (argsort_perm v)). apply seq_length. Qed.

Lemma argsort_In v a : a < length v -> In a (argsort v).
Proof.
  intros H. apply (Permutation_in _ (Permutation_sym (argsort_perm v))). apply in_seq. lia.
Qed.

Lemma index_of_nth : forall l a, In a l -> nth_error l (index_of a l) = Some a.
Proof.
  induction l as [|x r IH]; intros a H; [contradiction|]. simpl.
  destruct (Nat.eqb x a) eqn:E; [apply Nat.eqb_eq in E; subst; reflexivity|].
  simpl. apply IH. destruct H as [->|H]; [rewrite Nat.eqb_refl in E; discriminate|exact H].
Qed.

(* ---------------- padding ---------------- *)
Lemma pad_length n v : length v <= n -> length (pad n v) = n.
Proof. intros H. unfold pad. rewrite app_length, repeat_length. lia. Qed.

Lemma pad_nth_some n v i x : nth_error (pad n v) i = Some (Some x) -> nth_error v i = Some (Some x).
Proof.
  unfold pad. intros H. destruct (lt_dec i (length v)) as [Hl|Hl].
  - rewrite nth_error_app1 in H by exact Hl. exact H.
  - rewrite nth_error_app2 in H by lia.
    apply nth_error_In in H. apply repeat_spec in H. discriminate.
Qed.

Lemma nondecreasing_all_some : forall v, nondecreasing v = true -> 2 <= length v -> Forall (fun x => x <> None) v.
Proof.
  induction v as [|a r IH]; intros H Hlen; [constructor|].
  destruct r as [|b r']; [simpl in Hlen; lia|].
  change (nondecreasing (a :: b :: r')) with
    ((match a, b with Some x, Some y => Qle_bool x y | _, _ => false end) && nondecreasing (b :: r')) in H.
  apply andb_true_iff in H. destruct H as [H1 H2].
  destruct a as [x|]; [|discriminate]. destruct b as [y|]; [|discriminate].
  constructor; [discriminate|].
  destruct r' as [|c r'']; [constructor; [discriminate|constructor]|]. apply IH; [exact H2|simpl; lia].
Qed.

Lemma pad_sorted_full n v : 1 <= length v -> length v <= n -> nondecreasing (pad n v) = true -> length v = n.
Proof.
  intros H1 H2 Hs. destruct (Nat.eq_dec (length v) n) as [E|E]; [exact E|]. exfalso.
  assert (Hl : length (pad n v) = n) by (apply pad_length; exact H2).
  assert (Hall := nondecreasing_all_some (pad n v) Hs ltac:(lia)).
  assert (Hin : In None (pad n v)).
  { unfold pad. apply in_or_app. right. destruct (n - length v) as [|k] eqn:Ek; [lia|]. left. reflexivity. }
  rewrite Forall_forall in Hall. exact (Hall None Hin eq_refl).
Qed.

Section Proofs.
  Variable pos : Q -> V3.

  (* ---------------- the invariant ---------------- *)
  (* vertices sit at the position of their DEPTH value; cells join the positions of (a depth equal to) their FROM / TO *)
  Definition vertex_at_depth (h : hole) : Prop :=
    forall dv i d, h_depth h = Some dv -> nth_error dv i = Some (Some d) -> nth_error (h_verts h) i = Some (pos d).

  Definition cells_join (h : hole) : Prop :=
    match h_ft h with
    | None => h_cells h = []
    | Some (froms, tos) =>
        length froms = length (h_cells h) /\ length tos = length (h_cells h)
        /\ forall c a b f t, nth_error (h_cells h) c = Some (a, b) -> nth_error froms c = Some f -> nth_error tos c = Some t ->
             (exists u, (u == f)%Q /\ nth_error (h_verts h) a = Some (pos u))
             /\ (exists u, (u == t)%Q /\ nth_error (h_verts h) b = Some (pos u))
    end.

  (* weak form, between validate_* and sort_depths: DEPTH may be shorter than the vertex array *)
  Definition inv_weak (h : hole) : Prop :=
    vertex_at_depth h /\ cells_join h
    /\ (forall dv, h_depth h = Some dv -> 1 <= length dv <= length (h_verts h)).
  (* after a complete add_data call DEPTH covers all vertices *)
  Definition inv (h : hole) : Prop :=
    vertex_at_depth h /\ cells_join h
    /\ (forall dv, h_depth h = Some dv -> 1 <= length dv /\ length dv = length (h_verts h)).

  Lemma inv_empty : inv empty_hole.
  Proof.
    split; [|split].
    - intros dv i d H. discriminate.
    - reflexivity.
    - intros dv H. discriminate.
  Qed.

  (* ---------------- sort_depths ---------------- *)
  Lemma sort_depths_inv h : inv_weak h -> inv (sort_depths h).
  Proof.
    intros [Hv [Hc Hl]]. unfold sort_depths.
    destruct (h_depth h) as [dv0|] eqn:Ed.
    2:{ split; [exact Hv|]. split; [exact Hc|]. intros dv H. rewrite Ed in H. discriminate. }
    destruct (Hl dv0 eq_refl) as [L1 L2].
    set (n := length (h_verts h)). set (dv := pad n dv0).
    assert (Ldv : length dv = n) by (apply pad_length; exact L2).
    destruct (nondecreasing dv) eqn:Es.
    - (* already sorted: nothing moves, and DEPTH is complete *)
      assert (Hfull : length dv0 = n) by (apply pad_sorted_full; assumption).
      split; [exact Hv|]. split; [exact Hc|]. intros dv' H. rewrite Ed in H. inversion H; subst dv'. split; [exact L1|exact Hfull].
    - set (idx := argsort dv).
      assert (Ridx : Forall (fun i => i < length (h_verts h)) idx).
      { pose proof (argsort_range dv) as R. rewrite Ldv in R. exact R. }
      assert (Ridx' : Forall (fun i => i < length dv) idx) by (rewrite Ldv; exact Ridx).
      split; [|split].
      + (* vertices and DEPTH are permuted together *)
        intros dv' k d H Hk. simpl in H. inversion H; subst dv'. simpl.
        rewrite pick_nth in Hk by exact Ridx'. rewrite pick_nth by exact Ridx.
        destruct (nth_error idx k) as [i|]; [|discriminate].
        apply pad_nth_some in Hk. apply (Hv dv0 i d Ed Hk).
      + (* cells follow their vertices *)
        unfold cells_join in *. simpl. destruct (h_ft h) as [[froms tos]|].
        2:{ rewrite Hc. reflexivity. }
        destruct Hc as [Lf [Lt Hj]]. rewrite map_length. split; [exact Lf|]. split; [exact Lt|].
        intros c a' b' f t Hcell Hf Ht.
        apply nth_error_map_inv in Hcell. destruct Hcell as [[a b] [Hab E]]. inversion E; subst a' b'.
        destruct (Hj c a b f t Hab Hf Ht) as [[u [Hu Ha]] [w [Hw Hb]]].
        assert (Ia : In a idx).
        { apply argsort_In. rewrite Ldv. apply nth_error_Some. congruence. }
        assert (Ib : In b idx).
        { apply argsort_In. rewrite Ldv. apply nth_error_Some. congruence. }
        split.
        * exists u. split; [exact Hu|]. rewrite pick_nth by exact Ridx. rewrite (index_of_nth idx a Ia). exact Ha.
        * exists w. split; [exact Hw|]. rewrite pick_nth by exact Ridx. rewrite (index_of_nth idx b Ib). exact Hb.
      + intros dv' H. simpl in H. inversion H; subst dv'. simpl.
        rewrite !pick_length by assumption. unfold idx. rewrite argsort_length, Ldv. split; [unfold n in *; lia|reflexivity].
  Qed.

  (* sort_depths moves whole rows: every old vertex i is found at one new index k with its position, its DEPTH and the
     value of every vertex child (values stay attached through sort_depths) *)
  Lemma sort_depths_rows h : inv_weak h ->
    forall i, i < length (h_verts h) ->
    exists k, nth_error (h_verts (sort_depths h)) k = nth_error (h_verts h) i
      /\ (forall dv, h_depth h = Some dv ->
            exists dv', h_depth (sort_depths h) = Some dv' /\ onth dv' k = onth dv i)
      /\ (forall c name vals, nth_error (h_vdata h) c = Some (name, vals) ->
            exists vals', nth_error (h_vdata (sort_depths h)) c = Some (name, vals') /\ onth vals' k = onth vals i).
  Proof.
    intros [Hv [Hc Hl]] i Hi. unfold sort_depths.
    destruct (h_depth h) as [dv0|] eqn:Ed.
    2:{ exists i. split; [reflexivity|]. split; [intros dv H; discriminate|].
        intros c name vals H. exists vals. split; [exact H|reflexivity]. }
    destruct (Hl dv0 eq_refl) as [L1 L2].
    set (n := length (h_verts h)) in *. set (dv := pad n dv0).
    assert (Ldv : length dv = n) by (apply pad_length; exact L2).
    destruct (nondecreasing dv) eqn:Es.
    - exists i. split; [reflexivity|]. split.
      + intros dv' H. inversion H; subst dv'. exists dv0. split; [exact Ed|reflexivity].
      + intros c name vals H. exists vals. split; [exact H|reflexivity].
    - set (idx := argsort dv).
      assert (Ridx : Forall (fun j => j < length (h_verts h)) idx).
      { pose proof (argsort_range dv) as R. rewrite Ldv in R. exact R. }
      assert (Ii : In i idx) by (apply argsort_In; rewrite Ldv; exact Hi).
      exists (index_of i idx). simpl. split; [|split].
      + rewrite pick_nth by exact Ridx. rewrite (index_of_nth idx i Ii). reflexivity.
      + intros dv' H. inversion H; subst dv'. eexists. split; [reflexivity|].
        unfold onth. rewrite pick_nth by (rewrite Ldv; exact Ridx). rewrite (index_of_nth idx i Ii).
        unfold dv, pad. destruct (lt_dec i (length dv0)) as [Hlt|Hge].
        * rewrite nth_error_app1 by exact Hlt. reflexivity.
        * rewrite nth_error_app2 by lia.
          assert (Hn : nth_error dv0 i = None) by (apply nth_error_None; lia). rewrite Hn.
          destruct (nth_error (repeat None (n - length dv0)) (i - length dv0)) as [x|] eqn:E; [|reflexivity].
          apply nth_error_In in E. apply repeat_spec in E. subst x. reflexivity.
      + intros c name vals H.
        exists (pick (pad n vals) idx). split.
        * apply map_nth_error with (f := fun '(k, v) => (k, pick (pad n v) idx)) in H. exact H.
        * unfold onth. destruct (le_lt_dec (length vals) n) as [Hle|Hgt].
          -- rewrite pick_nth by (rewrite pad_length by exact Hle; exact Ridx). rewrite (index_of_nth idx i Ii).
             unfold pad. destruct (lt_dec i (length vals)) as [Hlt|Hge].
             ++ rewrite nth_error_app1 by exact Hlt. reflexivity.
             ++ rewrite nth_error_app2 by lia.
                assert (Hn : nth_error vals i = None) by (apply nth_error_None; lia). rewrite Hn.
                destruct (nth_error (repeat None (n - length vals)) (i - length vals)) as [x|] eqn:E; [|reflexivity].
                apply nth_error_In in E. apply repeat_spec in E. subst x. reflexivity.
          -- (* a child longer than the vertex array: padding adds nothing *)
             assert (Ep : pad n vals = vals) by (unfold pad; replace (n - length vals) with 0 by lia; apply app_nil_r).
             rewrite Ep. rewrite pick_nth by (eapply Forall_impl; [|exact Ridx]; simpl; intros; unfold n in *; lia).
             rewrite (index_of_nth idx i Ii). reflexivity.
  Qed.
End Proofs.
