(* Proofs about Model/HoleData.v (property C18): vertices sit at the position of their depth, cells join the positions
   of their from / to depths, arrays stay aligned, through every history of depth / interval additions and sort_depths. *)
From GV Require Import Prelude.Base Model.GridIndex Model.Desurvey Model.HoleData Proofs.DesurveyProofs.
From Coq Require Import QArith Qabs Permutation.
Close Scope Q_scope.

(* ---------------- pick / argsort ---------------- *)
Lemma pick_cons {A} (l : list A) i r :
  pick l (i :: r) = (match nth_error l i with Some x => [x] | None => [] end) ++ pick l r.
Proof. reflexivity. Qed.

Lemma pick_nth {A} (l : list A) : forall idx k, Forall (fun i => i < length l) idx ->
  nth_error (pick l idx) k = match nth_error idx k with Some i => nth_error l i | None => None end.
Proof.
  induction idx as [|i r IH]; intros k H.
  - destruct k; reflexivity.
  - inversion H as [|? ? Hi Hr]; subst. rewrite pick_cons.
    destruct (nth_error l i) as [x|] eqn:E; [|apply nth_error_None in E; lia].
    destruct k as [|k]; simpl; [symmetry; exact E|]. apply IH. exact Hr.
Qed.

Lemma pick_length {A} (l : list A) : forall idx, Forall (fun i => i < length l) idx -> length (pick l idx) = length idx.
Proof.
  induction idx as [|i r IH]; intros H; [reflexivity|].
  inversion H as [|? ? Hi Hr]; subst. rewrite pick_cons, app_length, IH by exact Hr.
  destruct (nth_error l i) as [x|] eqn:E; [reflexivity|apply nth_error_None in E; lia].
Qed.

Lemma ins_perm x l : Permutation (ins x l) (x :: l).
Proof.
  induction l as [|y r IH]; simpl; [apply Permutation_refl|].
  destruct (oq_le (snd x) (snd y)); [apply Permutation_refl|].
  eapply Permutation_trans; [apply perm_skip; exact IH|apply perm_swap].
Qed.

Lemma isort_perm l : Permutation (isort l) l.
Proof.
  induction l as [|x r IH]; simpl; [apply perm_nil|].
  eapply Permutation_trans; [apply ins_perm|apply perm_skip; exact IH].
Qed.

Lemma map_fst_combine {A B} : forall (l1 : list A) (l2 : list B), length l1 = length l2 -> map fst (combine l1 l2) = l1.
Proof.
  induction l1 as [|a r IH]; intros [|b r2] H; simpl in *; try reflexivity; try discriminate.
  f_equal. apply IH. lia.
Qed.

Lemma argsort_perm v : Permutation (argsort v) (seq 0 (length v)).
Proof.
  unfold argsort. rewrite <- (map_fst_combine (seq 0 (length v)) v) at 2 by apply seq_length.
  apply Permutation_map. apply isort_perm.
Qed.

Lemma argsort_range v : Forall (fun i => i < length v) (argsort v).
Proof.
  apply Forall_forall. intros i Hi. apply (Permutation_in _ (argsort_perm v)) in Hi. apply in_seq in Hi. lia.
Qed.

Lemma argsort_length v : length (argsort v) = length v.
Proof. rewrite (Permutation_length (argsort_perm v)). apply seq_length. Qed.

Lemma argsort_In v a : a < length v -> In a (argsort v).
Proof.
  intros H. apply (Permutation_in _ (Permutation_sym (argsort_perm v))). apply in_seq. lia.
Qed.

Lemma index_of_nth : forall l a, In a l -> nth_error l (index_of a l) = Some a.
Proof.
  induction l as [|x r IH]; intros a H; [contradiction|]. simpl.
  destruct (Nat.eqb x a) eqn:E; [apply Nat.eqb_eq in E; subst; reflexivity|].
  simpl. apply IH. destruct H as [->|H]; [rewrite Nat.eqb_refl in E; discriminate|exact H].
Qed.

(* ---------------- padding ---------------- *)
Lemma pad_length n v : length v <= n -> length (pad n v) = n.
Proof. intros H. unfold pad. rewrite app_length, repeat_length. lia. Qed.

Lemma pad_nth_some n v i x : nth_error (pad n v) i = Some (Some x) -> nth_error v i = Some (Some x).
Proof.
  unfold pad. intros H. destruct (lt_dec i (length v)) as [Hl|Hl].
  - rewrite nth_error_app1 in H by exact Hl. exact H.
  - rewrite nth_error_app2 in H by lia.
    apply nth_error_In in H. apply repeat_spec in H. discriminate.
Qed.

Lemma nondecreasing_all_some : forall v, nondecreasing v = true -> 2 <= length v -> Forall (fun x => x <> None) v.
Proof.
  induction v as [|a r IH]; intros H Hlen; [constructor|].
  destruct r as [|b r']; [simpl in Hlen; lia|].
  change (nondecreasing (a :: b :: r')) with
    ((match a, b with Some x, Some y => Qle_bool x y | _, _ => false end) && nondecreasing (b :: r')) in H.
  apply andb_true_iff in H. destruct H as [H1 H2].
  destruct a as [x|]; [|discriminate]. destruct b as [y|]; [|discriminate].
  constructor; [discriminate|].
  destruct r' as [|c r'']; [constructor; [discriminate|constructor]|]. apply IH; [exact H2|simpl; lia].
Qed.

Lemma pad_sorted_full n v : 1 <= length v -> length v <= n -> nondecreasing (pad n v) = true -> length v = n.
Proof.
  intros H1 H2 Hs. destruct (Nat.eq_dec (length v) n) as [E|E]; [exact E|]. exfalso.
  assert (Hl : length (pad n v) = n) by (apply pad_length; exact H2).
  assert (Hall := nondecreasing_all_some (pad n v) Hs ltac:(lia)).
  assert (Hin : In None (pad n v)).
  { unfold pad. apply in_or_app. right. destruct (n - length v) as [|k] eqn:Ek; [lia|]. left. reflexivity. }
  rewrite Forall_forall in Hall. exact (Hall None Hin eq_refl).
Qed.

Lemma onth_pad n v i : onth (pad n v) i = onth v i.
Proof.
  unfold onth, pad. destruct (lt_dec i (length v)) as [Hlt|Hge].
  - rewrite nth_error_app1 by exact Hlt. reflexivity.
  - rewrite nth_error_app2 by lia. rewrite (proj2 (nth_error_None v i)) by lia.
    assert (H : forall k, nth_error (repeat (@None Q) (n - length v)) k = None \/ nth_error (repeat (@None Q) (n - length v)) k = Some None).
    { intros k. destruct (nth_error (repeat (@None Q) (n - length v)) k) as [x|] eqn:E; [right|left; reflexivity].
      apply nth_error_In in E. apply repeat_spec in E. subst x. reflexivity. }
    destruct (H (i - length v)) as [E|E]; unfold oq in *; rewrite E; reflexivity.
Qed.

Section Proofs.
  Variable pos : Q -> V3.

  (* ---------------- the invariant ---------------- *)
  (* vertices sit at the position of their DEPTH value; cells join the positions of (a depth equal to) their FROM / TO *)
  Definition vertex_at_depth (h : hole) : Prop :=
    forall dv i d, h_depth h = Some dv -> nth_error dv i = Some (Some d) -> nth_error (h_verts h) i = Some (pos d).

  Definition cells_join (h : hole) : Prop :=
    match h_ft h with
    | None => h_cells h = []
    | Some (froms, tos) =>
        length froms = length (h_cells h) /\ length tos = length (h_cells h)
        /\ forall c a b f t, nth_error (h_cells h) c = Some (a, b) -> nth_error froms c = Some f -> nth_error tos c = Some t ->
             (exists u, (u == f)%Q /\ nth_error (h_verts h) a = Some (pos u))
             /\ (exists u, (u == t)%Q /\ nth_error (h_verts h) b = Some (pos u))
    end.

  (* weak form, between validate_* and sort_depths: DEPTH may be shorter than the vertex array *)
  Definition inv_weak (h : hole) : Prop :=
    vertex_at_depth h /\ cells_join h
    /\ (forall dv, h_depth h = Some dv -> 1 <= length dv <= length (h_verts h)).
  (* after a complete add_data call DEPTH covers all vertices *)
  Definition inv (h : hole) : Prop :=
    vertex_at_depth h /\ cells_join h
    /\ (forall dv, h_depth h = Some dv -> 1 <= length dv /\ length dv = length (h_verts h)).

  Lemma inv_empty : inv empty_hole.
  Proof.
    split; [|split].
    - intros dv i d H. discriminate.
    - reflexivity.
    - intros dv H. discriminate.
  Qed.

  Lemma inv_inv_weak h : inv h -> inv_weak h.
  Proof.
    intros [Hv [Hc Hl]]. split; [exact Hv|]. split; [exact Hc|]. intros dv H. destruct (Hl dv H). lia.
  Qed.

  (* ---------------- sort_depths ---------------- *)
  Lemma sort_depths_inv h : inv_weak h -> inv (sort_depths h).
  Proof.
    intros [Hv [Hc Hl]]. unfold sort_depths.
    destruct (h_depth h) as [dv0|] eqn:Ed.
    2:{ split; [exact Hv|]. split; [exact Hc|]. intros dv H. rewrite Ed in H. discriminate. }
    destruct (Hl dv0 eq_refl) as [L1 L2].
    set (n := length (h_verts h)). set (dv := pad n dv0).
    assert (Ldv : length dv = n) by (apply pad_length; exact L2).
    destruct (nondecreasing dv) eqn:Es.
    - (* already sorted: nothing moves, and DEPTH is complete *)
      assert (Hfull : length dv0 = n) by (apply pad_sorted_full; assumption).
      split; [exact Hv|]. split; [exact Hc|]. intros dv' H. rewrite Ed in H. inversion H; subst dv'. split; [exact L1|exact Hfull].
    - set (idx := argsort dv).
      assert (Ridx : Forall (fun i => i < length (h_verts h)) idx).
      { pose proof (argsort_range dv) as R. rewrite Ldv in R. exact R. }
      assert (Ridx' : Forall (fun i => i < length dv) idx) by (rewrite Ldv; exact Ridx).
      split; [|split].
      + (* vertices and DEPTH are permuted together *)
        intros dv' k d H Hk. simpl in H. inversion H; subst dv'. simpl.
        rewrite pick_nth in Hk by exact Ridx'. rewrite pick_nth by exact Ridx.
        destruct (nth_error idx k) as [i|]; [|discriminate].
        apply pad_nth_some in Hk. apply (Hv dv0 i d Ed Hk).
      + (* cells follow their vertices *)
        unfold cells_join in *. simpl. destruct (h_ft h) as [[froms tos]|].
        2:{ rewrite Hc. reflexivity. }
        destruct Hc as [Lf [Lt Hj]]. rewrite map_length. split; [exact Lf|]. split; [exact Lt|].
        intros c a' b' f t Hcell Hf Ht.
        apply nth_error_map_inv in Hcell. destruct Hcell as [[a b] [Hab E]]. inversion E; subst a' b'.
        destruct (Hj c a b f t Hab Hf Ht) as [[u [Hu Ha]] [w [Hw Hb]]].
        assert (Ia : In a idx).
        { apply argsort_In. rewrite Ldv. apply nth_error_Some. congruence. }
        assert (Ib : In b idx).
        { apply argsort_In. rewrite Ldv. apply nth_error_Some. congruence. }
        split.
        * exists u. split; [exact Hu|]. rewrite pick_nth by exact Ridx. rewrite (index_of_nth idx a Ia). exact Ha.
        * exists w. split; [exact Hw|]. rewrite pick_nth by exact Ridx. rewrite (index_of_nth idx b Ib). exact Hb.
      + intros dv' H. simpl in H. inversion H; subst dv'. simpl.
        rewrite !pick_length by assumption. unfold idx. rewrite argsort_length, Ldv. split; [unfold n in *; lia|reflexivity].
  Qed.

  (* sort_depths moves whole rows: every old vertex i is found at one new index k with its position, its DEPTH and the
     value of every vertex child (values stay attached through sort_depths) *)
  Lemma sort_depths_rows h : inv_weak h ->
    forall i, i < length (h_verts h) ->
    exists k, nth_error (h_verts (sort_depths h)) k = nth_error (h_verts h) i
      /\ (forall dv, h_depth h = Some dv ->
            exists dv', h_depth (sort_depths h) = Some dv' /\ onth dv' k = onth dv i)
      /\ (forall c name vals, nth_error (h_vdata h) c = Some (name, vals) ->
            exists vals', nth_error (h_vdata (sort_depths h)) c = Some (name, vals') /\ onth vals' k = onth vals i).
  Proof.
    intros [Hv [Hc Hl]] i Hi. unfold sort_depths.
    destruct (h_depth h) as [dv0|] eqn:Ed.
    2:{ exists i. split; [reflexivity|]. split; [intros dv H; discriminate|].
        intros c name vals H. exists vals. split; [exact H|reflexivity]. }
    destruct (Hl dv0 eq_refl) as [L1 L2].
    set (n := length (h_verts h)) in *. set (dv := pad n dv0).
    assert (Ldv : length dv = n) by (apply pad_length; exact L2).
    destruct (nondecreasing dv) eqn:Es.
    - exists i. split; [reflexivity|]. split.
      + intros dv' H. inversion H; subst dv'. exists dv0. split; [exact Ed|reflexivity].
      + intros c name vals H. exists vals. split; [exact H|reflexivity].
    - set (idx := argsort dv).
      assert (Ridx : Forall (fun j => j < length (h_verts h)) idx).
      { pose proof (argsort_range dv) as R. rewrite Ldv in R. exact R. }
      assert (Ii : In i idx) by (apply argsort_In; rewrite Ldv; exact Hi).
      exists (index_of i idx). simpl. split; [|split].
      + rewrite pick_nth by exact Ridx. rewrite (index_of_nth idx i Ii). reflexivity.
      + intros dv' H. inversion H; subst dv'. eexists. split; [reflexivity|].
        rewrite <- (onth_pad n dv0 i). fold dv.
        unfold onth. rewrite pick_nth by (rewrite Ldv; exact Ridx). rewrite (index_of_nth idx i Ii). reflexivity.
      + intros c name vals H.
        exists (pick (pad n vals) idx). split.
        * apply map_nth_error with (f := fun '(k, v) => (k, pick (pad n v) idx)) in H. exact H.
        * rewrite <- (onth_pad n vals i). destruct (le_lt_dec (length vals) n) as [Hle|Hgt].
          -- unfold onth. rewrite pick_nth by (rewrite pad_length by exact Hle; exact Ridx). rewrite (index_of_nth idx i Ii).
             reflexivity.
          -- (* a child longer than the vertex array: padding adds nothing *)
             assert (Ep : pad n vals = vals) by (unfold pad; replace (n - length vals) with 0 by lia; apply app_nil_r).
             rewrite Ep. unfold onth. rewrite pick_nth by (eapply Forall_impl; [|exact Ridx]; simpl; intros; unfold n in *; lia).
             rewrite (index_of_nth idx i Ii). reflexivity.
  Qed.

  (* ---------------- validate_depth_data ---------------- *)
  Lemma nth_error_app_keep {A} (l x : list A) a v : nth_error l a = Some v -> nth_error (l ++ x) a = Some v.
  Proof. intros H. rewrite nth_error_app1; [exact H|]. apply nth_error_Some. congruence. Qed.

  Lemma cells_join_extend h verts' cells ft cd dep vd :
    cells_join h -> (forall a v, nth_error (h_verts h) a = Some v -> nth_error verts' a = Some v) ->
    cells = h_cells h -> ft = h_ft h ->
    cells_join {| h_verts := verts'; h_depth := dep; h_vdata := vd; h_cells := cells; h_ft := ft; h_cdata := cd |}.
  Proof.
    intros Hc Hext -> ->. unfold cells_join in *. simpl. destruct (h_ft h) as [[froms tos]|]; [|exact Hc].
    destruct Hc as [Lf [Lt Hj]]. split; [exact Lf|]. split; [exact Lt|].
    intros c a b f t Hcell Hf Ht. destruct (Hj c a b f t Hcell Hf Ht) as [[u [Hu Ha]] [w [Hw Hb]]].
    split; [exists u|exists w]; split; auto.
  Qed.

  Lemma appended_depth_at (verts : list V3) (dv : list oq) (new : list Q) i d :
    length dv = length verts ->
    (forall j e, nth_error dv j = Some (Some e) -> nth_error verts j = Some (pos e)) ->
    nth_error (dv ++ map (@Some Q) new) i = Some (Some d) ->
    nth_error (verts ++ map pos new) i = Some (pos d).
  Proof.
    intros L Hold H. destruct (lt_dec i (length dv)) as [Hlt|Hge].
    - rewrite nth_error_app1 in H by exact Hlt. apply nth_error_app_keep. apply Hold. exact H.
    - rewrite nth_error_app2 in H by lia. rewrite nth_error_app2 by lia. rewrite <- L.
      apply nth_error_map_inv in H. destruct H as [e [He E]]. inversion E; subst e.
      apply map_nth_error. exact He.
  Qed.

  Lemma add_depth_inv h name depth values tol : inv_weak h -> depth <> [] -> inv_weak (add_depth pos h name depth values tol).
  Proof.
    intros [Hv [Hc Hl]] Hne. unfold add_depth. destruct (h_depth h) as [dv|] eqn:Ed.
    - destruct (Hl dv eq_refl) as [L1 L2].
      assert (Lp : length (pad (length (h_verts h)) dv) = length (h_verts h)) by (apply pad_length; exact L2).
      split; [|split].
      + intros dv' i d H Hi. simpl in H. inversion H; subst dv'. simpl.
        apply appended_depth_at with (dv := pad (length (h_verts h)) dv); [exact Lp| |exact Hi].
        intros j e Hj. apply pad_nth_some in Hj. apply (Hv dv j e Ed Hj).
      + apply cells_join_extend with (h := h); try reflexivity; [exact Hc|]. intros a v Ha. apply nth_error_app_keep. exact Ha.
      + intros dv' H. simpl in H. inversion H; subst dv'. simpl. rewrite !app_length, !map_length, Lp. lia.
    - split; [|split].
      + intros dv' i d H Hi. simpl in H. inversion H; subst dv'. simpl.
        apply appended_depth_at with (dv := repeat None (length (h_verts h))); [apply repeat_length| |exact Hi].
        intros j e Hj. apply nth_error_In in Hj. apply repeat_spec in Hj. discriminate.
      + apply cells_join_extend with (h := h); try reflexivity; [exact Hc|]. intros a v Ha. apply nth_error_app_keep. exact Ha.
      + intros dv' H. simpl in H. inversion H; subst dv'. simpl. rewrite !app_length, !map_length, repeat_length.
        destruct depth; [contradiction|simpl; lia].
  Qed.

  (* ---------------- validate_interval_data ---------------- *)
  Lemma insert_uq_has x l : exists u, In u (insert_uq x l) /\ (u == x)%Q.
  Proof.
    induction l as [|y r IH]; simpl; [exists x; split; [left; reflexivity|reflexivity]|].
    destruct (Qltb x y); [exists x; split; [left; reflexivity|reflexivity]|].
    destruct (Qeq_bool x y) eqn:E.
    - apply Qeq_bool_iff in E. exists y. split; [left; reflexivity|symmetry; exact E].
    - destruct IH as [u [Hu He]]. exists u. split; [right; exact Hu|exact He].
  Qed.

  Lemma insert_uq_keeps x l u : In u l -> In u (insert_uq x l).
  Proof.
    induction l as [|y r IH]; intros H; [contradiction|]. simpl.
    destruct (Qltb x y); [right; exact H|]. destruct (Qeq_bool x y); [exact H|].
    destruct H as [->|H]; [left; reflexivity|right; apply IH; exact H].
  Qed.

  Lemma uniqQ_has : forall l x, In x l -> exists u, In u (uniqQ l) /\ (u == x)%Q.
  Proof.
    induction l as [|y r IH]; intros x H; [contradiction|]. simpl.
    destruct H as [->|H]; [apply insert_uq_has|].
    destruct (IH x H) as [u [Hu He]]. exists u. split; [apply insert_uq_keeps; exact Hu|exact He].
  Qed.

  Lemma find_q_spec : forall l x, (exists u, In u l /\ (u == x)%Q) ->
    exists u, nth_error l (find_q x l) = Some u /\ (u == x)%Q.
  Proof.
    induction l as [|y r IH]; intros x [u [Hu He]]; [contradiction|]. simpl.
    destruct (Qeq_bool x y) eqn:E.
    - apply Qeq_bool_iff in E. exists y. split; [reflexivity|symmetry; exact E].
    - destruct Hu as [->|Hu].
      + assert (Hxy : Qeq_bool x u = true) by (apply Qeq_bool_iff; symmetry; exact He). congruence.
      + simpl. apply IH. exists u. split; assumption.
  Qed.

  Lemma pair_up_flat g : forall fts : list (Q * Q),
    pair_up (map g (flatten_ft fts)) = map (fun '(f, t) => (g f, g t)) fts.
  Proof. induction fts as [|[f t] r IH]; [reflexivity|]. simpl. rewrite IH. reflexivity. Qed.

  Lemma flatten_In (fts : list (Q * Q)) f t : In (f, t) fts -> In f (flatten_ft fts) /\ In t (flatten_ft fts).
  Proof.
    induction fts as [|[f0 t0] r IH]; intros H; [contradiction|]. simpl.
    destruct H as [E|H]; [inversion E; subst; auto|]. destruct (IH H) as [A B]. auto.
  Qed.

  (* the new cells of an interval call join (depths equal to) their from / to *)
  Lemma new_cells_join (verts : list V3) (new_fts : list (Q * Q)) c a b f t :
    let flat := flatten_ft new_fts in
    let uni := uniqQ flat in
    let nv := length verts in
    nth_error (pair_up (map (fun x => nv + find_q x uni) flat)) c = Some (a, b) ->
    nth_error (map fst new_fts) c = Some f -> nth_error (map snd new_fts) c = Some t ->
    (exists u, (u == f)%Q /\ nth_error (verts ++ map pos uni) a = Some (pos u))
    /\ (exists u, (u == t)%Q /\ nth_error (verts ++ map pos uni) b = Some (pos u)).
  Proof.
    intros flat uni nv Hc Hf Ht. unfold flat in Hc. rewrite pair_up_flat in Hc.
    apply nth_error_map_inv in Hc. destruct Hc as [[f0 t0] [Hft E]]. inversion E; subst a b. clear E.
    apply nth_error_map_inv in Hf. destruct Hf as [[f1 t1] [Hft1 E]]. simpl in E. subst f.
    rewrite Hft in Hft1. injection Hft1 as E1 E2. subst f1 t1.
    apply nth_error_map_inv in Ht. destruct Ht as [[f2 t2] [Hft2 E]]. simpl in E. subst t.
    rewrite Hft in Hft2. injection Hft2 as E1 E2. subst f2 t2.
    destruct (flatten_In new_fts f0 t0 (nth_error_In _ _ Hft)) as [If It].
    destruct (find_q_spec uni f0 (uniqQ_has flat f0 If)) as [u [Hu Eu]].
    destruct (find_q_spec uni t0 (uniqQ_has flat t0 It)) as [w [Hw Ew]].
    split.
    - exists u. split; [exact Eu|]. rewrite nth_error_app2 by (unfold nv; lia).
      replace (nv + find_q f0 uni - length verts) with (find_q f0 uni) by (unfold nv; lia). apply map_nth_error. exact Hu.
    - exists w. split; [exact Ew|]. rewrite nth_error_app2 by (unfold nv; lia).
      replace (nv + find_q t0 uni - length verts) with (find_q t0 uni) by (unfold nv; lia). apply map_nth_error. exact Hw.
  Qed.

  Lemma pair_up_length g (fts : list (Q * Q)) : length (pair_up (map g (flatten_ft fts))) = length fts.
  Proof. rewrite pair_up_flat. apply map_length. Qed.

  Lemma add_interval_inv h name fts values tol : inv_weak h -> inv_weak (add_interval pos h name fts values tol).
  Proof.
    intros [Hv [Hc Hl]]. unfold add_interval. destruct (h_ft h) as [[froms tos]|] eqn:Eft.
    - (* later interval call *)
      set (cell_map := cell_map_of froms tos fts tol). set (new_fts := unmatched cell_map fts).
      split; [|split].
      + intros dv i d H Hi. simpl in H |- *. apply nth_error_app_keep. apply (Hv dv i d H Hi).
      + unfold cells_join in *. rewrite Eft in Hc. simpl. destruct Hc as [Lf [Lt Hj]].
        rewrite !app_length, !map_length, pair_up_length. split; [lia|]. split; [lia|].
        intros c a b f t Hcell Hf Ht.
        destruct (lt_dec c (length (h_cells h))) as [Hlt|Hge].
        * rewrite nth_error_app1 in Hcell by exact Hlt.
          rewrite nth_error_app1 in Hf by lia. rewrite nth_error_app1 in Ht by lia.
          destruct (Hj c a b f t Hcell Hf Ht) as [[u [Hu Ha]] [w [Hw Hb]]].
          split; [exists u|exists w]; (split; [assumption|apply nth_error_app_keep; assumption]).
        * rewrite nth_error_app2 in Hcell by lia.
          rewrite nth_error_app2 in Hf by lia. rewrite nth_error_app2 in Ht by lia.
          rewrite Lf in Hf. rewrite Lt in Ht.
          exact (new_cells_join (h_verts h) new_fts _ a b f t Hcell Hf Ht).
      + intros dv H. simpl in H |- *. destruct (Hl dv H) as [L1 L2]. rewrite app_length. lia.
    - (* first interval call *)
      split; [|split].
      + intros dv i d H Hi. simpl in H |- *. apply nth_error_app_keep. apply (Hv dv i d H Hi).
      + unfold cells_join. simpl. rewrite !map_length, pair_up_length. split; [reflexivity|]. split; [reflexivity|].
        intros c a b f t Hcell Hf Ht. exact (new_cells_join (h_verts h) fts c a b f t Hcell Hf Ht).
      + intros dv H. simpl in H |- *. destruct (Hl dv H) as [L1 L2]. rewrite app_length. lia.
  Qed.

  (* ---------------- all histories ---------------- *)
  Definition op_ok (op : hop) : Prop :=
    match op with AddDepth _ depth _ _ => depth <> [] | AddInterval _ _ _ _ => True end.

  Lemma happly_inv h op : inv_weak h -> op_ok op -> inv_weak (happly pos h op).
  Proof.
    intros H Hop. destruct op as [k d v tol|k ft v tol]; simpl.
    - apply add_depth_inv; assumption.
    - apply add_interval_inv; assumption.
  Qed.

  Lemma happly_fold_inv : forall subs h, inv_weak h -> Forall op_ok subs -> inv_weak (fold_left (happly pos) subs h).
  Proof.
    induction subs as [|op r IH]; intros h H Hs; [exact H|].
    inversion Hs as [|? ? Hop Hr]; subst. simpl. apply IH; [apply happly_inv; assumption|exact Hr].
  Qed.

  (* one add_data call with any number of data sets *)
  Lemma hcall_inv h subs : inv h -> Forall op_ok subs -> inv (hcall pos h subs).
  Proof.
    intros H Hs. unfold hcall. apply sort_depths_inv. apply happly_fold_inv; [apply inv_inv_weak; exact H|exact Hs].
  Qed.

  Lemma hrunc_inv : forall calls h, inv h -> Forall (Forall op_ok) calls -> inv (hrunc pos h calls).
  Proof.
    induction calls as [|c r IH]; intros h H Hc; [exact H|].
    inversion Hc as [|? ? Hs Hr]; subst. simpl. apply IH; [apply hcall_inv; assumption|exact Hr].
  Qed.

  Lemma hstep_inv h op : inv h -> op_ok op -> inv (hstep pos h op).
  Proof. intros H Hop. apply hcall_inv; [exact H|constructor; [exact Hop|constructor]]. Qed.

  Lemma hrun_inv : forall ops h, inv h -> Forall op_ok ops -> inv (hrun pos h ops).
  Proof.
    induction ops as [|op r IH]; intros h H Hops; [exact H|].
    inversion Hops as [|? ? Hop Hr]; subst. simpl. apply IH; [apply hstep_inv; assumption|exact Hr].
  Qed.

  (* ---------------- values stay attached ---------------- *)
  (* value v of vertex child [name] is attached to a vertex whose DEPTH is within tol of d *)
  Definition attached (h : hole) (name : nat) (d v tol : Q) : Prop :=
    exists i dv vals dd, h_depth h = Some dv /\ onth dv i = Some dd /\ close dd d tol = true
      /\ In (name, vals) (h_vdata h) /\ onth vals i = Some v /\ i < length (h_verts h).

  Lemma onth_app_some (l x : list oq) i a : onth l i = Some a -> onth (l ++ x) i = Some a.
  Proof.
    unfold onth. intros H. destruct (nth_error l i) as [y|] eqn:E; [|discriminate].
    rewrite (nth_error_app_keep l x i y E). exact H.
  Qed.

  Lemma pad_all_In n (d : list (nat * list oq)) name vals : In (name, vals) d -> In (name, pad n vals) (pad_all n d).
  Proof.
    intros H. unfold pad_all. apply in_map_iff. exists (name, vals). split; [reflexivity|exact H].
  Qed.

  Lemma attached_sort h name d v tol : inv_weak h -> attached h name d v tol -> attached (sort_depths h) name d v tol.
  Proof.
    intros Hw [i [dv [vals [dd [Hd [Hi [Hc [Hin [Hv Hlt]]]]]]]]].
    destruct (sort_depths_rows h Hw i Hlt) as [k [Hk [Hdep Hdat]]].
    destruct (Hdep dv Hd) as [dv' [Hd' Ek]].
    apply In_nth_error in Hin. destruct Hin as [c Hcn].
    destruct (Hdat c name vals Hcn) as [vals' [Hc' Ev]].
    exists k, dv', vals', dd. split; [exact Hd'|]. split; [congruence|]. split; [exact Hc|].
    split; [eapply nth_error_In; exact Hc'|]. split; [congruence|].
    apply nth_error_Some. rewrite Hk. apply nth_error_Some. exact Hlt.
  Qed.

  Lemma attached_add_depth h k depth values tol' name d v tol :
    attached h name d v tol -> attached (add_depth pos h k depth values tol') name d v tol.
  Proof.
    intros [i [dv [vals [dd [Hd [Hi [Hc [Hin [Hv Hlt]]]]]]]]].
    unfold add_depth. rewrite Hd.
    exists i. eexists. eexists. exists dd.
    simpl. split; [reflexivity|]. split; [apply onth_app_some; rewrite onth_pad; exact Hi|]. split; [exact Hc|].
    split; [apply in_or_app; left; apply pad_all_In; exact Hin|]. split; [rewrite onth_pad; exact Hv|].
    rewrite app_length. lia.
  Qed.

  Lemma attached_add_interval h k fts values tol' name d v tol :
    attached h name d v tol -> attached (add_interval pos h k fts values tol') name d v tol.
  Proof.
    intros [i [dv [vals [dd [Hd [Hi [Hc [Hin [Hv Hlt]]]]]]]]].
    unfold add_interval. destruct (h_ft h) as [[froms tos]|]; simpl;
      (exists i, dv, vals, dd; simpl; repeat split; try assumption; rewrite app_length; lia).
  Qed.

  Lemma attached_happly h op name d v tol : attached h name d v tol -> attached (happly pos h op) name d v tol.
  Proof.
    intros Ha. destruct op as [k dp vl tl|k ft vl tl]; simpl; [apply attached_add_depth|apply attached_add_interval]; exact Ha.
  Qed.

  Lemma attached_fold : forall subs h name d v tol, attached h name d v tol -> attached (fold_left (happly pos) subs h) name d v tol.
  Proof.
    induction subs as [|op r IH]; intros h name d v tol Ha; [exact Ha|]. simpl. apply IH. apply attached_happly. exact Ha.
  Qed.

  (* a value that is attached stays attached through every later add_data call (with any number of data sets) *)
  Lemma attached_hcall h subs name d v tol : inv h -> Forall op_ok subs -> attached h name d v tol -> attached (hcall pos h subs) name d v tol.
  Proof.
    intros Hinv Hs Ha. unfold hcall. apply attached_sort; [apply happly_fold_inv; [apply inv_inv_weak; exact Hinv|exact Hs]|].
    apply attached_fold. exact Ha.
  Qed.

  Lemma attached_hrunc : forall calls h name d v tol, inv h -> Forall (Forall op_ok) calls ->
    attached h name d v tol -> attached (hrunc pos h calls) name d v tol.
  Proof.
    induction calls as [|c r IH]; intros h name d v tol Hinv Hc Ha; [exact Ha|].
    inversion Hc as [|? ? Hs Hr]; subst. simpl.
    apply IH; [apply hcall_inv; assumption|exact Hr|apply attached_hcall; assumption].
  Qed.

  Lemma attached_hstep h op name d v tol : inv h -> op_ok op -> attached h name d v tol -> attached (hstep pos h op) name d v tol.
  Proof. intros Hinv Hop Ha. apply attached_hcall; [exact Hinv|constructor; [exact Hop|constructor]|exact Ha]. Qed.

  Lemma attached_hrun : forall ops h name d v tol, inv h -> Forall op_ok ops ->
    attached h name d v tol -> attached (hrun pos h ops) name d v tol.
  Proof.
    induction ops as [|op r IH]; intros h name d v tol Hinv Hops Ha; [exact Ha|].
    inversion Hops as [|? ? Hop Hr]; subst. simpl.
    apply IH; [apply hstep_inv; assumption|exact Hr|apply attached_hstep; assumption].
  Qed.

  (* ---------------- one call attaches its values (no collision) ---------------- *)
  Lemma set_nth_length {A} : forall (l : list A) i v, length (set_nth l i v) = length l.
  Proof. induction l as [|x r IH]; intros [|i] v; simpl; try reflexivity. rewrite IH. reflexivity. Qed.

  Lemma nth_error_set_nth_same {A} : forall (l : list A) i v, i < length l -> nth_error (set_nth l i v) i = Some v.
  Proof. induction l as [|x r IH]; intros [|i] v H; simpl in *; try lia; [reflexivity|]. apply IH. lia. Qed.

  Lemma nth_error_set_nth_other {A} : forall (l : list A) i j v, i <> j -> nth_error (set_nth l i v) j = nth_error l j.
  Proof. induction l as [|x r IH]; intros [|i] [|j] v H; simpl; try reflexivity; try lia. apply IH. lia. Qed.

  Definition assign_step {A} (tail : list A) (h : list A) (p : nat * nat) : list A :=
    match nth_error tail (snd p) with Some v => set_nth h (fst p) v | None => h end.

  Lemma assign_fold {A} (head : list A) m tail : assign head m tail = fold_left (assign_step tail) m head.
  Proof. reflexivity. Qed.

  Lemma assign_length {A} : forall m (head tail : list A), length (assign head m tail) = length head.
  Proof.
    induction m as [|p r IH]; intros head tail; [reflexivity|]. rewrite assign_fold. simpl. rewrite <- assign_fold, IH.
    unfold assign_step. destruct (nth_error tail (snd p)); [apply set_nth_length|reflexivity].
  Qed.

  Lemma assign_untouched {A} : forall m (head tail : list A) i,
    ~ In i (map fst m) -> nth_error (assign head m tail) i = nth_error head i.
  Proof.
    induction m as [|p r IH]; intros head tail i H; [reflexivity|]. rewrite assign_fold. simpl. rewrite <- assign_fold.
    rewrite IH by (intros Hi; apply H; right; exact Hi).
    unfold assign_step. destruct (nth_error tail (snd p)); [|reflexivity].
    apply nth_error_set_nth_other. intros E. apply H. left. exact E.
  Qed.

  Lemma assign_unique {A} : forall m (head tail : list A) i j v,
    NoDup (map fst m) -> In (i, j) m -> nth_error tail j = Some v -> i < length head ->
    nth_error (assign head m tail) i = Some v.
  Proof.
    induction m as [|p r IH]; intros head tail i j v Hnd Hin Hv Hi; [contradiction|].
    simpl in Hnd. inversion Hnd as [|? ? Hnot Hnd']; subst.
    rewrite assign_fold. simpl. rewrite <- assign_fold. destruct Hin as [->|Hin].
    - rewrite assign_untouched by exact Hnot. unfold assign_step. simpl. rewrite Hv. apply nth_error_set_nth_same. exact Hi.
    - apply (IH _ tail i j v Hnd' Hin Hv). unfold assign_step.
      destruct (nth_error tail (snd p)); [rewrite set_nth_length|]; exact Hi.
  Qed.

  Lemma in_combine_seq {A} : forall (l : list A) s j b,
    In (j, b) (combine (seq s (length l)) l) -> s <= j /\ nth_error l (j - s) = Some b.
  Proof.
    induction l as [|a r IH]; intros s j b H; [contradiction|]. simpl in H. destruct H as [E|H].
    - inversion E; subst. split; [lia|]. rewrite Nat.sub_diag. reflexivity.
    - destruct (IH (S s) j b H) as [H1 H2]. split; [lia|]. replace (j - s) with (S (j - S s)) by lia. exact H2.
  Qed.

  (* every pair produced by match_values is a genuine collocation *)
  Lemma match_values_spec vec_a vec_b tol i j :
    In (i, j) (match_values vec_a vec_b tol) ->
    exists a b, nth_error vec_a i = Some (Some a) /\ nth_error vec_b j = Some b /\ close a b tol = true.
  Proof.
    unfold match_values. intros H. apply in_concat in H. destruct H as [blk [Hblk Hin]].
    apply in_map_iff in Hblk. destruct Hblk as [[j' b] [Eblk Hjb]]. subst blk.
    apply in_combine_seq in Hjb. destruct Hjb as [_ Hb]. rewrite Nat.sub_0_r in Hb.
    apply in_flat_map in Hin. destruct Hin as [c [_ Hc]].
    destruct (nth_error (pick vec_a (argsort vec_a)) c) as [[a|]|] eqn:Es; try contradiction.
    destruct (nth_error (argsort vec_a) c) as [i'|] eqn:Ei; try contradiction.
    destruct (close a b tol) eqn:Ecl; [|contradiction].
    destruct Hc as [E|[]]. inversion E; subst i' j'.
    rewrite pick_nth in Es by apply argsort_range. rewrite Ei in Es.
    exists a, b. split; [exact Es|]. split; [exact Hb|exact Ecl].
  Qed.

  (* np.delete(tail, mapping[:, 1]) keeps the unmapped entries of two aligned arrays aligned *)
  Lemma unmatched_aligned_from {A B} (m : list (nat * nat)) : forall (l1 : list A) (l2 : list B) s j x y,
    length l1 = length l2 -> mapped m (s + j) = false -> nth_error l1 j = Some x -> nth_error l2 j = Some y ->
    exists p,
      nth_error (map snd (filter (fun q => negb (mapped m (fst q))) (combine (seq s (length l1)) l1))) p = Some x
      /\ nth_error (map snd (filter (fun q => negb (mapped m (fst q))) (combine (seq s (length l2)) l2))) p = Some y.
  Proof.
    induction l1 as [|a r1 IH]; intros [|b r2] s j x y Hlen Hm H1 H2; try (destruct j; discriminate); try discriminate.
    simpl in Hlen. simpl combine. simpl filter. simpl fst.
    destruct j as [|j]; simpl in H1, H2.
    - inversion H1; inversion H2; subst. rewrite Nat.add_0_r in Hm. rewrite Hm. simpl. exists 0. split; reflexivity.
    - replace (s + S j) with (S s + j) in Hm by lia.
      destruct (IH r2 (S s) j x y ltac:(lia) Hm H1 H2) as [p [P1 P2]].
      destruct (mapped m s); simpl; [exists p|exists (S p)]; split; assumption.
  Qed.

  Lemma unmatched_aligned {A B} (m : list (nat * nat)) (l1 : list A) (l2 : list B) j x y :
    length l1 = length l2 -> mapped m j = false -> nth_error l1 j = Some x -> nth_error l2 j = Some y ->
    exists p, nth_error (unmatched m l1) p = Some x /\ nth_error (unmatched m l2) p = Some y.
  Proof. intros. unfold unmatched. apply (unmatched_aligned_from m l1 l2 0 j); assumption. Qed.

  Lemma mapped_true_In m j : mapped m j = true -> exists i, In (i, j) m.
  Proof.
    unfold mapped. intros H. apply existsb_exists in H. destruct H as [[i j'] [Hin E]]. simpl in E.
    apply Nat.eqb_eq in E. subst j'. exists i. exact Hin.
  Qed.

  Lemma close_self d tol : (0 < tol)%Q -> close d d tol = true.
  Proof.
    intros H. unfold close. apply Qltb_lt. setoid_replace (d - d)%Q with 0%Q by ring. exact H.
  Qed.

  Definition no_collision (h : hole) (depth : list Q) (tol : Q) : Prop :=
    match h_depth h with None => True | Some dv => NoDup (map fst (match_values (pad (length (h_verts h)) dv) depth tol)) end.

  (* one validate_depth_data call attaches every value to a vertex within tol of its depth, provided no two entries of
     the call collocate with the same existing vertex *)
  Lemma add_depth_attached h name depth values tol j d v :
    inv_weak h -> length values = length depth -> (0 < tol)%Q -> no_collision h depth tol ->
    nth_error depth j = Some d -> nth_error values j = Some (Some v) ->
    attached (add_depth pos h name depth values tol) name d v tol.
  Proof.
    intros [_ [_ Hl]] Hlen Htol Hnc Hd Hv. unfold add_depth, no_collision in *.
    destruct (h_depth h) as [dv0|] eqn:Ed.
    - destruct (Hl dv0 eq_refl) as [L1 L2'].
      set (dv := pad (length (h_verts h)) dv0) in *.
      assert (L2 : length dv = length (h_verts h)) by (apply pad_length; exact L2').
      set (m := match_values dv depth tol) in *.
      destruct (mapped m j) eqn:Em.
      + (* collocated with an existing vertex i *)
        destruct (mapped_true_In m j Em) as [i Hin].
        destruct (match_values_spec dv depth tol i j Hin) as [a [b [Ha [Hb Hcl]]]].
        rewrite Hd in Hb. inversion Hb; subst b.
        assert (Hi : i < length (h_verts h)) by (rewrite <- L2; apply nth_error_Some; congruence).
        exists i. eexists. eexists. exists a. simpl. split; [reflexivity|].
        split; [apply onth_app_some; unfold onth; rewrite Ha; reflexivity|]. split; [exact Hcl|].
        split; [apply in_or_app; right; left; reflexivity|]. split.
        * apply onth_app_some.
          assert (Hi' : i < length (repeat (@None Q) (length (h_verts h)))) by (rewrite repeat_length; exact Hi).
          pose proof (assign_unique m (repeat (@None Q) (length (h_verts h))) values i j (Some v) Hnc Hin Hv Hi') as E.
          unfold onth, oq in *. rewrite E. reflexivity.
        * rewrite app_length. lia.
      + (* a new vertex *)
        destruct (unmatched_aligned m depth values j d (Some v) (eq_sym Hlen) Em Hd Hv) as [p [P1 P2]].
        exists (length (h_verts h) + p). eexists. eexists. exists d. simpl. split; [reflexivity|]. split; [|split; [apply close_self; exact Htol|]].
        * unfold onth. rewrite nth_error_app2 by lia. rewrite L2. replace (length (h_verts h) + p - length (h_verts h)) with p by lia.
          pose proof (map_nth_error (@Some Q) p _ P1) as E. unfold oq in *. rewrite E. reflexivity.
        * split; [apply in_or_app; right; left; reflexivity|]. split.
          -- unfold onth. rewrite nth_error_app2 by (rewrite assign_length, repeat_length; lia).
             rewrite assign_length, repeat_length. replace (length (h_verts h) + p - length (h_verts h)) with p by lia.
             unfold oq in *. rewrite P2. reflexivity.
          -- rewrite app_length, map_length. assert (p < length (unmatched m depth)) by (apply nth_error_Some; congruence). lia.
    - (* the first depth call: every entry becomes a vertex *)
      exists (length (h_verts h) + j). eexists. eexists. exists d. simpl. split; [reflexivity|]. split; [|split; [apply close_self; exact Htol|]].
      + unfold onth. rewrite nth_error_app2 by (rewrite repeat_length; lia). rewrite repeat_length.
        replace (length (h_verts h) + j - length (h_verts h)) with j by lia.
        pose proof (map_nth_error (@Some Q) j _ Hd) as E. unfold oq in *. rewrite E. reflexivity.
      + split; [apply in_or_app; right; left; reflexivity|]. split.
        * unfold onth. rewrite nth_error_app2 by (rewrite repeat_length; lia). rewrite repeat_length.
          replace (length (h_verts h) + j - length (h_verts h)) with j by lia. unfold oq in *. rewrite Hv. reflexivity.
        * rewrite app_length, map_length. assert (j < length depth) by (apply nth_error_Some; congruence). lia.
  Qed.

  (* the whole statement for histories of add_data calls with any number of data sets: the values of a depth data
     set none of whose entries collide are attached after its call and after every later call *)
  Lemma values_stay_attached_calls calls pre post name depth values tol j d v later :
    Forall (Forall op_ok) calls -> Forall op_ok pre -> Forall op_ok post -> Forall (Forall op_ok) later ->
    depth <> [] -> length values = length depth -> (0 < tol)%Q ->
    no_collision (fold_left (happly pos) pre (hrunc pos empty_hole calls)) depth tol ->
    nth_error depth j = Some d -> nth_error values j = Some (Some v) ->
    attached (hrunc pos (hcall pos (hrunc pos empty_hole calls) (pre ++ AddDepth name depth values tol :: post)) later) name d v tol.
  Proof.
    intros Hc Hpre Hpost Hlater Hne Hlen Htol Hnc Hd Hv.
    assert (Hinv : inv (hrunc pos empty_hole calls)) by (apply hrunc_inv; [apply inv_empty|exact Hc]).
    assert (Hall : Forall op_ok (pre ++ AddDepth name depth values tol :: post)).
    { apply Forall_app. split; [exact Hpre|]. constructor; [exact Hne|exact Hpost]. }
    apply attached_hrunc; [apply hcall_inv; assumption|exact Hlater|].
    unfold hcall. apply attached_sort; [apply happly_fold_inv; [apply inv_inv_weak; exact Hinv|exact Hall]|].
    rewrite fold_left_app. simpl. apply attached_fold.
    apply add_depth_attached with (j := j); try assumption.
    apply happly_fold_inv; [apply inv_inv_weak; exact Hinv|exact Hpre].
  Qed.

  Lemma values_stay_attached ops name depth values tol j d v later :
    Forall op_ok ops -> Forall op_ok later -> depth <> [] -> length values = length depth -> (0 < tol)%Q ->
    no_collision (hrun pos empty_hole ops) depth tol ->
    nth_error depth j = Some d -> nth_error values j = Some (Some v) ->
    attached (hrun pos (hstep pos (hrun pos empty_hole ops) (AddDepth name depth values tol)) later) name d v tol.
  Proof.
    intros Hops Hlater Hne Hlen Htol Hnc Hd Hv.
    assert (Hinv : inv (hrun pos empty_hole ops)) by (apply hrun_inv; [apply inv_empty|exact Hops]).
    apply attached_hrun; [apply hstep_inv; [exact Hinv|exact Hne]|exact Hlater|].
    unfold hstep, hcall. simpl. apply attached_sort; [apply add_depth_inv; [apply inv_inv_weak; exact Hinv|exact Hne]|].
    apply add_depth_attached with (j := j); try assumption. apply inv_inv_weak. exact Hinv.
  Qed.
  (* ---------------- interval values stay attached ---------------- *)
  (* value v of interval child [name] is attached to a cell whose (FROM, TO) is within tol of (f, t) *)
  Definition cattached (h : hole) (name : nat) (f t v tol : Q) : Prop :=
    exists c froms tos vals f' t', h_ft h = Some (froms, tos) /\ nth_error froms c = Some f' /\ nth_error tos c = Some t'
      /\ ft_close f t f' t' tol = true /\ In (name, vals) (h_cdata h) /\ onth vals c = Some v.

  Lemma cattached_sort h name f t v tol : cattached h name f t v tol -> cattached (sort_depths h) name f t v tol.
  Proof.
    intros [c [froms [tos [vals [f' [t' H]]]]]]. unfold sort_depths.
    destruct (h_depth h) as [dv|]; [|exists c, froms, tos, vals, f', t'; exact H].
    destruct (nondecreasing _); exists c, froms, tos, vals, f', t'; exact H.
  Qed.

  Lemma cattached_add_depth h k depth values tol' name f t v tol :
    cattached h name f t v tol -> cattached (add_depth pos h k depth values tol') name f t v tol.
  Proof.
    intros [c [froms [tos [vals [f' [t' H]]]]]]. unfold add_depth.
    destruct (h_depth h); exists c, froms, tos, vals, f', t'; exact H.
  Qed.

  Lemma cattached_add_interval h k fts values tol' name f t v tol :
    cattached h name f t v tol -> cattached (add_interval pos h k fts values tol') name f t v tol.
  Proof.
    intros [c [froms [tos [vals [f' [t' [Hft [Hf [Ht [Hcl [Hin Hv]]]]]]]]]]].
    unfold add_interval. rewrite Hft.
    exists c. eexists. eexists. eexists. exists f', t'. simpl. split; [reflexivity|].
    split; [apply nth_error_app_keep; exact Hf|]. split; [apply nth_error_app_keep; exact Ht|]. split; [exact Hcl|].
    split; [apply in_or_app; left; apply pad_all_In; exact Hin|]. rewrite onth_pad. exact Hv.
  Qed.

  Lemma cattached_happly h op name f t v tol : cattached h name f t v tol -> cattached (happly pos h op) name f t v tol.
  Proof.
    intros Ha. destruct op; simpl; [apply cattached_add_depth|apply cattached_add_interval]; exact Ha.
  Qed.

  Lemma cattached_fold : forall subs h name f t v tol,
    cattached h name f t v tol -> cattached (fold_left (happly pos) subs h) name f t v tol.
  Proof.
    induction subs as [|op r IH]; intros h name f t v tol Ha; [exact Ha|]. simpl. apply IH. apply cattached_happly. exact Ha.
  Qed.

  Lemma cattached_hcall h subs name f t v tol : cattached h name f t v tol -> cattached (hcall pos h subs) name f t v tol.
  Proof. intros Ha. unfold hcall. apply cattached_sort. apply cattached_fold. exact Ha. Qed.

  Lemma cattached_hrunc : forall calls h name f t v tol,
    cattached h name f t v tol -> cattached (hrunc pos h calls) name f t v tol.
  Proof.
    induction calls as [|c r IH]; intros h name f t v tol Ha; [exact Ha|]. simpl. apply IH. apply cattached_hcall. exact Ha.
  Qed.

  Lemma first_match_spec f t tol : forall froms tos k c,
    first_match f t froms tos tol k = Some c ->
    k <= c /\ exists f' t', nth_error froms (c - k) = Some f' /\ nth_error tos (c - k) = Some t' /\ ft_close f t f' t' tol = true.
  Proof.
    induction froms as [|f' rf IH]; intros [|t' rt] k c H; simpl in H; try discriminate.
    destruct (ft_close f t f' t' tol) eqn:E.
    - inversion H; subst c. split; [lia|]. rewrite Nat.sub_diag. exists f', t'. repeat split; assumption.
    - destruct (IH rt (S k) c H) as [Hk [f2 [t2 [H1 [H2 H3]]]]]. split; [lia|].
      exists f2, t2. replace (c - k) with (S (c - S k)) by lia. repeat split; assumption.
  Qed.

  Lemma cell_map_spec froms tos fts tol c j : In (c, j) (cell_map_of froms tos fts tol) ->
    exists f t f' t', nth_error fts j = Some (f, t) /\ nth_error froms c = Some f' /\ nth_error tos c = Some t'
      /\ ft_close f t f' t' tol = true.
  Proof.
    unfold cell_map_of. intros H. apply in_flat_map in H. destruct H as [[i [f t]] [Hin Hm]].
    apply in_combine_seq in Hin. destruct Hin as [_ Hn]. rewrite Nat.sub_0_r in Hn.
    destruct (first_match f t froms tos tol 0) as [c'|] eqn:E; [|contradiction].
    destruct Hm as [Em|[]]. inversion Em; subst c' i.
    destruct (first_match_spec f t tol froms tos 0 c E) as [_ [f' [t' [H1 [H2 H3]]]]]. rewrite Nat.sub_0_r in H1, H2.
    exists f, t, f', t'. repeat split; assumption.
  Qed.

  Lemma ft_close_self f t tol : (0 < tol)%Q -> ft_close f t f t tol = true.
  Proof.
    intros H. unfold ft_close. apply Qltb_lt.
    setoid_replace ((f - f) * (f - f) + (t - t) * (t - t))%Q with 0%Q by ring.
    apply Qmult_lt_0_compat; exact H.
  Qed.

  Definition no_collision_c (h : hole) (fts : list (Q * Q)) (tol : Q) : Prop :=
    match h_ft h with None => True | Some (froms, tos) => NoDup (map fst (cell_map_of froms tos fts tol)) end.

  (* one validate_interval_data call attaches every value to a cell within tol of its interval, provided no two entries of
     the data set collocate with the same existing cell *)
  Lemma add_interval_attached h name fts values tol j f t v :
    cells_join h -> length values = length fts -> (0 < tol)%Q -> no_collision_c h fts tol ->
    nth_error fts j = Some (f, t) -> nth_error values j = Some (Some v) ->
    cattached (add_interval pos h name fts values tol) name f t v tol.
  Proof.
    intros Hc Hlen Htol Hnc Hft Hv. unfold add_interval, no_collision_c, cells_join in *.
    destruct (h_ft h) as [[froms tos]|] eqn:Eft.
    - destruct Hc as [Lf [Lt _]].
      set (m := cell_map_of froms tos fts tol) in *.
      destruct (mapped m j) eqn:Em.
      + destruct (mapped_true_In m j Em) as [c Hin].
        destruct (cell_map_spec froms tos fts tol c j Hin) as [f0 [t0 [f' [t' [Hj [Hf' [Ht' Hcl]]]]]]].
        rewrite Hft in Hj. inversion Hj; subst f0 t0.
        assert (Hcn : c < length (h_cells h)) by (rewrite <- Lf; apply nth_error_Some; congruence).
        exists c. eexists. eexists. eexists. exists f', t'. simpl. split; [reflexivity|].
        split; [apply nth_error_app_keep; exact Hf'|]. split; [apply nth_error_app_keep; exact Ht'|]. split; [exact Hcl|].
        split; [apply in_or_app; right; left; reflexivity|].
        apply onth_app_some.
        assert (Hc' : c < length (repeat (@None Q) (length (h_cells h)))) by (rewrite repeat_length; exact Hcn).
        pose proof (assign_unique m (repeat (@None Q) (length (h_cells h))) values c j (Some v) Hnc Hin Hv Hc') as E.
        unfold onth, oq in *. rewrite E. reflexivity.
      + destruct (unmatched_aligned m fts values j (f, t) (Some v) (eq_sym Hlen) Em Hft Hv) as [p [P1 P2]].
        exists (length (h_cells h) + p). eexists. eexists. eexists. exists f, t. simpl. split; [reflexivity|].
        split; [|split; [|split; [apply ft_close_self; exact Htol|split; [apply in_or_app; right; left; reflexivity|]]]].
        * rewrite nth_error_app2 by lia. rewrite Lf. replace (length (h_cells h) + p - length (h_cells h)) with p by lia.
          apply (map_nth_error fst p _ P1).
        * rewrite nth_error_app2 by lia. rewrite Lt. replace (length (h_cells h) + p - length (h_cells h)) with p by lia.
          apply (map_nth_error snd p _ P1).
        * unfold onth. rewrite nth_error_app2 by (rewrite assign_length, repeat_length; lia).
          rewrite assign_length, repeat_length. replace (length (h_cells h) + p - length (h_cells h)) with p by lia.
          unfold oq in *. rewrite P2. reflexivity.
    - exists j. eexists. eexists. eexists. exists f, t. simpl. split; [reflexivity|].
      split; [apply (map_nth_error fst j _ Hft)|]. split; [apply (map_nth_error snd j _ Hft)|].
      split; [apply ft_close_self; exact Htol|]. split; [apply in_or_app; right; left; reflexivity|].
      unfold onth, oq in *. rewrite Hv. reflexivity.
  Qed.

  (* for histories of add_data calls: the values of a from-to data set none of whose entries collide are attached after
     its call and after every later call *)
  Lemma interval_values_stay_attached_calls calls pre post name fts values tol j f t v later :
    Forall (Forall op_ok) calls -> Forall op_ok pre ->
    length values = length fts -> (0 < tol)%Q ->
    no_collision_c (fold_left (happly pos) pre (hrunc pos empty_hole calls)) fts tol ->
    nth_error fts j = Some (f, t) -> nth_error values j = Some (Some v) ->
    cattached (hrunc pos (hcall pos (hrunc pos empty_hole calls) (pre ++ AddInterval name fts values tol :: post)) later)
              name f t v tol.
  Proof.
    intros Hc Hpre Hlen Htol Hnc Hft Hv.
    assert (Hinv : inv (hrunc pos empty_hole calls)) by (apply hrunc_inv; [apply inv_empty|exact Hc]).
    apply cattached_hrunc. unfold hcall. apply cattached_sort. rewrite fold_left_app. simpl. apply cattached_fold.
    apply add_interval_attached with (j := j); try assumption.
    destruct (happly_fold_inv pre _ (inv_inv_weak _ Hinv) Hpre) as [_ [Hj _]]. exact Hj.
  Qed.
End Proofs.

(* ---------------- the collision defect ---------------- *)
Lemma attached_attachedb h name d v tol : attached h name d v tol -> attachedb h name d v tol = true.
Proof.
  intros [i [dv [vals [dd [Hd [Hi [Hc [Hin [Hv Hlt]]]]]]]]]. unfold attachedb. rewrite Hd.
  apply existsb_exists. exists i. split; [apply in_seq; lia|]. rewrite Hi, Hc. simpl.
  apply existsb_exists. exists (name, vals). split; [exact Hin|]. simpl. rewrite Nat.eqb_refl, Hv. simpl.
  apply Qeq_bool_iff. reflexivity.
Qed.

(* existing vertex at 14.5; one call adds 14.5 (value -18) and 14.49609375 (value 18) with the default tolerance 0.01:
   both collocate with the existing vertex and the value -18 is overwritten *)
Definition collision_pos (d : Q) : V3 := (0, 0, - d)%Q.
Definition collision_before : list hop := [AddDepth 0 [29 # 2]%Q [Some 18%Q] (1 # 2)%Q].
Definition collision_depth : list Q := [85 # 4; 29 # 2; 3711 # 256]%Q.
Definition collision_values : list oq := [Some 17%Q; Some (-18)%Q; Some 18%Q].

Lemma collision_witness :
  attachedb (hstep collision_pos (hrun collision_pos empty_hole collision_before)
                   (AddDepth 1 collision_depth collision_values (1 # 100)%Q)) 1 (29 # 2)%Q (-18)%Q (1 # 100)%Q = false
  /\ ~ no_collision (hrun collision_pos empty_hole collision_before) collision_depth (1 # 100)%Q.
Proof.
  split; [vm_compute; reflexivity|].
  unfold no_collision. vm_compute. intros H. inversion H as [|? ? Hn _]; subst. apply Hn. left. reflexivity.
Qed.

(* ---------------- the cached path is never stale ---------------- *)
Section Cache.
  Variable ang : Type.
  Variable dir : ang -> V3.

  Definition coherent (h : dhole ang) : Prop :=
    d_locs h = None \/ d_locs h = Some (locations dir (d_collar h) (d_surveys h)).

  Lemma d_locations_coherent h : coherent h -> d_locations dir h = locations dir (d_collar h) (d_surveys h).
  Proof. intros [H|H]; unfold d_locations; rewrite H; reflexivity. Qed.

  (* API calls: everything except a successful in-place write into the array the `collar` getter handed out *)
  Definition d_api (op : dop ang) : Prop := match op with DCollarX false _ => False | _ => True end.

  Lemma dstep_coherent h op : d_api op -> coherent h -> coherent (fst (dstep dir h op)).
  Proof.
    intros Ha H. destruct op as [c|s|ds|subs|[|] x]; simpl; try (left; reflexivity); try exact H; try contradiction.
    - right. simpl. rewrite (d_locations_coherent h H). reflexivity.
    - destruct subs as [|o r]; [exact H|]. right. simpl. rewrite (d_locations_coherent h H). reflexivity.
  Qed.

  (* states that agree on collar, surveys and data and are both coherent behave alike *)
  Definition same_inputs (a b : dhole ang) : Prop :=
    d_collar a = d_collar b /\ d_surveys a = d_surveys b /\ d_data a = d_data b.

  Lemma dstep_same a b op : coherent a -> coherent b -> same_inputs a b ->
    snd (dstep dir a op) = snd (dstep dir b op) /\ same_inputs (fst (dstep dir a op)) (fst (dstep dir b op)).
  Proof.
    intros Ha Hb [Ec [Es Ed]]. destruct op as [c|s|ds|subs|[|] x]; simpl.
    - split; [reflexivity|]. repeat split; simpl; assumption.
    - split; [reflexivity|]. repeat split; simpl; assumption.
    - rewrite (d_locations_coherent a Ha), (d_locations_coherent b Hb), Ec, Es. split; [reflexivity|].
      repeat split; simpl; assumption.
    - rewrite (d_locations_coherent a Ha), (d_locations_coherent b Hb), Ec, Es, Ed. split; [reflexivity|].
      repeat split; reflexivity.
    - split; [reflexivity|]. repeat split; assumption.
    - split; [reflexivity|]. repeat split; simpl; congruence.
  Qed.


  Lemma drun_spec_eq : forall ops a b, Forall d_api ops -> coherent a -> coherent b -> same_inputs a b ->
    snd (drun dir a ops) = snd (drun_spec dir b ops).
  Proof.
    induction ops as [|op r IH]; intros a b Hapi Ha Hb Hs; [reflexivity|]. inversion Hapi as [|? ? Hop Hr]; subst. simpl.
    destruct (dstep dir a op) as [a1 oa] eqn:Ea. destruct (dstep_spec dir b op) as [b1 ob] eqn:Eb.
    assert (Hb0 : coherent {| d_collar := d_collar b; d_surveys := d_surveys b; d_locs := None; d_data := d_data b |})
      by (left; reflexivity).
    assert (Hs0 : same_inputs a {| d_collar := d_collar b; d_surveys := d_surveys b; d_locs := None; d_data := d_data b |})
      by (destruct Hs as [A [B C]]; repeat split; assumption).
    destruct (dstep_same a _ op Ha Hb0 Hs0) as [Eo Hs1]. unfold dstep_spec in Eb. rewrite Ea, Eb in Eo, Hs1. simpl in Eo, Hs1.
    assert (Ha1 : coherent a1) by (pose proof (dstep_coherent a op Hop Ha) as X; rewrite Ea in X; exact X).
    assert (Hb1 : coherent b1) by (pose proof (dstep_coherent _ op Hop Hb0) as X; rewrite Eb in X; exact X).
    specialize (IH a1 b1 Hr Ha1 Hb1 Hs1).
    destruct (drun dir a1 r) as [a2 osa]. destruct (drun_spec dir b1 r) as [b2 osb]. simpl in *.
    subst oa. rewrite IH. reflexivity.
  Qed.

  Lemma drun_coherent : forall ops h, Forall d_api ops -> coherent h -> coherent (fst (drun dir h ops)).
  Proof.
    induction ops as [|op r IH]; intros h Hapi H; [exact H|]. inversion Hapi as [|? ? Hop Hr]; subst. simpl.
    destruct (dstep dir h op) as [h1 o] eqn:E. pose proof (dstep_coherent h op Hop H) as H1. rewrite E in H1. simpl in H1.
    specialize (IH h1 Hr H1). destruct (drun dir h1 r) as [h2 os]. exact IH.
  Qed.

  (* what a query / a call sees after any history: the path of the CURRENT collar and surveys *)
  Lemma dstep_current h ds subs : coherent h ->
    snd (dstep dir h (DQuery ds)) = Some (OQuery (map (desurvey dir (d_collar h) (d_surveys h)) ds))
    /\ d_data (fst (dstep dir h (DCall subs))) = hcall (pos_of dir (d_collar h) (d_surveys h)) (d_data h) subs.
  Proof.
    intros H. simpl. rewrite (d_locations_coherent h H). split; reflexivity.
  Qed.
End Cache.
