(* Proofs about Model/Parts.v (property C17): Curve.cells from parts, Curve.parts from cells. *)
From GV Require Import Prelude.Base Model.GridIndex Model.Parts.

(* ================= cells from parts ================= *)
Lemma insert_uniq_In x l p : In p (insert_uniq x l) <-> p = x \/ In p l.
Proof.
  induction l as [|y r IH]; simpl; [intuition|].
  destruct (Z.ltb x y) eqn:E1; [simpl; intuition|].
  destruct (Z.eqb x y) eqn:E2.
  - apply Z.eqb_eq in E2. subst. simpl. intuition.
  - simpl. rewrite IH. intuition.
Qed.

Lemma uniq_In l p : In p (uniq l) <-> In p l.
Proof.
  induction l as [|x r IH]; simpl; [reflexivity|]. rewrite insert_uniq_In, IH. intuition.
Qed.

(* strictly increasing, bounded below by lo *)
Fixpoint incr (lo : nat) (l : list nat) : Prop :=
  match l with [] => True | a :: r => lo <= a /\ incr (S a) r end.

Lemma incr_In lo l c : incr lo l -> In c l -> lo <= c.
Proof.
  revert lo; induction l as [|a r IH]; intros lo H Hc; [contradiction|].
  destruct H as [H1 H2]. destruct Hc as [->|Hc]; [exact H1|]. specialize (IH _ H2 Hc). lia.
Qed.

Lemma incr_weaken lo lo' l : lo' <= lo -> incr lo l -> incr lo' l.
Proof. destruct l; simpl; [trivial|]. intros H [H1 H2]. split; [lia|exact H2]. Qed.

Lemma pos_from_incr : forall l k p, incr k (pos_from k l p).
Proof.
  induction l as [|q r IH]; intros k p; simpl; [exact I|].
  destruct (Z.eqb q p).
  - simpl. split; [lia|apply IH].
  - apply incr_weaken with (lo := S k); [lia|apply IH].
Qed.

Lemma pos_from_In : forall l k p i, In i (pos_from k l p) <-> k <= i /\ nth_error l (i - k) = Some p.
Proof.
  induction l as [|q r IH]; intros k p i; simpl.
  - split; [contradiction|]. intros [_ H]. destruct (i - k); discriminate.
  - destruct (Z.eqb q p) eqn:E.
    + apply Z.eqb_eq in E. subst q. simpl. rewrite IH. split.
      * intros [<-|[H1 H2]].
        -- split; [lia|]. rewrite Nat.sub_diag. reflexivity.
        -- split; [lia|]. replace (i - k) with (S (i - S k)) by lia. exact H2.
      * intros [H1 H2]. destruct (Nat.eq_dec k i) as [->|Hne]; [left; reflexivity|right].
        split; [lia|]. replace (i - k) with (S (i - S k)) in H2 by lia. exact H2.
    + rewrite IH. split.
      * intros [H1 H2]. split; [lia|]. replace (i - k) with (S (i - S k)) by lia. exact H2.
      * intros [H1 H2]. destruct (Nat.eq_dec k i) as [->|Hne].
        -- rewrite Nat.sub_diag in H2. simpl in H2. inversion H2; subst. rewrite Z.eqb_refl in E. discriminate.
        -- split; [lia|]. replace (i - k) with (S (i - S k)) in H2 by lia. exact H2.
Qed.

Lemma pairs_In_both : forall l a b, In (a, b) (pairs l) -> In a l /\ In b l.
Proof.
  induction l as [|x r IH]; intros a b H; [contradiction|].
  destruct r as [|y r']; [contradiction|].
  change (pairs (x :: y :: r')) with ((x, y) :: pairs (y :: r')) in H.
  destruct H as [E|H].
  - inversion E; subst. split; [left; reflexivity|right; left; reflexivity].
  - destruct (IH a b H) as [Ha Hb]. split; right; assumption.
Qed.

(* the pairs of an increasing list are exactly its pairs of neighbours *)
Lemma pairs_neighbours : forall l lo a b, incr lo l ->
  (In (a, b) (pairs l) <-> In a l /\ In b l /\ a < b /\ forall c, In c l -> ~ (a < c < b)).
Proof.
  induction l as [|x r IH]; intros lo a b Hinc.
  - simpl. intuition.
  - destruct r as [|y r'].
    + simpl. split; [contradiction|]. intros [[<-|[]] [[<-|[]] [H _]]]. lia.
    + change (pairs (x :: y :: r')) with ((x, y) :: pairs (y :: r')).
      destruct Hinc as [Hlo Hinc]. pose proof Hinc as Hinc'. destruct Hinc' as [Hxy Hr'].
      specialize (IH (S x) a b Hinc). split.
      * intros [E|H].
        -- inversion E; subst. split; [left; reflexivity|]. split; [right; left; reflexivity|]. split; [lia|].
           intros c [<-|Hc]; [lia|]. pose proof (incr_In _ _ _ Hinc Hc). intros [H1 H2].
           destruct Hc as [<-|Hc]; [lia|]. pose proof (incr_In _ _ _ Hr' Hc). lia.
        -- apply IH in H. destruct H as [Ha [Hb [Hlt Hn]]].
           split; [right; exact Ha|]. split; [right; exact Hb|]. split; [exact Hlt|].
           intros c [<-|Hc]; [|apply Hn; exact Hc]. pose proof (incr_In _ _ _ Hinc Ha). lia.
      * intros [Ha [Hb [Hlt Hn]]]. destruct Ha as [<-|Ha].
        -- destruct Hb as [<-|Hb]; [lia|]. destruct Hb as [<-|Hb]; [left; reflexivity|].
           exfalso. pose proof (incr_In _ _ _ Hr' Hb). apply (Hn y); [right; left; reflexivity|lia].
        -- right. apply IH. split; [exact Ha|].
           destruct Hb as [<-|Hb]; [pose proof (incr_In _ _ _ Hinc Ha); lia|].
           split; [exact Hb|]. split; [exact Hlt|]. intros c Hc. apply Hn. right. exact Hc.
Qed.

(* a segment joins a and b exactly when they carry the same part label and no vertex between them does *)
Lemma cells_of_parts_spec parts a b :
  In (a, b) (cells_of_parts parts) <->
  a < b /\ exists p, nth_error parts a = Some p /\ nth_error parts b = Some p
                  /\ forall c, a < c < b -> nth_error parts c <> Some p.
Proof.
  unfold cells_of_parts. rewrite in_flat_map. split.
  - intros [p [_ H]]. apply (pairs_neighbours _ 0 a b (pos_from_incr parts 0 p)) in H.
    destruct H as [Ha [Hb [Hlt Hn]]].
    apply pos_from_In in Ha. apply pos_from_In in Hb. rewrite Nat.sub_0_r in Ha, Hb.
    split; [exact Hlt|]. exists p. split; [apply Ha|]. split; [apply Hb|].
    intros c Hc Hp. apply (Hn c); [|exact Hc]. apply pos_from_In. rewrite Nat.sub_0_r. split; [lia|exact Hp].
  - intros [Hlt [p [Ha [Hb Hn]]]]. exists p. split.
    + apply uniq_In. eapply nth_error_In. exact Ha.
    + apply (pairs_neighbours _ 0 a b (pos_from_incr parts 0 p)).
      split; [apply pos_from_In; rewrite Nat.sub_0_r; split; [lia|exact Ha]|].
      split; [apply pos_from_In; rewrite Nat.sub_0_r; split; [lia|exact Hb]|].
      split; [exact Hlt|]. intros c Hc Hbetween. apply pos_from_In in Hc. rewrite Nat.sub_0_r in Hc.
      apply (Hn c Hbetween). apply Hc.
Qed.

(* ================= parts from cells ================= *)
Lemma upd_length : forall l i v, length (upd l i v) = length l.
Proof. induction l as [|x r IH]; intros [|i] v; simpl; try reflexivity. rewrite IH. reflexivity. Qed.

Lemma nth_error_upd_same : forall l i v, i < length l -> nth_error (upd l i v) i = Some v.
Proof.
  induction l as [|x r IH]; intros [|i] v H; simpl in *; try lia; [reflexivity|]. apply IH. lia.
Qed.

Lemma nth_error_upd_other : forall l i j v, i <> j -> nth_error (upd l i v) j = nth_error l j.
Proof.
  induction l as [|x r IH]; intros [|i] [|j] v H; simpl; try reflexivity; try lia. apply IH. lia.
Qed.

Fixpoint last_of (a : nat) (rest : list nat) : nat :=
  match rest with [] => a | b :: r => last_of b r end.

Lemma last_of_In a rest : In (last_of a rest) (a :: rest).
Proof.
  revert a; induction rest as [|b r IH]; intros a; simpl; [left; reflexivity|]. right. apply IH.
Qed.

(* the segments inside a chain that was entered at vertex a (already labelled) *)
Lemma loop_chain_tail : forall rest a count parts,
  a < length parts -> Forall (fun v => v < length parts) rest -> nth_error parts a = Some count ->
  exists parts1, length parts1 = length parts
    /\ (forall v, In v (a :: rest) -> nth_error parts1 v = Some count)
    /\ (forall v, ~ In v (a :: rest) -> nth_error parts1 v = nth_error parts v)
    /\ forall more, pfc_loop a count parts (pairs (a :: rest) ++ more) = pfc_loop (last_of a rest) count parts1 more.
Proof.
  induction rest as [|b rest IH]; intros a count parts Ha Hrest Hlab.
  - exists parts. split; [reflexivity|]. split; [intros v [<-|[]]; exact Hlab|]. split; [reflexivity|].
    intros more. reflexivity.
  - inversion Hrest as [|? ? Hb Hrest']; subst.
    set (parts2 := upd (upd parts a count) b count).
    assert (L2 : length parts2 = length parts) by (unfold parts2; rewrite !upd_length; reflexivity).
    destruct (IH b count parts2) as [parts1 [L1 [Hin [Hout Hloop]]]].
    + rewrite L2. exact Hb.
    + rewrite L2. exact Hrest'.
    + unfold parts2. apply nth_error_upd_same. rewrite upd_length. exact Hb.
    + exists parts1. split; [congruence|]. split; [|split].
      * intros v Hv. destruct (in_dec Nat.eq_dec v (b :: rest)) as [Hi|Hni]; [apply Hin; exact Hi|].
        destruct Hv as [<-|Hv]; [|contradiction].
        rewrite Hout by exact Hni. unfold parts2.
        rewrite nth_error_upd_other by (intros E; apply Hni; left; exact E).
        apply nth_error_upd_same. exact Ha.
      * intros v Hv. rewrite Hout by (intros H; apply Hv; right; exact H).
        unfold parts2. rewrite !nth_error_upd_other; [reflexivity| |]; intros E; apply Hv; subst; simpl; auto.
      * intros more. change (pairs (a :: b :: rest)) with ((a, b) :: pairs (b :: rest)).
        simpl app. simpl pfc_loop. rewrite Nat.eqb_refl.
        assert (Ea : Nat.ltb a (length parts) = true) by (apply Nat.ltb_lt; exact Ha).
        assert (Eb : Nat.ltb b (length parts) = true) by (apply Nat.ltb_lt; exact Hb).
        rewrite Ea, Eb. simpl andb. cbv iota. apply Hloop.
Qed.

Lemma NoDup_app_parts {A} (l l' : list A) :
  NoDup (l ++ l') -> NoDup l /\ NoDup l' /\ forall x, In x l -> ~ In x l'.
Proof.
  induction l as [|x r IH]; simpl; intros H.
  - split; [constructor|]. split; [exact H|]. intros x [].
  - inversion H as [|? ? Hnin Hnd]; subst. destruct (IH Hnd) as [H1 [H2 H3]].
    split; [constructor; [intros Hx; apply Hnin; apply in_or_app; left; exact Hx|exact H1]|].
    split; [exact H2|]. intros y [<-|Hy]; [intros Hy; apply Hnin; apply in_or_app; right; exact Hy|apply H3; exact Hy].
Qed.

(* all later chains: each starts at a vertex different from where the previous one ended -> a new label *)
Lemma loop_chains : forall chains prev count parts,
  Forall (fun c => 2 <= length c) chains -> NoDup (concat chains) ->
  Forall (fun v => v < length parts) (concat chains) -> ~ In prev (concat chains) ->
  exists parts', pfc_loop prev count parts (flat_map pairs chains) = Ok parts'
    /\ length parts' = length parts
    /\ (forall ci c v, nth_error chains ci = Some c -> In v c -> nth_error parts' v = Some (count + 1 + ci))
    /\ (forall v, ~ In v (concat chains) -> nth_error parts' v = nth_error parts v).
Proof.
  induction chains as [|c chains IH]; intros prev count parts Hlen Hnd Hrng Hprev.
  - exists parts. simpl. split; [reflexivity|]. split; [reflexivity|]. split; [|reflexivity].
    intros [|ci] c v H; discriminate.
  - inversion Hlen as [|? ? Hc Hlen']; subst.
    destruct c as [|w0 [|w1 rest]]; simpl in Hc; try lia. clear Hc.
    change (concat ((w0 :: w1 :: rest) :: chains)) with ((w0 :: w1 :: rest) ++ concat chains) in *.
    apply NoDup_app_parts in Hnd. destruct Hnd as [Ndc [Ndr Hdisj]].
    apply Forall_app in Hrng. destruct Hrng as [Rc Rr].
    inversion Rc as [|? ? R0 Rc1]; subst. inversion Rc1 as [|? ? R1 Rrest]; subst.
    inversion Ndc as [|? ? N0 Ndc1]; subst.
    assert (Hw01 : w0 <> w1) by (intros E; apply N0; left; symmetry; exact E).
    assert (Hpw0 : w0 <> prev) by (intros E; apply Hprev; apply in_or_app; left; left; exact E).
    set (parts2 := upd (upd parts w0 (S count)) w1 (S count)).
    assert (L2 : length parts2 = length parts) by (unfold parts2; rewrite !upd_length; reflexivity).
    destruct (loop_chain_tail rest w1 (S count) parts2) as [parts1 [L1 [Hin [Hout Hloop]]]].
    + rewrite L2. exact R1.
    + rewrite L2. exact Rrest.
    + unfold parts2. apply nth_error_upd_same. rewrite upd_length. exact R1.
    + destruct (IH (last_of w1 rest) (S count) parts1 Hlen' Ndr) as [parts' [Hrun [L' [Hlab Hkeep]]]].
      * rewrite L1, L2. exact Rr.
      * apply Hdisj. right. apply last_of_In.
      * exists parts'. split; [|split; [congruence|split]].
        -- change (flat_map pairs ((w0 :: w1 :: rest) :: chains))
             with ((w0, w1) :: (pairs (w1 :: rest) ++ flat_map pairs chains)).
           simpl pfc_loop.
           assert (E0 : Nat.eqb w0 prev = false) by (apply Nat.eqb_neq; exact Hpw0).
           assert (Ea : Nat.ltb w0 (length parts) = true) by (apply Nat.ltb_lt; exact R0).
           assert (Eb : Nat.ltb w1 (length parts) = true) by (apply Nat.ltb_lt; exact R1).
           rewrite E0, Ea, Eb. simpl andb. cbv iota. fold parts2. rewrite Hloop. exact Hrun.
        -- intros [|ci] c v Hci Hv; simpl in Hci.
           ++ inversion Hci; subst c. rewrite Hkeep by (apply Hdisj; exact Hv).
              replace (count + 1 + 0) with (S count) by lia.
              destruct Hv as [<-|Hv]; [|apply Hin; exact Hv].
              rewrite Hout by (intros H; apply N0; exact H).
              unfold parts2. rewrite nth_error_upd_other by (intros E; apply Hw01; symmetry; exact E).
              apply nth_error_upd_same. exact R0.
           ++ rewrite (Hlab ci c v Hci Hv). f_equal. lia.
        -- intros v Hv. rewrite Hkeep by (intros H; apply Hv; apply in_or_app; right; exact H).
           rewrite Hout by (intros H; apply Hv; apply in_or_app; left; right; exact H).
           unfold parts2. rewrite !nth_error_upd_other; [reflexivity| |];
             intros E; apply Hv; apply in_or_app; left; subst; simpl; auto.
Qed.

Lemma nth_error_repeat {A} (x : A) n i : i < n -> nth_error (repeat x n) i = Some x.
Proof. revert i; induction n as [|n IH]; intros [|i] H; simpl; try lia; [reflexivity|]. apply IH. lia. Qed.

(* labels computed from chain-ordered cells: every vertex of chain number ci gets label ci; unused vertices get 0 *)
Lemma parts_of_chains nv chains : chains_ok nv chains ->
  exists parts, parts_of_cells nv (cells_of_chains chains) = Ok parts
    /\ length parts = nv
    /\ (forall ci c v, nth_error chains ci = Some c -> In v c -> nth_error parts v = Some ci)
    /\ (forall v, v < nv -> ~ In v (concat chains) -> nth_error parts v = Some 0).
Proof.
  intros [Hlen [Hnd Hrng]]. destruct chains as [|c chains].
  - exists (repeat 0 nv). simpl. split; [reflexivity|]. split; [apply repeat_length|]. split.
    + intros [|ci] c v H; discriminate.
    + intros v Hv _. apply nth_error_repeat. exact Hv.
  - inversion Hlen as [|? ? Hc Hlen']; subst.
    destruct c as [|w0 [|w1 rest]]; simpl in Hc; try lia. clear Hc.
    change (concat ((w0 :: w1 :: rest) :: chains)) with ((w0 :: w1 :: rest) ++ concat chains) in *.
    apply NoDup_app_parts in Hnd. destruct Hnd as [Ndc [Ndr Hdisj]].
    apply Forall_app in Hrng. destruct Hrng as [Rc Rr].
    inversion Rc as [|? ? R0 Rc1]; subst. inversion Rc1 as [|? ? R1 Rrest]; subst.
    inversion Ndc as [|? ? N0 Ndc1]; subst.
    set (parts0 := repeat 0 nv).
    assert (L0 : length parts0 = nv) by apply repeat_length.
    destruct (loop_chain_tail rest w1 0 parts0) as [parts1 [L1 [Hin [Hout Hloop]]]].
    + rewrite L0. exact R1.
    + rewrite L0. exact Rrest.
    + apply nth_error_repeat. exact R1.
    + destruct (loop_chains chains (last_of w1 rest) 0 parts1 Hlen' Ndr) as [parts' [Hrun [L' [Hlab Hkeep]]]].
      * rewrite L1, L0. exact Rr.
      * apply Hdisj. right. apply last_of_In.
      * exists parts'. split; [|split; [congruence|split]].
        -- unfold cells_of_chains.
           change (flat_map pairs ((w0 :: w1 :: rest) :: chains))
             with ((w0, w1) :: (pairs (w1 :: rest) ++ flat_map pairs chains)).
           unfold parts_of_cells. fold parts0. rewrite Hloop. exact Hrun.
        -- intros [|ci] c v Hci Hv; simpl in Hci.
           ++ inversion Hci; subst c. rewrite Hkeep by (apply Hdisj; exact Hv).
              destruct Hv as [<-|Hv]; [|apply Hin; exact Hv].
              rewrite Hout by (intros H; apply N0; exact H). apply nth_error_repeat. exact R0.
           ++ rewrite (Hlab ci c v Hci Hv). f_equal.
        -- intros v Hv Hnot. rewrite Hkeep by (intros H; apply Hnot; apply in_or_app; right; exact H).
           rewrite Hout by (intros H; apply Hnot; apply in_or_app; left; right; exact H).
           apply nth_error_repeat. exact Hv.
Qed.

(* ---------------- chains are the connected components ---------------- *)
Lemma conn_mono cells cells' v w : incl cells cells' -> conn cells v w -> conn cells' v w.
Proof.
  intros Hi H. induction H.
  - apply conn_refl.
  - apply conn_edge. apply Hi. assumption.
  - apply conn_sym. assumption.
  - eapply conn_trans; eassumption.
Qed.

Lemma chain_connected : forall rest a v, In v (a :: rest) -> conn (pairs (a :: rest)) a v.
Proof.
  induction rest as [|b rest IH]; intros a v Hv.
  - destruct Hv as [<-|[]]. apply conn_refl.
  - change (pairs (a :: b :: rest)) with ((a, b) :: pairs (b :: rest)).
    destruct Hv as [<-|Hv]; [apply conn_refl|].
    apply conn_trans with (v := b); [apply conn_edge; left; reflexivity|].
    apply conn_mono with (cells := pairs (b :: rest)); [intros x Hx; right; exact Hx|]. apply IH. exact Hv.
Qed.

Lemma chain_index_unique : forall (chains : list (list nat)) i j c1 c2 v,
  NoDup (concat chains) -> nth_error chains i = Some c1 -> nth_error chains j = Some c2 ->
  In v c1 -> In v c2 -> i = j.
Proof.
  induction chains as [|c chains IH]; intros i j c1 c2 v Hnd Hi Hj H1 H2; [destruct i; discriminate|].
  simpl in Hnd. apply NoDup_app_parts in Hnd. destruct Hnd as [_ [Ndr Hdisj]].
  destruct i as [|i], j as [|j]; simpl in Hi, Hj.
  - reflexivity.
  - inversion Hi; subst c1. exfalso. apply (Hdisj v H1). apply in_concat. exists c2. split; [|exact H2].
    eapply nth_error_In. exact Hj.
  - inversion Hj; subst c2. exfalso. apply (Hdisj v H2). apply in_concat. exists c1. split; [|exact H1].
    eapply nth_error_In. exact Hi.
  - f_equal. eapply IH; eassumption.
Qed.

Definition same_chain (chains : list (list nat)) (v w : nat) : Prop :=
  exists ci c, nth_error chains ci = Some c /\ In v c /\ In w c.

Lemma conn_same_chain chains v w : NoDup (concat chains) ->
  conn (cells_of_chains chains) v w -> v = w \/ same_chain chains v w.
Proof.
  intros Hnd H. induction H as [v|a b Hab|v w H IH|u v w H1 IH1 H2 IH2].
  - left. reflexivity.
  - right. unfold cells_of_chains in Hab. apply in_flat_map in Hab. destruct Hab as [c [Hc Hp]].
    apply In_nth_error in Hc. destruct Hc as [ci Hci]. apply pairs_In_both in Hp.
    exists ci, c. split; [exact Hci|exact Hp].
  - destruct IH as [->|[ci [c [Hci [Hv Hw]]]]]; [left; reflexivity|right]. exists ci, c. auto.
  - destruct IH1 as [->|[ci [c [Hci [Hu Hv]]]]]; [exact IH2|].
    destruct IH2 as [<-|[cj [c' [Hcj [Hv' Hw]]]]]; [right; exists ci, c; auto|].
    assert (ci = cj) by (eapply chain_index_unique; eassumption). subst cj.
    rewrite Hci in Hcj. inversion Hcj; subst c'. right. exists ci, c. auto.
Qed.

Lemma same_chain_conn chains v w : Forall (fun c => 2 <= length c) chains ->
  same_chain chains v w -> conn (cells_of_chains chains) v w.
Proof.
  intros Hlen [ci [c [Hci [Hv Hw]]]].
  assert (Hin : In c chains) by (eapply nth_error_In; exact Hci).
  assert (Hincl : incl (pairs c) (cells_of_chains chains)).
  { intros x Hx. unfold cells_of_chains. apply in_flat_map. exists c. split; assumption. }
  destruct c as [|a rest]; [contradiction|].
  apply conn_trans with (v := a).
  - apply conn_sym. apply conn_mono with (cells := pairs (a :: rest)); [exact Hincl|]. apply chain_connected. exact Hv.
  - apply conn_mono with (cells := pairs (a :: rest)); [exact Hincl|]. apply chain_connected. exact Hw.
Qed.

(* the partial theorem: for chain-ordered cells, on the vertices that belong to a segment,
   equal part label <-> connected *)
Lemma parts_agree_with_connectivity nv chains : chains_ok nv chains ->
  exists parts, parts_of_cells nv (cells_of_chains chains) = Ok parts /\ length parts = nv
    /\ forall v w, In v (concat chains) -> In w (concat chains) ->
         (nth_error parts v = nth_error parts w <-> conn (cells_of_chains chains) v w).
Proof.
  intros Hok. destruct (parts_of_chains nv chains Hok) as [parts [Hrun [Hlen [Hlab _]]]].
  destruct Hok as [Hl [Hnd Hrng]].
  exists parts. split; [exact Hrun|]. split; [exact Hlen|].
  intros v w Hv Hw.
  apply in_concat in Hv. destruct Hv as [c1 [Hc1 Hv]]. apply In_nth_error in Hc1. destruct Hc1 as [i Hi].
  apply in_concat in Hw. destruct Hw as [c2 [Hc2 Hw]]. apply In_nth_error in Hc2. destruct Hc2 as [j Hj].
  rewrite (Hlab i c1 v Hi Hv), (Hlab j c2 w Hj Hw). split.
  - intros E. inversion E; subst j. rewrite Hi in Hj. inversion Hj; subst c2.
    apply same_chain_conn; [exact Hl|]. exists i, c1. auto.
  - intros Hc. apply conn_same_chain in Hc; [|exact Hnd]. destruct Hc as [<-|[k [c [Hk [Hv' Hw']]]]].
    + f_equal. eapply chain_index_unique; eassumption.
    + assert (i = k) by (eapply chain_index_unique; eassumption).
      assert (j = k) by (eapply chain_index_unique; eassumption). subst. reflexivity.
Qed.

(* ---------------- refutations of the full statement ---------------- *)
(* unordered cells: 0-1-2 is one connected polyline, listed as [(1,2); (0,1)] -> vertices 1 and 2 get different labels *)
Lemma unordered_witness :
  parts_of_cells 3 [(1, 2); (0, 1)] = Ok [1; 1; 0] /\ conn [(1, 2); (0, 1)] 1 2.
Proof. split; [reflexivity|]. apply conn_edge. left. reflexivity. Qed.

(* a vertex that belongs to no segment shares label 0 with the first polyline *)
Lemma unused_witness :
  parts_of_cells 3 [(1, 2)] = Ok [0; 0; 0] /\ ~ used [(1, 2)] 0 /\ used [(1, 2)] 1.
Proof.
  split; [reflexivity|]. split.
  - intros [w [[H|[]]|[H|[]]]]; inversion H.
  - exists 2. left. left. reflexivity.
Qed.

Lemma conn_used cells v w : conn cells v w -> v = w \/ (used cells v /\ used cells w).
Proof.
  intros H. induction H as [v|a b Hab|v w H IH|u v w H1 IH1 H2 IH2].
  - left. reflexivity.
  - right. split; [exists b; left; exact Hab|exists a; right; exact Hab].
  - destruct IH as [->|[A B]]; [left; reflexivity|right; split; assumption].
  - destruct IH1 as [->|[A B]]; [exact IH2|]. destruct IH2 as [<-|[C D]]; right; split; assumption.
Qed.

(* the API round trip parts -> cells -> parts loses a single-vertex part: it comes back merged with part 0 *)
Lemma roundtrip_witness :
  cells_of_parts [0; 0; 1; 2; 2]%Z = [(0, 1); (3, 4)]
  /\ parts_of_cells 5 (cells_of_parts [0; 0; 1; 2; 2]%Z) = Ok [0; 0; 0; 1; 1].
Proof. split; reflexivity. Qed.
