(* Proofs about Model/GridIndex.v (property C17): index layout of meshgrid+ravel, centre formulas, cache coherence. *)
From GV Require Import Prelude.Base Model.GridIndex.
From Coq Require Import QArith.
Close Scope Q_scope.

(* ---------------- generic list lemmas ---------------- *)
Lemma flat_map_length_uniform {A B} (f : A -> list B) m l :
  (forall a, In a l -> length (f a) = m) -> length (flat_map f l) = length l * m.
Proof.
  induction l as [|x r IH]; intros H; simpl; [reflexivity|].
  rewrite app_length, H by (left; reflexivity). rewrite IH; [reflexivity|].
  intros a Ha. apply H. right. exact Ha.
Qed.

(* element k of block i of a flat_map whose blocks all have length m *)
Lemma nth_error_flat_map_uniform {A B} (f : A -> list B) m : forall l i k x,
  (forall a, In a l -> length (f a) = m) ->
  nth_error l i = Some x -> k < m ->
  nth_error (flat_map f l) (i * m + k) = nth_error (f x) k.
Proof.
  induction l as [|y r IH]; intros [|i] k x H Hi Hk; simpl in Hi; try discriminate.
  - inversion Hi; subst. simpl. apply nth_error_app1. rewrite H by (left; reflexivity). exact Hk.
  - simpl flat_map. rewrite nth_error_app2 by (rewrite H by (left; reflexivity); simpl; lia).
    rewrite H by (left; reflexivity).
    replace (S i * m + k - m) with (i * m + k) by (simpl; lia).
    apply IH; try assumption. intros a Ha. apply H. right. exact Ha.
Qed.

Lemma nth_error_map2 {A B C} (f : A -> B -> C) : forall l1 l2 i a b,
  nth_error l1 i = Some a -> nth_error l2 i = Some b -> nth_error (map2 f l1 l2) i = Some (f a b).
Proof.
  induction l1 as [|x r IH]; intros [|y r2] [|i] a b H1 H2; simpl in *; try discriminate.
  - inversion H1; inversion H2; subst. reflexivity.
  - apply IH; assumption.
Qed.

Lemma map2_length {A B C} (f : A -> B -> C) : forall l1 l2, length (map2 f l1 l2) = Nat.min (length l1) (length l2).
Proof. induction l1 as [|x r IH]; intros [|y r2]; simpl; try reflexivity. rewrite IH. reflexivity. Qed.

(* ---------------- meshgrid + ravel ---------------- *)
Lemma mesh3_length cu cv cz : length (mesh3 cu cv cz) = length cv * (length cu * length cz).
Proof.
  unfold mesh3. apply flat_map_length_uniform. intros v _.
  apply flat_map_length_uniform. intros u _. apply map_length.
Qed.

Lemma mesh2_length cu cv : length (mesh2 cu cv) = length cv * length cu.
Proof. unfold mesh2. apply flat_map_length_uniform. intros v _. apply map_length. Qed.

(* cell (i, j, k) sits at k + i*nZ + j*nU*nZ *)
Lemma mesh3_index cu cv cz i j k u v z :
  nth_error cu i = Some u -> nth_error cv j = Some v -> nth_error cz k = Some z ->
  nth_error (mesh3 cu cv cz) (k + i * length cz + j * length cu * length cz) = Some (u, v, z).
Proof.
  intros Hu Hv Hz.
  assert (Hi : i < length cu) by (apply nth_error_Some; congruence).
  assert (Hk : k < length cz) by (apply nth_error_Some; congruence).
  unfold mesh3.
  replace (k + i * length cz + j * length cu * length cz) with (j * (length cu * length cz) + (i * length cz + k)) by lia.
  rewrite (nth_error_flat_map_uniform _ (length cu * length cz)) with (x := v); try assumption.
  - rewrite (nth_error_flat_map_uniform _ (length cz)) with (x := u); try assumption.
    + apply map_nth_error. exact Hz.
    + intros a _. apply map_length.
  - intros a _. apply flat_map_length_uniform. intros b _. apply map_length.
  - nia.
Qed.

(* cell (i, j) sits at i + j*nU *)
Lemma mesh2_index cu cv i j u v :
  nth_error cu i = Some u -> nth_error cv j = Some v ->
  nth_error (mesh2 cu cv) (i + j * length cu) = Some (u, v, 0%Q).
Proof.
  intros Hu Hv.
  assert (Hi : i < length cu) by (apply nth_error_Some; congruence).
  unfold mesh2. replace (i + j * length cu) with (j * length cu + i) by lia.
  rewrite (nth_error_flat_map_uniform _ (length cu)) with (x := v); try assumption.
  - apply (map_nth_error (fun u0 => (u0, v, 0%Q))). exact Hu.
  - intros a _. apply map_length.
Qed.

(* ---------------- lengths of the centre vectors ---------------- *)
Lemma diffs_length : forall d, length (diffs d) = length d - 1.
Proof.
  induction d as [|a r IH]; [reflexivity|]. destruct r as [|b r']; [reflexivity|].
  change (diffs (a :: b :: r')) with ((b - a)%Q :: diffs (b :: r')). simpl length in *. rewrite IH. lia.
Qed.

Lemma cumsum_from_length : forall l acc, length (cumsum_from acc l) = length l.
Proof. induction l as [|x r IH]; intros acc; simpl; [reflexivity|]. rewrite IH. reflexivity. Qed.

Lemma centres0_length sz : length (centres0 sz) = length sz.
Proof. unfold centres0, cumsum. rewrite map2_length, cumsum_from_length. apply Nat.min_id. Qed.

Lemma centres_length d : length (centres d) = length d - 1.
Proof.
  destruct d as [|d0 r]; [reflexivity|]. unfold centres. rewrite map_length, centres0_length. apply diffs_length.
Qed.

Lemma centres_old_length d : length (centres_old d) = length d - 1.
Proof. unfold centres_old. rewrite centres0_length. apply diffs_length. Qed.

Lemma g_centres_length n s : length (g_centres n s) = n.
Proof. unfold g_centres, cumsum. rewrite map_length, cumsum_from_length. apply repeat_length. Qed.

(* ---------------- centre formulas ---------------- *)
(* cumsum(d[1:] - d[:-1])[i] = d[i+1] - d[0] *)
Lemma cumsum_diffs : forall r a acc i b c,
  nth_error r i = Some b -> nth_error (cumsum_from acc (diffs (a :: r))) i = Some c -> (c == acc + b - a)%Q.
Proof.
  induction r as [|x r IH]; intros a acc i b c Hb Hc; [destruct i; discriminate|].
  change (diffs (a :: x :: r)) with ((x - a)%Q :: diffs (x :: r)) in Hc.
  destruct i as [|i]; simpl in Hb, Hc.
  - inversion Hb; inversion Hc; subst. ring.
  - specialize (IH x (acc + (x - a))%Q i b c Hb Hc). rewrite IH. ring.
Qed.

Lemma diffs_nth : forall d i a b,
  nth_error d i = Some a -> nth_error d (S i) = Some b -> nth_error (diffs d) i = Some (b - a)%Q.
Proof.
  induction d as [|x r IH]; intros i a b Ha Hb; [destruct i; discriminate|].
  destruct r as [|y r']; [destruct i; simpl in Hb; try discriminate; destruct i; discriminate|].
  change (diffs (x :: y :: r')) with ((y - x)%Q :: diffs (y :: r')).
  destruct i as [|i]; simpl in Ha, Hb |- *.
  - inversion Ha; inversion Hb; subst. reflexivity.
  - apply IH; assumption.
Qed.

(* pre-repair centre i = (d_i + d_{i+1})/2 - d_0 : measured from the first delimiter, not from the origin *)
Lemma centres_old_formula d i d0 a b :
  nth_error d 0 = Some d0 -> nth_error d i = Some a -> nth_error d (S i) = Some b ->
  exists c, nth_error (centres_old d) i = Some c /\ (c == (a + b) / 2 - d0)%Q.
Proof.
  intros H0 Ha Hb. destruct d as [|x r]; [discriminate|]. simpl in H0. inversion H0; subst x. simpl in Hb.
  assert (Hlen : i < length (cumsum (diffs (d0 :: r)))).
  { unfold cumsum. rewrite cumsum_from_length, diffs_length. simpl.
    assert (i < length r) by (apply nth_error_Some; congruence). lia. }
  destruct (nth_error (cumsum (diffs (d0 :: r))) i) as [cs|] eqn:Hcs; [|apply nth_error_None in Hcs; lia].
  exists (cs - (b - a) / 2)%Q. split.
  - unfold centres_old, centres0. apply (nth_error_map2 (fun c s => (c - s / 2)%Q)); [exact Hcs|]. apply diffs_nth; assumption.
  - unfold cumsum in Hcs. rewrite (cumsum_diffs r d0 0%Q i b cs Hb Hcs). field.
Qed.

(* repaired centre i = (d_i + d_{i+1})/2 : the mid point of its two delimiters, relative to the origin *)
Lemma centres_formula d i a b :
  nth_error d i = Some a -> nth_error d (S i) = Some b ->
  exists c, nth_error (centres d) i = Some c /\ (c == (a + b) / 2)%Q.
Proof.
  intros Ha Hb. destruct d as [|d0 r] eqn:Hd; [destruct i; discriminate|].
  destruct (centres_old_formula (d0 :: r) i d0 a b eq_refl Ha Hb) as [c [Hc Hq]].
  exists (d0 + c)%Q. split.
  - unfold centres. unfold centres_old in Hc. apply map_nth_error with (f := fun c0 => (d0 + c0)%Q). exact Hc.
  - rewrite Hq. ring.
Qed.

(* Grid2D: cumsum(ones(n)*s)[i] - s/2 = (i + 1/2) * s *)
Lemma cumsum_repeat : forall n s acc i c,
  nth_error (cumsum_from acc (repeat s n)) i = Some c -> (c == acc + inject_Z (Z.of_nat (S i)) * s)%Q.
Proof.
  induction n as [|n IH]; intros s acc i c H; [destruct i; discriminate|].
  destruct i as [|i]; simpl in H.
  - inversion H; subst. change (inject_Z (Z.of_nat 1)) with 1%Q. ring.
  - rewrite (IH s (acc + s)%Q i c H).
    replace (Z.of_nat (S (S i))) with (Z.of_nat (S i) + 1)%Z by lia.
    rewrite inject_Z_plus. change (inject_Z 1) with 1%Q. ring.
Qed.

Lemma g_centres_formula n s i : i < n ->
  exists c, nth_error (g_centres n s) i = Some c /\ (c == (inject_Z (Z.of_nat i) + 1 / 2) * s)%Q.
Proof.
  intros Hi.
  destruct (nth_error (cumsum (repeat s n)) i) as [cs|] eqn:Hcs;
    [|apply nth_error_None in Hcs; unfold cumsum in Hcs; rewrite cumsum_from_length, repeat_length in Hcs; lia].
  exists (cs - s / 2)%Q. split.
  - unfold g_centres. apply map_nth_error with (f := fun c => (c - s / 2)%Q). exact Hcs.
  - unfold cumsum in Hcs. rewrite (cumsum_repeat n s 0%Q i cs Hcs).
    replace (Z.of_nat (S i)) with (Z.of_nat i + 1)%Z by lia. rewrite inject_Z_plus. change (inject_Z 1) with 1%Q. field.
Qed.

(* ---------------- BlockModel / Grid2D centroids ---------------- *)
Section WithRot.
  Variable rotm : Q -> V3 -> V3.
  Variable dipm : Q -> V3 -> V3.

  Lemma bm_index b i j k u v z :
    nth_error (centres (bm_du b)) i = Some u -> nth_error (centres (bm_dv b)) j = Some v ->
    nth_error (centres (bm_dz b)) k = Some z ->
    let nU := length (bm_du b) - 1 in let nZ := length (bm_dz b) - 1 in
    nth_error (bm_compute rotm b) (k + i * nZ + j * nU * nZ)
    = Some (vadd (rotm (bm_rotation b) (u, v, z)) (origin_or_zero (bm_origin b))).
  Proof.
    intros Hu Hv Hz nU nZ. unfold bm_compute.
    apply map_nth_error with (f := bm_place rotm b (origin_or_zero (bm_origin b))).
    subst nU nZ. rewrite <- !centres_length. apply mesh3_index; assumption.
  Qed.

  Lemma bm_n_centroids b : length (bm_compute rotm b) = bm_n_cells b.
  Proof.
    unfold bm_compute, bm_n_cells. rewrite map_length, mesh3_length, !centres_length. lia.
  Qed.

  Lemma g_index g i j u v :
    nth_error (g_centres (g_nu g) (g_su g)) i = Some u -> nth_error (g_centres (g_nv g) (g_sv g)) j = Some v ->
    nth_error (g_compute rotm dipm g) (i + j * g_nu g)
    = Some (vadd (rotm (g_rotation g) (dipm (g_eff_dip g) (u, v, 0%Q))) (g_origin g)).
  Proof.
    intros Hu Hv. unfold g_compute. apply map_nth_error with (f := g_place rotm dipm g).
    rewrite <- (g_centres_length (g_nu g) (g_su g)) at 2. apply mesh2_index; assumption.
  Qed.

  Lemma g_n_centroids g : length (g_compute rotm dipm g) = g_n_cells g.
  Proof. unfold g_compute, g_n_cells. rewrite map_length, mesh2_length, !g_centres_length. lia. Qed.

  (* ---- cache coherence over histories: every read returns the centroids of the CURRENT attributes ---- *)
  Definition bm_coherent (b : blockmodel) : Prop := bm_cache b = None \/ bm_cache b = Some (bm_compute rotm b).

  (* API calls: everything except a successful in-place write into the array the `origin` getter handed out *)
  Definition bm_api (op : bm_op) : Prop := match op with BmOriginX false _ => False | _ => True end.

  Lemma bm_step_coherent b op : bm_api op -> bm_coherent b -> bm_coherent (fst (bm_step rotm b op)).
  Proof.
    intros Ha H. destruct op as [|o|a|d|d|d|[|] x]; simpl; try (left; reflexivity); try exact H; try contradiction.
    destruct (bm_cache b) eqn:E; simpl; [exact H|]. right. reflexivity.
  Qed.

  Lemma bm_step_read b : bm_coherent b ->
    snd (bm_step rotm b BmRead) = Some (bm_compute rotm b)
    /\ bm_compute rotm (fst (bm_step rotm b BmRead)) = bm_compute rotm b.
  Proof.
    intros [H|H]; simpl; rewrite H; simpl; split; reflexivity.
  Qed.

  Fixpoint bm_attrs_after (b : blockmodel) (ops : list bm_op) : blockmodel :=
    match ops with [] => b | op :: r => bm_attrs_after (fst (bm_step rotm b op)) r end.

  Lemma bm_run_fst b ops : fst (bm_run rotm b ops) = bm_attrs_after b ops.
  Proof.
    revert b; induction ops as [|op r IH]; intros b; simpl; [reflexivity|].
    destruct (bm_step rotm b op) as [b1 out] eqn:E1. destruct (bm_run rotm b1 r) as [b2 outs] eqn:E2. simpl.
    specialize (IH b1). rewrite E2 in IH. exact IH.
  Qed.

  Lemma bm_run_app b ops1 ops2 :
    snd (bm_run rotm b (ops1 ++ ops2))
    = snd (bm_run rotm b ops1) ++ snd (bm_run rotm (bm_attrs_after b ops1) ops2).
  Proof.
    revert b; induction ops1 as [|op r IH]; intros b; simpl; [reflexivity|].
    destruct (bm_step rotm b op) as [b1 out] eqn:E1. simpl.
    specialize (IH b1).
    destruct (bm_run rotm b1 (r ++ ops2)) as [b2 outs] eqn:E2.
    destruct (bm_run rotm b1 r) as [b3 outs3] eqn:E3. simpl in *.
    rewrite IH. destruct out; reflexivity.
  Qed.

  Lemma bm_attrs_after_coherent b ops : Forall bm_api ops -> bm_coherent b -> bm_coherent (bm_attrs_after b ops).
  Proof.
    revert b; induction ops as [|op r IH]; intros b Ha H; simpl; [exact H|]. inversion Ha; subst.
    apply IH; [assumption|]. apply bm_step_coherent; assumption.
  Qed.

  (* after any history of setter calls and reads, a read returns exactly the centroids computed from the
     attributes as they are now *)
  Lemma bm_history_read b ops : Forall bm_api ops -> bm_coherent b ->
    snd (bm_run rotm b (ops ++ [BmRead]))
    = snd (bm_run rotm b ops) ++ [bm_compute rotm (bm_attrs_after b ops)].
  Proof.
    intros Ha H. rewrite bm_run_app. f_equal.
    pose proof (bm_attrs_after_coherent b ops Ha H) as Hc.
    set (b' := bm_attrs_after b ops) in *.
    unfold bm_run, bm_step. destruct Hc as [Hc|Hc]; rewrite Hc; reflexivity.
  Qed.

  Definition g_coherent (g : grid2d) : Prop := g_cache g = None \/ g_cache g = Some (g_compute rotm dipm g).

  Definition g_api (op : g_op) : Prop := match op with GOriginX false _ => False | _ => True end.

  Lemma g_step_coherent g op : g_api op -> g_coherent g -> g_coherent (fst (g_step rotm dipm g op)).
  Proof.
    intros Ha H. destruct op as [|o|a|a|v|n|n|q|q|[|] x]; unfold g_step; cbn; try (left; reflexivity); try exact H; try contradiction.
    destruct (g_cache g) eqn:E; cbn; [exact H|]. right.
    destruct g; reflexivity.
  Qed.

  Fixpoint g_attrs_after (g : grid2d) (ops : list g_op) : grid2d :=
    match ops with [] => g | op :: r => g_attrs_after (fst (g_step rotm dipm g op)) r end.

  Lemma g_run_app g ops1 ops2 :
    snd (g_run rotm dipm g (ops1 ++ ops2))
    = snd (g_run rotm dipm g ops1) ++ snd (g_run rotm dipm (g_attrs_after g ops1) ops2).
  Proof.
    revert g; induction ops1 as [|op r IH]; intros g; [reflexivity|].
    simpl app. simpl g_run. simpl g_attrs_after.
    destruct (g_step rotm dipm g op) as [g1 out] eqn:E1. simpl fst.
    specialize (IH g1).
    destruct (g_run rotm dipm g1 (r ++ ops2)) as [g2 outs] eqn:E2.
    destruct (g_run rotm dipm g1 r) as [g3 outs3] eqn:E3. simpl in *.
    rewrite IH. destruct out; reflexivity.
  Qed.

  Lemma g_attrs_after_coherent g ops : Forall g_api ops -> g_coherent g -> g_coherent (g_attrs_after g ops).
  Proof.
    revert g; induction ops as [|op r IH]; intros g Ha H; simpl; [exact H|]. inversion Ha; subst.
    apply IH; [assumption|]. apply g_step_coherent; assumption.
  Qed.

  Lemma g_history_read g ops : Forall g_api ops -> g_coherent g ->
    snd (g_run rotm dipm g (ops ++ [GRead]))
    = snd (g_run rotm dipm g ops) ++ [g_compute rotm dipm (g_attrs_after g ops)].
  Proof.
    intros Ha H. rewrite g_run_app. f_equal.
    pose proof (g_attrs_after_coherent g ops Ha H) as Hc.
    set (g' := g_attrs_after g ops) in *.
    unfold g_run. unfold g_step. destruct Hc as [Hc|Hc]; rewrite Hc; reflexivity.
  Qed.
End WithRot.

(* ---------------- the first-delimiter defect of the pre-repair code ---------------- *)
Lemma centres_old_witness :
  centres_old [(-10)%Q; (-5)%Q; 0%Q] = [(0 + (-5 - -10) - (-5 - -10) / 2)%Q; (0 + (-5 - -10) + (0 - -5) - (0 - -5) / 2)%Q].
Proof. reflexivity. Qed.

Lemma centres_old_witness_values :
  list_eqb Qeq_bool (centres_old [(-10)%Q; (-5)%Q; 0%Q]) [(5 # 2)%Q; (15 # 2)%Q] = true
  /\ list_eqb Qeq_bool (centres [(-10)%Q; (-5)%Q; 0%Q]) [((-15) # 2)%Q; ((-5) # 2)%Q] = true.
Proof. split; vm_compute; reflexivity. Qed.

(* ---------------- DrapeModel: one centroid per layer for a well-formed model ---------------- *)
Lemma drape_xy_length prisms : length (drape_xy prisms) = drape_total prisms.
Proof.
  induction prisms as [|p r IH]; simpl; [reflexivity|].
  unfold drape_xy in *. simpl. rewrite app_length, repeat_length, IH. reflexivity.
Qed.

Lemma drape_tops_length bottoms : forall prisms start,
  drape_wf start prisms -> start + drape_total prisms <= length bottoms ->
  length (drape_tops prisms bottoms) = drape_total prisms.
Proof.
  induction prisms as [|p r IH]; intros start Hwf Hle; [reflexivity|].
  destruct Hwf as [Hf [Hc Hwf]]. simpl in Hle.
  unfold drape_tops in *. simpl. rewrite app_length. rewrite (IH (start + pcount p) Hwf) by lia.
  simpl. f_equal.
  destruct (pcount p) as [|c] eqn:Ec; [lia|].
  unfold drape_slice, slice. rewrite firstn_length, skipn_length. lia.
Qed.

Lemma drape_n_centroids prisms bottoms :
  drape_wf 0 prisms -> drape_total prisms = length bottoms ->
  exists l, drape_centroids prisms bottoms = Ok l /\ length l = length bottoms.
Proof.
  intros Hwf Htot. unfold drape_centroids.
  rewrite (drape_tops_length bottoms prisms 0 Hwf) by lia.
  rewrite drape_xy_length, Htot, Nat.eqb_refl. simpl.
  eexists. split; [reflexivity|].
  rewrite !map2_length, drape_xy_length, (drape_tops_length bottoms prisms 0 Hwf) by lia. lia.
Qed.

(* ---------------- DrapeModel: where each centre is ---------------- *)
Lemma drape_wf_first_ge : forall prisms start p, drape_wf start prisms -> In p prisms -> start <= pfirst p.
Proof.
  induction prisms as [|q r IH]; intros start p Hwf Hin; [contradiction|].
  destruct Hwf as [Hf [Hc Hwf]]. destruct Hin as [<-|Hin]; [lia|]. specialize (IH _ p Hwf Hin). lia.
Qed.

Lemma drape_wf_end_le : forall prisms start p, drape_wf start prisms -> In p prisms ->
  pfirst p + pcount p <= start + drape_total prisms.
Proof.
  induction prisms as [|q r IH]; intros start p Hwf Hin; [contradiction|].
  destruct Hwf as [Hf [Hc Hwf]]. simpl. destruct Hin as [<-|Hin]; [lia|]. specialize (IH _ p Hwf Hin). lia.
Qed.

Lemma drape_xy_nth : forall prisms start pi p l,
  drape_wf start prisms -> nth_error prisms pi = Some p -> l < pcount p ->
  nth_error (drape_xy prisms) (pfirst p + l - start) = Some (px p, py p).
Proof.
  induction prisms as [|q r IH]; intros start pi p l Hwf Hp Hl; [destruct pi; discriminate|].
  destruct Hwf as [Hf [Hc Hwf]]. unfold drape_xy in *. simpl flat_map. destruct pi as [|pi]; simpl in Hp.
  - inversion Hp; subst q. rewrite nth_error_app1 by (rewrite repeat_length; lia).
    replace (pfirst p + l - start) with l by lia.
    destruct (nth_error (repeat (px p, py p) (pcount p)) l) as [x|] eqn:E;
      [|apply nth_error_None in E; rewrite repeat_length in E; lia].
    apply nth_error_In in E. apply repeat_spec in E. subst x. reflexivity.
  - pose proof (drape_wf_first_ge r _ p Hwf (nth_error_In _ _ Hp)) as Hge.
    rewrite nth_error_app2 by (rewrite repeat_length; lia). rewrite repeat_length.
    replace (pfirst p + l - start - pcount q) with (pfirst p + l - (start + pcount q)) by lia.
    apply (IH (start + pcount q) pi p l Hwf Hp Hl).
Qed.

Lemma drape_slice_length (bottoms : list Q) first c : first + c <= length bottoms -> length (slice bottoms first c) = c.
Proof. intros H. unfold slice. rewrite firstn_length, skipn_length. lia. Qed.

Lemma drape_tops_cons q r bottoms :
  drape_tops (q :: r) bottoms = (ptop q :: drape_slice bottoms (pfirst q) (pcount q)) ++ drape_tops r bottoms.
Proof. reflexivity. Qed.

Lemma drape_tops_nth bottoms : forall prisms start pi p l,
  drape_wf start prisms -> start + drape_total prisms <= length bottoms ->
  nth_error prisms pi = Some p -> l < pcount p ->
  nth_error (drape_tops prisms bottoms) (pfirst p + l - start)
  = match l with O => Some (ptop p) | S l' => nth_error bottoms (pfirst p + l') end.
Proof.
  induction prisms as [|q r IH]; intros start pi p l Hwf Hle Hp Hl; [destruct pi; discriminate|].
  destruct Hwf as [Hf [Hc Hwf]]. simpl in Hle. rewrite drape_tops_cons.
  destruct (pcount q) as [|cq] eqn:Ecq; [lia|]. unfold drape_slice.
  assert (Lb : length (ptop q :: slice bottoms (pfirst q) cq) = S cq)
    by (simpl; rewrite drape_slice_length by lia; reflexivity).
  destruct pi as [|pi]; simpl in Hp.
  - inversion Hp; subst q. rewrite nth_error_app1 by (rewrite Lb; lia).
    replace (pfirst p + l - start) with l by lia. destruct l as [|l']; [reflexivity|]. simpl.
    unfold slice. rewrite nth_error_firstn_lt by lia. apply nth_error_skipn_add.
  - pose proof (drape_wf_first_ge r _ p Hwf (nth_error_In _ _ Hp)) as Hge.
    rewrite nth_error_app2 by (rewrite Lb; lia). rewrite Lb.
    replace (pfirst p + l - start - S cq) with (pfirst p + l - (start + S cq)) by lia.
    apply (IH (start + S cq) pi p l Hwf ltac:(lia) Hp Hl).
Qed.

(* layer l of prism p: horizontal position of the prism, elevation = mid point between its top (the prism top for the
   first layer, the bottom of the layer above otherwise) and its bottom *)
Lemma drape_centroid_nth prisms bottoms pi p l bot :
  drape_wf 0 prisms -> drape_total prisms = length bottoms ->
  nth_error prisms pi = Some p -> l < pcount p -> nth_error bottoms (pfirst p + l) = Some bot ->
  exists cs top, drape_centroids prisms bottoms = Ok cs
    /\ match l with O => top = ptop p | S l' => nth_error bottoms (pfirst p + l') = Some top end
    /\ nth_error cs (pfirst p + l) = Some (px p, py p, ((top + bot) / 2)%Q).
Proof.
  intros Hwf Htot Hp Hl Hbot.
  destruct (drape_n_centroids prisms bottoms Hwf Htot) as [cs [Hcs _]].
  pose proof (drape_xy_nth prisms 0 pi p l Hwf Hp Hl) as Hxy. rewrite Nat.sub_0_r in Hxy.
  pose proof (drape_tops_nth bottoms prisms 0 pi p l Hwf ltac:(lia) Hp Hl) as Htop. rewrite Nat.sub_0_r in Htop.
  assert (Hex : exists top, nth_error (drape_tops prisms bottoms) (pfirst p + l) = Some top
                  /\ match l with O => top = ptop p | S l' => nth_error bottoms (pfirst p + l') = Some top end).
  { destruct l as [|l'].
    - exists (ptop p). split; [exact Htop|reflexivity].
    - destruct (nth_error bottoms (pfirst p + l')) as [t|] eqn:E.
      + exists t. split; [exact Htop|reflexivity].
      + apply nth_error_None in E. assert (pfirst p + S l' < length bottoms) by (apply nth_error_Some; congruence). lia. }
  destruct Hex as [top [Ht Hspec]].
  exists cs, top. split; [exact Hcs|]. split; [exact Hspec|].
  unfold drape_centroids in Hcs.
  destruct (Nat.eqb (length (drape_tops prisms bottoms)) (length bottoms)
            && Nat.eqb (length (drape_xy prisms)) (length bottoms)); [|discriminate].
  inversion Hcs; subst cs.
  apply (nth_error_map2 (fun '(x, y) z => (x, y, z))) with (a := (px p, py p)) (b := ((top + bot) / 2)%Q); [exact Hxy|].
  apply (nth_error_map2 (fun t b => ((t + b) / 2)%Q)); assumption.
Qed.

(* ---------------- the code's matrices are rigid motions about the origin whenever cos^2 + sin^2 = 1 ---------------- *)
Lemma rotz_cs_rigid c s u v w : (c * c + s * s == 1)%Q ->
  let '(x, y, z) := rotz_cs c s (u, v, w) in (x * x + y * y == u * u + v * v)%Q /\ z = w.
Proof.
  intros H. unfold rotz_cs. split; [|reflexivity].
  setoid_replace ((c * u - s * v) * (c * u - s * v) + (s * u + c * v) * (s * u + c * v))%Q
    with ((c * c + s * s) * (u * u + v * v))%Q by ring.
  rewrite H. ring.
Qed.

Lemma rotx_cs_rigid c s u v w : (c * c + s * s == 1)%Q ->
  let '(x, y, z) := rotx_cs c s (u, v, w) in (y * y + z * z == v * v + w * w)%Q /\ x = u.
Proof.
  intros H. unfold rotx_cs. split; [|reflexivity].
  setoid_replace ((c * v - s * w) * (c * v - s * w) + (s * v + c * w) * (s * v + c * w))%Q
    with ((c * c + s * s) * (v * v + w * w))%Q by ring.
  rewrite H. ring.
Qed.

Definition sqdist (a b : V3) : Q :=
  let '(x, y, z) := a in let '(p, q, r) := b in ((x - p) * (x - p) + (y - q) * (y - q) + (z - r) * (z - r))%Q.

(* rotated about the origin: the rotated-and-translated point is as far from the origin as the local point is from 0,
   keeps its height, and the local point (0,0,0) goes to the origin itself *)
Lemma rotz_about_origin c s o p : (c * c + s * s == 1)%Q ->
  (sqdist (vadd (rotz_cs c s p) o) o == sqdist p vzero)%Q
  /\ veq (vadd (rotz_cs c s vzero) o) o.
Proof.
  intros H. destruct p as [[u v] w]. destruct o as [[ox oy] oz]. unfold sqdist, vadd, rotz_cs, vzero, veq. split.
  - setoid_replace ((c * u - s * v + ox - ox) * (c * u - s * v + ox - ox) + (s * u + c * v + oy - oy) * (s * u + c * v + oy - oy)
                    + (w + oz - oz) * (w + oz - oz))%Q
      with ((c * c + s * s) * (u * u + v * v) + w * w)%Q by ring.
    rewrite H. ring.
  - repeat split; ring.
Qed.

Lemma dip_rot_about_origin c s cd sd o p : (c * c + s * s == 1)%Q -> (cd * cd + sd * sd == 1)%Q ->
  (sqdist (vadd (rotz_cs c s (rotx_cs cd sd p)) o) o == sqdist p vzero)%Q.
Proof.
  intros H Hd. destruct p as [[u v] w]. destruct o as [[ox oy] oz]. unfold sqdist, vadd, rotz_cs, rotx_cs, vzero.
  setoid_replace ((c * u - s * (cd * v - sd * w) + ox - ox) * (c * u - s * (cd * v - sd * w) + ox - ox)
                  + (s * u + c * (cd * v - sd * w) + oy - oy) * (s * u + c * (cd * v - sd * w) + oy - oy)
                  + (sd * v + cd * w + oz - oz) * (sd * v + cd * w + oz - oz))%Q
    with ((c * c + s * s) * (u * u) + (c * c + s * s) * ((cd * cd) * (v * v) + (sd * sd) * (w * w) - 2 * cd * sd * v * w)
          + ((sd * sd) * (v * v) + (cd * cd) * (w * w) + 2 * cd * sd * v * w))%Q by ring.
  rewrite H.
  setoid_replace (1 * (u * u) + 1 * (cd * cd * (v * v) + sd * sd * (w * w) - 2 * cd * sd * v * w)
                  + (sd * sd * (v * v) + cd * cd * (w * w) + 2 * cd * sd * v * w))%Q
    with (u * u + (cd * cd + sd * sd) * (v * v) + (cd * cd + sd * sd) * (w * w))%Q by ring.
  rewrite Hd. ring.
Qed.

Lemma veq_refl_g a : veq a a.
Proof. destruct a as [[x y] z]. unfold veq. repeat split; reflexivity. Qed.
